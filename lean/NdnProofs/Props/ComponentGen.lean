import NdnGen.Component
import NdnProofs.Props.TlvVarGen
import NdnModel.Name
/-!
  The pure helpers of `src/ndn/encoding/name/Component.py` that build and take apart a component - `get_type`,
  `get_value`, `to_number`, `from_bytes`, `from_number` and the five typed-number constructors - TRANSLATED from the
  source text on every run (`harness/py2lean.py` -> `lean/NdnGen/Component.lean`; calls into `tlv_var.py` go to the
  translation of that module, the `TYPE_*` / `MAX_COMPONENT_TYPE_VALUE` constants are read from the module text), are
  equal for ALL inputs to the functions of the name model (`NdnModel/Name.lean`, namespace `Ndn.Comp`) that the
  theorems of C09 and C19 are about.
-/
set_option linter.unusedSimpArgs false
namespace Ndn.ComponentGen
open Ndn Ndn.Py Ndn.TlvVarGen

/-- every helper asked for was inside the translated subset -/
theorem all_translated :
    Gen.Component.get_type_translated = true ∧ Gen.Component.get_value_translated = true ∧
    Gen.Component.to_number_translated = true ∧ Gen.Component.from_bytes_translated = true ∧
    Gen.Component.from_number_translated = true ∧ Gen.Component.from_segment_translated = true ∧
    Gen.Component.from_byte_offset_translated = true ∧ Gen.Component.from_sequence_num_translated = true ∧
    Gen.Component.from_version_translated = true ∧ Gen.Component.from_timestamp_translated = true := by decide

theorem sliceFrom_nat {α} (l : List α) (n : Nat) (x : Int) (hx : x = (n : Int)) : sliceFrom l x = l.drop n := by
  subst hx
  unfold sliceFrom
  rw [normIdx_nonneg _ _ (by omega)]
  simp only [Int.toNat_natCast]
  by_cases h : n ≤ l.length
  · rw [Nat.min_eq_left h]
  · rw [Nat.min_eq_right (by omega), List.drop_length, List.drop_of_length_le (by omega)]

/-- **Component.get_type**, every byte string: the translated source is `Ndn.Comp.getType` (error classes included). -/
theorem get_type_eq (c : Bytes) :
    Gen.Component.get_type c = (Comp.getType c).map (fun t => ((t : Nat) : Int)) := by
  simp only [Gen.Component.get_type, Comp.getType]
  cases h1 : parseTlNum c 0 with
  | error e => rw [parse_tl_num_error 0 rfl h1]; rfl
  | ok p1 => obtain ⟨t, n⟩ := p1; rw [parse_tl_num_ok 0 rfl h1]; rfl

/-- **Component.get_value**, every byte string: the translated source is `Ndn.Comp.getValue`. -/
theorem get_value_eq (c : Bytes) : Gen.Component.get_value c = Comp.getValue c := by
  simp only [Gen.Component.get_value, Comp.getValue]
  cases h1 : parseTlNum c 0 with
  | error e => rw [parse_tl_num_error 0 rfl h1]; rfl
  | ok p1 =>
    obtain ⟨t, s1⟩ := p1
    rw [parse_tl_num_ok 0 rfl h1]
    simp only [ok_bind]
    cases h2 : parseTlNum c s1 with
    | error e => rw [parse_tl_num_error _ rfl h2]; rfl
    | ok p2 =>
      obtain ⟨l, s2⟩ := p2
      rw [parse_tl_num_ok _ rfl h2]
      simp only [ok_bind]
      rw [sliceFrom_nat c (s1 + s2) _ (by omega)]

/-- **Component.to_number**, every byte string: the translated source is `Ndn.Comp.toNumber`. -/
theorem to_number_eq (c : Bytes) :
    Gen.Component.to_number c = (Comp.toNumber c).map (fun t => ((t : Nat) : Int)) := by
  simp only [Gen.Component.to_number, Comp.toNumber, Comp.getValue]
  cases h1 : parseTlNum c 0 with
  | error e => rw [parse_tl_num_error 0 rfl h1]; rfl
  | ok p1 =>
    obtain ⟨t, s1⟩ := p1
    rw [parse_tl_num_ok 0 rfl h1]
    simp only [ok_bind]
    cases h2 : parseTlNum c s1 with
    | error e => rw [parse_tl_num_error _ rfl h2]; rfl
    | ok p2 =>
      obtain ⟨l, s2⟩ := p2
      rw [parse_tl_num_ok _ rfl h2]
      simp only [ok_bind]
      rw [sliceFrom_nat c (s1 + s2) _ (by omega)]; rfl


theorem writeTlNumInto_append (pre rest : Bytes) (v : Nat) (hv : v < 2 ^ 64) (hr : tlNumSize v ≤ rest.length) :
    writeTlNumInto v (pre ++ rest) pre.length = .ok (pre ++ writeTlNum v ++ rest.drop (tlNumSize v), tlNumSize v) := by
  unfold writeTlNumInto
  rw [if_pos hv, blit_ok _ _ _ (by simp [writeTlNum_length]; omega)]
  simp [writeTlNum_length, List.take_append, List.drop_append, bind, Except.bind, pure, Except.pure]

theorem bytearrayOfSize_nat (x : Int) (n : Nat) (hx : x = (n : Int)) (hn : n < 2 ^ 63) :
    bytearrayOfSize x = .ok (List.replicate n 0) := by
  subst hx
  unfold bytearrayOfSize
  rw [if_neg (by omega), if_neg (by omega), Int.toNat_natCast]

theorem setSliceFrom_append {α} (pre rest v : List α) (x : Int) (hx : x = (pre.length : Int)) :
    setSliceFrom (pre ++ rest) x v = pre ++ v := by
  subst hx
  unfold setSliceFrom
  rw [normIdx_nonneg _ _ (by omega)]
  have e : min ((pre.length : Int)).toNat (pre ++ rest).length = pre.length := by
    simp only [List.length_append, Int.toNat_natCast]; omega
  rw [e, List.take_left']
  rfl

theorem setSlice_append {α} (pre rest v : List α) (x y : Int) (hx : x = (pre.length : Int))
    (hy : y = ((pre.length + rest.length : Nat) : Int)) :
    setSlice (pre ++ rest) x y v = pre ++ v := by
  subst hx hy
  unfold setSlice
  rw [normIdx_nonneg _ _ (by omega), normIdx_nonneg _ _ (by omega)]
  have e : min ((pre.length : Int)).toNat (pre ++ rest).length = pre.length := by
    simp only [List.length_append, Int.toNat_natCast]; omega
  have e2 : min (((pre.length + rest.length : Nat) : Int)).toNat (pre ++ rest).length = pre.length + rest.length := by
    simp only [List.length_append, Int.toNat_natCast]; omega
  rw [e, e2, List.take_left' rfl, Nat.max_eq_right (by omega),
    List.drop_of_length_le (by simp only [List.length_append]; omega)]
  simp

/-- **Component.from_bytes**, every value shorter than 2^62 bytes and every Type `≥ 0`: the translated source - size
    computation, `bytearray(n)`, two `write_tl_num` into it, the splice of the value - is `Ndn.Comp.fromBytes`, i.e.
    `tlv typ val` for `0 < typ ≤ 65535` and `ValueError` otherwise. -/
theorem from_bytes_eq (v : Bytes) (typ : Nat) (hv : v.length < 2 ^ 62) :
    Gen.Component.from_bytes v typ = Comp.fromBytes v typ := by
  simp only [Gen.Component.from_bytes, Comp.fromBytes]
  have hm : Comp.MAX_TYPE = 65535 := rfl
  by_cases hr : typ = 0 ∨ typ > Comp.MAX_TYPE
  · rw [if_pos (by omega), if_pos hr]
  · rw [if_neg (by omega), if_neg hr]
    have hl : Py.len v = ((v.length : Nat) : Int) := rfl
    simp only [hl, get_tl_num_size_eq, ok_bind]
    have s1 := tlNumSize_cases typ
    have s2 := tlNumSize_cases v.length
    rw [bytearrayOfSize_nat _ (tlNumSize typ + tlNumSize v.length + v.length) (by omega) (by omega)]
    simp only [ok_bind]
    have w1 := writeTlNumInto_append [] (List.replicate (tlNumSize typ + tlNumSize v.length + v.length) 0) typ
      (by omega) (by simp; omega)
    simp only [List.nil_append, List.length_nil, List.drop_replicate] at w1
    rw [write_tl_num_ok _ 0 rfl rfl (show (0 : Nat) < 2 ^ 63 by omega) w1]
    simp only [ok_bind]
    have w2 := writeTlNumInto_append (writeTlNum typ)
      (List.replicate (tlNumSize typ + tlNumSize v.length + v.length - tlNumSize typ) 0) v.length
      (by omega) (by simp; omega)
    simp only [writeTlNum_length, List.drop_replicate] at w2
    rw [write_tl_num_ok _ _ rfl rfl (show tlNumSize typ < 2 ^ 63 by omega) w2]
    simp only [ok_bind]
    have hlen : (writeTlNum typ ++ writeTlNum v.length).length = tlNumSize typ + tlNumSize v.length := by
      simp [writeTlNum_length]
    first
      | rw [setSliceFrom_append _ _ _ _ (by omega)]
      | rw [setSlice_append _ _ _ _ _ (by omega) (by simp only [List.length_replicate]; omega)]
    rfl

/-- a Type `≤ 0` (negative ones included) is rejected with `ValueError` before anything else -/
theorem from_bytes_nonpos (v : Bytes) (typ : Int) (h : typ ≤ 0) :
    Gen.Component.from_bytes v typ = .error .valueError := by
  simp only [Gen.Component.from_bytes]
  rw [if_pos (by omega)]

theorem pack_uint_bytes_neg (v : Int) (hv : v < 0) : Gen.TlvVar.pack_uint_bytes v = .error .structError := by
  simp only [Gen.TlvVar.pack_uint_bytes, pack, packField_neg _ v hv]
  simp (disch := omega) only [if_pos, if_neg]
  try rfl

theorem packUint_length_le (n : Nat) : (packUint n).length ≤ 8 := by
  unfold packUint; repeat' split
  all_goals simp

/-- **Component.from_number**, EVERY int (negative and `≥ 2^64` included) and every Type `≥ 0`: the translated source
    is `Ndn.Comp.fromNumber` (`struct.error` from `pack_uint_bytes` first, then the Type check of `from_bytes`). -/
theorem from_number_eq (val : Int) (typ : Nat) :
    Gen.Component.from_number val typ = Comp.fromNumber val typ := by
  simp only [Gen.Component.from_number, Comp.fromNumber]
  by_cases hneg : val < 0
  · rw [pack_uint_bytes_neg val hneg, if_pos (by omega)]; rfl
  · obtain ⟨n, rfl⟩ := Int.eq_ofNat_of_zero_le (by omega : 0 ≤ val)
    rw [pack_uint_bytes_eq]
    by_cases hbig : n < 2 ^ 64
    · rw [if_pos hbig, if_neg (by omega)]
      simp only [ok_bind, Int.toNat_natCast]
      have := packUint_length_le n
      rw [from_bytes_eq _ _ (by omega)]
      try (cases Comp.fromBytes (packUint n) typ <;> rfl)
    · rw [if_neg hbig, if_pos (by omega)]; rfl


/-- the typed-number constructors are `from_number` with the Type constants of the module (read from the source) -/
theorem from_typed_number_eq (v : Int) :
    Gen.Component.from_segment v = Comp.fromNumber v 50 ∧ Gen.Component.from_byte_offset v = Comp.fromNumber v 52 ∧
    Gen.Component.from_version v = Comp.fromNumber v 54 ∧ Gen.Component.from_timestamp v = Comp.fromNumber v 56 ∧
    Gen.Component.from_sequence_num v = Comp.fromNumber v 58 := by
  have h := fun t => from_number_eq v t
  refine ⟨?_, ?_, ?_, ?_, ?_⟩
  · simp only [Gen.Component.from_segment]; rw [show ((50 : Int)) = ((50 : Nat) : Int) from rfl, h]
  · simp only [Gen.Component.from_byte_offset]; rw [show ((52 : Int)) = ((52 : Nat) : Int) from rfl, h]
  · simp only [Gen.Component.from_version]; rw [show ((54 : Int)) = ((54 : Nat) : Int) from rfl, h]
  · simp only [Gen.Component.from_timestamp]; rw [show ((56 : Int)) = ((56 : Nat) : Int) from rfl, h]
  · simp only [Gen.Component.from_sequence_num]; rw [show ((58 : Int)) = ((58 : Nat) : Int) from rfl, h]


/-! ### the translated definitions run -/
example : Gen.Component.from_bytes [0x61, 0x62] 8 = .ok [8, 2, 0x61, 0x62] := by decide +kernel
example : Gen.Component.from_number 256 50 = .ok [50, 2, 1, 0] := by decide +kernel
example : Gen.Component.from_number (-1) 50 = .error .structError := by decide +kernel
example : Gen.Component.from_bytes [] 65536 = .error .valueError := by decide +kernel
example : Gen.Component.to_number [50, 2, 1, 0] = .ok 256 := by decide +kernel
example : Gen.Component.get_value [0xFD, 1, 0, 1, 7] = .ok [7] := by decide +kernel

end Ndn.ComponentGen
