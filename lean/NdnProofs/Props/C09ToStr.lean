import NdnProofs.Props.C09
/-! C09, `to_str` after the repair in /repo: total on well-formed components; typed-number components of a width
    that is not a nonNegativeInteger are printed generically and round-trip. -/
namespace Ndn.C09
open Ndn Ndn.Comp
/-- **toStr_total.** `to_str` never fails on a well-formed component: every branch prints something (the
    number shorthand is used only for 1/2/4/8-byte values, so there is no integer-to-text size limit to hit -
    repaired in /repo: a typed-number component of 1786 bytes or more used to raise ValueError, and through the
    eager `Name.to_str` in `params_sha256_checker`'s log line that ValueError escaped the receive pipeline). -/
theorem toStr_total (p : AComp) (h : ValidComp p) : ∃ u, toStr (repC p) = .ok u := by
  have hv : p.2.length < 2^64 := h.2.2
  have ht : p.1 < 2^64 := by have := h.2.1; omega
  simp only [repC]
  rw [toStr_tlv p.1 p.2 ht hv]
  by_cases h1 : p.1 = 1
  · simp only [h1, if_true]; exact ⟨_, rfl⟩
  · by_cases h2 : p.1 = 2
    · simp only [h2]; exact ⟨_, rfl⟩
    · simp only [h1, h2, if_false]
      cases altUriOfType p.1 with
      | none => exact ⟨_, rfl⟩
      | some s =>
        by_cases hw : (p.2.length = 1 ∨ p.2.length = 2 ∨ p.2.length = 4 ∨ p.2.length = 8)
        · simp only [if_pos hw]; exact ⟨_, rfl⟩
        · simp only [if_neg hw]; exact ⟨_, rfl⟩


/-- a typed-number component whose value is not 1, 2, 4 or 8 bytes long is printed in the generic form -/
theorem toStr_oddwidth_generic (p : AComp) (h : ValidComp p) (h1 : p.1 ≠ 1) (h2 : p.1 ≠ 2)
    (hw : ¬ (p.2.length = 1 ∨ p.2.length = 2 ∨ p.2.length = 4 ∨ p.2.length = 8)) :
    toStr (tlv p.1 p.2) = .ok (typePrefix p.1 ++ escBytes p.2) := by
  have hv : p.2.length < 2^64 := h.2.2
  have ht : p.1 < 2^64 := by have := h.2.1; omega
  rw [toStr_tlv p.1 p.2 ht hv]
  rw [if_neg h1, if_neg h2]
  cases altUriOfType p.1 with
  | none => rfl
  | some s => exact if_neg hw

/-- **fromStr_toStr_oddwidth.** A typed-number component whose value is not 1, 2, 4 or 8 bytes long is not a
    number in the sense of the naming conventions: it is printed in the generic `<type>=<escaped bytes>` form and
    reads back as itself - no hypothesis on the value. -/
theorem fromStr_toStr_oddwidth (p : AComp) (h : ValidComp p) (h1 : p.1 ≠ 1) (h2 : p.1 ≠ 2)
    (hw : ¬ (p.2.length = 1 ∨ p.2.length = 2 ∨ p.2.length = 4 ∨ p.2.length = 8)) :
    (toStr (repC p) >>= fromStr) = .ok (repC p) := by
  have hts := toStr_oddwidth_generic p h h1 h2 hw
  have hfs := fromStr_canonical p.1 p.2 h.1 h.2.1
  show (toStr (tlv p.1 p.2) >>= fromStr) = .ok (tlv p.1 p.2)
  rw [hts]
  exact hfs

end Ndn.C09
