import NdnProofs.Props.C10
import NdnProofs.Props.C06
import NdnProofs.Lemmas.LpAgree
/-!
  # C10 at byte level - composed with the packet decoders of the receive pipeline (C06 / C07)

  `Ndn.RecvBytes.receiveBytes` (NdnModel/ReceiveBytes.lean) is `_receive` with all four decoders computed from
  the delivered bytes by the codec models of C07.  Its envelope decoder `lpDec` and the envelope decoder `parseLp T`
  the C10 theorems are about are two independently written models of `parse_lp_packet_v2`; they are proved equal on
  EVERY byte string (`Ndn.LpCodec.parseLp_eq_lpDec`), so everything below is a statement about `receiveBytes`:
  nothing about the enclosed packet is assumed (it is an arbitrary byte string, decoded by the real decoder
  models), and headers with illegal values, repeated Nack headers, nested envelopes are covered as the code
  behaves.
-/
namespace Ndn.C10
open Ndn Ndn.Recv Ndn.Lp Ndn.RecvBytes

/-- **decoders_agree.** the byte-level decoders of C06 are the C10 decoders with the Interest / Data decoders made
    concrete: the envelope layer is the same function on every byte string -/
theorem decoders_agree (H : Bytes → Bytes) : bytesDecoders H = decoders T (intDec H) (dataDec H) := by
  unfold bytesDecoders decoders
  simp only [Decoders.mk.injEq]
  exact ⟨funext fun w => (LpCodec.parseLp_eq_lpDec w).symm, rfl, trivial, trivial⟩

/-- `receiveBytes` is the pipeline every C10 theorem quantifies over, instantiated with the byte-level Interest and
    Data decoders -/
theorem receiveBytes_eq (g : Guards) (H : Bytes → Bytes) (st : State) (typ : Nat) (w : Bytes) :
    receiveBytes g H st typ w = receive g (decoders T (intDec H) (dataDec H)) st typ w := by
  unfold receiveBytes; rw [decoders_agree]

/-- every documented decoding error is named by the `except` tuple of each decoding step of `_receive` -/
def Swallows (g : Guards) : Prop :=
  ∀ e ∈ C06.raisable, e ∈ g.caughtLp ∧ e ∈ g.caughtFragTl ∧ e ∈ g.caughtNackInterest ∧ e ∈ g.caughtInterest ∧
    e ∈ g.caughtData

/-- … which is the case in the source today (tables regenerated from `_receive` of both front-ends) -/
theorem frontends_swallow : Swallows Gen.C10.v2 ∧ Swallows Gen.C10.v1 ∧
    Gen.C10.v2.lpType ≠ Gen.C10.v2.interestType ∧ Gen.C10.v2.lpType ≠ Gen.C10.v2.dataType ∧
    Gen.C10.v1.lpType ≠ Gen.C10.v1.interestType ∧ Gen.C10.v1.lpType ≠ Gen.C10.v1.dataType := by
  unfold Swallows; decide

theorem lpDec_raisable {w : Bytes} {e : PyErr} (h : lpDec w = .error e) : e ∈ C06.raisable :=
  (C06.docErr_iff_raisable e).1 (lpDec_doc w e h)

theorem tl_raisable {p : Bytes} {e : PyErr} (h : parseTlNum p 0 = .error e) : e ∈ C06.raisable :=
  (C06.docErr_iff_raisable e).1 (Codec.parseTlNum_doc p 0 e h)

theorem int_raisable {H : Bytes → Bytes} {p : Bytes} {e : PyErr} (h : intDec H p = .error e) : e ∈ C06.raisable :=
  (C06.docErr_iff_raisable e).1 (intDec_doc H p e h)

/-! ## every envelope the decoder accepts, around every byte string -/

/-- **bytes_accepted_transparent.** For EVERY byte string `e` that the envelope decoder accepts as an envelope
    without fragmentation fields and without Nack header, whatever else it contains (unknown or ignored
    headers before or after the Fragment, non-minimal Type / Length encodings, overrunning elements the decoder
    truncates, …), and EVERY byte string `p` it yields as Fragment whose first bytes read as a type number
    `t` other than LpPacket: receiving `e` is receiving `p` bare - same change of the tables, same Interests
    completed, same handlers invoked, same drop when `p` does not decode as an Interest / a Data - except that
    handler invocations capture the envelope's PIT token. -/
theorem bytes_accepted_transparent (g : Guards) (H : Bytes → Bytes) (st : State) (e p : Bytes) (facts : LpFacts)
    (hacc : lpDec e = .ok facts) (hn : facts.nack = none) (hf : facts.fragment = some p)
    (t n : Nat) (htl : parseTlNum p 0 = .ok (t, n)) (hne : t ≠ g.lpType) :
    receiveBytes g H st g.lpType e = receiveNet g (bytesDecoders H) st none facts.pitToken t p ∧
    receiveBytes g H st t p = receiveNet g (bytesDecoders H) st none none t p ∧
    eraseRes (receiveBytes g H st g.lpType e) = eraseRes (receiveBytes g H st t p) ∧
    (g.usesPitToken = false ∨ facts.pitToken = none →
      receiveBytes g H st g.lpType e = receiveBytes g H st t p) := by
  have h1 : receiveBytes g H st g.lpType e = receiveNet g (bytesDecoders H) st none facts.pitToken t p := by
    simp [receiveBytes, receive, guarded, bytesDecoders, hacc, hf, hn, tlDec, htl, Except.map, nackReasonOf]
  have h2 : receiveBytes g H st t p = receiveNet g (bytesDecoders H) st none none t p := by
    simp [receiveBytes, receive, hne]
  refine ⟨h1, h2, ?_, ?_⟩
  · rw [h1, h2]; exact (receiveNet_token_irrelevant _ _ _ _ _ _).1
  · intro h
    rw [h1, h2]
    rcases h with h | h
    · exact (receiveNet_token_irrelevant _ _ _ _ _ _).2 h
    · rw [h]

/-- **bytes_accepted_unreadable / nested.** The remaining Fragments: bytes whose beginning does not read as a type
    number make the envelope a dropped packet (no effect); so does a Fragment that is itself an LpPacket - the
    library does not unwrap twice. -/
theorem bytes_accepted_dropped (g : Guards) (hsw : Swallows g) (hnI : g.lpType ≠ g.interestType)
    (hnD : g.lpType ≠ g.dataType) (H : Bytes → Bytes) (st : State) (e p : Bytes) (facts : LpFacts)
    (hacc : lpDec e = .ok facts) (hn : facts.nack = none) (hf : facts.fragment = some p)
    (hbad : (∃ err, parseTlNum p 0 = .error err) ∨ ∃ n, parseTlNum p 0 = .ok (g.lpType, n)) :
    receiveBytes g H st g.lpType e = .ok (st, []) := by
  rcases hbad with ⟨err, herr⟩ | ⟨n, htl⟩
  · have := (hsw err (tl_raisable herr)).2.1
    simp [receiveBytes, receive, guarded, bytesDecoders, hacc, hf, tlDec, herr, Except.map, this]
  · simp [receiveBytes, receive, guarded, bytesDecoders, hacc, hf, hn, tlDec, htl, Except.map, nackReasonOf, receiveNet,
      hnI, hnD]

/-- an envelope the decoder rejects - whatever the exception class - is dropped without any effect -/
theorem bytes_rejected_dropped (g : Guards) (hsw : Swallows g) (H : Bytes → Bytes) (st : State) (e : Bytes) (err : PyErr)
    (hrej : lpDec e = .error err) : receiveBytes g H st g.lpType e = .ok (st, []) := by
  have := (hsw err (lpDec_raisable hrej)).1
  simp [receiveBytes, receive, guarded, bytesDecoders, hrej, this]

/-! ## envelopes of optional headers around EVERY byte string -/

/-- **bytes_transparent.** For EVERY byte string `p` (a well-formed packet or not) and every list of optional
    envelope headers (known ones with a legal value, unknown ones - critical or not - with any value, in any order
    and number), in every state of the tables:
    * when the first bytes of `p` read as a type number `t` other than LpPacket, receiving
      `LpPacket{ headers…, Fragment = p }` does exactly what receiving `p` bare does - with the byte-level Interest
      and Data decoders, so also the same drop when `p` is malformed - except that handler invocations capture the
      envelope's PIT token (which is the value of a PitToken header; none when there is no such header; that header's
      value when it comes first); equal outright for the legacy front-end and for envelopes without token;
    * otherwise (`p` empty, its type number unreadable, or `p` itself an LpPacket) the envelope is dropped. -/
theorem bytes_transparent (g : Guards) (hg : g.lpType = T.tLpPacket) (hsw : Swallows g)
    (hnI : g.lpType ≠ g.interestType) (hnD : g.lpType ≠ g.dataType) (H : Bytes → Bytes) (st : State)
    (hdrs : List (Nat × Bytes)) (p : Bytes) (hs : Sized hdrs p) (hok : ∀ h ∈ hdrs, HdrOk h) :
    ∃ tok,
      lpDec (lpWrap hdrs p) = .ok { nack := none, pitToken := tok, fragment := some p } ∧
      (∀ tk, tok = some tk → (T.tPitToken, tk) ∈ hdrs) ∧
      ((∀ h ∈ hdrs, h.1 ≠ T.tPitToken) → tok = none) ∧
      (∀ tk rest, hdrs = (T.tPitToken, tk) :: rest → tok = some tk) ∧
      (∀ t n, parseTlNum p 0 = .ok (t, n) → t ≠ T.tLpPacket →
        receiveBytes g H st T.tLpPacket (lpWrap hdrs p) = receiveNet g (bytesDecoders H) st none tok t p ∧
        receiveBytes g H st t p = receiveNet g (bytesDecoders H) st none none t p ∧
        eraseRes (receiveBytes g H st T.tLpPacket (lpWrap hdrs p)) = eraseRes (receiveBytes g H st t p) ∧
        (g.usesPitToken = false ∨ tok = none →
          receiveBytes g H st T.tLpPacket (lpWrap hdrs p) = receiveBytes g H st t p)) ∧
      (((∃ err, parseTlNum p 0 = .error err) ∨ ∃ n, parseTlNum p 0 = .ok (T.tLpPacket, n)) →
        receiveBytes g H st T.tLpPacket (lpWrap hdrs p) = .ok (st, [])) := by
  obtain ⟨tok, hp, h1, h2, h3⟩ := parseLp_wrapped hdrs p hs hok
  rw [LpCodec.parseLp_eq_lpDec] at hp
  refine ⟨tok, hp, h1, h2, h3, ?_, ?_⟩
  · intro t n htl hne
    rw [← hg] at hne ⊢
    exact bytes_accepted_transparent g H st _ p _ hp rfl rfl t n htl hne
  · intro hbad
    rw [← hg] at hbad ⊢
    exact bytes_accepted_dropped g hsw hnI hnD H st _ p _ hp rfl rfl hbad

/-- non-vacuity: an envelope (PitToken, CongestionMark, a critical unknown header) around bytes that are not a packet
    at all, around an Interest without Name, and around a nested envelope -/
example : (∀ h ∈ [((98 : Nat), ([1, 2] : Bytes)), (832, [7]), (1001, [9])], HdrOk h) ∧
    Sized [(98, [1, 2]), (832, [7]), (1001, [9])] [253] ∧ Sized [(98, [1, 2]), (832, [7]), (1001, [9])] [5, 0] ∧
    parseTlNum [253] 0 = .error .structError ∧ parseTlNum [5, 0] 0 = .ok (5, 1) ∧ parseTlNum [100, 0] 0 = .ok (100, 1) := by
  refine ⟨?_, ⟨?_, by decide, by decide⟩, ⟨?_, by decide, by decide⟩, by rfl, by rfl, by rfl⟩
  · intro h hm
    simp only [List.mem_cons, List.not_mem_nil, or_false] at hm
    rcases hm with rfl | rfl | rfl
    all_goals refine ⟨by decide, by decide, by decide, by decide, ?_⟩
    all_goals intro k hk
    all_goals simp only [T, Gen.C10.table, List.mem_cons, Prod.mk.injEq, List.not_mem_nil, or_false] at hk
    · have : k = Kind.flat FKind.bytes := by simpa using hk
      subst this; trivial
    · have : k = Kind.flat FKind.uint := by simpa using hk
      subst this; exact Or.inl rfl
    · simp at hk
  all_goals
    intro h hm
    simp only [List.mem_cons, List.not_mem_nil, or_false] at hm
    rcases hm with rfl | rfl | rfl <;> decide

/-! ## Nack, with the enclosed Interest decoded from its bytes -/

/-- **bytes_nack.** For every envelope `LpPacket{ before…, Nack{…}, after…, Fragment = i }` as in `lp_nack_general`
    (optional headers around a Nack header the in-order scan recognises; every well-formed Nack value: NackReason of
    1/2/4/8 bytes - hence every reason 0 … 2^64-1 - or none, among unknown non-critical sub-elements) around EVERY
    byte string `i`: when `i` decodes as an Interest (byte-level decoder of C07: Name present, parameters-digest
    position, …) with name `N`, exactly the pending Interests named `N` are completed, each with
    `InterestNack(reason)` for exactly the reason the header bytes carry (0 when they carry none), removed from the
    table, nothing else touched; when `i` does not decode - or its type number is unreadable - the envelope is
    dropped and nothing is completed.  No handler is ever invoked. -/
theorem bytes_nack (g : Guards) (hg : g.lpType = T.tLpPacket) (hdg : g.nackByDigest = true)
    (hk : PyErr.keyError ∈ g.caughtNackLookup) (hsw : Swallows g) (H : Bytes → Bytes) (st : State)
    (before after : List (Nat × Bytes)) (nv : Bytes) (ro : Option Nat) (i : Bytes)
    (hs : Sized (before ++ (T.tNack, nv) :: after) i)
    (hb : ∀ h ∈ before, HdrOk h) (ha : ∀ h ∈ after, HdrOk h)
    (hord : ∀ h ∈ before, ¬ AfterNack h.1) (hnv : NackVal nv ro) :
    receiveBytes g H st T.tLpPacket (lpWrap (before ++ (T.tNack, nv) :: after) i) =
      match parseTlNum i 0, intDec H i with
      | .ok _, .ok facts =>
        .ok (afterNack st facts.name, (named st facts.name).map fun p => Effect.nacked p.id (ro.getD 0))
      | _, _ => .ok (st, []) := by
  obtain ⟨tok, hp⟩ := parseLp_nack_general before after nv ro i hs hb ha hord hnv
  rw [LpCodec.parseLp_eq_lpDec] at hp
  rw [← hg]
  cases htl : parseTlNum i 0 with
  | error err =>
    have := (hsw err (tl_raisable htl)).2.1
    simp [receiveBytes, receive, guarded, bytesDecoders, hp, tlDec, htl, Except.map, this]
  | ok tn =>
    cases hint : intDec H i with
    | error err =>
      have := (hsw err (int_raisable hint)).2.2.1
      simp [receiveBytes, receive, guarded, bytesDecoders, hp, tlDec, htl, Except.map, receiveNet, nackReasonOf, hint, this]
    | ok facts =>
      simp only [receiveBytes, receive, if_true, guarded, bytesDecoders, hp, tlDec, htl, Except.map, receiveNet, nackReasonOf,
        Option.map, hint, onNack, nackNode, nackSplit, hdg, hk, named, afterNack]
      cases PyDict.get? st.pit (splitDigest facts.name).1 <;> rfl

/-- every reason below 2^64 in every legal width is a `NackVal`, and so is the empty Nack header -/
theorem nackVal_reason (r w : Nat) (hw : w = 1 ∨ w = 2 ∨ w = 4 ∨ w = 8) (hr : r < 256 ^ w) :
    NackVal (tlv T.tNackReason (Codec.beN w r)) (some r) := by
  refine ⟨[], [], by simp, Or.inr ⟨Codec.beN w r, ?_, ?_, by simp⟩⟩
  · rw [Codec.beN_length w r hw]; exact hw
  · rw [Codec.beVal_beN w r hw hr]

theorem nackVal_empty : NackVal [] none := ⟨[], [], by simp, Or.inl ⟨rfl, rfl⟩⟩

/-! ## headers with illegal values: which exception, and that the envelope is dropped -/

/-- **parseLp_illegal_header.** The first header with an illegal value decides: when optional headers `pre` are
    followed by a header `(t, v)` that the in-order scan recognises (at the position it has reached behind `pre`) as a
    field of kind `k`, and `v` is not a legal value of that kind (`parseVal` raises `e`), the envelope decoder raises
    exactly `e` - whatever follows (a Fragment or not, a Nack header or not). -/
theorem parseLp_illegal_header (pre post : List (Nat × Bytes)) (t : Nat) (v : Bytes) (hpre : ∀ h ∈ pre, HdrOk h)
    (i : Nat) (k : Kind) (hf : findFrom T.fields (scanPos T.fields (pre.map (·.1)) 0) t = some (i, k))
    (e : PyErr) (hv : parseVal T.lengthCheck k v v.length = .error e)
    (hsz : ∀ x ∈ pre ++ (t, v) :: post, x.1 < 2^64 ∧ x.2.length < 2^64)
    (hlen : (wireOf (pre ++ (t, v) :: post)).length < 2^64) :
    parseLp T (tlv T.tLpPacket (wireOf (pre ++ (t, v) :: post))) = .error e := by
  unfold parseLp
  rw [parseAndCheckTl_tlv _ _ (by decide) hlen]
  simp only [bind, Except.bind]
  rw [parseValue_elems T _ hsz]
  obtain ⟨ext, hc, _, _⟩ := collect_prefix pre hpre ((t, v) :: post) 0 [] (Nat.zero_le _)
  rw [hc]
  simp only [collect, hf, hv]

/-- a NonNegativeInteger header (FragIndex, FragCount, IncomingFaceId, NextHopFaceId, CongestionMark) whose value is
    not 1, 2, 4 or 8 bytes long: `ValueError` -/
theorem illegal_uint_width (chk : Bool) (v : Bytes) (hw : ¬ (v.length = 1 ∨ v.length = 2 ∨ v.length = 4 ∨ v.length = 8)) :
    parseVal chk (.flat .uint) v v.length = .error .valueError := by
  simp [parseVal, parseFVal, hw, Except.map]

/-- a nested header (Nack, CachePolicy: `ModelField` without `ignore_critical`) whose value has, behind unknown
    non-critical sub-elements, an unknown sub-element with a critical (odd) type: `DecodeError` -/
theorem illegal_nested_critical (chk : Bool) (sub : List (Nat × FKind)) (u1 u2 : List (Nat × Bytes)) (tc : Nat) (x : Bytes)
    (hu1 : ∀ h ∈ u1, (∀ k, (h.1, k) ∉ sub) ∧ h.1 % 2 = 0) (hunk : ∀ k, (tc, k) ∉ sub) (hodd : tc % 2 = 1)
    (hsz : ∀ e ∈ u1 ++ (tc, x) :: u2, e.1 < 2^64 ∧ e.2.length < 2^64) :
    parseVal chk (.model sub false) (wireOf (u1 ++ (tc, x) :: u2)) (wireOf (u1 ++ (tc, x) :: u2)).length
      = .error .decodeError := by
  simp only [parseVal, List.take_length]
  rw [parseFlat_elems _ _ _ _ hsz, collect_skip_unknown _ _ _ u1 (fun h hm => ⟨(hu1 h hm).1, Or.inl (hu1 h hm).2⟩)]
  simp [collect, findFrom_unknown _ _ _ hunk, hodd, Except.map]

/-- … or a known NonNegativeInteger sub-element (NackReason, CachePolicyType) of a width other than 1/2/4/8: `ValueError` -/
theorem illegal_nested_width (chk ic : Bool) (sub : List (Nat × FKind)) (u1 u2 : List (Nat × Bytes)) (tr j : Nat) (rv : Bytes)
    (hu1 : ∀ h ∈ u1, (∀ k, (h.1, k) ∉ sub) ∧ (h.1 % 2 = 0 ∨ ic = true)) (hfound : findFrom sub 0 tr = some (j, .uint))
    (hw : ¬ (rv.length = 1 ∨ rv.length = 2 ∨ rv.length = 4 ∨ rv.length = 8))
    (hsz : ∀ e ∈ u1 ++ (tr, rv) :: u2, e.1 < 2^64 ∧ e.2.length < 2^64) :
    parseVal chk (.model sub ic) (wireOf (u1 ++ (tr, rv) :: u2)) (wireOf (u1 ++ (tr, rv) :: u2)).length
      = .error .valueError := by
  simp only [parseVal, List.take_length]
  rw [parseFlat_elems _ _ _ _ hsz, collect_skip_unknown _ _ _ u1 hu1]
  simp [collect, hfound, parseFVal, hw, Except.map]

/-- **bytes_illegal_header_dropped.** … and both front-ends drop such an envelope without any effect: no pending
    Interest is completed (a Nack header behind the illegal header included), no handler is invoked. -/
theorem bytes_illegal_header_dropped (g : Guards) (hg : g.lpType = T.tLpPacket) (hsw : Swallows g) (H : Bytes → Bytes)
    (st : State) (pre post : List (Nat × Bytes)) (t : Nat) (v : Bytes) (hpre : ∀ h ∈ pre, HdrOk h)
    (i : Nat) (k : Kind) (hf : findFrom T.fields (scanPos T.fields (pre.map (·.1)) 0) t = some (i, k))
    (e : PyErr) (hv : parseVal T.lengthCheck k v v.length = .error e)
    (hsz : ∀ x ∈ pre ++ (t, v) :: post, x.1 < 2^64 ∧ x.2.length < 2^64)
    (hlen : (wireOf (pre ++ (t, v) :: post)).length < 2^64) :
    lpDec (tlv T.tLpPacket (wireOf (pre ++ (t, v) :: post))) = .error e ∧
    receiveBytes g H st T.tLpPacket (tlv T.tLpPacket (wireOf (pre ++ (t, v) :: post))) = .ok (st, []) := by
  have h := parseLp_illegal_header pre post t v hpre i k hf e hv hsz hlen
  rw [LpCodec.parseLp_eq_lpDec] at h
  have h2 := bytes_rejected_dropped g hsw H st _ e h
  rw [hg] at h2
  exact ⟨h, h2⟩

/-- the cases: a 3-byte CongestionMark behind a PitToken (`ValueError`); a Nack header whose NackReason is 3 bytes
    long (`ValueError`); a Nack header with a critical unknown sub-element (`DecodeError`); a CachePolicy with an
    empty CachePolicyType (`ValueError`) - each in front of a Fragment that would otherwise be processed.  At the
    top level a critical unknown header is NOT illegal (the envelope is parsed with `ignore_critical=True`). -/
example : lpDec (tlv 100 (wireOf [(98, [1]), (832, [0, 0, 1]), (80, [5, 0])])) = .error .valueError ∧
    lpDec (tlv 100 (wireOf [(800, wireOf [(801, [0, 0, 150])]), (80, [5, 0])])) = .error .valueError ∧
    lpDec (tlv 100 (wireOf [(800, wireOf [(801, [150]), (803, [])]), (80, [5, 0])])) = .error .decodeError ∧
    lpDec (tlv 100 (wireOf [(820, wireOf [(821, [])]), (80, [5, 0])])) = .error .valueError ∧
    lpDec (tlv 100 (wireOf [(803, []), (80, [5, 0])])) = .ok ⟨none, none, some [5, 0]⟩ := by
  refine ⟨by rfl, by rfl, by rfl, by rfl, by rfl⟩

/-! ## fragmentation -/

/-- **bytes_fragment_dropped.** Every envelope whose headers are in increasing type-number order and include a
    FragIndex or a FragCount header (any values, any other headers, with or without Fragment, whatever bytes the
    Fragment holds) is dropped by both front-ends: the tables are unchanged, nothing is completed, no handler is
    invoked.  (The library rejects the presence of either field, not only FragCount > 1.) -/
theorem bytes_fragment_dropped (g : Guards) (hg : g.lpType = T.tLpPacket) (hsw : Swallows g) (H : Bytes → Bytes)
    (st : State) (hdrs rest : List (Nat × Bytes))
    (hasc : Ascending hdrs) (hnf : ∀ h ∈ hdrs, h.1 ≠ T.tFragment)
    (hex : ∃ h ∈ hdrs, h.1 = T.tFragIndex ∨ h.1 = T.tFragCount)
    (hsz : ∀ e ∈ hdrs ++ rest, e.1 < 2^64 ∧ e.2.length < 2^64)
    (hlen : (wireOf (hdrs ++ rest)).length < 2^64) :
    receiveBytes g H st T.tLpPacket (tlv T.tLpPacket (wireOf (hdrs ++ rest))) = .ok (st, []) := by
  obtain ⟨e, he⟩ := parseLp_fragmented_general hdrs rest hasc hnf hex hsz hlen
  rw [LpCodec.parseLp_eq_lpDec] at he
  have h2 := bytes_rejected_dropped g hsw H st _ e he
  rw [hg] at h2
  exact h2

/-! ## several Nack headers in one envelope -/

theorem scan_after_nack (pre : List (Nat × Bytes)) (hex : ∃ h ∈ pre, h.1 = T.tNack) :
    ∀ pos, 4 ≤ scanPos T.fields (pre.map (·.1)) pos := by
  induction pre with
  | nil => obtain ⟨h, hm, _⟩ := hex; simp at hm
  | cons h hs ih =>
    intro pos
    obtain ⟨t, v⟩ := h
    simp only [List.map_cons, scanPos]
    by_cases ht : t = T.tNack
    · subst ht
      rcases Nat.lt_or_ge pos 4 with hp | hp
      · rw [nack_found pos (by omega)]
        exact scanPos_ge T.fields (hs.map (·.1)) (3 + 1)
      · cases hfd : findFrom T.fields pos T.tNack with
        | none =>
          have := scanPos_ge T.fields (hs.map (·.1)) pos
          simp only; omega
        | some ik =>
          obtain ⟨i, k⟩ := ik
          have := (findFrom_spec _ _ _ _ _ hfd).1
          have := scanPos_ge T.fields (hs.map (·.1)) (i + 1)
          simp only; omega
    · have hex' : ∃ h ∈ hs, h.1 = T.tNack := by
        obtain ⟨h, hm, ha⟩ := hex
        simp only [List.mem_cons] at hm
        rcases hm with rfl | hm
        · exact absurd ha ht
        · exact ⟨h, hm, ha⟩
      cases findFrom T.fields pos t with
      | none => exact ih hex' pos
      | some ik => exact ih hex' _

/-- **parseLp_nack_repeated.** What the code does with a repeated Nack header: `TlvModel.parse` looks a non-repeatable
    field up only behind the position of the previous hit, so once one header of type Nack has been seen - recognised
    or not - every later Nack header is an unknown non-critical element: it is skipped, whatever its value (a
    different reason, an undecodable value).  The envelope decodes exactly as it does without the later header. -/
theorem parseLp_nack_repeated (pre post : List (Nat × Bytes)) (nv2 p : Bytes)
    (hs : Sized (pre ++ (T.tNack, nv2) :: post) p) (hex : ∃ h ∈ pre, h.1 = T.tNack) :
    Sized (pre ++ post) p ∧
    parseLp T (lpWrap (pre ++ (T.tNack, nv2) :: post) p) = parseLp T (lpWrap (pre ++ post) p) := by
  have hs' : Sized (pre ++ post) p := by
    refine ⟨fun h hm => hs.1 h ?_, hs.2.1, ?_⟩
    · simp only [List.mem_append, List.mem_cons] at hm ⊢
      rcases hm with hm | hm
      · exact Or.inl hm
      · exact Or.inr (Or.inr hm)
    · have := hs.2.2
      simp only [wireOf_length_append, wireOf_cons, List.length_append] at this ⊢
      omega
  have hsz : ∀ (hd : List (Nat × Bytes)), Sized hd p → ∀ e ∈ hd ++ [(T.tFragment, p)], e.1 < 2^64 ∧ e.2.length < 2^64 := by
    intro hd hsd e he
    simp only [List.mem_append, List.mem_singleton] at he
    rcases he with he | rfl
    · exact hsd.1 e he
    · exact ⟨consts_distinct.2.2.2.2.2.2.1, hsd.2.1⟩
  refine ⟨hs', ?_⟩
  unfold parseLp lpWrap
  rw [parseAndCheckTl_tlv _ _ consts_distinct.2.2.2.2.2.1 hs.2.2,
    parseAndCheckTl_tlv _ _ consts_distinct.2.2.2.2.2.1 hs'.2.2]
  simp only [bind, Except.bind]
  rw [parseValue_elems T _ (hsz _ hs), parseValue_elems T _ (hsz _ hs')]
  have h4 := scan_after_nack pre hex 0
  have := collect_drop_unrecognised T.fields (parseVal T.lengthCheck) T.tNack nv2 (post ++ [(T.tFragment, p)]) pre 0 []
    (findFrom_none_of_drop T.fields 4 _ _ nack_not_after h4)
  rw [List.append_assoc, List.cons_append, this, List.append_assoc]

/-- **bytes_nack_repeated.** Hence reception: an envelope with several Nack headers is received exactly as the
    envelope with only the first one - the Interests completed and the reason are those of the first Nack header
    (`bytes_nack`); if the first one is illegal the envelope is dropped (`bytes_illegal_header_dropped`), whatever the
    later ones say. -/
theorem bytes_nack_repeated (g : Guards) (H : Bytes → Bytes) (st : State)
    (pre post : List (Nat × Bytes)) (nv2 p : Bytes)
    (hs : Sized (pre ++ (T.tNack, nv2) :: post) p) (hex : ∃ h ∈ pre, h.1 = T.tNack) :
    lpDec (lpWrap (pre ++ (T.tNack, nv2) :: post) p) = lpDec (lpWrap (pre ++ post) p) ∧
    receiveBytes g H st g.lpType (lpWrap (pre ++ (T.tNack, nv2) :: post) p)
      = receiveBytes g H st g.lpType (lpWrap (pre ++ post) p) := by
  have h := (parseLp_nack_repeated pre post nv2 p hs hex).2
  rw [LpCodec.parseLp_eq_lpDec, LpCodec.parseLp_eq_lpDec] at h
  refine ⟨h, ?_⟩
  simp only [receiveBytes, receive, if_true, bytesDecoders, h]

/-- two Nack headers with different reasons, CongestionMark in between: the first one's reason (50) is the Nack's;
    a later Nack header may even be undecodable (3-byte NackReason) without the envelope being rejected; but an
    undecodable FIRST Nack header rejects the envelope -/
example : lpDec (lpWrap [(800, wireOf [(801, [50])]), (832, [1]), (800, wireOf [(801, [150])])] [5, 0])
      = .ok ⟨some (some 50), none, some [5, 0]⟩ ∧
    lpDec (lpWrap [(800, wireOf [(801, [50])]), (800, wireOf [(801, [0, 0, 150])])] [5, 0])
      = .ok ⟨some (some 50), none, some [5, 0]⟩ ∧
    lpDec (lpWrap [(800, wireOf [(801, [0, 0, 150])]), (800, wireOf [(801, [50])])] [5, 0]) = .error .valueError := by
  refine ⟨by rfl, by rfl, by rfl⟩

/-! ## PIT token: the bytes sent by a reply, byte for byte -/

/-- **reply_bytes.** The bytes the reply closure of an Interest that arrived with PIT token `tok` writes to the face
    for reply wire `r`: exactly `LpPacket{ PitToken = tok, Fragment = r }` - the token's bytes and the reply's bytes
    unmodified, nothing else in the envelope; without a token: exactly `r`. -/
theorem reply_bytes (tok r : Bytes) :
    reply T (some tok) r = tlv T.tLpPacket (tlv T.tPitToken tok ++ tlv T.tFragment r) ∧ reply T none r = r := by
  refine ⟨?_, rfl⟩
  show putWithPitToken T r tok = _
  rw [putWithPitToken_eq]
  simp [lpWrap, wireOf]

/-- the values `_put_raw_packet_with_pit_token` assigns: `LpPacketValue(pit_token = tok, fragment = r)` -/
def tokenVals (tok r : Bytes) : List Codec.Value :=
  [.none, .none, .bytes tok, .none, .none, .none, .none, .none, .none, .none, .none, .none, .bytes r]

/-- the values `make_network_nack` assigns: `LpPacketValue(nack = NetworkNack(nack_reason = reason), fragment = i)` -/
def nackVals (reason : Nat) (i : Bytes) : List Codec.Value :=
  [.none, .none, .none, .model [.uint reason], .none, .none, .none, .none, .none, .none, .none, .none, .bytes i]

theorem beN_uintWidth (r : Nat) : Codec.beN (Codec.uintWidth none r) r = packUint r := by
  simp only [Codec.uintWidth, packUint, Codec.beN]
  by_cases h1 : r ≤ 0xFF
  · simp [h1]
  · by_cases h2 : r ≤ 0xFFFF
    · simp [h1, h2]
    · by_cases h3 : r ≤ 0xFFFFFFFF <;> simp [h1, h2, h3]

theorem uintWidth_ok (r : Nat) (hr : r < 2^64) : ¬ (r ≥ 256 ^ Codec.uintWidth none r) := by
  simp only [Codec.uintWidth]
  by_cases h1 : r ≤ 0xFF
  · simp [h1]; omega
  · by_cases h2 : r ≤ 0xFFFF
    · simp [h1, h2]; omega
    · by_cases h3 : r ≤ 0xFFFFFFFF <;> simp [h1, h2, h3] <;> omega

/-- **encoders_are_codec.** The two envelope encoders of C10 are `TlvModel.encode` of the generic codec (C08) over the
    schema generated from `LpPacket` / `LpPacketValue`: `LpPacket(lp_packet = <values>).encode()` yields exactly the
    bytes of `putWithPitToken` / `makeNetworkNack`, for every token, reply, Interest wire and every reason below
    2^64 (sizes that fit the 64-bit TL encoding - otherwise `struct.error`). -/
theorem encoders_are_codec (tok r : Bytes) (htok : tok.length < 2^64) (hr : r.length < 2^64)
    (hlen : (tlv T.tPitToken tok ++ tlv T.tFragment r).length < 2^64) :
    Codec.enc (.model 100 Gen.C07.lp false) (.model (tokenVals tok r)) = .ok (putWithPitToken T r tok) := by
  have hl : (tlv 98 tok ++ tlv 80 r).length < 2^64 := hlen
  show _ = Except.ok (reply T (some tok) r)
  rw [(reply_bytes tok r).1]
  simp [Codec.enc, Codec.encFields, Gen.C07.lp, tokenVals, Codec.tlvE, htok, hr, bind, Except.bind, pure, Except.pure, T,
    Gen.C10.table]
  simpa using hl

theorem nack_encoder_is_codec (reason : Nat) (i : Bytes) (hreason : reason < 2^64) (hi : i.length < 2^64)
    (hlen : (tlv T.tNack (tlv T.tNackReason (packUint reason)) ++ tlv T.tFragment i).length < 2^64) :
    Codec.enc (.model 100 Gen.C07.lp false) (.model (nackVals reason i)) = .ok (makeNetworkNack T i reason) := by
  have hl : (tlv 800 (tlv 801 (packUint reason)) ++ tlv 80 i).length < 2^64 := hlen
  have hp : (packUint reason).length < 2^64 := by have := packUint_le reason; omega
  have hn : (tlv 801 (packUint reason)).length < 2^64 := by
    have := tlv_length_le 801 (packUint reason); have := packUint_le reason; omega
  rw [makeNetworkNack_eq]
  simp [Codec.enc, Codec.encFields, Gen.C07.lp, nackVals, Codec.tlvE, hi, bind, Except.bind, pure, Except.pure, T,
    Gen.C10.table, uintWidth_ok reason hreason, beN_uintWidth, hp, hn, wireOf]
  simpa using hl

/-- **reply_parses_back.** Parsing the bytes of a reply back with the envelope decoder of the byte-level pipeline
    gives exactly `(tok, r)`: no Nack, PIT token `tok`, Fragment `r` - for every token length (0 included) and every
    reply wire. -/
theorem reply_parses_back (tok r : Bytes) (htok : tok.length < 2^64) (hr : r.length < 2^64)
    (hlen : (wireOf [(T.tPitToken, tok), (T.tFragment, r)]).length < 2^64) :
    lpDec (reply T (some tok) r) = .ok { nack := none, pitToken := some tok, fragment := some r } := by
  rw [← LpCodec.parseLp_eq_lpDec]
  exact token_roundtrip r tok htok hr hlen

/-- the effects of the Data path and of the Nack path are completions: a handler is invoked only by the Interest
    path, and the token in its reply closure is the one `_receive` read off the envelope (appv2) or none (legacy) -/
theorem receiveNet_invoke_token (g : Guards) (Dc : Decoders) (st st' : State) (tok : Option Bytes) (t : Nat) (p : Bytes)
    (effs : List Effect) (h : receiveNet g Dc st none tok t p = .ok (st', effs)) (pfx : NameKey) (tok' : Option Bytes)
    (hm : Effect.invoke pfx tok' ∈ effs) : tok' = if g.usesPitToken then tok else none := by
  unfold receiveNet at h
  simp only at h
  split at h
  · unfold guarded at h
    cases hi : Dc.interest p with
    | error e =>
      rw [hi] at h; simp only at h
      split at h
      · cases h; simp at hm
      · cases h
    | ok i =>
      rw [hi] at h
      simp only [onInterest] at h
      cases hl : longestPrefix st.fib i.name with
      | none => rw [hl] at h; cases h; simp at hm
      | some pf =>
        rw [hl] at h
        simp only at h
        split at h
        · cases h; simp at hm
        · cases h
          simp only [List.mem_singleton, Effect.invoke.injEq] at hm
          exact hm.2
  · split at h
    · unfold guarded at h
      cases hd : Dc.data p with
      | error e =>
        rw [hd] at h; simp only at h
        split at h
        · cases h; simp at hm
        · cases h
      | ok d =>
        rw [hd] at h
        cases h
        simp only [List.mem_flatMap, dataEffects] at hm
        obtain ⟨e, _, he⟩ := hm
        split at he
        · simp at he
        · simp at he
    · cases h; simp at hm

/-- **token_echo.** End to end, on bytes: for EVERY envelope carrying a PitToken header `tk` (any length, preceded
    only by headers of types the format does not have, followed by any optional headers) around EVERY byte string
    `p`, every handler invocation that its reception (appv2) causes has a reply closure that, for every reply wire `r`,
    writes exactly `LpPacket{ PitToken = tk, Fragment = r }` to the face - bytes that parse back to `(tk, r)`. -/
theorem token_echo (g : Guards) (hg : g.lpType = T.tLpPacket) (hv2 : g.usesPitToken = true) (H : Bytes → Bytes)
    (st st' : State) (pre rest : List (Nat × Bytes)) (tk p : Bytes) (effs : List Effect)
    (hs : Sized (pre ++ (T.tPitToken, tk) :: rest) p)
    (hpre : ∀ h ∈ pre, Unknown h.1) (hok : ∀ h ∈ rest, HdrOk h)
    (hrecv : receiveBytes g H st T.tLpPacket (lpWrap (pre ++ (T.tPitToken, tk) :: rest) p) = .ok (st', effs))
    (pfx : NameKey) (tok : Option Bytes) (hm : Effect.invoke pfx tok ∈ effs) (r : Bytes) :
    tok = some tk ∧ reply T tok r = tlv T.tLpPacket (tlv T.tPitToken tk ++ tlv T.tFragment r) ∧
    (tk.length < 2^64 → r.length < 2^64 → (wireOf [(T.tPitToken, tk), (T.tFragment, r)]).length < 2^64 →
      lpDec (reply T tok r) = .ok { nack := none, pitToken := some tk, fragment := some r }) := by
  have hp := parseLp_token_general pre rest tk p hs hpre hok
  rw [LpCodec.parseLp_eq_lpDec] at hp
  have htok : tok = some tk := by
    rw [← hg] at hrecv
    cases htl : parseTlNum p 0 with
    | error err =>
      simp only [receiveBytes, receive, if_true, guarded, bytesDecoders, hp, tlDec, htl, Except.map] at hrecv
      split at hrecv
      · simp only [Except.ok.injEq, Prod.mk.injEq] at hrecv; rw [← hrecv.2] at hm; simp at hm
      · simp at hrecv
    | ok tn =>
      simp only [receiveBytes, receive, if_true, guarded, bytesDecoders, hp, tlDec, htl, Except.map, nackReasonOf,
        Option.map] at hrecv
      have := receiveNet_invoke_token g _ st st' (some tk) tn.1 p effs hrecv pfx tok hm
      simpa [hv2] using this
  subst htok
  exact ⟨rfl, (reply_bytes tk r).1, fun h1 h2 h3 => reply_parses_back tk r h1 h2 h3⟩

/-- **no_token_echo.** Without a PitToken header (any optional headers) - and for a bare packet - every handler
    invocation has no token and its reply closure writes exactly the reply bytes. -/
theorem no_token_echo (g : Guards) (hg : g.lpType = T.tLpPacket) (H : Bytes → Bytes)
    (st st' : State) (hdrs : List (Nat × Bytes)) (p : Bytes) (effs : List Effect)
    (hs : Sized hdrs p) (hok : ∀ h ∈ hdrs, HdrOk h) (hno : ∀ h ∈ hdrs, h.1 ≠ T.tPitToken)
    (hrecv : receiveBytes g H st T.tLpPacket (lpWrap hdrs p) = .ok (st', effs))
    (pfx : NameKey) (tok : Option Bytes) (hm : Effect.invoke pfx tok ∈ effs) (r : Bytes) :
    tok = none ∧ reply T tok r = r := by
  obtain ⟨tok0, hp, _, h2, _⟩ := parseLp_wrapped hdrs p hs hok
  rw [h2 hno, LpCodec.parseLp_eq_lpDec] at hp
  have htok : tok = none := by
    rw [← hg] at hrecv
    cases htl : parseTlNum p 0 with
    | error err =>
      simp only [receiveBytes, receive, if_true, guarded, bytesDecoders, hp, tlDec, htl, Except.map] at hrecv
      split at hrecv
      · simp only [Except.ok.injEq, Prod.mk.injEq] at hrecv; rw [← hrecv.2] at hm; simp at hm
      · simp at hrecv
    | ok tn =>
      simp only [receiveBytes, receive, if_true, guarded, bytesDecoders, hp, tlDec, htl, Except.map, nackReasonOf,
        Option.map] at hrecv
      have := receiveNet_invoke_token g _ st st' none tn.1 p effs hrecv pfx tok hm
      simpa using this
  subst htok
  exact ⟨rfl, rfl⟩

/-- non-vacuity of `token_echo` / `no_token_echo` / `bytes_nack` / `bytes_fragment_dropped` on real bytes (Interest `/a/b`
    made by the library's encoder, handler at `/a`, one Interest pending on `/a/b`; `H` irrelevant here):
    Sequence + PitToken 01020304 + CongestionMark around the Interest invokes the handler with exactly that token;
    without PitToken header: no token; a Nack header with a 2-byte reason 0x0096 behind a PitToken nacks the pending
    Interest with 150; the same envelope with a FragCount header is dropped. -/
example :
    receiveBytes Gen.C10.v2 (fun _ => []) ⟨[], [[[8, 1, 97]]]⟩ 100
      (lpWrap [(81, [0, 0, 0, 0, 0, 0, 0, 1]), (98, [1, 2, 3, 4]), (832, [1])]
        [5, 18, 7, 6, 8, 1, 97, 8, 1, 98, 10, 4, 1, 2, 3, 4, 12, 2, 15, 160])
      = .ok (⟨[], [[[8, 1, 97]]]⟩, [.invoke [[8, 1, 97]] (some [1, 2, 3, 4])]) ∧
    receiveBytes Gen.C10.v2 (fun _ => []) ⟨[], [[[8, 1, 97]]]⟩ 100
      (lpWrap [(832, [1]), (1001, [7])] [5, 18, 7, 6, 8, 1, 97, 8, 1, 98, 10, 4, 1, 2, 3, 4, 12, 2, 15, 160])
      = .ok (⟨[], [[[8, 1, 97]]]⟩, [.invoke [[8, 1, 97]] none]) ∧
    receiveBytes Gen.C10.v2 (fun _ => []) ⟨[([[8, 1, 97], [8, 1, 98]], [⟨0, false, []⟩])], [[[8, 1, 97]]]⟩ 100
      (lpWrap [(98, [9]), (800, wireOf [(801, [0, 150])])] [5, 18, 7, 6, 8, 1, 97, 8, 1, 98, 10, 4, 1, 2, 3, 4, 12, 2, 15, 160])
      = .ok (⟨[], [[[8, 1, 97]]]⟩, [.nacked 0 150]) ∧
    receiveBytes Gen.C10.v2 (fun _ => []) ⟨[([[8, 1, 97], [8, 1, 98]], [⟨0, false, []⟩])], [[[8, 1, 97]]]⟩ 100
      (lpWrap [(83, [1]), (98, [9]), (800, wireOf [(801, [0, 150])])] [5, 18, 7, 6, 8, 1, 97, 8, 1, 98, 10, 4, 1, 2, 3, 4, 12, 2, 15, 160])
      = .ok (⟨[([[8, 1, 97], [8, 1, 98]], [⟨0, false, []⟩])], [[[8, 1, 97]]]⟩, []) := by
  refine ⟨by rfl, by rfl, by rfl, by rfl⟩

/-! ## elements after the Fragment -/

/-- beyond the last field of the format nothing is recognised any more: the rest of the elements is skipped -/
theorem collect_past_end {κ ν} (tbl : List (Nat × κ)) (pv : κ → Bytes → Nat → Except PyErr ν) (els : List (Nat × Bytes)) :
    ∀ pos acc, tbl.length ≤ pos → collect tbl pv true els pos acc = .ok acc := by
  induction els with
  | nil => intro pos acc _; rfl
  | cons e r ih =>
    intro pos acc hp
    obtain ⟨t, v⟩ := e
    have hnone : findFrom tbl pos t = none := by
      cases hf : findFrom tbl pos t with
      | none => rfl
      | some ik =>
        obtain ⟨h1, hget⟩ := findFrom_spec _ _ _ _ _ hf
        rw [List.getElem?_eq_none (by omega)] at hget
        simp at hget
    simp only [collect, hnone, Bool.not_true, Bool.and_false, Bool.false_eq_true, if_false]
    exact ih pos acc hp

theorem frag_only_last : ∀ i, i < T.fields.length → T.fields[i]?.map (·.1) = some T.tFragment → i = T.fields.length - 1 := by
  decide

/-- **parseLp_after_fragment.** The Fragment is the last field of the format, so once a Fragment element has been
    reached the in-order scan recognises nothing any more: EVERY sequence of elements written after it - unknown
    headers, but also a late PitToken, Nack, FragIndex, a second Fragment, with any value - is skipped, and the
    envelope decodes exactly as the envelope that ends with that Fragment.  Holds for arbitrary elements `els`
    before it (legal or not, a Nack header among them or not). -/
theorem parseLp_after_fragment (els tail : List (Nat × Bytes)) (p : Bytes)
    (hsz : ∀ e ∈ els ++ (T.tFragment, p) :: tail, e.1 < 2^64 ∧ e.2.length < 2^64)
    (hlen : (wireOf (els ++ (T.tFragment, p) :: tail)).length < 2^64) :
    parseLp T (tlv T.tLpPacket (wireOf (els ++ (T.tFragment, p) :: tail)))
      = parseLp T (tlv T.tLpPacket (wireOf (els ++ [(T.tFragment, p)]))) := by
  have hsz' : ∀ e ∈ els ++ [(T.tFragment, p)], e.1 < 2^64 ∧ e.2.length < 2^64 := by
    intro e he
    apply hsz e
    simp only [List.mem_append, List.mem_cons, List.not_mem_nil, or_false] at he ⊢
    rcases he with he | he
    · exact Or.inl he
    · exact Or.inr (Or.inl he)
  have hlen' : (wireOf (els ++ [(T.tFragment, p)])).length < 2^64 := by
    have := hlen
    simp only [wireOf_length_append, wireOf_cons, wireOf_nil, List.length_append, List.length_nil] at this ⊢
    omega
  have key : ∀ (els : List (Nat × Bytes)) pos acc,
      collect T.fields (parseVal T.lengthCheck) true (els ++ (T.tFragment, p) :: tail) pos acc
        = collect T.fields (parseVal T.lengthCheck) true (els ++ [(T.tFragment, p)]) pos acc := by
    intro els
    induction els with
    | nil =>
      intro pos acc
      simp only [List.nil_append, collect]
      cases hf : findFrom T.fields pos T.tFragment with
      | none =>
        have hp : T.fields.length ≤ pos := by
          rcases Nat.lt_or_ge pos T.fields.length with h | h
          · rw [frag_last pos (by omega)] at hf; simp at hf
          · exact h
        simp only [Bool.not_true, Bool.and_false, Bool.false_eq_true, if_false]
        exact collect_past_end _ _ tail pos acc hp
      | some ik =>
        obtain ⟨i, k⟩ := ik
        obtain ⟨_, hget⟩ := findFrom_spec _ _ _ _ _ hf
        have hilt : i < T.fields.length := by
          rcases Nat.lt_or_ge i T.fields.length with h | h
          · exact h
          · rw [List.getElem?_eq_none h] at hget; simp at hget
        have hi := frag_only_last i hilt (by rw [hget]; rfl)
        simp only
        cases parseVal T.lengthCheck k p p.length with
        | error e => rfl
        | ok x => exact collect_past_end _ _ tail (i + 1) _ (by omega)
    | cons e r ih =>
      intro pos acc
      obtain ⟨t, v⟩ := e
      simp only [List.cons_append, collect]
      cases findFrom T.fields pos t with
      | none =>
        simp only [Bool.not_true, Bool.and_false, Bool.false_eq_true, if_false]
        exact ih pos acc
      | some ik =>
        simp only
        cases parseVal T.lengthCheck ik.2 v v.length with
        | error e => rfl
        | ok x => exact ih _ _
  unfold parseLp
  rw [parseAndCheckTl_tlv _ _ (by decide) hlen, parseAndCheckTl_tlv _ _ (by decide) hlen']
  simp only [bind, Except.bind]
  rw [parseValue_elems T _ hsz, parseValue_elems T _ hsz', key els 0 []]

/-- **bytes_after_fragment_ignored.** Hence reception: `LpPacket{ els…, Fragment = p, tail… }` is received exactly as
    `LpPacket{ els…, Fragment = p }` - same tables, same completions (Nack or Data), same handler invocations with the
    same token - for every `tail`; in particular an unknown header after the Fragment is ignored like an unknown header
    before it, and the network packet handed on is `p`, not `p` plus what follows. -/
theorem bytes_after_fragment_ignored (g : Guards) (H : Bytes → Bytes) (st : State) (els tail : List (Nat × Bytes)) (p : Bytes)
    (hsz : ∀ e ∈ els ++ (T.tFragment, p) :: tail, e.1 < 2^64 ∧ e.2.length < 2^64)
    (hlen : (wireOf (els ++ (T.tFragment, p) :: tail)).length < 2^64) :
    lpDec (tlv T.tLpPacket (wireOf (els ++ (T.tFragment, p) :: tail))) = lpDec (lpWrap els p) ∧
    receiveBytes g H st g.lpType (tlv T.tLpPacket (wireOf (els ++ (T.tFragment, p) :: tail)))
      = receiveBytes g H st g.lpType (lpWrap els p) := by
  have h := parseLp_after_fragment els tail p hsz hlen
  rw [LpCodec.parseLp_eq_lpDec, LpCodec.parseLp_eq_lpDec] at h
  refine ⟨h, ?_⟩
  simp only [receiveBytes, receive, if_true, bytesDecoders, lpWrap, h]

/-- a Sequence header, a PitToken and even a Nack header AFTER the Fragment: all ignored (not a Nack, no token) -/
example : lpDec (tlv 100 (wireOf ([(832, [1])] ++ (80, [5, 0]) :: [(81, [0, 0, 0, 0, 0, 0, 0, 7]), (98, [1, 2]),
    (800, wireOf [(801, [150])]), (1001, [3])]))) = .ok ⟨none, none, some [5, 0]⟩ := by rfl

/-! ## every sequence of elements: the decoder's answer in closed form -/

/-- **lpDec_elems.** Total at the level of elements: for EVERY sequence of TLV elements `els` (any types, any values,
    any order, any repetition - Fragment anywhere or absent), the answer of the envelope decoder to
    `LpPacket{ els }` is the element-level fold `collect` over the format table followed by the fragmentation
    check - whichever exception a header value raises first is the decoder's exception, otherwise the first
    recognised Nack / PitToken / Fragment elements are what `_receive` sees.  (For byte strings that are not a
    sequence of well-formed elements the decoder is still total and its exceptions are swallowed:
    `bytes_rejected_dropped`, `Ndn.C06.receive_bytes_total`.) -/
theorem lpDec_elems (els : List (Nat × Bytes)) (hsz : ∀ e ∈ els, e.1 < 2^64 ∧ e.2.length < 2^64)
    (hlen : (wireOf els).length < 2^64) :
    lpDec (tlv T.tLpPacket (wireOf els)) =
      match collect T.fields (parseVal T.lengthCheck) true els 0 [] with
      | .error e => .error e
      | .ok fs =>
        if (lookup fs T.tFragIndex).isSome || (lookup fs T.tFragCount).isSome then .error .decodeError
        else .ok { nack := nackOf T (lookup fs T.tNack), pitToken := bytesOf (lookup fs T.tPitToken),
                   fragment := bytesOf (lookup fs T.tFragment) } := by
  rw [← LpCodec.parseLp_eq_lpDec]
  unfold parseLp
  rw [parseAndCheckTl_tlv _ _ (by decide) hlen]
  simp only [bind, Except.bind]
  rw [parseValue_elems T _ hsz]
  cases collect T.fields (parseVal T.lengthCheck) true els 0 [] <;> rfl

end Ndn.C10
