import NdnProofs.Lemmas.ClientConf
import NdnGen.C20
/-!
# C20 — Client configuration resolves with environment over file over platform default

Theorems about `Ndn.ClientConf.readClientConf` / `resolveLocation` / `defaultFace` (models of
`read_client_conf`, its inner `resolve_location`, and `default_face`) for **every** environment, every
file-system predicate, every configuration-file content and every URI text.
Specification vocabulary (does not mention the implementation):
* `FirstExisting paths ex p` — `p` is the first candidate that exists; `NoneExisting`;
* `assignments ls` — the option assignments of the DEFAULT section of a file, in file order, as
  (name as written, value joined from its lines) (`Lemmas/ClientConf.lean`: `logical` groups the physical lines
  into section headers, options with their continuation lines, and stray lines; `defaultOptions` keeps the
  options that stand under `[DEFAULT]`, which is where a client.conf without headers puts everything);
* `FileSets ls key v` — the first assignment to `key` in the file (option names are case-insensitive); `FileSilent`;
* `Setting …` — the value used for a setting: environment, else first existing file, else platform default.
-/
namespace Ndn.C20
open Ndn Ndn.ClientConf

def FirstExisting (paths : List Str) (ex : Str → Bool) (p : Str) : Prop :=
  ∃ pre post, paths = pre ++ p :: post ∧ ex p = true ∧ ∀ q ∈ pre, ex q = false

def NoneExisting (paths : List Str) (ex : Str → Bool) : Prop := ∀ q ∈ paths, ex q = false

def FileSets (ls : List Str) (key v : Str) : Prop :=
  ∃ pre post k, assignments ls = pre ++ (k, v) :: post ∧ lower k = key ∧
    ∀ k' v', (k', v') ∈ pre → lower k' ≠ key

def FileSilent (ls : List Str) (key : Str) : Prop := ∀ k v, (k, v) ∈ assignments ls → lower k ≠ key

/-- The value a setting must have: the environment override if present, else the value in the first
    existing configuration file, else the platform default `dflt`. -/
inductive Setting (paths : List Str) (W : World) (key : Str) (envv : Option Str) (dflt : Str) : Str → Prop
  | env (v) : envv = some v → Setting paths W key envv dflt v
  | file (p v) : envv = none → FirstExisting paths W.exist p → FileSets (W.files p) key v →
      Setting paths W key envv dflt v
  | defaultNoFile : envv = none → NoneExisting paths W.exist → Setting paths W key envv dflt dflt
  | defaultSilent (p) : envv = none → FirstExisting paths W.exist p → FileSilent (W.files p) key →
      Setting paths W key envv dflt dflt

/-- the configuration file in effect: the first existing candidate, `''` when there is none -/
def ConfFile (paths : List Str) (ex : Str → Bool) (p : Str) : Prop :=
  FirstExisting paths ex p ∨ (NoneExisting paths ex ∧ p = [])

theorem layer_setting (paths : List Str) (W : World) (hne : [] ∉ paths) (key : Str) (envv : Option Str)
    (dflt : Str) (hok : getPath paths W.exist ≠ [] → confFails (W.files (getPath paths W.exist)) = false) :
    Setting paths W key envv dflt
      (layer dflt (if getPath paths W.exist = [] then none else fileGet (W.files (getPath paths W.exist)) key) envv) := by
  cases envv with
  | some v => exact .env v rfl
  | none =>
    rcases getPath_cases paths W.exist hne with ⟨h1, h2⟩ | ⟨pre, post, p, h1, h2, h3, h4, h5⟩
    · simp only [h1, if_true, layer]
      exact .defaultNoFile rfl h2
    · simp only [h5, h4, if_false]
      have hok' := hok (h5 ▸ h4)
      rw [h5] at hok'
      cases hf : fileGet (W.files p) key with
      | none => exact .defaultSilent p rfl ⟨pre, post, h1, h2, h3⟩ (fileGet_none _ _ hok' hf)
      | some v => exact .file p v rfl ⟨pre, post, h1, h2, h3⟩ (fileGet_some _ _ _ hf)

theorem confFile_getPath (paths : List Str) (ex : Str → Bool) (hne : [] ∉ paths) :
    ConfFile paths ex (getPath paths ex) := by
  rcases getPath_cases paths ex hne with ⟨h1, h2⟩ | ⟨pre, post, p, h1, h2, h3, _, h5⟩
  · exact .inr ⟨h2, h1⟩
  · exact .inl (h5 ▸ ⟨pre, post, h1, h2, h3⟩)

theorem rawConf_ok (P : Platform) (W : World) (path : Str) (raw : Conf) (h : rawConf P W = .ok (path, raw)) :
    ∃ dt, defaultTransport P W.exist = .ok dt ∧ path = getPath P.confPaths W.exist ∧
      (path ≠ [] → confFails (W.files path) = false) ∧
      raw = { transport := layer dt (if path = [] then none else fileGet (W.files path) "transport".toList) W.env.transport
              pib := layer P.pibScheme (if path = [] then none else fileGet (W.files path) "pib".toList) W.env.pib
              tpm := layer P.tpmScheme (if path = [] then none else fileGet (W.files path) "tpm".toList) W.env.tpm } := by
  unfold rawConf at h
  cases hd : defaultTransport P W.exist with
  | error e => simp [hd] at h
  | ok dt =>
    simp only [hd] at h
    by_cases hdup : confFails (if getPath P.confPaths W.exist = [] then []
        else W.files (getPath P.confPaths W.exist)) = true
    · rw [if_pos hdup] at h; simp at h
    · rw [if_neg hdup] at h
      simp only [Except.ok.injEq, Prod.mk.injEq] at h
      obtain ⟨h1, h2⟩ := h
      refine ⟨dt, rfl, h1.symm, ?_, ?_⟩
      · subst h1
        intro hp
        simpa [hp] using hdup
      · subst h1
        rw [← h2]
        by_cases hp : getPath P.confPaths W.exist = [] <;> simp [hp]

/-- decomposition of a successful `readClientConf` -/
theorem read_ok (P : Platform) (W : World) (c : Conf) (h : readClientConf P W = .ok c) :
    ∃ dt, defaultTransport P W.exist = .ok dt ∧
      let path := getPath P.confPaths W.exist
      let f := fun k => if path = [] then none else fileGet (W.files path) k
      (path ≠ [] → confFails (W.files path) = false) ∧
      c.transport = layer dt (f "transport".toList) W.env.transport ∧
      resolveLocation path P.pibPaths W.exist (layer P.pibScheme (f "pib".toList) W.env.pib) = .ok c.pib ∧
      resolveLocation path P.tpmPaths W.exist (layer P.tpmScheme (f "tpm".toList) W.env.tpm) = .ok c.tpm := by
  unfold readClientConf at h
  cases hr : rawConf P W with
  | error e => simp [hr] at h
  | ok pr =>
    obtain ⟨path, raw⟩ := pr
    simp only [hr] at h
    obtain ⟨dt, hd, hpath, hokf, hraw⟩ := rawConf_ok P W path raw hr
    refine ⟨dt, hd, ?_⟩
    cases h1 : resolveLocation path P.pibPaths W.exist raw.pib with
    | error e => simp [h1] at h
    | ok pib =>
      simp only [h1] at h
      cases h2 : resolveLocation path P.tpmPaths W.exist raw.tpm with
      | error e => simp [h2] at h
      | ok tpm =>
        simp only [h2, Except.ok.injEq] at h
        subst h
        subst hpath
        rw [hraw] at h1 h2
        exact ⟨hokf, by rw [hraw], h1, h2⟩

/-- **precedence (transport).** The transport used is the environment override if present, else the value
    in the first existing configuration file, else the platform default. -/
theorem precedence_transport (P : Platform) (W : World) (c : Conf) (hne : [] ∉ P.confPaths)
    (h : readClientConf P W = .ok c) :
    ∃ dt, defaultTransport P W.exist = .ok dt ∧
      Setting P.confPaths W "transport".toList W.env.transport dt c.transport := by
  obtain ⟨dt, hd, hok, ht, _, _⟩ := read_ok P W c h
  exact ⟨dt, hd, ht ▸ layer_setting P.confPaths W hne _ _ _ hok⟩

/-- **precedence (public-information store).** The store setting `v` that is resolved is chosen by the same
    rule, and the result is `resolveLocation` of it relative to the configuration file in effect
    (see `location_*`). -/
theorem precedence_pib (P : Platform) (W : World) (c : Conf) (hne : [] ∉ P.confPaths)
    (h : readClientConf P W = .ok c) :
    ∃ v conf, Setting P.confPaths W "pib".toList W.env.pib P.pibScheme v ∧ ConfFile P.confPaths W.exist conf ∧
      resolveLocation conf P.pibPaths W.exist v = .ok c.pib := by
  obtain ⟨_, _, hok, _, hp, _⟩ := read_ok P W c h
  exact ⟨_, _, layer_setting P.confPaths W hne _ _ _ hok, confFile_getPath _ _ hne, hp⟩

/-- **precedence (private-key store).** -/
theorem precedence_tpm (P : Platform) (W : World) (c : Conf) (hne : [] ∉ P.confPaths)
    (h : readClientConf P W = .ok c) :
    ∃ v conf, Setting P.confPaths W "tpm".toList W.env.tpm P.tpmScheme v ∧ ConfFile P.confPaths W.exist conf ∧
      resolveLocation conf P.tpmPaths W.exist v = .ok c.tpm := by
  obtain ⟨_, _, hok, _, _, hp⟩ := read_ok P W c h
  exact ⟨_, _, layer_setting P.confPaths W hne _ _ _ hok, confFile_getPath _ _ hne, hp⟩

/-! ### the configuration-file reader (`parseConf`, the model of `ConfigParser(interpolation=None).read_string`) -/

/-- **conf_value_is_first_assignment.** When the file is read without error, `parser['DEFAULT']` is exactly
    the list of option assignments standing under `[DEFAULT]` (the implicit one at the top, or a later explicit
    one; options under any other section header are not visible), names lower-cased, each value joined from
    its lines; so the value of a key is that of its first assignment - `FileSets` - and a key without
    assignment is absent. -/
theorem conf_value_is_first_assignment (ls : List Str) (d : PyDict Str Str) (h : parseConf ls = .ok d) :
    d = (assignments ls).map (fun p => (lower p.1, p.2)) ∧
    (∀ key v, PyDict.get? d key = some v → FileSets ls key v) ∧
    (∀ key, PyDict.get? d key = none → FileSilent ls key) := by
  refine ⟨parseConf_ok ls d h, fun key v hg => ?_, fun key hg => ?_⟩
  · exact fileGet_some ls key v (by simp [fileGet, h, hg])
  · exact fileGet_none ls key (by simp [confFails, h]) (by simp [fileGet, h, hg])

/-- **conf_errors.** Which texts raise, and what.  With `items = logical ls` (the section headers, options
    and stray lines of `'[DEFAULT]\n' + text`):
    * the text is read without error iff no section name (other than DEFAULT) is opened twice, no option
      name (case-insensitively) is assigned twice under the same section name, and every line that is not
      a comment, blank, continuation or header is `name <=|:> value` with a non-empty name;
    * `ParsingError` iff the first two hold and the third fails (it is raised at the end of the file, so a
      duplicate anywhere wins);
    * `DuplicateSectionError` / `DuplicateOptionError` only if there is such a duplicate;
    * `MissingSectionHeaderError` never (the prepended `[DEFAULT]` line). -/
theorem conf_errors (ls : List Str) :
    ((∃ d, parseConf ls = .ok d) ↔
      (headers (logical ls)).Nodup ∧ (qualified none (logical ls)).Nodup ∧ hasBogus (logical ls) = false) ∧
    (parseConf ls = .error .parsing ↔
      (headers (logical ls)).Nodup ∧ (qualified none (logical ls)).Nodup ∧ hasBogus (logical ls) = true) ∧
    (parseConf ls = .error .duplicateSection → ¬ (headers (logical ls)).Nodup) ∧
    (parseConf ls = .error .duplicateOption → ¬ (qualified none (logical ls)).Nodup) ∧
    parseConf ls ≠ .error .missingSectionHeader :=
  ⟨parseConf_ok_iff ls, parseConf_parsing_iff ls,
   fun h => (parseConf_error ls _ h).2.1 rfl, fun h => (parseConf_error ls _ h).2.2 rfl,
   fun h => (parseConf_error ls _ h).1 rfl⟩

/-! ### store locations -/

/-- **location_existing_as_given.** A store location that exists is used as given. -/
theorem location_existing_as_given (conf : Str) (defaults : List Str) (ex : Str → Bool) (scheme loc : Str)
    (hs : ':' ∉ scheme) (hl : ':' ∉ loc) (hne : loc ≠ []) (hex : ex loc = true) :
    resolveLocation conf defaults ex (scheme ++ ':' :: loc) = .ok (scheme ++ ':' :: loc) := by
  simp [resolveLocation, part_append _ _ _ hs, hl, resolveLocation.finish, hne, hex]

/-- **location_relative_to_conf.** A location that does not exist as given but exists relative to the
    configuration file `dir/base` is resolved against `dir`. -/
theorem location_relative_to_conf (dir base : Str) (defaults : List Str) (ex : Str → Bool) (scheme loc : Str)
    (hs : ':' ∉ scheme) (hl : ':' ∉ loc) (hne : loc ≠ []) (hrel : loc.head? ≠ some '/')
    (hb : '/' ∉ base) (hd : dir ≠ []) (hdl : dir.getLast? ≠ some '/')
    (hnex : ex loc = false) (hex : ex (dir ++ '/' :: loc) = true) :
    resolveLocation (dir ++ '/' :: base) defaults ex (scheme ++ ':' :: loc)
      = .ok (scheme ++ ':' :: (dir ++ '/' :: loc)) := by
  simp [resolveLocation, part_append _ _ _ hs, hl, resolveLocation.finish, hne, hnex,
    dirname_concrete dir base hb hd hdl, join_concrete dir loc hd hdl hrel, hex]

/-- **location_fallback.** A setting without location, or whose location exists neither as given nor
    relative to the configuration file, falls back to the first existing platform default location. -/
theorem location_fallback (conf : Str) (defaults : List Str) (ex : Str → Bool) (scheme loc d : Str)
    (hs : ':' ∉ scheme) (hl : ':' ∉ loc)
    (hmiss : loc = [] ∨ (ex loc = false ∧ ex (join (dirname conf) loc) = false))
    (hd : FirstExisting defaults ex d) :
    resolveLocation conf defaults ex (scheme ++ ':' :: loc) = .ok (scheme ++ ':' :: d) ∧
    (loc = [] → resolveLocation conf defaults ex scheme = .ok (scheme ++ ':' :: d)) := by
  obtain ⟨pre, post, h1, h2, h3⟩ := hd
  have hf := find_first defaults ex pre post d h1 h2 h3
  refine ⟨?_, ?_⟩
  · rcases hmiss with rfl | ⟨ha, hb⟩
    · simp [resolveLocation, part_append _ _ _ hs, resolveLocation.finish, hf]
    · by_cases hne : loc = []
      · subst hne
        simp [resolveLocation, part_append _ _ _ hs, resolveLocation.finish, hf]
      · simp [resolveLocation, part_append _ _ _ hs, hl, resolveLocation.finish, hne, ha, hb, hf]
  · intro _
    simp [resolveLocation, part_none _ _ hs, resolveLocation.finish, hf]

/-! ### transport URIs -/

/-- characters of a host name or IPv4 literal -/
def hostChar (c : Char) : Bool := c.isAlphanum || c = '.' || c = '-' || c = '_'

/-- the face a URI `scheme://host[:port]` denotes -/
def denotes (scheme host : Str) (port : Nat) : Face :=
  if scheme ∈ tcpSchemes then .tcp host port else .udp (some host) port

def portText : Option Str → Str
  | none => []
  | some d => ':' :: d

theorem hostChar_ne (c d : Char) (h : hostChar c = true) (hd : hostChar d = false) : c ≠ d := by
  intro e; subst e; simp [h] at hd

theorem digit_ne (c d : Char) (h : c.isDigit = true) (hd : d.isDigit = false) : c ≠ d := by
  intro e; subst e; simp [h] at hd

theorem splitScheme_ok (pre post : Str) (h1 : ':' ∉ pre) (h2 : pre ≠ [])
    (h3 : pre.head?.map Char.isAlpha = some true) (h4 : pre.all schemeChar = true) :
    splitScheme (pre ++ ':' :: post) = (lower pre, post) := by
  simp [splitScheme, part_append _ _ _ h1, h2, h3, h4]

/-- the netloc part of `scheme://host[:port]` -/
theorem face_netloc (host : Str) (ds : Option Str)
    (hh : ∀ c ∈ host, hostChar c = true) (hd : ∀ d, ds = some d → ∀ c ∈ d, c.isDigit = true) :
    ∀ c ∈ host ++ portText ds, notDelim c = true ∧ c ≠ '[' ∧ c ≠ ']' ∧ c ≠ '@' ∧ c ≠ '%' := by
  intro c hc
  have key : hostChar c = true ∨ c = ':' ∨ c.isDigit = true := by
    rcases List.mem_append.mp hc with h | h
    · exact .inl (hh c h)
    · cases ds with
      | none => simp [portText] at h
      | some d =>
        rcases List.mem_cons.mp h with e | e
        · exact .inr (.inl e)
        · exact .inr (.inr (hd d rfl c e))
  rcases key with h | h | h
  · refine ⟨?_, hostChar_ne _ _ h (by decide), hostChar_ne _ _ h (by decide), hostChar_ne _ _ h (by decide),
      hostChar_ne _ _ h (by decide)⟩
    have a := hostChar_ne _ '/' h (by decide)
    have b := hostChar_ne _ '?' h (by decide)
    have c' := hostChar_ne _ '#' h (by decide)
    simp [notDelim, a, b, c']
  · subst h; decide
  · refine ⟨?_, digit_ne _ _ h (by decide), digit_ne _ _ h (by decide), digit_ne _ _ h (by decide),
      digit_ne _ _ h (by decide)⟩
    have a := digit_ne _ '/' h (by decide)
    have b := digit_ne _ '?' h (by decide)
    have c' := digit_ne _ '#' h (by decide)
    simp [notDelim, a, b, c']

theorem urlsplit_simple (scheme host : Str) (ds : Option Str) (b : Bool)
    (h1 : ':' ∉ scheme) (h2 : scheme ≠ []) (h3 : scheme.head?.map Char.isAlpha = some true)
    (h4 : scheme.all schemeChar = true)
    (hh : ∀ c ∈ host, hostChar c = true) (hd : ∀ d, ds = some d → ∀ c ∈ d, c.isDigit = true) :
    urlsplit (scheme ++ ':' :: '/' :: '/' :: (host ++ portText ds)) b
      = .ok { scheme := lower scheme, netloc := host ++ portText ds, path := [] } := by
  have hn := face_netloc host ds hh hd
  have hnd : ∀ c ∈ host ++ portText ds, notDelim c = true := fun c hc => (hn c hc).1
  have hob : (host ++ portText ds).contains '[' = false := by
    simp only [List.contains_eq_mem, decide_eq_false_iff_not]; intro hm; exact (hn _ hm).2.1 rfl
  have hcb : (host ++ portText ds).contains ']' = false := by
    simp only [List.contains_eq_mem, decide_eq_false_iff_not]; intro hm; exact (hn _ hm).2.2.1 rfl
  have hbb : bracketBad (host ++ portText ds) b = false := by
    unfold bracketBad; rw [hob, hcb]; rfl
  unfold urlsplit
  rw [splitScheme_ok scheme _ h1 h2 h3 h4]
  simp only [List.take, List.drop, if_true, takeWhile_all _ _ hnd, dropWhile_all _ _ hnd, hbb]
  simp [stripQF, part]

theorem hostinfo_simple (host : Str) (ds : Option Str)
    (hh : ∀ c ∈ host, hostChar c = true) (hd : ∀ d, ds = some d → d ≠ [] ∧ ∀ c ∈ d, c.isDigit = true) :
    hostinfo (host ++ portText ds) = (host, ds) := by
  have hn := face_netloc host ds hh (fun d e => (hd d e).2)
  have hat : '@' ∉ host ++ portText ds := fun hm => (hn _ hm).2.2.2.1 rfl
  have hbr : '[' ∉ host ++ portText ds := fun hm => (hn _ hm).2.1 rfl
  have hco : ':' ∉ host := fun hm => hostChar_ne _ ':' (hh _ hm) (by decide) rfl
  unfold hostinfo
  simp only [afterLast_none _ _ hat, part_none _ _ hbr]
  cases ds with
  | none => simp [portText, part_none _ _ hco]
  | some d =>
    have := (hd d rfl).1
    simp [portText, part_append _ _ _ hco, this]

/-- **face_of_uri.** `scheme://host[:port]` with a supported TCP/UDP scheme, a host name / IPv4 literal and
    an optional decimal port 1..65535 selects that face type, that address (lower-cased) and that port, and
    port 6363 when none is given. -/
theorem face_of_uri (D : FaceDefaults) (scheme host : Str) (ds : Option Str) (b : Bool)
    (hs : scheme ∈ tcpSchemes ∨ scheme ∈ udpSchemes) (hne : host ≠ [])
    (hh : ∀ c ∈ host, hostChar c = true)
    (hd : ∀ d, ds = some d → d ≠ [] ∧ (∀ c ∈ d, c.isDigit = true) ∧ decVal d ≠ 0 ∧ decVal d ≤ 65535) :
    defaultFace D (scheme ++ "://".toList ++ host ++ portText ds) b
      = .ok (denotes scheme (lower host) (match ds with | none => 6363 | some d => decVal d)) := by
  have hshape : scheme ++ "://".toList ++ host ++ portText ds
      = scheme ++ ':' :: '/' :: '/' :: (host ++ portText ds) := by simp
  have hsch : ':' ∉ scheme ∧ scheme ≠ [] ∧ scheme.head?.map Char.isAlpha = some true ∧
      scheme.all schemeChar = true ∧ lower scheme = scheme ∧ scheme ≠ "unix".toList := by
    simp only [tcpSchemes, udpSchemes, List.mem_cons, List.mem_nil_iff, or_false] at hs
    rcases hs with (h | h | h) | (h | h | h) <;> subst h <;> decide
  obtain ⟨s1, s2, s3, s4, s5, s6⟩ := hsch
  have hi := hostinfo_simple host ds hh (fun d e => ⟨(hd d e).1, (hd d e).2.1⟩)
  have hpc : '%' ∉ host := fun hm => hostChar_ne _ '%' (hh _ hm) (by decide) rfl
  have hhost : hostname (host ++ portText ds) = some (lower host) := by
    simp [hostname, hi, hne, part_none _ _ hpc]
  have hport : port (host ++ portText ds) = .ok (ds.map decVal) := by
    unfold port
    rw [hi]
    cases ds with
    | none => rfl
    | some d =>
      obtain ⟨_, h2, _, h4⟩ := hd d rfl
      have : d.all Char.isDigit = true := List.all_eq_true.mpr h2
      simp [this, h4]
  unfold defaultFace
  rw [hshape, urlsplit_simple scheme host ds b s1 s2 s3 s4 hh (fun d e => (hd d e).2.1)]
  simp only [s5, s6, if_false, hhost, hport]
  simp only [tcpSchemes, udpSchemes, List.mem_cons, List.mem_nil_iff, or_false] at hs
  cases ds with
  | none =>
    rcases hs with (h | h | h) | (h | h | h) <;> subst h <;> simp [denotes, tcpSchemes, udpSchemes]
  | some d =>
    have hz := (hd d rfl).2.2.1
    rcases hs with (h | h | h) | (h | h | h) <;> subst h <;> simp [denotes, tcpSchemes, udpSchemes, hz]

/-- **face_of_unix_uri.** `unix://<absolute path>` selects a Unix-socket face on that path. -/
theorem face_of_unix_uri (D : FaceDefaults) (p : Str) (b : Bool)
    (hp : ∀ c ∈ p, c ≠ '?' ∧ c ≠ '#') (hne : p ≠ []) (habs : p.head? = some '/') :
    defaultFace D ("unix://".toList ++ p) b = .ok (.unix p) := by
  obtain ⟨x, r, rfl⟩ := List.exists_cons_of_ne_nil hne
  have hx : x = '/' := by simpa using habs
  subst hx
  have h1 : '#' ∉ ('/' :: r) := fun hm => (hp _ hm).2 rfl
  have h2 : '?' ∉ ('/' :: r) := fun hm => (hp _ hm).1 rfl
  have hs : splitScheme ("unix://".toList ++ '/' :: r) = ("unix".toList, '/' :: '/' :: '/' :: r) := by
    have := splitScheme_ok "unix".toList ('/' :: '/' :: '/' :: r) (by decide) (by decide) (by decide) (by decide)
    have hl : lower "unix".toList = "unix".toList := by decide
    rw [hl] at this
    simpa using this
  have hsq : stripQF ('/' :: r) = '/' :: r := by
    simp [stripQF, part_none _ _ h1, part_none _ _ h2]
  unfold defaultFace urlsplit
  rw [hs]
  have hbb : bracketBad [] b = false := by simp [bracketBad]
  simp [notDelim, hbb, hsq]

theorem urlsplit_scheme (s : Str) (b : Bool) (u : Url) (h : urlsplit s b = .ok u) :
    u.scheme = (splitScheme s).1 := by
  unfold urlsplit at h
  simp only at h
  split at h
  · split at h
    · simp at h
    · simp only [Except.ok.injEq] at h
      subst h; rfl
  · simp only [Except.ok.injEq] at h
    subst h; rfl

theorem urlsplit_error (s : Str) (b : Bool) (e : PyErr) (h : urlsplit s b = .error e) : e = .valueError := by
  unfold urlsplit at h
  simp only at h
  split at h
  · split at h
    · simp only [Except.error.injEq] at h
      exact h.symm
    · simp at h
  · simp at h

def knownSchemes : List Str := "unix".toList :: (tcpSchemes ++ udpSchemes)

/-- **unknown_scheme_error.** Whatever the text, when its scheme is none of unix/tcp/tcp4/tcp6/udp/udp4/udp6
    no face is produced: the call fails with `ValueError` (never a silently substituted transport). -/
theorem unknown_scheme_error (D : FaceDefaults) (s : Str) (b : Bool)
    (h : (splitScheme s).1 ∉ knownSchemes) : defaultFace D s b = .error .valueError := by
  unfold defaultFace
  cases hu : urlsplit s b with
  | error e => simp [urlsplit_error s b e hu]
  | ok u =>
    have hsch := urlsplit_scheme s b u hu
    rw [← hsch] at h
    simp only [knownSchemes, List.mem_cons, List.mem_append, not_or] at h
    simp only [h.1, if_false]
    cases hp : port u.netloc with
    | error e =>
      have : e = .valueError := by
        unfold port at hp
        split at hp
        · simp at hp
        · split at hp
          · split at hp
            · simp at hp
            · simp only [Except.error.injEq] at hp; exact hp.symm
          · simp only [Except.error.injEq] at hp; exact hp.symm
      simp [this]
    | ok p => simp [h.2.1, h.2.2]

/-- String-level form: a syntactically valid scheme name outside the supported set is refused whatever
    follows the colon. -/
theorem unknown_scheme_uri_error (D : FaceDefaults) (sch rest : Str) (b : Bool)
    (h1 : ':' ∉ sch) (h2 : sch ≠ []) (h3 : sch.head?.map Char.isAlpha = some true)
    (h4 : sch.all schemeChar = true) (hk : lower sch ∉ knownSchemes) :
    defaultFace D (sch ++ ':' :: rest) b = .error .valueError :=
  unknown_scheme_error D _ b (by rw [splitScheme_ok sch rest h1 h2 h3 h4]; exact hk)

/-! ### the generated platform table (`ndn/platform/linux.py`, regenerated on every run) -/

def isUnixFace : Except PyErr Face → Bool
  | .ok (.unix _) => true
  | _ => false

/-- **platform_table_sane.** For the live platform table: no candidate configuration path is empty (so the
    precedence theorems apply), `default_transport` is defined for every file system, every default transport
    is a Unix-socket URI that `default_face` accepts, and the default store schemes are constructible by
    `default_keychain`. -/
theorem platform_table_sane (home : Str) :
    [] ∉ (Gen.C20.platform home).confPaths ∧
    (∀ ex, ∃ v, defaultTransport (Gen.C20.platform home) ex = .ok v) ∧
    (∀ row ∈ (Gen.C20.platform home).transportTable,
        isUnixFace (defaultFace Gen.C20.faceDefaults row.2 true) = true) ∧
    (∀ x y, ∃ k, defaultKeychain ((Gen.C20.platform home).pibScheme ++ ':' :: x)
        ((Gen.C20.platform home).tpmScheme ++ ':' :: y) = .ok k) := by
  refine ⟨?_, ?_, ?_, ?_⟩
  · simp [Gen.C20.platform]
  · intro ex
    refine defaultTransport_total _ ?_ ex
    show tableTotal (Gen.C20.platform []).transportProbes (Gen.C20.platform []).transportTable = true
    decide
  · have : (Gen.C20.platform home).transportTable = (Gen.C20.platform []).transportTable := rfl
    rw [this]
    decide
  · intro x y
    have hp : ':' ∉ (Gen.C20.platform home).pibScheme := by
      show ':' ∉ (Gen.C20.platform []).pibScheme
      decide
    have ht : ':' ∉ (Gen.C20.platform home).tpmScheme := by
      show ':' ∉ (Gen.C20.platform []).tpmScheme
      decide
    have e1 : (Gen.C20.platform home).pibScheme = "pib-sqlite3".toList := by
      show (Gen.C20.platform []).pibScheme = _
      decide
    have e2 : (Gen.C20.platform home).tpmScheme = "tpm-file".toList := by
      show (Gen.C20.platform []).tpmScheme = _
      decide
    simp only [defaultKeychain, part_append _ _ _ hp, part_append _ _ _ ht]
    simp [e1, e2]

/-- The precedence theorems instantiated at the generated table: on this platform every successful
    `read_client_conf` obeys environment > first existing candidate file > platform default, for all three
    settings. -/
theorem precedence_on_platform (home : Str) (W : World) (c : Conf)
    (h : readClientConf (Gen.C20.platform home) W = .ok c) :
    let P := Gen.C20.platform home
    (∃ dt, defaultTransport P W.exist = .ok dt ∧
      Setting P.confPaths W "transport".toList W.env.transport dt c.transport) ∧
    (∃ v conf, Setting P.confPaths W "pib".toList W.env.pib P.pibScheme v ∧ ConfFile P.confPaths W.exist conf ∧
      resolveLocation conf P.pibPaths W.exist v = .ok c.pib) ∧
    (∃ v conf, Setting P.confPaths W "tpm".toList W.env.tpm P.tpmScheme v ∧ ConfFile P.confPaths W.exist conf ∧
      resolveLocation conf P.tpmPaths W.exist v = .ok c.tpm) :=
  have hne := (platform_table_sane home).1
  ⟨precedence_transport _ W c hne h, precedence_pib _ W c hne h, precedence_tpm _ W c hne h⟩

/-! ### non-vacuity -/

section Examples
def exWorld : World :=
  { exist := fun p => p = "/etc/ndn/client.conf".toList ∨ p = "/etc/ndn/keys".toList
    files := fun p => if p = "/etc/ndn/client.conf".toList then
      ["# client.conf".toList, "PIB = pib-sqlite3:keys".toList, "".toList, "transport: tcp://h:1".toList,
       "[extra]".toList, "tpm=tpm-file:/not/looked/at".toList] else []
    env := { transport := none, pib := none, tpm := some "tpm-file".toList } }

/-- precedence_*: a world where a file provides two settings, the environment one, and a relative store path -/
example : readClientConf (Gen.C20.platform "/home/u".toList) exWorld =
    .ok { transport := "tcp://h:1".toList, pib := "pib-sqlite3:/etc/ndn/keys".toList, tpm := "tpm-file:".toList } := by
  decide

/-- conf_value_is_first_assignment / conf_errors: comments, both delimiters, upper-case names, a value
    continued on indented lines (a blank line in between is kept), an empty value, a section that hides its
    options, a second `[DEFAULT]` that shows them again -/
example : parseConf ["# c".toList, "Transport = unix:///a".toList, "  ; also a comment".toList,
      "pib: pib-sqlite3:/x".toList, "   y".toList, "".toList, "   z".toList, "tpm=".toList, "[other]".toList,
      "transport=tcp://hidden".toList, "[DEFAULT]".toList, "extra = 1".toList]
    = .ok [("transport".toList, "unix:///a".toList), ("pib".toList, "pib-sqlite3:/x\ny\n\nz".toList),
           ("tpm".toList, []), ("extra".toList, "1".toList)] := by decide
example : parseConf ["pib=a".toList, "PIB=b".toList] = .error .duplicateOption := by decide
example : parseConf ["[s]".toList, "pib=a".toList, "[s]".toList] = .error .duplicateSection := by decide
example : parseConf ["pib=a".toList, "no delimiter here".toList] = .error .parsing := by decide
example : parseConf ["= v".toList] = .error .parsing := by decide
/-- a duplicate wins over a stray line, wherever it stands -/
example : parseConf ["stray".toList, "pib=a".toList, "pib=b".toList] = .error .duplicateOption := by decide
/-- an indented first line is an ordinary option (there is nothing to continue) -/
example : parseConf ["   pib = a".toList, "tpm = b".toList] = .ok [("pib".toList, "a".toList), ("tpm".toList, "b".toList)] := by
  decide

/-- location_existing_as_given / location_relative_to_conf / location_fallback hypotheses are satisfiable -/
example : resolveLocation [] [] (fun p => p = "/k".toList) "s:/k".toList = .ok "s:/k".toList := by decide
example : resolveLocation "/etc/ndn/client.conf".toList [] (fun p => p = "/etc/ndn/keys".toList) "s:keys".toList
    = .ok "s:/etc/ndn/keys".toList := by decide
example : FirstExisting ["/a".toList, "/b".toList] (fun p => p = "/b".toList) "/b".toList :=
  ⟨["/a".toList], [], rfl, by decide, by decide⟩

/-- face_of_uri -/
example : defaultFace Gen.C20.faceDefaults "udp4://Router.example:9000".toList true
    = .ok (.udp (some "router.example".toList) 9000) := by decide
example : defaultFace Gen.C20.faceDefaults "tcp://localhost".toList true = .ok (.tcp "localhost".toList 6363) := by
  decide
/-- unknown_scheme_error -/
example : defaultFace Gen.C20.faceDefaults "ws://localhost:9696".toList true = .error .valueError := by decide
example : "ws".toList ∉ knownSchemes := by decide
end Examples

end Ndn.C20
