import NdnProofs.Lemmas.NfdMgmt
import NdnGen.C17
/-!
# C17 — Prefix registration speaks the forwarder management protocol correctly

Theorems about `Ndn.NfdMgmt` (model of `NfdRegister.register/unregister`, the legacy
`NDNApp.register/unregister`, `starting_task` auto-registration and the glue of `parse_response`), for
**every** event history (calls, replies, connections in any order and number), every clock and every reply.

Specification vocabulary (does not mention the implementation):
* `answers200 fe k` — the forwarder answered with status 200 (on the front-end that validates replies: in a
  Data packet whose signature verifies);
* `alt` — commands and returns alternate in the trace and every return belongs to the command in flight;
* `tsOf` — the signed timestamps in emission order; `autoCmds` — the prefixes of the commands sent for routes;
* `ClockOk` — the clock hypothesis of the timestamp guard.

`Cfg.repaired fe` is the code with the candidate fixes C17-1 … C17-5; `Cfg.unchanged fe` is the unchanged
tree (except that the unchanged legacy `unregister`, which runs outside the semaphore, is not modelled).
-/
namespace Ndn.C17
open Ndn Ndn.NfdMgmt

/-- the forwarder answered with status 200 — and, on the front-end that validates what it receives, the answer
    is authentic -/
def answers200 (fe : FrontEnd) : Reply → Bool
  | .response c _ sigOk => (c == some 200) && (match fe with | .v2 => true | .legacy => sigOk)
  | _ => false

/-- **success_iff_200.** `register` / `unregister` return `True` if and only if the forwarder answers with
    status 200, and never raise: whatever comes back, the result is `ok (answers200 …)`. -/
theorem success_iff_200 (fe : FrontEnd) (v : Verb) (k : Reply) :
    finish (Cfg.repaired fe) v (expressOutcome fe k) = .ok (answers200 fe k) := by
  cases k with
  | response c b ok =>
    cases fe <;> cases ok <;> cases v <;> cases b <;>
      simp [finish, expressOutcome, validates, parseStatus, Cfg.repaired, answers200]
  | undecodable ok =>
    cases fe <;> cases ok <;> cases v <;>
      simp [finish, expressOutcome, validates, parseStatus, Cfg.repaired, answers200]
  | nack => cases v <;> rfl
  | timeout => cases v <;> rfl
  | canceled => cases v <;> rfl

example : answers200 .v2 (.response (some 200) false true) = true := by decide
example : answers200 .legacy (.response (some 200) true false) = false := by decide

/-- … in the state machine: the reply to the command in flight makes exactly that call return, first thing,
    with `ok (answers200 …)`. -/
theorem reply_returns (fe : FrontEnd) (env : Env) (s : St) (r : Req) (k : Reply) (h : s.inflight = some r) :
    (step (Cfg.repaired fe) env s (.reply k)).2.head? = some (.ret r (.ok (answers200 fe k))) := by
  rw [step_reply_some _ env s k r h]
  show some (Out.ret r (finish (Cfg.repaired fe) r.verb (expressOutcome fe k))) = _
  rw [success_iff_200]

example : (step (Cfg.repaired .v2) ⟨fun _ => 0, fun _ => 1, fun _ => 0, fun _ => 0⟩
    { clock := { now := 5 }, inflight := some ⟨0, .register, 3, false⟩ } (.reply .nack)).2.head?
      = some (.ret ⟨0, .register, 3, false⟩ (.ok false)) := by decide

/-- **failure_no_raise.** A Nack, a timeout, a shutdown, a validation failure, any status other than 200
    (with or without body, also a response without StatusCode) and a response that does not decode all report
    `False` without raising. -/
theorem failure_no_raise (fe : FrontEnd) (v : Verb) (k : Reply) (h : answers200 fe k = false) :
    finish (Cfg.repaired fe) v (expressOutcome fe k) = .ok false := by
  rw [success_iff_200, h]

example : answers200 .v2 (.response (some 403) false true) = false := by decide
example : answers200 .legacy (.undecodable true) = false := by decide

/-- **never_raises.** In every history every call returns normally. -/
theorem never_raises (fe : FrontEnd) (env : Env) (s : St) (evs : List Ev) (r : Req) (res : Except PyErr Bool)
    (h : Out.ret r res ∈ (run (Cfg.repaired fe) env s evs).2) : ∃ b, res = .ok b :=
  run_retsOk (Cfg.repaired fe) rfl rfl env s evs r res h

/-- **one_at_a_time.** However many calls are made and whenever: in the trace commands and returns alternate,
    and each return is the return of the call whose command is in flight — never two commands in flight. -/
theorem one_at_a_time (cfg : Cfg) (env : Env) (t0 : Nat) (evs : List Ev) :
    alt none (run cfg env (init t0) evs).2 = some (run cfg env (init t0) evs).1.inflight :=
  (run_disc cfg env (init t0) evs (fun _ => rfl)).alt

example : alt none [.cmd ⟨0, .register, 1, false⟩ 7, .ret ⟨0, .register, 1, false⟩ (.ok true),
    .cmd ⟨1, .unregister, 1, false⟩ 8] = some (some ⟨1, .unregister, 1, false⟩) := by decide
example : alt none [.cmd ⟨0, .register, 1, false⟩ 7, .cmd ⟨1, .unregister, 1, false⟩ 8] = none := by decide

/-- **one_command_per_call.** Every request (`nextId` counts them) has put exactly one command on the wire,
    except those still waiting for the semaphore. -/
theorem one_command_per_call (cfg : Cfg) (env : Env) (t0 : Nat) (evs : List Ev) :
    countCmd (run cfg env (init t0) evs).2 + (run cfg env (init t0) evs).1.queue.length
      = (run cfg env (init t0) evs).1.nextId := by
  have := (run_disc cfg env (init t0) evs (fun _ => rfl)).count
  simpa [init] using this

/-- **timestamps_strict.** If the clock advances across every 1 ms sleep of the guard loop, the signed
    timestamps of the commands are strictly increasing — for any number of calls at the same clock reading,
    any replies, and any ticks of the clock between the guarded read, the signed read and the re-read. -/
theorem timestamps_strict (fe : FrontEnd) (env : Env) (hs : ∀ k, 1 ≤ env.sleepAdv k) (t0 : Nat) (evs : List Ev) :
    List.Pairwise (· < ·) (tsOf (run (Cfg.repaired fe) env (init t0) evs).2) :=
  (run_trel (Cfg.repaired fe) env ⟨rfl, hs, Or.inl rfl⟩ (init t0) evs (Nat.zero_le _)).strict

example : tsOf (run (Cfg.repaired .v2) ⟨fun _ => 0, fun _ => 1, fun k => if k = 0 then 1 else 0, fun _ => 0⟩ (init 5)
    [.call .register 0, .call .unregister 1, .reply (.response (some 200) true true), .reply .nack]).2
      = [6, 7] := by decide

/-- Without the re-read (the unchanged v2 registerer) the same holds only if the clock never ticks between
    the guarded read and the read that is signed. -/
theorem guard_only_strict_without_sign_tick (cfg : Cfg) (hg : cfg.guard = true) (env : Env)
    (hs : ∀ k, 1 ≤ env.sleepAdv k) (hz : ∀ k, env.signTick k = 0) (t0 : Nat) (evs : List Ev) :
    List.Pairwise (· < ·) (tsOf (run cfg env (init t0) evs).2) :=
  (run_trel cfg env ⟨hg, hs, Or.inr hz⟩ (init t0) evs (Nat.zero_le _)).strict

/-- **guard_only_counterexample** (finding F13, third item). On the unchanged tree the guard compares a clock
    reading taken before the one that is signed: a monotone clock that advances across every sleep, ticks once
    between guard and signature of the first command and not at all afterwards, makes two consecutive commands
    carry the same timestamp. -/
theorem guard_only_counterexample :
    ∃ env : Env, (∀ k, 1 ≤ env.sleepAdv k) ∧
      tsOf (run (Cfg.unchanged .v2) env (init 0)
        [.call .register 0, .reply (.response (some 200) true true), .call .register 1]).2 = [2, 2] :=
  ⟨⟨fun k => if k = 0 then 1 else 0, fun _ => 1, fun k => if k = 0 then 1 else 0, fun _ => 0⟩,
    fun _ => Nat.le_refl 1, by decide⟩

/-- The unchanged legacy front-end has no guard at all: two registrations answered within the same
    millisecond carry the same timestamp. -/
theorem no_guard_counterexample :
    tsOf (run (Cfg.unchanged .legacy) ⟨fun _ => 0, fun _ => 1, fun _ => 0, fun _ => 0⟩ (init 5)
      [.call .register 0, .call .register 1, .reply (.response (some 200) true true)]).2 = [5, 5] := by decide

/-- **routes_conserved.** After a connection is established (with no starting task still running) the route
    registrations on the wire, those waiting for the semaphore and those not yet requested are, in this order,
    exactly the declared routes — whatever calls and replies are interleaved.  In particular no route is ever
    registered twice on a connection. -/
theorem routes_conserved (fe : FrontEnd) (env : Env) (s : St) (hw : WF s) (ha : autoActive s = false)
    (rs : List Nat) (evs : List Ev) (hne : NoConnect evs) :
    autoCmds (run (Cfg.repaired fe) env s (.connect rs :: evs)).2
      ++ autoOpen (run (Cfg.repaired fe) env s (.connect rs :: evs)).1 = rs := by
  obtain ⟨h1, h2⟩ := connect_rrel (Cfg.repaired fe) env s rs ha hw
  have h3 := run_rrel (Cfg.repaired fe) rfl rfl env _ evs hne h2
  simp only [run]
  rw [autoCmds_append, List.append_assoc, h3.cons, h1]

/-- **routes_once_per_connection.** … hence once the starting task has nothing left to do, every declared
    route has been registered exactly once, in declaration order. -/
theorem routes_once_per_connection (fe : FrontEnd) (env : Env) (s : St) (hw : WF s) (ha : autoActive s = false)
    (rs : List Nat) (evs : List Ev) (hne : NoConnect evs)
    (hdone : autoOpen (run (Cfg.repaired fe) env s (.connect rs :: evs)).1 = []) :
    autoCmds (run (Cfg.repaired fe) env s (.connect rs :: evs)).2 = rs := by
  have := routes_conserved fe env s hw ha rs evs hne
  rw [hdone, List.append_nil] at this
  exact this

/-- … and that point is reached: with one reply (of any kind — refusal, Nack, timeout, garbage) per route, all
    routes have been registered exactly once. -/
theorem routes_registered_after_replies (fe : FrontEnd) (env : Env) (t0 : Nat) (rs : List Nat) (ks : List Reply)
    (hl : rs.length ≤ ks.length) :
    autoCmds (run (Cfg.repaired fe) env (init t0) (.connect rs :: ks.map .reply)).2 = rs := by
  have hne : NoConnect (ks.map Ev.reply) := by
    intro e he rs' hc
    obtain ⟨k, _, hk⟩ := List.mem_map.mp he
    rw [← hk] at hc; cases hc
  apply routes_once_per_connection fe env (init t0) (fun _ => rfl) rfl rs _ hne
  cases rs with
  | nil =>
    simp only [run]
    rw [step_connect_nil _ env (init t0) rfl, run_replies_idle _ env (init t0) ks rfl]
    rfl
  | cons p todo =>
    simp only [run]
    rw [step_connect_cons _ env (init t0) p todo rfl]
    exact drain (Cfg.repaired fe) rfl rfl env todo _ ks ⟨0, .register, p, true⟩ rfl rfl rfl rfl
      (by simpa using hl)

example : autoCmds (run (Cfg.repaired .legacy) ⟨fun _ => 0, fun _ => 1, fun _ => 0, fun _ => 0⟩ (init 5)
    [.connect [7, 8], .call .unregister 1, .reply (.response (some 403) false true), .reply .timeout,
     .reply (.undecodable true)]).2 = [7, 8] := by decide

/-- **response_roundtrip.** `parse_response` returns the fields of the decoded ControlResponse: status code,
    status text and every ControlParameters field of the body (`None` for a field, or a body, that is absent). -/
theorem response_roundtrip (cr : ControlResponseRec) :
    ∃ d, parseResponseRec true cr = .ok d ∧
      d.lookup "status_code" = some (match cr.statusCode with | some n => .uint n | none => .none) ∧
      d.lookup "status_text" = some (match cr.statusText with | some t => .text t | none => .none) ∧
      ∀ k ∈ cpvFields, d.lookup k = some (DVal.ofF (cr.body.bind fun b => lookupField b k)) := by
  have hmap : ∀ (f : String → DVal) (l : List String) (k : String), k ∈ l →
      (l.map fun x => (x, f x)).lookup k = some (f k) := by
    intro f l k hk
    induction l with
    | nil => cases hk
    | cons x t ih =>
      by_cases hx : k = x
      · subst hx; simp
      · have : k ∈ t := by simpa [hx] using hk
        have hne : (k == x) = false := by simpa using hx
        simp only [List.map_cons, List.lookup, hne]
        exact ih this
  have hk1 : ∀ k ∈ cpvFields, (k == "status_code") = false ∧ (k == "status_text") = false := by decide
  unfold parseResponseRec
  cases cr.body with
  | none =>
    refine ⟨_, rfl, by simp <;> rfl, by simp <;> rfl, ?_⟩
    intro k hk
    obtain ⟨h1, h2⟩ := hk1 k hk
    simp only [List.cons_append, List.nil_append, List.lookup, h1, h2, Option.bind_none]
    exact hmap (fun _ => DVal.none) cpvFields k hk
  | some b =>
    refine ⟨_, rfl, by simp <;> rfl, by simp <;> rfl, ?_⟩
    intro k hk
    obtain ⟨h1, h2⟩ := hk1 k hk
    simp only [List.cons_append, List.nil_append, List.lookup, h1, h2, Option.bind_some]
    exact hmap (fun k => DVal.ofF (lookupField b k)) cpvFields k hk

example : (parseResponseRec true ⟨some 403, none, none⟩).toOption.bind (·.lookup "name") = some .none := by decide

/-- the dict has exactly the keys `status_code`, `status_text` and the ControlParameters field names, in order -/
theorem response_keys (cr : ControlResponseRec) :
    ∃ d, parseResponseRec true cr = .ok d ∧ d.map (·.1) = "status_code" :: "status_text" :: cpvFields := by
  unfold parseResponseRec
  cases cr.body with
  | none => exact ⟨_, rfl, by simp [Function.comp_def]⟩
  | some b => exact ⟨_, rfl, by simp [Function.comp_def]⟩

/-! ### the defects of the unchanged tree (finding F13), as theorems about the unrepaired configurations -/

/-- F13 (1): a ControlResponse without body — what NFD sends with 403/404 — makes `register` raise
    `AttributeError` instead of returning `False` (both front-ends). -/
theorem unchanged_register_raises_without_body (fe : FrontEnd) (c : Option Nat) :
    finish (Cfg.unchanged fe) .register (expressOutcome fe (.response c false true)) = .error .attributeError := by
  cases fe <;> simp [finish, expressOutcome, validates, parseStatus, Cfg.unchanged]

/-- F13 (2): `unregister` reports success for any Data that comes back, whatever its status. -/
theorem unchanged_unregister_ignores_status (fe : FrontEnd) (c : Option Nat) (b : Bool) :
    finish (Cfg.unchanged fe) .unregister (expressOutcome fe (.response c b true)) = .ok true ∧
    finish (Cfg.unchanged fe) .unregister (expressOutcome fe (.undecodable true)) = .ok true := by
  cases fe <;> simp [finish, expressOutcome, validates, Cfg.unchanged]

/-- consequence of F13 (1): the first refused route kills the starting task; the remaining routes are never
    registered on that connection. -/
theorem unchanged_routes_lost :
    (run (Cfg.unchanged .v2) ⟨fun _ => 0, fun _ => 1, fun _ => 0, fun _ => 0⟩ (init 5)
      [.connect [7, 8], .reply (.response (some 403) false true), .reply .timeout]).2
      = [.connected, .cmd ⟨0, .register, 7, true⟩ 5, .ret ⟨0, .register, 7, true⟩ (.error .attributeError)] := by
  decide

/-! ### obligations on the tables generated from the source -/

/-- the field list the model iterates over is `ControlParametersValue._encoded_fields` of the source, and
    ControlResponse has the three fields the model reads -/
theorem gen_fields :
    Ndn.Gen.C17.controlParametersValueFields = cpvFields ∧
    Ndn.Gen.C17.controlResponseFields = ["status_code", "status_text", "body"] := by decide

/-- each of the four registration functions catches the four network outcomes the model maps to `False` -/
theorem gen_caught :
    Ndn.Gen.C17.caught.map (·.1) = ["NfdRegister.register", "NfdRegister.unregister", "app.register", "app.unregister"] ∧
    ∀ row ∈ Ndn.Gen.C17.caught,
      ∀ c ∈ ["InterestNack", "InterestTimeout", "InterestCanceled", "ValidationFailure"], c ∈ row.2 := by decide

end Ndn.C17
