import NdnProofs.Lemmas.NfdMgmt
import NdnProofs.Lemmas.NfdBytes
import NdnGen.C17
/-!
# C17 — Prefix registration speaks the forwarder management protocol correctly

Theorems about `Ndn.NfdMgmt` (model of `NfdRegister.register/unregister`, the legacy
`NDNApp.register/unregister`, `starting_task` auto-registration and the glue of `parse_response`), for
**every** event history (calls, replies, connections in any order and number), every clock and every reply.

Specification vocabulary (does not mention the implementation):
* `answers200 fe k` — the forwarder answered with status 200 (on the front-end that validates replies: in a
  Data packet whose signature verifies);
* `alt` — commands and returns alternate in the trace and every return belongs to the command in flight;
* `tsOf` — the signed timestamps in emission order; `autoCmds` — the prefixes of the commands sent for routes;
* `ClockOk` — the clock hypothesis of the timestamp guard.

The byte-level half (section "bytes on the wire" below) composes the generic TLV codec (C08 round trip) and the
packet model (C01/C02) into the command name, the command Interest and the response decoder of
`Ndn.NfdBytes`, for every prefix, every ControlParameters field value, every SignatureTime / SignatureNonce and
every hash function `H` with 32-byte output.

`Cfg.repaired fe` is the code with the candidate fixes C17-1 … C17-5; `Cfg.unchanged fe` is the unchanged
tree (except that the unchanged legacy `unregister`, which runs outside the semaphore, is not modelled).
-/
namespace Ndn.C17
open Ndn Ndn.NfdMgmt

/-- the forwarder answered with status 200 — and, on the front-end that validates what it receives, the answer
    is authentic -/
def answers200 (fe : FrontEnd) : Reply → Bool
  | .response c _ sigOk => (c == some 200) && (match fe with | .v2 => true | .legacy => sigOk)
  | _ => false

/-- **success_iff_200.** `register` / `unregister` return `True` if and only if the forwarder answers with
    status 200, and never raise: whatever comes back, the result is `ok (answers200 …)`. -/
theorem success_iff_200 (fe : FrontEnd) (v : Verb) (k : Reply) :
    finish (Cfg.repaired fe) v (expressOutcome fe k) = .ok (answers200 fe k) := by
  cases k with
  | response c b ok =>
    cases fe <;> cases ok <;> cases v <;> cases b <;>
      simp [finish, expressOutcome, validates, parseStatus, Cfg.repaired, answers200]
  | undecodable ok =>
    cases fe <;> cases ok <;> cases v <;>
      simp [finish, expressOutcome, validates, parseStatus, Cfg.repaired, answers200]
  | nack => cases v <;> rfl
  | timeout => cases v <;> rfl
  | canceled => cases v <;> rfl

example : answers200 .v2 (.response (some 200) false true) = true := by decide
example : answers200 .legacy (.response (some 200) true false) = false := by decide

/-- … in the state machine: the reply to the command in flight makes exactly that call return, first thing,
    with `ok (answers200 …)`. -/
theorem reply_returns (fe : FrontEnd) (env : Env) (s : St) (r : Req) (k : Reply) (h : s.inflight = some r) :
    (step (Cfg.repaired fe) env s (.reply k)).2.head? = some (.ret r (.ok (answers200 fe k))) := by
  rw [step_reply_some _ env s k r h]
  show some (Out.ret r (finish (Cfg.repaired fe) r.verb (expressOutcome fe k))) = _
  rw [success_iff_200]

example : (step (Cfg.repaired .v2) ⟨fun _ => 0, fun _ => 1, fun _ => 0, fun _ => 0⟩
    { clock := { now := 5 }, inflight := some ⟨0, .register, 3, false⟩ } (.reply .nack)).2.head?
      = some (.ret ⟨0, .register, 3, false⟩ (.ok false)) := by decide

/-- **failure_no_raise.** A Nack, a timeout, a shutdown, a validation failure, any status other than 200
    (with or without body, also a response without StatusCode) and a response that does not decode all report
    `False` without raising. -/
theorem failure_no_raise (fe : FrontEnd) (v : Verb) (k : Reply) (h : answers200 fe k = false) :
    finish (Cfg.repaired fe) v (expressOutcome fe k) = .ok false := by
  rw [success_iff_200, h]

example : answers200 .v2 (.response (some 403) false true) = false := by decide
example : answers200 .legacy (.undecodable true) = false := by decide

/-- **never_raises.** In every history every call returns normally. -/
theorem never_raises (fe : FrontEnd) (env : Env) (s : St) (evs : List Ev) (r : Req) (res : Except PyErr Bool)
    (h : Out.ret r res ∈ (run (Cfg.repaired fe) env s evs).2) : ∃ b, res = .ok b :=
  run_retsOk (Cfg.repaired fe) rfl rfl env s evs r res h

/-- **one_at_a_time.** However many calls are made and whenever: in the trace commands and returns alternate,
    and each return is the return of the call whose command is in flight — never two commands in flight. -/
theorem one_at_a_time (cfg : Cfg) (env : Env) (t0 : Nat) (evs : List Ev) :
    alt none (run cfg env (init t0) evs).2 = some (run cfg env (init t0) evs).1.inflight :=
  (run_disc cfg env (init t0) evs (fun _ => rfl)).alt

example : alt none [.cmd ⟨0, .register, 1, false⟩ 7, .ret ⟨0, .register, 1, false⟩ (.ok true),
    .cmd ⟨1, .unregister, 1, false⟩ 8] = some (some ⟨1, .unregister, 1, false⟩) := by decide
example : alt none [.cmd ⟨0, .register, 1, false⟩ 7, .cmd ⟨1, .unregister, 1, false⟩ 8] = none := by decide

/-- **one_command_per_call.** Every request (`nextId` counts them) has put exactly one command on the wire,
    except those still waiting for the semaphore. -/
theorem one_command_per_call (cfg : Cfg) (env : Env) (t0 : Nat) (evs : List Ev) :
    countCmd (run cfg env (init t0) evs).2 + (run cfg env (init t0) evs).1.queue.length
      = (run cfg env (init t0) evs).1.nextId := by
  have := (run_disc cfg env (init t0) evs (fun _ => rfl)).count
  simpa [init] using this

/-- **timestamps_strict.** If the clock advances across every 1 ms sleep of the guard loop, the signed
    timestamps of the commands are strictly increasing — for any number of calls at the same clock reading,
    any replies, and any ticks of the clock between the guarded read, the signed read and the re-read. -/
theorem timestamps_strict (fe : FrontEnd) (env : Env) (hs : ∀ k, 1 ≤ env.sleepAdv k) (t0 : Nat) (evs : List Ev) :
    List.Pairwise (· < ·) (tsOf (run (Cfg.repaired fe) env (init t0) evs).2) :=
  (run_trel (Cfg.repaired fe) env ⟨rfl, hs, Or.inl rfl⟩ (init t0) evs (Nat.zero_le _)).strict

example : tsOf (run (Cfg.repaired .v2) ⟨fun _ => 0, fun _ => 1, fun k => if k = 0 then 1 else 0, fun _ => 0⟩ (init 5)
    [.call .register 0, .call .unregister 1, .reply (.response (some 200) true true), .reply .nack]).2
      = [6, 7] := by decide

/-- Without the re-read (the unchanged v2 registerer) the same holds only if the clock never ticks between
    the guarded read and the read that is signed. -/
theorem guard_only_strict_without_sign_tick (cfg : Cfg) (hg : cfg.guard = true) (env : Env)
    (hs : ∀ k, 1 ≤ env.sleepAdv k) (hz : ∀ k, env.signTick k = 0) (t0 : Nat) (evs : List Ev) :
    List.Pairwise (· < ·) (tsOf (run cfg env (init t0) evs).2) :=
  (run_trel cfg env ⟨hg, hs, Or.inr hz⟩ (init t0) evs (Nat.zero_le _)).strict

/-- **guard_only_counterexample** (finding F13, third item). On the unchanged tree the guard compares a clock
    reading taken before the one that is signed: a monotone clock that advances across every sleep, ticks once
    between guard and signature of the first command and not at all afterwards, makes two consecutive commands
    carry the same timestamp. -/
theorem guard_only_counterexample :
    ∃ env : Env, (∀ k, 1 ≤ env.sleepAdv k) ∧
      tsOf (run (Cfg.unchanged .v2) env (init 0)
        [.call .register 0, .reply (.response (some 200) true true), .call .register 1]).2 = [2, 2] :=
  ⟨⟨fun k => if k = 0 then 1 else 0, fun _ => 1, fun k => if k = 0 then 1 else 0, fun _ => 0⟩,
    fun _ => Nat.le_refl 1, by decide⟩

/-- The unchanged legacy front-end has no guard at all: two registrations answered within the same
    millisecond carry the same timestamp. -/
theorem no_guard_counterexample :
    tsOf (run (Cfg.unchanged .legacy) ⟨fun _ => 0, fun _ => 1, fun _ => 0, fun _ => 0⟩ (init 5)
      [.call .register 0, .call .register 1, .reply (.response (some 200) true true)]).2 = [5, 5] := by decide

/-- **routes_conserved.** After a connection is established (with no starting task still running) the route
    registrations on the wire, those waiting for the semaphore and those not yet requested are, in this order,
    exactly the declared routes — whatever calls and replies are interleaved.  In particular no route is ever
    registered twice on a connection. -/
theorem routes_conserved (fe : FrontEnd) (env : Env) (s : St) (hw : WF s) (ha : autoActive s = false)
    (rs : List Nat) (evs : List Ev) (hne : NoConnect evs) :
    autoCmds (run (Cfg.repaired fe) env s (.connect rs :: evs)).2
      ++ autoOpen (run (Cfg.repaired fe) env s (.connect rs :: evs)).1 = rs := by
  obtain ⟨h1, h2⟩ := connect_rrel (Cfg.repaired fe) env s rs ha hw
  have h3 := run_rrel (Cfg.repaired fe) rfl rfl env _ evs hne h2
  simp only [run]
  rw [autoCmds_append, List.append_assoc, h3.cons, h1]

/-- **routes_once_per_connection.** … hence once the starting task has nothing left to do, every declared
    route has been registered exactly once, in declaration order. -/
theorem routes_once_per_connection (fe : FrontEnd) (env : Env) (s : St) (hw : WF s) (ha : autoActive s = false)
    (rs : List Nat) (evs : List Ev) (hne : NoConnect evs)
    (hdone : autoOpen (run (Cfg.repaired fe) env s (.connect rs :: evs)).1 = []) :
    autoCmds (run (Cfg.repaired fe) env s (.connect rs :: evs)).2 = rs := by
  have := routes_conserved fe env s hw ha rs evs hne
  rw [hdone, List.append_nil] at this
  exact this

/-- … and that point is reached: with one reply (of any kind — refusal, Nack, timeout, garbage) per route, all
    routes have been registered exactly once. -/
theorem routes_registered_after_replies (fe : FrontEnd) (env : Env) (t0 : Nat) (rs : List Nat) (ks : List Reply)
    (hl : rs.length ≤ ks.length) :
    autoCmds (run (Cfg.repaired fe) env (init t0) (.connect rs :: ks.map .reply)).2 = rs := by
  have hne : NoConnect (ks.map Ev.reply) := by
    intro e he rs' hc
    obtain ⟨k, _, hk⟩ := List.mem_map.mp he
    rw [← hk] at hc; cases hc
  apply routes_once_per_connection fe env (init t0) (fun _ => rfl) rfl rs _ hne
  cases rs with
  | nil =>
    simp only [run]
    rw [step_connect_nil _ env (init t0) rfl, run_replies_idle _ env (init t0) ks rfl]
    rfl
  | cons p todo =>
    simp only [run]
    rw [step_connect_cons _ env (init t0) p todo rfl]
    exact drain (Cfg.repaired fe) rfl rfl env todo _ ks ⟨0, .register, p, true⟩ rfl rfl rfl rfl
      (by simpa using hl)

example : autoCmds (run (Cfg.repaired .legacy) ⟨fun _ => 0, fun _ => 1, fun _ => 0, fun _ => 0⟩ (init 5)
    [.connect [7, 8], .call .unregister 1, .reply (.response (some 403) false true), .reply .timeout,
     .reply (.undecodable true)]).2 = [7, 8] := by decide

/-- **response_roundtrip.** `parse_response` returns the fields of the decoded ControlResponse: status code,
    status text and every ControlParameters field of the body (`None` for a field, or a body, that is absent). -/
theorem response_roundtrip (cr : ControlResponseRec) :
    ∃ d, parseResponseRec true cr = .ok d ∧
      d.lookup "status_code" = some (match cr.statusCode with | some n => .uint n | none => .none) ∧
      d.lookup "status_text" = some (match cr.statusText with | some t => .text t | none => .none) ∧
      ∀ k ∈ cpvFields, d.lookup k = some (DVal.ofF (cr.body.bind fun b => lookupField b k)) := by
  have hmap : ∀ (f : String → DVal) (l : List String) (k : String), k ∈ l →
      (l.map fun x => (x, f x)).lookup k = some (f k) := by
    intro f l k hk
    induction l with
    | nil => cases hk
    | cons x t ih =>
      by_cases hx : k = x
      · subst hx; simp
      · have : k ∈ t := by simpa [hx] using hk
        have hne : (k == x) = false := by simpa using hx
        simp only [List.map_cons, List.lookup, hne]
        exact ih this
  have hk1 : ∀ k ∈ cpvFields, (k == "status_code") = false ∧ (k == "status_text") = false := by decide
  unfold parseResponseRec
  cases cr.body with
  | none =>
    refine ⟨_, rfl, by simp <;> rfl, by simp <;> rfl, ?_⟩
    intro k hk
    obtain ⟨h1, h2⟩ := hk1 k hk
    simp only [List.cons_append, List.nil_append, List.lookup, h1, h2, Option.bind_none]
    exact hmap (fun _ => DVal.none) cpvFields k hk
  | some b =>
    refine ⟨_, rfl, by simp <;> rfl, by simp <;> rfl, ?_⟩
    intro k hk
    obtain ⟨h1, h2⟩ := hk1 k hk
    simp only [List.cons_append, List.nil_append, List.lookup, h1, h2, Option.bind_some]
    exact hmap (fun k => DVal.ofF (lookupField b k)) cpvFields k hk

example : (parseResponseRec true ⟨some 403, none, none⟩).toOption.bind (·.lookup "name") = some .none := by decide

/-- the dict has exactly the keys `status_code`, `status_text` and the ControlParameters field names, in order -/
theorem response_keys (cr : ControlResponseRec) :
    ∃ d, parseResponseRec true cr = .ok d ∧ d.map (·.1) = "status_code" :: "status_text" :: cpvFields := by
  unfold parseResponseRec
  cases cr.body with
  | none => exact ⟨_, rfl, by simp [Function.comp_def]⟩
  | some b => exact ⟨_, rfl, by simp [Function.comp_def]⟩

/-! ### bytes on the wire: command name, command Interest, response (model `Ndn.NfdBytes`) -/
section Bytes
open Ndn.Codec Ndn.Packet Ndn.NfdBytes

/-- the schemas the byte-level model is written against are `_encoded_fields` of the live classes
    ControlParametersValue, ControlParameters and ControlResponse, and they satisfy the hypothesis of the C08
    theorems -/
theorem gen_schemas :
    Ndn.Gen.C17.controlParametersValueLive = cpvFs ∧ Ndn.Gen.C17.controlParametersLive = cpFs ∧
    Ndn.Gen.C17.controlResponseLive = crFs ∧ wfTop cpFs = true ∧ wfTop crFs = true :=
  ⟨rfl, rfl, rfl, wf_cp, wf_cr⟩

/-- **command_names_prefix.** Whenever `make_command_v2(module, command, face, name=prefix, **rest)` returns a
    name, that name is the four head components `/localhost|localhop/nfd/<module>/<command>` followed by exactly
    one more component, and decoding that component's value with the ControlParameters decoder (the generic
    `parse` over the schema generated from the source) yields exactly the field values that were given: the
    requested prefix as `Name` and every other field — for every prefix of well-formed components and all field
    values that are legal for their fields (`fitsFs`). -/
theorem command_names_prefix (isLocal : Bool) (module command : Bytes) (pfx : List Bytes) (rest : List Value)
    (n : List Bytes) (hfit : fitsFs cpvFs (cpvOf pfx rest) = true)
    (h : commandName isLocal module command (cpvOf pfx rest) = .ok n) :
    n.length = 5 ∧ n.take 4 = commandHead isLocal module command ∧
    decodeCommandParams n = .ok [.model (cpvOf pfx rest)] ∧
    (decodeCommandParams n).toOption.bind namedPrefix = some pfx := by
  have hd := decode_commandName hfit h
  obtain ⟨cp, _, _, rfl⟩ := commandName_ok h
  refine ⟨by simp [commandHead], by simp [commandHead], hd, ?_⟩
  rw [hd]; rfl

/-- … for the two commands the registerer sends: `/localhost/nfd/rib/register|unregister/<ControlParameters>` -/
theorem rib_command_names_prefix (isLocal : Bool) (v : Verb) (pfx : List Bytes) (rest : List Value) (n : List Bytes)
    (hfit : fitsFs cpvFs (cpvOf pfx rest) = true) (h : ribCommandName isLocal v pfx rest = .ok n) :
    n.take 4 = [tlv 8 (if isLocal then localhostB else localhopB), tlv 8 nfdB, tlv 8 ribB, tlv 8 (verbB v)] ∧
    (decodeCommandParams n).toOption.bind namedPrefix = some pfx := by
  obtain ⟨_, h2, _, h4⟩ := command_names_prefix isLocal ribB (verbB v) pfx rest n hfit h
  exact ⟨h2, h4⟩

example : ribCommandName true .register [[8, 1, 97]] (List.replicate 15 .none) =
    .ok [[8, 9, 108, 111, 99, 97, 108, 104, 111, 115, 116], [8, 3, 110, 102, 100], [8, 3, 114, 105, 98],
         [8, 8, 114, 101, 103, 105, 115, 116, 101, 114], [8, 7, 104, 5, 7, 3, 8, 1, 97]] := by rfl
example : fitsFs cpvFs (cpvOf [[8, 1, 97], [8, 1, 98]] (Value.uint 300 :: List.replicate 14 Value.none)) = true := by decide
example : (do let n ← ribCommandName false .unregister [[8, 1, 97], [8, 1, 98]] (Value.uint 300 :: List.replicate 14 Value.none)
              decodeCommandParams n) =
    .ok [.model (cpvOf [[8, 1, 97], [8, 1, 98]] (Value.uint 300 :: List.replicate 14 Value.none))] := by rfl

/-- **command_signed_v2.** The v2 command Interest — `make_interest(name, param, b'', DigestSha256Signer(
    for_interest=True))` on a name built by `make_command_v2`, the signer writing `H` of what it is handed — is
    made without error, `parse_interest` decodes it to the command name followed by the ParametersSha256Digest
    component, the Interest parameters that went in, empty ApplicationParameters and a SignatureInfo with
    SignatureType DigestSha256, the given SignatureTime and SignatureNonce; and the forwarder-side checks pass on
    the ranges the parser reports: the parameters digest is valid (`params_sha256_checker`), the reported signed
    portion is byte for byte what the signer was handed, and the signature value is `H` of it
    (`sha256_digest_checker`).  For every prefix and field values, every Interest parameters, every
    SignatureTime / SignatureNonce below 2^64 and every `H` with 32-byte output; the only size hypothesis is that
    name and parameters stay below 2^63 bytes. -/
theorem command_signed_v2 (H : Bytes → Bytes) (hH : ∀ x, (H x).length = 32)
    (isLocal : Bool) (module command : Bytes) (hm : module.length < 2 ^ 64) (hc : command.length < 2 ^ 64)
    (cpv : List Value) (n : List Bytes) (h : commandName isLocal module command cpv = .ok n)
    (mid : List Value) (midB : Bytes) (time nonce : Nat)
    (hmid : encFields midFs mid = .ok midB) (hfitmid : fitsFs midFs mid = true)
    (ht : time < 2 ^ 64) (hn : nonce < 2 ^ 64) (hsize : (concatB n).length + midB.length < 2 ^ 63) :
    ∃ m vals ptrs, commandInterestV2 H n mid time nonce = .ok m ∧
      parseInterest m.wire = .ok (vals, ptrs) ∧
      m.finalName = n ++ [2 :: 32 :: H m.digestCovered] ∧
      vals = List.replicate 7 (Value.uint 0) ++ (Value.name m.finalName :: mid) ++
             List.replicate 2 (Value.uint (tlv 7 (concatB m.finalName) ++ midB).length) ++
             [.bytes [], digestSigInfo time nonce, .bytes (H (concatB m.covered)), .none] ∧
      paramsCheck H ptrs = true ∧
      concatB ptrs.sigCovered = concatB m.covered ∧
      ptrs.sigValue = some (H (concatB ptrs.sigCovered)) ∧
      verifyPtrs (digestScheme H) ptrs = true := by
  obtain ⟨hname, hnd⟩ := commandName_comps h hm hc
  exact commandInterestV2_checks H hH n mid midB time nonce hname hnd hmid hfitmid ht hn hsize

set_option maxRecDepth 8000 in
example :
    (do let n ← ribCommandName true .register [[8, 1, 97]] (List.replicate 15 .none)
        let m ← commandInterestV2 (fun _ => List.replicate 32 7) n [.none, .bool, .none, .uint 5, .uint 1000, .none] 1700 9
        let (_, p) ← parseInterest m.wire
        pure (m.finalName.length, paramsCheck (fun _ => List.replicate 32 7) p,
              verifyPtrs (digestScheme (fun _ => List.replicate 32 7)) p, p.sigValue)) =
    .ok (6, true, true, some (List.replicate 32 7)) := by rfl

/-- **response_roundtrip_bytes.** For a ControlResponse with any status code, status text and (optional) body
    that are legal for their fields, `parse_response` applied to the bytes the forwarder sends (element 0x65
    around the encoded ControlResponse): the outer check and the generic decoder give back the encoded values
    (C08 round trip on the schema generated from the source); the whole function agrees with the model-level
    `parseResponseRec` on the decoded record; and the dict holds the status code, the status text and, under the
    name of each ControlParameters field, the value that was encoded for it (`None` when it, or the body, is
    absent; a `strategy` is shown by its name). -/
theorem response_roundtrip_bytes (code : Option Nat) (text : Option Bytes) (body : Option (List Value)) (w : Bytes)
    (hfit : fitsFs crFs (crValues code text body) = true) (henc : encodeResponse code text body = .ok w) :
    (∃ v, parseAndCheckTl w 0x65 = .ok v ∧ parse crFs false v = .ok (crValues code text body)) ∧
    parseResponse true w = parseResponseRec true ⟨code, text, body.map (bodyFields cpvFields)⟩ ∧
    ∃ d, parseResponse true w = .ok d ∧
      d.lookup "status_code" = some ((code.map DVal.uint).getD .none) ∧
      d.lookup "status_text" = some ((text.map DVal.text).getD .none) ∧
      ∀ (i : Nat) (k : String), cpvFields[i]? = some k →
        d.lookup k = some ((body.map fun vs => dvalOf (vs.getD i .none)).getD .none) := by
  obtain ⟨h1, h2⟩ := parseResponse_encode code text body w hfit henc true
  refine ⟨h1, h2, ?_⟩
  obtain ⟨d, hd, hc, ht, hf⟩ := response_roundtrip ⟨code, text, body.map (bodyFields cpvFields)⟩
  refine ⟨d, h2.trans hd, by cases code <;> exact hc, by cases text <;> exact ht, ?_⟩
  intro i k hk
  rw [hf k (List.mem_of_getElem? hk)]
  cases body with
  | none => rfl
  | some vs =>
    have hfv : fitsFs cpvFs vs = true := by
      cases code <;> cases text <;> simp [crFs, crValues, fitsFs, fits] at hfit <;> first | exact hfit | exact hfit.2
    have hl : cpvFields.length = vs.length := by rw [fitsFs_length cpvFs vs hfv]; rfl
    simp only [Option.map_some, Option.bind_some, Option.getD_some, dvalOf]
    rw [lookupField_bodyFields cpvFields vs cpvFields_nodup hl i k hk]

example : encodeResponse (some 200) (some [79, 75]) (some (cpvOf [[8, 1, 97]] (Value.uint 300 :: List.replicate 14 Value.none)))
    = .ok [101, 18, 102, 1, 200, 103, 2, 79, 75, 104, 9, 7, 3, 8, 1, 97, 105, 2, 1, 44] := by rfl
example : (parseResponse true [101, 18, 102, 1, 200, 103, 2, 79, 75, 104, 9, 7, 3, 8, 1, 97, 105, 2, 1, 44]).toOption.bind
    (fun d => d.lookup "face_id") = some (.uint 300) := by rfl
example : (parseResponse true [101, 3, 102, 1, 147]).toOption.bind (fun d => d.lookup "name") = some .none := by rfl

/-- the forwarder-side check of a legacy (signed-name) command: nine components, the last one holding a
    SignatureValue element whose value is `H` of the eight components before it -/
def legacySigOk (H : Bytes → Bytes) (n : List Bytes) : Bool :=
  n.length == 9 &&
  match n[8]? with
  | some c => compValue c == [23, 32] ++ H (concatB (n.take 8))
  | none => false

/-- **legacy_command_name.** Whenever the legacy `make_command` returns a name, it is the v2 command name (so
    `command_names_prefix` applies to its fifth component) followed, in this order, by the timestamp and the nonce
    as 8-byte big-endian generic components that decode back to the numbers signed, a component holding the
    SignatureInfo element (SignatureType DigestSha256 and nothing else), and a component holding the
    SignatureValue element, whose value is `H` of the concatenation of all eight preceding components. -/
theorem legacy_command_name (H : Bytes → Bytes) (hH : ∀ x, (H x).length = 32) (isLocal : Bool)
    (module command : Bytes) (cpv : List Value) (ts nonce : Nat) (n : List Bytes)
    (h : legacyCommandName H isLocal module command cpv ts nonce = .ok n) :
    ∃ n5, commandName isLocal module command cpv = .ok n5 ∧
      n = n5 ++ [tlv 8 (be8 ts), tlv 8 (be8 nonce), tlv 8 [22, 3, 27, 1, 0],
                 tlv 8 ([23, 32] ++ H (concatB (n.take 8)))] ∧
      beVal (compValue (tlv 8 (be8 ts))) = ts ∧ beVal (compValue (tlv 8 (be8 nonce))) = nonce ∧
      (parseAndCheckTl (compValue (tlv 8 [22, 3, 27, 1, 0])) 22 >>= parse sigInfoFields false) = .ok legacySigInfo ∧
      legacySigOk H n = true := by
  obtain ⟨n5, h5, hts, hno, rfl⟩ := legacyCommandName_ok h
  obtain ⟨cp, _, _, rfl⟩ := commandName_ok h5
  have h8 : (8 : Nat) < 2 ^ 64 := by decide
  have hl : ∀ v, (be8 v).length < 2 ^ 64 := fun v => by rw [be8_length]; decide
  have htake : ((commandHead isLocal module command ++ [tlv 8 cp]) ++ legacyTail ts nonce ++
      [tlv 8 ([23, 32] ++ H (concatB ((commandHead isLocal module command ++ [tlv 8 cp]) ++ legacyTail ts nonce)))]).take 8
      = (commandHead isLocal module command ++ [tlv 8 cp]) ++ legacyTail ts nonce := by
    simp [commandHead, legacyTail]
  refine ⟨_, h5, ?_, ?_, ?_, ?_, ?_⟩
  · rw [htake]; simp [legacyTail]
  · rw [compValue_tlv 8 _ h8 (hl ts)]; exact beVal_be8 ts (by simpa using hts)
  · rw [compValue_tlv 8 _ h8 (hl nonce)]; exact beVal_be8 nonce (by simpa using hno)
  · rw [compValue_tlv 8 _ h8 (by decide)]; rfl
  · have hcv : ∀ x : Bytes, x.length = 32 → compValue (tlv 8 ([23, 32] ++ x)) = [23, 32] ++ x :=
      fun x hx => compValue_tlv 8 _ h8 (by simp [hx])
    unfold legacySigOk
    rw [htake]
    simp [commandHead, legacyTail]
    exact hcv _ (hH _)

example : legacyCommandName (fun _ => List.replicate 32 7) true ribB registerB (cpvOf [[8, 1, 97]] (List.replicate 15 .none))
    1000 5 =
    .ok [[8, 9, 108, 111, 99, 97, 108, 104, 111, 115, 116], [8, 3, 110, 102, 100], [8, 3, 114, 105, 98],
         [8, 8, 114, 101, 103, 105, 115, 116, 101, 114], [8, 7, 104, 5, 7, 3, 8, 1, 97],
         [8, 8, 0, 0, 0, 0, 0, 0, 3, 232], [8, 8, 0, 0, 0, 0, 0, 0, 0, 5], [8, 5, 22, 3, 27, 1, 0],
         8 :: 34 :: 23 :: 32 :: List.replicate 32 7] := by rfl

end Bytes

/-! ### the defects of the unchanged tree (finding F13), as theorems about the unrepaired configurations -/

/-- F13 (1): a ControlResponse without body — what NFD sends with 403/404 — makes `register` raise
    `AttributeError` instead of returning `False` (both front-ends). -/
theorem unchanged_register_raises_without_body (fe : FrontEnd) (c : Option Nat) :
    finish (Cfg.unchanged fe) .register (expressOutcome fe (.response c false true)) = .error .attributeError := by
  cases fe <;> simp [finish, expressOutcome, validates, parseStatus, Cfg.unchanged]

/-- F13 (2): `unregister` reports success for any Data that comes back, whatever its status. -/
theorem unchanged_unregister_ignores_status (fe : FrontEnd) (c : Option Nat) (b : Bool) :
    finish (Cfg.unchanged fe) .unregister (expressOutcome fe (.response c b true)) = .ok true ∧
    finish (Cfg.unchanged fe) .unregister (expressOutcome fe (.undecodable true)) = .ok true := by
  cases fe <;> simp [finish, expressOutcome, validates, Cfg.unchanged]

/-- consequence of F13 (1): the first refused route kills the starting task; the remaining routes are never
    registered on that connection. -/
theorem unchanged_routes_lost :
    (run (Cfg.unchanged .v2) ⟨fun _ => 0, fun _ => 1, fun _ => 0, fun _ => 0⟩ (init 5)
      [.connect [7, 8], .reply (.response (some 403) false true), .reply .timeout]).2
      = [.connected, .cmd ⟨0, .register, 7, true⟩ 5, .ret ⟨0, .register, 7, true⟩ (.error .attributeError)] := by
  decide

/-! ### obligations on the tables generated from the source -/

/-- the field list the model iterates over is `ControlParametersValue._encoded_fields` of the source, and
    ControlResponse has the three fields the model reads -/
theorem gen_fields :
    Ndn.Gen.C17.controlParametersValueFields = cpvFields ∧
    Ndn.Gen.C17.controlResponseFields = ["status_code", "status_text", "body"] := by decide

/-- each of the four registration functions catches the four network outcomes the model maps to `False` -/
theorem gen_caught :
    Ndn.Gen.C17.caught.map (·.1) = ["NfdRegister.register", "NfdRegister.unregister", "app.register", "app.unregister"] ∧
    ∀ row ∈ Ndn.Gen.C17.caught,
      ∀ c ∈ ["InterestNack", "InterestTimeout", "InterestCanceled", "ValidationFailure"], c ∈ row.2 := by decide

end Ndn.C17
