import NdnProofs.Lemmas.NfdMgmt
import NdnProofs.Lemmas.NfdBytes
import NdnGen.C17
/-!
# C17 — Prefix registration speaks the forwarder management protocol correctly

Theorems about `Ndn.NfdMgmt` (model of `NfdRegister.register/unregister`, the legacy
`NDNApp.register/unregister`, `starting_task` auto-registration and the glue of `parse_response`), for
**every** event history (calls, replies, connections in any order and number), every clock and every reply.

Specification vocabulary (does not mention the implementation):
* `answers200 fe k` — the forwarder answered with status 200 (on the front-end that validates replies: in a
  Data packet whose signature verifies);
* `alt` — commands and returns alternate in the trace and every return belongs to the command in flight;
* `tsOf` — the signed timestamps in emission order; `autoCmds` — the prefixes of the commands sent for routes;
* `ClockOk` — the clock hypothesis of the timestamp guard.

The byte-level half (section "bytes on the wire" below) composes the generic TLV codec (C08 round trip) and the
packet model (C01/C02) into the command name, the command Interest and the response decoder of
`Ndn.NfdBytes`, for every prefix, every ControlParameters field value, every SignatureTime / SignatureNonce and
every hash function `H` with 32-byte output.

The composed half (section "from the call to the bytes on the face …") runs the state machine between the two:
reply BYTES (any byte string) are decoded with the packet decoder of C07 and the response decoder above into the
reply kinds the state machine consumes, and its trace is turned into the command Interest WIRES of the front-end in
use; the theorems there are about what a forwarder reads from these wires and about which bytes make a call succeed.

`Cfg.repaired fe` is the code as it is now (fixes C17-1 … C17-6 applied): `register` and `unregister` of both
front-ends go through the command lock.  `Cfg.unchanged fe` is the unchanged tree, including the legacy
`NDNApp.unregister` that ran outside the semaphore (`Cfg.unregLock = false`, `freeRun`).
-/
namespace Ndn.C17
open Ndn Ndn.NfdMgmt

/-- the forwarder answered with status 200 — and, on the front-end that validates what it receives, the answer
    is authentic -/
def answers200 (fe : FrontEnd) : Reply → Bool
  | .response c _ sigOk => (c == some 200) && (match fe with | .v2 => true | .legacy => sigOk)
  | _ => false

/-- **success_iff_200.** `register` / `unregister` return `True` if and only if the forwarder answers with
    status 200, and never raise: whatever comes back, the result is `ok (answers200 …)`. -/
theorem success_iff_200 (fe : FrontEnd) (v : Verb) (k : Reply) :
    finish (Cfg.repaired fe) v (expressOutcome fe k) = .ok (answers200 fe k) := by
  cases k with
  | response c b ok =>
    cases fe <;> cases ok <;> cases v <;> cases b <;>
      simp [finish, expressOutcome, validates, parseStatus, Cfg.repaired, answers200]
  | undecodable ok =>
    cases fe <;> cases ok <;> cases v <;>
      simp [finish, expressOutcome, validates, parseStatus, Cfg.repaired, answers200]
  | nack => cases v <;> rfl
  | timeout => cases v <;> rfl
  | canceled => cases v <;> rfl

example : answers200 .v2 (.response (some 200) false true) = true := by decide
example : answers200 .legacy (.response (some 200) true false) = false := by decide

/-- … in the state machine: the reply to the command in flight makes exactly that call return, first thing,
    with `ok (answers200 …)`. -/
theorem reply_returns (fe : FrontEnd) (env : Env) (s : St) (r : Req) (k : Reply) (h : s.inflight = some r) :
    (step (Cfg.repaired fe) env s (.reply k)).2.head? = some (.ret r (.ok (answers200 fe k))) := by
  rw [step_reply_some _ env s k r h]
  show some (Out.ret r (finish (Cfg.repaired fe) r.verb (expressOutcome fe k))) = _
  rw [success_iff_200]

example : (step (Cfg.repaired .v2) ⟨fun _ => 0, fun _ => 1, fun _ => 0, fun _ => 0⟩
    { clock := { now := 5 }, inflight := some ⟨0, .register, 3, false⟩ } (.reply .nack)).2.head?
      = some (.ret ⟨0, .register, 3, false⟩ (.ok false)) := by decide

/-- **failure_no_raise.** A Nack, a timeout, a shutdown, a validation failure, any status other than 200
    (with or without body, also a response without StatusCode) and a response that does not decode all report
    `False` without raising. -/
theorem failure_no_raise (fe : FrontEnd) (v : Verb) (k : Reply) (h : answers200 fe k = false) :
    finish (Cfg.repaired fe) v (expressOutcome fe k) = .ok false := by
  rw [success_iff_200, h]

example : answers200 .v2 (.response (some 403) false true) = false := by decide
example : answers200 .legacy (.undecodable true) = false := by decide

/-- **never_raises.** In every history every call returns normally. -/
theorem never_raises (fe : FrontEnd) (env : Env) (s : St) (evs : List Ev) (r : Req) (res : Except PyErr Bool)
    (h : Out.ret r res ∈ (run (Cfg.repaired fe) env s evs).2) : ∃ b, res = .ok b :=
  run_retsOk (Cfg.repaired fe) rfl rfl env s evs r res h

/-- **one_at_a_time.** However many calls are made and whenever: in the trace commands and returns alternate,
    and each return is the return of the call whose command is in flight — never two commands in flight. -/
theorem one_at_a_time (cfg : Cfg) (hl : cfg.unregLock = true) (env : Env) (t0 : Nat) (evs : List Ev) :
    alt none (run cfg env (init t0) evs).2 = some (run cfg env (init t0) evs).1.inflight :=
  (run_disc cfg env (init t0) evs (fun _ => rfl) (init_locked cfg hl t0)).alt

example : alt none [.cmd ⟨0, .register, 1, false⟩ 7, .ret ⟨0, .register, 1, false⟩ (.ok true),
    .cmd ⟨1, .unregister, 1, false⟩ 8] = some (some ⟨1, .unregister, 1, false⟩) := by decide
example : alt none [.cmd ⟨0, .register, 1, false⟩ 7, .cmd ⟨1, .unregister, 1, false⟩ 8] = none := by decide

/-- **one_command_per_call.** Every request (`nextId` counts them) has put exactly one command on the wire,
    except those still waiting for the semaphore. -/
theorem one_command_per_call (cfg : Cfg) (hl : cfg.unregLock = true) (env : Env) (t0 : Nat) (evs : List Ev) :
    countCmd (run cfg env (init t0) evs).2 + (run cfg env (init t0) evs).1.queue.length
      = (run cfg env (init t0) evs).1.nextId := by
  have := (run_disc cfg env (init t0) evs (fun _ => rfl) (init_locked cfg hl t0)).count
  simpa [init] using this

/-- **timestamps_strict.** If the clock advances across every 1 ms sleep of the guard loop, the signed
    timestamps of the commands are strictly increasing — for any number of calls at the same clock reading,
    any replies, and any ticks of the clock between the guarded read, the signed read and the re-read. -/
theorem timestamps_strict (fe : FrontEnd) (env : Env) (hs : ∀ k, 1 ≤ env.sleepAdv k) (t0 : Nat) (evs : List Ev) :
    List.Pairwise (· < ·) (tsOf (run (Cfg.repaired fe) env (init t0) evs).2) :=
  (run_trel (Cfg.repaired fe) env ⟨rfl, hs, Or.inl rfl⟩ (init t0) evs (Nat.zero_le _) ⟨rfl, rfl⟩).strict

example : tsOf (run (Cfg.repaired .v2) ⟨fun _ => 0, fun _ => 1, fun k => if k = 0 then 1 else 0, fun _ => 0⟩ (init 5)
    [.call .register 0, .call .unregister 1, .reply (.response (some 200) true true), .reply .nack]).2
      = [6, 7] := by decide

/-- Without the re-read (the unchanged v2 registerer) the same holds only if the clock never ticks between
    the guarded read and the read that is signed. -/
theorem guard_only_strict_without_sign_tick (cfg : Cfg) (hg : cfg.guard = true) (hl : cfg.unregLock = true)
    (env : Env) (hs : ∀ k, 1 ≤ env.sleepAdv k) (hz : ∀ k, env.signTick k = 0) (t0 : Nat) (evs : List Ev) :
    List.Pairwise (· < ·) (tsOf (run cfg env (init t0) evs).2) :=
  (run_trel cfg env ⟨hg, hs, Or.inr hz⟩ (init t0) evs (Nat.zero_le _) (init_locked cfg hl t0)).strict

/-- **guard_only_counterexample** (finding F13, third item). On the unchanged tree the guard compares a clock
    reading taken before the one that is signed: a monotone clock that advances across every sleep, ticks once
    between guard and signature of the first command and not at all afterwards, makes two consecutive commands
    carry the same timestamp. -/
theorem guard_only_counterexample :
    ∃ env : Env, (∀ k, 1 ≤ env.sleepAdv k) ∧
      tsOf (run (Cfg.unchanged .v2) env (init 0)
        [.call .register 0, .reply (.response (some 200) true true), .call .register 1]).2 = [2, 2] :=
  ⟨⟨fun k => if k = 0 then 1 else 0, fun _ => 1, fun k => if k = 0 then 1 else 0, fun _ => 0⟩,
    fun _ => Nat.le_refl 1, by decide⟩

/-- The unchanged legacy front-end has no guard at all: two registrations answered within the same
    millisecond carry the same timestamp. -/
theorem no_guard_counterexample :
    tsOf (run (Cfg.unchanged .legacy) ⟨fun _ => 0, fun _ => 1, fun _ => 0, fun _ => 0⟩ (init 5)
      [.call .register 0, .call .register 1, .reply (.response (some 200) true true)]).2 = [5, 5] := by decide

/-- **unregister_takes_the_lock.** In the code as it is now, on both front-ends, a call of `unregister` goes exactly
    the way a call of `register` goes: it queues for the command lock, waits for a fresh millisecond, signs, sends
    and waits for its reply under the lock (`submit`).  So `one_at_a_time`, `one_command_per_call` and
    `timestamps_strict` above speak about registrations and unregistrations of both front-ends alike. -/
theorem unregister_takes_the_lock (fe : FrontEnd) (env : Env) (s : St) (v : Verb) (p : Nat) :
    step (Cfg.repaired fe) env s (.call v p) = submit (Cfg.repaired fe) env s v p false :=
  step_call (Cfg.repaired fe) rfl env s v p

/-- … and nothing is ever in flight outside the lock: in every history the list of commands sent outside the
    semaphore stays empty. -/
theorem nothing_outside_the_lock (cfg : Cfg) (hl : cfg.unregLock = true) (env : Env) (t0 : Nat) (evs : List Ev) :
    (run cfg env (init t0) evs).1.free = [] := by
  suffices h : ∀ s, Locked cfg s → (run cfg env s evs).1.free = [] from h _ (init_locked cfg hl t0)
  induction evs with
  | nil => intro s hk; exact hk.2
  | cons e es ih => intro s hk; exact ih _ (step_locked cfg env s e hk)

/-- **unchanged_legacy_unregister_overlaps** (the defect repaired by C17-5 / fix 754fd1f, now inside the model).
    The unchanged legacy `NDNApp.unregister` ran outside the semaphore and without the timestamp guard: an
    `unregister` issued while a registration is in flight puts a second command on the wire (the trace violates
    the one-at-a-time discipline), and two `unregister` calls at one clock reading carry the same timestamp. -/
theorem unchanged_legacy_unregister_overlaps :
    alt none (run (Cfg.unchanged .legacy) ⟨fun _ => 0, fun _ => 1, fun _ => 0, fun _ => 0⟩ (init 5)
      [.call .register 0, .call .unregister 1]).2 = none ∧
    tsOf (run (Cfg.unchanged .legacy) ⟨fun _ => 0, fun _ => 1, fun _ => 0, fun _ => 0⟩ (init 5)
      [.call .unregister 0, .call .unregister 1]).2 = [5, 5] ∧
    (run (Cfg.unchanged .legacy) ⟨fun _ => 0, fun _ => 1, fun _ => 0, fun _ => 0⟩ (init 5)
      [.call .register 0, .call .unregister 1, .call .unregister 2, .replyU 1 (.response (some 404) false true)]).2
      = [.cmd ⟨0, .register, 0, false⟩ 5, .cmd ⟨1, .unregister, 1, false⟩ 5, .cmd ⟨2, .unregister, 2, false⟩ 5,
         .ret ⟨2, .unregister, 2, false⟩ (.ok true)] := by
  decide

/-- **routes_conserved.** After a connection is established (with no starting task still running) the route
    registrations on the wire, those waiting for the semaphore and those not yet requested are, in this order,
    exactly the declared routes — whatever calls and replies are interleaved.  In particular no route is ever
    registered twice on a connection. -/
theorem routes_conserved (fe : FrontEnd) (env : Env) (s : St) (hw : WF s) (hf : s.free = [])
    (ha : autoActive s = false) (rs : List Nat) (evs : List Ev) (hne : NoConnect evs) :
    autoCmds (run (Cfg.repaired fe) env s (.connect rs :: evs)).2
      ++ autoOpen (run (Cfg.repaired fe) env s (.connect rs :: evs)).1 = rs := by
  obtain ⟨h1, h2⟩ := connect_rrel (Cfg.repaired fe) env s rs ha hw
  have h3 := run_rrel (Cfg.repaired fe) rfl rfl env _ evs hne h2 (step_locked _ env s _ ⟨rfl, hf⟩)
  simp only [run]
  rw [autoCmds_append, List.append_assoc, h3.cons, h1]

/-- **routes_once_per_connection.** … hence once the starting task has nothing left to do, every declared
    route has been registered exactly once, in declaration order. -/
theorem routes_once_per_connection (fe : FrontEnd) (env : Env) (s : St) (hw : WF s) (hf : s.free = [])
    (ha : autoActive s = false) (rs : List Nat) (evs : List Ev) (hne : NoConnect evs)
    (hdone : autoOpen (run (Cfg.repaired fe) env s (.connect rs :: evs)).1 = []) :
    autoCmds (run (Cfg.repaired fe) env s (.connect rs :: evs)).2 = rs := by
  have := routes_conserved fe env s hw hf ha rs evs hne
  rw [hdone, List.append_nil] at this
  exact this

/-- … and that point is reached: with one reply (of any kind — refusal, Nack, timeout, garbage) per route, all
    routes have been registered exactly once. -/
theorem routes_registered_after_replies (fe : FrontEnd) (env : Env) (t0 : Nat) (rs : List Nat) (ks : List Reply)
    (hl : rs.length ≤ ks.length) :
    autoCmds (run (Cfg.repaired fe) env (init t0) (.connect rs :: ks.map .reply)).2 = rs := by
  have hne : NoConnect (ks.map Ev.reply) := by
    intro e he
    obtain ⟨k, _, hk⟩ := List.mem_map.mp he
    rw [← hk]
    refine And.intro ?_ ?_
    · intro hc; cases hc
    · intro rs' hc; cases hc
  apply routes_once_per_connection fe env (init t0) (fun _ => rfl) rfl rfl rs _ hne
  cases rs with
  | nil =>
    simp only [run]
    rw [step_connect_nil _ env (init t0) rfl, run_replies_idle _ env (init t0) ks rfl]
    rfl
  | cons p todo =>
    simp only [run]
    rw [step_connect_cons _ env (init t0) p todo rfl]
    exact drain (Cfg.repaired fe) rfl rfl env todo _ ks ⟨0, .register, p, true⟩ rfl rfl rfl rfl
      (by simpa using hl)

example : autoCmds (run (Cfg.repaired .legacy) ⟨fun _ => 0, fun _ => 1, fun _ => 0, fun _ => 0⟩ (init 5)
    [.connect [7, 8], .call .unregister 1, .reply (.response (some 403) false true), .reply .timeout,
     .reply (.undecodable true)]).2 = [7, 8] := by decide

/-- **connection_loss_ends_startup.** However a connection ends — `Face.run()` returns or raises, with start-up
    registration finished, in progress (k of n commands sent) or not yet begun — once it is gone the start-up task
    is gone with it (provided nobody was waiting for the command lock at that moment; that case is marked
    `unmodelled`): nothing is in flight, nothing waits, no route is left to be requested, and the call that was in
    flight has returned `False`.  This is the hypothesis `autoActive s = false` of `routes_conserved`. -/
theorem connection_loss_ends_startup (cfg : Cfg) (env : Env) (s : St) (hq : s.queue = []) :
    autoActive (step cfg env s .down).1 = false ∧ WF (step cfg env s .down).1 ∧
    (step cfg env s .down).1.free = s.free ∧ autoCmds (step cfg env s .down).2 = [] ∧
    ∀ r, s.inflight = some r → (step cfg env s .down).2 = [.ret r (.ok false)] := by
  rcases step_down_cases cfg env s with ⟨h, _⟩ | ⟨_, hi, he⟩ | ⟨r, _, hi, he⟩
  · exact absurd hq h
  · rw [he]
    refine ⟨by simp [autoActive, hi, hq], fun _ => hq, rfl, rfl, ?_⟩
    intro r hr; rw [hi] at hr; cases hr
  · rw [he]
    refine ⟨by simp [autoActive, hq], fun _ => hq, rfl, rfl, ?_⟩
    intro r' hr; rw [hi] at hr; cases hr
    cases r.verb <;> simp [replyRes, finish, expressOutcome]

/-- **routes_once_after_any_end.** Whatever state the previous connection was in when it was lost (any history before
    it; start-up registration finished or cut after k of n commands; by `Face.run()` returning or raising) — as long
    as nobody was waiting for the command lock — on the NEXT connection the route registrations on the wire, those
    waiting and those not yet requested are exactly the routes declared at that moment: nothing of the previous
    connection suppresses or repeats a route. (The model keeps no per-connection memory of routes already sent, as
    the code has none.  Not covered: a connection established while the start-up task of the previous one is still
    running — `Face.run()` raised during start-up and the application reconnects before the command in flight has
    run into its lifetime — which `step` marks `unmodelled`.) -/
theorem routes_once_after_any_end (fe : FrontEnd) (env : Env) (s : St) (hf : s.free = []) (hq : s.queue = [])
    (rs : List Nat) (evs : List Ev) (hne : NoConnect evs) :
    autoCmds (run (Cfg.repaired fe) env s (.down :: .connect rs :: evs)).2
      ++ autoOpen (run (Cfg.repaired fe) env s (.down :: .connect rs :: evs)).1 = rs := by
  obtain ⟨ha, hw, hfr, hc, _⟩ := connection_loss_ends_startup (Cfg.repaired fe) env s hq
  have := routes_conserved fe env (step (Cfg.repaired fe) env s .down).1 hw (by rw [hfr]; exact hf) ha rs evs hne
  show autoCmds ((step (Cfg.repaired fe) env s .down).2 ++
      (run (Cfg.repaired fe) env (step (Cfg.repaired fe) env s .down).1 (.connect rs :: evs)).2) ++ _ = rs
  rw [autoCmds_append, hc, List.nil_append]
  exact this

/-- two routes; the first connection is lost when one of the two start-up commands has been sent; on the second
    connection both are registered, once each -/
example : autoCmds (run (Cfg.repaired .v2) ⟨fun _ => 0, fun _ => 1, fun _ => 0, fun _ => 0⟩ (init 5)
    [.connect [7, 8], .down, .connect [7, 8], .reply (.response (some 200) true true),
     .reply (.response (some 200) true true)]).2 = [7, 7, 8] := by decide

/-- **response_roundtrip.** `parse_response` returns the fields of the decoded ControlResponse: status code,
    status text and every ControlParameters field of the body (`None` for a field, or a body, that is absent). -/
theorem response_roundtrip (cr : ControlResponseRec) :
    ∃ d, parseResponseRec true cr = .ok d ∧
      d.lookup "status_code" = some (match cr.statusCode with | some n => .uint n | none => .none) ∧
      d.lookup "status_text" = some (match cr.statusText with | some t => .text t | none => .none) ∧
      ∀ k ∈ cpvFields, d.lookup k = some (DVal.ofF (cr.body.bind fun b => lookupField b k)) := by
  have hmap : ∀ (f : String → DVal) (l : List String) (k : String), k ∈ l →
      (l.map fun x => (x, f x)).lookup k = some (f k) := by
    intro f l k hk
    induction l with
    | nil => cases hk
    | cons x t ih =>
      by_cases hx : k = x
      · subst hx; simp
      · have : k ∈ t := by simpa [hx] using hk
        have hne : (k == x) = false := by simpa using hx
        simp only [List.map_cons, List.lookup, hne]
        exact ih this
  have hk1 : ∀ k ∈ cpvFields, (k == "status_code") = false ∧ (k == "status_text") = false := by decide
  unfold parseResponseRec
  cases cr.body with
  | none =>
    refine ⟨_, rfl, by simp <;> rfl, by simp <;> rfl, ?_⟩
    intro k hk
    obtain ⟨h1, h2⟩ := hk1 k hk
    simp only [List.cons_append, List.nil_append, List.lookup, h1, h2, Option.bind_none]
    exact hmap (fun _ => DVal.none) cpvFields k hk
  | some b =>
    refine ⟨_, rfl, by simp <;> rfl, by simp <;> rfl, ?_⟩
    intro k hk
    obtain ⟨h1, h2⟩ := hk1 k hk
    simp only [List.cons_append, List.nil_append, List.lookup, h1, h2, Option.bind_some]
    exact hmap (fun k => DVal.ofF (lookupField b k)) cpvFields k hk

example : (parseResponseRec true ⟨some 403, none, none⟩).toOption.bind (·.lookup "name") = some .none := by decide

/-- the dict has exactly the keys `status_code`, `status_text` and the ControlParameters field names, in order -/
theorem response_keys (cr : ControlResponseRec) :
    ∃ d, parseResponseRec true cr = .ok d ∧ d.map (·.1) = "status_code" :: "status_text" :: cpvFields := by
  unfold parseResponseRec
  cases cr.body with
  | none => exact ⟨_, rfl, by simp [Function.comp_def]⟩
  | some b => exact ⟨_, rfl, by simp [Function.comp_def]⟩

/-! ### bytes on the wire: command name, command Interest, response (model `Ndn.NfdBytes`) -/
section Bytes
open Ndn.Codec Ndn.Packet Ndn.NfdBytes

/-- the schemas the byte-level model is written against are `_encoded_fields` of the live classes
    ControlParametersValue, ControlParameters and ControlResponse, and they satisfy the hypothesis of the C08
    theorems -/
theorem gen_schemas :
    Ndn.Gen.C17.controlParametersValueLive = cpvFs ∧ Ndn.Gen.C17.controlParametersLive = cpFs ∧
    Ndn.Gen.C17.controlResponseLive = crFs ∧ wfTop cpFs = true ∧ wfTop crFs = true :=
  ⟨rfl, rfl, rfl, wf_cp, wf_cr⟩

/-- **command_names_prefix.** Whenever `make_command_v2(module, command, face, name=prefix, **rest)` returns a
    name, that name is the four head components `/localhost|localhop/nfd/<module>/<command>` followed by exactly
    one more component, and decoding that component's value with the ControlParameters decoder (the generic
    `parse` over the schema generated from the source) yields exactly the field values that were given: the
    requested prefix as `Name` and every other field — for every prefix of well-formed components and all field
    values that are legal for their fields (`fitsFs`). -/
theorem command_names_prefix (isLocal : Bool) (module command : Bytes) (pfx : List Bytes) (rest : List Value)
    (n : List Bytes) (hfit : fitsFs cpvFs (cpvOf pfx rest) = true)
    (h : commandName isLocal module command (cpvOf pfx rest) = .ok n) :
    n.length = 5 ∧ n.take 4 = commandHead isLocal module command ∧
    decodeCommandParams n = .ok [.model (cpvOf pfx rest)] ∧
    (decodeCommandParams n).toOption.bind namedPrefix = some pfx := by
  have hd := decode_commandName hfit h
  obtain ⟨cp, _, _, rfl⟩ := commandName_ok h
  refine ⟨by simp [commandHead], by simp [commandHead], hd, ?_⟩
  rw [hd]; rfl

/-- … for the two commands the registerer sends: `/localhost/nfd/rib/register|unregister/<ControlParameters>` -/
theorem rib_command_names_prefix (isLocal : Bool) (v : Verb) (pfx : List Bytes) (rest : List Value) (n : List Bytes)
    (hfit : fitsFs cpvFs (cpvOf pfx rest) = true) (h : ribCommandName isLocal v pfx rest = .ok n) :
    n.take 4 = [tlv 8 (if isLocal then localhostB else localhopB), tlv 8 nfdB, tlv 8 ribB, tlv 8 (verbB v)] ∧
    (decodeCommandParams n).toOption.bind namedPrefix = some pfx := by
  obtain ⟨_, h2, _, h4⟩ := command_names_prefix isLocal ribB (verbB v) pfx rest n hfit h
  exact ⟨h2, h4⟩

example : ribCommandName true .register [[8, 1, 97]] (List.replicate 15 .none) =
    .ok [[8, 9, 108, 111, 99, 97, 108, 104, 111, 115, 116], [8, 3, 110, 102, 100], [8, 3, 114, 105, 98],
         [8, 8, 114, 101, 103, 105, 115, 116, 101, 114], [8, 7, 104, 5, 7, 3, 8, 1, 97]] := by rfl
example : fitsFs cpvFs (cpvOf [[8, 1, 97], [8, 1, 98]] (Value.uint 300 :: List.replicate 14 Value.none)) = true := by decide
example : (do let n ← ribCommandName false .unregister [[8, 1, 97], [8, 1, 98]] (Value.uint 300 :: List.replicate 14 Value.none)
              decodeCommandParams n) =
    .ok [.model (cpvOf [[8, 1, 97], [8, 1, 98]] (Value.uint 300 :: List.replicate 14 Value.none))] := by rfl

/-- **command_signed_v2.** The v2 command Interest — `make_interest(name, param, b'', DigestSha256Signer(
    for_interest=True))` on a name built by `make_command_v2`, the signer writing `H` of what it is handed — is
    made without error, `parse_interest` decodes it to the command name followed by the ParametersSha256Digest
    component, the Interest parameters that went in, empty ApplicationParameters and a SignatureInfo with
    SignatureType DigestSha256, the given SignatureTime and SignatureNonce; and the forwarder-side checks pass on
    the ranges the parser reports: the parameters digest is valid (`params_sha256_checker`), the reported signed
    portion is byte for byte what the signer was handed, and the signature value is `H` of it
    (`sha256_digest_checker`).  For every prefix and field values, every Interest parameters, every
    SignatureTime / SignatureNonce below 2^64 and every `H` with 32-byte output; the only size hypothesis is that
    name and parameters stay below 2^63 bytes. -/
theorem command_signed_v2 (H : Bytes → Bytes) (hH : ∀ x, (H x).length = 32)
    (isLocal : Bool) (module command : Bytes) (hm : module.length < 2 ^ 64) (hc : command.length < 2 ^ 64)
    (cpv : List Value) (n : List Bytes) (h : commandName isLocal module command cpv = .ok n)
    (mid : List Value) (midB : Bytes) (time nonce : Nat)
    (hmid : encFields midFs mid = .ok midB) (hfitmid : fitsFs midFs mid = true)
    (ht : time < 2 ^ 64) (hn : nonce < 2 ^ 64) (hsize : (concatB n).length + midB.length < 2 ^ 63) :
    ∃ m vals ptrs, commandInterestV2 H n mid time nonce = .ok m ∧
      parseInterest m.wire = .ok (vals, ptrs) ∧
      m.finalName = n ++ [2 :: 32 :: H m.digestCovered] ∧
      vals = List.replicate 7 (Value.uint 0) ++ (Value.name m.finalName :: mid) ++
             List.replicate 2 (Value.uint (tlv 7 (concatB m.finalName) ++ midB).length) ++
             [.bytes [], digestSigInfo time nonce, .bytes (H (concatB m.covered)), .none] ∧
      paramsCheck H ptrs = true ∧
      concatB ptrs.sigCovered = concatB m.covered ∧
      ptrs.sigValue = some (H (concatB ptrs.sigCovered)) ∧
      verifyPtrs (digestScheme H) ptrs = true := by
  obtain ⟨hname, hnd⟩ := commandName_comps h hm hc
  exact commandInterestV2_checks H hH n mid midB time nonce hname hnd hmid hfitmid ht hn hsize

set_option maxRecDepth 8000 in
example :
    (do let n ← ribCommandName true .register [[8, 1, 97]] (List.replicate 15 .none)
        let m ← commandInterestV2 (fun _ => List.replicate 32 7) n [.none, .bool, .none, .uint 5, .uint 1000, .none] 1700 9
        let (_, p) ← parseInterest m.wire
        pure (m.finalName.length, paramsCheck (fun _ => List.replicate 32 7) p,
              verifyPtrs (digestScheme (fun _ => List.replicate 32 7)) p, p.sigValue)) =
    .ok (6, true, true, some (List.replicate 32 7)) := by rfl

/-- **response_roundtrip_bytes.** For a ControlResponse with any status code, status text and (optional) body
    that are legal for their fields, `parse_response` applied to the bytes the forwarder sends (element 0x65
    around the encoded ControlResponse): the outer check and the generic decoder give back the encoded values
    (C08 round trip on the schema generated from the source); the whole function agrees with the model-level
    `parseResponseRec` on the decoded record; and the dict holds the status code, the status text and, under the
    name of each ControlParameters field, the value that was encoded for it (`None` when it, or the body, is
    absent; a `strategy` is shown by its name). -/
theorem response_roundtrip_bytes (code : Option Nat) (text : Option Bytes) (body : Option (List Value)) (w : Bytes)
    (hfit : fitsFs crFs (crValues code text body) = true) (henc : encodeResponse code text body = .ok w) :
    (∃ v, parseAndCheckTl w 0x65 = .ok v ∧ parse crFs false v = .ok (crValues code text body)) ∧
    parseResponse true w = parseResponseRec true ⟨code, text, body.map (bodyFields cpvFields)⟩ ∧
    ∃ d, parseResponse true w = .ok d ∧
      d.lookup "status_code" = some ((code.map DVal.uint).getD .none) ∧
      d.lookup "status_text" = some ((text.map DVal.text).getD .none) ∧
      ∀ (i : Nat) (k : String), cpvFields[i]? = some k →
        d.lookup k = some ((body.map fun vs => dvalOf (vs.getD i .none)).getD .none) := by
  obtain ⟨h1, h2⟩ := parseResponse_encode code text body w hfit henc true
  refine ⟨h1, h2, ?_⟩
  obtain ⟨d, hd, hc, ht, hf⟩ := response_roundtrip ⟨code, text, body.map (bodyFields cpvFields)⟩
  refine ⟨d, h2.trans hd, by cases code <;> exact hc, by cases text <;> exact ht, ?_⟩
  intro i k hk
  rw [hf k (List.mem_of_getElem? hk)]
  cases body with
  | none => rfl
  | some vs =>
    have hfv : fitsFs cpvFs vs = true := by
      cases code <;> cases text <;> simp [crFs, crValues, fitsFs, fits] at hfit <;> first | exact hfit | exact hfit.2
    have hl : cpvFields.length = vs.length := by rw [fitsFs_length cpvFs vs hfv]; rfl
    simp only [Option.map_some, Option.bind_some, Option.getD_some, dvalOf]
    rw [lookupField_bodyFields cpvFields vs cpvFields_nodup hl i k hk]

example : encodeResponse (some 200) (some [79, 75]) (some (cpvOf [[8, 1, 97]] (Value.uint 300 :: List.replicate 14 Value.none)))
    = .ok [101, 18, 102, 1, 200, 103, 2, 79, 75, 104, 9, 7, 3, 8, 1, 97, 105, 2, 1, 44] := by rfl
example : (parseResponse true [101, 18, 102, 1, 200, 103, 2, 79, 75, 104, 9, 7, 3, 8, 1, 97, 105, 2, 1, 44]).toOption.bind
    (fun d => d.lookup "face_id") = some (.uint 300) := by rfl
example : (parseResponse true [101, 3, 102, 1, 147]).toOption.bind (fun d => d.lookup "name") = some .none := by rfl

/-- the forwarder-side check of a legacy (signed-name) command: nine components, the last one holding a
    SignatureValue element whose value is `H` of the eight components before it -/
def legacySigOk (H : Bytes → Bytes) (n : List Bytes) : Bool :=
  n.length == 9 &&
  match n[8]? with
  | some c => compValue c == [23, 32] ++ H (concatB (n.take 8))
  | none => false

/-- **legacy_command_name.** Whenever the legacy `make_command` returns a name, it is the v2 command name (so
    `command_names_prefix` applies to its fifth component) followed, in this order, by the timestamp and the nonce
    as 8-byte big-endian generic components that decode back to the numbers signed, a component holding the
    SignatureInfo element (SignatureType DigestSha256 and nothing else), and a component holding the
    SignatureValue element, whose value is `H` of the concatenation of all eight preceding components. -/
theorem legacy_command_name (H : Bytes → Bytes) (hH : ∀ x, (H x).length = 32) (isLocal : Bool)
    (module command : Bytes) (cpv : List Value) (ts nonce : Nat) (n : List Bytes)
    (h : legacyCommandName H isLocal module command cpv ts nonce = .ok n) :
    ∃ n5, commandName isLocal module command cpv = .ok n5 ∧
      n = n5 ++ [tlv 8 (be8 ts), tlv 8 (be8 nonce), tlv 8 [22, 3, 27, 1, 0],
                 tlv 8 ([23, 32] ++ H (concatB (n.take 8)))] ∧
      beVal (compValue (tlv 8 (be8 ts))) = ts ∧ beVal (compValue (tlv 8 (be8 nonce))) = nonce ∧
      (parseAndCheckTl (compValue (tlv 8 [22, 3, 27, 1, 0])) 22 >>= parse sigInfoFields false) = .ok legacySigInfo ∧
      legacySigOk H n = true := by
  obtain ⟨n5, h5, hts, hno, rfl⟩ := legacyCommandName_ok h
  obtain ⟨cp, _, _, rfl⟩ := commandName_ok h5
  have h8 : (8 : Nat) < 2 ^ 64 := by decide
  have hl : ∀ v, (be8 v).length < 2 ^ 64 := fun v => by rw [be8_length]; decide
  have htake : ((commandHead isLocal module command ++ [tlv 8 cp]) ++ legacyTail ts nonce ++
      [tlv 8 ([23, 32] ++ H (concatB ((commandHead isLocal module command ++ [tlv 8 cp]) ++ legacyTail ts nonce)))]).take 8
      = (commandHead isLocal module command ++ [tlv 8 cp]) ++ legacyTail ts nonce := by
    simp [commandHead, legacyTail]
  refine ⟨_, h5, ?_, ?_, ?_, ?_, ?_⟩
  · rw [htake]; simp [legacyTail]
  · rw [compValue_tlv 8 _ h8 (hl ts)]; exact beVal_be8 ts (by simpa using hts)
  · rw [compValue_tlv 8 _ h8 (hl nonce)]; exact beVal_be8 nonce (by simpa using hno)
  · rw [compValue_tlv 8 _ h8 (by decide)]; rfl
  · have hcv : ∀ x : Bytes, x.length = 32 → compValue (tlv 8 ([23, 32] ++ x)) = [23, 32] ++ x :=
      fun x hx => compValue_tlv 8 _ h8 (by simp [hx])
    unfold legacySigOk
    rw [htake]
    simp [commandHead, legacyTail]
    exact hcv _ (hH _)

example : legacyCommandName (fun _ => List.replicate 32 7) true ribB registerB (cpvOf [[8, 1, 97]] (List.replicate 15 .none))
    1000 5 =
    .ok [[8, 9, 108, 111, 99, 97, 108, 104, 111, 115, 116], [8, 3, 110, 102, 100], [8, 3, 114, 105, 98],
         [8, 8, 114, 101, 103, 105, 115, 116, 101, 114], [8, 7, 104, 5, 7, 3, 8, 1, 97],
         [8, 8, 0, 0, 0, 0, 0, 0, 3, 232], [8, 8, 0, 0, 0, 0, 0, 0, 0, 5], [8, 5, 22, 3, 27, 1, 0],
         8 :: 34 :: 23 :: 32 :: List.replicate 32 7] := by rfl

end Bytes

/-! ### from the call to the bytes on the face, and from the bytes that come back to the result
    (the composed model `Ndn.NfdBytes.runW` = reply bytes ↦ reply kinds, the state machine, trace ↦ command wires) -/
section Composed
open Ndn.Codec Ndn.Packet Ndn.NfdBytes

/-- `/localhost|localhop/nfd/rib/<verb>` -/
def ribHead (isLocal : Bool) (v : Verb) : List Bytes :=
  [tlv 8 (if isLocal then localhostB else localhopB), tlv 8 nfdB, tlv 8 ribB, tlv 8 (verbB v)]

/-- what a forwarder finds when it decodes a command Interest of the signed-Interest format (`NfdRegister`) -/
def AcceptsV2 (H : Bytes → Bytes) (isLocal : Bool) (wire : Bytes) (v : Verb) (pfx : List Bytes) (ts : Nat) : Prop :=
  ∃ vals ptrs n d nonce, parseInterest wire = .ok (vals, ptrs) ∧
    vals[7]? = some (.name (n ++ [2 :: 32 :: d])) ∧ n.length = 5 ∧ n.take 4 = ribHead isLocal v ∧
    decodeCommandParams n = .ok [.model (cpvOf pfx noKw)] ∧
    (decodeCommandParams n).toOption.bind namedPrefix = some pfx ∧
    vals[16]? = some (.bytes []) ∧ vals[17]? = some (digestSigInfo ts nonce) ∧
    paramsCheck H ptrs = true ∧ ptrs.sigValue = some (H (concatB ptrs.sigCovered)) ∧
    verifyPtrs (digestScheme H) ptrs = true

/-- … and of the signed-name format (legacy `NDNApp`) -/
def AcceptsLegacy (H : Bytes → Bytes) (isLocal : Bool) (wire : Bytes) (v : Verb) (pfx : List Bytes) (ts : Nat) : Prop :=
  ∃ vals ptrs n, parseInterest wire = .ok (vals, ptrs) ∧ vals[7]? = some (.name n) ∧
    n.take 4 = ribHead isLocal v ∧
    decodeCommandParams n = .ok [.model (cpvOf pfx noKw)] ∧
    (decodeCommandParams n).toOption.bind namedPrefix = some pfx ∧
    (n[5]?.map fun c => beVal (compValue c)) = some ts ∧
    legacySigOk H n = true ∧ vals.drop 14 = List.replicate 6 Value.none

def Accepts (fe : FrontEnd) (H : Bytes → Bytes) (isLocal : Bool) (wire : Bytes) (v : Verb) (pfx : List Bytes)
    (ts : Nat) : Prop :=
  match fe with
  | .v2 => AcceptsV2 H isLocal wire v pfx ts
  | .legacy => AcceptsLegacy H isLocal wire v pfx ts

/-- **emitted_command_accepted.** The wire of a command — verb `v`, prefix number `p`, signed timestamp `ts`, the
    k-th command of a run — is produced without error, and a forwarder that decodes it with the packet decoder
    (`parse_interest`, C07) and the ControlParameters decoder (C08) finds: the command name
    `/localhost|localhop/nfd/rib/<v>`, ControlParameters that name exactly the requested prefix and carry nothing
    else, and — `NfdRegister`: empty ApplicationParameters, a valid ParametersSha256Digest, SignatureInfo
    DigestSha256 whose SignatureTime is `ts`, and a signature value that is `H` of the signed portion the parser
    reports; legacy `NDNApp`: the timestamp component holding `ts`, a SignatureValue component that is `H` of the
    eight components before it, and no Interest parameters or Interest signature.  The timestamp a forwarder reads
    back (`wireTs`) is `ts`.  For every prefix of well-formed components below 2^62 bytes, every 32-bit Nonce,
    64-bit SignatureNonce and every `ts` below 2^64, every `H` with 32-byte output. -/
theorem emitted_command_accepted (w : Wire) (g : Good w) (fe : FrontEnd) (k : Nat) (v : Verb) (p ts : Nat)
    (hts : ts < 2 ^ 64) :
    ∃ wire, cmdWire w fe k v p ts = .ok wire ∧ Accepts fe w.H w.isLocal wire v (w.pfxName p) ts ∧
      wireTs fe wire = some ts := by
  have hsz := g.pfxSize p
  have hn : commandName w.isLocal ribB (verbB v) (cpvOf (w.pfxName p) noKw) = .ok (ribName w.isLocal v (w.pfxName p)) :=
    ribCommandName_eq w.isLocal v (w.pfxName p) (by omega)
  have hfit := fits_cpv_name (w.pfxName p) (g.pfxOk p)
  obtain ⟨c1, c2, c3, c4⟩ := command_names_prefix w.isLocal ribB (verbB v) (w.pfxName p) noKw _ hfit hn
  cases fe with
  | v2 =>
    obtain ⟨wire, vals, ptrs, d, h1, h2, h7, _, h16, h17, h5, h6, h8⟩ := cmdWire_v2 w g k v p ts hts
    exact ⟨wire, h1, ⟨vals, ptrs, _, d, _, h2, h7, c1, c2, c3, c4, h16, h17, h5, h6, h8⟩,
      wireTs_v2 wire vals ptrs ts _ h2 h17⟩
  | legacy =>
    obtain ⟨wire, ptrs, h1, h2⟩ := cmdWire_legacy w g k v p ts hts
    have hl := legacyCommandName_eq w.H w.isLocal v (w.pfxName p) ts (w.nonce64 k) (by omega) hts (g.n64 k)
    obtain ⟨n5, _, _, _, _, _, hsig⟩ := legacy_command_name w.H g.hH w.isLocal ribB (verbB v) _ ts (w.nonce64 k) _ hl
    have hdec : decodeCommandParams (legacyName w.H w.isLocal v (w.pfxName p) ts (w.nonce64 k)) =
        decodeCommandParams (ribName w.isLocal v (w.pfxName p)) := by
      simp [decodeCommandParams, legacyName, ribName, commandHead]
    refine ⟨wire, h1, ⟨_, ptrs, _, h2, by simp, ?_, by rw [hdec]; exact c3, by rw [hdec]; exact c4, ?_, hsig, by simp [cmdMid]⟩,
      wireTs_legacy wire ptrs _ _ _ _ ts _ _ hts h2⟩
    · simp [legacyName, ribName, commandHead, ribHead]
    · rw [legacyName_5]
      simp only [Option.map_some]
      rw [compValue_tlv 8 _ (by decide) (by rw [be8_length]; decide), beVal_be8 ts (by simpa using hts)]

/-- **every_emitted_wire_accepted.** In every history of the composed model (calls, connections, Nacks, timeouts
    and reply BYTES of any content, in any order), for either front-end: the i-th wire on the face is the wire of the
    i-th command of the state machine, it was produced without error, and a forwarder decoding it finds the
    requested verb, exactly the requested prefix, a valid digest and signature and the signed timestamp
    (`Accepts`) — while the clock stays below 2^64 ms. -/
theorem every_emitted_wire_accepted (cfg : Cfg) (env : Env) (w : Wire) (g : Good w) (s : St) (evs : List WEv)
    (hts : ∀ ts ∈ tsOf (runW cfg env w s evs).2.1, ts < 2 ^ 64)
    (i : Nat) (r : Req) (ts : Nat) (hi : (cmdsOf (runW cfg env w s evs).2.1)[i]? = some (r, ts)) :
    ∃ wire, (runW cfg env w s evs).2.2[i]? = some (.ok wire) ∧
      Accepts cfg.fe w.H w.isLocal wire r.verb (w.pfxName r.pfx) ts := by
  have hlt : ts < 2 ^ 64 := by
    apply hts
    rw [tsOf_cmdsOf]
    exact List.mem_map.mpr ⟨(r, ts), List.mem_of_getElem? hi, rfl⟩
  obtain ⟨wire, h1, h2, _⟩ := emitted_command_accepted w g cfg.fe (0 + i) r.verb r.pfx ts hlt
  refine ⟨wire, ?_, h2⟩
  have := wiresFrom_getElem w cfg.fe (runW cfg env w s evs).2.1 0 i r ts hi
  rw [h1] at this
  exact this

/-- **one_wire_per_call.** In every history of the composed model, on either front-end (`unregister` under the
    command lock): every request made so far — `register`, `unregister` or a route of the starting task — has put
    exactly one command Interest on the face, except those still waiting for the lock; and the commands and returns
    of the trace alternate (never two commands in flight), whatever bytes came back. -/
theorem one_wire_per_call (cfg : Cfg) (hl : cfg.unregLock = true) (env : Env) (w : Wire) (t0 : Nat) (evs : List WEv) :
    (runW cfg env w (init t0) evs).2.2.length + (runW cfg env w (init t0) evs).1.queue.length
      = (runW cfg env w (init t0) evs).1.nextId ∧
    alt none (runW cfg env w (init t0) evs).2.1 = some (runW cfg env w (init t0) evs).1.inflight := by
  refine ⟨?_, one_at_a_time cfg hl env t0 _⟩
  have := one_command_per_call cfg hl env t0 (evs.filterMap (absEv w.H))
  simp only [runW, wiresFrom_length]
  exact this

/-- **wire_timestamps_strict.** … and the timestamps a forwarder reads back from the emitted wires, in emission
    order, are strictly increasing: every command of the history is on the face as a wire (`ws`), each wire
    carries a readable timestamp, and these timestamps increase strictly — registrations and unregistrations of
    both front-ends, any number of calls at one clock reading, under the clock hypothesis of `timestamps_strict`. -/
theorem wire_timestamps_strict (fe : FrontEnd) (env : Env) (hs : ∀ k, 1 ≤ env.sleepAdv k) (w : Wire) (g : Good w)
    (t0 : Nat) (evs : List WEv)
    (hts : ∀ ts ∈ tsOf (runW (Cfg.repaired fe) env w (init t0) evs).2.1, ts < 2 ^ 64) :
    ∃ (ws : List Bytes) (tss : List Nat), (runW (Cfg.repaired fe) env w (init t0) evs).2.2 = ws.map Except.ok ∧
      ws.map (wireTs fe) = tss.map some ∧ List.Pairwise (· < ·) tss := by
  obtain ⟨ws, h1, h2⟩ := wiresFrom_ts w g fe _ 0 hts
  exact ⟨ws, _, h1, h2, timestamps_strict fe env hs t0 _⟩

/-- the bytes of a reply say "status 200" -/
def wire200 (fe : FrontEnd) (H : Bytes → Bytes) (b : Bytes) : Bool :=
  match parseData b with
  | .error _ => false
  | .ok (vs, ptrs) =>
    (match bytesOf vs[7]? with
     | none => false
     | some c =>
       match parseResponse true c with
       | .ok d => d.lookup "status_code" == some (DVal.uint 200)
       | .error _ => false) &&
    (match fe with | .v2 => true | .legacy => digestSigOk H vs ptrs)

/-- the dict `parse_response` returns shows status 200 exactly when the decoded StatusCode is 200 -/
theorem status_lookup (r : ControlResponseRec) :
    (match parseResponseRec true r with
     | .ok d => d.lookup "status_code" == some (DVal.uint 200)
     | .error _ => false) = (r.statusCode == some 200) := by
  obtain ⟨d, hd, hc, _, _⟩ := response_roundtrip r
  rw [hd]
  simp only [hc]
  cases r.statusCode with
  | none => rfl
  | some n =>
    show (DVal.uint n == DVal.uint 200) = (some n == some 200)
    by_cases h : n = 200
    · subst h; simp
    · have h1 : (DVal.uint n == DVal.uint 200) = false := by
        apply beq_false_of_ne; intro e; cases e; exact h rfl
      have h2 : (some n == some 200) = false := by
        apply beq_false_of_ne; intro e; cases e; exact h rfl
      rw [h1, h2]

/-- what the receive path takes a reply for (`replyOfData`) answers "200" exactly when the bytes say so: they are a
    Data packet (`parse_data`), `parse_response` of its Content returns a dict whose `status_code` is 200, and — on
    the front-end that validates — its DigestSha256 signature verifies -/
theorem answers200_wire200 (fe : FrontEnd) (H : Bytes → Bytes) (b : Bytes) (k : Reply)
    (h : replyOfData H b = some k) : answers200 fe k = wire200 fe H b := by
  unfold replyOfData at h
  unfold wire200
  cases hp : parseData b with
  | error e => rw [hp] at h; cases h
  | ok r =>
    obtain ⟨vs, ptrs⟩ := r
    rw [hp] at h
    simp only [Option.some.injEq] at h
    subst h
    simp only []
    cases hc : bytesOf vs[7]? with
    | none => cases fe <;> simp [answers200]
    | some c =>
      simp only []
      rw [parseResponse_eq]
      cases hr : contentRec c with
      | error e => cases fe <;> simp [answers200, bind, Except.bind]
      | ok rec =>
        have := status_lookup rec
        simp only [bind, Except.bind] at this ⊢
        rw [this]
        cases fe <;> simp [answers200]

/-- **reply_wire_decides.** (success iff the reply wire decodes to status 200; total over `List UInt8`.)  While a
    command is in flight, for EVERY byte string that arrives as the answer: either it is not a Data packet — the
    receive loop drops it, nothing happens, the command stays in flight — or the call whose command is in flight
    returns, first thing, normally, with `True` exactly when the bytes say "status 200" (`wire200`), `False`
    otherwise. -/
theorem reply_wire_decides (fe : FrontEnd) (env : Env) (w : Wire) (s : St) (r : Req) (b : Bytes)
    (h : s.inflight = some r) :
    (replyOfData w.H b = none → runW (Cfg.repaired fe) env w s [.data b] = (s, [], [])) ∧
    (replyOfData w.H b ≠ none →
      (runW (Cfg.repaired fe) env w s [.data b]).2.1.head? = some (.ret r (.ok (wire200 fe w.H b)))) := by
  constructor
  · intro hn
    simp [runW, absEv, hn, run, wiresFrom]
  · intro hn
    cases hk : replyOfData w.H b with
    | none => exact absurd hk hn
    | some k =>
      have := reply_returns fe env s r k h
      rw [answers200_wire200 fe w.H b k hk] at this
      simp only [runW, List.filterMap_cons, absEv, hk, Option.map_some, List.filterMap_nil, run, List.append_nil]
      exact this

/-- **reply_bytes_never_raise.** In every history of the composed model — whatever bytes come back, malformed in
    any way — every call returns normally. -/
theorem reply_bytes_never_raise (fe : FrontEnd) (env : Env) (w : Wire) (s : St) (evs : List WEv) (r : Req)
    (res : Except PyErr Bool) (h : Out.ret r res ∈ (runW (Cfg.repaired fe) env w s evs).2.1) : ∃ b, res = .ok b :=
  never_raises fe env s _ r res h

/-- **forwarder_answer_decides.** End to end from the forwarder's side: it encodes a ControlResponse (any status
    code, text, body legal for their fields), wraps it in element 0x65, puts that as Content into a Data packet
    under any name, signs with DigestSha256 (`forwarderData`).  Fed these bytes, the receive path sees a
    ControlResponse with exactly that status code whose signature verifies, and the call in flight returns `True`
    if and only if the status code that was encoded is 200. -/
theorem forwarder_answer_decides (fe : FrontEnd) (env : Env) (w : Wire) (hH : ∀ x, (w.H x).length = 32)
    (s : St) (r : Req) (h : s.inflight = some r)
    (name : List Bytes) (hname : name.all compOk = true)
    (code : Option Nat) (text : Option Bytes) (body : Option (List Value)) (content p : Bytes)
    (hfit : fitsFs crFs (crValues code text body) = true) (henc : encodeResponse code text body = .ok content)
    (hp : encFields [nameS, metaS, contentS, dataSigInfoS] [.name name, .none, .bytes content, .model legacySigInfo] = .ok p)
    (hsz : p.length < 2 ^ 63) :
    ∃ wire, forwarderData w.H name content = .ok wire ∧
      replyOfData w.H wire = some (.response code body.isSome true) ∧
      wire200 fe w.H wire = (code == some 200) ∧
      (runW (Cfg.repaired fe) env w s [.data wire]).2.1.head? = some (.ret r (.ok (code == some 200))) := by
  obtain ⟨h1, h2⟩ := replyOfData_forwarder w.H hH name content p hname hp hsz
  obtain ⟨⟨v, hv, hpv⟩, _⟩ := parseResponse_encode code text body content hfit henc true
  have hrec : contentRec content = .ok ⟨code, text, body.map (bodyFields cpvFields)⟩ := by
    unfold contentRec
    simp only [hv, hpv, bind, Except.bind, pure, Except.pure, recOfValues_crValues]
  rw [hrec] at h2
  have h2' : replyOfData w.H (tlv 6 (p ++ tlv 23 (w.H p))) = some (.response code body.isSome true) := by
    rw [h2]; cases body <;> rfl
  have h200 : wire200 fe w.H (tlv 6 (p ++ tlv 23 (w.H p))) = (code == some 200) := by
    rw [← answers200_wire200 fe w.H _ _ h2']
    cases fe <;> simp [answers200]
  refine ⟨_, h1, h2', h200, ?_⟩
  have := (reply_wire_decides fe env w s r (tlv 6 (p ++ tlv 23 (w.H p))) h).2 (by rw [h2']; simp)
  rw [h200] at this
  exact this

/-- the Python class a decoding error of the model stands for, as it is written in the `except` clauses -/
def pyClass : PyErr → String
  | .structError => "error"          -- `struct.error`
  | e => e.name

/-- **reply_decode_errors_are_caught.** Whatever the Content bytes are, the only exceptions `parse_response` can
    raise on them are the documented decoding errors (C07 totality of the decoders), and every one of these
    classes is named in `MALFORMED_RESPONSE` (what `NfdRegister.register/unregister` catch around `parse_response`)
    and in the `except` clauses of the legacy `NDNApp.register/unregister` — tables regenerated from the source. -/
theorem reply_decode_errors_are_caught (c : Bytes) (e : PyErr) (h : parseResponse true c = .error e) :
    docErr e = true ∧ pyClass e ∈ Ndn.Gen.C17.malformedResponse ∧
    ∀ row ∈ Ndn.Gen.C17.caught, (row.1 = "app.register" ∨ row.1 = "app.unregister") → pyClass e ∈ row.2 := by
  have hd : docErr e = true := by
    rw [parseResponse_eq] at h
    cases hc : contentRec c with
    | error e' =>
      rw [hc] at h
      simp only [bind, Except.bind, Except.error.injEq] at h
      subst h
      exact contentRec_doc c _ hc
    | ok r =>
      rw [hc] at h
      obtain ⟨d, hd, _⟩ := response_roundtrip r
      simp only [bind, Except.bind] at h
      rw [hd] at h; cases h
  refine ⟨hd, ?_⟩
  cases e <;> first | (simp [docErr] at hd; done) | decide

/-! non-vacuity of the composed theorems: a concrete run -/
/-- `H` = the constant 32-byte string, one prefix `/a`, Nonce 5, SignatureNonce 9 -/
def exW : Wire := { H := fun _ => List.replicate 32 7, isLocal := true, pfxName := fun _ => [[8, 1, 97]],
                    nonce32 := fun _ => 5, nonce64 := fun _ => 9 }

example : Good exW :=
  ⟨fun _ => rfl, fun _ => rfl, fun _ => (by decide : ([8, 1, 97] : Bytes).length < 2 ^ 62),
   fun _ => (by decide : 5 < 2 ^ 32), fun _ => (by decide : 9 < 2 ^ 64)⟩

set_option maxRecDepth 8000 in
example : cmdWire exW .legacy 0 .unregister 0 1700 =
    .ok [5, 117, 7, 105, 8, 9, 108, 111, 99, 97, 108, 104, 111, 115, 116, 8, 3, 110, 102, 100, 8, 3, 114, 105, 98, 8,
      10, 117, 110, 114, 101, 103, 105, 115, 116, 101, 114, 8, 7, 104, 5, 7, 3, 8, 1, 97, 8, 8, 0, 0, 0, 0, 0, 0, 6, 164, 8,
      8, 0, 0, 0, 0, 0, 0, 0, 9, 8, 5, 22, 3, 27, 1, 0, 8, 34, 23, 32, 7, 7, 7, 7, 7, 7, 7, 7, 7, 7, 7, 7, 7, 7, 7, 7, 7, 7,
      7, 7, 7, 7, 7, 7, 7, 7, 7, 7, 7, 7, 7, 7, 10, 4, 0, 0, 0, 5, 12, 2, 3, 232] := by rfl

set_option maxRecDepth 8000 in
example : ((cmdWire exW .v2 0 .register 0 1700).toOption.bind (wireTs .v2),
           (cmdWire exW .legacy 0 .unregister 0 1700).toOption.bind (wireTs .legacy)) = (some 1700, some 1700) := by rfl

set_option maxRecDepth 8000 in
example : (forwarderData exW.H [[8, 1, 97]] [101, 3, 102, 1, 200]).toOption.bind (replyOfData exW.H) =
    some (.response (some 200) false true) := by rfl

/-- a history on the legacy front-end: two calls at one clock reading; garbage bytes arrive (dropped), then a Data
    whose Content says 200 (the registration returns `True`, the unregistration goes out one millisecond later),
    then a Nack (the unregistration returns `False`) -/
example : (runW (Cfg.repaired .legacy) ⟨fun _ => 0, fun _ => 1, fun _ => 0, fun _ => 0⟩ exW (init 5)
    [.call .register 0, .call .unregister 0, .data [1, 2, 3],
     .data [6, 51, 7, 3, 8, 1, 97, 21, 5, 101, 3, 102, 1, 200, 22, 3, 27, 1, 0, 23, 32, 7, 7, 7, 7, 7, 7, 7, 7, 7, 7, 7,
            7, 7, 7, 7, 7, 7, 7, 7, 7, 7, 7, 7, 7, 7, 7, 7, 7, 7, 7, 7, 7], .nack]).2.1 =
    [.cmd ⟨0, .register, 0, false⟩ 5, .ret ⟨0, .register, 0, false⟩ (.ok true),
     .cmd ⟨1, .unregister, 0, false⟩ 6, .ret ⟨1, .unregister, 0, false⟩ (.ok false)] := by rfl

end Composed

/-! ### the defects of the unchanged tree (finding F13), as theorems about the unrepaired configurations -/

/-- F13 (1): a ControlResponse without body — what NFD sends with 403/404 — makes `register` raise
    `AttributeError` instead of returning `False` (both front-ends). -/
theorem unchanged_register_raises_without_body (fe : FrontEnd) (c : Option Nat) :
    finish (Cfg.unchanged fe) .register (expressOutcome fe (.response c false true)) = .error .attributeError := by
  cases fe <;> simp [finish, expressOutcome, validates, parseStatus, Cfg.unchanged]

/-- F13 (2): `unregister` reports success for any Data that comes back, whatever its status. -/
theorem unchanged_unregister_ignores_status (fe : FrontEnd) (c : Option Nat) (b : Bool) :
    finish (Cfg.unchanged fe) .unregister (expressOutcome fe (.response c b true)) = .ok true ∧
    finish (Cfg.unchanged fe) .unregister (expressOutcome fe (.undecodable true)) = .ok true := by
  cases fe <;> simp [finish, expressOutcome, validates, Cfg.unchanged]

/-- consequence of F13 (1): the first refused route kills the starting task; the remaining routes are never
    registered on that connection. -/
theorem unchanged_routes_lost :
    (run (Cfg.unchanged .v2) ⟨fun _ => 0, fun _ => 1, fun _ => 0, fun _ => 0⟩ (init 5)
      [.connect [7, 8], .reply (.response (some 403) false true), .reply .timeout]).2
      = [.connected, .cmd ⟨0, .register, 7, true⟩ 5, .ret ⟨0, .register, 7, true⟩ (.error .attributeError)] := by
  decide

/-! ### obligations on the tables generated from the source -/

/-- the field list the model iterates over is `ControlParametersValue._encoded_fields` of the source, and
    ControlResponse has the three fields the model reads -/
theorem gen_fields :
    Ndn.Gen.C17.controlParametersValueFields = cpvFields ∧
    Ndn.Gen.C17.controlResponseFields = ["status_code", "status_text", "body"] := by decide

/-- each of the four registration functions catches the four network outcomes the model maps to `False` -/
theorem gen_caught :
    Ndn.Gen.C17.caught.map (·.1) = ["NfdRegister.register", "NfdRegister.unregister", "app.register", "app.unregister"] ∧
    ∀ row ∈ Ndn.Gen.C17.caught,
      ∀ c ∈ ["InterestNack", "InterestTimeout", "InterestCanceled", "ValidationFailure"], c ∈ row.2 := by decide

end Ndn.C17
