import NdnProofs.Lemmas.NameToStr
import NdnProofs.Lemmas.NameText
/-!
  C09 - the tables `lean/NdnGen/C09.lean` is regenerated with from `Component.py`, `Name.py` and `tlv_var.py` on
  every run, tied to the name model (`NdnModel/Name.lean`, `NdnModel/TlNum.lean`).

  `Ndn.inCharset`, `Ndn.Comp.altUriOfType` and `Ndn.Comp.altTypeOfStr` READ the generated character set and the two
  generated shorthand tables; everything else the model writes down as a literal (type numbers, digest words, the
  escaping exclusions, hex case, the `08 00` literals, the range of Type numbers, the thresholds of the TL-number
  and `pack_uint_bytes` ladders, CPython's digit limit) is pinned here to the generated value by a theorem that is
  closed by evaluation - a source edit that alters one of them changes the generated file and the theorem stops
  checking, before any input is searched for.
-/
namespace Ndn.C09
open Ndn Ndn.Comp

/-- every shape the extractor looks for was found in the source (an unrecognised shape is emitted as `false`) -/
theorem tables_recognised :
    Gen.C09.charsetRecognised = true ∧ Gen.C09.altUriFormatOk = true ∧ Gen.C09.altUriStrRecognised = true ∧
    Gen.C09.toStrNumberGuardRecognised = true ∧ Gen.C09.toStrKeepRecognised = true ∧
    Gen.C09.canonKeepRecognised = true ∧ Gen.C09.tlNumSizeRecognised = true ∧ Gen.C09.writeTlNumRecognised = true ∧
    Gen.C09.packUintRecognised = true ∧ Gen.C09.parseTlNumRecognised = true := by decide

/-- **CHARSET.** The generated character set - which `from_str`, `escape_str` and the two printers test membership
    in, with no further condition - is exactly the unreserved characters plus `=` and `%`, for every character. -/
theorem charset_table (c : Char) :
    inCharset c = (isAsciiLetter c || isAsciiDigit c ||
      c == '-' || c == '.' || c == '_' || c == '~' || c == '=' || c == '%') ∧
    Gen.C09.fromStrCharsetTests = ["_ not in CHARSET"] ∧ Gen.C09.escapeStrCharsetTests = ["_ in CHARSET"] :=
  ⟨inCharset_eq c, by decide, by decide⟩

/-- **TYPE_ constants, MAX_COMPONENT_TYPE_VALUE, Name.TYPE_NAME**: the literals of the model are the values of the source. -/
theorem type_constants :
    Gen.C09.typeConsts.lookup "TYPE_GENERIC" = some TYPE_GENERIC ∧
    Gen.C09.typeConsts.lookup "TYPE_IMPLICIT_SHA256" = some TYPE_IMPLICIT_SHA256 ∧
    Gen.C09.typeConsts.lookup "TYPE_PARAMETERS_SHA256" = some TYPE_PARAMETERS_SHA256 ∧
    Gen.C09.typeConsts.lookup "TYPE_INVALID" = some 0 ∧
    Gen.C09.typeConsts.lookup "TYPE_KEYWORD" = some 32 ∧
    [Gen.C09.typeConsts.lookup "TYPE_SEGMENT", Gen.C09.typeConsts.lookup "TYPE_BYTE_OFFSET",
      Gen.C09.typeConsts.lookup "TYPE_VERSION", Gen.C09.typeConsts.lookup "TYPE_TIMESTAMP",
      Gen.C09.typeConsts.lookup "TYPE_SEQUENCE_NUM"] = (Gen.C09.altUriType.map fun p => some p.1) ∧
    Gen.C09.typeConsts.length = 10 ∧
    Gen.C09.maxComponentTypeValue = MAX_TYPE ∧ Gen.C09.typeName = Name.TYPE_NAME := by decide

/-- **the two shorthand tables are each other's inverse** (`ALTERNATE_URI_TYPE` / `ALTERNATE_URI_STR`), no type and
    no word occurs twice, and the types are the five typed-number kinds of the naming conventions -/
theorem shorthand_tables :
    Gen.C09.altUriStr = (Gen.C09.altUriType.map fun p => (p.2, p.1)) ∧
    (Gen.C09.altUriType.map (·.1)).Nodup ∧ (Gen.C09.altUriType.map (·.2)).Nodup ∧
    Gen.C09.altUriType.map (·.1) = [50, 52, 54, 56, 58] := by decide

private theorem shorthand_rows : ∀ e ∈ Gen.C09.altUriType,
    altUriOfType e.1 = some e.2 ∧ altTypeOfStr e.2 = some e.1 ∧ e.2 ≠ [] ∧
    (∀ c ∈ e.2, inCharset c = true ∧ c ≠ '=' ∧ c ≠ '/' ∧ c ≠ '%') ∧
    e.2 ≠ "sha256digest".toList ∧ e.2 ≠ "params-sha256".toList ∧ 1 ≤ e.1 ∧ e.1 ≤ 65535 := by decide

/-- the model's two look-ups agree in both directions, for every type and every word -/
theorem shorthand_lookup_inverse (t : Nat) (s : Str) : altUriOfType t = some s ↔ altTypeOfStr s = some t := by
  constructor
  · intro h
    unfold altUriOfType at h
    cases hf : Gen.C09.altUriType.find? (fun p => p.1 == t) with
    | none => simp [hf] at h
    | some p =>
      have hm := List.mem_of_find?_eq_some hf
      have hp := List.find?_some hf
      have e1 : p.1 = t := by simpa using hp
      simp only [hf, Option.map_some, Option.some.injEq] at h
      have := (shorthand_rows p hm).2.1
      rw [e1, h] at this; exact this
  · intro h
    unfold altTypeOfStr at h
    cases hf : Gen.C09.altUriStr.find? (fun p => p.1 == s) with
    | none => simp [hf] at h
    | some p =>
      have hm := List.mem_of_find?_eq_some hf
      have hp := List.find?_some hf
      have e1 : p.1 = s := by simpa using hp
      simp only [hf, Option.map_some, Option.some.injEq] at h
      rw [shorthand_tables.1] at hm
      obtain ⟨q, hq, rfl⟩ := List.mem_map.mp hm
      have := (shorthand_rows q hq).1
      simp only at e1 h
      rw [e1, h] at this; exact this

/-- **every row of the generated shorthand table reads back**: `<word>=<decimal>` is the typed number of minimal
    width, for every row and every `n < 2^64` (the rows are whatever the source lists) -/
theorem shorthand_number_table (n : Nat) (hn : n < 2^64) :
    ∀ e ∈ Gen.C09.altUriType, fromStr (e.2 ++ '=' :: toDec n) = .ok (tlv e.1 (packUint n)) := by
  intro e he
  obtain ⟨_, h2, h3, h4, h5, h6, h7, h8⟩ := shorthand_rows e he
  exact (fromStr_number e.2 e.1 n hn h2 h3 h4 h5 h6).trans (fromBytes_ok e.1 _ h7 h8)

/-- **digest words**: the words `from_str` compares the type string with, and the prefixes `to_str` prints (value as
    `bytes.hex()`), are those of the model, with the model's type numbers; every row of the generated table is read
    back by the model's `from_str` for a value of any length. -/
theorem digest_tables (v : Bytes) :
    Gen.C09.fromStrDigest = [("sha256digest".toList, TYPE_IMPLICIT_SHA256), ("params-sha256".toList, TYPE_PARAMETERS_SHA256)] ∧
    Gen.C09.toStrDigest = [(TYPE_IMPLICIT_SHA256, "sha256digest=".toList, "hex"), (TYPE_PARAMETERS_SHA256, "params-sha256=".toList, "hex")] ∧
    (∀ e ∈ Gen.C09.fromStrDigest, fromStr (e.1 ++ '=' :: pyHex v) = .ok (tlv e.2 v)) := by
  refine ⟨by decide, by decide, ?_⟩
  intro e he
  have : e = ("sha256digest".toList, 1) ∨ e = ("params-sha256".toList, 2) := by
    simpa [Gen.C09.fromStrDigest] using he
  rcases this with rfl | rfl
  · exact fromStr_digest _ 1 v (Or.inl ⟨rfl, rfl⟩)
  · exact fromStr_digest _ 2 v (Or.inr ⟨rfl, rfl⟩)

/-- the guard `to_str` puts on the typed-number shorthand besides `typ in ALTERNATE_URI_TYPE`, as found in the source:
    the admitted value lengths (`none`: no guard) -/
def numberShorthandAdmits (n : Nat) : Bool :=
  match Gen.C09.toStrNumberWidths with
  | none => true
  | some ws => ws.contains n

/-- **`to_str` on a typed number**: for every type of the generated shorthand table and every value, the model prints
    the shorthand exactly when the guard found in the source admits the length of the value (1, 2, 4 or 8 bytes), and
    the generic `<type>=<escaped value>` form otherwise -/
theorem toStr_number_guard (t : Nat) (v : Bytes) (s : Str) (ht : t < 2^64) (hv : v.length < 2^64)
    (hs : altUriOfType t = some s) :
    toStr (tlv t v) = .ok (if numberShorthandAdmits v.length then s ++ '=' :: toDec (beVal v)
                           else typePrefix t ++ escBytes v) := by
  have hn : IsNumType t := by
    apply Classical.byContradiction
    intro h
    rw [altUriOfType_none t h] at hs
    cases hs
  have h1 : t ≠ 1 := by rcases hn with h | h | h | h | h <;> omega
  have h2 : t ≠ 2 := by rcases hn with h | h | h | h | h <;> omega
  rw [toStr_tlv t v ht hv]
  simp only [h1, h2, if_false, hs]
  by_cases hw : (v.length = 1 ∨ v.length = 2 ∨ v.length = 4 ∨ v.length = 8)
  · have ha : numberShorthandAdmits v.length = true := by
      rcases hw with h | h | h | h <;> simp [numberShorthandAdmits, Gen.C09.toStrNumberWidths, h]
    simp only [if_pos hw, ha, if_true]
  · have ha : numberShorthandAdmits v.length = false := by
      simp only [numberShorthandAdmits, Gen.C09.toStrNumberWidths]
      simp only [List.contains_cons, List.contains_nil, Bool.or_false, Bool.or_eq_false_iff, beq_eq_false_iff_ne]
      omega
    simp only [if_neg hw, ha, Bool.false_eq_true, if_false]

private theorem escaping_fin : ∀ n : Fin 256,
    escByte (UInt8.ofNat n.val) =
      (if inCharset (Char.ofNat (UInt8.ofNat n.val).toNat) && !(Gen.C09.toStrKeepExcluded.contains (Char.ofNat (UInt8.ofNat n.val).toNat).toNat)
       then [Char.ofNat (UInt8.ofNat n.val).toNat] else pctByte (UInt8.ofNat n.val)) := by decide +kernel

/-- **escaping exclusions and hex case.** Both printers keep a byte as a character iff it is in `CHARSET` and not in the
    excluded set found in the source (`%`, `=`), the same set in `to_str` and `to_canonical_uri`; escapes are `%` + two
    UPPER-case hex digits in all three functions, digests lower case (`bytes.hex()`). -/
theorem escaping_table (b : UInt8) :
    escByte b = (if inCharset (Char.ofNat b.toNat) && !(Gen.C09.toStrKeepExcluded.contains (Char.ofNat b.toNat).toNat)
                 then [Char.ofNat b.toNat] else pctByte b) ∧
    Gen.C09.canonKeepExcluded = Gen.C09.toStrKeepExcluded ∧
    Gen.C09.toStrPctTemplates = ["%{:02X}"] ∧ Gen.C09.canonPctTemplates = ["%{:02X}"] ∧
    Gen.C09.escapeStrPctTemplates = ["%{:02X}"] ∧
    pctByte 0xAB = "%AB".toList ∧ pyHex [0xAB] = "ab".toList := by
  refine ⟨?_, by decide, by decide, by decide, by decide, by decide, by decide⟩
  have h := escaping_fin ⟨b.toNat, b.toNat_lt⟩
  simpa using h

/-- **the `08 00` literals**: the component `from_str('')` returns and the component after which `Name.to_str` /
    `Name.to_canonical_uri` append a `/` -/
theorem empty_component_literals :
    Gen.C09.fromStrBytesLiterals = [[8, 0]] ∧ Gen.C09.nameToStrBytesLiterals = [[8, 0]] ∧
    Gen.C09.nameToCanonBytesLiterals = [[8, 0]] ∧
    fromStr [] = .ok [8, 0] ∧ Name.toStr [[8, 0]] = .ok "//".toList ∧ Name.toCanonicalUri [[8, 0]] = .ok "//".toList := by
  refine ⟨by decide, by decide, by decide, by decide, by decide, by decide⟩

private def accepted {α : Type} : Except PyErr α → Bool
  | .ok _ => true
  | .error _ => false

/-- **range of Type numbers**: at the boundaries probed on the live functions (0, 1, …, MAX-1, MAX, MAX+1, …) the
    model accepts exactly what `Component.from_bytes` and the general path of `Component.from_str` accept -/
theorem type_range_probes :
    (∀ p ∈ Gen.C09.fromBytesTypeProbes, accepted (fromBytes [] p.1) = p.2) ∧
    (∀ p ∈ Gen.C09.fromStrTypeProbes, accepted (fromStr (toDec p.1 ++ "=a".toList)) = p.2) ∧
    Gen.C09.fromBytesTypeProbes.map (·.1) = [0, 1, 2, 8, MAX_TYPE - 1, MAX_TYPE, MAX_TYPE + 1, 2 * MAX_TYPE + 1] := by
  refine ⟨by decide +kernel, by decide +kernel, by decide⟩

/-- a step function given as ([(largest argument, value)], value above) -/
def ladder (t : List (Nat × Nat) × Nat) (v : Nat) : Nat :=
  match t.1.find? (fun p => decide (v ≤ p.1)) with
  | some p => p.2
  | none => t.2

/-- **`get_tl_num_size`**, for every value: the model's thresholds are the ones measured on the live function at
    the integer constants of its source -/
theorem tlNumSize_table (v : Nat) : tlNumSize v = ladder Gen.C09.tlNumSize v := by
  unfold tlNumSize ladder
  simp only [Gen.C09.tlNumSize, List.find?]
  split <;> rename_i h1
  · simp [h1]
  · split <;> rename_i h2
    · simp [h1, h2]
    · split <;> rename_i h3 <;> simp [h1, h2, h3]

/-- **`pack_uint_bytes`** (the width rule of `from_number` and of the typed-number constructors), for every value
    below 2^64 -/
theorem packUint_table (v : Nat) : (packUint v).length = ladder Gen.C09.packUint v := by
  unfold packUint ladder
  simp only [Gen.C09.packUint, List.find?]
  split <;> rename_i h1
  · simp [h1, be1]
  · split <;> rename_i h2
    · simp [h1, h2, be2]
    · split <;> rename_i h3 <;> simp [h1, h2, h3, be4, be8]

/-- **`write_tl_num`**, for every value: number of bytes written and marker byte (`size*256 + marker`, marker 0 for
    the one-byte form) -/
theorem writeTlNum_table (v : Nat) :
    (writeTlNum v).length * 256 + (if (writeTlNum v).length = 1 then 0 else ((writeTlNum v).head?.getD 0).toNat)
      = ladder Gen.C09.writeTlNum v := by
  unfold writeTlNum ladder
  simp only [Gen.C09.writeTlNum, List.find?]
  split <;> rename_i h1
  · simp [h1, be1]
  · split <;> rename_i h2
    · simp [h1, h2, be2]
    · split <;> rename_i h3 <;> simp [h1, h2, h3, be4, be8]

/-- **`parse_tl_num`**: the size consumed as a function of the first byte, for all 256 first bytes (eight more bytes
    available), and the byte order of the three long forms -/
theorem parseTlNum_table :
    (∀ n : Fin 256, (parseTlNum (UInt8.ofNat n.val :: [1, 2, 3, 4, 5, 6, 7, 8]) 0).toOption.map (·.2)
        = some (ladder Gen.C09.parseTlNum n.val)) ∧
    [0xFD, 0xFE, 0xFF].map (fun b => (parseTlNum (b :: [1, 2, 3, 4, 5, 6, 7, 8]) 0).toOption.map (·.1))
      = Gen.C09.parseTlNumBig.map some := by
  refine ⟨by decide +kernel, by decide +kernel⟩

/-- CPython's limit on `int(str)` that the model of `int()` uses is the one of the interpreter the library runs on -/
theorem int_digit_limit : pyIntMaxStrDigits = Gen.C09.intMaxStrDigits := by decide

end Ndn.C09
