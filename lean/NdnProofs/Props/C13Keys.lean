import NdnProofs.Props.C13
import NdnProofs.Lemmas.Lvs.KeyExp
/-!
# C13 — the exact criterion for "a name pattern is its own signer"

`_generate_node` merges the rule chains of a schema into one tree: two chains end at the same node iff their
*merge-key paths* are equal (`Ndn.Lvs.keyPath`, `NdnModel/Lvs/KeyPath.lean`: the component values, and for every pattern
the string `RuleChain.pattern_movement` returns - the pattern number and, where the pattern is met for the first time,
the constraints on it).  The loader's signing-cycle check (`top_order` inside `_sanity_check`) therefore raises
`SemanticError` exactly when the key paths of the chains sign each other in a cycle:

* `signCycle_iff_keySelfSigning`, `compile_accepted_iff_keys` — for every schema the parser can produce: the compiled
  model is refused with `SemanticError` iff `KeySelfSigning chains`, where `chains` are the chains of the schema, i.e. the
  expansions of its definitions (C11 `chains_are_expansions`).
* read at the level of the text (`Flat.keys`, `SrcKeySelfSigning`: component values; a named pattern with the constraints
  on it where it is met first; a temporary pattern with its constraints):
  `signCycle_srcKeySelfSigning` / `compile_sane_keys` for every schema (a signing cycle among nodes is a cycle among the
  keys of name patterns; strictly finer than the shape criterion of `compile_sane_src`: `srcKey_finer_than_shape`,
  `keySplit_example`), and `compile_accepted_iff_src` — an *iff* — for every schema that writes no temporary pattern.

**The reading of "a name pattern is its own signer".**  A *name pattern* is an expansion of a definition (embedded rules
replaced by their definitions, one constraint set chosen); two name patterns are *the same* when their keys are equal:
same length, same component values at the same places, the same named patterns at the same places with the same
constraints (as lists of option lists, in the order of the text) where they are met first, and temporary patterns with the
same constraints at the same places; name pattern `p` *signs* name pattern `s` when a definition with expansion `p` lists
a rule with expansion `s` after `<=`.  The schema is self-signing when some non-empty set of name patterns is closed
under "is signed by a member".  For a temporary pattern the compiler additionally compares the number it gave to that
occurrence (two chains share it only when both inline the same chain of the same rule), which the source semantics has no
name for: with temporary patterns the source criterion is necessary (`signCycle_srcKeySelfSigning`) and the exact one
is the chain-level `KeySelfSigning`.  `mergedSigner_counterexample` stays the witness that acyclicity of the *rule-level*
signing graph is not enough; `prefixMerged_example` is the same through a node shared by two rules below which a third
rule continues.
-/
namespace Ndn.C13
open Ndn Ndn.Lvs

/-- the chains a compiled model was built from -/
theorem compile_chains (S : Schema) (m : Model) (syms : List String) (h : compile S = .ok (m, syms)) :
    ∃ chains, chainsOf S = .ok (chains, syms) ∧ buildModel chains syms = .ok m := by
  unfold compile at h
  split at h
  · simp at h
  · rename_i chains named hch
    split at h
    · simp at h
    · rename_i m' hb
      injection h with h
      simp only [Prod.mk.injEq] at h
      obtain ⟨rfl, rfl⟩ := h
      exact ⟨chains, hch, hb⟩

/-- **signCycle_iff_keySelfSigning.**  The reachable nodes of the compiled model sign each other in a cycle iff the
    merge-key paths of the chains of the schema do. -/
theorem signCycle_iff_keySelfSigning (S : Schema) (hwf : S.WF) (m : Model) (syms : List String)
    (h : compile S = .ok (m, syms)) :
    ∃ chains, chainsOf S = .ok (chains, syms) ∧ (SignCycle m ↔ KeySelfSigning chains) := by
  obtain ⟨chains, hch, hb⟩ := compile_chains S m syms h
  exact ⟨chains, hch, Ndn.Lvs.signCycle_iff_keySelfSigning chains syms m (chainsOf_ok S hwf chains syms hch) hb⟩

/-- **compile_accepted_iff_keys** (the exact criterion).  The loader accepts the compiled model iff no set of merge-key
    paths of the chains of the schema is closed under "is the key path of a signer of a member"; otherwise it raises
    `SemanticError`. -/
theorem compile_accepted_iff_keys (S : Schema) (hwf : S.WF) (m : Model) (syms : List String)
    (h : compile S = .ok (m, syms)) :
    ∃ chains, chainsOf S = .ok (chains, syms) ∧
      (sanityCheck m = .ok () ↔ ¬ KeySelfSigning chains) ∧
      (sanityCheck m = .error .semanticError ↔ KeySelfSigning chains) := by
  obtain ⟨chains, hch, hiff⟩ := signCycle_iff_keySelfSigning S hwf m syms h
  obtain ⟨h1, h2⟩ := compile_accepted_iff S hwf m syms h
  exact ⟨chains, hch, by rw [h1, hiff], by rw [h2, hiff]⟩

/-- **signCycle_srcKeySelfSigning.**  A signing cycle among the reachable nodes of the compiled model is a cycle among
    the keys of the name patterns of the text. -/
theorem signCycle_srcKeySelfSigning (S : Schema) (hwf : S.WF) (m : Model) (syms : List String)
    (h : compile S = .ok (m, syms)) (hcy : SignCycle m) : SrcKeySelfSigning ⟨renameTemps S.rules 1⟩ := by
  obtain ⟨chains, hch, hiff⟩ := signCycle_iff_keySelfSigning S hwf m syms h
  exact keySelfSigning_src S hwf chains syms hch (hiff.mp hcy)

/-- **compile_sane_keys** (the positive clause at the level of the text, for every schema).  A schema the parser can
    produce that compiles, and in which no name pattern is - directly or transitively - its own signer (name patterns
    told apart by their keys, `SrcKeySelfSigning`), yields a model the loader accepts. -/
theorem compile_sane_keys (S : Schema) (hwf : S.WF) (m : Model) (syms : List String)
    (h : compile S = .ok (m, syms)) (hns : ¬ SrcKeySelfSigning ⟨renameTemps S.rules 1⟩) : sanityCheck m = .ok () :=
  compile_sane S hwf m syms h fun hcy => hns (signCycle_srcKeySelfSigning S hwf m syms h hcy)

/-- **static_sane_keys.**  No static error and no self-signing name pattern ⇒ the schema compiles and the loader
    accepts the result. -/
theorem static_sane_keys (S : Schema) (hwf : S.WF) (hst : StaticOK S)
    (hns : ¬ SrcKeySelfSigning ⟨renameTemps S.rules 1⟩) :
    ∃ m syms, compile S = .ok (m, syms) ∧ sanityCheck m = .ok () := by
  obtain ⟨⟨m, syms⟩, h⟩ := compile_complete S hst
  exact ⟨m, syms, h, compile_sane_keys S hwf m syms h hns⟩

/-- **compile_accepted_iff_src** (the exact criterion at the level of the text).  For a schema that writes no temporary
    pattern: the loader accepts the compiled model iff no name pattern of the text is, directly or transitively, its own
    signer; otherwise it raises `SemanticError`. -/
theorem compile_accepted_iff_src (S : Schema) (hwf : S.WF) (htf : TempFree S) (m : Model) (syms : List String)
    (h : compile S = .ok (m, syms)) :
    (sanityCheck m = .ok () ↔ ¬ SrcKeySelfSigning ⟨renameTemps S.rules 1⟩) ∧
    (sanityCheck m = .error .semanticError ↔ SrcKeySelfSigning ⟨renameTemps S.rules 1⟩) := by
  obtain ⟨chains, hch, h1, h2⟩ := compile_accepted_iff_keys S hwf m syms h
  have hiff : KeySelfSigning chains ↔ SrcKeySelfSigning ⟨renameTemps S.rules 1⟩ :=
    ⟨keySelfSigning_src S hwf chains syms hch, src_keySelfSigning_tempFree S hwf htf chains syms hch⟩
  exact ⟨by rw [h1, hiff], by rw [h2, hiff]⟩

/-- **static_accepted_iff_src.**  The schema-level statement in one piece, for a schema without temporary patterns and
    without static error: it compiles, and the loader accepts the model iff no name pattern is its own signer, and raises
    `SemanticError` otherwise. -/
theorem static_accepted_iff_src (S : Schema) (hwf : S.WF) (htf : TempFree S) (hst : StaticOK S) :
    ∃ m syms, compile S = .ok (m, syms) ∧
      (sanityCheck m = .ok () ↔ ¬ SrcKeySelfSigning ⟨renameTemps S.rules 1⟩) ∧
      (sanityCheck m = .error .semanticError ↔ SrcKeySelfSigning ⟨renameTemps S.rules 1⟩) := by
  obtain ⟨⟨m, syms⟩, h⟩ := compile_complete S hst
  exact ⟨m, syms, h, compile_accepted_iff_src S hwf htf m syms h⟩

/-- **srcKey_finer_than_shape.**  A cycle among keys is a cycle among shapes: `compile_sane_src` (no self-signing shape ⇒
    accepted) is a consequence of `compile_sane_keys`. -/
theorem srcKey_finer_than_shape (S : Schema) (h : SrcKeySelfSigning S) : ShapeSelfSigning S :=
  srcKeySelfSigning_shape h

/-! ### examples -/

/-- `#a: "k"/x <= #b`, `#b: "k"/y` — the same shape, different named patterns -/
def keySplit : Schema := { rules := [
  { id := "#a", name := [.lit Example.cK, .pat "x"], cons := [], sign := ["#b"] },
  { id := "#b", name := [.lit Example.cK, .pat "y"], cons := [], sign := [] }] }

theorem keySplit_tempFree : TempFree keySplit := tempFree_of_all _ (by decide)

/-- **keySplit_example.**  `#a: "k"/x <= #b`, `#b: "k"/y` is self-signing by shapes (so `compile_sane_src` says nothing
    about it), not self-signing by keys, and the loader accepts its model: the key criterion is strictly finer. -/
theorem keySplit_example :
    keySplit.WF ∧ ShapeSelfSigning ⟨renameTemps keySplit.rules 1⟩ ∧ ¬ SrcKeySelfSigning ⟨renameTemps keySplit.rules 1⟩ ∧
    ∃ m syms, compile keySplit = .ok (m, syms) ∧ sanityCheck m = .ok () := by
  have hwf : keySplit.WF := Schema.wf_of_all _ (by decide)
  have hc : ∃ m syms, compile keySplit = .ok (m, syms) ∧ sanityCheck m = .ok () := by
    have : (match compile keySplit with
        | .ok (m, _) => (match sanityCheck m with | .ok _ => true | _ => false)
        | .error _ => false) = true := by decide +kernel
    split at this
    · rename_i m syms heq
      refine ⟨m, syms, heq, ?_⟩
      split at this
      · assumption
      · simp at this
    · simp at this
  obtain ⟨m, syms, h1, h2⟩ := hc
  have hren : renameTemps keySplit.rules 1 = keySplit.rules := by decide
  refine ⟨hwf, ?_, (compile_accepted_iff_src keySplit hwf keySplit_tempFree m syms h1).1.mp h2, m, syms, h1, h2⟩
  rw [hren]
  -- the shape `"k"/_` signs itself
  have hexA : ExpandsDef keySplit ⟨"#a", [.lit Example.cK, .pat "x"], [], ["#b"]⟩ ⟨[.lit Example.cK, .named "x"], []⟩ :=
    ⟨[], by simp [altsOf], ⟨[.lit Example.cK, .named "x"], []⟩, .lit (.named (by decide) .nil), rfl⟩
  have hexB : Expands keySplit "#b" ⟨[.lit Example.cK, .named "y"], []⟩ :=
    expands_iff.mpr ⟨⟨"#b", [.lit Example.cK, .pat "y"], [], []⟩, by simp [keySplit], rfl,
      [], by simp [altsOf], ⟨[.lit Example.cK, .named "y"], []⟩, .lit (.named (by decide) .nil), rfl⟩
  refine ⟨fun sh => sh = [some Example.cK, none], ⟨_, rfl⟩, ?_⟩
  rintro s rfl
  exact ⟨_, rfl, _, by simp [keySplit], _, hexA, rfl, "#b", by simp, _, hexB, rfl⟩

/-- `#a: "k"/x`, `#b: "k"/x/"q" <= #a`, `#c: "k"/x <= #b` — `#a` and `#c` end at one node, `#b` continues below it -/
def prefixMerged : Schema := { rules := [
  { id := "#a", name := [.lit Example.cK, .pat "x"], cons := [], sign := [] },
  { id := "#b", name := [.lit Example.cK, .pat "x", .lit Example.cA], cons := [], sign := ["#a"] },
  { id := "#c", name := [.lit Example.cK, .pat "x"], cons := [], sign := ["#b"] }] }

/-- **prefixMerged_example.**  The rule-level signing graph `#c → #b → #a` is acyclic, there is no static error, and the
    loader refuses the model: the chains of `#a` and `#c` have the same key path, so the node they share is signed by
    the node of `#b`, which is signed by that shared node. -/
theorem prefixMerged_example :
    prefixMerged.WF ∧ StaticOK prefixMerged ∧ ¬ RuleSignCycle prefixMerged ∧
    SrcKeySelfSigning ⟨renameTemps prefixMerged.rules 1⟩ ∧
    ∃ m syms, compile prefixMerged = .ok (m, syms) ∧ sanityCheck m = .error .semanticError := by
  have hwf : prefixMerged.WF := Schema.wf_of_all _ (by decide)
  have hc : ∃ m syms, compile prefixMerged = .ok (m, syms) ∧ sanityCheck m = .error .semanticError := by
    have : (match compile prefixMerged with
        | .ok (m, _) => (match sanityCheck m with | .error .semanticError => true | _ => false)
        | .error _ => false) = true := by decide +kernel
    split at this
    · rename_i m syms heq
      refine ⟨m, syms, heq, ?_⟩
      split at this
      · assumption
      · simp at this
    · simp at this
  obtain ⟨m, syms, h1, h2⟩ := hc
  have htf : TempFree prefixMerged := tempFree_of_all _ (by decide)
  refine ⟨hwf, (compile_ok_iff_static _).1.mp ⟨_, h1⟩, ?_,
    (compile_accepted_iff_src prefixMerged hwf htf m syms h1).2.mp h2, m, syms, h1, h2⟩
  rintro ⟨C, hne, hC⟩
  -- no rule-level cycle: nobody lists `#c`, so it is not in `C`; then `#b` is not, then `#a` is not
  have hmem : ∀ c ∈ C, ∃ r ∈ prefixMerged.rules, r.id ∈ C ∧ c ∈ r.sign := hC
  have hcc : "#c" ∉ C := by
    intro h
    obtain ⟨r, hr, _, hs⟩ := hmem _ h
    simp only [prefixMerged, List.mem_cons, List.not_mem_nil, or_false] at hr
    rcases hr with rfl | rfl | rfl <;> simp at hs
  have hb : "#b" ∉ C := by
    intro h
    obtain ⟨r, hr, hrC, hs⟩ := hmem _ h
    simp only [prefixMerged, List.mem_cons, List.not_mem_nil, or_false] at hr
    rcases hr with rfl | rfl | rfl
    · simp at hs
    · simp at hs
    · exact hcc hrC
  have ha : "#a" ∉ C := by
    intro h
    obtain ⟨r, hr, hrC, hs⟩ := hmem _ h
    simp only [prefixMerged, List.mem_cons, List.not_mem_nil, or_false] at hr
    rcases hr with rfl | rfl | rfl
    · simp at hs
    · exact hb hrC
    · simp at hs
  obtain ⟨c, hc⟩ := List.exists_mem_of_ne_nil _ hne
  obtain ⟨r, hr, hrC, _⟩ := hmem c hc
  simp only [prefixMerged, List.mem_cons, List.not_mem_nil, or_false] at hr
  rcases hr with rfl | rfl | rfl
  · exact ha hrC
  · exact hb hrC
  · exact hcc hrC

/-- the compiled example schema `#p: "d"/x <= #k`, `#k: "k"/x & {x: "a"|"b"}` is not self-signing by keys -/
example : ¬ SrcKeySelfSigning ⟨renameTemps Example.schema.rules 1⟩ := fun h =>
  example_not_selfSigning (srcKey_finer_than_shape _ h)
example : sanityCheck Example.model = .ok () :=
  compile_sane_keys _ Example.schema_wf _ _ Example.compile_schema fun h =>
    example_not_selfSigning (srcKey_finer_than_shape _ h)
/-- `#p <= #k`, `#k <= #p`: the node-level cycle of `Example.signLoop` is a cycle of keys of the text -/
example : SrcKeySelfSigning ⟨renameTemps Example.schemaLoop.rules 1⟩ :=
  signCycle_srcKeySelfSigning _ Example.schemaLoop_wf _ _ Example.compile_schemaLoop
    ((compile_accepted_iff _ Example.schemaLoop_wf _ _ Example.compile_schemaLoop).2.mp (by
      simp only [sanityCheck, show structCheck Example.signLoop = true by decide,
        show signOK Example.signLoop = false by decide]; rfl))
/-- … and of merge-key paths of its chains -/
example : ∃ chains, chainsOf Example.schemaLoop = .ok (chains, ["x"]) ∧ KeySelfSigning chains := by
  obtain ⟨chains, hch, _, h2⟩ := compile_accepted_iff_keys _ Example.schemaLoop_wf _ _ Example.compile_schemaLoop
  exact ⟨chains, hch, h2.mp (by
    simp only [sanityCheck, show structCheck Example.signLoop = true by decide,
      show signOK Example.signLoop = false by decide]; rfl)⟩
example : SrcKeySelfSigning ⟨renameTemps mergedSigner.rules 1⟩ := by
  obtain ⟨hwf, _, _, m, syms, h1, h2⟩ := mergedSigner_counterexample
  exact signCycle_srcKeySelfSigning _ hwf m syms h1 ((compile_accepted_iff _ hwf m syms h1).2.mp h2)

end Ndn.C13
