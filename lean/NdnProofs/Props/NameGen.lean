import NdnGen.NameGen
import NdnProofs.Props.ComponentGen
import NdnProofs.Lemmas.NameWire
/-!
  The wire-level functions of `src/ndn/encoding/name/Name.py` - `encoded_length`, `encode`, `decode` and the
  FormalName core of `is_prefix` - TRANSLATED from the source text on every run (`harness/py2lean.py` ->
  `lean/NdnGen/NameGen.lean`: `reduce(lambda ...)` is a left fold, `for comp in name:` is `Py.forEach`, the
  `while length > 0:` loop is a definition by recursion on a fuel argument) are equal, for ALL inputs, to the
  hand-written functions of the name model (`NdnModel/Name.lean`, namespace `Ndn.Name`) the C09 theorems are about.
-/
set_option linter.unusedSimpArgs false
namespace Ndn.NameGen
open Ndn Ndn.Py Ndn.TlvVarGen Ndn.ComponentGen

/-- every function asked for was inside the translated subset -/
theorem all_translated :
    Gen.NameGen.encoded_length_translated = true ∧ Gen.NameGen.encode_translated = true ∧
    Gen.NameGen.decode_translated = true ∧ Gen.NameGen.is_prefix_translated = true := by decide

/-- the `reduce(lambda x, y: x + len(y), name, 0)` of the source is the length of the concatenation -/
theorem reduce_len (n : List Bytes) (a : Nat) :
    Py.reduce (fun (x : Int) (y : Bytes) => x + Py.len y) n (a : Int) = ((a + n.flatten.length : Nat) : Int) := by
  induction n generalizing a with
  | nil => simp
  | cons c r ih =>
    rw [Py.reduce_cons]
    have : ((a : Int) + Py.len c) = ((a + c.length : Nat) : Int) := by simp [Py.len]
    rw [this, ih]
    simp only [List.flatten_cons, List.length_append]
    omega

theorem encode_length (n : List Bytes) :
    (Name.encode n).length = n.flatten.length + 1 + tlNumSize n.flatten.length := by
  simp only [Name.encode, List.length_append, writeTlNum_length]
  have : tlNumSize Name.TYPE_NAME = 1 := by decide
  omega

/-- **Name.encoded_length**, every list of byte strings: the translated source returns the length of the model's
    encoding `Ndn.Name.encode name` (1 + size of the Length field + total length of the components); never raises. -/
theorem encoded_length_eq (n : List Bytes) :
    Gen.NameGen.encoded_length n = .ok (((Name.encode n).length : Nat) : Int) := by
  simp only [Gen.NameGen.encoded_length]
  have h := reduce_len n 0
  simp only [Int.natCast_zero, Nat.zero_add] at h
  rw [show ((0 : Int)) = ((0 : Nat) : Int) from rfl] at *
  rw [h, get_tl_num_size_eq]
  simp only [ok_bind, encode_length]
  show Except.ok _ = Except.ok _
  congr 1
  try omega

/-- **Name.is_prefix** on FormalNames (lists of byte strings, on which `normalize` returns an equal list): the
    translated last two lines of the source are `Ndn.Name.isPrefix`; never raises. -/
theorem is_prefix_core_eq (lhs rhs : List Bytes) :
    Gen.NameGen.is_prefix lhs rhs = .ok (Name.isPrefix lhs rhs) := by
  simp only [Gen.NameGen.is_prefix, Name.isPrefix]
  show Except.ok _ = Except.ok _
  congr 1
  have hs : Py.slice rhs (0 : Int) (Py.len lhs) = rhs.take lhs.length := by
    have := slice_nat rhs 0 lhs.length (0 : Int) (Py.len lhs) rfl rfl
    rw [this]; simp [pySlice]
  have hl : (Py.len lhs ≤ Py.len rhs) ↔ lhs.length ≤ rhs.length := by
    simp only [Py.len]; omega
  rw [hs, Bool.eq_iff_iff]
  simp only [decide_eq_true_eq, Bool.and_eq_true, beq_iff_eq, hl]

theorem setSlice_mid {α} (pre rest v : List α) (x y : Int) (hx : x = (pre.length : Int))
    (hy : y = ((pre.length + v.length : Nat) : Int)) (hv : v.length ≤ rest.length) :
    setSlice (pre ++ rest) x y v = pre ++ v ++ rest.drop v.length := by
  subst hx hy
  unfold setSlice
  rw [normIdx_nonneg _ _ (by omega), normIdx_nonneg _ _ (by omega)]
  have e : min ((pre.length : Int)).toNat (pre ++ rest).length = pre.length := by
    simp only [List.length_append, Int.toNat_natCast]; omega
  have e2 : min (((pre.length + v.length : Nat) : Int)).toNat (pre ++ rest).length = pre.length + v.length := by
    simp only [List.length_append, Int.toNat_natCast]; omega
  rw [e, e2, List.take_left' rfl, Nat.max_eq_right (by omega), List.drop_append]
  simp [List.drop_of_length_le]

/-- the `for comp in name:` loop of `encode` on a bytearray: the components are written one after the other -/
theorem encode_loop (f : Bytes → Bytes × Int → Except PyErr (Bytes × Int))
    (hf : ∀ comp buf off, f comp (buf, off) = .ok (setSlice buf off (off + Py.len comp) comp, off + Py.len comp))
    (cs : List Bytes) (pre rest : Bytes) (hk : cs.flatten.length ≤ rest.length) :
    Py.forEach cs (pre ++ rest, (pre.length : Int)) f
      = .ok (pre ++ cs.flatten ++ rest.drop cs.flatten.length, ((pre.length + cs.flatten.length : Nat) : Int)) := by
  induction cs generalizing pre rest with
  | nil => simp
  | cons c r ih =>
    simp only [List.flatten_cons, List.length_append] at hk
    rw [Py.forEach_cons_ok _ _ _ _ _ (hf _ _ _)]
    rw [setSlice_mid pre rest c _ _ rfl (by simp [Py.len]) (by omega)]
    have := ih (pre ++ c) (rest.drop c.length) (by simp only [List.length_drop]; omega)
    have e : ((pre.length : Int) + Py.len c) = (((pre ++ c).length : Nat) : Int) := by simp [Py.len]
    rw [e, this]
    simp only [List.flatten_cons, List.length_append, List.append_assoc, List.drop_drop]
    rw [Nat.add_assoc]

theorem encode_loop' (f : Bytes → Bytes × Int → Except PyErr (Bytes × Int)) (cs : List Bytes) (pre rest : Bytes)
    (st : Bytes × Int)
    (hf : ∀ comp buf off, f comp (buf, off) = .ok (setSlice buf off (off + Py.len comp) comp, off + Py.len comp))
    (hst : st = (pre ++ rest, (pre.length : Int))) (hk : cs.flatten.length ≤ rest.length) :
    Py.forEach cs st f
      = .ok (pre ++ cs.flatten ++ rest.drop cs.flatten.length, ((pre.length + cs.flatten.length : Nat) : Int)) := by
  subst hst; exact encode_loop f hf cs pre rest hk

theorem reduce_len0 (n : List Bytes) :
    Py.reduce (fun (x : Int) (y : Bytes) => x + Py.len y) n (0 : Int) = ((n.flatten.length : Nat) : Int) := by
  have := reduce_len n 0
  simpa using this

/-- **Name.encode** into a fresh buffer (`buf` omitted / `None`), every list of byte strings shorter than 2^62 bytes in
    total: the translated source - the `reduce`, the size computation, `bytearray(n)`, two `write_tl_num` into it, the
    `for` loop of slice assignments - returns exactly `Ndn.Name.encode name`; nothing raises. -/
theorem encode_eq (n : List Bytes) (hl : n.flatten.length < 2 ^ 62) :
    Gen.NameGen.encode n none 0 = .ok (Name.encode n, none) := by
  simp only [Gen.NameGen.encode, Name.encode]
  rw [reduce_len0, get_tl_num_size_eq]
  simp only [ok_bind]
  have t7 : tlNumSize 7 = 1 := by decide
  have s2 := tlNumSize_cases n.flatten.length
  rw [bytearrayOfSize_nat _ (n.flatten.length + 1 + tlNumSize n.flatten.length) (by omega) (by omega)]
  simp only [ok_bind]
  have w1 := writeTlNumInto_append [] (List.replicate (n.flatten.length + 1 + tlNumSize n.flatten.length) 0) 7
    (by omega) (by simp only [List.length_replicate]; omega)
  simp only [List.nil_append, List.length_nil, List.drop_replicate] at w1
  rw [write_tl_num_ok (7 : Int) (0 : Int) rfl rfl (show (0 : Nat) < 2 ^ 63 by omega) w1]
  simp only [ok_bind]
  have w2 := writeTlNumInto_append (writeTlNum 7)
    (List.replicate (n.flatten.length + 1 + tlNumSize n.flatten.length - tlNumSize 7) 0) n.flatten.length
    (by omega) (by simp; omega)
  simp only [writeTlNum_length, List.drop_replicate] at w2
  rw [write_tl_num_ok _ ((0 : Int) + ((tlNumSize 7 : Nat) : Int)) rfl (by omega) (show tlNumSize 7 < 2 ^ 63 by omega) w2]
  simp only [ok_bind]
  have hlen : (writeTlNum 7 ++ writeTlNum n.flatten.length).length = tlNumSize 7 + tlNumSize n.flatten.length := by
    simp [writeTlNum_length]
  rw [encode_loop' (cs := n) (pre := writeTlNum 7 ++ writeTlNum n.flatten.length)
    (rest := List.replicate (n.flatten.length + 1 + tlNumSize n.flatten.length - tlNumSize 7 - tlNumSize n.flatten.length) 0)]
  · simp only [ok_bind]
    show Except.ok _ = Except.ok _
    congr 2
    simp only [List.drop_replicate, List.append_assoc]
    have z : n.flatten.length + 1 + tlNumSize n.flatten.length - tlNumSize 7 - tlNumSize n.flatten.length
        - n.flatten.length = 0 := by omega
    rw [z]
    simp [Name.TYPE_NAME]
  · intro _ _ _; rfl
  · simp only [hlen, List.append_assoc]; congr 1 <;> omega
  · simp only [List.length_replicate]; omega

theorem setSliceSameSize_mid (pre rest v : Bytes) (x y : Int) (hx : x = (pre.length : Int))
    (hy : y = ((pre.length + v.length : Nat) : Int)) (hv : v.length ≤ rest.length) :
    setSliceSameSize (pre ++ rest) x y v = .ok (pre ++ v ++ rest.drop v.length) := by
  subst hx hy
  unfold setSliceSameSize
  simp only
  rw [normIdx_nonneg _ _ (by omega), normIdx_nonneg _ _ (by omega)]
  have e : min ((pre.length : Int)).toNat (pre ++ rest).length = pre.length := by
    simp only [List.length_append, Int.toNat_natCast]; omega
  have e2 : min (((pre.length + v.length : Nat) : Int)).toNat (pre ++ rest).length = pre.length + v.length := by
    simp only [List.length_append, Int.toNat_natCast]; omega
  rw [e, e2, Nat.max_eq_right (by omega), if_pos (by omega), List.take_left' rfl, List.drop_append]
  simp [List.drop_of_length_le]

/-- the `for comp in name:` loop of `encode`, whatever kind of buffer: if one iteration writes the component at the
    offset and advances, the loop writes the components one after the other -/
theorem encode_loop_gen (f : Bytes → Bytes × Int → Except PyErr (Bytes × Int))
    (hf : ∀ (comp pre rest : Bytes), comp.length ≤ rest.length →
      f comp (pre ++ rest, (pre.length : Int)) = .ok (pre ++ comp ++ rest.drop comp.length, ((pre.length + comp.length : Nat) : Int)))
    (cs : List Bytes) (pre rest : Bytes) (st : Bytes × Int) (hst : st = (pre ++ rest, (pre.length : Int)))
    (hk : cs.flatten.length ≤ rest.length) :
    Py.forEach cs st f
      = .ok (pre ++ cs.flatten ++ rest.drop cs.flatten.length, ((pre.length + cs.flatten.length : Nat) : Int)) := by
  subst hst
  induction cs generalizing pre rest with
  | nil => simp
  | cons c r ih =>
    simp only [List.flatten_cons, List.length_append] at hk
    rw [Py.forEach_cons_ok _ _ _ _ _ (hf c pre rest (by omega))]
    have := ih (pre ++ c) (rest.drop c.length) (by simp only [List.length_drop]; omega)
    rw [show pre.length + c.length = (pre ++ c).length by simp, this]
    simp only [List.flatten_cons, List.length_append, List.append_assoc, List.drop_drop]
    rw [Nat.add_assoc]

/-- **Name.encode** into a buffer supplied by the caller (not empty), at an offset `0 ≤ o`: `IndexError` when the
    buffer is too short, otherwise the buffer - which is also what is returned - holds `Ndn.Name.encode name` at the
    offset and is unchanged elsewhere (every slice assignment of the loop has the size of its component). -/
theorem encode_into_eq (n : List Bytes) (buf : Bytes) (o : Nat) (hb : buf ≠ []) (hl : n.flatten.length < 2 ^ 62)
    (ho : o < 2 ^ 62) :
    Gen.NameGen.encode n (some buf) o =
      if buf.length < (Name.encode n).length + o then .error .indexError
      else .ok (buf.take o ++ Name.encode n ++ buf.drop (o + (Name.encode n).length),
                some (buf.take o ++ Name.encode n ++ buf.drop (o + (Name.encode n).length))) := by
  simp only [Gen.NameGen.encode, encode_length]
  rw [reduce_len0, get_tl_num_size_eq]
  simp only [ok_bind]
  rw [if_pos hb]
  have t7 : tlNumSize 7 = 1 := by decide
  have s2 := tlNumSize_cases n.flatten.length
  have hlen : Py.len buf = ((buf.length : Nat) : Int) := rfl
  by_cases hs : buf.length < n.flatten.length + 1 + tlNumSize n.flatten.length + o
  · rw [if_pos (by omega), if_pos hs]
  · rw [if_neg (by omega), if_neg hs]
    have hsplit : buf = buf.take o ++ buf.drop o := (List.take_append_drop o buf).symm
    have hpre : (buf.take o).length = o := by simp only [List.length_take]; omega
    have w1 := writeTlNumInto_append (buf.take o) (buf.drop o) 7 (by omega) (by simp only [List.length_drop]; omega)
    rw [← hsplit, hpre] at w1
    rw [write_tl_num_ok (7 : Int) (o : Int) rfl rfl (by omega) w1]
    simp only [ok_bind]
    have w2 := writeTlNumInto_append (buf.take o ++ writeTlNum 7) ((buf.drop o).drop (tlNumSize 7)) n.flatten.length
      (by omega) (by simp only [List.length_drop]; omega)
    have hpre2 : (buf.take o ++ writeTlNum 7).length = o + 1 := by simp [writeTlNum_length, hpre, t7]
    rw [hpre2] at w2
    rw [write_tl_num_ok _ ((o : Int) + ((tlNumSize 7 : Nat) : Int)) rfl (by omega) (by omega) w2]
    simp only [ok_bind]
    rw [encode_loop_gen (cs := n) (pre := buf.take o ++ writeTlNum 7 ++ writeTlNum n.flatten.length)
      (rest := ((buf.drop o).drop (tlNumSize 7)).drop (tlNumSize n.flatten.length))]
    · simp only [ok_bind]
      show Except.ok _ = Except.ok _
      have e : buf.take o ++ writeTlNum 7 ++ writeTlNum n.flatten.length ++ n.flatten ++
          List.drop n.flatten.length (List.drop (tlNumSize n.flatten.length) (List.drop (tlNumSize 7) (List.drop o buf)))
          = buf.take o ++ Name.encode n ++ buf.drop (o + (n.flatten.length + 1 + tlNumSize n.flatten.length)) := by
        simp only [List.drop_drop, Name.encode, List.append_assoc, Name.TYPE_NAME]
        congr 5
        omega
      rw [e]
    · intro comp pre rest hc
      show (setSliceSameSize _ _ _ _ >>= _) = _
      rw [setSliceSameSize_mid pre rest comp _ _ rfl (by simp [Py.len]) hc]
      simp [Py.len]
      rfl
    · simp only [List.length_append, writeTlNum_length, hpre, t7]
      congr 1 <;> omega
    · simp only [List.length_drop]; omega

/-- the same when an EMPTY buffer is passed (`if not buf` is true for it): a fresh buffer is used, the caller's stays empty -/
theorem encode_eq_empty (n : List Bytes) (hl : n.flatten.length < 2 ^ 62) :
    Gen.NameGen.encode n (some []) 0 = .ok (Name.encode n, some []) := by
  simp only [Gen.NameGen.encode, Name.encode]
  rw [reduce_len0, get_tl_num_size_eq]
  simp only [ok_bind]
  rw [if_neg (by simp)]
  have t7 : tlNumSize 7 = 1 := by decide
  have s2 := tlNumSize_cases n.flatten.length
  rw [bytearrayOfSize_nat _ (n.flatten.length + 1 + tlNumSize n.flatten.length) (by omega) (by omega)]
  simp only [ok_bind]
  have w1 := writeTlNumInto_append [] (List.replicate (n.flatten.length + 1 + tlNumSize n.flatten.length) 0) 7
    (by omega) (by simp only [List.length_replicate]; omega)
  simp only [List.nil_append, List.length_nil, List.drop_replicate] at w1
  rw [write_tl_num_ok (7 : Int) (0 : Int) rfl rfl (show (0 : Nat) < 2 ^ 63 by omega) w1]
  simp only [ok_bind]
  have w2 := writeTlNumInto_append (writeTlNum 7)
    (List.replicate (n.flatten.length + 1 + tlNumSize n.flatten.length - tlNumSize 7) 0) n.flatten.length
    (by omega) (by simp; omega)
  simp only [writeTlNum_length, List.drop_replicate] at w2
  rw [write_tl_num_ok _ ((0 : Int) + ((tlNumSize 7 : Nat) : Int)) rfl (by omega) (show tlNumSize 7 < 2 ^ 63 by omega) w2]
  simp only [ok_bind]
  have hlen : (writeTlNum 7 ++ writeTlNum n.flatten.length).length = tlNumSize 7 + tlNumSize n.flatten.length := by
    simp [writeTlNum_length]
  rw [encode_loop' (cs := n) (pre := writeTlNum 7 ++ writeTlNum n.flatten.length)
    (rest := List.replicate (n.flatten.length + 1 + tlNumSize n.flatten.length - tlNumSize 7 - tlNumSize n.flatten.length) 0)]
  · simp only [ok_bind]
    show Except.ok _ = Except.ok _
    congr 2
    simp only [List.drop_replicate, List.append_assoc]
    have z : n.flatten.length + 1 + tlNumSize n.flatten.length - tlNumSize 7 - tlNumSize n.flatten.length
        - n.flatten.length = 0 := by omega
    rw [z]
    simp [Name.TYPE_NAME]
  · intro _ _ _; rfl
  · simp only [hlen, List.append_assoc]; congr 1 <;> omega
  · simp only [List.length_replicate]; omega


theorem parse_size_pos {buf : Bytes} {off v n : Nat} (h : parseTlNum buf off = .ok (v, n)) : 1 ≤ n := by
  have := parseTlNum_size_ge h
  have := tlNumSize_pos v
  omega

/-- the state the translated loop returns for a result of the model loop: the offset reached, `length` = 0 (the loop
    ends only when the declared Length is used up exactly), the components -/
def loopRes (r : List Bytes × Nat) : Int × Int × List Bytes := ((r.2 : Int), (0 : Int), r.1)

/-- the translated `while length > 0` loop IS the model loop, for every buffer, offset, remaining length and
    accumulator (including the `IndexError` of a component that exceeds what is left of the declared Length) -/
theorem loop_eq (buf : Bytes) : ∀ (fuel off length : Nat) (acc : List Bytes), length < fuel →
    Gen.NameGen.decode_loop_1 buf fuel ((off : Int), (length : Int), acc)
      = (Name.decodeLoop buf fuel off length acc).map loopRes := by
  intro fuel
  induction fuel with
  | zero => intro off length acc h; omega
  | succ f ih =>
    intro off length acc hlt
    rw [Gen.NameGen.decode_loop_1, Name.decodeLoop]
    by_cases hz : length = 0
    · subst hz
      simp [loopRes]
      rfl
    · rw [if_pos (by omega), if_neg hz]
      cases h1 : parseTlNum buf off with
      | error e => rw [parse_tl_num_error _ rfl h1]; rfl
      | ok p1 =>
        obtain ⟨t, st⟩ := p1
        rw [parse_tl_num_ok _ rfl h1]
        simp only [ok_bind]
        cases h2 : parseTlNum buf (off + st) with
        | error e => rw [parse_tl_num_error _ (by omega) h2]; rfl
        | ok p2 =>
          obtain ⟨lc, sl⟩ := p2
          rw [parse_tl_num_ok _ (by omega) h2]
          simp only [ok_bind]
          have p1 := parse_size_pos h1
          have p2 := parse_size_pos h2
          by_cases hov : off + st + sl + lc - off > length
          · rw [if_pos (by omega), if_pos hov]; rfl
          · rw [if_neg (by omega), if_neg hov]
            have e1 : ((off : Int) + (st : Int) + ((sl : Int) + (lc : Int))) = ((off + st + sl + lc : Nat) : Int) := by omega
            have e2 : ((length : Int) - ((off : Int) + (st : Int) + ((sl : Int) + (lc : Int)) - (off : Int)))
                = ((length - (off + st + sl + lc - off) : Nat) : Int) := by omega
            rw [e2, e1, slice_nat buf off (off + st + sl + lc) _ _ rfl rfl, ih _ _ _ (by omega)]

theorem unpackAt_error {buf : Bytes} {a n : Nat} {e : PyErr} (h : unpackAt buf a n = .error e) : e = .structError := by
  unfold unpackAt at h
  simp only at h
  split at h <;> cases h
  rfl

theorem bind_error_of {α β} {u : Except PyErr α} {g : α → β} {e : PyErr}
    (h : (u >>= fun v => pure (g v)) = Except.error e) : u = .error e := by
  cases u with
  | error e' => cases h; rfl
  | ok v => cases h

theorem parseTlNum_error_class {buf : Bytes} {off : Nat} {e : PyErr} (h : parseTlNum buf off = .error e) :
    e = .indexError ∨ e = .structError := by
  unfold parseTlNum at h
  split at h
  · cases h; exact .inl rfl
  · repeat' split at h
    all_goals
      first
        | cases h
        | exact .inr (unpackAt_error (bind_error_of h))

theorem decodeLoop_error_class (buf : Bytes) : ∀ (fuel off length : Nat) (acc : List Bytes) (e : PyErr), length < fuel →
    Name.decodeLoop buf fuel off length acc = .error e → e = .indexError ∨ e = .structError := by
  intro fuel
  induction fuel with
  | zero => intro off length acc e h; omega
  | succ f ih =>
    intro off length acc e hlt h
    rw [Name.decodeLoop] at h
    by_cases hz : length = 0
    · rw [if_pos hz] at h; cases h
    · rw [if_neg hz] at h
      cases h1 : parseTlNum buf off with
      | error e1 =>
        rw [h1] at h; cases h; exact parseTlNum_error_class h1
      | ok p1 =>
        obtain ⟨t, st⟩ := p1
        rw [h1] at h
        simp only [ok_bind] at h
        cases h2 : parseTlNum buf (off + st) with
        | error e2 => rw [h2] at h; cases h; exact parseTlNum_error_class h2
        | ok p2 =>
          obtain ⟨lc, sl⟩ := p2
          rw [h2] at h
          simp only [ok_bind] at h
          have p1 := parse_size_pos h1
          split at h
          · cases h; exact .inl rfl
          · exact ih _ _ _ _ (by omega) h

def castRes (r : List Bytes × Nat) : List Bytes × Int := (r.1, ((r.2 : Nat) : Int))

/-- **Name.decode** at offset 0, EVERY byte string: the translated source - two `parse_tl_num`, the Type and Length
    checks, the `while length > 0` loop with its overrun test and its fuel `length + 1` - IS the hand-written model
    `Ndn.Name.decode`: the same components and the same number of bytes consumed, the same exception class
    (`ValueError` not a Name, `IndexError` - also for a component that runs past the declared Length -, `struct.error`).
    Plain equality: nothing is bolted onto the model.  There is no fuel hypothesis: the bound is never exhausted
    (`decode_fuel_suffices`). -/
theorem decode_eq (buf : Bytes) :
    Gen.NameGen.decode buf 0 = (Name.decode buf).map castRes := by
  simp only [Gen.NameGen.decode, Name.decode]
  cases h1 : parseTlNum buf 0 with
  | error e => rw [parse_tl_num_error 0 rfl h1]; rfl
  | ok p1 =>
    obtain ⟨typ, st⟩ := p1
    rw [parse_tl_num_ok 0 rfl h1]
    simp only [ok_bind]
    have hT : Name.TYPE_NAME = 7 := rfl
    by_cases ht : typ = 7
    · rw [if_neg (by omega), if_neg (by omega)]
      cases h2 : parseTlNum buf st with
      | error e => rw [parse_tl_num_error _ (by omega) h2]; rfl
      | ok p2 =>
        obtain ⟨length, sl⟩ := p2
        rw [parse_tl_num_ok _ (by omega) h2]
        simp only [ok_bind]
        have hl : Py.len buf = ((buf.length : Nat) : Int) := rfl
        have w2 := parseTlNum_within h2
        by_cases hov : length > buf.length - (st + sl)
        · rw [if_pos (by omega), if_pos hov]; rfl
        · rw [if_neg (by omega), if_neg hov]
          have e1 : ((0 : Int) + (st : Int) + (sl : Int)) = ((st + sl : Nat) : Int) := by omega
          have e2 : Int.toNat ((length : Int) + 1) = length + 1 := by omega
          rw [e1, e2, loop_eq buf _ _ _ _ (by omega)]
          cases hm : Name.decodeLoop buf (length + 1) (st + sl) length [] with
          | error e => rfl
          | ok r =>
            obtain ⟨cs, used⟩ := r
            simp only [Except.map, loopRes, ok_bind, castRes]
            show Except.ok _ = Except.ok _
            congr 2
    · rw [if_pos (by omega), if_pos (by omega)]; rfl

theorem cls_of_parse {e : PyErr} (h : e = .indexError ∨ e = .structError) :
    e = .valueError ∨ e = .indexError ∨ e = .structError := by
  rcases h with h | h <;> simp [h]

/-- the model never reports anything but the three exception classes of the source (in particular not the fuel marker) -/
theorem model_decode_error_class {buf : Bytes} {e : PyErr} (h : Name.decode buf = .error e) :
    e = .valueError ∨ e = .indexError ∨ e = .structError := by
  simp only [Name.decode] at h
  cases h1 : parseTlNum buf 0 with
  | error e1 => rw [h1] at h; cases h; exact cls_of_parse (parseTlNum_error_class h1)
  | ok p1 =>
    obtain ⟨typ, st⟩ := p1
    rw [h1] at h
    simp only [ok_bind] at h
    split at h
    · cases h; exact .inl rfl
    · cases h2 : parseTlNum buf st with
      | error e2 => rw [h2] at h; cases h; exact cls_of_parse (parseTlNum_error_class h2)
      | ok p2 =>
        obtain ⟨length, sl⟩ := p2
        rw [h2] at h
        simp only [ok_bind] at h
        split at h
        · cases h; exact .inr (.inl rfl)
        · exact cls_of_parse (decodeLoop_error_class buf (length + 1) (st + sl) length [] e (by omega) h)

/-- **the fuel of the translated `while` loop is never exhausted** (and nothing else "not modelled" is reached):
    whatever the input, `decode` raises only `ValueError`, `IndexError` or `struct.error` - never `PyErr.other`. -/
theorem decode_error_class {buf : Bytes} {e : PyErr} (h : Gen.NameGen.decode buf 0 = .error e) :
    e = .valueError ∨ e = .indexError ∨ e = .structError := by
  rw [decode_eq] at h
  cases hm : Name.decode buf with
  | error e1 => rw [hm] at h; cases h; exact model_decode_error_class hm
  | ok r => rw [hm] at h; cases h

theorem decode_fuel_suffices (buf : Bytes) : Gen.NameGen.decode buf 0 ≠ .error .other := by
  intro h; have := decode_error_class h; simp at this

/-- where the model raises, the source raises the same class -/
theorem decode_error_of_model {buf : Bytes} {e : PyErr} (h : Name.decode buf = .error e) :
    Gen.NameGen.decode buf 0 = .error e := by
  rw [decode_eq, h]; rfl

/-- what the source accepts, the model accepts with the same components and the same number of bytes consumed -/
theorem decode_ok_model {buf : Bytes} {cs : List Bytes} {n : Int} (h : Gen.NameGen.decode buf 0 = .ok (cs, n)) :
    Name.decode buf = .ok (cs, n.toNat) ∧ 0 ≤ n := by
  rw [decode_eq] at h
  cases hm : Name.decode buf with
  | error e1 => rw [hm] at h; cases h
  | ok r =>
    rw [hm] at h
    cases h
    exact ⟨by simp [castRes], by simp [castRes]⟩

/-- and conversely: what the model accepts, the source accepts with the same components and count -/
theorem decode_ok_of_model {buf : Bytes} {cs : List Bytes} {n : Nat} (h : Name.decode buf = .ok (cs, n)) :
    Gen.NameGen.decode buf 0 = .ok (cs, (n : Int)) := by
  rw [decode_eq, h]; rfl


/-! ### `Name.decode(buf, offset)` at ANY offset `0 ≤ offset` -/

/-- the translated source at a natural-number offset is the model `Ndn.Name.decodeAt` -/
theorem decode_at_nat (buf : Bytes) (off : Nat) :
    Gen.NameGen.decode buf (off : Int) = (Name.decodeAt buf off).map castRes := by
  simp only [Gen.NameGen.decode, Name.decodeAt]
  cases h1 : parseTlNum buf off with
  | error e => rw [parse_tl_num_error _ rfl h1]; rfl
  | ok p1 =>
    obtain ⟨typ, st⟩ := p1
    rw [parse_tl_num_ok _ rfl h1]
    simp only [ok_bind]
    have hT : Name.TYPE_NAME = 7 := rfl
    by_cases ht : typ = 7
    · rw [if_neg (by omega), if_neg (by omega)]
      cases h2 : parseTlNum buf (off + st) with
      | error e => rw [parse_tl_num_error _ (by omega) h2]; rfl
      | ok p2 =>
        obtain ⟨length, sl⟩ := p2
        rw [parse_tl_num_ok _ (by omega) h2]
        simp only [ok_bind]
        have hl : Py.len buf = ((buf.length : Nat) : Int) := rfl
        have w2 := parseTlNum_within h2
        by_cases hov : length > buf.length - (off + st + sl)
        · rw [if_pos (by omega), if_pos hov]; rfl
        · rw [if_neg (by omega), if_neg hov]
          have e1 : ((off : Int) + (st : Int) + (sl : Int)) = ((off + st + sl : Nat) : Int) := by omega
          have e2 : Int.toNat ((length : Int) + 1) = length + 1 := by omega
          rw [e1, e2, loop_eq buf _ _ _ _ (by omega)]
          cases hm : Name.decodeLoop buf (length + 1) (off + st + sl) length [] with
          | error e => rfl
          | ok r =>
            obtain ⟨cs, used⟩ := r
            have hu := (decodeLoop_ok_exact buf _ _ _ _ _ _ (by omega) hm).1
            simp only [Except.map, loopRes, ok_bind, castRes]
            show Except.ok _ = Except.ok _
            congr 2
            omega
    · rw [if_pos (by omega), if_pos (by omega)]; rfl

/-- **Name.decode at an offset**, EVERY byte string, EVERY offset `0 ≤ off`: the translated source - two
    `parse_tl_num` at `offset`, the Type check, the Length test `length > len(buf) - offset`, the `while` loop, the result
    `(ret, offset - origin_offset)` - IS `Ndn.Name.decodeAt buf off`: the same components, the same number of bytes
    consumed, the same exception class.  Plain equality, no fuel hypothesis. -/
theorem decode_at_eq (buf : Bytes) (off : Int) (h : 0 ≤ off) :
    Gen.NameGen.decode buf off = (Name.decodeAt buf off.toNat).map castRes := by
  have := decode_at_nat buf off.toNat
  rwa [Int.toNat_of_nonneg h] at this

/-- ... which is decoding the SUFFIX `buf[off:]` from its start (`decodeAt_eq_drop`): same components, same count, same
    exception - whatever the bytes before the offset are.  `off ≥ len(buf)`: the suffix is empty, `IndexError`. -/
theorem decode_at_drop (buf : Bytes) (off : Int) (h : 0 ≤ off) :
    Gen.NameGen.decode buf off = (Name.decode (buf.drop off.toNat)).map castRes := by
  rw [decode_at_eq buf off h, decodeAt_eq_drop]

/-- so decoding at an offset is the translated source run on the suffix at offset 0 -/
theorem decode_at_suffix (buf : Bytes) (off : Int) (h : 0 ≤ off) :
    Gen.NameGen.decode buf off = Gen.NameGen.decode (buf.drop off.toNat) 0 := by
  rw [decode_at_drop buf off h, decode_eq]

theorem decode_at_outside (buf : Bytes) (off : Int) (h : (buf.length : Int) ≤ off) :
    Gen.NameGen.decode buf off = .error .indexError := by
  rw [decode_at_eq buf off (by omega), decodeAt_outside buf _ (by omega)]; rfl

/-- the fuel of the loop is never exhausted at any offset `0 ≤ off` either -/
theorem decode_at_fuel_suffices (buf : Bytes) (off : Int) (h : 0 ≤ off) : Gen.NameGen.decode buf off ≠ .error .other := by
  rw [decode_at_suffix buf off h]; exact decode_fuel_suffices _

/-! ### NEGATIVE offsets: what the source does

`parse_tl_num` reads `buf[offset]`, which Python indexes from the end for `offset < 0`, and its slices
`buf[offset+1:offset+3]` normalise a negative bound but NOT a bound that has reached 0; `decode` uses the number as it
is in `length > len(buf) - offset` (the test is WEAKER by `|offset|`) and in the slices `buf[st:offset]`.  So:
`offset < -len(buf)` is an `IndexError` (`decode_below`); for `-len(buf) ≤ offset < 0` the call behaves like the
equivalent offset `len(buf) + offset` as long as no offset reaches 0, i.e. when the Name element ends strictly before the
end of the buffer (`decode_neg_ok`); when it ends exactly WITH the buffer the last slice is `buf[st:0]` = empty, and an
offset that reaches 0 goes on reading at the START of the buffer (the two `example`s at the end of this file). -/

theorem bytesGet_below (buf : Bytes) (off : Int) (h : off + (buf.length : Int) < 0) :
    bytesGet buf off = .error .indexError := by
  unfold bytesGet getItem
  simp only
  have e : off < 0 := by omega
  simp only [e, h, if_true]

theorem bytesGet_wrap (buf : Bytes) (off : Int) (h0 : off < 0) (h : 0 ≤ off + (buf.length : Int)) :
    bytesGet buf off = bytesGet buf (off + (buf.length : Int)) := by
  unfold bytesGet getItem
  simp only
  have e : ¬ off + (buf.length : Int) < 0 := by omega
  simp only [h0, e, if_true, if_false]

theorem slice_wrap {α} (l : List α) (x y : Int) (hx : x < 0) (hy : y < 0) (hx' : 0 ≤ x + (l.length : Int))
    (hy' : 0 ≤ y + (l.length : Int)) : slice l x y = slice l (x + (l.length : Int)) (y + (l.length : Int)) := by
  unfold slice normIdx
  rw [if_pos hx, if_pos hy, if_neg (by omega), if_neg (by omega), Nat.min_eq_left (by omega), Nat.min_eq_left (by omega)]

theorem parse_n_of_bind {u : Except PyErr Nat} {c v n : Nat} (h : (u >>= fun x => pure (x, c)) = Except.ok (v, n)) : n = c := by
  cases u with
  | error e => cases h
  | ok x => cases h; rfl

theorem parse_tl_num_wrap {buf : Bytes} {a v n : Nat} (x : Int) (hx : x = (a : Int) - (buf.length : Int))
    (h : parseTlNum buf a = .ok (v, n)) (hn : a + n < buf.length ∨ n = 1) :
    Gen.TlvVar.parse_tl_num buf x = .ok ((v : Int), (n : Int)) := by
  have hw := parseTlNum_within h
  have hp := parse_size_pos h
  have hm := parse_tl_num_ok (a : Int) rfl h
  rw [← hm]
  subst hx
  simp only [Gen.TlvVar.parse_tl_num]
  rw [bytesGet_wrap buf _ (by omega) (by omega)]
  have e : (a : Int) - (buf.length : Int) + (buf.length : Int) = (a : Int) := by omega
  rw [e, bytesGet_nat]
  unfold parseTlNum at h
  cases hb : buf[a]? with
  | none => rw [hb] at h; cases h
  | some b =>
    rw [hb] at h
    simp only at h
    simp only [ok_bind]
    have hlt := b.toNat_lt
    rcases (by omega : b.toNat ≤ 252 ∨ b.toNat = 253 ∨ b.toNat = 254 ∨ b.toNat = 255) with hc | hc | hc | hc
    · simp (disch := omega) only [if_pos, if_neg]
    · simp (disch := omega) only [if_pos, if_neg] at h
      have hn3 := parse_n_of_bind h
      simp (disch := omega) only [if_pos, if_neg]
      rw [slice_wrap buf _ _ (by omega) (by omega) (by omega) (by omega)]
      have e1 : (a : Int) - (buf.length : Int) + 1 + (buf.length : Int) = (a : Int) + 1 := by omega
      have e2 : (a : Int) - (buf.length : Int) + 3 + (buf.length : Int) = (a : Int) + 3 := by omega
      rw [e1, e2]
    · simp (disch := omega) only [if_pos, if_neg] at h
      have hn3 := parse_n_of_bind h
      simp (disch := omega) only [if_pos, if_neg]
      rw [slice_wrap buf _ _ (by omega) (by omega) (by omega) (by omega)]
      have e1 : (a : Int) - (buf.length : Int) + 1 + (buf.length : Int) = (a : Int) + 1 := by omega
      have e2 : (a : Int) - (buf.length : Int) + 5 + (buf.length : Int) = (a : Int) + 5 := by omega
      rw [e1, e2]
    · simp (disch := omega) only [if_pos, if_neg] at h
      have hn3 := parse_n_of_bind h
      simp (disch := omega) only [if_pos, if_neg]
      rw [slice_wrap buf _ _ (by omega) (by omega) (by omega) (by omega)]
      have e1 : (a : Int) - (buf.length : Int) + 1 + (buf.length : Int) = (a : Int) + 1 := by omega
      have e2 : (a : Int) - (buf.length : Int) + 9 + (buf.length : Int) = (a : Int) + 9 := by omega
      rw [e1, e2]

/-- the translated loop started at the NEGATIVE offset `a - len(buf)`: when the declared extent ends strictly before
    the end of the buffer (`a + length < len(buf)`: no offset reaches 0) and the model loop at `a` succeeds, the source
    returns the same components and the negative end offset -/
theorem loop_wrap (buf : Bytes) : ∀ (fuel a length : Nat) (acc : List Bytes) (r : List Bytes × Nat), length < fuel →
    a + length < buf.length → Name.decodeLoop buf fuel a length acc = .ok r →
    Gen.NameGen.decode_loop_1 buf fuel ((a : Int) - (buf.length : Int), (length : Int), acc)
      = .ok ((r.2 : Int) - (buf.length : Int), (0 : Int), r.1) := by
  intro fuel
  induction fuel with
  | zero => intro a length acc r h; omega
  | succ f ih =>
    intro a length acc r hlt hin h
    rw [Gen.NameGen.decode_loop_1]
    rw [Name.decodeLoop] at h
    by_cases hz : length = 0
    · subst hz
      rw [if_pos rfl] at h
      cases h
      simp
      rfl
    · rw [if_neg hz] at h
      rw [if_pos (by omega)]
      cases h1 : parseTlNum buf a with
      | error e => rw [h1] at h; cases h
      | ok p1 =>
        obtain ⟨t, st⟩ := p1
        rw [h1] at h
        simp only [ok_bind] at h
        cases h2 : parseTlNum buf (a + st) with
        | error e => rw [h2] at h; cases h
        | ok p2 =>
          obtain ⟨lc, sl⟩ := p2
          rw [h2] at h
          simp only [ok_bind] at h
          have p1 := parse_size_pos h1
          have p2 := parse_size_pos h2
          by_cases hov : a + st + sl + lc - a > length
          · rw [if_pos hov] at h; cases h
          · rw [if_neg hov] at h
            rw [parse_tl_num_wrap _ rfl h1 (by omega)]
            simp only [ok_bind]
            rw [parse_tl_num_wrap _ (by omega) h2 (by omega)]
            simp only [ok_bind]
            rw [if_neg (by omega)]
            have hs : slice buf ((a : Int) - (buf.length : Int))
                ((a : Int) - (buf.length : Int) + (st : Int) + ((sl : Int) + (lc : Int))) = pySlice buf a (a + st + sl + lc) := by
              rw [slice_wrap buf _ _ (by omega) (by omega) (by omega) (by omega)]
              exact slice_nat buf a (a + st + sl + lc) _ _ (by omega) (by omega)
            have e1 : ((a : Int) - (buf.length : Int) + (st : Int) + ((sl : Int) + (lc : Int)))
                = ((a + st + sl + lc : Nat) : Int) - (buf.length : Int) := by omega
            have e2 : ((length : Int) - ((a : Int) - (buf.length : Int) + (st : Int) + ((sl : Int) + (lc : Int)) - ((a : Int) - (buf.length : Int))))
                = ((length - (a + st + sl + lc - a) : Nat) : Int) := by omega
            rw [hs, e2, e1]
            exact ih _ _ _ _ (by omega) (by omega) h

/-- **an offset below `-len(buf)`**: `IndexError` (the first `buf[offset]` of `parse_tl_num`) -/
theorem decode_below (buf : Bytes) (off : Int) (h : off + (buf.length : Int) < 0) :
    Gen.NameGen.decode buf off = .error .indexError := by
  simp only [Gen.NameGen.decode, Gen.TlvVar.parse_tl_num]
  rw [bytesGet_below buf off h]
  rfl

/-- **NEGATIVE offsets `-len(buf) ≤ -k < 0`, the case in which they mean what Python users expect**: when decoding at
    the equivalent offset `len(buf) - k` succeeds and the Name element ends STRICTLY before the end of the buffer
    (`n < k`), `Name.decode(buf, -k)` returns the same components and count.  (When the element reaches the end of the
    buffer an offset becomes 0 and the source's slices / reads wrap around: outside this theorem, see TRUSTED.) -/
theorem decode_neg_ok (buf : Bytes) (k : Nat) (cs : List Bytes) (n : Nat) (hk : k ≤ buf.length) (hn : n < k)
    (h : Name.decodeAt buf (buf.length - k) = .ok (cs, n)) :
    Gen.NameGen.decode buf (-(k : Int)) = .ok (cs, (n : Int)) := by
  simp only [Name.decodeAt] at h
  simp only [Gen.NameGen.decode]
  cases h1 : parseTlNum buf (buf.length - k) with
  | error e => rw [h1] at h; cases h
  | ok p1 =>
    obtain ⟨typ, st⟩ := p1
    rw [h1] at h
    simp only [ok_bind] at h
    have hT : Name.TYPE_NAME = 7 := rfl
    by_cases ht : typ = 7
    · rw [if_neg (by omega)] at h
      cases h2 : parseTlNum buf (buf.length - k + st) with
      | error e => rw [h2] at h; cases h
      | ok p2 =>
        obtain ⟨length, sl⟩ := p2
        rw [h2] at h
        simp only [ok_bind] at h
        have w2 := parseTlNum_within h2
        have p1 := parse_size_pos h1
        have p2 := parse_size_pos h2
        by_cases hov : length > buf.length - (buf.length - k + st + sl)
        · rw [if_pos hov] at h; cases h
        · rw [if_neg hov] at h
          cases hm : Name.decodeLoop buf (length + 1) (buf.length - k + st + sl) length [] with
          | error e => rw [hm] at h; cases h
          | ok r =>
            rw [hm] at h
            have hu := (decodeLoop_ok_exact buf _ _ _ _ _ _ (by omega) hm).1
            obtain ⟨rc, ru⟩ := r
            simp only [ok_bind] at h
            cases h
            simp only at hu
            subst hu
            rw [parse_tl_num_wrap _ (by omega) h1 (by omega)]
            simp only [ok_bind]
            rw [if_neg (by omega)]
            rw [parse_tl_num_wrap _ (by omega) h2 (by omega)]
            simp only [ok_bind]
            have hl : Py.len buf = ((buf.length : Nat) : Int) := rfl
            rw [if_neg (by omega)]
            have e1 : (-(k : Int) + (st : Int) + (sl : Int)) = ((buf.length - k + st + sl : Nat) : Int) - (buf.length : Int) := by omega
            have e2 : Int.toNat ((length : Int) + 1) = length + 1 := by omega
            rw [e1, e2, loop_wrap buf _ _ _ _ _ (by omega) (by omega) hm]
            simp only [ok_bind]
            show Except.ok _ = Except.ok _
            congr 2
            omega
    · rw [if_pos (by omega)] at h; cases h

/-! ### the translated definitions run -/
example : Gen.NameGen.decode [7, 5, 8, 1, 0x61, 8, 0, 9] 0 = .ok ([[8, 1, 0x61], [8, 0]], 7) := by decide +kernel
/-- a component that runs past the declared Length of the Name: the source and the model raise IndexError -/
example : Gen.NameGen.decode [7, 3, 8, 5, 0x61] 0 = .error .indexError ∧ Name.decode [7, 3, 8, 5, 0x61] = .error .indexError := by
  decide +kernel
/-- also when the overrunning component lies wholly inside the buffer (Length 3, component of 4 bytes, then more bytes) -/
example : Gen.NameGen.decode [7, 3, 8, 2, 0x61, 0x62, 8, 0] 0 = .error .indexError ∧
    Name.decode [7, 3, 8, 2, 0x61, 0x62, 8, 0] = .error .indexError := by
  decide +kernel
example : Gen.NameGen.decode [6, 0] 0 = .error .valueError := by decide +kernel
example : Gen.NameGen.decode [0xAA, 7, 2, 8, 0, 0xBB] 1 = .ok ([[8, 0]], 4) := by decide +kernel
example : Gen.NameGen.decode [7, 2, 8, 0] 4 = .error .indexError := by decide +kernel
/-- negative offset, the element ends before the end of the buffer: as at offset `len(buf) - 5` -/
example : Gen.NameGen.decode [0xAA, 7, 2, 8, 0, 0xBB] (-5) = .ok ([[8, 0]], 4) := by decide +kernel
example : Gen.NameGen.decode [7, 2, 8, 0] (-5) = .error .indexError := by decide +kernel
/-- WHAT THE SOURCE DOES with a negative offset when the element ends with the buffer: the last component is the empty
    slice `buf[-2:0]` - no exception, wrong components (`[b'']` instead of `[b'\x08\x00']`) -/
example : Gen.NameGen.decode [7, 2, 8, 0] (-4) = .ok ([[]], 4) := by decide +kernel
/-- ... and when an offset reaches 0 the reading goes on at the START of the buffer: Type 7 is the LAST byte, Length and
    the component are the first three -/
example : Gen.NameGen.decode [2, 8, 0, 7] (-1) = .ok ([[8, 0]], 4) := by decide +kernel
example : Gen.NameGen.decode [7, 0xFD, 1] 0 = .error .structError := by decide +kernel
example : Gen.NameGen.encode [[8, 1, 0x61], [8, 0]] none 0 = .ok ([7, 5, 8, 1, 0x61, 8, 0], none) := by decide +kernel
example : Gen.NameGen.encode [[8, 1, 0x61]] (some [1, 2, 3, 4, 5, 6, 7]) 1 = .ok ([1, 7, 3, 8, 1, 0x61, 7], some [1, 7, 3, 8, 1, 0x61, 7]) := by
  decide +kernel
example : Gen.NameGen.encode [[8, 1, 0x61]] (some [1, 2, 3]) 0 = .error .indexError := by decide +kernel
example : Gen.NameGen.encoded_length [[8, 1, 0x61], [8, 0]] = .ok 7 := by decide +kernel
example : Gen.NameGen.is_prefix [[8, 1, 0x61]] [[8, 1, 0x61], [8, 0]] = .ok true := by decide +kernel
example : Gen.NameGen.is_prefix [[8, 1, 0x61], [8, 0]] [[8, 1, 0x61]] = .ok false := by decide +kernel
example : Gen.NameGen.is_prefix [[8, 1, 0x62]] [[8, 1, 0x61], [8, 0]] = .ok false := by decide +kernel

end Ndn.NameGen
