import NdnGen.NameGen
import NdnProofs.Props.ComponentGen
import NdnProofs.Lemmas.NameWire
/-!
  The wire-level functions of `src/ndn/encoding/name/Name.py` - `encoded_length`, `encode`, `decode` and the
  FormalName core of `is_prefix` - TRANSLATED from the source text on every run (`harness/py2lean.py` ->
  `lean/NdnGen/NameGen.lean`: `reduce(lambda ...)` is a left fold, `for comp in name:` is `Py.forEach`, the
  `while length > 0:` loop is a definition by recursion on a fuel argument) are equal, for ALL inputs, to the
  hand-written functions of the name model (`NdnModel/Name.lean`, namespace `Ndn.Name`) the C09 theorems are about.
-/
set_option linter.unusedSimpArgs false
namespace Ndn.NameGen
open Ndn Ndn.Py Ndn.TlvVarGen Ndn.ComponentGen

/-- every function asked for was inside the translated subset -/
theorem all_translated :
    Gen.NameGen.encoded_length_translated = true ∧ Gen.NameGen.encode_translated = true ∧
    Gen.NameGen.decode_translated = true ∧ Gen.NameGen.is_prefix_translated = true := by decide

/-- the `reduce(lambda x, y: x + len(y), name, 0)` of the source is the length of the concatenation -/
theorem reduce_len (n : List Bytes) (a : Nat) :
    Py.reduce (fun (x : Int) (y : Bytes) => x + Py.len y) n (a : Int) = ((a + n.flatten.length : Nat) : Int) := by
  induction n generalizing a with
  | nil => simp
  | cons c r ih =>
    rw [Py.reduce_cons]
    have : ((a : Int) + Py.len c) = ((a + c.length : Nat) : Int) := by simp [Py.len]
    rw [this, ih]
    simp only [List.flatten_cons, List.length_append]
    omega

theorem encode_length (n : List Bytes) :
    (Name.encode n).length = n.flatten.length + 1 + tlNumSize n.flatten.length := by
  simp only [Name.encode, List.length_append, writeTlNum_length]
  have : tlNumSize Name.TYPE_NAME = 1 := by decide
  omega

/-- **Name.encoded_length**, every list of byte strings: the translated source returns the length of the model's
    encoding `Ndn.Name.encode name` (1 + size of the Length field + total length of the components); never raises. -/
theorem encoded_length_eq (n : List Bytes) :
    Gen.NameGen.encoded_length n = .ok (((Name.encode n).length : Nat) : Int) := by
  simp only [Gen.NameGen.encoded_length]
  have h := reduce_len n 0
  simp only [Int.natCast_zero, Nat.zero_add] at h
  rw [show ((0 : Int)) = ((0 : Nat) : Int) from rfl] at *
  rw [h, get_tl_num_size_eq]
  simp only [ok_bind, encode_length]
  show Except.ok _ = Except.ok _
  congr 1
  try omega

/-- **Name.is_prefix** on FormalNames (lists of byte strings, on which `normalize` returns an equal list): the
    translated last two lines of the source are `Ndn.Name.isPrefix`; never raises. -/
theorem is_prefix_core_eq (lhs rhs : List Bytes) :
    Gen.NameGen.is_prefix lhs rhs = .ok (Name.isPrefix lhs rhs) := by
  simp only [Gen.NameGen.is_prefix, Name.isPrefix]
  show Except.ok _ = Except.ok _
  congr 1
  have hs : Py.slice rhs (0 : Int) (Py.len lhs) = rhs.take lhs.length := by
    have := slice_nat rhs 0 lhs.length (0 : Int) (Py.len lhs) rfl rfl
    rw [this]; simp [pySlice]
  have hl : (Py.len lhs ≤ Py.len rhs) ↔ lhs.length ≤ rhs.length := by
    simp only [Py.len]; omega
  rw [hs, Bool.eq_iff_iff]
  simp only [decide_eq_true_eq, Bool.and_eq_true, beq_iff_eq, hl]

theorem setSlice_mid {α} (pre rest v : List α) (x y : Int) (hx : x = (pre.length : Int))
    (hy : y = ((pre.length + v.length : Nat) : Int)) (hv : v.length ≤ rest.length) :
    setSlice (pre ++ rest) x y v = pre ++ v ++ rest.drop v.length := by
  subst hx hy
  unfold setSlice
  rw [normIdx_nonneg _ _ (by omega), normIdx_nonneg _ _ (by omega)]
  have e : min ((pre.length : Int)).toNat (pre ++ rest).length = pre.length := by
    simp only [List.length_append, Int.toNat_natCast]; omega
  have e2 : min (((pre.length + v.length : Nat) : Int)).toNat (pre ++ rest).length = pre.length + v.length := by
    simp only [List.length_append, Int.toNat_natCast]; omega
  rw [e, e2, List.take_left' rfl, Nat.max_eq_right (by omega), List.drop_append]
  simp [List.drop_of_length_le]

/-- the `for comp in name:` loop of `encode` on a bytearray: the components are written one after the other -/
theorem encode_loop (f : Bytes → Bytes × Int → Except PyErr (Bytes × Int))
    (hf : ∀ comp buf off, f comp (buf, off) = .ok (setSlice buf off (off + Py.len comp) comp, off + Py.len comp))
    (cs : List Bytes) (pre rest : Bytes) (hk : cs.flatten.length ≤ rest.length) :
    Py.forEach cs (pre ++ rest, (pre.length : Int)) f
      = .ok (pre ++ cs.flatten ++ rest.drop cs.flatten.length, ((pre.length + cs.flatten.length : Nat) : Int)) := by
  induction cs generalizing pre rest with
  | nil => simp
  | cons c r ih =>
    simp only [List.flatten_cons, List.length_append] at hk
    rw [Py.forEach_cons_ok _ _ _ _ _ (hf _ _ _)]
    rw [setSlice_mid pre rest c _ _ rfl (by simp [Py.len]) (by omega)]
    have := ih (pre ++ c) (rest.drop c.length) (by simp only [List.length_drop]; omega)
    have e : ((pre.length : Int) + Py.len c) = (((pre ++ c).length : Nat) : Int) := by simp [Py.len]
    rw [e, this]
    simp only [List.flatten_cons, List.length_append, List.append_assoc, List.drop_drop]
    rw [Nat.add_assoc]

theorem encode_loop' (f : Bytes → Bytes × Int → Except PyErr (Bytes × Int)) (cs : List Bytes) (pre rest : Bytes)
    (st : Bytes × Int)
    (hf : ∀ comp buf off, f comp (buf, off) = .ok (setSlice buf off (off + Py.len comp) comp, off + Py.len comp))
    (hst : st = (pre ++ rest, (pre.length : Int))) (hk : cs.flatten.length ≤ rest.length) :
    Py.forEach cs st f
      = .ok (pre ++ cs.flatten ++ rest.drop cs.flatten.length, ((pre.length + cs.flatten.length : Nat) : Int)) := by
  subst hst; exact encode_loop f hf cs pre rest hk

theorem reduce_len0 (n : List Bytes) :
    Py.reduce (fun (x : Int) (y : Bytes) => x + Py.len y) n (0 : Int) = ((n.flatten.length : Nat) : Int) := by
  have := reduce_len n 0
  simpa using this

/-- **Name.encode** into a fresh buffer (`buf` omitted / `None`), every list of byte strings shorter than 2^62 bytes in
    total: the translated source - the `reduce`, the size computation, `bytearray(n)`, two `write_tl_num` into it, the
    `for` loop of slice assignments - returns exactly `Ndn.Name.encode name`; nothing raises. -/
theorem encode_eq (n : List Bytes) (hl : n.flatten.length < 2 ^ 62) :
    Gen.NameGen.encode n none 0 = .ok (Name.encode n, none) := by
  simp only [Gen.NameGen.encode, Name.encode]
  rw [reduce_len0, get_tl_num_size_eq]
  simp only [ok_bind]
  have t7 : tlNumSize 7 = 1 := by decide
  have s2 := tlNumSize_cases n.flatten.length
  rw [bytearrayOfSize_nat _ (n.flatten.length + 1 + tlNumSize n.flatten.length) (by omega) (by omega)]
  simp only [ok_bind]
  have w1 := writeTlNumInto_append [] (List.replicate (n.flatten.length + 1 + tlNumSize n.flatten.length) 0) 7
    (by omega) (by simp only [List.length_replicate]; omega)
  simp only [List.nil_append, List.length_nil, List.drop_replicate] at w1
  rw [write_tl_num_ok (7 : Int) (0 : Int) rfl rfl (show (0 : Nat) < 2 ^ 63 by omega) w1]
  simp only [ok_bind]
  have w2 := writeTlNumInto_append (writeTlNum 7)
    (List.replicate (n.flatten.length + 1 + tlNumSize n.flatten.length - tlNumSize 7) 0) n.flatten.length
    (by omega) (by simp; omega)
  simp only [writeTlNum_length, List.drop_replicate] at w2
  rw [write_tl_num_ok _ ((0 : Int) + ((tlNumSize 7 : Nat) : Int)) rfl (by omega) (show tlNumSize 7 < 2 ^ 63 by omega) w2]
  simp only [ok_bind]
  have hlen : (writeTlNum 7 ++ writeTlNum n.flatten.length).length = tlNumSize 7 + tlNumSize n.flatten.length := by
    simp [writeTlNum_length]
  rw [encode_loop' (cs := n) (pre := writeTlNum 7 ++ writeTlNum n.flatten.length)
    (rest := List.replicate (n.flatten.length + 1 + tlNumSize n.flatten.length - tlNumSize 7 - tlNumSize n.flatten.length) 0)]
  · simp only [ok_bind]
    show Except.ok _ = Except.ok _
    congr 2
    simp only [List.drop_replicate, List.append_assoc]
    have z : n.flatten.length + 1 + tlNumSize n.flatten.length - tlNumSize 7 - tlNumSize n.flatten.length
        - n.flatten.length = 0 := by omega
    rw [z]
    simp [Name.TYPE_NAME]
  · intro _ _ _; rfl
  · simp only [hlen, List.append_assoc]; congr 1 <;> omega
  · simp only [List.length_replicate]; omega

/-! ### the translated definitions run -/
example : Gen.NameGen.encode [[8, 1, 0x61], [8, 0]] none 0 = .ok ([7, 5, 8, 1, 0x61, 8, 0], none) := by decide +kernel
example : Gen.NameGen.encode [[8, 1, 0x61]] (some [1, 2, 3, 4, 5, 6, 7]) 1 = .ok ([1, 7, 3, 8, 1, 0x61, 7], some [1, 7, 3, 8, 1, 0x61, 7]) := by
  decide +kernel
example : Gen.NameGen.encode [[8, 1, 0x61]] (some [1, 2, 3]) 0 = .error .indexError := by decide +kernel
example : Gen.NameGen.encoded_length [[8, 1, 0x61], [8, 0]] = .ok 7 := by decide +kernel
example : Gen.NameGen.is_prefix [[8, 1, 0x61]] [[8, 1, 0x61], [8, 0]] = .ok true := by decide +kernel
example : Gen.NameGen.is_prefix [[8, 1, 0x61], [8, 0]] [[8, 1, 0x61]] = .ok false := by decide +kernel
example : Gen.NameGen.is_prefix [[8, 1, 0x62]] [[8, 1, 0x61], [8, 0]] = .ok false := by decide +kernel

end Ndn.NameGen
