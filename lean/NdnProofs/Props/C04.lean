import NdnProofs.Lemmas.Fib
/-!
# C04 — Incoming Interests reach exactly the handler of their longest attached prefix

Theorems about `Ndn.Fib` (model of `attach_handler` / `detach_handler` / `_on_interest` + `reply` of
appv2, `set_interest_filter` / `unset_interest_filter` / `_on_interest` of the legacy front-end and
`Dispatcher.register/unregister/dispatch`), for **every** attach/detach history (`List Op`, no bound)
and every Interest name.

Specification vocabulary (does not mention the implementation's data structure):
* `Table = Name → Option Hid`, `specStep` — what an operation means: attaching to a free prefix
  binds it, attaching to an occupied prefix changes nothing, detaching unbinds;
* `attached ops` — the table a history denotes (fold of `specStep` from the empty table);
* `IsLongestAttached a n p` — `p` is an attached prefix of `n` and no attached prefix of `n` is longer
  (the arg-max of the length over `{p ∈ attached | p <+: n}`).

`Proper ops` = every attach of the history carries a handler (attaching `None` is not attaching a
handler; the model still mirrors what the code does then: `Dispatch.noCallback`).
-/
namespace Ndn.C04
open Ndn Ndn.Fib

/-- the attachment table a history denotes -/
def attached (ops : List Op) : Table := ops.foldl specStep (fun _ => none)

/-- `p` is the longest attached prefix of `n` -/
def IsLongestAttached (a : Table) (n p : Name) : Prop :=
  p <+: n ∧ (a p).isSome ∧ ∀ q, q <+: n → (a q).isSome → q.length ≤ p.length

/-- The specification is well defined: a name has at most one longest attached prefix. -/
theorem longest_attached_unique (a : Table) (n p p' : Name)
    (h : IsLongestAttached a n p) (h' : IsLongestAttached a n p') : p = p' :=
  prefix_unique h.1 h'.1 (Nat.le_antisymm (h'.2.2 p h.1 h.2.1) (h.2.2 p' h'.1 h'.2.1))

/-- **table_refines.** After any history the handler table of the model holds, at every prefix,
    exactly the handler the history denotes. -/
theorem table_refines (ops : List Op) (p : Name) : cbOf (fibAfter ops) p = attached ops p := by
  unfold fibAfter attached
  rw [cbOf_run]
  rfl

theorem attached_snoc (ops : List Op) (op : Op) : attached (ops ++ [op]) = specStep (attached ops) op := by
  simp [attached, List.foldl_append]

theorem fibAfter_snoc (ops : List Op) (op : Op) : fibAfter (ops ++ [op]) = (step (fibAfter ops) op).1 := by
  unfold fibAfter
  rw [run_append]
  rfl

theorem allCb_after (ops : List Op) (hp : Proper ops) : AllCb (fibAfter ops) :=
  allCb_run [] ops allCb_nil hp

theorem proper_snoc_detach (ops : List Op) (p : Name) (hp : Proper ops) : Proper (ops ++ [.detach p]) := by
  intro q hm
  rw [List.mem_append] at hm
  rcases hm with hm | hm
  · exact hp q hm
  · simp at hm

/-! ### dispatch on an arbitrary table whose nodes all carry callbacks -/

theorem deliver_iff (f : Fib) (hf : AllCb f) (n p : Name) (h : Hid) :
    onInterest f n = .deliver p h ↔ IsLongestAttached (cbOf f) n p ∧ cbOf f p = some h := by
  constructor
  · intro ho
    unfold onInterest at ho
    split at ho
    · cases ho
    · rename_i p' nd hl
      split at ho
      · cases ho
      · rename_i h' hcb
        cases ho
        obtain ⟨hpre, hg, hall⟩ := (longestPrefix_some f n p nd).mp hl
        have hc : cbOf f p = some h := by simp [cbOf, hg, hcb]
        refine ⟨⟨hpre, by simp [hc], ?_⟩, hc⟩
        intro q hq hs
        by_cases hlt : p.length < q.length
        · have := hall q hq hlt
          simp [cbOf, this] at hs
        · omega
  · rintro ⟨⟨hpre, _, hmax⟩, hc⟩
    cases hg : PyDict.get? f p with
    | none => simp [cbOf, hg] at hc
    | some nd =>
      have hcb : nd.callback = some h := by simpa [cbOf, hg] using hc
      have hl : longestPrefix f n = some (p, nd) := by
        rw [longestPrefix_some]
        refine ⟨hpre, hg, ?_⟩
        intro q hq hlt
        cases hgq : PyDict.get? f q with
        | none => rfl
        | some nd' =>
          have := hmax q hq (cbOf_isSome_of_get? hf hgq)
          omega
      simp [onInterest, hl, hcb]

theorem noRoute_iff (f : Fib) (hf : AllCb f) (n : Name) :
    onInterest f n = .noRoute ↔ ∀ q, q <+: n → cbOf f q = none := by
  constructor
  · intro ho q hq
    unfold onInterest at ho
    split at ho
    · rename_i hl
      have := (longestPrefix_none f n).mp hl q hq
      simp [cbOf, this]
    · split at ho <;> cases ho
  · intro h
    have : longestPrefix f n = none := by
      rw [longestPrefix_none]
      intro q hq; exact get?_none_of_cbOf hf (h q hq)
    simp [onInterest, this]

theorem never_noCallback (f : Fib) (hf : AllCb f) (n p : Name) : onInterest f n ≠ .noCallback p := by
  intro ho
  unfold onInterest at ho
  split at ho
  · cases ho
  · rename_i p' nd hl
    split at ho
    · rename_i hcb
      have := hf p' nd ((longestPrefix_some f n p' nd).mp hl).2.1
      simp [hcb] at this
    · cases ho

/-! ### the property theorems -/

/-- **dispatch_longest.** For every attach/detach history and every Interest name: the handler `h`
    is invoked (for the prefix `p`) iff `p` is the longest attached prefix of the name and `h` is the
    handler attached there. -/
theorem dispatch_longest (ops : List Op) (hp : Proper ops) (n p : Name) (h : Hid) :
    onInterest (fibAfter ops) n = .deliver p h ↔
      IsLongestAttached (attached ops) n p ∧ attached ops p = some h := by
  rw [deliver_iff _ (allCb_after ops hp)]
  have : cbOf (fibAfter ops) = attached ops := funext (table_refines ops)
  rw [this]

/-- **dispatch_none.** No handler is invoked iff no attached prefix matches the name. -/
theorem dispatch_none (ops : List Op) (hp : Proper ops) (n : Name) :
    onInterest (fibAfter ops) n = .noRoute ↔ ∀ q, q <+: n → attached ops q = none := by
  rw [noRoute_iff _ (allCb_after ops hp)]
  have : cbOf (fibAfter ops) = attached ops := funext (table_refines ops)
  rw [this]

/-- The "node without callback" branch is unreachable by histories that attach handlers. -/
theorem dispatch_never_blank (ops : List Op) (hp : Proper ops) (n p : Name) :
    onInterest (fibAfter ops) n ≠ .noCallback p :=
  never_noCallback _ (allCb_after ops hp) n p

/-- **dispatch_exactly_one.** Every Interest is either delivered to exactly one handler - the one at
    its longest attached prefix - or, when no attached prefix matches, to none. -/
theorem dispatch_exactly_one (ops : List Op) (hp : Proper ops) (n : Name) :
    (∃ p h, onInterest (fibAfter ops) n = .deliver p h ∧
        IsLongestAttached (attached ops) n p ∧ attached ops p = some h) ∨
    (onInterest (fibAfter ops) n = .noRoute ∧ ∀ q, q <+: n → attached ops q = none) := by
  cases ho : onInterest (fibAfter ops) n with
  | noRoute => exact .inr ⟨rfl, (dispatch_none ops hp n).mp ho⟩
  | noCallback p => exact absurd ho (dispatch_never_blank ops hp n p)
  | deliver p h => exact .inl ⟨p, h, rfl, (dispatch_longest ops hp n p h).mp ho⟩

/-- **attach_dup_refused.** Attaching (anything) to an occupied prefix raises `ValueError` and leaves
    the table exactly as it was. -/
theorem attach_dup_refused (ops : List Op) (p : Name) (h' : Option Hid)
    (hocc : (attached ops p).isSome) :
    step (fibAfter ops) (.attach p h') = (fibAfter ops, .err .valueError) := by
  rw [← table_refines] at hocc
  cases hg : PyDict.get? (fibAfter ops) p with
  | none => simp [cbOf, hg] at hocc
  | some nd =>
    cases hcb : nd.callback with
    | none => simp [cbOf, hg, hcb] at hocc
    | some h0 => exact step_attach_occupied _ p h' nd h0 hg hcb

/-- Attaching a handler to a free prefix succeeds and binds it. -/
theorem attach_free_accepted (ops : List Op) (p : Name) (h : Hid) (hfree : attached ops p = none) :
    (step (fibAfter ops) (.attach p (some h))).2 = .ok ∧
      attached (ops ++ [.attach p (some h)]) p = some h := by
  constructor
  · rw [← table_refines] at hfree
    cases hg : PyDict.get? (fibAfter ops) p with
    | none => rw [step_attach_absent _ p _ hg]
    | some nd =>
      cases hcb : nd.callback with
      | none => rw [step_attach_blank _ p _ nd hg hcb]
      | some h0 => simp [cbOf, hg, hcb] at hfree
  · rw [attached_snoc]; simp [specStep, hfree]

/-- what detaching means for the table -/
theorem attached_detach (ops : List Op) (p q : Name) :
    attached (ops ++ [.detach p]) q = if q = p then none else attached ops q := by
  rw [attached_snoc]; rfl

/-- **detach_receives_nothing.** After `p` is detached, the handler that was at `p` is not invoked
    (for `p`) by any Interest. -/
theorem detach_receives_nothing (ops : List Op) (hp : Proper ops) (p n : Name) (h : Hid) :
    onInterest (fibAfter (ops ++ [.detach p])) n ≠ .deliver p h := by
  intro ho
  have := ((dispatch_longest _ (proper_snoc_detach ops p hp) n p h).mp ho).2
  rw [attached_detach] at this
  simp at this

/-- **detach_frame.** Detaching `p` changes the dispatch of a name only if `p` was its longest
    attached prefix: every other name - in particular names served by shorter or by longer attached
    prefixes - is dispatched exactly as before. -/
theorem detach_frame (ops : List Op) (hp : Proper ops) (p n : Name)
    (hother : ∀ h, onInterest (fibAfter ops) n ≠ .deliver p h) :
    onInterest (fibAfter (ops ++ [.detach p])) n = onInterest (fibAfter ops) n := by
  have hp' := proper_snoc_detach ops p hp
  cases ho : onInterest (fibAfter ops) n with
  | noRoute =>
    rw [dispatch_none _ hp']
    intro q hq
    rw [attached_detach]
    split
    · rfl
    · exact (dispatch_none ops hp n).mp ho q hq
  | noCallback q => exact absurd ho (dispatch_never_blank ops hp n q)
  | deliver q h =>
    have hqp : q ≠ p := by
      intro e; subst e; exact hother h ho
    obtain ⟨⟨hpre, hs, hmax⟩, hq⟩ := (dispatch_longest ops hp n q h).mp ho
    rw [dispatch_longest _ hp']
    refine ⟨⟨hpre, ?_, ?_⟩, ?_⟩
    · rw [attached_detach]; simp [hqp, hs]
    · intro r hr hrs
      rw [attached_detach] at hrs
      split at hrs
      · simp at hrs
      · exact hmax r hr hrs
    · rw [attached_detach]; simp [hqp, hq]

/-- **detach_falls_back.** After `p` is detached, dispatch is longest-prefix dispatch over the
    remaining attachments: `q` serves `n` iff `q ≠ p` is attached, is a prefix of `n`, and is at least
    as long as every other remaining attached prefix of `n`. -/
theorem detach_falls_back (ops : List Op) (hp : Proper ops) (p n q : Name) (h : Hid) :
    onInterest (fibAfter (ops ++ [.detach p])) n = .deliver q h ↔
      (q <+: n ∧ q ≠ p ∧ attached ops q = some h ∧
        ∀ r, r <+: n → r ≠ p → (attached ops r).isSome → r.length ≤ q.length) := by
  rw [dispatch_longest _ (proper_snoc_detach ops p hp)]
  unfold IsLongestAttached
  constructor
  · rintro ⟨⟨hpre, _, hmax⟩, hq⟩
    rw [attached_detach] at hq
    split at hq
    · cases hq
    · rename_i hqp
      refine ⟨hpre, hqp, hq, ?_⟩
      intro r hr hrp hrs
      apply hmax r hr
      rw [attached_detach]; simpa [hrp] using hrs
  · rintro ⟨hpre, hqp, hq, hmax⟩
    refine ⟨⟨hpre, ?_, ?_⟩, ?_⟩
    · rw [attached_detach]; simp [hqp, hq]
    · intro r hr hrs
      rw [attached_detach] at hrs
      split at hrs
      · simp at hrs
      · rename_i hrp; exact hmax r hr hrp hrs
    · rw [attached_detach]; simp [hqp, hq]

/-- Detaching a prefix that holds no handler raises `KeyError` and changes nothing; detaching an
    attached prefix succeeds. -/
theorem detach_absent_keyerror (ops : List Op) (hp : Proper ops) (p : Name) :
    (attached ops p = none → step (fibAfter ops) (.detach p) = (fibAfter ops, .err .keyError)) ∧
    ((attached ops p).isSome → (step (fibAfter ops) (.detach p)).2 = .ok) := by
  constructor
  · intro hfree
    rw [← table_refines] at hfree
    exact step_detach_absent _ p (get?_none_of_cbOf (allCb_after ops hp) hfree)
  · intro hocc
    rw [← table_refines] at hocc
    cases hg : PyDict.get? (fibAfter ops) p with
    | none => simp [cbOf, hg] at hocc
    | some nd => rw [step_detach_present _ p nd hg]

/-- **reply_truthful.** With the face up, `reply` returns `True` iff it wrote a packet iff the clock
    has not passed the deadline. -/
theorem reply_truthful (pd : Pending) (now : Nat) (data : Bytes) :
    ∃ r sent, reply true pd now data = .ok (r, sent) ∧
      (r = true ↔ sent ≠ []) ∧ (r = true ↔ now ≤ pd.deadline) := by
  rw [reply_eq]
  by_cases hlate : now > pd.deadline
  · exact ⟨false, [], by simp [hlate], by simp, by simp; omega⟩
  · cases ht : pd.pitToken with
    | none => exact ⟨true, [data], by simp [hlate], by simp, by simp; omega⟩
    | some t => exact ⟨true, [lpWrap t data], by simp [hlate], by simp, by simp; omega⟩

/-- What is written is the packet itself, or the packet in an LpPacket carrying the Interest's PIT
    token; exactly one packet. With the face down nothing is ever written. -/
theorem reply_payload (pd : Pending) (now : Nat) (data : Bytes) :
    (now ≤ pd.deadline → reply true pd now data =
        .ok (true, [match pd.pitToken with | none => data | some t => lpWrap t data])) ∧
    (∀ r sent, reply false pd now data = .ok (r, sent) → r = false ∧ sent = []) := by
  constructor
  · intro h
    have : ¬ now > pd.deadline := by omega
    rw [reply_eq]
    cases pd.pitToken <;> simp [this]
  · intro r sent h
    rw [reply_eq] at h
    split at h
    · cases h; exact ⟨rfl, rfl⟩
    · simp at h

/-- The deadline is arrival + InterestLifetime (4000 ms when the Interest carries none): a reply
    `off` ms after arrival is transmitted iff `off ≤ lifetime`. -/
theorem reply_deadline_is_lifetime (arrival off : Nat) (lifetime : Option Nat) (tok : Option Bytes)
    (data : Bytes) :
    (∃ sent, reply true (mkPending arrival lifetime tok) (arrival + off) data = .ok (true, sent)) ↔
      off ≤ (match lifetime with | some l => l | none => 4000) := by
  have key : ∀ l, (mkPending arrival lifetime tok).deadline = arrival + l →
      ((∃ sent, reply true (mkPending arrival lifetime tok) (arrival + off) data = .ok (true, sent)) ↔ off ≤ l) := by
    intro l hd
    obtain ⟨r, sent, he, _, hr⟩ := reply_truthful (mkPending arrival lifetime tok) (arrival + off) data
    rw [he]
    constructor
    · rintro ⟨s, hs⟩
      cases hs
      have := hr.mp rfl
      omega
    · intro h
      have : r = true := hr.mpr (by omega)
      exact ⟨sent, by rw [this]⟩
  cases lifetime with
  | some l => exact key l (by rw [mkPending_eq])
  | none => exact key 4000 (by rw [mkPending_eq])

/-- **key_repr_irrelevant.** `NameTrie._path_from_key` makes the trie path depend only on the
    content of the components, not on the buffer class (bytes / bytearray / memoryview) the caller
    used, and every stored step is immutable and hashable. -/
theorem key_repr_irrelevant (key : List Buf) :
    trieKey key = key.map (·.data) ∧ ∀ b ∈ pathFromKey key, stepHashable b = true := by
  constructor
  · unfold trieKey pathFromKey
    rw [List.map_map]
    apply List.map_congr_left
    intro b _
    simp only [Function.comp]
    split <;> rfl
  · intro b hb
    unfold pathFromKey at hb
    rw [List.mem_map] at hb
    obtain ⟨x, _, rfl⟩ := hb
    unfold stepHashable
    split <;> simp_all

/-! ### non-vacuity: concrete histories on which the hypotheses hold and the conclusions bite -/

private def cA : Bytes := [8, 1, 0x61]
private def cB : Bytes := [8, 1, 0x62]
private def cC : Bytes := [8, 1, 0x63]
/-- `/a ↦ 1`, `/a/b ↦ 2`, duplicate attach at `/a` (refused), `/c ↦ 4` then detached -/
private def demo : List Op :=
  [.attach [cA] (some 1), .attach [cA, cB] (some 2), .attach [cA] (some 3), .attach [cC] (some 4), .detach [cC]]

private theorem demo_proper : Proper demo := by
  intro p h; simp [demo] at h

example : onInterest (fibAfter demo) [cA, cB, cC] = .deliver [cA, cB] 2 := by decide
example : onInterest (fibAfter demo) [cA, cC] = .deliver [cA] 1 := by decide
example : onInterest (fibAfter demo) [cC, cA] = .noRoute := by decide
example : IsLongestAttached (attached demo) [cA, cB, cC] [cA, cB] ∧ attached demo [cA, cB] = some 2 :=
  (dispatch_longest demo demo_proper _ _ _).mp (by decide)
example : (run [] demo).2 = [.ok, .ok, .err .valueError, .ok, .ok] := by decide
example : (attached demo [cA]).isSome := by
  rw [← table_refines]; decide
example : step (fibAfter demo) (.attach [cA] (some 9)) = (fibAfter demo, .err .valueError) :=
  attach_dup_refused demo _ _ (by rw [← table_refines]; decide)
example : attached demo [cC] = none := by
  rw [← table_refines]; decide
example : (step (fibAfter demo) (.detach [cC])).2 = .err .keyError := by decide
/-- detaching `/a/b`: `/a/b/c` falls back to `/a`, while `/a/c` (served by the shorter prefix) is untouched -/
example : onInterest (fibAfter (demo ++ [.detach [cA, cB]])) [cA, cB, cC] = .deliver [cA] 1 := by decide
example : onInterest (fibAfter (demo ++ [.detach [cA, cB]])) [cA, cC] = onInterest (fibAfter demo) [cA, cC] :=
  detach_frame demo demo_proper _ _ (by
    intro h e
    rw [show onInterest (fibAfter demo) [cA, cC] = .deliver [cA] 1 by decide] at e
    simp at e)
/-- detaching `/a`: names under the longer prefix `/a/b` are untouched -/
example : onInterest (fibAfter (demo ++ [.detach [cA]])) [cA, cB, cC] = .deliver [cA, cB] 2 := by decide
/-- a `None` handler masks shorter prefixes (why `Proper` is a hypothesis) -/
example : onInterest (fibAfter [.attach [cA] (some 1), .attach [cA, cB] none]) [cA, cB, cC] = .noCallback [cA, cB] := by
  decide
example : reply true (mkPending 1000 (some 100) none) 1100 [6, 0] = .ok (true, [[6, 0]]) := by rfl
example : reply true (mkPending 1000 (some 100) none) 1101 [6, 0] = .ok (false, []) := by rfl
example : reply true (mkPending 1000 none (some [0xab])) 5000 [6, 0] = .ok (true, [[0x64, 7, 0x62, 1, 0xab, 0x50, 2, 6, 0]]) := by
  rfl
example : trieKey [⟨.bytearray, cA⟩, ⟨.rwView, cB⟩] = trieKey [⟨.roView, cA⟩, ⟨.bytes, cB⟩] := by decide
example : pathFromKey [⟨.roMutView, cA⟩] = [⟨.bytes, cA⟩] := by decide

/-! ### what the model takes from the source text

`Ndn.Gen.C04` (lean/NdnGen/C04.lean) is regenerated from `src/ndn/appv2.py`, `src/ndn/app.py`,
`src/ndn/app_support/dispatcher.py` and `src/ndn/name_tree.py` by every check run (`harness/props/pit_extract.py`,
`ast` only).  `Fib.mkPending` and `Fib.reply` compute with its default lifetime, its default-substitution shape and its
comparison operator, so `reply_truthful`, `reply_payload` and `reply_deadline_is_lifetime` are theorems about the
generated values (pinned by `gen_reply_deadline` in `NdnProofs/Lemmas/Fib.lean`, on which every theorem here is
built); the shapes the model mirrors structurally are pinned here, entry by entry. -/

/-- a late reply returns `False`, a transmitted one `True` (with the repair of finding F7) -/
theorem gen_reply_returns :
    Gen.C04.reply.lateReturns = "False" ∧ Gen.C04.reply.successReturns = "True" := by decide

/-- what `reply` writes: the packet, or `_put_raw_packet_with_pit_token` when the Interest carried a PIT token; both
    raise NetworkError while the face is down -/
theorem gen_reply_send :
    Gen.C04.reply.send = "{if pit_token is None: self._put_raw_packet(data) else: self._put_raw_packet_with_pit_token(data, pit_token)}" ∧
    Gen.C04.reply.sendRequiresRunning = true := by decide

/-- attach (`Fib.attach`): `setdefault` of a fresh node, refused with ValueError iff `node.callback` is truthy -
    `attach_handler`, `set_interest_filter` and `Dispatcher.register` alike -/
theorem gen_attach :
    Gen.C04.v2.attach = "setdefault(PrefixTreeNode()); if node.callback: raise ValueError; node.callback = arg" ∧
    Gen.C04.v1.attach = Gen.C04.v2.attach ∧ Gen.C04.disp.attach = Gen.C04.v2.attach := by decide

/-- detach (`Fib.detach`) is a plain `del` (KeyError when absent); the legacy `unregister` coroutine ignores that
    KeyError (`Fib.unregisterV1`) -/
theorem gen_detach :
    Gen.C04.v2.detach = "del" ∧ Gen.C04.v1.detach = "del" ∧ Gen.C04.disp.detach = "del" ∧
    Gen.C04.unregisterV1 = "del ignoring keyError" := by decide

/-- dispatch (`Fib.onInterest`, `Fib.dispatcherDispatch`): nothing happens without a route; a node whose callback is
    `None` is skipped by the applications and called by the Dispatcher -/
theorem gen_dispatch :
    Gen.C04.v2.noRoute = "not STEP" ∧ Gen.C04.v1.noRoute = "not STEP" ∧ Gen.C04.disp.noRoute = "not STEP" ∧
    Gen.C04.v2.noCallback = "node.callback is None" ∧ Gen.C04.v1.noCallback = "node.callback is None" ∧
    Gen.C04.disp.noCallback = "none" := by decide

/-- `NameTrie._path_from_key` (`Fib.pathFromKey`): read-only memoryviews of `bytes` objects are kept, everything else
    becomes `bytes` -/
theorem gen_path_from_key :
    Gen.C04.pathFromKey = "X if X.readonly and isinstance(X, memoryview) and isinstance(X.obj, bytes) else bytes(X)" := by decide

end Ndn.C04
