import NdnProofs.Lemmas.PacketParse
import NdnProofs.Lemmas.PacketParseInterest
import NdnProofs.Props.C01
import NdnProofs.Lemmas.Signers
/-!
# C02 — Signatures and parameter digests cover the specified bytes; tampering is detected

Everything is about `Ndn.Packet.makeData` / `makeInterest` / `parseData` and holds for every name, field
combination, payload, and signer behaviour.  Cryptography enters only as explicit hypotheses
(`Correct`, `Unforgeable`) — never as axioms; SHA-256 is an arbitrary function `H`.
-/
namespace Ndn.C02
open Ndn Ndn.Codec Ndn.Packet

/-- **sign_input_is_signed_portion_data.** For a signed Data the signer is handed exactly the encoded
    Name, MetaInfo, Content and SignatureInfo elements (`a ++ b ++ c ++ d`), and in the FINAL wire — after
    the reserved signature space was shrunk — those are precisely the bytes of the Data Value that precede
    the SignatureValue element. -/
theorem sign_input_is_signed_portion_data (name : List Bytes) (mi content sigInfo : Value) (s : SignerOut)
    (a b c d : Bytes)
    (ha : enc nameS (.name name) = .ok a) (hb : enc metaS mi = .ok b) (hc : enc contentS content = .ok c)
    (hd : enc dataSigInfoS sigInfo = .ok d)
    (hle : s.sig.length ≤ s.reserved) (hflex : s.sig.length = s.reserved ∨ s.reserved < 253)
    (hsize : (a ++ b ++ c ++ d).length + s.reserved + 12 < 2 ^ 64) :
    makeData name mi content sigInfo (some s) =
      .ok { wire := tlv 6 ((a ++ b ++ c ++ d) ++ tlv 23 s.sig), covered := [a ++ b ++ c ++ d] } := by
  have hp : encFields [nameS, metaS, contentS, dataSigInfoS] [.name name, mi, content, sigInfo]
      = .ok (a ++ b ++ c ++ d) := by
    simp [encFields, ha, hb, hc, hd, bind, Except.bind, pure, Except.pure, List.append_assoc]
  exact C01.make_data_wire name mi content sigInfo s _ hp hle hflex hsize

theorem concatB_append (x y : List Bytes) : concatB (x ++ y) = concatB x ++ concatB y := by
  induction x with
  | nil => rfl
  | cons h t ih => simp [concatB, ih]

theorem placeDigest_take : ∀ (l : List Bytes) (x d : Bytes),
    (placeDigest (l ++ [x]) l.length d).take l.length = l ∧
    (placeDigest (l ++ [x]) l.length d).drop (l.length + 1) = []
  | [], x, d => by simp [placeDigest]
  | c :: r, x, d => by
    have := placeDigest_take r x d
    simp [placeDigest, this.1, this.2]

/-- **sign_input_is_signed_portion_interest.** For a signed Interest (digest component appended) the
    signer is handed, in order: all name components except the ParametersSha256Digest component, then the
    encoded ApplicationParameters and InterestSignatureInfo — i.e. the Interest from ApplicationParameters
    up to, but excluding, the signature value. -/
theorem sign_input_is_signed_portion_interest (H : Bytes → Bytes) (name : List Bytes) (mid : List Value)
    (app sigInfo : Value) (s : SignerOut) (midB appB siB : Bytes)
    (hmid : encFields [.bool 33, .bool 18, linksS, .uint 10 (some 4), .uint 12 none, .uint 34 (some 1)] mid = .ok midB)
    (happ : enc (.bytes 36 false) app = .ok appB) (hsi : enc intSigInfoS sigInfo = .ok siB)
    (hle : s.sig.length ≤ s.reserved) (hflex : s.sig.length = s.reserved ∨ s.reserved < 253)
    (hr : s.reserved < 2 ^ 64)
    (hsize : (concatB (placeDigest (name ++ [digestPlaceholder]) name.length
        (H ((appB ++ siB) ++ tlv 46 s.sig)))).length + midB.length + (appB ++ siB).length + s.reserved + 64 < 2 ^ 64) :
    ∃ m, interestCore H name mid app sigInfo (some s) true none = .ok m ∧
      concatB m.covered = concatB name ++ appB ++ siB ∧
      m.digestCovered = appB ++ siB ++ tlv 46 s.sig ∧
      ∃ nameB, m.wire = tlv 5 (nameB ++ midB ++ (appB ++ siB ++ tlv 46 s.sig)) := by
  have htail : encFields [.bytes 36 false, intSigInfoS] [app, sigInfo] = .ok (appB ++ siB) := by
    simp [encFields, happ, hsi, bind, Except.bind, pure, Except.pure]
  have := C01.make_interest_wire H name mid app sigInfo s midB (appB ++ siB) hmid htail hle hflex hr
    _ _ rfl rfl hsize
  refine ⟨_, this, ?_, rfl, ⟨tlv 7 (concatB (placeDigest (name ++ [digestPlaceholder]) name.length
    (H ((appB ++ siB) ++ tlv 46 s.sig)))), by simp [List.append_assoc]⟩⟩
  have hp := placeDigest_take name digestPlaceholder (H ((appB ++ siB) ++ tlv 46 s.sig))
  simp only [nameChunks, hp.1, hp.2, concatB, List.isEmpty_nil, if_true, List.append_nil]
  by_cases he : (concatB name).isEmpty
  · have : concatB name = [] := by simpa using he
    simp [he, concatB, this]
  · simp [he, concatB, List.append_assoc]

/-- **digest_covers_params_to_end.** The bytes the ParametersSha256Digest is computed over are the
    encoded ApplicationParameters, SignatureInfo and the *final* (shrunk) SignatureValue element: the suffix
    of the Interest Value starting at ApplicationParameters.  (Restates the last two conjuncts of the
    previous theorem for the unsigned-but-parameterised and the signed case alike.) -/
theorem digest_covers_params_to_end (H : Bytes → Bytes) (name : List Bytes) (mid : List Value)
    (app sigInfo : Value) (s : SignerOut) (midB appB siB : Bytes)
    (hmid : encFields [.bool 33, .bool 18, linksS, .uint 10 (some 4), .uint 12 none, .uint 34 (some 1)] mid = .ok midB)
    (happ : enc (.bytes 36 false) app = .ok appB) (hsi : enc intSigInfoS sigInfo = .ok siB)
    (hle : s.sig.length ≤ s.reserved) (hflex : s.sig.length = s.reserved ∨ s.reserved < 253)
    (hr : s.reserved < 2 ^ 64)
    (hsize : (concatB (placeDigest (name ++ [digestPlaceholder]) name.length
        (H ((appB ++ siB) ++ tlv 46 s.sig)))).length + midB.length + (appB ++ siB).length + s.reserved + 64 < 2 ^ 64) :
    ∃ m nameB, interestCore H name mid app sigInfo (some s) true none = .ok m ∧
      m.wire = tlv 5 (nameB ++ midB ++ m.digestCovered) ∧
      m.finalName = placeDigest (name ++ [digestPlaceholder]) name.length (H m.digestCovered) := by
  have htail : encFields [.bytes 36 false, intSigInfoS] [app, sigInfo] = .ok (appB ++ siB) := by
    simp [encFields, happ, hsi, bind, Except.bind, pure, Except.pure]
  have := C01.make_interest_wire H name mid app sigInfo s midB (appB ++ siB) hmid htail hle hflex hr
    _ _ rfl rfl hsize
  exact ⟨_, tlv 7 (concatB (placeDigest (name ++ [digestPlaceholder]) name.length
    (H ((appB ++ siB) ++ tlv 46 s.sig)))), this, by simp [List.append_assoc], rfl⟩

/-- **covered_end_is_sigvalue_offset.** In a Data Value `p ++ tlv 23 sig ++ R` whose prefix `p` holds no
    SignatureValue element, the offset at which the parser ends the covered range is `|p|`. -/
theorem covered_end_is_sigvalue_offset (p sig R : Bytes) (hp : SeqWithout 23 p) (hs : sig.length < 2 ^ 64) :
    offsetOfType ((p ++ (tlv 23 sig ++ R)).length + 1) (p ++ (tlv 23 sig ++ R)) 0 23 = some p.length := by
  have := offsetOfType_skip 23 (by decide) sig R hs hp ((p ++ (tlv 23 sig ++ R)).length + 1) 0
    (by simp; omega)
  simpa using this

/-- the Data field list is five OffsetMarker / ProcedureArgument pseudo-fields followed by the real ones -/
theorem dataFs_split : dataFs = List.replicate 5 Schema.marker ++ C01.dataValueFs := rfl

/-- **parsed_cover_is_signed_portion_data.** Parsing a made Data (`tlv DATA (p ++ tlv 23 sig)`, `p` the
    encoded Name … SignatureInfo) returns the fields that went in, reports exactly `p` as the covered range
    and exactly `sig` as the signature value: the bytes the verifier will check are the bytes that were
    signed. -/
theorem parsed_cover_is_signed_portion_data (name : List Bytes) (mi content sigInfo : Value) (sig p : Bytes)
    (hp : encFields [nameS, metaS, contentS, dataSigInfoS] [.name name, mi, content, sigInfo] = .ok p)
    (hfit : fitsFs [nameS, metaS, contentS, dataSigInfoS] [.name name, mi, content, sigInfo] = true)
    (hsize : (p ++ tlv 23 sig).length < 2 ^ 64) (hsig : sig.length < 2 ^ 64) :
    parseData (tlv 6 (p ++ tlv 23 sig)) =
      .ok (List.replicate 5 (Value.uint 0) ++ [.name name, mi, content, sigInfo, .bytes sig],
           { sigCovered := [p], sigValue := some sig, digestCovered := [], digestValue := none }) := by
  -- 1. the Value is the encoding of the five real fields
  have henc : enc (.bytes 23 false) (.bytes sig) = .ok (tlv 23 sig) := by simp [enc, tlvE, hsig]
  have h5 := encFields_append_one [nameS, metaS, contentS, dataSigInfoS] [.name name, mi, content, sigInfo]
    (.bytes 23 false) (.bytes sig) p (tlv 23 sig) rfl hp henc
  have hfit5 : fitsFs C01.dataValueFs [.name name, mi, content, sigInfo, .bytes sig] = true := by
    simp only [C01.dataValueFs, fitsFs, Bool.and_eq_true] at hfit ⊢
    refine ⟨hfit.1, hfit.2.1, hfit.2.2.1, hfit.2.2.2.1, ?_, trivial⟩
    simp [fits]
  -- 2. its elements, with the marker-aware scan loop
  obtain ⟨items, hok, hencI, hfold⟩ := rt_suffix (List.replicate 5 Schema.marker) C01.dataValueFs _ _
    (by decide) (by decide) hfit5 h5
  have hne : items ≠ [] := by
    intro e; subst e
    simp only [encItems] at hencI
    have := congrArg List.length hencI
    simp [tlv_length] at this
    have := tlNumSize_pos 23; omega
  obtain ⟨it, r, rfl⟩ := List.exists_cons_of_ne_nil hne
  simp only [List.length_replicate] at hok
  have hparse : parse dataFs false (p ++ tlv 23 sig) =
      .ok (List.replicate 5 (Value.uint 0) ++ [.name name, mi, content, sigInfo, .bytes sig]) := by
    have hl := loop_prefix_m dataFs false (by decide) [] (it :: r) ((p ++ tlv 23 sig).length + 1) 0 0
      (dataFs.map initVal) (ItemsOK_mono _ _ 5 0 (by omega) hok) (by rw [List.append_nil, hencI]; omega)
    rw [List.append_nil, hencI] at hl
    have hlead := runItems_lead 5 C01.dataValueFs (by decide) it r (List.replicate 5 Value.none)
      (C01.dataValueFs.map initVal) (by simp) hok
    have hd := hfold (List.replicate 5 (Value.uint 0)) (by simp)
    have hge := encItems_len_ge (it :: r)
    rw [hencI] at hge
    unfold parse
    rw [hl]
    have hfu : (p ++ tlv 23 sig).length + 1 - (it :: r).length
        = ((p ++ tlv 23 sig).length - (it :: r).length) + 1 := by omega
    rw [hfu]
    simp only [parseFields, List.isEmpty_nil, if_true]
    have e0 : dataFs.map initVal = List.replicate 5 Value.none ++ C01.dataValueFs.map initVal := rfl
    rw [e0, ← dataFs_split] at *
    rw [hlead, hd]
  -- 3. the packet-level decoder and the SignaturePtrs
  obtain ⟨p1, p2, s1, _, _⟩ := head_elem 6 (p ++ tlv 23 sig) [] (by decide) hsize
  simp only [List.append_nil] at p1 p2 s1
  have hck : parseAndCheckTl (tlv 6 (p ++ tlv 23 sig)) 6 = .ok (p ++ tlv 23 sig) := by
    unfold parseAndCheckTl
    simp only [p1, p2, bind, Except.bind, ne_eq, not_true_eq_false, if_false, tlv_length, s1]
    rfl
  have hany : ∀ (a : List Schema) (b : List Value), anyPresent a b [] = false := by
    intro a
    induction a with
    | nil => intro b; simp [anyPresent]
    | cons s ss ih =>
      intro b
      cases b with
      | nil => simp [anyPresent]
      | cons v vs' => simp only [anyPresent, ih]; cases s.typ <;> simp
  have hdec : decodePacket dataFs 6 false true [] (tlv 6 (p ++ tlv 23 sig)) =
      .ok (List.replicate 5 (Value.uint 0) ++ [.name name, mi, content, sigInfo, .bytes sig]) := by
    unfold decodePacket
    simp only [hck, hparse, bind, Except.bind, hany]
    simp [nameMissing, nameIdx, dataFs, nameS, isNone, List.replicate]
  -- the prefix holds no SignatureValue element
  have hseq : SeqWithout 23 p := by
    simp only [encFields] at hp
    obtain ⟨a, ha, h2⟩ := bind_ok hp
    obtain ⟨b', hb', h3⟩ := bind_ok h2
    simp only [pure, Except.pure] at h3
    obtain ⟨b, hb, h4⟩ := bind_ok hb'
    obtain ⟨c', hc', h5'⟩ := bind_ok h4
    obtain ⟨c, hc, h6⟩ := bind_ok hc'
    obtain ⟨d', hd', h7⟩ := bind_ok h6
    obtain ⟨d, hd, h8⟩ := bind_ok hd'
    simp only [pure, Except.pure, bind, Except.bind] at h3 h5' h7 h8
    cases h8; cases h7; cases h5'; cases h3
    refine (enc_seqWithout 23 nameS _ a rfl (by intro t' h; simp [nameS, Schema.typ] at h; omega)
      (by intro x _; decide) ha).append ?_
    refine (enc_seqWithout 23 metaS _ b rfl (by intro t' h; simp [metaS, Schema.typ] at h; omega)
      (by intro x h; simp [metaS] at h) hb).append ?_
    refine (enc_seqWithout 23 contentS _ c rfl (by intro t' h; simp [contentS, Schema.typ] at h; omega)
      (by intro x h; simp [contentS] at h) hc).append ?_
    refine (enc_seqWithout 23 dataSigInfoS _ d rfl
      (by intro t' h; simp [dataSigInfoS, Schema.typ] at h; omega)
      (by intro x h; simp [dataSigInfoS] at h) hd).append .nil
  have hoff := covered_end_is_sigvalue_offset p sig [] hseq hsig
  simp only [List.append_nil, List.length_append] at hoff
  unfold parseData
  simp only [hdec, hck, bind, Except.bind, pure, Except.pure]
  simp [bytesOf, markerOff, hoff, pySlice, List.replicate]

/-! ### ideal signature scheme (hypotheses, not axioms) -/

/-- the verifier accepts what the signer produced -/
def Correct (S : Scheme) : Prop := ∀ m, S.verify m (S.sign m) = true
/-- the verifier accepts nothing but the one (message, signature) pair the key holder produced -/
def Unforgeable (S : Scheme) (m s : Bytes) : Prop := ∀ m' s', S.verify m' s' = true → m' = m ∧ s' = s

/-- **verify_own.** Under `Correct`, the matching verifier accepts SignaturePtrs that report the signed
    bytes and the signature the signer wrote. -/
theorem verify_own (S : Scheme) (hc : Correct S) (p : Ptrs) (m : Bytes)
    (hcov : concatB p.sigCovered = m) (hsv : p.sigValue = some (S.sign m)) : verifyPtrs S p = true := by
  simp [verifyPtrs, hsv, hcov, hc m]

/-- **tamper_rejected.** Under `Unforgeable`, SignaturePtrs of any parsed packet whose reported signed
    bytes or signature value differ from the signed packet's are rejected. -/
theorem tamper_rejected (S : Scheme) (m s : Bytes) (hu : Unforgeable S m s) (p : Ptrs)
    (hdiff : concatB p.sigCovered ≠ m ∨ p.sigValue ≠ some s) : verifyPtrs S p = false := by
  unfold verifyPtrs
  cases hv : p.sigValue with
  | none => rfl
  | some s' =>
    simp only []
    cases hver : S.verify (concatB p.sigCovered) s' with
    | false => rfl
    | true =>
      obtain ⟨h1, h2⟩ := hu _ _ hver
      rcases hdiff with h | h
      · exact absurd h1 h
      · rw [hv, h2] at h; exact absurd rfl h

/-- **params_digest_iff.** The parameters-digest check accepts exactly when a digest component is present
    (non-empty), there are covered bytes, and the component equals `H` of them. -/
theorem params_digest_iff (H : Bytes → Bytes) (p : Ptrs) :
    paramsCheck H p = true ↔
      ∃ d, p.digestValue = some d ∧ d ≠ [] ∧ p.digestCovered ≠ [] ∧ H (concatB p.digestCovered) = d := by
  unfold paramsCheck
  cases hd : p.digestValue with
  | none => simp
  | some d =>
    simp only [Bool.and_eq_true, Bool.not_eq_true', beq_iff_eq, Option.some.injEq, exists_eq_left']
    constructor
    · rintro ⟨⟨h1, h2⟩, h3⟩
      exact ⟨by intro e; simp [e] at h2, by intro e; simp [e] at h1, h3⟩
    · rintro ⟨h1, h2, h3⟩
      refine ⟨⟨?_, ?_⟩, h3⟩
      · cases hx : p.digestCovered with
        | nil => exact absurd hx h2
        | cons _ _ => rfl
      · cases d with
        | nil => exact absurd rfl h1
        | cons _ _ => rfl

/-! ### the ranges `parse_interest` reports for a made Interest -/

/-- **parsed_cover_is_signed_portion_interest.** Parsing a made signed Interest (digest component
    appended) reports as signature-covered parts all name components except the ParametersSha256Digest
    component followed by ApplicationParameters and SignatureInfo — byte for byte what the signer was
    handed —, as signature value the signature the signer wrote, as digest-covered range
    ApplicationParameters … end of the (shrunk) Interest, and as digest value the `H` of exactly that range.
    Hypotheses as in `sign_input_is_signed_portion_interest`, plus: name components are single TLV elements
    and none is a digest component, the values are legal for their fields, `H` yields 32 bytes. -/
theorem parsed_cover_is_signed_portion_interest (H : Bytes → Bytes) (name : List Bytes) (mid : List Value)
    (app sigInfo : Value) (s : SignerOut) (midB appB siB : Bytes)
    (hmid : encFields [.bool 33, .bool 18, linksS, .uint 10 (some 4), .uint 12 none, .uint 34 (some 1)] mid = .ok midB)
    (happ : enc (.bytes 36 false) app = .ok appB) (hsi : enc intSigInfoS sigInfo = .ok siB)
    (hle : s.sig.length ≤ s.reserved) (hflex : s.sig.length = s.reserved ∨ s.reserved < 253)
    (hr : s.reserved < 2 ^ 64)
    (hname : name.all compOk = true) (hnd : ∀ c ∈ name, isDigestComp c = false)
    (hfitmid : fitsFs [.bool 33, .bool 18, linksS, .uint 10 (some 4), .uint 12 none, .uint 34 (some 1)] mid = true)
    (hfittail : fitsFs [.bytes 36 false, intSigInfoS] [app, sigInfo] = true)
    (hH : (H (appB ++ siB ++ tlv 46 s.sig)).length = 32)
    (hsize : (concatB (name ++ [2 :: 32 :: H (appB ++ siB ++ tlv 46 s.sig)])).length + midB.length +
        (appB ++ siB).length + s.reserved + 64 < 2 ^ 64) :
    ∃ m vals ptrs, interestCore H name mid app sigInfo (some s) true none = .ok m ∧
      parseInterest m.wire = .ok (vals, ptrs) ∧
      concatB ptrs.sigCovered = concatB name ++ appB ++ siB ∧
      concatB ptrs.sigCovered = concatB m.covered ∧
      ptrs.sigValue = some s.sig ∧
      ptrs.digestCovered = [appB ++ siB ++ tlv 46 s.sig] ∧
      ptrs.digestCovered = [m.digestCovered] ∧
      ptrs.digestValue = some (H (appB ++ siB ++ tlv 46 s.sig)) := by
  have htail : encFields [.bytes 36 false, intSigInfoS] [app, sigInfo] = .ok (appB ++ siB) := by
    simp [encFields, happ, hsi, bind, Except.bind, pure, Except.pure]
  have hpd := placeDigest_appended name (H ((appB ++ siB) ++ tlv 46 s.sig))
  have hw := C01.make_interest_wire H name mid app sigInfo s midB (appB ++ siB) hmid htail hle hflex hr
    _ _ rfl hpd.symm hsize
  have hsz : (tlv 7 (concatB (name ++ [2 :: 32 :: H (appB ++ siB ++ tlv 46 s.sig)])) ++ midB ++ (appB ++ siB) ++
      tlv 46 s.sig).length < 2 ^ 64 := by
    simp only [List.length_append, tlv_length] at hsize ⊢
    have h7 : tlNumSize 7 = 1 := by decide
    have h46 : tlNumSize 46 = 1 := by decide
    have := tlNumSize_cases (concatB (name ++ [2 :: 32 :: H (appB ++ siB ++ tlv 46 s.sig)])).length
    have := tlNumSize_cases s.sig.length
    omega
  have hp := parseInterest_signed name _ mid app sigInfo s.sig midB (appB ++ siB) hmid htail hname hnd hH
    hfitmid hfittail (by omega) hsz
  have hcov : concatB (name ++ [appB ++ siB]) = concatB name ++ appB ++ siB := by
    rw [concatB_append]; simp [concatB, List.append_assoc]
  refine ⟨_, _, _, hw, hp, hcov, ?_, rfl, rfl, rfl, rfl⟩
  rw [hcov]
  -- the chunks handed to the signer
  have ht := placeDigest_take name digestPlaceholder (H ((appB ++ siB) ++ tlv 46 s.sig))
  rw [hpd] at ht
  simp only [nameChunks, ht.1, ht.2, concatB, List.isEmpty_nil, if_true, List.append_nil]
  by_cases he : (concatB name).isEmpty
  · have : concatB name = [] := by simpa using he
    simp [concatB, this]
  · simp [he, concatB, List.append_assoc]

/-- **own_interest_passes_digest_check.** `params_sha256_checker` accepts the SignaturePtrs that
    `parse_interest` reports for a made signed Interest. -/
theorem own_interest_passes_digest_check (H : Bytes → Bytes) (name : List Bytes) (mid : List Value)
    (app sigInfo : Value) (s : SignerOut) (midB appB siB : Bytes)
    (hmid : encFields [.bool 33, .bool 18, linksS, .uint 10 (some 4), .uint 12 none, .uint 34 (some 1)] mid = .ok midB)
    (happ : enc (.bytes 36 false) app = .ok appB) (hsi : enc intSigInfoS sigInfo = .ok siB)
    (hle : s.sig.length ≤ s.reserved) (hflex : s.sig.length = s.reserved ∨ s.reserved < 253)
    (hr : s.reserved < 2 ^ 64)
    (hname : name.all compOk = true) (hnd : ∀ c ∈ name, isDigestComp c = false)
    (hfitmid : fitsFs [.bool 33, .bool 18, linksS, .uint 10 (some 4), .uint 12 none, .uint 34 (some 1)] mid = true)
    (hfittail : fitsFs [.bytes 36 false, intSigInfoS] [app, sigInfo] = true)
    (hH : (H (appB ++ siB ++ tlv 46 s.sig)).length = 32)
    (hsize : (concatB (name ++ [2 :: 32 :: H (appB ++ siB ++ tlv 46 s.sig)])).length + midB.length +
        (appB ++ siB).length + s.reserved + 64 < 2 ^ 64) :
    ∃ m vals ptrs, interestCore H name mid app sigInfo (some s) true none = .ok m ∧
      parseInterest m.wire = .ok (vals, ptrs) ∧ paramsCheck H ptrs = true := by
  obtain ⟨m, vals, ptrs, h1, h2, _, _, _, h6, _, h8⟩ :=
    parsed_cover_is_signed_portion_interest H name mid app sigInfo s midB appB siB hmid happ hsi hle hflex hr
      hname hnd hfitmid hfittail hH hsize
  refine ⟨m, vals, ptrs, h1, h2, ?_⟩
  rw [params_digest_iff]
  refine ⟨_, h8, ?_, by rw [h6]; simp, by rw [h6]; simp [concatB]⟩
  intro e; rw [e] at hH; simp at hH

/-- **own_interest_verifies.** Under `Correct`, when the signer wrote `S.sign` of what it was handed, the
    matching verifier accepts the SignaturePtrs `parse_interest` reports for the made Interest. -/
theorem own_interest_verifies (S : Scheme) (hc : Correct S) (H : Bytes → Bytes) (name : List Bytes)
    (mid : List Value) (app sigInfo : Value) (s : SignerOut) (midB appB siB : Bytes)
    (hmid : encFields [.bool 33, .bool 18, linksS, .uint 10 (some 4), .uint 12 none, .uint 34 (some 1)] mid = .ok midB)
    (happ : enc (.bytes 36 false) app = .ok appB) (hsi : enc intSigInfoS sigInfo = .ok siB)
    (hle : s.sig.length ≤ s.reserved) (hflex : s.sig.length = s.reserved ∨ s.reserved < 253)
    (hr : s.reserved < 2 ^ 64)
    (hname : name.all compOk = true) (hnd : ∀ c ∈ name, isDigestComp c = false)
    (hfitmid : fitsFs [.bool 33, .bool 18, linksS, .uint 10 (some 4), .uint 12 none, .uint 34 (some 1)] mid = true)
    (hfittail : fitsFs [.bytes 36 false, intSigInfoS] [app, sigInfo] = true)
    (hH : (H (appB ++ siB ++ tlv 46 s.sig)).length = 32)
    (hsize : (concatB (name ++ [2 :: 32 :: H (appB ++ siB ++ tlv 46 s.sig)])).length + midB.length +
        (appB ++ siB).length + s.reserved + 64 < 2 ^ 64)
    (hsigned : s.sig = S.sign (concatB name ++ appB ++ siB)) :
    ∃ m vals ptrs, interestCore H name mid app sigInfo (some s) true none = .ok m ∧
      parseInterest m.wire = .ok (vals, ptrs) ∧ verifyPtrs S ptrs = true := by
  obtain ⟨m, vals, ptrs, h1, h2, h3, _, h5, _⟩ :=
    parsed_cover_is_signed_portion_interest H name mid app sigInfo s midB appB siB hmid happ hsi hle hflex hr
      hname hnd hfitmid hfittail hH hsize
  exact ⟨m, vals, ptrs, h1, h2, verify_own S hc ptrs _ h3 (by rw [h5, hsigned])⟩

/-- **parsed_digest_cover_params_interest.** For an unsigned Interest that carries ApplicationParameters
    the parser reports no signature value, the name components except the digest component as the only
    covered parts, ApplicationParameters … end as the digest-covered range and `H` of it as digest value;
    `params_sha256_checker` accepts. -/
theorem parsed_digest_cover_params_interest (H : Bytes → Bytes) (name : List Bytes) (mid : List Value)
    (app sigInfo : Value) (midB tailA : Bytes)
    (hmid : encFields [.bool 33, .bool 18, linksS, .uint 10 (some 4), .uint 12 none, .uint 34 (some 1)] mid = .ok midB)
    (htail : encFields [.bytes 36 false, intSigInfoS] [app, sigInfo] = .ok tailA)
    (hname : name.all compOk = true) (hnd : ∀ c ∈ name, isDigestComp c = false)
    (hfitmid : fitsFs [.bool 33, .bool 18, linksS, .uint 10 (some 4), .uint 12 none, .uint 34 (some 1)] mid = true)
    (hfittail : fitsFs [.bytes 36 false, intSigInfoS] [app, sigInfo] = true)
    (hne : tailA ≠ []) (hH : (H tailA).length = 32)
    (hsize : (concatB (name ++ [2 :: 32 :: H tailA])).length + midB.length + tailA.length + 64 < 2 ^ 64) :
    ∃ m vals ptrs, interestCore H name mid app sigInfo none true none = .ok m ∧
      parseInterest m.wire = .ok (vals, ptrs) ∧
      ptrs.sigValue = none ∧ ptrs.sigCovered = name ∧
      ptrs.digestCovered = [tailA] ∧ ptrs.digestCovered = [m.digestCovered] ∧
      ptrs.digestValue = some (H tailA) ∧ paramsCheck H ptrs = true := by
  have hpd := placeDigest_appended name (H tailA)
  have hw := C01.make_interest_params_wire H name mid app sigInfo midB tailA hmid htail _ hpd.symm hsize
  have hsz : (tlv 7 (concatB (name ++ [2 :: 32 :: H tailA])) ++ midB ++ tailA).length < 2 ^ 64 := by
    simp only [List.length_append, tlv_length] at hsize ⊢
    have h7 : tlNumSize 7 = 1 := by decide
    have := tlNumSize_cases (concatB (name ++ [2 :: 32 :: H tailA])).length
    omega
  have hp := parseInterest_params name _ mid app sigInfo midB tailA hmid htail hname hnd hH hfitmid hfittail
    hne hsz
  refine ⟨_, _, _, hw, hp, rfl, rfl, rfl, rfl, rfl, ?_⟩
  rw [params_digest_iff]
  refine ⟨_, rfl, ?_, by simp, by simp [concatB]⟩
  intro e; rw [e] at hH; simp at hH

/-! ### the same for an Interest whose name already carries a caller-supplied digest placeholder

`make_interest` accepts a name `pre ++ [02 20 x] ++ post` that already holds ONE ParametersSha256Digest component
(34 bytes, `x` arbitrary) at any position and fills it in (`C01.make_interest_is_core_at`: `makeInterest` on such a
name is `interestCore … true (some pre.length)`).  The ranges are the same as with an appended component. -/

/-- **parsed_cover_is_signed_portion_interest_placeholder.** For a made signed Interest whose name carries a
    caller-supplied digest placeholder at ANY position: the final name is the given one with the placeholder's 32
    value bytes replaced by `H` of ApplicationParameters … end; `parse_interest` reports as signature-covered parts
    all name components except the digest component (`pre ++ post`) followed by ApplicationParameters and
    SignatureInfo — byte for byte what the signer was handed —, as signature value what the signer wrote, as
    digest-covered range ApplicationParameters … end of the (shrunk) Interest, and as digest value `H` of exactly
    that range. -/
theorem parsed_cover_is_signed_portion_interest_placeholder (H : Bytes → Bytes) (pre post : List Bytes) (x : Bytes)
    (mid : List Value) (app sigInfo : Value) (s : SignerOut) (midB appB siB : Bytes)
    (hmid : encFields [.bool 33, .bool 18, linksS, .uint 10 (some 4), .uint 12 none, .uint 34 (some 1)] mid = .ok midB)
    (happ : enc (.bytes 36 false) app = .ok appB) (hsi : enc intSigInfoS sigInfo = .ok siB)
    (hle : s.sig.length ≤ s.reserved) (hflex : s.sig.length = s.reserved ∨ s.reserved < 253)
    (hr : s.reserved < 2 ^ 64) (hx : x.length = 32)
    (hpre : pre.all compOk = true) (hpost : post.all compOk = true)
    (hndpre : ∀ c ∈ pre, isDigestComp c = false) (hndpost : ∀ c ∈ post, isDigestComp c = false)
    (hfitmid : fitsFs [.bool 33, .bool 18, linksS, .uint 10 (some 4), .uint 12 none, .uint 34 (some 1)] mid = true)
    (hfittail : fitsFs [.bytes 36 false, intSigInfoS] [app, sigInfo] = true)
    (hH : (H (appB ++ siB ++ tlv 46 s.sig)).length = 32)
    (hsize : (concatB (pre ++ (2 :: 32 :: H (appB ++ siB ++ tlv 46 s.sig)) :: post)).length + midB.length +
        (appB ++ siB).length + s.reserved + 64 < 2 ^ 64) :
    ∃ m vals ptrs,
      interestCore H (pre ++ (2 :: 32 :: x) :: post) mid app sigInfo (some s) true (some pre.length) = .ok m ∧
      parseInterest m.wire = .ok (vals, ptrs) ∧
      m.finalName = pre ++ (2 :: 32 :: H (appB ++ siB ++ tlv 46 s.sig)) :: post ∧
      concatB ptrs.sigCovered = concatB pre ++ concatB post ++ appB ++ siB ∧
      concatB ptrs.sigCovered = concatB m.covered ∧
      ptrs.sigValue = some s.sig ∧
      ptrs.digestCovered = [appB ++ siB ++ tlv 46 s.sig] ∧
      ptrs.digestCovered = [m.digestCovered] ∧
      ptrs.digestValue = some (H (appB ++ siB ++ tlv 46 s.sig)) := by
  have htail : encFields [.bytes 36 false, intSigInfoS] [app, sigInfo] = .ok (appB ++ siB) := by
    simp [encFields, happ, hsi, bind, Except.bind, pure, Except.pure]
  obtain ⟨m, hm, _, hparse⟩ := C01.parse_make_interest_placeholder H pre post x mid app sigInfo s midB (appB ++ siB)
    hmid htail hle hflex hr hx hpre hpost hndpre hndpost hfitmid hfittail _ _ rfl hH rfl hsize
  have hc' : pre ++ (2 :: 32 :: H (appB ++ siB ++ tlv 46 s.sig)) :: post =
      placeDigest (pre ++ (2 :: 32 :: x) :: post) pre.length (H (appB ++ siB ++ tlv 46 s.sig)) := by
    rw [placeDigest_placeholder pre post x _ hx]
  have hw := C01.make_interest_wire_at H _ pre.length mid app sigInfo s midB (appB ++ siB) hmid htail hle hflex hr
    _ _ rfl hc' hsize
  rw [hw] at hm
  cases hm
  have hcov : concatB (pre ++ post ++ [appB ++ siB]) = concatB pre ++ concatB post ++ appB ++ siB := by
    simp [concatB_app, concatB, List.append_assoc]
  refine ⟨_, _, _, hw, hparse, rfl, hcov, ?_, rfl, rfl, rfl, rfl⟩
  rw [hcov, concatB_app, concatB_nameChunks_at]
  simp [concatB, List.append_assoc]

/-- **own_interest_placeholder_passes_digest_check.** `params_sha256_checker` accepts the SignaturePtrs that
    `parse_interest` reports for a made signed Interest with a caller-supplied digest placeholder. -/
theorem own_interest_placeholder_passes_digest_check (H : Bytes → Bytes) (pre post : List Bytes) (x : Bytes)
    (mid : List Value) (app sigInfo : Value) (s : SignerOut) (midB appB siB : Bytes)
    (hmid : encFields [.bool 33, .bool 18, linksS, .uint 10 (some 4), .uint 12 none, .uint 34 (some 1)] mid = .ok midB)
    (happ : enc (.bytes 36 false) app = .ok appB) (hsi : enc intSigInfoS sigInfo = .ok siB)
    (hle : s.sig.length ≤ s.reserved) (hflex : s.sig.length = s.reserved ∨ s.reserved < 253)
    (hr : s.reserved < 2 ^ 64) (hx : x.length = 32)
    (hpre : pre.all compOk = true) (hpost : post.all compOk = true)
    (hndpre : ∀ c ∈ pre, isDigestComp c = false) (hndpost : ∀ c ∈ post, isDigestComp c = false)
    (hfitmid : fitsFs [.bool 33, .bool 18, linksS, .uint 10 (some 4), .uint 12 none, .uint 34 (some 1)] mid = true)
    (hfittail : fitsFs [.bytes 36 false, intSigInfoS] [app, sigInfo] = true)
    (hH : (H (appB ++ siB ++ tlv 46 s.sig)).length = 32)
    (hsize : (concatB (pre ++ (2 :: 32 :: H (appB ++ siB ++ tlv 46 s.sig)) :: post)).length + midB.length +
        (appB ++ siB).length + s.reserved + 64 < 2 ^ 64) :
    ∃ m vals ptrs,
      interestCore H (pre ++ (2 :: 32 :: x) :: post) mid app sigInfo (some s) true (some pre.length) = .ok m ∧
      parseInterest m.wire = .ok (vals, ptrs) ∧ paramsCheck H ptrs = true := by
  obtain ⟨m, vals, ptrs, h1, h2, _, _, _, _, h6, _, h8⟩ :=
    parsed_cover_is_signed_portion_interest_placeholder H pre post x mid app sigInfo s midB appB siB hmid happ hsi
      hle hflex hr hx hpre hpost hndpre hndpost hfitmid hfittail hH hsize
  refine ⟨m, vals, ptrs, h1, h2, ?_⟩
  rw [params_digest_iff]
  refine ⟨_, h8, ?_, by rw [h6]; simp, by rw [h6]; simp [concatB]⟩
  intro e; rw [e] at hH; simp at hH

/-- **own_interest_placeholder_verifies.** Under `Correct`, when the signer wrote `S.sign` of what it was handed
    (the name without the digest component, then ApplicationParameters and SignatureInfo), the matching verifier
    accepts the SignaturePtrs `parse_interest` reports for the made Interest with a caller-supplied placeholder. -/
theorem own_interest_placeholder_verifies (S : Scheme) (hc : Correct S) (H : Bytes → Bytes) (pre post : List Bytes)
    (x : Bytes) (mid : List Value) (app sigInfo : Value) (s : SignerOut) (midB appB siB : Bytes)
    (hmid : encFields [.bool 33, .bool 18, linksS, .uint 10 (some 4), .uint 12 none, .uint 34 (some 1)] mid = .ok midB)
    (happ : enc (.bytes 36 false) app = .ok appB) (hsi : enc intSigInfoS sigInfo = .ok siB)
    (hle : s.sig.length ≤ s.reserved) (hflex : s.sig.length = s.reserved ∨ s.reserved < 253)
    (hr : s.reserved < 2 ^ 64) (hx : x.length = 32)
    (hpre : pre.all compOk = true) (hpost : post.all compOk = true)
    (hndpre : ∀ c ∈ pre, isDigestComp c = false) (hndpost : ∀ c ∈ post, isDigestComp c = false)
    (hfitmid : fitsFs [.bool 33, .bool 18, linksS, .uint 10 (some 4), .uint 12 none, .uint 34 (some 1)] mid = true)
    (hfittail : fitsFs [.bytes 36 false, intSigInfoS] [app, sigInfo] = true)
    (hH : (H (appB ++ siB ++ tlv 46 s.sig)).length = 32)
    (hsize : (concatB (pre ++ (2 :: 32 :: H (appB ++ siB ++ tlv 46 s.sig)) :: post)).length + midB.length +
        (appB ++ siB).length + s.reserved + 64 < 2 ^ 64)
    (hsigned : s.sig = S.sign (concatB pre ++ concatB post ++ appB ++ siB)) :
    ∃ m vals ptrs,
      interestCore H (pre ++ (2 :: 32 :: x) :: post) mid app sigInfo (some s) true (some pre.length) = .ok m ∧
      parseInterest m.wire = .ok (vals, ptrs) ∧ verifyPtrs S ptrs = true := by
  obtain ⟨m, vals, ptrs, h1, h2, _, h3, _, h5, _⟩ :=
    parsed_cover_is_signed_portion_interest_placeholder H pre post x mid app sigInfo s midB appB siB hmid happ hsi
      hle hflex hr hx hpre hpost hndpre hndpost hfitmid hfittail hH hsize
  exact ⟨m, vals, ptrs, h1, h2, verify_own S hc ptrs _ h3 (by rw [h5, hsigned])⟩

/-- **parsed_digest_cover_params_interest_placeholder.** For an unsigned Interest with ApplicationParameters whose
    name carries a caller-supplied digest placeholder at any position: no signature value, the name components
    except the digest component as the only covered parts, ApplicationParameters … end as the digest-covered range
    and `H` of it as digest value (also written into the final name); `params_sha256_checker` accepts. -/
theorem parsed_digest_cover_params_interest_placeholder (H : Bytes → Bytes) (pre post : List Bytes) (x : Bytes)
    (mid : List Value) (app sigInfo : Value) (midB tailA : Bytes)
    (hmid : encFields [.bool 33, .bool 18, linksS, .uint 10 (some 4), .uint 12 none, .uint 34 (some 1)] mid = .ok midB)
    (htail : encFields [.bytes 36 false, intSigInfoS] [app, sigInfo] = .ok tailA) (hx : x.length = 32)
    (hpre : pre.all compOk = true) (hpost : post.all compOk = true)
    (hndpre : ∀ c ∈ pre, isDigestComp c = false) (hndpost : ∀ c ∈ post, isDigestComp c = false)
    (hfitmid : fitsFs [.bool 33, .bool 18, linksS, .uint 10 (some 4), .uint 12 none, .uint 34 (some 1)] mid = true)
    (hfittail : fitsFs [.bytes 36 false, intSigInfoS] [app, sigInfo] = true)
    (hne : tailA ≠ []) (hH : (H tailA).length = 32)
    (hsize : (concatB (pre ++ (2 :: 32 :: H tailA) :: post)).length + midB.length + tailA.length + 64 < 2 ^ 64) :
    ∃ m vals ptrs,
      interestCore H (pre ++ (2 :: 32 :: x) :: post) mid app sigInfo none true (some pre.length) = .ok m ∧
      parseInterest m.wire = .ok (vals, ptrs) ∧
      m.finalName = pre ++ (2 :: 32 :: H tailA) :: post ∧
      ptrs.sigValue = none ∧ ptrs.sigCovered = pre ++ post ∧
      ptrs.digestCovered = [tailA] ∧ ptrs.digestCovered = [m.digestCovered] ∧
      ptrs.digestValue = some (H tailA) ∧ paramsCheck H ptrs = true := by
  obtain ⟨m, hm, hfn, hparse⟩ := C01.parse_make_interest_params_placeholder H pre post x mid app sigInfo midB tailA
    hmid htail hx hpre hpost hndpre hndpost hfitmid hfittail hne hH _ rfl hsize
  have hc' : pre ++ (2 :: 32 :: H tailA) :: post =
      placeDigest (pre ++ (2 :: 32 :: x) :: post) pre.length (H tailA) := by
    rw [placeDigest_placeholder pre post x _ hx]
  have hw := C01.make_interest_params_wire_at H _ pre.length mid app sigInfo midB tailA hmid htail _ hc' hsize
  rw [hw] at hm
  cases hm
  refine ⟨_, _, _, hw, hparse, rfl, rfl, rfl, rfl, rfl, rfl, ?_⟩
  rw [params_digest_iff]
  refine ⟨_, rfl, ?_, by simp, by simp [concatB]⟩
  intro e; rw [e] at hH; simp at hH

/-! ### non-vacuity: a concrete signed Interest (shrinking signer: reserved 8, real 5; `H` constant) is made,
    parsed, and its reported ranges are the signer's input / the digest input -/
example :
    (do let m ← interestCore (fun _ => List.replicate 32 7) [[8, 1, 97]]
                  [.none, .bool, .none, .uint 5, .uint 4000, .none] (.bytes [120, 121])
                  (.model [.uint 3, .none, .none, .none, .none]) (some { reserved := 8, sig := [1, 2, 3, 4, 5] }) true none
        let (vs, p) ← parseInterest m.wire
        pure (m.covered, vs, p, paramsCheck (fun _ => List.replicate 32 7) p)) =
    .ok ([[8, 1, 97], [36, 2, 120, 121, 44, 3, 27, 1, 3]],
         List.replicate 7 (Value.uint 0) ++
           [Value.name [[8, 1, 97], 2 :: 32 :: List.replicate 32 7], .none, .bool, .none, .uint 5, .uint 4000, .none] ++
           [.uint 51, .uint 51, .bytes [120, 121], .model [.uint 3, .none, .none, .none, .none],
            .bytes [1, 2, 3, 4, 5], .none],
         { sigCovered := [[8, 1, 97], [36, 2, 120, 121, 44, 3, 27, 1, 3]], sigValue := some [1, 2, 3, 4, 5],
           digestCovered := [[36, 2, 120, 121, 44, 3, 27, 1, 3, 46, 5, 1, 2, 3, 4, 5]],
           digestValue := some (List.replicate 32 7) }, true) := by
  rfl

/-! ### non-vacuity: a signed Interest whose name carries a placeholder in the MIDDLE (shrinking signer) — the
    signer is handed the two name chunks around it and the parameters; the parser reports the same bytes -/
example :
    (do let m ← makeInterest (fun _ => List.replicate 32 7) [[8, 1, 97], 2 :: 32 :: List.replicate 32 0, [8, 1, 98]]
                  [.none, .bool, .none, .uint 5, .uint 4000, .none] (.bytes [120, 121])
                  (.model [.uint 3, .none, .none, .none, .none]) (some { reserved := 8, sig := [1, 2, 3, 4, 5] })
        let (_, p) ← parseInterest m.wire
        pure (m.covered, m.finalName, p, paramsCheck (fun _ => List.replicate 32 7) p)) =
    .ok ([[8, 1, 97], [8, 1, 98], [36, 2, 120, 121, 44, 3, 27, 1, 3]],
         [[8, 1, 97], 2 :: 32 :: List.replicate 32 7, [8, 1, 98]],
         { sigCovered := [[8, 1, 97], [8, 1, 98], [36, 2, 120, 121, 44, 3, 27, 1, 3]], sigValue := some [1, 2, 3, 4, 5],
           digestCovered := [[36, 2, 120, 121, 44, 3, 27, 1, 3, 46, 5, 1, 2, 3, 4, 5]],
           digestValue := some (List.replicate 32 7) }, true) := by
  rfl

end Ndn.C02
