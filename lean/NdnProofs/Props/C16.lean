import NdnModel.CertTime
import NdnProofs.Lemmas.Calendar
import NdnProofs.Lemmas.PacketEnc
import NdnProofs.Props.C08
/-!
# C16 — Issued certificates are well-formed, correctly named and verifiable

Model: `Ndn.Cert.newCert` (security_v2.new_cert: Value encoded with reserved signature space, the outer
Type/Length written by hand around the Value minus the unused reserved bytes).  For every key name,
issuer id, version, public key, validity instants and every signer behaviour.

The validity period: `Ndn.Cert.Issue.instants` / `validity` (derive_cert, sign_req, self_sign over the calendar
model `Ndn.Calendar`: CPython's proleptic Gregorian ordinal arithmetic, `datetime + timedelta`, `replace(year=…)`,
`astimezone(UTC)`), `fmtInstant` (`_fmt_time`: year zero-padded to four digits + `strftime('%m%dT%H%M%S')`, years 0001..9999).  The tzinfo of an aware start
time is any function from wall-clock readings (and `fold`) to UTC offsets (`Calendar.Zone`): fixed-offset zones and
zones whose offset changes (daylight saving) alike.
-/
namespace Ndn.C16
open Ndn Ndn.Codec Ndn.Packet Ndn.Cert Ndn.Calendar

/-- **cert_wire.** The certificate is exactly
    `tlv DATA (Name ++ MetaInfo ++ Content ++ SignatureInfo ++ tlv SIGNATURE_VALUE sig)`: one well-formed
    Data element with exact, shortest Lengths for every signature length (also when the signature is
    shorter than the reserved space, across the 253 boundary of the outer Length), and its name is
    key-name / issuer-id / version. -/
theorem cert_wire (keyName : List Bytes) (issuer version pubKey : Bytes) (signerInfo : List Value)
    (nb na : Bytes) (s : SignerOut) (p : Bytes)
    (hp : encFields [nameS, metaS, contentS, certSigInfoS]
      [.name (keyName ++ [issuer, version]), certMeta, .bytes pubKey, certSigInfo signerInfo nb na] = .ok p)
    (hle : s.sig.length ≤ s.reserved) (hflex : s.sig.length = s.reserved ∨ s.reserved < 253)
    (hsize : p.length + s.reserved + 12 < 2 ^ 64) :
    newCert keyName issuer version pubKey signerInfo nb na s =
      .ok { wire := tlv 6 (p ++ tlv 23 s.sig), covered := [p], finalName := keyName ++ [issuer, version] } := by
  obtain ⟨junk, hsv, hj⟩ := sigValueElem_ok 23 s hle (by omega) hflex
  unfold newCert
  simp only [hp, bind, Except.bind, hsv]
  have hkeep : p ++ (writeTlNum 23 ++ writeTlNum s.sig.length ++ s.sig ++ junk)
      = (p ++ tlv 23 s.sig) ++ junk := by simp [tlv, List.append_assoc]
  have htake : ((p ++ tlv 23 s.sig) ++ junk).take (((p ++ tlv 23 s.sig) ++ junk).length - (s.reserved - s.sig.length))
      = p ++ tlv 23 s.sig := by
    rw [← hj]
    have : ((p ++ tlv 23 s.sig) ++ junk).length - junk.length = (p ++ tlv 23 s.sig).length := by
      simp only [List.length_append]; omega
    rw [this, List.take_left']; rfl
  rw [hkeep, htake]
  have hlen : ¬ (p ++ tlv 23 s.sig).length ≥ 2 ^ 64 := by
    have h2 := tlNumSize_cases s.sig.length
    have : tlNumSize 23 = 1 := by decide
    simp only [List.length_append, tlv_length]; omega
  rw [if_neg hlen]
  rfl

/-- **cert_name.** (restated) the certificate is named key-name / issuer-id / version. -/
theorem cert_name (keyName : List Bytes) (issuer version pubKey : Bytes) (signerInfo : List Value)
    (nb na : Bytes) (s : SignerOut) (m : Made)
    (h : newCert keyName issuer version pubKey signerInfo nb na s = .ok m) :
    m.finalName = keyName ++ [issuer, version] := by
  unfold newCert at h
  obtain ⟨p, _, h2⟩ := bind_ok h
  obtain ⟨⟨sv, shrink⟩, _, h3⟩ := bind_ok h2
  simp only [] at h3
  split at h3
  · cases h3
  · simp only [pure, Except.pure, Except.ok.injEq] at h3; subst h3; rfl

/-- **cert_signed_portion.** The issuing signer is handed exactly the encoded Name, MetaInfo (ContentType
    KEY, FreshnessPeriod 3600000), Content (= the public key) and SignatureInfo (with the ValidityPeriod) —
    the bytes of the certificate that precede its SignatureValue. -/
theorem cert_signed_portion (keyName : List Bytes) (issuer version pubKey : Bytes) (signerInfo : List Value)
    (nb na : Bytes) (s : SignerOut) (a b c d : Bytes)
    (ha : enc nameS (.name (keyName ++ [issuer, version])) = .ok a) (hb : enc metaS certMeta = .ok b)
    (hc : enc contentS (.bytes pubKey) = .ok c) (hd : enc certSigInfoS (certSigInfo signerInfo nb na) = .ok d)
    (hle : s.sig.length ≤ s.reserved) (hflex : s.sig.length = s.reserved ∨ s.reserved < 253)
    (hsize : (a ++ b ++ c ++ d).length + s.reserved + 12 < 2 ^ 64) :
    newCert keyName issuer version pubKey signerInfo nb na s =
      .ok { wire := tlv 6 ((a ++ b ++ c ++ d) ++ tlv 23 s.sig), covered := [a ++ b ++ c ++ d],
            finalName := keyName ++ [issuer, version] } := by
  have hp : encFields [nameS, metaS, contentS, certSigInfoS]
      [.name (keyName ++ [issuer, version]), certMeta, .bytes pubKey, certSigInfo signerInfo nb na]
      = .ok (a ++ b ++ c ++ d) := by
    simp [encFields, ha, hb, hc, hd, bind, Except.bind, pure, Except.pure, List.append_assoc]
  exact cert_wire keyName issuer version pubKey signerInfo nb na s _ hp hle hflex hsize

/-- the certificate Value field list without the marker pseudo-fields -/
def certValueFs : List Schema := [nameS, metaS, contentS, certSigInfoS, .bytes 23 false]

/-- **parse_cert_roundtrip.** Decoding the Value of an issued certificate returns the name, MetaInfo
    (KEY), the public key, the SignatureInfo with the validity period, and the signature that went in —
    for every key type and signature length. -/
theorem parse_cert_roundtrip (name : List Bytes) (pubKey : Bytes) (signerInfo : List Value) (nb na sig p : Bytes)
    (hp : encFields [nameS, metaS, contentS, certSigInfoS]
      [.name name, certMeta, .bytes pubKey, certSigInfo signerInfo nb na] = .ok p)
    (hfit : fitsFs [nameS, metaS, contentS, certSigInfoS]
      [.name name, certMeta, .bytes pubKey, certSigInfo signerInfo nb na] = true)
    (hsig : sig.length < 2 ^ 64) :
    parse certValueFs false (p ++ tlv 23 sig) =
      .ok [.name name, certMeta, .bytes pubKey, certSigInfo signerInfo nb na, .bytes sig] := by
  have henc : enc (.bytes 23 false) (.bytes sig) = .ok (tlv 23 sig) := by simp [enc, tlvE, hsig]
  have h5 := encFields_append_one [nameS, metaS, contentS, certSigInfoS]
    [.name name, certMeta, .bytes pubKey, certSigInfo signerInfo nb na]
    (.bytes 23 false) (.bytes sig) p (tlv 23 sig) rfl hp henc
  have hfit5 : fitsFs certValueFs
      [.name name, certMeta, .bytes pubKey, certSigInfo signerInfo nb na, .bytes sig] = true := by
    simp only [certValueFs, fitsFs, Bool.and_eq_true] at hfit ⊢
    refine ⟨hfit.1, hfit.2.1, hfit.2.2.1, hfit.2.2.2.1, ?_, trivial⟩
    simp [fits]
  exact C08.parse_enc_roundtrip_partial certValueFs _ _ false (by decide) hfit5 h5

/-! ### validity encoding -/

theorem formatTime_length (y mo d h mi s : Nat) : (formatTime y mo d h mi s).length = 15 := by
  simp [formatTime, fmt4, fmt2]

theorem digit_toNat (n : Nat) : (digit n).toNat = 48 + n % 10 := by
  simp [digit, UInt8.toNat_ofNat']; omega

theorem digit_inj {a b : Nat} (h : digit a = digit b) : a % 10 = b % 10 := by
  have := congrArg UInt8.toNat h
  rw [digit_toNat, digit_toNat] at this; omega

/-- **formatTime_inj.** Two instants (years 0..9999, the other fields below 100) with the same
    `YYYYMMDDTHHMMSS` text have the same calendar fields: the encoding loses nothing. -/
theorem formatTime_inj (y mo d h mi s y' mo' d' h' mi' s' : Nat)
    (hy : y < 10000) (hy' : y' < 10000) (hmo : mo < 100) (hmo' : mo' < 100) (hd : d < 100) (hd' : d' < 100)
    (hh : h < 100) (hh' : h' < 100) (hmi : mi < 100) (hmi' : mi' < 100) (hs : s < 100) (hs' : s' < 100)
    (e : formatTime y mo d h mi s = formatTime y' mo' d' h' mi' s') :
    y = y' ∧ mo = mo' ∧ d = d' ∧ h = h' ∧ mi = mi' ∧ s = s' := by
  simp only [formatTime, fmt4, fmt2, List.cons_append, List.nil_append, List.cons.injEq, and_true] at e
  obtain ⟨e1, e2, e3, e4, e5, e6, e7, e8, _, e9, e10, e11, e12, e13, e14⟩ := e
  have := digit_inj e1; have := digit_inj e2; have := digit_inj e3; have := digit_inj e4
  have := digit_inj e5; have := digit_inj e6; have := digit_inj e7; have := digit_inj e8
  have := digit_inj e9; have := digit_inj e10; have := digit_inj e11; have := digit_inj e12
  have := digit_inj e13; have := digit_inj e14
  refine ⟨?_, ?_, ?_, ?_, ?_, ?_⟩ <;> omega

/-! ### the calendar -/

/-- **ord_ymd_roundtrip.** CPython's `_ymd2ord` and `_ord2ymd` are inverse bijections between the valid dates
    (year ≥ 1, month 1..12, day 1..days-in-month) and the ordinals ≥ 1, and the dates of the years 1..9999 are
    exactly the ordinals 1..`_MAXORDINAL`:
    `date.fromordinal(date(y, m, d).toordinal()) == date(y, m, d)` and `date.fromordinal(n).toordinal() == n`. -/
theorem ord_ymd_roundtrip :
    (∀ y m d, validYmd y m d → ord2ymd (ymd2ord y m d) = (y, m, d)) ∧
    (∀ n, 1 ≤ n → validYmd (ord2ymd n).1 (ord2ymd n).2.1 (ord2ymd n).2.2 ∧
      ymd2ord (ord2ymd n).1 (ord2ymd n).2.1 (ord2ymd n).2.2 = n) ∧
    (∀ y m d, validYmd y m d → y ≤ 9999 → 1 ≤ ymd2ord y m d ∧ ymd2ord y m d ≤ maxOrdinal) ∧
    (∀ n, 1 ≤ n → n ≤ maxOrdinal → (ord2ymd n).1 ≤ 9999) :=
  ⟨ord2ymd_ymd2ord, ord2ymd_sound,
   fun y m d h hy => ⟨by unfold ymd2ord; have := h.2.2.2.1; omega, ymd2ord_le_max y m d h hy⟩,
   ord2ymd_year_le⟩

/-- **addSeconds_spec.** `dt + timedelta(seconds=n)` (any integer `n`, negative or beyond a day) is the instant
    exactly `n` seconds later — ordinal * 86400 + second-of-day arithmetic, microsecond untouched — and raises
    `OverflowError` exactly when that instant is before 0001-01-01T00:00:00 or after 9999-12-31T23:59:59. -/
theorem addSeconds_spec (t : Instant) (n : Int) (ht : t.valid) :
    (∀ t', addSeconds t n = .ok t' ↔ t'.valid ∧ t'.abs = t.abs + n ∧ t'.us = t.us) ∧
    (∀ e, addSeconds t n = .error e ↔
      e = .overflowError ∧ (t.abs + n < 86400 ∨ (maxOrdinal + 1) * 86400 ≤ t.abs + n)) := by
  refine ⟨fun t' => addSeconds_ok_iff t t' n ht, fun e => ⟨fun h => ?_, ?_⟩⟩
  · have := addSeconds_error t n e h
    subst this
    exact ⟨rfl, (addSeconds_error_iff t n ht).1 h⟩
  · rintro ⟨rfl, h⟩; exact (addSeconds_error_iff t n ht).2 h

/-- **addYears_spec.** `dt.replace(year=dt.year + k)` keeps month, day, time of day and microsecond, and raises
    `ValueError` exactly when the year would exceed 9999 or the date is 29 February and the target year is not
    a leap year. -/
theorem addYears_spec (t : Instant) (k : Nat) (ht : t.valid) :
    (∀ t', addYears t k = .ok t' ↔
      ((ord2ymd t.ord).1 + k ≤ 9999 ∧
        ¬ ((ord2ymd t.ord).2.1 = 2 ∧ (ord2ymd t.ord).2.2 = 29 ∧ isLeap ((ord2ymd t.ord).1 + k) = false)) ∧
      t'.valid ∧ ord2ymd t'.ord = ((ord2ymd t.ord).1 + k, (ord2ymd t.ord).2.1, (ord2ymd t.ord).2.2) ∧
      t'.sec = t.sec ∧ t'.us = t.us) ∧
    (∀ e, addYears t k = .error e ↔ e = .valueError ∧
      (9999 < (ord2ymd t.ord).1 + k ∨
        ((ord2ymd t.ord).2.1 = 2 ∧ (ord2ymd t.ord).2.2 = 29 ∧ isLeap ((ord2ymd t.ord).1 + k) = false))) :=
  ⟨fun t' => addYears_ok_iff t t' k ht, fun e => addYears_error_iff t k e ht⟩

/-- **toUtc_spec.** `astimezone(UTC)` of a datetime whose tzinfo reports the offset `o` seconds for it is the valid
    instant with the same microsecond designating the same moment (a naive datetime is taken as it is); it raises
    exactly when that moment lies outside the years 1..9999, and then `OverflowError`. -/
theorem toUtc_spec (t : Instant) (off : Option Int) (ht : t.valid) :
    (∀ u, toUtc t off = .ok u ↔ u.valid ∧ u.abs = utcAbs t off ∧ u.us = t.us) ∧
    (∀ e, toUtc t off = .error e ↔ e = .overflowError ∧ ¬ representable (utcAbs t off)) :=
  ⟨fun u => toUtc_ok_iff t u off ht, fun e => toUtc_error_iff t off ht e⟩

/-! ### validity period = the requested instants -/

/-- **fmtInstant_inj.** The 15-character text determines the instant (to the second): two valid instants with
    the same `YYYYMMDDTHHMMSS` text have the same ordinal and second of the day. -/
theorem fmtInstant_inj (s t : Instant) (hs : s.valid) (ht : t.valid) (e : fmtInstant s = fmtInstant t) :
    s.ord = t.ord ∧ s.sec = t.sec := by
  have rs := fields_range s hs
  have rt := fields_range t ht
  unfold fmtInstant at e
  have := formatTime_inj _ _ _ _ _ _ _ _ _ _ _ _ (by omega) (by omega) (by omega) (by omega) (by omega) (by omega)
    (by omega) (by omega) (by omega) (by omega) (by omega) (by omega) e
  obtain ⟨e1, e2, e3, e4, e5, e6⟩ := this
  exact fields_inj s t hs ht (Prod.ext e1 (Prod.ext e2 (Prod.ext e3 (Prod.ext e4 (Prod.ext e5 e6)))))

theorem fmtInstant_abs_inj (s t : Instant) (hs : s.valid) (ht : t.valid) (e : fmtInstant s = fmtInstant t) :
    s.abs = t.abs := by
  obtain ⟨h1, h2⟩ := fmtInstant_inj s t hs ht e
  unfold Instant.abs; rw [h1, h2]

/-- **fmtInstant_form.** For every instant — all years 0001..9999, no restriction — the text is the 15-octet
    `YYYYMMDDThhmmss`: fifteen octets, the ninth is `T`, all others are decimal digits (the year zero-padded to
    four digits). -/
theorem fmtInstant_form (t : Instant) :
    (fmtInstant t).length = 15 ∧ (fmtInstant t)[8]? = some 84 ∧
    ∀ b ∈ fmtInstant t, b = 84 ∨ (48 ≤ b.toNat ∧ b.toNat ≤ 57) := by
  refine ⟨formatTime_length _ _ _ _ _ _, by simp [fmtInstant, formatTime, fmt4, fmt2], fun b hb => ?_⟩
  simp only [fmtInstant, formatTime, fmt4, fmt2, List.cons_append, List.nil_append, List.mem_cons, List.not_mem_nil,
    or_false] at hb
  rcases hb with h | h | h | h | h | h | h | h | h | h | h | h | h | h | h <;>
    first
    | (left; exact h)
    | (right; rw [h, digit_toNat]; omega)

theorem utcPair_ok_iff (a : Instant) (ao : Option Int) (b : Instant) (bo : Option Int) (s e : Instant) :
    utcPair a ao b bo = .ok (s, e) ↔ toUtc a ao = .ok s ∧ toUtc b bo = .ok e := by
  unfold utcPair
  simp only [bind, Except.bind, pure, Except.pure]
  cases toUtc a ao with
  | error x => simp
  | ok s' =>
    cases toUtc b bo with
    | error x => simp
    | ok e' => simp

theorem utcPair_error (a : Instant) (ao : Option Int) (b : Instant) (bo : Option Int) (ha : a.valid) (hb : b.valid)
    (x : PyErr) (h : utcPair a ao b bo = .error x) : x = .overflowError := by
  unfold utcPair at h
  simp only [bind, Except.bind, pure, Except.pure] at h
  cases h1 : toUtc a ao with
  | error y => rw [h1] at h; cases h; exact toUtc_error a ao ha _ h1
  | ok s' =>
    rw [h1] at h
    cases h2 : toUtc b bo with
    | error y => rw [h2] at h; cases h; exact toUtc_error b bo hb _ h2
    | ok e' => rw [h2] at h; cases h

/-- the moment the `start_time` handed to `derive_cert` designates, in seconds since ordinal 0 on the UTC scale:
    a naive reading is taken as UTC; an aware one is its wall-clock reading minus the offset its tzinfo — ANY
    function of the reading and its `fold` — reports for that reading -/
def startUtc (start : Instant) (fold : Bool) (zone : Option Zone) : Int :=
  utcAbs start (zone.map (fun z => z start fold))

theorem utc_offsets (off : Option Int) :
    off.map (fun _ => (0 : Int)) = none ∨ off.map (fun _ => (0 : Int)) = some 0 := by
  cases off <;> simp

/-- `derive_cert` = convert the start to UTC, add the duration there; the second conversion in `new_cert` changes
    nothing -/
theorem derive_unfold (start : Instant) (fold : Bool) (zone : Option Zone) (n : Int) (hst : start.valid) :
    (Issue.derive start fold zone n).instants =
      (match toUtc start (zone.map (fun z => z start fold)) with
       | .error x => .error x
       | .ok s =>
         match addSeconds s n with
         | .error x => .error x
         | .ok e => .ok (s, e)) := by
  simp only [Issue.instants, bind, Except.bind]
  cases h1 : toUtc start (zone.map fun z => z start fold) with
  | error x => rfl
  | ok s =>
    have hs := ((toUtc_ok_iff start s _ hst).1 h1).1
    simp only
    cases h2 : addSeconds s n with
    | error x => rfl
    | ok e =>
      have he := ((addSeconds_ok_iff s e n hs).1 h2).1
      simp only
      exact (utcPair_ok_iff s _ e _ s e).2 ⟨toUtc_id s hs _ (utc_offsets _), toUtc_id e he _ (utc_offsets _)⟩

/-- **derive_instants.** `derive_cert(…, start_time, expire_sec)` — start reading `start` with `fold`, naive or
    aware with ANY tzinfo `zone` (fixed offset or an offset that changes between readings, e.g. daylight saving) —
    writes a validity period for the UTC instants `s`, `e` iff `s` is the moment the start time designates
    (`start` minus the offset the zone reports for it) and `e` is exactly `expire_sec` seconds of elapsed time
    later, whatever the zone reports for any other reading.  It raises iff one of these two moments lies outside
    the years 1..9999, and then `OverflowError`. -/
theorem derive_instants (start : Instant) (fold : Bool) (zone : Option Zone) (n : Int) (hst : start.valid) :
    (∀ s e, (Issue.derive start fold zone n).instants = .ok (s, e) ↔
      s.valid ∧ s.abs = startUtc start fold zone ∧ s.us = start.us ∧
      e.valid ∧ e.abs = startUtc start fold zone + n ∧ e.us = start.us) ∧
    (∀ x, (Issue.derive start fold zone n).instants = .error x ↔
      x = .overflowError ∧
        ¬ (representable (startUtc start fold zone) ∧ representable (startUtc start fold zone + n))) := by
  rw [derive_unfold start fold zone n hst]
  unfold startUtc
  refine ⟨fun s e => ?_, fun x => ?_⟩
  · cases h1 : toUtc start (zone.map fun z => z start fold) with
    | error y =>
      simp only
      constructor
      · intro h; cases h
      · rintro ⟨a, b, c, _⟩
        rw [(toUtc_ok_iff start s _ hst).2 ⟨a, b, c⟩] at h1; cases h1
    | ok s0 =>
      obtain ⟨hs0, hab0, hus0⟩ := (toUtc_ok_iff start s0 _ hst).1 h1
      simp only
      cases h2 : addSeconds s0 n with
      | error y =>
        simp only
        constructor
        · intro h; cases h
        · rintro ⟨a, b, c, d, e', f⟩
          have hs : s = s0 := by
            have := (toUtc_ok_iff start s _ hst).2 ⟨a, b, c⟩
            rw [h1] at this; cases this; rfl
          subst hs
          rw [(addSeconds_ok_iff s e n a).2 ⟨d, by omega, by omega⟩] at h2; cases h2
      | ok e0 =>
        obtain ⟨he0, hab1, hus1⟩ := (addSeconds_ok_iff s0 e0 n hs0).1 h2
        simp only [Except.ok.injEq, Prod.mk.injEq]
        constructor
        · rintro ⟨rfl, rfl⟩; exact ⟨hs0, hab0, hus0, he0, by omega, by omega⟩
        · rintro ⟨a, b, c, d, e', f⟩
          have hs : s0 = s := by
            have := (toUtc_ok_iff start s _ hst).2 ⟨a, b, c⟩
            rw [h1] at this; cases this; rfl
          subst hs
          refine ⟨rfl, ?_⟩
          have := (addSeconds_ok_iff s0 e n hs0).2 ⟨d, by omega, by omega⟩
          rw [h2] at this; cases this; rfl
  · cases h1 : toUtc start (zone.map fun z => z start fold) with
    | error y =>
      obtain ⟨hy, hr⟩ := (toUtc_error_iff start _ hst y).1 h1
      simp only [Except.error.injEq]
      constructor
      · rintro rfl; exact ⟨hy, fun h => hr h.1⟩
      · rintro ⟨rfl, _⟩; exact hy
    | ok s0 =>
      obtain ⟨hs0, hab0, hus0⟩ := (toUtc_ok_iff start s0 _ hst).1 h1
      have hr0 := valid_representable s0 hs0
      simp only
      cases h2 : addSeconds s0 n with
      | error y =>
        have hy := addSeconds_error s0 n y h2
        subst hy
        have hout := (addSeconds_error_iff s0 n hs0).1 h2
        simp only [Except.error.injEq]
        constructor
        · rintro rfl
          refine ⟨rfl, fun h => ?_⟩
          have := h.2
          unfold representable at this; omega
        · rintro ⟨rfl, _⟩; rfl
      | ok e0 =>
        obtain ⟨he0, hab1, _⟩ := (addSeconds_ok_iff s0 e0 n hs0).1 h2
        have hr1 := valid_representable e0 he0
        simp only
        constructor
        · intro h; cases h
        · rintro ⟨_, hn⟩
          exfalso; apply hn
          rw [← hab0]
          exact ⟨hr0, by rw [← hab1]; exact hr1⟩

/-- **derive_zone_independent.** Two tzinfos that report the same offset for the start reading give the same
    validity period, whatever they report elsewhere: the duration is not measured on the wall clock. -/
theorem derive_zone_independent (start : Instant) (fold : Bool) (z z' : Zone) (n : Int)
    (h : z start fold = z' start fold) :
    (Issue.derive start fold (some z) n).instants = (Issue.derive start fold (some z') n).instants := by
  simp only [Issue.instants, Option.map, h]

/-- **validity_encodes_requested_instants.** When `derive_cert` produces a validity period (NotBefore, NotAfter),
    these are the `YYYYMMDDTHHMMSS` texts of the UTC instants `t` (the moment the start time designates:
    naive-as-UTC, or aware in ANY zone) and `t + expire_sec`, and — the text being injective — any pair of valid
    instants with these two texts are the requested moments, to the second: the validity period encodes exactly
    the requested instants, for every tzinfo. -/
theorem validity_encodes_requested_instants (start : Instant) (fold : Bool) (zone : Option Zone) (n : Int)
    (hst : start.valid) (nb na : Bytes) (h : (Issue.derive start fold zone n).validity = .ok (nb, na)) :
    ∃ s e : Instant, s.valid ∧ e.valid ∧ s.abs = startUtc start fold zone ∧ e.abs = startUtc start fold zone + n ∧
      nb = fmtInstant s ∧ na = fmtInstant e ∧
      ∀ s' e' : Instant, s'.valid → e'.valid → fmtInstant s' = nb → fmtInstant e' = na →
        s'.abs = startUtc start fold zone ∧ e'.abs = startUtc start fold zone + n := by
  unfold Issue.validity at h
  simp only [bind, Except.bind, pure, Except.pure] at h
  cases hi : (Issue.derive start fold zone n).instants with
  | error x => rw [hi] at h; cases h
  | ok se =>
    obtain ⟨s, e⟩ := se
    rw [hi] at h
    simp only [Except.ok.injEq, Prod.mk.injEq] at h
    obtain ⟨hs, hsa, _, he, hea, _⟩ := ((derive_instants start fold zone n hst).1 s e).1 hi
    refine ⟨s, e, hs, he, hsa, hea, h.1.symm, h.2.symm, fun s' e' hs' he' e1 e2 => ⟨?_, ?_⟩⟩
    · rw [← hsa]; exact fmtInstant_abs_inj s' s hs' hs (by rw [e1, h.1])
    · rw [← hea]; exact fmtInstant_abs_inj e' e he' he (by rw [e2, h.2])

/-- **validity_period_length.** The validity period `derive_cert` writes spans exactly `expire_sec` seconds of
    elapsed time, for every tzinfo of the start time. -/
theorem validity_period_length (start : Instant) (fold : Bool) (zone : Option Zone) (n : Int) (hst : start.valid)
    (s e : Instant) (h : (Issue.derive start fold zone n).instants = .ok (s, e)) : e.abs - s.abs = n := by
  obtain ⟨_, hsa, _, _, hea, _⟩ := ((derive_instants start fold zone n hst).1 s e).1 h
  omega

/-- the sum on the wall clock of the start time's zone (what `derive_cert` did before it converted the start to
    UTC first): `end_time = start_time + timedelta(seconds=expire_sec)` keeps the tzinfo, and `new_cert` converts
    each reading with the offset the zone reports for it — kept as a definition only to show that the theorems
    above tell the two apart -/
def wallClockSum (start : Instant) (fold : Bool) (z : Zone) (n : Int) : Except PyErr (Instant × Instant) := do
  let e ← addSeconds start n
  utcPair start (some (z start fold)) e (some (z e false))

/-- **req_instants.** `sign_req` with the two clock readings `now1`, `now2` (UTC): NotBefore is `now2`, NotAfter
    exactly 10 days after `now1`; `OverflowError` iff that is after 9999-12-31. -/
theorem req_instants (now1 now2 : Instant) (h1 : now1.valid) (h2 : now2.valid) :
    (∀ s e, (Issue.req now1 now2).instants = .ok (s, e) ↔
      s = now2 ∧ e.valid ∧ e.abs = now1.abs + 864000 ∧ e.us = now1.us) ∧
    (∀ x, (Issue.req now1 now2).instants = .error x ↔
      x = .overflowError ∧ (maxOrdinal + 1) * 86400 ≤ now1.abs + 864000) := by
  have h0 : ∀ t : Instant, t.valid → toUtc t (some 0) = .ok t := by
    intro t ht; rw [toUtc_ok_iff t t (some 0) ht]; exact ⟨ht, by simp [utcAbs], rfl⟩
  refine ⟨fun s e => ?_, fun x => ?_⟩
  · simp only [Issue.instants, bind, Except.bind]
    cases ha : addSeconds now1 (10 * 86400) with
    | error y =>
      simp only
      constructor
      · intro h; cases h
      · rintro ⟨_, hv, hab, hus⟩
        have := (addSeconds_ok_iff now1 e (10 * 86400) h1).2 ⟨hv, by omega, hus⟩
        rw [this] at ha; cases ha
    | ok el =>
      obtain ⟨hel, hab, hus⟩ := (addSeconds_ok_iff now1 el _ h1).1 ha
      simp only
      rw [utcPair_ok_iff now2 _ el _, h0 now2 h2, h0 el hel]
      simp only [Except.ok.injEq]
      constructor
      · rintro ⟨rfl, rfl⟩; exact ⟨rfl, hel, by omega, hus⟩
      · rintro ⟨rfl, hv, hab', hus'⟩
        refine ⟨rfl, ?_⟩
        obtain ⟨_, _, _, _⟩ := hv; obtain ⟨_, _, _, _⟩ := hel
        unfold Instant.abs at hab hab'
        apply Instant.ext' <;> omega
  · simp only [Issue.instants, bind, Except.bind]
    cases ha : addSeconds now1 (10 * 86400) with
    | error y =>
      have hy := addSeconds_error now1 _ y ha
      subst hy
      have := (addSeconds_error_iff now1 _ h1).1 ha
      simp only [Except.error.injEq]
      constructor
      · rintro rfl
        refine ⟨rfl, ?_⟩
        obtain ⟨_, _, _, _⟩ := h1
        unfold Instant.abs at *; omega
      · rintro ⟨rfl, _⟩; rfl
    | ok el =>
      obtain ⟨hel, hab, hus⟩ := (addSeconds_ok_iff now1 el _ h1).1 ha
      simp only
      constructor
      · intro h
        have := utcPair_error now2 _ el _ h2 hel x h
        exfalso
        have hp : utcPair now2 (some 0) el (some 0) = .ok (now2, el) :=
          (utcPair_ok_iff now2 _ el _ now2 el).2 ⟨h0 now2 h2, h0 el hel⟩
        rw [hp] at h; cases h
      · rintro ⟨_, hge⟩
        obtain ⟨_, a2, a3, _⟩ := hel
        unfold Instant.abs maxOrdinal at *; omega

theorem epoch_valid : epoch.valid := by decide

/-- **self_instants.** `self_sign` with the clock reading `now` (UTC): NotBefore is 1970-01-01T00:00:00, NotAfter
    the same month, day and time of day 20 years later — and the precise error case: `ValueError` iff the year
    would exceed 9999, or today is 29 February and the year 20 years on is not a leap year (2080 → 2100). -/
theorem self_instants (now : Instant) (hn : now.valid) :
    (∀ s e, (Issue.self now).instants = .ok (s, e) ↔
      s = epoch ∧ e.valid ∧
      ord2ymd e.ord = ((ord2ymd now.ord).1 + 20, (ord2ymd now.ord).2.1, (ord2ymd now.ord).2.2) ∧
      e.sec = now.sec ∧ e.us = now.us ∧
      ((ord2ymd now.ord).1 + 20 ≤ 9999 ∧
        ¬ ((ord2ymd now.ord).2.1 = 2 ∧ (ord2ymd now.ord).2.2 = 29 ∧ isLeap ((ord2ymd now.ord).1 + 20) = false))) ∧
    (∀ x, (Issue.self now).instants = .error x ↔ x = .valueError ∧
      (9999 < (ord2ymd now.ord).1 + 20 ∨
        ((ord2ymd now.ord).2.1 = 2 ∧ (ord2ymd now.ord).2.2 = 29 ∧ isLeap ((ord2ymd now.ord).1 + 20) = false))) := by
  have h0 : ∀ t : Instant, t.valid → toUtc t (some 0) = .ok t := by
    intro t ht; rw [toUtc_ok_iff t t (some 0) ht]; exact ⟨ht, by simp [utcAbs], rfl⟩
  refine ⟨fun s e => ?_, fun x => ?_⟩
  · simp only [Issue.instants, bind, Except.bind]
    cases ha : addYears now 20 with
    | error y =>
      simp only
      constructor
      · intro h; cases h
      · rintro ⟨_, hv, ho, hs, hu, hc⟩
        have := (addYears_ok_iff now e 20 hn).2 ⟨hc, hv, ho, hs, hu⟩
        rw [this] at ha; cases ha
    | ok el =>
      obtain ⟨hc, hel, ho, hs, hu⟩ := (addYears_ok_iff now el 20 hn).1 ha
      simp only
      rw [utcPair_ok_iff epoch none el _, h0 el hel]
      simp only [toUtc, Except.ok.injEq]
      constructor
      · rintro ⟨rfl, rfl⟩; exact ⟨rfl, hel, ho, hs, hu, hc⟩
      · rintro ⟨rfl, hv, ho', hs', hu', _⟩
        refine ⟨rfl, ?_⟩
        exact Instant.ext' (ord2ymd_inj _ _ hel.1 hv.1 (by rw [ho, ho'])) (by omega) (by omega)
  · simp only [Issue.instants, bind, Except.bind]
    cases ha : addYears now 20 with
    | error y =>
      simp only [Except.error.injEq]
      have := (addYears_error_iff now 20 y hn).1 ha
      constructor
      · rintro rfl; exact this
      · rintro ⟨rfl, _⟩; exact this.1
    | ok el =>
      obtain ⟨hc, hel, ho, hs, hu⟩ := (addYears_ok_iff now el 20 hn).1 ha
      simp only
      constructor
      · intro h
        exfalso
        have hp : utcPair epoch none el (some 0) = .ok (epoch, el) :=
          (utcPair_ok_iff epoch none el _ epoch el).2 ⟨rfl, h0 el hel⟩
        rw [hp] at h; cases h
      · rintro ⟨_, hor⟩
        rcases hor with h9 | hf
        · omega
        · exact absurd hf hc.2

/-- **issued_validity.** A certificate issued by `self_sign` / `sign_req` / `derive_cert` is `new_cert` applied to
    the NotBefore / NotAfter texts of the two instants above — so `cert_wire`, `cert_signed_portion` and
    `parse_cert_roundtrip` hold for it with these texts — and a calendar error surfaces unchanged. -/
theorem issued_validity (keyName : List Bytes) (issuer version pubKey : Bytes) (signerInfo : List Value)
    (i : Issue) (sg : SignerOut) :
    (∀ m, issueCert keyName issuer version pubKey signerInfo i sg = .ok m ↔
      ∃ s e, i.instants = .ok (s, e) ∧
        newCert keyName issuer version pubKey signerInfo (fmtInstant s) (fmtInstant e) sg = .ok m) ∧
    (∀ x, i.instants = .error x → issueCert keyName issuer version pubKey signerInfo i sg = .error x) := by
  refine ⟨fun m => ?_, fun x h => ?_⟩
  · unfold issueCert Issue.validity
    simp only [bind, Except.bind, pure, Except.pure]
    cases hi : i.instants with
    | error y => simp
    | ok se =>
      obtain ⟨s, e⟩ := se
      simp only [Except.ok.injEq, Prod.mk.injEq]
      constructor
      · intro h; exact ⟨s, e, ⟨rfl, rfl⟩, h⟩
      · rintro ⟨s', e', ⟨rfl, rfl⟩, h⟩; exact h
  · unfold issueCert Issue.validity
    simp only [bind, Except.bind, h]

/-! ### non-vacuity -/
example : formatTime 2024 2 29 23 59 7 = [50, 48, 50, 52, 48, 50, 50, 57, 84, 50, 51, 53, 57, 48, 55] := by decide
example : wfTop certValueFs = true := by decide
deriving instance DecidableEq for Except
-- the calendar on concrete dates: a leap day, the last day of the range, the epoch
example : ymd2ord 2024 2 29 = 738945 ∧ ord2ymd 738945 = (2024, 2, 29) := by decide +kernel
example : ord2ymd maxOrdinal = (9999, 12, 31) ∧ ord2ymd 1 = (1, 1, 1) := by decide +kernel
example : fmtInstant epoch = [49, 57, 55, 48, 48, 49, 48, 49, 84, 48, 48, 48, 48, 48, 48] := by decide +kernel
-- year 5: the year is written with four digits (0005-01-02T03:04:05)
example : fmtInstant ⟨ymd2ord 5 1 2, 11045, 0⟩ = "00050102T030405".toUTF8.toList := by decide +kernel
-- 2024-12-31T23:59:59 + 1 s = 2025-01-01T00:00:00; 23:30 at UTC+5:45 is 17:45 UTC; an hour before day 1 overflows
example : addSeconds ⟨739251, 86399, 7⟩ 1 = .ok ⟨739252, 0, 7⟩ := by rfl
example : toUtc ⟨739251, 84600, 0⟩ (some 20700) = .ok ⟨739251, 63900, 0⟩ := by rfl
example : addSeconds ⟨1, 0, 0⟩ (-3600) = .error .overflowError := by rfl
-- a zone whose offset changes: UTC-5 until the wall clock reads 02:00 on 2024-03-10 (ordinal 738955), UTC-4 after
def springForward : Zone := fun w _ => if w.abs < 738955 * 86400 + 7200 then -18000 else -14400
-- start 2024-03-10T01:00 in that zone (= 06:00Z), 7200 s: derive_cert writes 06:00Z .. 08:00Z, two hours of elapsed
-- time; the sum on the wall clock (01:00 + 2 h = 03:00 at UTC-4) would have ended the period at 07:00Z
example : (Issue.derive ⟨738955, 3600, 0⟩ false (some springForward) 7200).instants
    = .ok (⟨738955, 21600, 0⟩, ⟨738955, 28800, 0⟩) := by rfl
example : wallClockSum ⟨738955, 3600, 0⟩ false springForward 7200 = .ok (⟨738955, 21600, 0⟩, ⟨738955, 25200, 0⟩) := by rfl
example : (Issue.derive ⟨738955, 3600, 0⟩ false (some springForward) 7200).validity
    = .ok ("20240310T060000".toUTF8.toList, "20240310T080000".toUTF8.toList) := by decide +kernel
-- a start at the very end of the calendar in a zone ahead of UTC: 9999-12-31T23:00+14:00 + 3600 s ends 10:00Z
example : (Issue.derive ⟨maxOrdinal, 82800, 0⟩ false (some fun _ _ => 50400) 3600).instants
    = .ok (⟨maxOrdinal, 32400, 0⟩, ⟨maxOrdinal, 36000, 0⟩) := by rfl
-- the same reading taken as UTC: the end is past 9999-12-31T23:59:59
example : (Issue.derive ⟨maxOrdinal, 82800, 0⟩ false none 3600).instants = .error .overflowError := by rfl
-- self_sign on 29 February 2080: 2100 is not a leap year
example : (Issue.self ⟨ymd2ord 2080 2 29, 0, 0⟩).instants = .error .valueError := by rfl
example : (Issue.self ⟨ymd2ord 2024 2 29, 0, 0⟩).instants = .ok (epoch, ⟨ymd2ord 2044 2 29, 0, 0⟩) := by decide +kernel

end Ndn.C16
