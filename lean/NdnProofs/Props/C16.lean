import NdnModel.Cert
import NdnProofs.Lemmas.PacketEnc
import NdnProofs.Props.C08
/-!
# C16 — Issued certificates are well-formed, correctly named and verifiable

Model: `Ndn.Cert.newCert` (security_v2.new_cert: Value encoded with reserved signature space, the outer
Type/Length written by hand around the Value minus the unused reserved bytes).  For every key name,
issuer id, version, public key, validity instants and every signer behaviour.
-/
namespace Ndn.C16
open Ndn Ndn.Codec Ndn.Packet Ndn.Cert

/-- **cert_wire.** The certificate is exactly
    `tlv DATA (Name ++ MetaInfo ++ Content ++ SignatureInfo ++ tlv SIGNATURE_VALUE sig)`: one well-formed
    Data element with exact, shortest Lengths for every signature length (also when the signature is
    shorter than the reserved space, across the 253 boundary of the outer Length), and its name is
    key-name / issuer-id / version. -/
theorem cert_wire (keyName : List Bytes) (issuer version pubKey : Bytes) (signerInfo : List Value)
    (nb na : Bytes) (s : SignerOut) (p : Bytes)
    (hp : encFields [nameS, metaS, contentS, certSigInfoS]
      [.name (keyName ++ [issuer, version]), certMeta, .bytes pubKey, certSigInfo signerInfo nb na] = .ok p)
    (hle : s.sig.length ≤ s.reserved) (hflex : s.sig.length = s.reserved ∨ s.reserved < 253)
    (hsize : p.length + s.reserved + 12 < 2 ^ 64) :
    newCert keyName issuer version pubKey signerInfo nb na s =
      .ok { wire := tlv 6 (p ++ tlv 23 s.sig), covered := [p], finalName := keyName ++ [issuer, version] } := by
  obtain ⟨junk, hsv, hj⟩ := sigValueElem_ok 23 s hle (by omega) hflex
  unfold newCert
  simp only [hp, bind, Except.bind, hsv]
  have hkeep : p ++ (writeTlNum 23 ++ writeTlNum s.sig.length ++ s.sig ++ junk)
      = (p ++ tlv 23 s.sig) ++ junk := by simp [tlv, List.append_assoc]
  have htake : ((p ++ tlv 23 s.sig) ++ junk).take (((p ++ tlv 23 s.sig) ++ junk).length - (s.reserved - s.sig.length))
      = p ++ tlv 23 s.sig := by
    rw [← hj]
    have : ((p ++ tlv 23 s.sig) ++ junk).length - junk.length = (p ++ tlv 23 s.sig).length := by
      simp only [List.length_append]; omega
    rw [this, List.take_left']; rfl
  rw [hkeep, htake]
  have hlen : ¬ (p ++ tlv 23 s.sig).length ≥ 2 ^ 64 := by
    have h2 := tlNumSize_cases s.sig.length
    have : tlNumSize 23 = 1 := by decide
    simp only [List.length_append, tlv_length]; omega
  rw [if_neg hlen]
  rfl

/-- **cert_name.** (restated) the certificate is named key-name / issuer-id / version. -/
theorem cert_name (keyName : List Bytes) (issuer version pubKey : Bytes) (signerInfo : List Value)
    (nb na : Bytes) (s : SignerOut) (m : Made)
    (h : newCert keyName issuer version pubKey signerInfo nb na s = .ok m) :
    m.finalName = keyName ++ [issuer, version] := by
  unfold newCert at h
  obtain ⟨p, _, h2⟩ := bind_ok h
  obtain ⟨⟨sv, shrink⟩, _, h3⟩ := bind_ok h2
  simp only [] at h3
  split at h3
  · cases h3
  · simp only [pure, Except.pure, Except.ok.injEq] at h3; subst h3; rfl

/-- **cert_signed_portion.** The issuing signer is handed exactly the encoded Name, MetaInfo (ContentType
    KEY, FreshnessPeriod 3600000), Content (= the public key) and SignatureInfo (with the ValidityPeriod) —
    the bytes of the certificate that precede its SignatureValue. -/
theorem cert_signed_portion (keyName : List Bytes) (issuer version pubKey : Bytes) (signerInfo : List Value)
    (nb na : Bytes) (s : SignerOut) (a b c d : Bytes)
    (ha : enc nameS (.name (keyName ++ [issuer, version])) = .ok a) (hb : enc metaS certMeta = .ok b)
    (hc : enc contentS (.bytes pubKey) = .ok c) (hd : enc certSigInfoS (certSigInfo signerInfo nb na) = .ok d)
    (hle : s.sig.length ≤ s.reserved) (hflex : s.sig.length = s.reserved ∨ s.reserved < 253)
    (hsize : (a ++ b ++ c ++ d).length + s.reserved + 12 < 2 ^ 64) :
    newCert keyName issuer version pubKey signerInfo nb na s =
      .ok { wire := tlv 6 ((a ++ b ++ c ++ d) ++ tlv 23 s.sig), covered := [a ++ b ++ c ++ d],
            finalName := keyName ++ [issuer, version] } := by
  have hp : encFields [nameS, metaS, contentS, certSigInfoS]
      [.name (keyName ++ [issuer, version]), certMeta, .bytes pubKey, certSigInfo signerInfo nb na]
      = .ok (a ++ b ++ c ++ d) := by
    simp [encFields, ha, hb, hc, hd, bind, Except.bind, pure, Except.pure, List.append_assoc]
  exact cert_wire keyName issuer version pubKey signerInfo nb na s _ hp hle hflex hsize

/-- the certificate Value field list without the marker pseudo-fields -/
def certValueFs : List Schema := [nameS, metaS, contentS, certSigInfoS, .bytes 23 false]

/-- **parse_cert_roundtrip.** Decoding the Value of an issued certificate returns the name, MetaInfo
    (KEY), the public key, the SignatureInfo with the validity period, and the signature that went in —
    for every key type and signature length. -/
theorem parse_cert_roundtrip (name : List Bytes) (pubKey : Bytes) (signerInfo : List Value) (nb na sig p : Bytes)
    (hp : encFields [nameS, metaS, contentS, certSigInfoS]
      [.name name, certMeta, .bytes pubKey, certSigInfo signerInfo nb na] = .ok p)
    (hfit : fitsFs [nameS, metaS, contentS, certSigInfoS]
      [.name name, certMeta, .bytes pubKey, certSigInfo signerInfo nb na] = true)
    (hsig : sig.length < 2 ^ 64) :
    parse certValueFs false (p ++ tlv 23 sig) =
      .ok [.name name, certMeta, .bytes pubKey, certSigInfo signerInfo nb na, .bytes sig] := by
  have henc : enc (.bytes 23 false) (.bytes sig) = .ok (tlv 23 sig) := by simp [enc, tlvE, hsig]
  have h5 := encFields_append_one [nameS, metaS, contentS, certSigInfoS]
    [.name name, certMeta, .bytes pubKey, certSigInfo signerInfo nb na]
    (.bytes 23 false) (.bytes sig) p (tlv 23 sig) rfl hp henc
  have hfit5 : fitsFs certValueFs
      [.name name, certMeta, .bytes pubKey, certSigInfo signerInfo nb na, .bytes sig] = true := by
    simp only [certValueFs, fitsFs, Bool.and_eq_true] at hfit ⊢
    refine ⟨hfit.1, hfit.2.1, hfit.2.2.1, hfit.2.2.2.1, ?_, trivial⟩
    simp [fits]
  exact C08.parse_enc_roundtrip_partial certValueFs _ _ false (by decide) hfit5 h5

/-! ### validity encoding -/

theorem formatTime_length (y mo d h mi s : Nat) : (formatTime y mo d h mi s).length = 15 := by
  simp [formatTime, fmt4, fmt2]

theorem digit_toNat (n : Nat) : (digit n).toNat = 48 + n % 10 := by
  simp [digit, UInt8.toNat_ofNat']; omega

theorem digit_inj {a b : Nat} (h : digit a = digit b) : a % 10 = b % 10 := by
  have := congrArg UInt8.toNat h
  rw [digit_toNat, digit_toNat] at this; omega

/-- **formatTime_inj.** Two instants (years 0..9999, the other fields below 100) with the same
    `YYYYMMDDTHHMMSS` text have the same calendar fields: the encoding loses nothing. -/
theorem formatTime_inj (y mo d h mi s y' mo' d' h' mi' s' : Nat)
    (hy : y < 10000) (hy' : y' < 10000) (hmo : mo < 100) (hmo' : mo' < 100) (hd : d < 100) (hd' : d' < 100)
    (hh : h < 100) (hh' : h' < 100) (hmi : mi < 100) (hmi' : mi' < 100) (hs : s < 100) (hs' : s' < 100)
    (e : formatTime y mo d h mi s = formatTime y' mo' d' h' mi' s') :
    y = y' ∧ mo = mo' ∧ d = d' ∧ h = h' ∧ mi = mi' ∧ s = s' := by
  simp only [formatTime, fmt4, fmt2, List.cons_append, List.nil_append, List.cons.injEq, and_true] at e
  obtain ⟨e1, e2, e3, e4, e5, e6, e7, e8, _, e9, e10, e11, e12, e13, e14⟩ := e
  have := digit_inj e1; have := digit_inj e2; have := digit_inj e3; have := digit_inj e4
  have := digit_inj e5; have := digit_inj e6; have := digit_inj e7; have := digit_inj e8
  have := digit_inj e9; have := digit_inj e10; have := digit_inj e11; have := digit_inj e12
  have := digit_inj e13; have := digit_inj e14
  refine ⟨?_, ?_, ?_, ?_, ?_, ?_⟩ <;> omega

/-! ### non-vacuity -/
example : formatTime 2024 2 29 23 59 7 = [50, 48, 50, 52, 48, 50, 50, 57, 84, 50, 51, 53, 57, 48, 55] := by decide
example : wfTop certValueFs = true := by decide

end Ndn.C16
