import NdnProofs.Lemmas.NameUriName
/-! What `to_str` / `to_canonical_uri` print for a library-shaped component, and that `from_str` reads
    it back. -/
namespace Ndn
open Comp

theorem toCanonicalUri_tlv (t : Nat) (v : Bytes) (ht : t < 2^64) (hv : v.length < 2^64) :
    toCanonicalUri (tlv t v) = .ok (typePrefix t ++ escBytes v) := by
  simp [toCanonicalUri, parseComp_tlv t v ht hv, bind, Except.bind, pure, Except.pure]

theorem fromBytes_ok (t : Nat) (v : Bytes) (ht1 : 1 ≤ t) (ht2 : t ≤ 65535) : fromBytes v t = .ok (tlv t v) := by
  have : ¬ (t = 0 ∨ t > MAX_TYPE) := by simp [MAX_TYPE]; omega
  simp [fromBytes, this]

/-- the five typed-number kinds -/
def IsNumType (t : Nat) : Prop := t = 50 ∨ t = 52 ∨ t = 54 ∨ t = 56 ∨ t = 58

/-- the types of the generated `ALTERNATE_URI_TYPE` are the five typed-number kinds -/
theorem altUriType_keys : Gen.C09.altUriType.map (·.1) = [50, 52, 54, 56, 58] := by decide

theorem altUriOfType_none (t : Nat) (h : ¬ IsNumType t) : altUriOfType t = none := by
  unfold IsNumType at h
  have hnone : (Gen.C09.altUriType.find? fun p => p.1 == t) = none := by
    rw [List.find?_eq_none]
    intro p hp hb
    have h2 : p.1 = t := by simpa using hb
    have h3 : p.1 ∈ Gen.C09.altUriType.map (·.1) := List.mem_map.mpr ⟨p, hp, rfl⟩
    rw [altUriType_keys, h2] at h3
    simp at h3
    exact h h3
  simp [altUriOfType, hnone]

theorem altUriOfType_some (t : Nat) (h : IsNumType t) :
    ∃ s, altUriOfType t = some s ∧ altTypeOfStr s = some t ∧ s ≠ [] ∧
      (∀ c ∈ s, inCharset c = true ∧ c ≠ '=' ∧ c ≠ '/' ∧ c ≠ '%') ∧
      s ≠ "sha256digest".toList ∧ s ≠ "params-sha256".toList := by
  rcases h with h | h | h | h | h <;> subst h
  · exact ⟨"seg".toList, by decide, by decide, by decide, by decide, by decide, by decide⟩
  · exact ⟨"off".toList, by decide, by decide, by decide, by decide, by decide, by decide⟩
  · exact ⟨"v".toList, by decide, by decide, by decide, by decide, by decide, by decide⟩
  · exact ⟨"t".toList, by decide, by decide, by decide, by decide, by decide, by decide⟩
  · exact ⟨"seq".toList, by decide, by decide, by decide, by decide, by decide, by decide⟩

theorem toStr_tlv (t : Nat) (v : Bytes) (ht : t < 2^64) (hv : v.length < 2^64) :
    toStr (tlv t v) =
      if t = 1 then .ok ("sha256digest=".toList ++ pyHex v)
      else if t = 2 then .ok ("params-sha256=".toList ++ pyHex v)
      else match altUriOfType t with
        | some s =>
          if v.length = 1 ∨ v.length = 2 ∨ v.length = 4 ∨ v.length = 8 then .ok (s ++ '=' :: toDec (beVal v))
          else .ok (typePrefix t ++ escBytes v)
        | none => .ok (typePrefix t ++ escBytes v) := by
  simp only [toStr, parseComp_tlv t v ht hv, bind, Except.bind, pure, Except.pure,
    TYPE_IMPLICIT_SHA256, TYPE_PARAMETERS_SHA256]
  by_cases h1 : t = 1
  · simp only [h1, if_true]
  · by_cases h2 : t = 2
    · simp only [h2, if_true]
    · simp only [h1, h2, if_false]
      cases altUriOfType t <;> rfl

/-- `from_str` on a shorthand number: `<seg|off|v|t|seq>=<decimal>` -/
theorem fromStr_number (s : Str) (t n : Nat) (hn : n < 2^64) (hs : altTypeOfStr s = some t)
    (_hne : s ≠ []) (hc : ∀ c ∈ s, inCharset c = true ∧ c ≠ '=' ∧ c ≠ '/' ∧ c ≠ '%')
    (h1 : s ≠ "sha256digest".toList) (h2 : s ≠ "params-sha256".toList) :
    fromStr (s ++ '=' :: toDec n) = fromBytes (packUint n) t := by
  have hd := toDec_digits n
  have hne' : s ++ '=' :: toDec n ≠ [] := by simp
  have hall : (s ++ '=' :: toDec n).all inCharset = true := by
    apply all_inCharset
    intro c hcm
    simp at hcm
    rcases hcm with hcm | rfl | hcm
    · exact (hc c hcm).1
    · decide
    · exact (digit_props c (hd c hcm)).2.2.2.2
  have hsplit := splitEq_append s (toDec n) (fun c hcm => (hc c hcm).2.1)
  have hcont := contains_eq_false (toDec n) (fun c hcm => (digit_props c (hd c hcm)).1)
  unfold fromStr
  simp only [hne', if_false, hall, Bool.not_true, Bool.false_eq_true, hsplit, hcont, h1, h2, hs,
    pyInt_toDec n hn]
  unfold fromNumber
  have : ¬ ((n : Int) < 0 ∨ (n : Int) ≥ 18446744073709551616) := by omega
  simp only [this, if_false, Int.toNat_natCast]

/-- `from_str` on a digest shorthand with a hex value of any length -/
theorem fromStr_digest (name : Str) (t : Nat) (v : Bytes)
    (hname : (name = "sha256digest".toList ∧ t = 1) ∨ (name = "params-sha256".toList ∧ t = 2)) :
    fromStr (name ++ '=' :: pyHex v) = .ok (tlv t v) := by
  have hh := pyHex_chars v
  have hcn : ∀ c ∈ name, inCharset c = true ∧ c ≠ '=' := by
    rcases hname with ⟨rfl, _⟩ | ⟨rfl, _⟩ <;> decide
  have hne' : name ++ '=' :: pyHex v ≠ [] := by simp
  have hall : (name ++ '=' :: pyHex v).all inCharset = true := by
    apply all_inCharset
    intro c hcm
    simp at hcm
    rcases hcm with hcm | rfl | hcm
    · exact (hcn c hcm).1
    · decide
    · exact (hh c hcm).1
  have hsplit := splitEq_append name (pyHex v) (fun c hcm => (hcn c hcm).2)
  have hcont := contains_eq_false (pyHex v) (fun c hcm => (hh c hcm).2.1)
  unfold fromStr
  simp only [hne', if_false, hall, Bool.not_true, Bool.false_eq_true, hsplit, hcont, pyFromHex_pyHex]
  rcases hname with ⟨rfl, rfl⟩ | ⟨rfl, rfl⟩
  · simp only [if_true, TYPE_IMPLICIT_SHA256]; exact fromBytes_ok 1 v (by omega) (by omega)
  · have : ¬ ("params-sha256".toList = "sha256digest".toList) := by decide
    simp only [this, if_false, if_true, TYPE_PARAMETERS_SHA256]
    exact fromBytes_ok 2 v (by omega) (by omega)

theorem beVal_packUint (n : Nat) (h : n < 2^64) : beVal (packUint n) = n := by
  unfold packUint
  split
  · exact beVal_be1 n (by omega)
  · split
    · exact beVal_be2 n (by omega)
    · split
      · exact beVal_be4 n (by omega)
      · exact beVal_be8 n (by omega)

theorem packUint_len1248 (n : Nat) :
    (packUint n).length = 1 ∨ (packUint n).length = 2 ∨ (packUint n).length = 4 ∨ (packUint n).length = 8 := by
  unfold packUint; repeat' split
  all_goals simp [be1, be2, be4, be8]

/-- typed-number components carry a canonically encoded (minimal 1/2/4/8-byte) number -/
def CanonNumber (t : Nat) (v : Bytes) : Prop := IsNumType t → ∃ n, n < 2^64 ∧ v = packUint n

theorem typePrefix_chars (t : Nat) : ∀ c ∈ typePrefix t, inCharset c = true ∧ c ≠ '/' := by
  intro c hc
  unfold typePrefix at hc
  split at hc
  · simp at hc
  · simp at hc
    rcases hc with hc | rfl
    · have := digit_props c (toDec_digits t c hc); exact ⟨this.2.2.2.2, this.2.2.1⟩
    · decide

/-- the canonical URI of a component: CHARSET text without `/`, empty only for `08 00`, read back by
    `from_str` -/
theorem canonicalUri_spec (t : Nat) (v : Bytes) (ht1 : 1 ≤ t) (ht2 : t ≤ 65535) (hv : v.length < 2^64) :
    ∃ u, toCanonicalUri (tlv t v) = .ok u ∧ (∀ c ∈ u, inCharset c = true ∧ c ≠ '/') ∧
      fromStr u = .ok (tlv t v) ∧ (u = [] → tlv t v = [8, 0]) := by
  refine ⟨_, toCanonicalUri_tlv t v (by omega) hv, ?_, fromStr_canonical t v ht1 ht2, ?_⟩
  · intro c hc
    simp at hc
    rcases hc with hc | hc
    · exact typePrefix_chars t c hc
    · have := escBytes_chars v c hc; exact ⟨this.1, this.2.2⟩
  · intro hu
    simp at hu
    obtain ⟨hp, he⟩ := hu
    have hv0 := (escBytes_eq_nil v).mp he
    unfold typePrefix at hp
    split at hp
    · rename_i h8; subst h8; subst hv0; rfl
    · simp at hp

/-- the same for the convention URI printed by `to_str`, under the canonical-number hypothesis -/
theorem toStr_spec (t : Nat) (v : Bytes) (ht1 : 1 ≤ t) (ht2 : t ≤ 65535) (hv : v.length < 2^64)
    (hcn : CanonNumber t v) :
    ∃ u, toStr (tlv t v) = .ok u ∧ (∀ c ∈ u, inCharset c = true ∧ c ≠ '/') ∧
      fromStr u = .ok (tlv t v) ∧ (u = [] → tlv t v = [8, 0]) := by
  rw [toStr_tlv t v (by omega) hv]
  by_cases h1 : t = 1
  · subst h1
    refine ⟨_, rfl, ?_, ?_, by simp⟩
    · intro c hc
      simp only [List.mem_append] at hc
      rcases hc with hc | hc
      · revert c; decide
      · have := pyHex_chars v c hc; exact ⟨this.1, this.2.2⟩
    · exact fromStr_digest "sha256digest".toList 1 v (Or.inl ⟨rfl, rfl⟩)
  · by_cases h2 : t = 2
    · subst h2
      refine ⟨_, rfl, ?_, ?_, by simp⟩
      · intro c hc
        simp only [List.mem_append] at hc
        rcases hc with hc | hc
        · revert c; decide
        · have := pyHex_chars v c hc; exact ⟨this.1, this.2.2⟩
      · exact fromStr_digest "params-sha256".toList 2 v (Or.inr ⟨rfl, rfl⟩)
    · simp only [h1, h2, if_false]
      by_cases hn : IsNumType t
      · obtain ⟨s, hs1, hs2, hs3, hs4, hs5, hs6⟩ := altUriOfType_some t hn
        obtain ⟨n, hn1, rfl⟩ := hcn hn
        rw [hs1]
        simp only [if_pos (packUint_len1248 n)]
        refine ⟨_, rfl, ?_, ?_, by simp⟩
        · intro c hc
          simp at hc
          rcases hc with hc | rfl | hc
          · exact ⟨(hs4 c hc).1, (hs4 c hc).2.2.1⟩
          · decide
          · have := digit_props c (toDec_digits _ c hc); exact ⟨this.2.2.2.2, this.2.2.1⟩
        · rw [beVal_packUint n hn1, fromStr_number s t n hn1 hs2 hs3 hs4 hs5 hs6]
          exact fromBytes_ok t _ ht1 ht2
      · rw [altUriOfType_none t hn]
        obtain ⟨u, hu1, hu2, hu3, hu4⟩ := canonicalUri_spec t v ht1 ht2 hv
        rw [toCanonicalUri_tlv t v (by omega) hv] at hu1
        injection hu1 with hu1
        subst hu1
        exact ⟨_, rfl, hu2, hu3, hu4⟩

end Ndn
