import NdnModel.Keychain
/-!
  Lemmas for the keychain model (C15).
  Part 1: table level - closed forms of the statements under the *generated* trigger table, and the
  per-table invariants (unique names / rowids, at most one default per scope, ghost `lost`).
  Part 2: a Hoare logic for the state-and-exception monad `M`.
  Part 3: the system invariants and their preservation by every operation.
-/
namespace Ndn.Keychain
open Ndn.Sql
set_option linter.unusedSectionVars false
set_option linter.unusedSimpArgs false

section TableLevel
variable {ν : Type} [DecidableEq ν]
def setDefaultCF (sc : Bool) (n : ν) (t : Table ν) : Table ν :=
  match t.find? (fun r => r.name = n) with
  | none => t
  | some r => setFlag n (if r.dflt then t else clearDefaults sc r.owner t)

def NamesU (t : Table ν) : Prop := t.Pairwise fun a b => a.name ≠ b.name
def RidsU (t : Table ν) : Prop := t.Pairwise fun a b => a.rid ≠ b.rid
def DefU (sc : Bool) (t : Table ν) : Prop :=
  t.Pairwise fun a b => ¬(a.dflt = true ∧ b.dflt = true ∧ sameScope sc a.owner b.owner = true)

theorem eq_of_name_eq {t : Table ν} (h : NamesU t) {a b : Row ν} (ha : a ∈ t) (hb : b ∈ t)
    (hn : a.name = b.name) : a = b := by
  induction t with
  | nil => cases ha
  | cons x r ih =>
    rw [NamesU, List.pairwise_cons] at h
    cases ha with
    | head => cases hb with
      | head => rfl
      | tail _ hb => exact absurd hn (h.1 _ hb)
    | tail _ ha => cases hb with
      | head => exact absurd hn.symm (h.1 _ ha)
      | tail _ hb => exact ih h.2 ha hb

theorem eq_of_rid_eq {t : Table ν} (h : RidsU t) {a b : Row ν} (ha : a ∈ t) (hb : b ∈ t)
    (hn : a.rid = b.rid) : a = b := by
  induction t with
  | nil => cases ha
  | cons x r ih =>
    rw [RidsU, List.pairwise_cons] at h
    cases ha with
    | head => cases hb with
      | head => rfl
      | tail _ hb => exact absurd hn (h.1 _ hb)
    | tail _ ha => cases hb with
      | head => exact absurd hn.symm (h.1 _ ha)
      | tail _ hb => exact ih h.2 ha hb

theorem sameScope_comm (sc : Bool) (a b : Nat) : sameScope sc a b = sameScope sc b a := by
  cases sc
  · simp [sameScope]
  · simp only [sameScope, Bool.not_true, Bool.false_or]
    exact Bool.eq_iff_iff.mpr ⟨fun h => by rw [beq_iff_eq] at h ⊢; exact h.symm, fun h => by rw [beq_iff_eq] at h ⊢; exact h.symm⟩

theorem sameScope_trans {sc : Bool} {a b c : Nat} (h1 : sameScope sc a b = true) (h2 : sameScope sc b c = true) :
    sameScope sc a c = true := by
  cases sc <;> simp_all [sameScope]

/-- the row map performed by `setDefaultCF` when the target row `r` exists -/
def sdRow (sc : Bool) (n : ν) (r x : Row ν) : Row ν :=
  if x.name = n then { x with dflt := true }
  else if r.dflt = false ∧ sameScope sc r.owner x.owner = true then { x with dflt := false } else x

theorem setDefaultCF_some {sc : Bool} {n : ν} {t : Table ν} {r : Row ν}
    (h : t.find? (fun r => r.name = n) = some r) : setDefaultCF sc n t = t.map (sdRow sc n r) := by
  unfold setDefaultCF
  rw [h]
  cases hd : r.dflt <;> simp [setFlag, clearDefaults, sdRow, hd, List.map_map] <;>
    (intro x _; split <;> simp_all)

theorem sdRow_name (sc : Bool) (n : ν) (r x : Row ν) : (sdRow sc n r x).name = x.name := by
  unfold sdRow; split <;> (try split) <;> rfl
theorem sdRow_rid (sc : Bool) (n : ν) (r x : Row ν) : (sdRow sc n r x).rid = x.rid := by
  unfold sdRow; split <;> (try split) <;> rfl
theorem sdRow_owner (sc : Bool) (n : ν) (r x : Row ν) : (sdRow sc n r x).owner = x.owner := by
  unfold sdRow; split <;> (try split) <;> rfl

theorem setDefaultCF_names (sc : Bool) (n : ν) (t : Table ν) :
    (setDefaultCF sc n t).map (·.name) = t.map (·.name) := by
  cases h : t.find? (fun r => r.name = n) with
  | none => simp [setDefaultCF, h]
  | some r => simp [setDefaultCF_some h, List.map_map, Function.comp_def, sdRow_name]

theorem setDefaultCF_rids (sc : Bool) (n : ν) (t : Table ν) :
    (setDefaultCF sc n t).map (·.rid) = t.map (·.rid) := by
  cases h : t.find? (fun r => r.name = n) with
  | none => simp [setDefaultCF, h]
  | some r => simp [setDefaultCF_some h, List.map_map, Function.comp_def, sdRow_rid]

theorem setDefaultCF_defU {sc : Bool} {n : ν} {t : Table ν} (hn : NamesU t) (hd : DefU sc t) :
    DefU sc (setDefaultCF sc n t) := by
  cases h : t.find? (fun r => r.name = n) with
  | none => simpa [setDefaultCF, h] using hd
  | some r =>
    rw [setDefaultCF_some h, DefU, List.pairwise_map]
    have hr := List.mem_of_find?_eq_some h
    have hrn : r.name = n := by simpa using List.find?_some h
    refine List.Pairwise.imp_of_mem ?_ (hn.and hd)
    intro a b ha hb ⟨hab, hR⟩
    simp only [sdRow_owner]
    intro ⟨h1, h2, h3⟩
    by_cases han : a.name = n
    · have : a = r := eq_of_name_eq hn ha hr (han.trans hrn.symm)
      subst this
      have hbn : b.name ≠ n := fun e => hab (han.trans e.symm)
      simp only [sdRow, hbn, if_false] at h2
      split at h2
      · simp at h2
      · rename_i hc
        cases hda : a.dflt
        · exact hc ⟨hda, h3⟩
        · exact hR ⟨hda, h2, h3⟩
    · by_cases hbn : b.name = n
      · have : b = r := eq_of_name_eq hn hb hr (hbn.trans hrn.symm)
        subst this
        simp only [sdRow, han, if_false] at h1
        split at h1
        · simp at h1
        · rename_i hc
          cases hdb : b.dflt
          · exact hc ⟨hdb, by rw [sameScope_comm]; exact h3⟩
          · exact hR ⟨h1, hdb, h3⟩
      · simp only [sdRow, han, hbn, if_false] at h1 h2
        split at h1
        · simp at h1
        · split at h2
          · simp at h2
          · exact hR ⟨h1, h2, h3⟩

/-! #### closed forms under the generated triggers -/

theorem upd_ids (n : ν) (t : Table ν) : updSetDefault (trs .identities) n t = setDefaultCF false n t := by
  unfold updSetDefault setDefaultCF
  cases hf : t.find? (fun r => decide (r.name = n)) with
  | none => rfl
  | some r => cases h : r.dflt <;> simp [trs, Ndn.Gen.C15.triggers, fire0, condHolds, act0, h]

theorem upd_keys (n : ν) (t : Table ν) : updSetDefault (trs .keys) n t = setDefaultCF true n t := by
  unfold updSetDefault setDefaultCF
  cases hf : t.find? (fun r => decide (r.name = n)) with
  | none => rfl
  | some r => cases h : r.dflt <;> simp [trs, Ndn.Gen.C15.triggers, fire0, condHolds, act0, h]

theorem upd_certs (n : ν) (t : Table ν) : updSetDefault (trs .certificates) n t = setDefaultCF true n t := by
  unfold updSetDefault setDefaultCF
  cases hf : t.find? (fun r => decide (r.name = n)) with
  | none => rfl
  | some r => cases h : r.dflt <;> simp [trs, Ndn.Gen.C15.triggers, fire0, condHolds, act0, h]

def newRow (o : Nat) (n : ν) (t : Table ν) : Row ν := { rid := maxRid t + 1, owner := o, name := n, dflt := false }

def insertCF (sc : Bool) (o : Nat) (n : ν) (t : Table ν) : Option (Table ν) :=
  if t.any (fun r => r.name = n) then none else
  let t2 := t ++ [newRow o n t]
  some (if hasDefault sc o t2 then t2 else setDefaultCF sc n t2)

theorem ins_ids (o : Nat) (n : ν) (t : Table ν) : insertRow (trs .identities) o n t = insertCF false o n t := by
  unfold insertRow insertCF
  cases ha : t.any (fun r => decide (r.name = n)) with
  | true => rfl
  | false =>
    simp only [← upd_ids]
    cases hd : hasDefault false o (t ++ [newRow o n t]) <;>
      simp [fire1, trs, Ndn.Gen.C15.triggers, condHolds, act1, newRow, hd] <;> simp_all [newRow]
theorem ins_keys (o : Nat) (n : ν) (t : Table ν) : insertRow (trs .keys) o n t = insertCF true o n t := by
  unfold insertRow insertCF
  cases ha : t.any (fun r => decide (r.name = n)) with
  | true => rfl
  | false =>
    simp only [← upd_keys]
    cases hd : hasDefault true o (t ++ [newRow o n t]) <;>
      simp [fire1, trs, Ndn.Gen.C15.triggers, condHolds, act1, newRow, hd] <;> simp_all [newRow]
theorem ins_certs (o : Nat) (n : ν) (t : Table ν) : insertRow (trs .certificates) o n t = insertCF true o n t := by
  unfold insertRow insertCF
  cases ha : t.any (fun r => decide (r.name = n)) with
  | true => rfl
  | false =>
    simp only [← upd_certs]
    cases hd : hasDefault true o (t ++ [newRow o n t]) <;>
      simp [fire1, trs, Ndn.Gen.C15.triggers, condHolds, act1, newRow, hd] <;> simp_all [newRow]

/-! #### inserts and deletes -/

theorem namesU_iff (t : Table ν) : NamesU t ↔ (t.map (·.name)).Nodup := by
  unfold NamesU List.Nodup; rw [List.pairwise_map]
theorem ridsU_iff (t : Table ν) : RidsU t ↔ (t.map (·.rid)).Nodup := by
  unfold RidsU List.Nodup; rw [List.pairwise_map]

theorem le_maxRid {t : Table ν} {r : Row ν} (h : r ∈ t) : r.rid ≤ maxRid t := by
  induction t with
  | nil => cases h
  | cons x q ih =>
    cases h with
    | head => simp [maxRid]; omega
    | tail _ h => have := ih h; simp [maxRid]; omega

theorem setDefaultCF_namesU {sc : Bool} {n : ν} {t : Table ν} (h : NamesU t) : NamesU (setDefaultCF sc n t) := by
  rw [namesU_iff] at h ⊢; rwa [setDefaultCF_names]
theorem setDefaultCF_ridsU {sc : Bool} {n : ν} {t : Table ν} (h : RidsU t) : RidsU (setDefaultCF sc n t) := by
  rw [ridsU_iff] at h ⊢; rwa [setDefaultCF_rids]

theorem insertCF_names {sc : Bool} {o : Nat} {n : ν} {t t' : Table ν} (h : insertCF sc o n t = some t') :
    t'.map (·.name) = t.map (·.name) ++ [n] ∧ t'.map (·.rid) = t.map (·.rid) ++ [maxRid t + 1]
      ∧ (t.any fun r => r.name = n) = false := by
  unfold insertCF at h
  split at h
  · cases h
  · rename_i ha
    simp only [Option.some.injEq] at h
    subst h
    split <;> simp_all [setDefaultCF_names, setDefaultCF_rids, newRow]

theorem insertCF_namesU {sc : Bool} {o : Nat} {n : ν} {t t' : Table ν} (hn : NamesU t)
    (h : insertCF sc o n t = some t') : NamesU t' := by
  obtain ⟨h1, _, h3⟩ := insertCF_names h
  rw [namesU_iff] at hn ⊢
  rw [h1, List.nodup_append]
  refine ⟨hn, by simp, ?_⟩
  intro a ha b hb
  simp at hb; subst hb
  intro e; subst e
  simp only [List.any_eq_false, decide_eq_true_eq] at h3
  obtain ⟨r, hr, rfl⟩ := List.mem_map.mp ha
  exact h3 r hr rfl

theorem insertCF_ridsU {sc : Bool} {o : Nat} {n : ν} {t t' : Table ν} (hn : RidsU t)
    (h : insertCF sc o n t = some t') : RidsU t' := by
  obtain ⟨_, h2, _⟩ := insertCF_names h
  rw [ridsU_iff] at hn ⊢
  rw [h2, List.nodup_append]
  refine ⟨hn, by simp, ?_⟩
  intro a ha b hb
  simp at hb; subst hb
  obtain ⟨r, hr, rfl⟩ := List.mem_map.mp ha
  have := le_maxRid hr
  omega

theorem defU_append_new {sc : Bool} {t : Table ν} {x : Row ν} (h : DefU sc t) (hx : x.dflt = false) :
    DefU sc (t ++ [x]) := by
  unfold DefU at h ⊢
  rw [List.pairwise_append]
  refine ⟨h, by simp, ?_⟩
  intro a _ b hb
  simp at hb; subst hb
  simp [hx]

theorem namesU_append_new {t : Table ν} {x : Row ν} (h : NamesU t) (hx : (t.any fun r => r.name = x.name) = false) :
    NamesU (t ++ [x]) := by
  unfold NamesU at h ⊢
  rw [List.pairwise_append]
  refine ⟨h, by simp, ?_⟩
  intro a ha b hb
  simp at hb; subst hb
  simp only [List.any_eq_false, decide_eq_true_eq] at hx
  exact hx a ha

theorem insertCF_defU {sc : Bool} {o : Nat} {n : ν} {t t' : Table ν} (hn : NamesU t) (hd : DefU sc t)
    (h : insertCF sc o n t = some t') : DefU sc t' := by
  unfold insertCF at h
  split at h
  · cases h
  · rename_i ha
    simp only [Option.some.injEq] at h
    subst h
    have h2 : DefU sc (t ++ [newRow o n t]) := defU_append_new hd rfl
    split
    · exact h2
    · exact setDefaultCF_defU (namesU_append_new hn (by simp only [newRow]; exact Bool.eq_false_iff.mpr ha)) h2

theorem namesU_filter {t : Table ν} (p : Row ν → Bool) (h : NamesU t) : NamesU (t.filter p) := List.Pairwise.filter _ h
theorem ridsU_filter {t : Table ν} (p : Row ν → Bool) (h : RidsU t) : RidsU (t.filter p) := List.Pairwise.filter _ h
theorem defU_filter {sc : Bool} {t : Table ν} (p : Row ν → Bool) (h : DefU sc t) : DefU sc (t.filter p) :=
  List.Pairwise.filter _ h

/-! #### defaults per scope and the ghost `lost` -/

theorem hasDefault_iff {sc : Bool} {o : Nat} {t : Table ν} :
    hasDefault sc o t = true ↔ ∃ r ∈ t, r.dflt = true ∧ sameScope sc o r.owner = true := by
  simp [hasDefault, List.any_eq_true]

theorem sameScope_refl (sc : Bool) (a : Nat) : sameScope sc a a = true := by
  cases sc <;> simp [sameScope]

theorem hasDefault_scopeKey (sc : Bool) (o : Nat) (t : Table ν) :
    hasDefault sc (scopeKey sc o) t = hasDefault sc o t := by
  cases sc <;> simp [scopeKey, hasDefault, sameScope]

theorem scopeKey_eq_of_sameScope {sc : Bool} {a b : Nat} (h : sameScope sc a b = true) :
    scopeKey sc a = scopeKey sc b := by
  cases sc <;> simp_all [sameScope, scopeKey]

theorem hasDefault_congr {sc : Bool} {a b : Nat} (t : Table ν) (h : sameScope sc a b = true) :
    hasDefault sc a t = hasDefault sc b t := by
  cases sc <;> simp_all [sameScope, hasDefault]

theorem setDefaultCF_owners (sc : Bool) (n : ν) (t : Table ν) :
    (setDefaultCF sc n t).map (·.owner) = t.map (·.owner) := by
  cases h : t.find? (fun r => r.name = n) with
  | none => simp [setDefaultCF, h]
  | some r => simp [setDefaultCF_some h, List.map_map, Function.comp_def, sdRow_owner]

theorem hasDefault_setDefaultCF_mono {sc : Bool} {n : ν} {t : Table ν} {o : Nat}
    (h : hasDefault sc o t = true) : hasDefault sc o (setDefaultCF sc n t) = true := by
  cases hf : t.find? (fun r => r.name = n) with
  | none => simpa [setDefaultCF, hf] using h
  | some r =>
    rw [setDefaultCF_some hf]
    have hr := List.mem_of_find?_eq_some hf
    have hrn : r.name = n := by simpa using List.find?_some hf
    rw [hasDefault_iff] at h ⊢
    obtain ⟨d, hd, hdd, hds⟩ := h
    by_cases hdn : d.name = n
    · exact ⟨sdRow sc n r d, List.mem_map_of_mem hd, by simp [sdRow, hdn], by rw [sdRow_owner]; exact hds⟩
    · by_cases hc : r.dflt = false ∧ sameScope sc r.owner d.owner = true
      · refine ⟨sdRow sc n r r, List.mem_map_of_mem hr, by simp [sdRow, hrn], ?_⟩
        rw [sdRow_owner]
        exact sameScope_trans hds (by rw [sameScope_comm]; exact hc.2)
      · exact ⟨sdRow sc n r d, List.mem_map_of_mem hd, by simp [sdRow, hdn, hc, hdd], by rw [sdRow_owner]; exact hds⟩

theorem find_new {o : Nat} {n : ν} {t : Table ν} (ha : (t.any fun r => r.name = n) = false) :
    (t ++ [newRow o n t]).find? (fun r => r.name = n) = some (newRow o n t) := by
  rw [List.find?_append]
  have : t.find? (fun r => decide (r.name = n)) = none := by
    rw [List.find?_eq_none]
    simp only [List.any_eq_false] at ha
    exact ha
  simp [this, newRow]

theorem insertCF_hasDefault {sc : Bool} {o : Nat} {n : ν} {t t' : Table ν}
    (h : insertCF sc o n t = some t') :
    hasDefault sc o t' = true ∧ (∀ o', hasDefault sc o' t = true → hasDefault sc o' t' = true)
      ∧ t'.map (·.owner) = t.map (·.owner) ++ [o] := by
  unfold insertCF at h
  split at h
  · cases h
  · rename_i ha
    have ha : (t.any fun r => decide (r.name = n)) = false := Bool.eq_false_iff.mpr ha
    simp only [Option.some.injEq] at h
    subst h
    have hmono : ∀ o', hasDefault sc o' t = true → hasDefault sc o' (t ++ [newRow o n t]) = true := by
      intro o' h'
      rw [hasDefault_iff] at h' ⊢
      obtain ⟨d, hd, hx⟩ := h'
      exact ⟨d, List.mem_append_left _ hd, hx⟩
    split
    · rename_i hd
      exact ⟨hd, hmono, by simp [newRow]⟩
    · refine ⟨?_, fun o' h' => hasDefault_setDefaultCF_mono (hmono o' h'), by simp [setDefaultCF_owners, newRow]⟩
      rw [setDefaultCF_some (find_new ha), hasDefault_iff]
      exact ⟨sdRow sc n (newRow o n t) (newRow o n t), List.mem_map_of_mem (by simp),
        by simp [sdRow, newRow], by rw [sdRow_owner]; simp [newRow, sameScope_refl]⟩

/-- the per-table invariant -/
structure TabInv (sc : Bool) (T : Tab ν) : Prop where
  names : NamesU T.rows
  rids : RidsU T.rows
  defu : DefU sc T.rows
  lost : ∀ r ∈ T.rows, hasDefault sc r.owner T.rows = false → scopeKey sc r.owner ∈ T.lost

theorem TabInv.empty (sc : Bool) : TabInv sc (Tab.empty : Tab ν) :=
  ⟨List.Pairwise.nil, List.Pairwise.nil, List.Pairwise.nil, fun _ h => by cases h⟩

theorem TabInv.setDefault {sc : Bool} {T : Tab ν} (n : ν) (h : TabInv sc T) :
    TabInv sc (T.apply sc (setDefaultCF sc n)) := by
  refine ⟨setDefaultCF_namesU h.names, setDefaultCF_ridsU h.rids, setDefaultCF_defU h.names h.defu, ?_⟩
  intro r' hr' hnd
  simp only [Tab.apply] at hr' hnd ⊢
  have hown : r'.owner ∈ (setDefaultCF sc n T.rows).map (·.owner) := List.mem_map_of_mem hr'
  rw [setDefaultCF_owners] at hown
  obtain ⟨r, hr, hro⟩ := List.mem_map.mp hown
  have hold : hasDefault sc r.owner T.rows = false := by
    cases hx : hasDefault sc r.owner T.rows
    · rfl
    · rw [hro] at hx; rw [hasDefault_setDefaultCF_mono hx] at hnd; cases hnd
  rw [List.mem_filter]
  refine ⟨by rw [← hro]; exact h.lost r hr hold, ?_⟩
  simp [hasDefault_scopeKey, hnd]

theorem TabInv.insert {sc : Bool} {T : Tab ν} {o : Nat} {n : ν} {t' : Table ν} (h : TabInv sc T)
    (hi : insertCF sc o n T.rows = some t') : TabInv sc (T.apply sc fun _ => t') := by
  refine ⟨insertCF_namesU h.names hi, insertCF_ridsU h.rids hi, insertCF_defU h.names h.defu hi, ?_⟩
  obtain ⟨h1, h2, h3⟩ := insertCF_hasDefault hi
  intro r' hr' hnd
  simp only [Tab.apply] at hr' hnd ⊢
  have hown : r'.owner ∈ t'.map (·.owner) := List.mem_map_of_mem hr'
  rw [h3, List.mem_append] at hown
  rw [List.mem_filter]
  refine ⟨?_, by simp [hasDefault_scopeKey, hnd]⟩
  cases hown with
  | inl hold =>
    obtain ⟨r, hr, hro⟩ := List.mem_map.mp hold
    have : hasDefault sc r.owner T.rows = false := by
      cases hx : hasDefault sc r.owner T.rows
      · rfl
      · rw [hro] at hx; rw [h2 _ hx] at hnd; cases hnd
    rw [← hro]; exact h.lost r hr this
  | inr hnew =>
    simp at hnew
    rw [hnew, h1] at hnd; cases hnd

theorem TabInv.delete {sc : Bool} {T : Tab ν} (p : Row ν → Bool) (h : TabInv sc T) : TabInv sc (T.delete sc p) := by
  refine ⟨namesU_filter _ h.names, ridsU_filter _ h.rids, defU_filter _ h.defu, ?_⟩
  intro r' hr' hnd
  simp only [Tab.delete] at hr' hnd ⊢
  rw [List.mem_filter]
  refine ⟨?_, by simp [hasDefault_scopeKey, hnd]⟩
  have hr : r' ∈ T.rows := (List.mem_filter.mp hr').1
  rw [List.mem_append]
  cases hx : hasDefault sc r'.owner T.rows
  · exact Or.inl (h.lost r' hr hx)
  · right
    obtain ⟨d, hd, hdd, hds⟩ := hasDefault_iff.mp hx
    have hpd : p d = true := by
      cases hp : p d
      · have : hasDefault sc r'.owner (T.rows.filter fun x => !p x) = true :=
          hasDefault_iff.mpr ⟨d, List.mem_filter.mpr ⟨hd, by simp [hp]⟩, hdd, hds⟩
        rw [this] at hnd; cases hnd
      · rfl
    rw [scopeKey_eq_of_sameScope hds]
    exact List.mem_map.mpr ⟨d, List.mem_filter.mpr ⟨hd, by simp [hpd, hdd]⟩, rfl⟩

/-- `lost` grows only by deleting a default row -/
theorem lost_delete {sc : Bool} {T : Tab ν} (p : Row ν → Bool) {k : Nat} (h : k ∈ (T.delete sc p).lost) :
    k ∈ T.lost ∨ ∃ d ∈ T.rows, p d = true ∧ d.dflt = true ∧ scopeKey sc d.owner = k := by
  simp only [Tab.delete, List.mem_filter, List.mem_append, List.mem_map] at h
  rcases h.1 with h | ⟨d, hd, rfl⟩
  · exact Or.inl h
  · simp only [Bool.and_eq_true] at hd
    exact Or.inr ⟨d, hd.1, hd.2.1, hd.2.2, rfl⟩

theorem lost_apply {sc : Bool} {T : Tab ν} (f : Table ν → Table ν) {k : Nat} (h : k ∈ (T.apply sc f).lost) :
    k ∈ T.lost := by
  simp only [Tab.apply, List.mem_filter] at h
  exact h.1

/-! #### the columns other than `is_default` are never changed by a statement -/

def SameCols (r r' : Row ν) : Prop := r.rid = r'.rid ∧ r.owner = r'.owner ∧ r.name = r'.name

/-- every row of `t` is still in `t'` (up to its flag) -/
def ColsSub (t t' : Table ν) : Prop := ∀ r ∈ t, ∃ r' ∈ t', SameCols r r'

theorem ColsSub.refl (t : Table ν) : ColsSub t t := fun r h => ⟨r, h, rfl, rfl, rfl⟩

theorem sdRow_same (sc : Bool) (n : ν) (r x : Row ν) : SameCols x (sdRow sc n r x) :=
  ⟨(sdRow_rid sc n r x).symm, (sdRow_owner sc n r x).symm, (sdRow_name sc n r x).symm⟩

theorem setDefaultCF_fwd (sc : Bool) (n : ν) (t : Table ν) : ColsSub (setDefaultCF sc n t) t := by
  intro r' h
  cases hf : t.find? (fun r => r.name = n) with
  | none => rw [setDefaultCF, hf] at h; exact ⟨r', h, rfl, rfl, rfl⟩
  | some r0 =>
    rw [setDefaultCF_some hf, List.mem_map] at h
    obtain ⟨r, hr, rfl⟩ := h
    have := sdRow_same sc n r0 r
    exact ⟨r, hr, this.1.symm, this.2.1.symm, this.2.2.symm⟩

theorem setDefaultCF_bwd (sc : Bool) (n : ν) (t : Table ν) : ColsSub t (setDefaultCF sc n t) := by
  intro r h
  cases hf : t.find? (fun r => r.name = n) with
  | none => rw [setDefaultCF, hf]; exact ⟨r, h, rfl, rfl, rfl⟩
  | some r0 =>
    rw [setDefaultCF_some hf]
    exact ⟨_, List.mem_map_of_mem h, sdRow_same sc n r0 r⟩

theorem insertCF_bwd {sc : Bool} {o : Nat} {n : ν} {t t' : Table ν} (hi : insertCF sc o n t = some t') :
    ColsSub t t' := by
  unfold insertCF at hi
  split at hi
  · cases hi
  · simp only [Option.some.injEq] at hi
    subst hi
    intro r h
    split
    · exact ⟨r, List.mem_append_left _ h, rfl, rfl, rfl⟩
    · exact setDefaultCF_bwd sc n _ r (List.mem_append_left _ h)

theorem insertCF_fwd {sc : Bool} {o : Nat} {n : ν} {t t' : Table ν} (hi : insertCF sc o n t = some t')
    {r' : Row ν} (h : r' ∈ t') : (∃ r ∈ t, SameCols r r') ∨ (r'.owner = o ∧ r'.name = n) := by
  unfold insertCF at hi
  split at hi
  · cases hi
  · simp only [Option.some.injEq] at hi
    subst hi
    have key : ∀ x ∈ t ++ [newRow o n t], (∃ r ∈ t, SameCols r x) ∨ (x.owner = o ∧ x.name = n) := by
      intro x hx
      rw [List.mem_append] at hx
      rcases hx with hx | hx
      · exact Or.inl ⟨x, hx, rfl, rfl, rfl⟩
      · simp at hx; subst hx; exact Or.inr ⟨rfl, rfl⟩
    split at h
    · exact key r' h
    · obtain ⟨x, hx, hs⟩ := setDefaultCF_fwd sc n _ r' h
      rcases key x hx with ⟨r, hr, hrs⟩ | ⟨h1, h2⟩
      · exact Or.inl ⟨r, hr, hrs.1.trans hs.1.symm, hrs.2.1.trans hs.2.1.symm, hrs.2.2.trans hs.2.2.symm⟩
      · exact Or.inr ⟨hs.2.1.trans h1, hs.2.2.trans h2⟩

/-! #### the payload column -/

theorem sdRow_data (sc : Bool) (n : ν) (r x : Row ν) : (sdRow sc n r x).data = x.data := by
  unfold sdRow; split <;> (try split) <;> rfl

/-- every row of `t'` has the name and the payload of a row of `t` -/
def NameData (t t' : Table ν) : Prop := ∀ r' ∈ t', ∃ r ∈ t, r.name = r'.name ∧ r.data = r'.data

theorem NameData.refl (t : Table ν) : NameData t t := fun r h => ⟨r, h, rfl, rfl⟩

theorem NameData.filter (p : Row ν → Bool) (t : Table ν) : NameData t (t.filter p) :=
  fun r h => ⟨r, (List.mem_filter.mp h).1, rfl, rfl⟩

theorem setDefaultCF_nameData (sc : Bool) (n : ν) (t : Table ν) : NameData t (setDefaultCF sc n t) := by
  intro r' h
  cases hf : t.find? (fun r => r.name = n) with
  | none => rw [setDefaultCF, hf] at h; exact ⟨r', h, rfl, rfl⟩
  | some r0 =>
    rw [setDefaultCF_some hf, List.mem_map] at h
    obtain ⟨r, hr, rfl⟩ := h
    exact ⟨r, hr, (sdRow_name sc n r0 r).symm, (sdRow_data sc n r0 r).symm⟩

/-- the rows of an insert's result: the old ones, or the new one (named `n`, payload 0) -/
theorem insertCF_nameData {sc : Bool} {o : Nat} {n : ν} {t t' : Table ν} (hi : insertCF sc o n t = some t')
    {r' : Row ν} (h : r' ∈ t') : (∃ r ∈ t, r.name = r'.name ∧ r.data = r'.data) ∨ r'.name = n := by
  unfold insertCF at hi
  split at hi
  · cases hi
  · simp only [Option.some.injEq] at hi
    subst hi
    have key : ∀ x ∈ t ++ [newRow o n t], (∃ r ∈ t, r.name = x.name ∧ r.data = x.data) ∨ x.name = n := by
      intro x hx
      rw [List.mem_append] at hx
      rcases hx with hx | hx
      · exact Or.inl ⟨x, hx, rfl, rfl⟩
      · simp at hx; subst hx; exact Or.inr rfl
    split at h
    · exact key r' h
    · obtain ⟨x, hx, hn, hd⟩ := setDefaultCF_nameData sc n _ r' h
      rcases key x hx with ⟨r, hr, h1, h2⟩ | h1
      · exact Or.inl ⟨r, hr, h1.trans hn, h2.trans hd⟩
      · exact Or.inr (hn.symm.trans h1)

def sdtRow (n : ν) (b : Nat) (r : Row ν) : Row ν := if r.name = n then { r with data := b } else r

theorem setData_eq (n : ν) (b : Nat) (t : Table ν) : setData n b t = t.map (sdtRow n b) := rfl

theorem sdtRow_name (n : ν) (b : Nat) (r : Row ν) : (sdtRow n b r).name = r.name := by unfold sdtRow; split <;> rfl
theorem sdtRow_rid (n : ν) (b : Nat) (r : Row ν) : (sdtRow n b r).rid = r.rid := by unfold sdtRow; split <;> rfl
theorem sdtRow_owner (n : ν) (b : Nat) (r : Row ν) : (sdtRow n b r).owner = r.owner := by unfold sdtRow; split <;> rfl
theorem sdtRow_dflt (n : ν) (b : Nat) (r : Row ν) : (sdtRow n b r).dflt = r.dflt := by unfold sdtRow; split <;> rfl

theorem hasDefault_setData (sc : Bool) (o : Nat) (n : ν) (b : Nat) (t : Table ν) :
    hasDefault sc o (setData n b t) = hasDefault sc o t := by
  simp [hasDefault, setData_eq, List.any_map, Function.comp_def, sdtRow_dflt, sdtRow_owner]

theorem setData_fwd (n : ν) (b : Nat) (t : Table ν) : ColsSub (setData n b t) t := by
  intro r' h
  rw [setData_eq, List.mem_map] at h
  obtain ⟨r, hr, rfl⟩ := h
  exact ⟨r, hr, sdtRow_rid n b r, sdtRow_owner n b r, sdtRow_name n b r⟩

theorem setData_bwd (n : ν) (b : Nat) (t : Table ν) : ColsSub t (setData n b t) := by
  intro r h
  exact ⟨sdtRow n b r, by rw [setData_eq]; exact List.mem_map_of_mem h,
    (sdtRow_rid n b r).symm, (sdtRow_owner n b r).symm, (sdtRow_name n b r).symm⟩

/-- a row of `setData n b t`: named `n` with payload `b`, or a row of `t` with another name -/
theorem setData_mem {n : ν} {b : Nat} {t : Table ν} {r' : Row ν} (h : r' ∈ setData n b t) :
    (r'.name = n ∧ r'.data = b) ∨ (r' ∈ t ∧ r'.name ≠ n) := by
  rw [setData_eq, List.mem_map] at h
  obtain ⟨r, hr, rfl⟩ := h
  unfold sdtRow
  split
  · rename_i hn; exact Or.inl ⟨hn, rfl⟩
  · rename_i hn; exact Or.inr ⟨hr, hn⟩

theorem TabInv.setData {sc : Bool} {T : Tab ν} {t' : Table ν} (n : ν) (b : Nat)
    (h : TabInv sc (T.apply sc fun _ => t')) : TabInv sc (T.apply sc fun _ => setData n b t') := by
  have hl : (T.apply sc fun _ => Keychain.setData n b t').lost = (T.apply sc fun _ => t').lost := by
    simp only [Tab.apply, hasDefault_setData]
  refine ⟨?_, ?_, ?_, ?_⟩
  · have := h.names
    simp only [Tab.apply] at this ⊢
    rw [namesU_iff] at this ⊢
    rwa [setData_eq, List.map_map, show ((fun r : Row ν => r.name) ∘ sdtRow n b) = (fun r => r.name) from
      funext fun r => sdtRow_name n b r]
  · have := h.rids
    simp only [Tab.apply] at this ⊢
    rw [ridsU_iff] at this ⊢
    rwa [setData_eq, List.map_map, show ((fun r : Row ν => r.rid) ∘ sdtRow n b) = (fun r => r.rid) from
      funext fun r => sdtRow_rid n b r]
  · have := h.defu
    simp only [Tab.apply] at this ⊢
    rw [setData_eq, DefU, List.pairwise_map]
    refine List.Pairwise.imp ?_ this
    intro a c hac
    simpa only [sdtRow_dflt, sdtRow_owner] using hac
  · intro r' hr' hnd
    rw [hl]
    simp only [Tab.apply] at hr' hnd
    rw [setData_eq, List.mem_map] at hr'
    obtain ⟨r, hr, rfl⟩ := hr'
    rw [sdtRow_owner] at hnd ⊢
    rw [hasDefault_setData] at hnd
    exact h.lost r hr hnd

end TableLevel
/-! ### Part 2: Hoare logic for `M` (postcondition for normal return, postcondition per exception) -/

section Hoare
variable {α β : Type}

@[simp] theorem run_pure (a : α) (s : Sys) : (pure a : M α).run s = (.ok a, s) := rfl
@[simp] theorem run_bind (m : M α) (f : α → M β) (s : Sys) :
    (m >>= f).run s = match m.run s with
      | (.ok a, s') => (f a).run s'
      | (.error e, s') => (.error e, s') := by
  show M.bind m f s = _
  unfold M.bind M.run
  rcases m s with ⟨_ | _, _⟩ <;> rfl
@[simp] theorem run_raise (e : KErr) (s : Sys) : (raise e : M α).run s = (.error e, s) := rfl
@[simp] theorem run_getS (s : Sys) : getS.run s = (.ok s, s) := rfl
@[simp] theorem run_modS (f : Sys → Sys) (s : Sys) : (modS f).run s = (.ok (), f s) := rfl
theorem run_tick (s : Sys) : tick.run s = match s.fault with
    | none => (.ok (), s)
    | some 0 => (.error .injected, { s with fault := none })
    | some (k + 1) => (.ok (), { s with fault := some k }) := rfl
@[simp] theorem run_mk (f : Sys → Except KErr α × Sys) (s : Sys) : (M.mk f).run s = f s := rfl

def Triple (P : Sys → Prop) (m : M α) (Q : α → Sys → Prop) (E : KErr → Sys → Prop) : Prop :=
  ∀ s, P s → match m.run s with
    | (.ok a, s') => Q a s'
    | (.error e, s') => E e s'

theorem Triple.conseq {P P' : Sys → Prop} {m : M α} {Q Q' : α → Sys → Prop} {E E' : KErr → Sys → Prop}
    (h : Triple P m Q E) (hp : ∀ s, P' s → P s) (hq : ∀ a s, Q a s → Q' a s) (he : ∀ e s, E e s → E' e s) :
    Triple P' m Q' E' := by
  intro s hs
  have := h s (hp s hs)
  rcases hm : m.run s with ⟨_ | _, _⟩ <;> simp only [hm] at this ⊢
  · exact he _ _ this
  · exact hq _ _ this

theorem Triple.bind {P : Sys → Prop} {m : M α} {Q' : α → Sys → Prop} {f : α → M β} {Q : β → Sys → Prop}
    {E : KErr → Sys → Prop} (h1 : Triple P m Q' E) (h2 : ∀ a, Triple (Q' a) (f a) Q E) :
    Triple P (m >>= f) Q E := by
  intro s hs
  have := h1 s hs
  rw [run_bind]
  rcases hm : m.run s with ⟨_ | a, s'⟩ <;> simp only [hm] at this ⊢
  · exact this
  · exact h2 a s' this

theorem Triple.pure {P : Sys → Prop} {a : α} {Q : α → Sys → Prop} {E : KErr → Sys → Prop}
    (h : ∀ s, P s → Q a s) : Triple P (pure a : M α) Q E := fun s hs => h s hs

theorem Triple.raise {P : Sys → Prop} {e : KErr} {Q : α → Sys → Prop} {E : KErr → Sys → Prop}
    (h : ∀ s, P s → E e s) : Triple P (raise e : M α) Q E := fun s hs => h s hs

theorem Triple.getS {P : Sys → Prop} {E : KErr → Sys → Prop} :
    Triple P getS (fun a s => P s ∧ a = s) E := fun s hs => ⟨hs, rfl⟩

theorem Triple.modS {P : Sys → Prop} {f : Sys → Sys} {Q : Unit → Sys → Prop} {E : KErr → Sys → Prop}
    (h : ∀ s, P s → Q () (f s)) : Triple P (modS f) Q E := fun s hs => h s hs

theorem Triple.ofOpt {P : Sys → Prop} {e : KErr} {o : Option α} {Q : α → Sys → Prop} {E : KErr → Sys → Prop}
    (hs : ∀ a s, o = some a → P s → Q a s) (hn : ∀ s, o = none → P s → E e s) : Triple P (ofOpt e o) Q E := by
  cases o with
  | none => exact fun s h => hn s rfl h
  | some a => exact fun s' h => hs a s' rfl h

/-- predicates that do not look at the fault counter -/
def FI (P : Sys → Prop) : Prop := ∀ s f, P s → P { s with fault := f }

theorem Triple.tick {P : Sys → Prop} (h : FI P) : Triple P tick (fun _ => P) (fun _ => P) := by
  intro s hs
  rw [run_tick]
  rcases hf : s.fault with _ | _ | k
  · exact hs
  · exact h s none hs
  · exact h s (some k) hs

/-- invariant preservation: also when the operation raises -/
def Pres (I : Sys → Prop) (m : M α) : Prop := Triple I m (fun _ => I) (fun _ => I)

theorem Pres.bind {I : Sys → Prop} {m : M α} {f : α → M β} (h1 : Pres I m) (h2 : ∀ a, Pres I (f a)) :
    Pres I (m >>= f) := Triple.bind h1 h2
theorem Pres.pure {I : Sys → Prop} (a : α) : Pres I (pure a : M α) := Triple.pure fun _ h => h
theorem Pres.raise {I : Sys → Prop} (e : KErr) : Pres I (raise e : M α) := Triple.raise fun _ h => h
theorem Pres.getS {I : Sys → Prop} : Pres I getS := fun _ hs => hs
theorem Pres.modS {I : Sys → Prop} {f : Sys → Sys} (h : ∀ s, I s → I (f s)) : Pres I (modS f) := Triple.modS h
theorem Pres.ofOpt {I : Sys → Prop} (e : KErr) (o : Option α) : Pres I (ofOpt e o) :=
  Triple.ofOpt (fun _ _ _ h => h) (fun _ _ h => h)
theorem Pres.tick {I : Sys → Prop} (h : FI I) : Pres I tick := Triple.tick h
theorem Pres.raiseIf {I : Sys → Prop} (c : Bool) (e : KErr) : Pres I (raiseIf c e) := by
  unfold Keychain.raiseIf; split
  · exact Pres.raise _
  · exact Pres.pure _
theorem Pres.whenM {I : Sys → Prop} {c : Bool} {m : M Unit} (h : Pres I m) : Pres I (whenM c m) := by
  unfold Keychain.whenM; split
  · exact h
  · exact Pres.pure _
theorem Pres.ite {I : Sys → Prop} {c : Prop} [Decidable c] {a b : M α} (ha : Pres I a) (hb : Pres I b) :
    Pres I (if c then a else b) := by split <;> assumption

end Hoare

/-! ### the private-key directory -/

theorem fileGet_nil (f : FileName) : fileGet [] f = none := rfl

theorem fileGet_cons (e : FileName × Nat) (t : List (FileName × Nat)) (f : FileName) :
    fileGet (e :: t) f = if e.1 = f then some e.2 else fileGet t f := by
  unfold fileGet
  rw [List.find?_cons]
  by_cases h : e.1 = f <;> simp [h]

theorem fileGet_some_mem {t : List (FileName × Nat)} {f : FileName} {p : Nat} (h : fileGet t f = some p) :
    (f, p) ∈ t := by
  induction t with
  | nil => simp [fileGet_nil] at h
  | cons e r ih =>
    rw [fileGet_cons] at h
    split at h
    · rename_i he
      simp only [Option.some.injEq] at h
      rw [← he, ← h]; exact List.mem_cons_self
    · exact List.mem_cons_of_mem _ (ih h)

theorem fileGet_filter {t : List (FileName × Nat)} {q : FileName × Nat → Bool} {f : FileName}
    (h : ∀ e ∈ t, e.1 = f → q e = true) : fileGet (t.filter q) f = fileGet t f := by
  induction t with
  | nil => rfl
  | cons e r ih =>
    have ih := ih fun x hx => h x (List.mem_cons_of_mem _ hx)
    rw [List.filter_cons]
    by_cases he : e.1 = f
    · rw [h e List.mem_cons_self he]
      simp [fileGet_cons, he]
    · split
      · simp [fileGet_cons, he, ih]
      · simp [fileGet_cons, he, ih]

theorem fileGet_filter_none {t : List (FileName × Nat)} {q : FileName × Nat → Bool} {f : FileName}
    (h : ∀ e ∈ t, e.1 = f → q e = false) : fileGet (t.filter q) f = none := by
  induction t with
  | nil => rfl
  | cons e r ih =>
    have ih := ih fun x hx => h x (List.mem_cons_of_mem _ hx)
    rw [List.filter_cons]
    by_cases he : e.1 = f
    · rw [h e List.mem_cons_self he]
      simpa using ih
    · split
      · simp [fileGet_cons, he, ih]
      · exact ih

theorem fileGet_append (t u : List (FileName × Nat)) (f : FileName) :
    fileGet (t ++ u) f = (fileGet t f).or (fileGet u f) := by
  induction t with
  | nil => simp [fileGet_nil]
  | cons e r ih =>
    rw [List.cons_append, fileGet_cons, fileGet_cons]
    split <;> simp [ih]

theorem fileGet_remove_ne {t : List (FileName × Nat)} {f f' : FileName} (h : f' ≠ f) :
    fileGet (removeFile t f) f' = fileGet t f' :=
  fileGet_filter fun e _ he => by simp [he, h]

theorem fileGet_remove_self (t : List (FileName × Nat)) (f : FileName) : fileGet (removeFile t f) f = none :=
  fileGet_filter_none fun e _ he => by simp [he]

theorem fileGet_write (t : List (FileName × Nat)) (f f' : FileName) (p : Nat) :
    fileGet (writeFile t f p) f' = if f' = f then some p else fileGet t f' := by
  unfold writeFile
  rw [fileGet_append]
  by_cases h : f' = f
  · subst h
    rw [fileGet_remove_self]
    simp [fileGet_cons, fileGet_nil]
  · rw [fileGet_remove_ne h]
    have h' : ¬ f = f' := fun e => h e.symm
    simp [fileGet_cons, fileGet_nil, h, h']

theorem mem_writeFile {t : List (FileName × Nat)} {f : FileName} {p : Nat} {e : FileName × Nat}
    (h : e ∈ writeFile t f p) : e ∈ t ∨ e = (f, p) := by
  unfold writeFile removeFile at h
  rw [List.mem_append] at h
  rcases h with h | h
  · exact Or.inl (List.mem_filter.mp h).1
  · simp at h; exact Or.inr h

theorem fileHas_iff {t : List (FileName × Nat)} {f : FileName} : fileHas t f = true ↔ ∃ p, fileGet t f = some p := by
  unfold fileHas; rw [Option.isSome_iff_exists]


/-! ### Part 3: the system invariant and its preservation by every operation (with or without faults) -/

structure DbInv (d : Db) : Prop where
  ids : TabInv false d.ids
  keys : TabInv true d.keys
  certs : TabInv true d.certs


/-- cross-table consistency: every key row hangs below the identity row it is named after, every
    certificate row below an existing key row (no orphans: a re-used row id never adopts leftovers) -/
structure Linked (d : Db) : Prop where
  keyHome : ∀ k ∈ d.keys.rows, ∃ i ∈ d.ids.rows, i.rid = k.owner ∧ i.name = k.name.idn
  certKey : ∀ c ∈ d.certs.rows, ∃ k ∈ d.keys.rows, k.rid = c.owner

theorem Linked.empty : Linked Db.empty := ⟨(fun _ h => by cases h), (fun _ h => by cases h)⟩

theorem ColsSub.trans {ν : Type} {a b c : Table ν} (h1 : ColsSub a b) (h2 : ColsSub b c) : ColsSub a c := by
  intro r hr
  obtain ⟨r1, hr1, hs1⟩ := h1 r hr
  obtain ⟨r2, hr2, hs2⟩ := h2 r1 hr1
  exact ⟨r2, hr2, hs1.1.trans hs2.1, hs1.2.1.trans hs2.2.1, hs1.2.2.trans hs2.2.2⟩

/-- a change that keeps every identity and key row (up to flags), and whose new key / certificate rows have
    a parent -/
theorem Linked.transfer {d d' : Db} (h : Linked d)
    (hi : ColsSub d.ids.rows d'.ids.rows) (hkb : ColsSub d.keys.rows d'.keys.rows)
    (hk : ∀ k' ∈ d'.keys.rows, (∃ k ∈ d.keys.rows, SameCols k k') ∨
      ∃ i ∈ d.ids.rows, i.rid = k'.owner ∧ i.name = k'.name.idn)
    (hc : ∀ c' ∈ d'.certs.rows, (∃ c ∈ d.certs.rows, SameCols c c') ∨ ∃ k ∈ d.keys.rows, k.rid = c'.owner) :
    Linked d' := by
  refine ⟨fun k' hk' => ?_, fun c' hc' => ?_⟩
  · have : ∃ i ∈ d.ids.rows, i.rid = k'.owner ∧ i.name = k'.name.idn := by
      rcases hk k' hk' with ⟨k, hkm, hs⟩ | h'
      · obtain ⟨i, him, h1, h2⟩ := h.keyHome k hkm
        exact ⟨i, him, h1.trans hs.2.1, by rw [h2, hs.2.2]⟩
      · exact h'
    obtain ⟨i, him, h1, h2⟩ := this
    obtain ⟨i', hi'm, hs⟩ := hi i him
    exact ⟨i', hi'm, hs.1.symm.trans h1, hs.2.2.symm.trans h2⟩
  · have : ∃ k ∈ d.keys.rows, k.rid = c'.owner := by
      rcases hc c' hc' with ⟨c, hcm, hs⟩ | h'
      · obtain ⟨k, hkm, h1⟩ := h.certKey c hcm
        exact ⟨k, hkm, h1.trans hs.2.1⟩
      · exact h'
    obtain ⟨k, hkm, h1⟩ := this
    obtain ⟨k', hk'm, hs⟩ := hkb k hkm
    exact ⟨k', hk'm, hs.1.symm.trans h1⟩

theorem Linked.delCerts {d : Db} (h : Linked d) (p : Row CertName → Bool) :
    Linked { d with certs := d.certs.delete true p } :=
  ⟨h.keyHome, fun c hc => h.certKey c (List.mem_filter.mp hc).1⟩

theorem Linked.delKeys {d : Db} (h : Linked d) (p : Row KeyName → Bool)
    (hp : ∀ c ∈ d.certs.rows, ∀ kr ∈ d.keys.rows, p kr = true → c.owner ≠ kr.rid) :
    Linked { d with keys := d.keys.delete true p } := by
  refine ⟨fun k hk => h.keyHome k (List.mem_filter.mp hk).1, fun c hc => ?_⟩
  obtain ⟨k, hkm, h1⟩ := h.certKey c hc
  refine ⟨k, List.mem_filter.mpr ⟨hkm, ?_⟩, h1⟩
  cases hpk : p k
  · rfl
  · exact absurd h1.symm (hp c hc k hkm hpk)

theorem Linked.delIds {d : Db} (h : Linked d) (p : Row Nat → Bool)
    (hp : ∀ k ∈ d.keys.rows, ∀ ir ∈ d.ids.rows, p ir = true → k.owner ≠ ir.rid) :
    Linked { d with ids := d.ids.delete false p } := by
  refine ⟨fun k hk => ?_, h.certKey⟩
  obtain ⟨i, him, h1, h2⟩ := h.keyHome k hk
  refine ⟨i, List.mem_filter.mpr ⟨him, ?_⟩, h1, h2⟩
  cases hpi : p i
  · rfl
  · exact absurd h1.symm (hp k hk i him hpi)

/-- every key row has its private-key file, and the file holds the private key that belongs to the public
    key in the row (`key_bits`) -/
def Matched (fn : KeyName → FileName) (t : List (FileName × Nat)) (d : Db) : Prop :=
  ∀ r ∈ d.keys.rows, fileGet t (fn r.name) = some r.data

theorem Matched.empty (fn : KeyName → FileName) (t : List (FileName × Nat)) : Matched fn t Db.empty :=
  fun _ h => by cases h

theorem Matched.sub {fn : KeyName → FileName} {t : List (FileName × Nat)} {d d' : Db} (h : Matched fn t d)
    (hs : NameData d.keys.rows d'.keys.rows) : Matched fn t d' := by
  intro r' hr'
  obtain ⟨r, hr, h1, h2⟩ := hs r' hr'
  rw [← h1, ← h2]; exact h r hr

theorem fileGet_write_of_some {t : List (FileName × Nat)} {f f' : FileName} {p q : Nat}
    (hf : fileGet t f = none) (h : fileGet t f' = some q) : fileGet (writeFile t f p) f' = some q := by
  rw [fileGet_write]
  split
  · rename_i e; rw [e, hf] at h; cases h
  · exact h

/-- a file that did not exist is written -/
theorem Matched.write {fn : KeyName → FileName} {t : List (FileName × Nat)} {d : Db} {f : FileName} (p : Nat)
    (h : Matched fn t d) (hf : fileGet t f = none) : Matched fn (writeFile t f p) d :=
  fun r hr => fileGet_write_of_some hf (h r hr)

/-! #### the key names in the database, and their file names -/

/-- the key names stored in the database (as the connection sees it, and as committed) -/
def KN (s : Sys) : List KeyName := (s.cur.keys.rows ++ s.com.keys.rows).map (·.name)

/-- no two different key names in the database have the same private-key file name -/
def FD (s : Sys) : Prop := ∀ a ∈ KN s, ∀ b ∈ KN s, s.cfg.fn a = s.cfg.fn b → a = b

/-- no other key name in the database has `k`'s private-key file name -/
def Alone (k : KeyName) (s : Sys) : Prop := ∀ a ∈ KN s, s.cfg.fn a = s.cfg.fn k → a = k

theorem mem_KN {s : Sys} {a : KeyName} :
    a ∈ KN s ↔ (∃ r ∈ s.cur.keys.rows, r.name = a) ∨ (∃ r ∈ s.com.keys.rows, r.name = a) := by
  simp only [KN, List.mem_map, List.mem_append]
  constructor
  · rintro ⟨r, hr | hr, e⟩
    · exact Or.inl ⟨r, hr, e⟩
    · exact Or.inr ⟨r, hr, e⟩
  · rintro (⟨r, hr, e⟩ | ⟨r, hr, e⟩)
    · exact ⟨r, Or.inl hr, e⟩
    · exact ⟨r, Or.inr hr, e⟩

theorem FD.mono {s s' : Sys} (hc : s'.cfg = s.cfg) (hk : ∀ a ∈ KN s', a ∈ KN s) (h : FD s) : FD s' := by
  intro a ha b hb e
  rw [hc] at e
  exact h a (hk a ha) b (hk b hb) e

theorem Alone.mono {k : KeyName} {s s' : Sys} (hc : s'.cfg = s.cfg) (hk : ∀ a ∈ KN s', a ∈ KN s) (h : Alone k s) :
    Alone k s' := by
  intro a ha e
  rw [hc] at e
  exact h a (hk a ha) e

theorem FD.alone {s : Sys} {k : KeyName} (h : FD s) (hk : k ∈ KN s) : Alone k s :=
  fun a ha e => h a ha k hk e

theorem FD.fi : FI FD := fun _ _ h => h
theorem Alone.fi (k : KeyName) : FI (Alone k) := fun _ _ h => h

/-- the key names after a write to the database that adds no key name -/
theorem KN_cur_nd {s : Sys} {d : Db} (h : NameData s.cur.keys.rows d.keys.rows) :
    ∀ a ∈ KN { s with cur := d }, a ∈ KN s := by
  intro a ha
  rw [mem_KN] at ha ⊢
  rcases ha with ⟨r, hr, e⟩ | ⟨r, hr, e⟩
  · obtain ⟨r0, hr0, e0, _⟩ := h r hr
    exact Or.inl ⟨r0, hr0, e0.trans e⟩
  · exact Or.inr ⟨r, hr, e⟩

theorem KN_commit {s : Sys} : ∀ a ∈ KN { s with com := s.cur }, a ∈ KN s := by
  intro a ha
  rw [mem_KN] at ha ⊢
  rcases ha with ha | ha
  · exact Or.inl ha
  · exact Or.inl ha

theorem KN_reopen {s : Sys} : ∀ a ∈ KN { s with cur := s.com, cache := [] }, a ∈ KN s := by
  intro a ha
  rw [mem_KN] at ha ⊢
  rcases ha with ha | ha
  · exact Or.inr ha
  · exact Or.inr ha

/-- properties of (private-key directory, number of key pairs generated) that survive writing the next key
    pair to a file and removing files -/
structure JOk (J : List (FileName × Nat) → Nat → Prop) : Prop where
  write : ∀ t n f, J t n → J (writeFile t f n) (n + 1)
  filt : ∀ t n (p : FileName × Nat → Bool), J t n → J (t.filter p) n

theorem JOk.trivial : JOk (fun _ _ => True) := ⟨fun _ _ _ _ => True.intro, fun _ _ _ _ => True.intro⟩

/-- the invariant, with a slot `J` for an additional property of (private-key directory, number of key pairs) -/
structure SysInv (J : List (FileName × Nat) → Nat → Prop) (s : Sys) : Prop where
  cur : DbInv s.cur
  com : DbInv s.com
  /-- a cached signer is the one `tpm.get_signer(key, locator)` would return now: the key's file still holds
      the private key the signer loaded -/
  cache : ∀ e ∈ s.cache, e.2.key = e.1.1 ∧ e.2.loc = e.1.2 ∧ fileGet s.tpm (s.cfg.fn e.1.1) = some e.2.priv
  /-- the key pairs in the private-key directory have been generated -/
  kids : ∀ e ∈ s.tpm, e.2 < s.nextKid
  /-- no private key is stored in two files -/
  privs : s.tpm.Pairwise fun a b => a.2 ≠ b.2
  /-- every key row (seen by the connection, and committed) has its private-key file, holding the private key
      of the row's public key -/
  matched : Matched s.cfg.fn s.tpm s.cur ∧ Matched s.cfg.fn s.tpm s.com
  /-- `TpmFile.generate_key` as repaired -/
  guard : s.cfg.guard = true
  /-- no two different key names in the database have the same private-key file name (the repaired `generate_key`
      refuses a name whose file exists, so this holds for EVERY file-name function - also for one with collisions) -/
  fd : FD s
  /-- no orphan rows, keys hang below the identity they are named after -/
  link : Linked s.cur ∧ Linked s.com
  extra : J s.tpm s.nextKid

variable {J : List (FileName × Nat) → Nat → Prop}

theorem SysInv.init (fn : KeyName → FileName) (h : J [] 0) : SysInv J (Sys.init fn) :=
  { cur := ⟨TabInv.empty _, TabInv.empty _, TabInv.empty _⟩
    com := ⟨TabInv.empty _, TabInv.empty _, TabInv.empty _⟩
    cache := fun _ h => by cases h
    kids := fun _ h => by cases h
    privs := List.Pairwise.nil
    matched := ⟨Matched.empty _ _, Matched.empty _ _⟩
    guard := rfl
    fd := fun _ h => by cases h
    link := ⟨Linked.empty, Linked.empty⟩
    extra := h }

theorem SysInv.fi : FI (SysInv J) :=
  fun _ _ h => ⟨h.cur, h.com, h.cache, h.kids, h.privs, h.matched, h.guard, h.fd, h.link, h.extra⟩

theorem SysInv.withJ {J' : List (FileName × Nat) → Nat → Prop} {s : Sys} (h : SysInv J s) (h' : J' s.tpm s.nextKid) :
    SysInv J' s := ⟨h.cur, h.com, h.cache, h.kids, h.privs, h.matched, h.guard, h.fd, h.link, h'⟩

theorem updIds_eq : updSetDefault (ν := Nat) (trs .identities) = setDefaultCF false := by
  funext n t; exact upd_ids n t
theorem updKeys_eq : updSetDefault (ν := KeyName) (trs .keys) = setDefaultCF true := by
  funext n t; exact upd_keys n t
theorem updCerts_eq : updSetDefault (ν := CertName) (trs .certificates) = setDefaultCF true := by
  funext n t; exact upd_certs n t

/-- a database write that keeps the per-table invariants and neither adds key rows nor changes their payload -/
theorem pres_modCur {f : Db → Db} (hf : ∀ d, DbInv d → DbInv (f d))
    (hk : ∀ d, NameData d.keys.rows (f d).keys.rows) (hl : ∀ d, DbInv d → Linked d → Linked (f d)) :
    Pres (SysInv J) (modCur f) :=
  Pres.modS fun s h => ⟨hf _ h.cur, h.com, h.cache, h.kids, h.privs, ⟨h.matched.1.sub (hk _), h.matched.2⟩, h.guard,
    FD.mono (s := s) rfl (KN_cur_nd (hk _)) h.fd, ⟨hl _ h.cur h.link.1, h.link.2⟩, h.extra⟩

theorem pres_tick : Pres (SysInv J) tick := Pres.tick SysInv.fi

theorem pres_commit : Pres (SysInv J) commit :=
  Pres.bind pres_tick fun _ => Pres.modS fun s h =>
    ⟨h.cur, h.cur, h.cache, h.kids, h.privs, ⟨h.matched.1, h.matched.1⟩, h.guard, FD.mono (s := s) rfl KN_commit h.fd,
      ⟨h.link.1, h.link.1⟩, h.extra⟩

theorem pres_execSetDefaultId (n : Nat) : Pres (SysInv J) (execSetDefaultId n) :=
  Pres.bind pres_tick fun _ => pres_modCur (fun d h => by
    rw [updIds_eq]; exact ⟨h.ids.setDefault n, h.keys, h.certs⟩) (fun _ => NameData.refl _) (fun d _ hl => by
    rw [updIds_eq]
    exact hl.transfer (setDefaultCF_bwd _ _ _) (ColsSub.refl _) (fun k hk => Or.inl ⟨k, hk, rfl, rfl, rfl⟩)
      (fun c hc => Or.inl ⟨c, hc, rfl, rfl, rfl⟩))

theorem pres_execSetDefaultKey (k : KeyName) : Pres (SysInv J) (execSetDefaultKey k) :=
  Pres.bind pres_tick fun _ => pres_modCur (fun d h => by
    rw [updKeys_eq]; exact ⟨h.ids, h.keys.setDefault k, h.certs⟩)
    (fun d => by rw [updKeys_eq]; exact setDefaultCF_nameData _ _ _) (fun d _ hl => by
    rw [updKeys_eq]
    refine hl.transfer (ColsSub.refl _) (setDefaultCF_bwd _ _ _) (fun k' hk' => ?_)
      (fun c hc => Or.inl ⟨c, hc, rfl, rfl, rfl⟩)
    obtain ⟨k0, hk0, hs⟩ := setDefaultCF_fwd _ _ _ k' hk'
    exact Or.inl ⟨k0, hk0, hs.1.symm, hs.2.1.symm, hs.2.2.symm⟩)

theorem pres_execSetDefaultCert (c : CertName) : Pres (SysInv J) (execSetDefaultCert c) :=
  Pres.bind pres_tick fun _ => pres_modCur (fun d h => by
    rw [updCerts_eq]; exact ⟨h.ids, h.keys, h.certs.setDefault c⟩) (fun _ => NameData.refl _) (fun d _ hl => by
    rw [updCerts_eq]
    refine hl.transfer (ColsSub.refl _) (ColsSub.refl _) (fun k hk => Or.inl ⟨k, hk, rfl, rfl, rfl⟩) (fun c' hc' => ?_)
    obtain ⟨c0, hc0, hs⟩ := setDefaultCF_fwd _ _ _ c' hc'
    exact Or.inl ⟨c0, hc0, hs.1.symm, hs.2.1.symm, hs.2.2.symm⟩)

theorem pres_execInsertId (n : Nat) : Pres (SysInv J) (execInsertId n) := by
  refine Pres.bind pres_tick fun _ => Triple.bind (Q' := fun a s => SysInv J s ∧ a = s) Triple.getS fun a => ?_
  split
  · exact Triple.raise fun _ h => h.1
  · rename_i t ht
    refine Triple.modS fun s h => ?_
    obtain ⟨h, rfl⟩ := h
    rw [ins_ids] at ht
    refine ⟨⟨h.cur.ids.insert ht, h.cur.keys, h.cur.certs⟩, h.com, h.cache, h.kids, h.privs, h.matched, h.guard, h.fd,
      ⟨?_, h.link.2⟩, h.extra⟩
    exact h.link.1.transfer (d' := { a.cur with ids := a.cur.ids.apply false fun _ => t }) (insertCF_bwd ht)
      (ColsSub.refl _) (fun k hk => Or.inl ⟨k, hk, rfl, rfl, rfl⟩) (fun c hc => Or.inl ⟨c, hc, rfl, rfl, rfl⟩)

/-- the identity row `o` below which a key named `k` may be inserted -/
def KeyParent (o : Nat) (k : KeyName) (s : Sys) : Prop := ∃ i ∈ s.cur.ids.rows, i.rid = o ∧ i.name = k.idn

/-- inserting a key row needs the private key of its public key in the key's file, no other stored key name with
    that file name, and its parent identity row -/
theorem triple_execInsertKey (o : Nat) (k : KeyName) (b : Nat) :
    Triple (fun s => SysInv J s ∧ (fileGet s.tpm (s.cfg.fn k) = some b ∧ Alone k s) ∧ KeyParent o k s) (execInsertKey o k b)
      (fun _ => SysInv J) (fun _ => SysInv J) := by
  refine Triple.bind (Q' := fun _ s => SysInv J s ∧ (fileGet s.tpm (s.cfg.fn k) = some b ∧ Alone k s) ∧ KeyParent o k s)
    (Triple.conseq (Triple.tick (P := fun s => SysInv J s ∧ (fileGet s.tpm (s.cfg.fn k) = some b ∧ Alone k s) ∧ KeyParent o k s)
      fun s f h => ⟨SysInv.fi s f h.1, h.2⟩)
      (fun _ h => h) (fun _ _ h => h) (fun _ _ h => h.1)) fun _ => ?_
  refine Triple.bind (Q' := fun a s => (SysInv J s ∧ (fileGet s.tpm (s.cfg.fn k) = some b ∧ Alone k s) ∧ KeyParent o k s) ∧ a = s)
    Triple.getS fun a => ?_
  split
  · exact Triple.raise fun _ h => h.1.1
  · rename_i t ht
    refine Triple.modS fun s h => ?_
    obtain ⟨⟨h, ⟨hk, hal⟩, hpar⟩, rfl⟩ := h
    rw [ins_keys] at ht
    have hnames : ∀ x ∈ KN { a with cur := { a.cur with keys := a.cur.keys.apply true fun _ => setData k b t } },
        x = k ∨ x ∈ KN a := by
      intro x hx
      rw [mem_KN] at hx
      rcases hx with ⟨r, hr, e⟩ | ⟨r, hr, e⟩
      · have hr : r ∈ setData k b t := hr
        rcases setData_mem hr with ⟨e1, _⟩ | ⟨hm, hne⟩
        · exact Or.inl (e.symm.trans e1)
        · rcases insertCF_nameData ht hm with ⟨r0, hr0, e1, _⟩ | e1
          · exact Or.inr (mem_KN.mpr (Or.inl ⟨r0, hr0, e1.trans e⟩))
          · exact absurd e1 hne
      · exact Or.inr (mem_KN.mpr (Or.inr ⟨r, hr, e⟩))
    refine ⟨⟨h.cur.ids, (h.cur.keys.insert ht).setData k b, h.cur.certs⟩, h.com, h.cache, h.kids, h.privs,
      ⟨fun r hr => ?_, h.matched.2⟩, h.guard, ?_, ⟨?_, h.link.2⟩, h.extra⟩
    · have hr : r ∈ setData k b t := hr
      rcases setData_mem hr with ⟨e1, e2⟩ | ⟨hm, hne⟩
      · show fileGet a.tpm (a.cfg.fn r.name) = some r.data
        rw [e1, e2]; exact hk
      · rcases insertCF_nameData ht hm with ⟨r0, hr0, e1, e2⟩ | e
        · show fileGet a.tpm (a.cfg.fn r.name) = some r.data
          rw [← e1, ← e2]; exact h.matched.1 r0 hr0
        · exact absurd e hne
    · intro x hx y hy e
      have e : a.cfg.fn x = a.cfg.fn y := e
      rcases hnames x hx with rfl | hx' <;> rcases hnames y hy with rfl | hy'
      · rfl
      · exact (hal y hy' e.symm).symm
      · exact hal x hx' e
      · exact h.fd x hx' y hy' e
    · refine h.link.1.transfer (d' := { a.cur with keys := a.cur.keys.apply true fun _ => setData k b t }) (ColsSub.refl _)
        ((insertCF_bwd ht).trans (setData_bwd k b t)) (fun k' hk' => ?_) (fun c hc => Or.inl ⟨c, hc, rfl, rfl, rfl⟩)
      obtain ⟨k1, hk1, hs1⟩ := setData_fwd k b t k' hk'
      rcases insertCF_fwd ht hk1 with ⟨k0, hk0, hs⟩ | ⟨h1, h2⟩
      · exact Or.inl ⟨k0, hk0, hs.1.trans hs1.1.symm, hs.2.1.trans hs1.2.1.symm, hs.2.2.trans hs1.2.2.symm⟩
      · obtain ⟨i, hi, hi1, hi2⟩ := hpar
        exact Or.inr ⟨i, hi, by rw [hi1, hs1.2.1, h1], by rw [hi2, hs1.2.2, h2]⟩

theorem pres_execInsertCert (k : KeyName) (c : CertName) : Pres (SysInv J) (execInsertCert k c) := by
  refine Pres.bind pres_tick fun _ => Triple.bind (Q' := fun a s => SysInv J s ∧ a = s) Triple.getS fun a => ?_
  split
  · exact Triple.raise fun _ h => h.1
  · split
    · exact Triple.raise fun _ h => h.1
    · rename_i t ht
      refine Triple.modS fun s h => ?_
      obtain ⟨h, rfl⟩ := h
      rename_i kr hkr _
      rw [ins_certs] at ht
      refine ⟨⟨h.cur.ids, h.cur.keys, h.cur.certs.insert ht⟩, h.com, h.cache, h.kids, h.privs, h.matched, h.guard, h.fd,
        ⟨?_, h.link.2⟩, h.extra⟩
      refine h.link.1.transfer (d' := { a.cur with certs := a.cur.certs.apply true fun _ => t }) (ColsSub.refl _)
        (ColsSub.refl _) (fun k hk => Or.inl ⟨k, hk, rfl, rfl, rfl⟩) (fun c' hc' => ?_)
      rcases insertCF_fwd ht hc' with ⟨c0, hc0, hs⟩ | ⟨h1, _⟩
      · exact Or.inl ⟨c0, hc0, hs⟩
      · exact Or.inr ⟨kr, List.mem_of_find?_eq_some hkr, h1.symm⟩

/-- lookups read only: any predicate of the state is kept, and the row found is in the table -/
theorem frame_lookupId {P : Sys → Prop} (n : Nat) :
    Triple P (lookupId n) (fun i s => P s ∧ i ∈ s.cur.ids.rows ∧ i.name = n) (fun _ => P) := by
  unfold lookupId
  refine Triple.bind (Q' := fun a s => P s ∧ a = s) Triple.getS fun a => ?_
  refine Triple.ofOpt (fun i s ho h => ?_) (fun _ _ h => h.1)
  obtain ⟨h, rfl⟩ := h
  have := List.find?_some ho
  exact ⟨h, List.mem_of_find?_eq_some ho, by simpa using this⟩

theorem frame_lookupKey {P : Sys → Prop} (k : KeyName) :
    Triple P (lookupKey k) (fun kr s => P s ∧ kr ∈ s.cur.keys.rows ∧ kr.name = k) (fun _ => P) := by
  unfold lookupKey
  refine Triple.bind (Q' := fun _ => P) (Triple.conseq (frame_lookupId (P := P) _) (fun _ h => h) (fun _ _ h => h.1)
    (fun _ _ h => h)) fun i => ?_
  refine Triple.bind (Q' := fun a s => P s ∧ a = s) Triple.getS fun a => ?_
  refine Triple.ofOpt (fun kr s ho h => ?_) (fun _ _ h => h.1)
  obtain ⟨h, rfl⟩ := h
  have := List.find?_some ho
  simp only [Bool.and_eq_true, decide_eq_true_eq] at this
  exact ⟨h, List.mem_of_find?_eq_some ho, this.1⟩

theorem pres_lookupId (n : Nat) : Pres (SysInv J) (lookupId n) :=
  Pres.bind Pres.getS fun _ => Pres.ofOpt _ _

theorem triple_lookupId (n : Nat) :
    Triple (SysInv J) (lookupId n) (fun i s => SysInv J s ∧ i ∈ s.cur.ids.rows ∧ i.name = n) (fun _ => SysInv J) :=
  frame_lookupId n

theorem triple_lookupKey (k : KeyName) :
    Triple (SysInv J) (lookupKey k) (fun kr s => SysInv J s ∧ kr ∈ s.cur.keys.rows ∧ kr.name = k)
      (fun _ => SysInv J) := frame_lookupKey k

theorem pres_lookupKey (k : KeyName) : Pres (SysInv J) (lookupKey k) :=
  Pres.bind (pres_lookupId _) fun _ => Pres.bind Pres.getS fun _ => Pres.ofOpt _ _

theorem pres_setDefaultIdentity (n : Nat) : Pres (SysInv J) (setDefaultIdentity n) :=
  Pres.bind (pres_execSetDefaultId n) fun _ => pres_commit

theorem pres_newIdentity (n : Nat) : Pres (SysInv J) (newIdentity n) := by
  unfold newIdentity
  refine Pres.bind Pres.getS fun _ => Pres.bind (Pres.raiseIf _ _) fun _ =>
    Pres.bind (pres_execInsertId n) fun _ => Pres.bind pres_commit fun _ => Pres.bind Pres.getS fun _ =>
    Pres.bind (Pres.whenM (pres_setDefaultIdentity n)) fun _ =>
    Pres.bind (pres_lookupId n) fun _ => Pres.pure _

/-- the state after `save_key` wrote the next key pair to a file that did not exist -/
theorem SysInv.written (hJ : JOk J) {s : Sys} (h : SysInv J s) {f : FileName} (hf : fileGet s.tpm f = none) :
    SysInv J { s with nextKid := s.nextKid + 1, tpm := writeFile s.tpm f s.nextKid } := by
  refine ⟨h.cur, h.com, fun e he => ?_, fun e he => ?_, ?_, ⟨h.matched.1.write _ hf, h.matched.2.write _ hf⟩, h.guard,
    h.fd, h.link, hJ.write _ _ _ h.extra⟩
  · obtain ⟨h1, h2, h3⟩ := h.cache e he
    exact ⟨h1, h2, fileGet_write_of_some hf h3⟩
  · rcases mem_writeFile he with he | rfl
    · have := h.kids e he
      show e.2 < s.nextKid + 1
      omega
    · show s.nextKid < s.nextKid + 1
      omega
  · show (removeFile s.tpm f ++ [(f, s.nextKid)]).Pairwise _
    rw [List.pairwise_append]
    refine ⟨List.Pairwise.filter _ h.privs, List.pairwise_singleton _ _, fun a ha b hb => ?_⟩
    simp only [List.mem_singleton] at hb
    subst hb
    have := h.kids a (List.mem_filter.mp ha).1
    show a.2 ≠ s.nextKid
    omega

theorem pres_newKey (hJ : JOk J) (n : Nat) (bad : Bool) (spec : KeyIdSpec) : Pres (SysInv J) (newKey n bad spec) := by
  unfold newKey
  refine Triple.bind (triple_lookupId n) fun i => ?_
  -- the parent row stays where it is until the key row is inserted
  let A : Sys → Prop := fun s => SysInv J s ∧ i ∈ s.cur.ids.rows ∧ i.name = n
  have fiA : FI A := fun s f h => ⟨SysInv.fi s f h.1, h.2⟩
  have tickA : Triple A Keychain.tick (fun _ => A) (fun _ => SysInv J) :=
    Triple.conseq (Triple.tick fiA) (fun _ h => h) (fun _ _ h => h) (fun _ _ h => h.1)
  have raiseIfA : ∀ c e, Triple A (raiseIf c e) (fun _ => A) (fun _ => SysInv J) := by
    intro c e; unfold raiseIf; split
    · exact Triple.raise fun _ h => h.1
    · exact Triple.pure fun _ h => h
  refine Triple.bind (Q' := fun _ => A) tickA fun _ => Triple.bind (Q' := fun _ => A) (raiseIfA _ _) fun _ =>
    Triple.bind (Q' := fun a s => A s ∧ a = s) Triple.getS fun a => ?_
  refine Triple.bind (Q' := fun _ s => A s ∧ a = s) (Triple.ofOpt (fun _ _ _ h => h) (fun _ _ h => h.1.1)) fun kid => ?_
  -- the repaired `generate_key` goes on only when the key name has no file
  refine Triple.bind (Q' := fun _ s => (A s ∧ a = s) ∧ fileGet a.tpm (a.cfg.fn ⟨n, kid⟩) = none) ?_ fun _ => ?_
  · unfold raiseIf; split
    · exact Triple.raise fun _ h => h.1.1
    · rename_i hc
      refine Triple.pure fun s h => ⟨h, ?_⟩
      obtain ⟨⟨hi, _⟩, rfl⟩ := h
      rw [hi.guard, Bool.true_and] at hc
      cases hx : fileGet a.tpm (a.cfg.fn ⟨n, kid⟩) with
      | none => rfl
      | some q => exact absurd (by simp [fileHas, hx]) hc
  let B : Sys → Prop := fun s => A s ∧ s.cfg = a.cfg ∧ fileGet s.tpm (a.cfg.fn ⟨n, kid⟩) = some a.nextKid ∧
    Alone ⟨n, kid⟩ s
  have fiB : FI B := fun s f h => ⟨fiA s f h.1, h.2⟩
  refine Triple.bind (Q' := fun _ => B) (Triple.modS fun s h => ?_) fun _ => ?_
  · obtain ⟨⟨⟨h, hi⟩, rfl⟩, hf⟩ := h
    refine ⟨⟨h.written hJ hf, hi⟩, rfl, by show fileGet (writeFile _ _ _) _ = _; rw [fileGet_write]; simp, ?_⟩
    -- every stored key name has its file: none of them has the file name that was free a moment ago
    intro x hx e
    have e : a.cfg.fn x = a.cfg.fn ⟨n, kid⟩ := e
    have hx : x ∈ KN a := hx
    rw [mem_KN] at hx
    rcases hx with ⟨r, hr, rfl⟩ | ⟨r, hr, rfl⟩
    · have := h.matched.1 r hr
      rw [e, hf] at this; cases this
    · have := h.matched.2 r hr
      rw [e, hf] at this; cases this
  · refine Triple.bind (Q' := fun _ => B)
      (Triple.conseq (Triple.tick fiB) (fun _ h => h) (fun _ _ h => h) (fun _ _ h => h.1.1)) fun _ => ?_
    refine Triple.bind (Q' := fun _ => B) (fun s h => h) fun _ => ?_
    refine Triple.bind (Q' := fun _ => B) ?_ fun _ => ?_
    · unfold raiseIf; split
      · exact Triple.raise fun _ h => h.1.1
      · exact Triple.pure fun _ h => h
    · refine Triple.bind (Q' := fun _ s => SysInv J s)
        (Triple.conseq (triple_execInsertKey i.rid ⟨n, kid⟩ a.nextKid)
          (fun s h => ⟨h.1.1, ⟨by rw [h.2.1]; exact h.2.2.1, h.2.2.2⟩, i, h.1.2.1, rfl, h.1.2.2⟩) (fun _ _ h => h) (fun _ _ h => h)) fun _ => ?_
      exact Pres.bind (pres_execInsertCert _ _) fun _ =>
        Pres.bind pres_commit fun _ => Pres.bind Pres.getS fun _ =>
        Pres.bind (Pres.whenM (Pres.bind (pres_execSetDefaultKey _) fun _ => pres_commit)) fun _ =>
        Pres.bind Pres.getS fun _ => Pres.bind (Pres.ofOpt _ _) fun _ => Pres.pure _

theorem pres_touchIdentity (hJ : JOk J) (n : Nat) : Pres (SysInv J) (touchIdentity n) := by
  unfold touchIdentity
  refine Pres.bind Pres.getS fun _ =>
    Pres.bind (Pres.whenM (Pres.bind (pres_execInsertId n) fun _ => Pres.bind pres_commit fun _ => pres_newKey hJ n false .random)) fun _ =>
    Pres.bind Pres.getS fun _ => Pres.bind (Pres.whenM (pres_setDefaultIdentity n)) fun _ =>
    Pres.bind (pres_lookupId n) fun _ => Pres.pure _

theorem pres_importCert (k : KeyName) (c : CertName) : Pres (SysInv J) (importCert k c) :=
  Pres.bind (pres_execInsertCert k c) fun _ => pres_commit

theorem pres_setDefaultKey (v : Nat) (k : KeyName) : Pres (SysInv J) (setDefaultKey v k) :=
  Pres.bind (pres_lookupId v) fun _ => Pres.bind (pres_execSetDefaultKey k) fun _ => pres_commit

theorem pres_setDefaultCert (v : KeyName) (c : CertName) : Pres (SysInv J) (setDefaultCert v c) :=
  Pres.bind (pres_lookupKey v) fun _ => Pres.bind (pres_execSetDefaultCert c) fun _ => pres_commit

theorem pres_clearCache : Pres (SysInv J) clearCache :=
  Pres.modS fun _ h => ⟨h.cur, h.com, (fun _ he => by cases he), h.kids, h.privs, h.matched, h.guard, h.fd, h.link, h.extra⟩

theorem pres_delCert (c : CertName) : Pres (SysInv J) (delCert c) :=
  Pres.bind pres_tick fun _ =>
    Pres.bind (pres_modCur (fun _ h => ⟨h.ids, h.keys, h.certs.delete _⟩) (fun _ => NameData.refl _)
      (fun _ _ hl => hl.delCerts _)) fun _ =>
    Pres.bind pres_commit fun _ => pres_clearCache

/-- no key row is named `k` -/
def NoRow (k : KeyName) (d : Db) : Prop := ∀ r ∈ d.keys.rows, r.name ≠ k

/-- `tpm.delete_key(k)` and the emptying of the signer cache, once no key row named `k` is left and no other
    key name in the database shares `k`'s file -/
theorem SysInv.fileRemoved (hJ : JOk J) {s : Sys} {k : KeyName} (h : SysInv J s) (ha : Alone k s)
    (h1 : NoRow k s.cur) (h2 : NoRow k s.com) :
    SysInv J { s with tpm := removeFile s.tpm (s.cfg.fn k), cache := [] } := by
  have key : ∀ d : Db, (∀ r ∈ d.keys.rows, r.name ∈ KN s) → NoRow k d → Matched s.cfg.fn s.tpm d →
      Matched s.cfg.fn (removeFile s.tpm (s.cfg.fn k)) d := by
    intro d hsub hno hm r hr
    rw [fileGet_remove_ne]
    · exact hm r hr
    · intro e
      exact hno r hr (ha _ (hsub r hr) e)
  refine ⟨h.cur, h.com, (fun _ he => by cases he), fun x hx => h.kids x (List.mem_filter.mp hx).1,
    List.Pairwise.filter _ h.privs, ⟨key _ (fun r hr => mem_KN.mpr (Or.inl ⟨r, hr, rfl⟩)) h1 h.matched.1,
      key _ (fun r hr => mem_KN.mpr (Or.inr ⟨r, hr, rfl⟩)) h2 h.matched.2⟩, h.guard, h.fd, h.link, hJ.filt _ _ _ h.extra⟩

/-- `del_key` keeps the invariant: the file it removes is nobody else's -/
theorem pres_delKey (hJ : JOk J) (k : KeyName) : Pres (SysInv J) (delKey k) := by
  unfold delKey
  refine Triple.bind (triple_lookupKey k) fun kr => ?_
  let A : Sys → Prop := fun s => SysInv J s ∧ Alone k s ∧ kr ∈ s.cur.keys.rows ∧ kr.name = k
  have fiA : FI A := fun s f h => ⟨SysInv.fi s f h.1, h.2⟩
  refine Triple.conseq (P := A) ?_ (fun s h => ⟨h.1, h.1.fd.alone (mem_KN.mpr (Or.inl ⟨kr, h.2.1, h.2.2⟩)), h.2⟩)
    (fun _ _ h => h) (fun _ _ h => h)
  refine Triple.bind (Q' := fun _ => A)
    (Triple.conseq (Triple.tick fiA) (fun _ h => h) (fun _ _ h => h) (fun _ _ h => h.1)) fun _ => ?_
  -- after the certificates below the key row are gone, the key row can go
  let B : Sys → Prop := fun s => A s ∧ ∀ c ∈ s.cur.certs.rows, c.owner ≠ kr.rid
  have fiB : FI B := fun s f h => ⟨fiA s f h.1, h.2⟩
  refine Triple.bind (Q' := fun _ => B) (Triple.modS fun s h => ?_) fun _ => ?_
  · obtain ⟨h, hal, hk⟩ := h
    refine ⟨⟨⟨⟨h.cur.ids, h.cur.keys, h.cur.certs.delete _⟩, h.com, h.cache, h.kids, h.privs, h.matched, h.guard, h.fd,
      ⟨h.link.1.delCerts _, h.link.2⟩, h.extra⟩, hal, hk⟩, fun c hc => ?_⟩
    have := (List.mem_filter.mp hc).2
    simpa using this
  refine Triple.bind (Q' := fun _ => B)
    (Triple.conseq (Triple.tick fiB) (fun _ h => h) (fun _ _ h => h) (fun _ _ h => h.1.1)) fun _ => ?_
  -- the key row is deleted
  let C : Sys → Prop := fun s => SysInv J s ∧ Alone k s ∧ NoRow k s.cur
  have fiC : FI C := fun s f h => ⟨SysInv.fi s f h.1, h.2⟩
  refine Triple.bind (Q' := fun _ => C) (Triple.modS fun s h => ?_) fun _ => ?_
  · obtain ⟨⟨h, hal, hkm, hkn⟩, hc⟩ := h
    have hsub : ∀ a ∈ KN { s with cur := { s.cur with keys := s.cur.keys.delete true fun r => r.name = k } }, a ∈ KN s :=
      KN_cur_nd (NameData.filter _ _)
    refine ⟨⟨⟨h.cur.ids, h.cur.keys.delete _, h.cur.certs⟩, h.com, h.cache, h.kids, h.privs,
      ⟨h.matched.1.sub (NameData.filter _ _), h.matched.2⟩, h.guard, FD.mono (s := s) rfl hsub h.fd, ⟨?_, h.link.2⟩, h.extra⟩,
      Alone.mono (s := s) rfl hsub hal, fun r hr => ?_⟩
    · refine h.link.1.delKeys _ fun c hcm kr' hkr' hp => ?_
      have hn : kr'.name = k := by simpa using hp
      have : kr' = kr := eq_of_name_eq h.cur.keys.names hkr' hkm (hn.trans hkn.symm)
      rw [this]; exact hc c hcm
    · have := (List.mem_filter.mp hr).2
      simpa using this
  -- committed: no key row named `k` anywhere
  let D : Sys → Prop := fun s => SysInv J s ∧ Alone k s ∧ NoRow k s.cur ∧ NoRow k s.com
  have fiD : FI D := fun s f h => ⟨SysInv.fi s f h.1, h.2⟩
  refine Triple.bind (Q' := fun _ => D) ?_ fun _ => ?_
  · unfold commit
    refine Triple.bind (Q' := fun _ => C)
      (Triple.conseq (Triple.tick fiC) (fun _ h => h) (fun _ _ h => h) (fun _ _ h => h.1)) fun _ => ?_
    refine Triple.modS fun s h => ?_
    obtain ⟨h, hal, hno⟩ := h
    exact ⟨⟨h.cur, h.cur, h.cache, h.kids, h.privs, ⟨h.matched.1, h.matched.1⟩, h.guard, FD.mono (s := s) rfl KN_commit h.fd,
      ⟨h.link.1, h.link.1⟩, h.extra⟩, Alone.mono (s := s) rfl KN_commit hal, hno, hno⟩
  refine Triple.bind (Q' := fun _ => D)
    (Triple.conseq (Triple.tick fiD) (fun _ h => h) (fun _ _ h => h) (fun _ _ h => h.1)) fun _ => ?_
  -- the private-key file is removed, the cache emptied
  intro s h
  obtain ⟨h, hal, h1, h2⟩ := h
  simp only [run_bind, run_modS, clearCache]
  exact h.fileRemoved hJ hal h1 h2

theorem pres_delKeys (hJ : JOk J) (ks : List KeyName) : Pres (SysInv J) (delKeys ks) := by
  induction ks with
  | nil => exact Pres.pure _
  | cons k r ih => exact Pres.bind (pres_delKey hJ k) fun _ => ih

/-! ### Part 4: what the operations achieve -/

/-- the parts of the state `get_signer` reads -/
def Frozen (s0 s : Sys) : Prop := s.cur = s0.cur ∧ s.tpm = s0.tpm ∧ s.cache = s0.cache ∧ s.cfg = s0.cfg

theorem cacheGet_some {c : List ((KeyName × Loc) × Signer)} {k : KeyName × Loc} {sg : Signer}
    (h : cacheGet c k = some sg) : ((k, sg) : (KeyName × Loc) × Signer) ∈ c := by
  unfold cacheGet at h
  cases hf : c.find? (fun e => e.1 = k) with
  | none => simp [hf] at h
  | some e =>
    simp [hf] at h
    have h1 := List.mem_of_find?_eq_some hf
    have h2 := List.find?_some hf
    simp only [decide_eq_true_eq] at h2
    rcases e with ⟨e1, e2⟩
    simp only at h h2
    subst h; subst h2
    exact h1

/-- `get_signer` returns the signer for the resolved key and key locator, holding the private key that is in the
    key's file -/
theorem getSigner_spec (sel : Sel) (loc : Option Nat) (s0 : Sys) :
    Triple (fun s => SysInv J s ∧ Frozen s0 s) (getSigner sel loc)
      (fun sg _ => ∃ k c, resolve s0.cur sel = some (k, c) ∧ sg.key = k ∧ sg.loc = locOf loc c ∧
        fileGet s0.tpm (s0.cfg.fn k) = some sg.priv)
      (fun _ _ => True) := by
  unfold getSigner
  refine Triple.bind (Q' := fun a s => SysInv J s ∧ Frozen s0 s ∧ Frozen s0 a) (fun s h => ⟨h.1, h.2, h.2⟩) fun a => ?_
  refine Triple.bind (Q' := fun kc s => (SysInv J s ∧ Frozen s0 s ∧ Frozen s0 a) ∧ resolve a.cur sel = some kc)
    (Triple.ofOpt (fun kc s ho h => ⟨h, ho⟩) (fun _ _ _ => trivial)) fun kc => ?_
  obtain ⟨k, c⟩ := kc
  dsimp only
  split
  · rename_i sg hc
    refine Triple.pure fun s h => ?_
    obtain ⟨⟨hi, hs, ha⟩, hr⟩ := h
    have hmem := cacheGet_some hc
    rw [ha.2.2.1, ← hs.2.2.1] at hmem
    obtain ⟨h1, h2, h3⟩ := hi.cache _ hmem
    simp only at h1 h2 h3
    refine ⟨k, c, by rw [← ha.1]; exact hr, h1, h2, ?_⟩
    rw [← hs.2.1, ← hs.2.2.2]; exact h3
  · have fiA : FI (fun s => (SysInv J s ∧ Frozen s0 s ∧ Frozen s0 a) ∧ resolve a.cur sel = some (k, c)) :=
      fun s f h => ⟨⟨SysInv.fi s f h.1.1, h.1.2.1, h.1.2.2⟩, h.2⟩
    refine Triple.bind (Q' := fun _ s => (SysInv J s ∧ Frozen s0 s ∧ Frozen s0 a) ∧ resolve a.cur sel = some (k, c))
      (Triple.conseq (Triple.tick fiA) (fun _ h => h) (fun _ _ h => h) (fun _ _ _ => trivial)) fun _ => ?_
    split
    · rename_i p hk
      refine Triple.bind (Q' := fun _ _ => resolve s0.cur sel = some (k, c) ∧ fileGet s0.tpm (s0.cfg.fn k) = some p)
        (Triple.modS fun s h => ⟨by rw [← h.1.2.2.1]; exact h.2, by rw [← h.1.2.2.2.1, ← h.1.2.2.2.2.2]; exact hk⟩) fun _ => ?_
      exact Triple.pure fun s h => ⟨k, c, h.1, rfl, rfl, h.2⟩
    · exact Triple.raise fun _ _ => trivial

theorem Triple.tickT {P : Sys → Prop} (h : FI P) : Triple P Keychain.tick (fun _ => P) (fun _ _ => True) :=
  Triple.conseq (Triple.tick h) (fun _ h => h) (fun _ _ h => h) (fun _ _ _ => trivial)

/-- database, private-key directory, number of key pairs and configuration are as given -/
def AtDb (d : Db) (t : List (FileName × Nat)) (n : Nat) (c : Cfg) (s : Sys) : Prop :=
  s.cur = d ∧ s.tpm = t ∧ s.nextKid = n ∧ s.cfg = c

theorem AtDb.fi (d : Db) (t : List (FileName × Nat)) (n : Nat) (c : Cfg) : FI (AtDb d t n c) := fun _ _ h => h

theorem lookupId_spec (d : Db) (t : List (FileName × Nat)) (n : Nat) (c : Cfg) (i : Nat) :
    Triple (AtDb d t n c) (lookupId i) (fun ir s => AtDb d t n c s ∧ idRow? d i = some ir) (fun _ _ => True) := by
  unfold lookupId
  refine Triple.bind (Q' := fun a s => AtDb d t n c s ∧ a = s) Triple.getS fun a => ?_
  exact Triple.ofOpt (fun ir s ho h => ⟨h.1, by rw [← h.1.1, ← h.2]; exact ho⟩) (fun _ _ _ => trivial)

theorem lookupKey_spec (d : Db) (t : List (FileName × Nat)) (n : Nat) (c : Cfg) (k : KeyName) :
    Triple (AtDb d t n c) (lookupKey k)
      (fun kr s => AtDb d t n c s ∧ ∃ ir, idRow? d k.idn = some ir ∧ keyRow? d ir.rid k = some kr)
      (fun _ _ => True) := by
  unfold lookupKey
  refine Triple.bind (lookupId_spec d t n c k.idn) fun ir => ?_
  refine Triple.bind (Q' := fun a s => (AtDb d t n c s ∧ idRow? d k.idn = some ir) ∧ a = s) Triple.getS fun a => ?_
  exact Triple.ofOpt (fun kr s ho h => ⟨h.1.1, ir, h.1.2, by rw [← h.1.1.1, ← h.2]; exact ho⟩) (fun _ _ _ => trivial)

/-- what a successful `del_key k` did, relative to the state `s0` it started from -/
structure DelKeyPost (k : KeyName) (s0 s' : Sys) : Prop where
  found : ∃ ir kr, idRow? s0.cur k.idn = some ir ∧ keyRow? s0.cur ir.rid k = some kr ∧
    s'.cur.certs.rows = s0.cur.certs.rows.filter (fun c => !(c.owner == kr.rid))
  keys : s'.cur.keys.rows = s0.cur.keys.rows.filter (fun r => !decide (r.name = k))
  ids : s'.cur.ids = s0.cur.ids
  tpm : s'.tpm = removeFile s0.tpm (s0.cfg.fn k)
  kid : s'.nextKid = s0.nextKid
  cfg : s'.cfg = s0.cfg
  committed : s'.com = s'.cur
  cache : s'.cache = []

theorem delKey_spec (k : KeyName) (s0 : Sys) :
    Triple (AtDb s0.cur s0.tpm s0.nextKid s0.cfg) (delKey k) (fun _ s' => DelKeyPost k s0 s') (fun _ _ => True) := by
  unfold delKey
  refine Triple.bind (lookupKey_spec _ _ _ _ k) fun kr => ?_
  -- the facts about the row found do not depend on the state
  refine Triple.conseq (P := fun s => AtDb s0.cur s0.tpm s0.nextKid s0.cfg s ∧
      ∃ ir, idRow? s0.cur k.idn = some ir ∧ keyRow? s0.cur ir.rid k = some kr) ?_ (fun _ h => h) (fun _ _ h => h) (fun _ _ h => h)
  intro s hs
  obtain ⟨hs, ir, hir, hkr⟩ := hs
  revert s hs
  show Triple (AtDb s0.cur s0.tpm s0.nextKid s0.cfg) _ _ _
  let d1 : Db := { s0.cur with certs := s0.cur.certs.delete true fun r => r.owner == kr.rid }
  let d2 : Db := { d1 with keys := d1.keys.delete true fun r => decide (r.name = k) }
  refine Triple.bind (Triple.tickT (AtDb.fi _ _ _ _)) fun _ => ?_
  refine Triple.bind (Q' := fun _ => AtDb d1 s0.tpm s0.nextKid s0.cfg)
    (Triple.modS fun s h => ⟨by show _ = d1; rw [h.1], h.2.1, h.2.2⟩) fun _ => ?_
  refine Triple.bind (Triple.tickT (AtDb.fi _ _ _ _)) fun _ => ?_
  refine Triple.bind (Q' := fun _ => AtDb d2 s0.tpm s0.nextKid s0.cfg)
    (Triple.modS fun s h => ⟨by show _ = d2; rw [h.1], h.2.1, h.2.2⟩) fun _ => ?_
  have fiB : FI (fun s => AtDb d2 s0.tpm s0.nextKid s0.cfg s ∧ s.com = s.cur) := fun _ _ h => h
  refine Triple.bind (Q' := fun _ s => AtDb d2 s0.tpm s0.nextKid s0.cfg s ∧ s.com = s.cur) ?_ fun _ => ?_
  · unfold commit
    exact Triple.bind (Triple.tickT (AtDb.fi _ _ _ _)) fun _ => Triple.modS fun s h => ⟨h, rfl⟩
  refine Triple.bind (Triple.tickT fiB) fun _ => ?_
  refine Triple.bind (Q' := fun _ s => AtDb d2 (removeFile s0.tpm (s0.cfg.fn k)) s0.nextKid s0.cfg s ∧ s.com = s.cur)
    (Triple.modS fun s h => ⟨⟨h.1.1, by show removeFile s.tpm (s.cfg.fn k) = _; rw [h.1.2.1, h.1.2.2.2], h.1.2.2⟩, h.2⟩) fun _ => ?_
  refine Triple.modS fun s h => ?_
  obtain ⟨⟨h1, h2, h3, h3'⟩, h4⟩ := h
  exact { found := ⟨ir, kr, hir, hkr, by show s.cur.certs.rows = _; rw [h1]; rfl⟩
          keys := by show s.cur.keys.rows = _; rw [h1]; rfl
          ids := by show s.cur.ids = _; rw [h1]
          tpm := h2, kid := h3, cfg := h3', committed := h4, cache := rfl }

/-- what a successful `del_key` loop over `ks` did -/
structure DelKeysPost (ks : List KeyName) (s0 s' : Sys) : Prop where
  keys : s'.cur.keys.rows = s0.cur.keys.rows.filter (fun r => !decide (r.name ∈ ks))
  certs : ∀ c ∈ s'.cur.certs.rows, c ∈ s0.cur.certs.rows ∧
    ∀ kr ∈ s0.cur.keys.rows, kr.name ∈ ks → c.owner ≠ kr.rid
  ids : s'.cur.ids = s0.cur.ids
  tpm : s'.tpm = s0.tpm.filter (fun e => !decide (e.1 ∈ ks.map s0.cfg.fn))
  kid : s'.nextKid = s0.nextKid
  cfg : s'.cfg = s0.cfg

theorem delKeys_spec (ks : List KeyName) : ∀ s0 : Sys, NamesU s0.cur.keys.rows →
    Triple (AtDb s0.cur s0.tpm s0.nextKid s0.cfg) (delKeys ks) (fun _ s' => DelKeysPost ks s0 s') (fun _ _ => True) := by
  induction ks with
  | nil =>
    intro s0 _
    refine Triple.pure fun s h => ?_
    obtain ⟨h1, h2, h3, h4⟩ := h
    exact { keys := by rw [h1]; simp only [List.not_mem_nil, decide_false, Bool.not_false]; exact (List.filter_eq_self.mpr fun _ _ => rfl).symm
            certs := fun c hc => ⟨by rw [← h1]; exact hc, fun _ _ hk => by cases hk⟩
            ids := by rw [h1]
            tpm := by rw [h2]; simp only [List.map_nil, List.not_mem_nil, decide_false, Bool.not_false]; exact (List.filter_eq_self.mpr fun _ _ => rfl).symm
            kid := h3
            cfg := h4 }
  | cons k r ih =>
    intro s0 hn
    unfold delKeys
    refine Triple.bind (delKey_spec k s0) fun _ => ?_
    intro s1 h1
    have hn1 : NamesU s1.cur.keys.rows := by rw [h1.keys]; exact namesU_filter _ hn
    have h2 := ih s1 hn1 s1 ⟨rfl, rfl, rfl, rfl⟩
    rcases hm : (delKeys r).run s1 with ⟨e | u, s'⟩ <;> simp only [hm] at h2 ⊢
    obtain ⟨ir, kr0, hir, hkr0, hcerts⟩ := h1.found
    obtain ⟨hkr0m, hkr0p⟩ := List.mem_of_find?_eq_some hkr0, List.find?_some hkr0
    simp only [Bool.and_eq_true, decide_eq_true_eq, beq_iff_eq] at hkr0p
    refine { keys := ?_, certs := fun c hc => ?_, ids := h2.ids.trans h1.ids, tpm := ?_, kid := h2.kid.trans h1.kid,
             cfg := h2.cfg.trans h1.cfg }
    · rw [h2.keys, h1.keys, List.filter_filter]
      apply List.filter_congr
      intro x _
      by_cases hx : x.name = k <;> simp [hx]
    · obtain ⟨hc1, hc2⟩ := h2.certs c hc
      rw [hcerts, List.mem_filter] at hc1
      refine ⟨hc1.1, fun kr hkr hmem => ?_⟩
      by_cases hk : kr.name = k
      · have : kr = kr0 := eq_of_name_eq hn hkr hkr0m (hk.trans hkr0p.1.symm)
        subst this
        have := hc1.2
        simp only [Bool.not_eq_true', beq_eq_false_iff_ne, ne_eq] at this
        exact this
      · have hmem' : kr.name ∈ r := by
          simp only [List.mem_cons] at hmem
          rcases hmem with h | h
          · exact absurd h hk
          · exact h
        refine hc2 kr ?_ hmem'
        rw [h1.keys, List.mem_filter]
        exact ⟨hkr, by simp [hk]⟩
    · rw [h2.tpm, h1.tpm, h1.cfg]
      unfold removeFile
      rw [List.filter_filter]
      apply List.filter_congr
      intro x _
      by_cases hx : x.1 = s0.cfg.fn k <;> simp [hx]

/-- what a successful `del_identity n` did (`ks` = the keys the identity had) -/
structure DelIdPost (n : Nat) (s0 s' : Sys) : Prop where
  found : ∃ ir, idRow? s0.cur n = some ir ∧
    s'.cur.keys.rows = s0.cur.keys.rows.filter (fun r => !decide (r.name ∈ keyIter s0.cur ir.rid)) ∧
    (∀ c ∈ s'.cur.certs.rows, c ∈ s0.cur.certs.rows ∧
      ∀ kr ∈ s0.cur.keys.rows, kr.name ∈ keyIter s0.cur ir.rid → c.owner ≠ kr.rid) ∧
    s'.tpm = s0.tpm.filter (fun e => !decide (e.1 ∈ (keyIter s0.cur ir.rid).map s0.cfg.fn)) ∧ s'.nextKid = s0.nextKid
  idsGone : s'.cur.ids.rows = s0.cur.ids.rows.filter (fun r => !decide (r.name = n))
  committed : s'.com = s'.cur
  cache : s'.cache = []

theorem delIdentity_spec (n : Nat) (s0 : Sys) (hn : NamesU s0.cur.keys.rows) :
    Triple (AtDb s0.cur s0.tpm s0.nextKid s0.cfg) (delIdentity n) (fun _ s' => DelIdPost n s0 s') (fun _ _ => True) := by
  unfold delIdentity
  refine Triple.bind (lookupId_spec _ _ _ _ n) fun ir => ?_
  refine Triple.bind (Q' := fun a s => (AtDb s0.cur s0.tpm s0.nextKid s0.cfg s ∧ idRow? s0.cur n = some ir) ∧ a = s)
    Triple.getS fun a => ?_
  -- the part of the postcondition that the remaining steps do not touch
  let Core : Sys → Prop := fun s =>
    idRow? s0.cur n = some ir ∧
    s.cur.keys.rows = s0.cur.keys.rows.filter (fun r => !decide (r.name ∈ keyIter s0.cur ir.rid)) ∧
    (∀ c ∈ s.cur.certs.rows, c ∈ s0.cur.certs.rows ∧
      ∀ kr ∈ s0.cur.keys.rows, kr.name ∈ keyIter s0.cur ir.rid → c.owner ≠ kr.rid) ∧
    s.tpm = s0.tpm.filter (fun e => !decide (e.1 ∈ (keyIter s0.cur ir.rid).map s0.cfg.fn)) ∧ s.nextKid = s0.nextKid
  refine Triple.bind (Q' := fun _ s => Core s ∧ s.cur.ids = s0.cur.ids) ?_ fun _ => ?_
  · intro s h
    obtain ⟨⟨h1, h2⟩, rfl⟩ := h
    have := delKeys_spec (keyIter s0.cur ir.rid) s0 hn a h1
    rw [h1.1]
    rcases hm : (delKeys (keyIter s0.cur ir.rid)).run a with ⟨e | u, s'⟩ <;> simp only [hm] at this ⊢
    exact ⟨⟨h2, this.keys, this.certs, this.tpm, this.kid⟩, this.ids⟩
  have fi1 : FI (fun s => Core s ∧ s.cur.ids = s0.cur.ids) := fun _ _ h => h
  refine Triple.bind (Triple.tickT fi1) fun _ => ?_
  let Pd : Sys → Prop := fun s => Core s ∧ s.cur.ids.rows = s0.cur.ids.rows.filter (fun r => !decide (r.name = n))
  have fiD : FI Pd := fun _ _ h => h
  refine Triple.bind (Q' := fun _ => Pd) (Triple.modS fun s h => ?_) fun _ => ?_
  · refine ⟨h.1, ?_⟩
    show (s.cur.ids.delete false _).rows = _
    rw [h.2]; rfl
  have fiE : FI (fun s => Pd s ∧ s.com = s.cur) := fun _ _ h => h
  refine Triple.bind (Q' := fun _ s => Pd s ∧ s.com = s.cur) ?_ fun _ => ?_
  · unfold commit
    exact Triple.bind (Triple.tickT fiD) fun _ => Triple.modS fun s h => ⟨h, rfl⟩
  refine Triple.modS fun s h => ?_
  obtain ⟨⟨⟨h1, h2, h3, h4, h4'⟩, h5⟩, h6⟩ := h
  exact { found := ⟨ir, h1, h2, h3, h4, h4'⟩, idsGone := h5, committed := h6, cache := rfl }

/-! ### Part 3 (continued): the remaining operations, and every history -/

theorem pres_delIdentity (hJ : JOk J) (n : Nat) : Pres (SysInv J) (delIdentity n) := by
  unfold delIdentity
  refine Triple.bind (triple_lookupId n) fun ir => ?_
  let A : Sys → Prop := fun s => SysInv J s ∧ ir ∈ s.cur.ids.rows ∧ ir.name = n
  refine Triple.bind (Q' := fun a s => A s ∧ a = s) Triple.getS fun a => ?_
  -- after the loop no key row is left below the identity row
  let B : Sys → Prop := fun s => A s ∧ ∀ kr ∈ s.cur.keys.rows, kr.owner ≠ ir.rid
  have fiB : FI B := fun s f h => ⟨⟨SysInv.fi s f h.1.1, h.1.2⟩, h.2⟩
  refine Triple.bind (Q' := fun _ => B) ?_ fun _ => ?_
  · intro s h
    obtain ⟨⟨hi, hir, hn⟩, rfl⟩ := h
    have h1 := pres_delKeys hJ (keyIter a.cur ir.rid) a hi
    have h2 := delKeys_spec (keyIter a.cur ir.rid) a hi.cur.keys.names a ⟨rfl, rfl, rfl, rfl⟩
    rcases hm : (delKeys (keyIter a.cur ir.rid)).run a with ⟨e | u, s'⟩ <;> simp only [hm] at h1 h2 ⊢
    · exact h1
    · refine ⟨⟨h1, by rw [h2.ids]; exact hir, hn⟩, fun kr hkr hown => ?_⟩
      rw [h2.keys, List.mem_filter] at hkr
      have hmem : kr.name ∈ keyIter a.cur ir.rid :=
        List.mem_map.mpr ⟨kr, List.mem_filter.mpr ⟨hkr.1, by simp [hown]⟩, rfl⟩
      have := hkr.2
      simp only [Bool.not_eq_true', decide_eq_false_iff_not] at this
      exact this hmem
  refine Triple.bind (Q' := fun _ => B)
    (Triple.conseq (Triple.tick fiB) (fun _ h => h) (fun _ _ h => h) (fun _ _ h => h.1.1)) fun _ => ?_
  refine Triple.bind (Q' := fun _ => SysInv J) (Triple.modS fun s h => ?_) fun _ => ?_
  · obtain ⟨⟨h, hir, hn⟩, hk⟩ := h
    refine ⟨⟨h.cur.ids.delete _, h.cur.keys, h.cur.certs⟩, h.com, h.cache, h.kids, h.privs, h.matched, h.guard, h.fd,
      ⟨?_, h.link.2⟩, h.extra⟩
    refine h.link.1.delIds _ fun kr hkr ir' hir' hp => ?_
    have hn' : ir'.name = n := by simpa using hp
    have : ir' = ir := eq_of_name_eq h.cur.ids.names hir' hir (hn'.trans hn.symm)
    rw [this]; exact hk kr hkr
  exact Pres.bind pres_commit fun _ => pres_clearCache

theorem pres_delCertViaKey (v : KeyName) (c : CertName) : Pres (SysInv J) (delCertViaKey v c) :=
  Pres.bind (pres_lookupKey v) fun _ => Pres.raise _

theorem pres_reopen : Pres (SysInv J) reopen :=
  Pres.modS fun s h => ⟨h.com, h.com, (fun _ he => by cases he), h.kids, h.privs, ⟨h.matched.2, h.matched.2⟩, h.guard,
    FD.mono (s := s) rfl KN_reopen h.fd, ⟨h.link.2, h.link.2⟩, h.extra⟩

theorem pres_getSigner (sel : Sel) (loc : Option Nat) : Pres (SysInv J) (getSigner sel loc) := by
  unfold getSigner
  refine Triple.bind (Q' := fun a s => SysInv J s ∧ a.tpm = s.tpm ∧ a.cfg = s.cfg) (fun s h => ⟨h, rfl, rfl⟩) fun a => ?_
  refine Triple.bind (Q' := fun _ s => SysInv J s ∧ a.tpm = s.tpm ∧ a.cfg = s.cfg)
    (Triple.ofOpt (fun _ _ _ h => h) (fun _ _ h => h.1)) fun kc => ?_
  obtain ⟨k, c⟩ := kc
  dsimp only
  split
  · exact Triple.pure fun _ h => h.1
  · refine Triple.bind (Q' := fun _ s => SysInv J s ∧ a.tpm = s.tpm ∧ a.cfg = s.cfg) ?_ fun _ => ?_
    · exact Triple.conseq (Triple.tick (P := fun s => SysInv J s ∧ a.tpm = s.tpm ∧ a.cfg = s.cfg)
          fun s f h => ⟨SysInv.fi s f h.1, h.2⟩)
        (fun _ h => h) (fun _ _ h => h) (fun _ _ h => h.1)
    · split
      · rename_i p hk
        refine Triple.bind (Q' := fun _ s => SysInv J s) (Triple.modS fun s h => ?_) fun _ => Triple.pure fun _ h => h
        refine ⟨h.1.cur, h.1.com, fun e he => ?_, h.1.kids, h.1.privs, h.1.matched, h.1.guard, h.1.fd, h.1.link, h.1.extra⟩
        simp only [List.mem_append, List.mem_singleton] at he
        rcases he with he | rfl
        · exact h.1.cache e he
        · exact ⟨rfl, rfl, by show fileGet s.tpm (s.cfg.fn k) = some p; rw [← h.2.1, ← h.2.2]; exact hk⟩
      · exact Triple.raise fun _ h => h.1

theorem pres_prog (hJ : JOk J) (op : Op) : Pres (SysInv J) op.prog := by
  cases op <;> simp only [Op.prog]
  · exact Pres.bind (pres_newIdentity _) fun _ => Pres.pure _
  · exact Pres.bind (pres_touchIdentity hJ _) fun _ => Pres.pure _
  · exact Pres.bind (pres_newKey hJ _ _ _) fun _ => Pres.pure _
  · exact Pres.bind (pres_importCert _ _) fun _ => Pres.pure _
  · exact Pres.bind (pres_setDefaultIdentity _) fun _ => Pres.pure _
  · exact Pres.bind (pres_setDefaultKey _ _) fun _ => Pres.pure _
  · exact Pres.bind (pres_setDefaultCert _ _) fun _ => Pres.pure _
  · exact Pres.bind (pres_delIdentity hJ _) fun _ => Pres.pure _
  · exact Pres.bind (pres_delKey hJ _) fun _ => Pres.pure _
  · exact Pres.bind (pres_delCert _) fun _ => Pres.pure _
  · exact Pres.bind (pres_delCertViaKey _ _) fun _ => Pres.pure _
  · exact Pres.bind (pres_getSigner _ _) fun _ => Pres.pure _
  · exact Pres.bind pres_reopen fun _ => Pres.pure _

/-- generic: an invariant that ignores the fault counter and is preserved by every operation program
    holds along every history -/
theorem step_of_pres {I : Sys → Prop} (hfi : FI I) (hp : ∀ op, Pres I (Op.prog op)) (s : Sys)
    (of : Op × Option Nat) (h : I s) : I (step s of).2 := by
  have := hp of.1 { s with fault := of.2 } (hfi s of.2 h)
  unfold step
  rcases hm : (Op.prog of.1).run { s with fault := of.2 } with ⟨_ | _, s'⟩ <;> simp only [hm] at this ⊢ <;>
    exact hfi s' none this

theorem run_of_pres {I : Sys → Prop} (hfi : FI I) (hp : ∀ op, Pres I (Op.prog op)) (s : Sys)
    (ops : List (Op × Option Nat)) (h : I s) : I (run s ops) := by
  induction ops generalizing s with
  | nil => exact h
  | cons o r ih => exact ih _ (step_of_pres hfi hp s o h)

theorem run_append (s : Sys) (a b : List (Op × Option Nat)) : run s (a ++ b) = run (run s a) b := by
  induction a generalizing s with
  | nil => rfl
  | cons o r ih => exact ih _

/-- no operation changes the configuration -/
def CfgIs (c : Cfg) (s : Sys) : Prop := s.cfg = c

theorem cfg_modCur (c : Cfg) (f : Db → Db) : Pres (CfgIs c) (modCur f) := Pres.modS fun _ h => h
theorem cfg_tick (c : Cfg) : Pres (CfgIs c) tick := Pres.tick fun _ _ h => h
theorem cfg_commit (c : Cfg) : Pres (CfgIs c) commit := Pres.bind (cfg_tick c) fun _ => Pres.modS fun _ h => h
theorem cfg_lookupId (c : Cfg) (n : Nat) : Pres (CfgIs c) (lookupId n) := Pres.bind Pres.getS fun _ => Pres.ofOpt _ _
theorem cfg_lookupKey (c : Cfg) (k : KeyName) : Pres (CfgIs c) (lookupKey k) :=
  Pres.bind (cfg_lookupId c _) fun _ => Pres.bind Pres.getS fun _ => Pres.ofOpt _ _
theorem cfg_execSetDefaultId (c : Cfg) (n : Nat) : Pres (CfgIs c) (execSetDefaultId n) :=
  Pres.bind (cfg_tick c) fun _ => cfg_modCur c _
theorem cfg_execSetDefaultKey (c : Cfg) (k : KeyName) : Pres (CfgIs c) (execSetDefaultKey k) :=
  Pres.bind (cfg_tick c) fun _ => cfg_modCur c _
theorem cfg_execSetDefaultCert (c : Cfg) (k : CertName) : Pres (CfgIs c) (execSetDefaultCert k) :=
  Pres.bind (cfg_tick c) fun _ => cfg_modCur c _
theorem cfg_execInsertId (c : Cfg) (n : Nat) : Pres (CfgIs c) (execInsertId n) := by
  refine Pres.bind (cfg_tick c) fun _ => Pres.bind Pres.getS fun a => ?_
  split
  · exact Pres.raise _
  · exact cfg_modCur c _
theorem cfg_execInsertKey (c : Cfg) (o : Nat) (k : KeyName) (b : Nat) : Pres (CfgIs c) (execInsertKey o k b) := by
  refine Pres.bind (cfg_tick c) fun _ => Pres.bind Pres.getS fun a => ?_
  split
  · exact Pres.raise _
  · exact cfg_modCur c _
theorem cfg_execInsertCert (c : Cfg) (k : KeyName) (ce : CertName) : Pres (CfgIs c) (execInsertCert k ce) := by
  refine Pres.bind (cfg_tick c) fun _ => Pres.bind Pres.getS fun a => ?_
  split
  · exact Pres.raise _
  · split
    · exact Pres.raise _
    · exact cfg_modCur c _
theorem cfg_setDefaultIdentity (c : Cfg) (n : Nat) : Pres (CfgIs c) (setDefaultIdentity n) :=
  Pres.bind (cfg_execSetDefaultId c n) fun _ => cfg_commit c
theorem cfg_newKey (c : Cfg) (n : Nat) (bad : Bool) (spec : KeyIdSpec) : Pres (CfgIs c) (newKey n bad spec) := by
  unfold newKey
  exact Pres.bind (cfg_lookupId c n) fun _ => Pres.bind (cfg_tick c) fun _ => Pres.bind (Pres.raiseIf _ _) fun _ =>
    Pres.bind Pres.getS fun _ => Pres.bind (Pres.ofOpt _ _) fun _ => Pres.bind (Pres.raiseIf _ _) fun _ =>
    Pres.bind (Pres.modS fun _ h => h) fun _ => Pres.bind (cfg_tick c) fun _ => Pres.bind Pres.getS fun _ =>
    Pres.bind (Pres.raiseIf _ _) fun _ => Pres.bind (cfg_execInsertKey c _ _ _) fun _ =>
    Pres.bind (cfg_execInsertCert c _ _) fun _ => Pres.bind (cfg_commit c) fun _ => Pres.bind Pres.getS fun _ =>
    Pres.bind (Pres.whenM (Pres.bind (cfg_execSetDefaultKey c _) fun _ => cfg_commit c)) fun _ =>
    Pres.bind Pres.getS fun _ => Pres.bind (Pres.ofOpt _ _) fun _ => Pres.pure _
theorem cfg_delKey (c : Cfg) (k : KeyName) : Pres (CfgIs c) (delKey k) := by
  unfold delKey
  exact Pres.bind (cfg_lookupKey c k) fun _ => Pres.bind (cfg_tick c) fun _ => Pres.bind (cfg_modCur c _) fun _ =>
    Pres.bind (cfg_tick c) fun _ => Pres.bind (cfg_modCur c _) fun _ => Pres.bind (cfg_commit c) fun _ =>
    Pres.bind (cfg_tick c) fun _ => Pres.bind (Pres.modS fun _ h => h) fun _ => Pres.modS fun _ h => h
theorem cfg_delKeys (c : Cfg) (ks : List KeyName) : Pres (CfgIs c) (delKeys ks) := by
  induction ks with
  | nil => exact Pres.pure _
  | cons k r ih => exact Pres.bind (cfg_delKey c k) fun _ => ih

theorem cfg_prog (c : Cfg) (op : Op) : Pres (CfgIs c) op.prog := by
  cases op <;> simp only [Op.prog]
  · refine Pres.bind ?_ fun _ => Pres.pure _
    unfold newIdentity
    exact Pres.bind Pres.getS fun _ => Pres.bind (Pres.raiseIf _ _) fun _ => Pres.bind (cfg_execInsertId c _) fun _ =>
      Pres.bind (cfg_commit c) fun _ => Pres.bind Pres.getS fun _ =>
      Pres.bind (Pres.whenM (cfg_setDefaultIdentity c _)) fun _ => Pres.bind (cfg_lookupId c _) fun _ => Pres.pure _
  · refine Pres.bind ?_ fun _ => Pres.pure _
    unfold touchIdentity
    exact Pres.bind Pres.getS fun _ =>
      Pres.bind (Pres.whenM (Pres.bind (cfg_execInsertId c _) fun _ => Pres.bind (cfg_commit c) fun _ => cfg_newKey c _ _ _)) fun _ =>
      Pres.bind Pres.getS fun _ => Pres.bind (Pres.whenM (cfg_setDefaultIdentity c _)) fun _ =>
      Pres.bind (cfg_lookupId c _) fun _ => Pres.pure _
  · exact Pres.bind (cfg_newKey c _ _ _) fun _ => Pres.pure _
  · exact Pres.bind (Pres.bind (cfg_execInsertCert c _ _) fun _ => cfg_commit c) fun _ => Pres.pure _
  · exact Pres.bind (cfg_setDefaultIdentity c _) fun _ => Pres.pure _
  · exact Pres.bind (Pres.bind (cfg_lookupId c _) fun _ => Pres.bind (cfg_execSetDefaultKey c _) fun _ => cfg_commit c) fun _ => Pres.pure _
  · exact Pres.bind (Pres.bind (cfg_lookupKey c _) fun _ => Pres.bind (cfg_execSetDefaultCert c _) fun _ => cfg_commit c) fun _ => Pres.pure _
  · refine Pres.bind ?_ fun _ => Pres.pure _
    unfold delIdentity
    exact Pres.bind (cfg_lookupId c _) fun _ => Pres.bind Pres.getS fun _ => Pres.bind (cfg_delKeys c _) fun _ =>
      Pres.bind (cfg_tick c) fun _ => Pres.bind (cfg_modCur c _) fun _ => Pres.bind (cfg_commit c) fun _ =>
      Pres.modS fun _ h => h
  · exact Pres.bind (cfg_delKey c _) fun _ => Pres.pure _
  · refine Pres.bind ?_ fun _ => Pres.pure _
    unfold delCert
    exact Pres.bind (cfg_tick c) fun _ => Pres.bind (cfg_modCur c _) fun _ => Pres.bind (cfg_commit c) fun _ =>
      Pres.modS fun _ h => h
  · exact Pres.bind (Pres.bind (cfg_lookupKey c _) fun _ => Pres.raise _) fun _ => Pres.pure _
  · refine Pres.bind ?_ fun _ => Pres.pure _
    unfold getSigner
    refine Pres.bind Pres.getS fun a => Pres.bind (Pres.ofOpt _ _) fun kc => ?_
    obtain ⟨k, ce⟩ := kc
    dsimp only
    split
    · exact Pres.pure _
    · refine Pres.bind (cfg_tick c) fun _ => ?_
      split
      · exact Pres.bind (Pres.modS fun _ h => h) fun _ => Pres.pure _
      · exact Pres.raise _
  · exact Pres.bind (Pres.modS (I := CfgIs c) (f := fun s => { s with cur := s.com, cache := [] }) fun _ h => h) fun _ => Pres.pure _

theorem step_cfg (s : Sys) (of : Op × Option Nat) : (step s of).2.cfg = s.cfg := by
  have := cfg_prog s.cfg of.1 { s with fault := of.2 } rfl
  unfold step
  rcases hm : (Op.prog of.1).run { s with fault := of.2 } with ⟨_ | _, s'⟩ <;> simp only [hm] at this ⊢ <;> exact this

theorem run_cfg (s : Sys) (ops : List (Op × Option Nat)) : (run s ops).cfg = s.cfg := by
  induction ops generalizing s with
  | nil => rfl
  | cons o r ih => exact (ih _).trans (step_cfg s o)

theorem step_fault (s : Sys) (of : Op × Option Nat) : (step s of).2.fault = none := rfl

theorem run_fault (s : Sys) (ops : List (Op × Option Nat)) (h : s.fault = none) : (run s ops).fault = none := by
  induction ops generalizing s with
  | nil => exact h
  | cons o r ih => exact ih _ (step_fault s o)

/-- the plain invariant -/
abbrev Inv : Sys → Prop := SysInv fun _ _ => True

/-- the invariant holds after every history, with any storage failures injected, for every file-name function -/
theorem sysInv_run (fn : KeyName → FileName) (ops : List (Op × Option Nat)) : Inv (run (Sys.init fn) ops) :=
  run_of_pres SysInv.fi (pres_prog JOk.trivial) _ ops (SysInv.init fn True.intro)

/-! ### Part 5: without storage failures every operation ends committed -/

/-- no failure scheduled, nothing uncommitted -/
def NFc (s : Sys) : Prop := s.fault = none ∧ s.cur = s.com
/-- no failure scheduled (uncommitted work allowed) -/
def NFd (s : Sys) : Prop := s.fault = none

section Clean
variable {α : Type} {E : KErr → Sys → Prop}

theorem Triple.tickNF {P : Sys → Prop} (h : ∀ s, P s → s.fault = none) :
    Triple P Keychain.tick (fun _ => P) E := by
  intro s hs
  rw [run_tick, h s hs]
  exact hs

theorem nfc_pres {m : M α} (h : Pres NFc m) : Triple NFc m (fun _ => NFc) (fun e s => e = .integrityError ∨ NFc s) :=
  Triple.conseq h (fun _ h => h) (fun _ _ h => h) (fun _ _ h => Or.inr h)

/-- a database write: clean or dirty → dirty -/
theorem nf_modCur (f : Db → Db) : Triple NFd (modCur f) (fun _ => NFd) E := Triple.modS fun _ h => h

theorem nf_commit : Triple NFd commit (fun _ => NFc) E :=
  Triple.bind (Triple.tickNF fun _ h => h) fun _ => Triple.modS fun _ h => ⟨h, rfl⟩

theorem nfd_of_nfc {s : Sys} (h : NFc s) : NFd s := h.1

/-- the three inserts: an IntegrityError is raised before anything is written -/
theorem nf_execInsertId (n : Nat) : Triple NFc (execInsertId n) (fun _ => NFd) (fun _ => NFc) := by
  refine Triple.bind (Triple.tickNF fun _ h => h.1) fun _ => Triple.bind (Q' := fun _ => NFc) (fun _ h => h) fun a => ?_
  split
  · exact Triple.raise fun _ h => h
  · exact Triple.modS fun _ h => h.1

theorem nf_execInsertKey (o : Nat) (k : KeyName) (b : Nat) :
    Triple NFc (execInsertKey o k b) (fun _ => NFd) (fun _ => NFc) := by
  refine Triple.bind (Triple.tickNF fun _ h => h.1) fun _ => Triple.bind (Q' := fun _ => NFc) (fun _ h => h) fun a => ?_
  split
  · exact Triple.raise fun _ h => h
  · exact Triple.modS fun _ h => h.1

theorem nf_execInsertCert (k : KeyName) (c : CertName) :
    Triple NFc (execInsertCert k c) (fun _ => NFd) (fun _ => NFc) := by
  refine Triple.bind (Triple.tickNF fun _ h => h.1) fun _ => Triple.bind (Q' := fun _ => NFc) (fun _ h => h) fun a => ?_
  split
  · exact Triple.raise fun _ h => h
  · split
    · exact Triple.raise fun _ h => h
    · exact Triple.modS fun _ h => h.1

/-- … but from a dirty state (inside `new_key`) the only thing known is that it is an IntegrityError -/
theorem nf_execInsertCert_dirty (k : KeyName) (c : CertName) :
    Triple NFd (execInsertCert k c) (fun _ => NFd) (fun e _ => e = .integrityError) := by
  refine Triple.bind (Triple.tickNF fun _ h => h) fun _ => Triple.bind (Q' := fun _ => NFd) (fun _ h => h) fun a => ?_
  split
  · exact Triple.raise fun _ _ => rfl
  · split
    · exact Triple.raise fun _ _ => rfl
    · exact Triple.modS fun _ h => h

theorem nf_execSetDefaultId (n : Nat) : Triple NFc (execSetDefaultId n) (fun _ => NFd) E :=
  Triple.bind (Triple.tickNF fun _ h => h.1) fun _ => Triple.modS fun _ h => h.1
theorem nf_execSetDefaultKey (k : KeyName) : Triple NFc (execSetDefaultKey k) (fun _ => NFd) E :=
  Triple.bind (Triple.tickNF fun _ h => h.1) fun _ => Triple.modS fun _ h => h.1
theorem nf_execSetDefaultCert (c : CertName) : Triple NFc (execSetDefaultCert c) (fun _ => NFd) E :=
  Triple.bind (Triple.tickNF fun _ h => h.1) fun _ => Triple.modS fun _ h => h.1

theorem Pres.lookupId' {I : Sys → Prop} (n : Nat) : Pres I (lookupId n) :=
  Pres.bind Pres.getS fun _ => Pres.ofOpt _ _
theorem Pres.lookupKey' {I : Sys → Prop} (k : KeyName) : Pres I (lookupKey k) :=
  Pres.bind (Pres.lookupId' _) fun _ => Pres.bind Pres.getS fun _ => Pres.ofOpt _ _

theorem nfc_tick : Pres NFc Keychain.tick := Triple.tickNF fun _ h => h.1

theorem nfc_setDefaultIdentity (n : Nat) : Pres NFc (setDefaultIdentity n) :=
  Triple.bind (nf_execSetDefaultId n) fun _ => nf_commit

theorem nfc_newIdentity (n : Nat) : Pres NFc (newIdentity n) := by
  unfold newIdentity
  refine Pres.bind Pres.getS fun _ => Pres.bind (Pres.raiseIf _ _) fun _ =>
    Triple.bind (nf_execInsertId n) fun _ => Triple.bind nf_commit fun _ => Pres.bind Pres.getS fun _ =>
    Pres.bind (Pres.whenM (nfc_setDefaultIdentity n)) fun _ =>
    Pres.bind (Pres.lookupId' n) fun _ => Pres.pure _

/-- `new_key`: clean afterwards, unless it raised IntegrityError (the generated key name or its
    self-signed certificate's name was already in the database) -/
theorem nfc_newKey (n : Nat) (bad : Bool) (spec : KeyIdSpec) :
    Triple NFc (newKey n bad spec) (fun _ => NFc) (fun e s => e = .integrityError ∨ NFc s) := by
  unfold newKey
  refine Triple.bind (nfc_pres (Pres.lookupId' n)) fun i => Triple.bind (nfc_pres nfc_tick) fun _ =>
    Triple.bind (nfc_pres (Pres.raiseIf _ _)) fun _ => Triple.bind (nfc_pres Pres.getS) fun a =>
    Triple.bind (nfc_pres (Pres.ofOpt _ _)) fun kid => Triple.bind (nfc_pres (Pres.raiseIf _ _)) fun _ =>
    Triple.bind (Q' := fun _ => NFc) (Triple.modS fun _ h => h) fun _ => Triple.bind (nfc_pres nfc_tick) fun _ =>
    Triple.bind (nfc_pres Pres.getS) fun _ => Triple.bind (nfc_pres (Pres.raiseIf _ _)) fun _ =>
    Triple.bind (Q' := fun _ => NFd) (Triple.conseq (nf_execInsertKey _ _ _) (fun _ h => h) (fun _ _ h => h) (fun _ _ h => Or.inr h)) fun _ =>
    Triple.bind (Q' := fun _ => NFd) (Triple.conseq (nf_execInsertCert_dirty _ _) (fun _ h => h) (fun _ _ h => h) (fun _ _ h => Or.inl h)) fun _ =>
    Triple.bind (Q' := fun _ => NFc) nf_commit fun _ => ?_
  exact nfc_pres (Pres.bind Pres.getS fun _ =>
    Pres.bind (Pres.whenM (Triple.bind (nf_execSetDefaultKey _) fun _ => nf_commit)) fun _ =>
    Pres.bind Pres.getS fun _ => Pres.bind (Pres.ofOpt _ _) fun _ => Pres.pure _)

theorem nfc_touchIdentity (n : Nat) :
    Triple NFc (touchIdentity n) (fun _ => NFc) (fun e s => e = .integrityError ∨ NFc s) := by
  unfold touchIdentity
  refine Triple.bind (nfc_pres Pres.getS) fun _ => Triple.bind (Q' := fun _ => NFc) ?_ fun _ =>
    nfc_pres (Pres.bind Pres.getS fun _ => Pres.bind (Pres.whenM (nfc_setDefaultIdentity n)) fun _ =>
      Pres.bind (Pres.lookupId' n) fun _ => Pres.pure _)
  unfold whenM
  split
  · exact Triple.bind (Q' := fun _ => NFd) (Triple.conseq (nf_execInsertId n) (fun _ h => h) (fun _ _ h => h) (fun _ _ h => Or.inr h)) fun _ =>
      Triple.bind (Q' := fun _ => NFc) nf_commit fun _ => nfc_newKey n false .random
  · exact Triple.pure fun _ h => h

theorem nfc_importCert (k : KeyName) (c : CertName) : Pres NFc (importCert k c) :=
  Triple.bind (nf_execInsertCert k c) fun _ => nf_commit

theorem nfc_setDefaultKey (v : Nat) (k : KeyName) : Pres NFc (setDefaultKey v k) :=
  Pres.bind (Pres.lookupId' v) fun _ => Triple.bind (nf_execSetDefaultKey k) fun _ => nf_commit

theorem nfc_setDefaultCert (v : KeyName) (c : CertName) : Pres NFc (setDefaultCert v c) :=
  Pres.bind (Pres.lookupKey' v) fun _ => Triple.bind (nf_execSetDefaultCert c) fun _ => nf_commit

theorem nfc_clearCache : Pres NFc clearCache := Pres.modS fun _ h => h

theorem nfc_delCert (c : CertName) : Pres NFc (delCert c) :=
  Pres.bind nfc_tick fun _ => Triple.bind (Q' := fun _ => NFd) (Triple.modS fun _ h => h.1) fun _ =>
    Triple.bind nf_commit fun _ => nfc_clearCache

theorem nfc_delKey (k : KeyName) : Pres NFc (delKey k) := by
  unfold delKey
  exact Pres.bind (Pres.lookupKey' k) fun kr => Pres.bind nfc_tick fun _ =>
    Triple.bind (Q' := fun _ => NFd) (Triple.modS fun _ h => h.1) fun _ =>
    Triple.bind (Q' := fun _ => NFd) (Triple.tickNF fun _ h => h) fun _ =>
    Triple.bind (Q' := fun _ => NFd) (Triple.modS fun _ h => h) fun _ =>
    Triple.bind nf_commit fun _ => Pres.bind nfc_tick fun _ =>
    Pres.bind (Pres.modS fun _ h => h) fun _ => nfc_clearCache

theorem nfc_delKeys (ks : List KeyName) : Pres NFc (delKeys ks) := by
  induction ks with
  | nil => exact Pres.pure _
  | cons k r ih => exact Pres.bind (nfc_delKey k) fun _ => ih

theorem nfc_delIdentity (n : Nat) : Pres NFc (delIdentity n) := by
  unfold delIdentity
  exact Pres.bind (Pres.lookupId' n) fun _ => Pres.bind Pres.getS fun _ => Pres.bind (nfc_delKeys _) fun _ =>
    Pres.bind nfc_tick fun _ => Triple.bind (Q' := fun _ => NFd) (Triple.modS fun _ h => h.1) fun _ =>
    Triple.bind nf_commit fun _ => nfc_clearCache

theorem nfc_getSigner (sel : Sel) (loc : Option Nat) : Pres NFc (getSigner sel loc) := by
  unfold getSigner
  refine Pres.bind Pres.getS fun a => Pres.bind (Pres.ofOpt _ _) fun kc => ?_
  obtain ⟨k, c⟩ := kc
  dsimp only
  split
  · exact Pres.pure _
  · refine Pres.bind nfc_tick fun _ => ?_
    split
    · exact Pres.bind (Pres.modS fun _ h => h) fun _ => Pres.pure _
    · exact Pres.raise _

/-- is this operation one that generates a key? -/
def Op.keyGen : Op → Bool
  | .newKey _ _ _ => true
  | .touchIdentity _ => true
  | _ => false

theorem nfc_prog (op : Op) :
    Triple NFc op.prog (fun _ => NFc) (fun e s => (op.keyGen = true ∧ e = .integrityError) ∨ NFc s) := by
  cases op <;> simp only [Op.prog, Op.keyGen]
  · exact Triple.conseq (Pres.bind (nfc_newIdentity _) fun _ => Pres.pure _) (fun _ h => h) (fun _ _ h => h) (fun _ _ h => Or.inr h)
  · refine Triple.bind (Q' := fun _ => NFc) (Triple.conseq (nfc_touchIdentity _) (fun _ h => h) (fun _ _ h => h) ?_) fun _ => Triple.pure fun _ h => h
    exact fun e s h => h.elim (fun h => Or.inl ⟨trivial, h⟩) Or.inr
  · refine Triple.bind (Q' := fun _ => NFc) (Triple.conseq (nfc_newKey _ _ _) (fun _ h => h) (fun _ _ h => h) ?_) fun _ => Triple.pure fun _ h => h
    exact fun e s h => h.elim (fun h => Or.inl ⟨trivial, h⟩) Or.inr
  · exact Triple.conseq (Pres.bind (nfc_importCert _ _) fun _ => Pres.pure _) (fun _ h => h) (fun _ _ h => h) (fun _ _ h => Or.inr h)
  · exact Triple.conseq (Pres.bind (nfc_setDefaultIdentity _) fun _ => Pres.pure _) (fun _ h => h) (fun _ _ h => h) (fun _ _ h => Or.inr h)
  · exact Triple.conseq (Pres.bind (nfc_setDefaultKey _ _) fun _ => Pres.pure _) (fun _ h => h) (fun _ _ h => h) (fun _ _ h => Or.inr h)
  · exact Triple.conseq (Pres.bind (nfc_setDefaultCert _ _) fun _ => Pres.pure _) (fun _ h => h) (fun _ _ h => h) (fun _ _ h => Or.inr h)
  · exact Triple.conseq (Pres.bind (nfc_delIdentity _) fun _ => Pres.pure _) (fun _ h => h) (fun _ _ h => h) (fun _ _ h => Or.inr h)
  · exact Triple.conseq (Pres.bind (nfc_delKey _) fun _ => Pres.pure _) (fun _ h => h) (fun _ _ h => h) (fun _ _ h => Or.inr h)
  · exact Triple.conseq (Pres.bind (nfc_delCert _) fun _ => Pres.pure _) (fun _ h => h) (fun _ _ h => h) (fun _ _ h => Or.inr h)
  · exact Triple.conseq (Pres.bind (Pres.bind (Pres.lookupKey' _) fun _ => Pres.raise _) fun _ => Pres.pure _) (fun _ h => h) (fun _ _ h => h) (fun _ _ h => Or.inr h)
  · exact Triple.conseq (Pres.bind (nfc_getSigner _ _) fun _ => Pres.pure _) (fun _ h => h) (fun _ _ h => h) (fun _ _ h => Or.inr h)
  · exact Triple.conseq (Pres.bind (Pres.modS (I := NFc) (f := fun s => { s with cur := s.com, cache := [] }) fun _ h => ⟨h.1, rfl⟩) fun _ => Pres.pure _) (fun _ h => h) (fun _ _ h => h) (fun _ _ h => Or.inr h)

end Clean

/-! ### Part 6: `new_key` and ValueError -/

/-- everything but the fault counter is as in `s0` -/
def SameButFault (s0 s : Sys) : Prop :=
  s.cfg = s0.cfg ∧ s.cur = s0.cur ∧ s.com = s0.com ∧ s.tpm = s0.tpm ∧ s.cache = s0.cache ∧ s.nextKid = s0.nextKid

/-- a program that never raises ValueError -/
def NoVE {α : Type} (m : M α) : Prop := Triple (fun _ => True) m (fun _ _ => True) (fun e _ => e ≠ .valueError)

theorem NoVE.bind {α β : Type} {m : M α} {f : α → M β} (h1 : NoVE m) (h2 : ∀ a, NoVE (f a)) : NoVE (m >>= f) :=
  Triple.bind h1 h2
theorem NoVE.pure {α : Type} (a : α) : NoVE (pure a : M α) := Triple.pure fun _ h => h
theorem NoVE.getS : NoVE getS := fun _ _ => trivial
theorem NoVE.modS (f : Sys → Sys) : NoVE (modS f) := fun _ _ => trivial
theorem NoVE.tick : NoVE tick := by
  intro s _
  rw [run_tick]
  rcases s.fault with _ | _ | k
  · trivial
  · exact fun h => by cases h
  · trivial
theorem NoVE.raise {α : Type} {e : KErr} (h : e ≠ .valueError) : NoVE (raise e : M α) := Triple.raise fun _ _ => h
theorem NoVE.ofOpt {α : Type} {e : KErr} (h : e ≠ .valueError) (o : Option α) : NoVE (ofOpt e o) :=
  Triple.ofOpt (fun _ _ _ h => h) (fun _ _ _ => h)
theorem NoVE.raiseIf {e : KErr} (h : e ≠ .valueError) (c : Bool) : NoVE (raiseIf c e) := by
  unfold Keychain.raiseIf; split
  · exact NoVE.raise h
  · exact NoVE.pure _
theorem NoVE.whenM {c : Bool} {m : M Unit} (h : NoVE m) : NoVE (whenM c m) := by
  unfold Keychain.whenM; split
  · exact h
  · exact NoVE.pure _
theorem NoVE.commit : NoVE commit := NoVE.bind NoVE.tick fun _ => NoVE.modS _
theorem NoVE.execInsertKey (o : Nat) (k : KeyName) (b : Nat) : NoVE (execInsertKey o k b) := by
  refine NoVE.bind NoVE.tick fun _ => NoVE.bind NoVE.getS fun a => ?_
  split
  · exact NoVE.raise (by decide)
  · exact NoVE.modS _
theorem NoVE.execInsertCert (k : KeyName) (c : CertName) : NoVE (execInsertCert k c) := by
  refine NoVE.bind NoVE.tick fun _ => NoVE.bind NoVE.getS fun a => ?_
  split
  · exact NoVE.raise (by decide)
  · split
    · exact NoVE.raise (by decide)
    · exact NoVE.modS _
theorem NoVE.execSetDefaultKey (k : KeyName) : NoVE (execSetDefaultKey k) := NoVE.bind NoVE.tick fun _ => NoVE.modS _

/-- `new_key` raises ValueError only before anything is written -/
theorem newKey_valueError (n : Nat) (bad : Bool) (spec : KeyIdSpec) (s0 : Sys) :
    Triple (SameButFault s0) (newKey n bad spec) (fun _ _ => True) (fun e s => e = .valueError → SameButFault s0 s) := by
  unfold newKey
  have fiS : FI (SameButFault s0) := fun _ _ h => h
  have late : ∀ {α : Type} {m : M α}, NoVE m →
      Triple (fun _ => True) m (fun _ _ => True) (fun e s => e = .valueError → SameButFault s0 s) :=
    fun h => Triple.conseq h (fun _ h => h) (fun _ _ h => h) (fun _ _ h e => absurd e h)
  refine Triple.bind (Q' := fun _ => SameButFault s0)
    (Triple.bind (Q' := fun _ => SameButFault s0) (fun _ h => h) fun _ =>
      Triple.ofOpt (fun _ _ _ h => h) (fun _ _ _ e => by cases e)) fun i => ?_
  refine Triple.bind (Q' := fun _ => SameButFault s0)
    (Triple.conseq (Triple.tick fiS) (fun _ h => h) (fun _ _ h => h) (fun _ _ h _ => h)) fun _ => ?_
  refine Triple.bind (Q' := fun _ => SameButFault s0) ?_ fun _ => ?_
  · unfold raiseIf; split
    · exact Triple.raise fun _ h _ => h
    · exact Triple.pure fun _ h => h
  refine Triple.bind (Q' := fun _ => SameButFault s0) (fun _ h => h) fun a => ?_
  refine Triple.bind (Q' := fun _ => SameButFault s0) (Triple.ofOpt (fun _ _ _ h => h) (fun _ _ h _ => h)) fun kid => ?_
  refine Triple.bind (Q' := fun _ => SameButFault s0) ?_ fun _ => ?_
  · unfold raiseIf; split
    · exact Triple.raise fun _ h _ => h
    · exact Triple.pure fun _ h => h
  -- from here on the state changes, but no ValueError is raised any more
  refine Triple.bind (Q' := fun _ _ => True) (fun _ _ => trivial) fun _ => late ?_
  exact NoVE.bind NoVE.tick fun _ => NoVE.bind NoVE.getS fun _ => NoVE.bind (NoVE.raiseIf (by decide) _) fun _ =>
    NoVE.bind (NoVE.execInsertKey _ _ _) fun _ => NoVE.bind (NoVE.execInsertCert _ _) fun _ =>
    NoVE.bind NoVE.commit fun _ => NoVE.bind NoVE.getS fun _ =>
    NoVE.bind (NoVE.whenM (NoVE.bind (NoVE.execSetDefaultKey _) fun _ => NoVE.commit)) fun _ =>
    NoVE.bind NoVE.getS fun _ => NoVE.bind (NoVE.ofOpt (by decide) _) fun _ => NoVE.pure _

/-- `new_key(n, key_id=x)` where the key name's private-key file exists and identity `n` exists: ValueError -/
theorem newKey_refuses (n : Nat) (bad : Bool) (x : Nat) :
    Triple (fun s => s.fault = none ∧ (idRow? s.cur n).isSome = true ∧ s.cfg.guard = true ∧
        fileHas s.tpm (s.cfg.fn ⟨n, .lit x⟩) = true)
      (newKey n bad (.explicit x)) (fun _ _ => False) (fun e _ => e = .valueError) := by
  unfold newKey
  let P : Sys → Prop := fun s => s.fault = none ∧ (idRow? s.cur n).isSome = true ∧ s.cfg.guard = true ∧
        fileHas s.tpm (s.cfg.fn ⟨n, .lit x⟩) = true
  refine Triple.bind (Q' := fun _ => P) ?_ fun i => ?_
  · unfold lookupId
    refine Triple.bind (Q' := fun a s => P s ∧ a = s) Triple.getS fun a => ?_
    refine Triple.ofOpt (fun _ _ _ h => h.1) (fun s ho h => ?_)
    obtain ⟨h, rfl⟩ := h
    have h2 : (idRow? a.cur n).isSome = true := h.2.1
    rw [ho] at h2
    cases h2
  refine Triple.bind (Q' := fun _ => P) (Triple.tickNF fun _ h => h.1) fun _ => ?_
  refine Triple.bind (Q' := fun _ => P) ?_ fun _ => ?_
  · unfold raiseIf; split
    · exact Triple.raise fun _ _ => rfl
    · exact Triple.pure fun _ h => h
  refine Triple.bind (Q' := fun a s => P s ∧ a = s) Triple.getS fun a => ?_
  refine Triple.bind (Q' := fun kid s => (P s ∧ a = s) ∧ kid = .lit x)
    (Triple.ofOpt (fun kid _ ho h => ⟨h, by simpa [mkKid] using ho.symm⟩) (fun _ ho _ => by simp [mkKid] at ho)) fun kid => ?_
  refine Triple.bind (Q' := fun _ _ => False) ?_ fun _ => fun _ h => h.elim
  unfold raiseIf; split
  · exact Triple.raise fun _ _ => rfl
  · rename_i hc
    refine Triple.pure fun s h => ?_
    obtain ⟨⟨h, rfl⟩, rfl⟩ := h
    rw [h.2.2.1, h.2.2.2] at hc
    exact absurd rfl hc

end Ndn.Keychain
