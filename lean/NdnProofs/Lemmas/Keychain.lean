import NdnModel.Keychain
/-!
  Lemmas for the keychain model (C15).
  Part 1: table level - closed forms of the statements under the *generated* trigger table, and the
  per-table invariants (unique names / rowids, at most one default per scope, ghost `lost`).
  Part 2: a Hoare logic for the state-and-exception monad `M`.
  Part 3: the system invariants and their preservation by every operation.
-/
namespace Ndn.Keychain
open Ndn.Sql
set_option linter.unusedSectionVars false
set_option linter.unusedSimpArgs false

section TableLevel
variable {ν : Type} [DecidableEq ν]
def setDefaultCF (sc : Bool) (n : ν) (t : Table ν) : Table ν :=
  match t.find? (fun r => r.name = n) with
  | none => t
  | some r => setFlag n (if r.dflt then t else clearDefaults sc r.owner t)

def NamesU (t : Table ν) : Prop := t.Pairwise fun a b => a.name ≠ b.name
def RidsU (t : Table ν) : Prop := t.Pairwise fun a b => a.rid ≠ b.rid
def DefU (sc : Bool) (t : Table ν) : Prop :=
  t.Pairwise fun a b => ¬(a.dflt = true ∧ b.dflt = true ∧ sameScope sc a.owner b.owner = true)

theorem eq_of_name_eq {t : Table ν} (h : NamesU t) {a b : Row ν} (ha : a ∈ t) (hb : b ∈ t)
    (hn : a.name = b.name) : a = b := by
  induction t with
  | nil => cases ha
  | cons x r ih =>
    rw [NamesU, List.pairwise_cons] at h
    cases ha with
    | head => cases hb with
      | head => rfl
      | tail _ hb => exact absurd hn (h.1 _ hb)
    | tail _ ha => cases hb with
      | head => exact absurd hn.symm (h.1 _ ha)
      | tail _ hb => exact ih h.2 ha hb

theorem sameScope_comm (sc : Bool) (a b : Nat) : sameScope sc a b = sameScope sc b a := by
  cases sc
  · simp [sameScope]
  · simp only [sameScope, Bool.not_true, Bool.false_or]
    exact Bool.eq_iff_iff.mpr ⟨fun h => by rw [beq_iff_eq] at h ⊢; exact h.symm, fun h => by rw [beq_iff_eq] at h ⊢; exact h.symm⟩

theorem sameScope_trans {sc : Bool} {a b c : Nat} (h1 : sameScope sc a b = true) (h2 : sameScope sc b c = true) :
    sameScope sc a c = true := by
  cases sc <;> simp_all [sameScope]

/-- the row map performed by `setDefaultCF` when the target row `r` exists -/
def sdRow (sc : Bool) (n : ν) (r x : Row ν) : Row ν :=
  if x.name = n then { x with dflt := true }
  else if r.dflt = false ∧ sameScope sc r.owner x.owner = true then { x with dflt := false } else x

theorem setDefaultCF_some {sc : Bool} {n : ν} {t : Table ν} {r : Row ν}
    (h : t.find? (fun r => r.name = n) = some r) : setDefaultCF sc n t = t.map (sdRow sc n r) := by
  unfold setDefaultCF
  rw [h]
  cases hd : r.dflt <;> simp [setFlag, clearDefaults, sdRow, hd, List.map_map] <;>
    (intro x _; split <;> simp_all)

theorem sdRow_name (sc : Bool) (n : ν) (r x : Row ν) : (sdRow sc n r x).name = x.name := by
  unfold sdRow; split <;> (try split) <;> rfl
theorem sdRow_rid (sc : Bool) (n : ν) (r x : Row ν) : (sdRow sc n r x).rid = x.rid := by
  unfold sdRow; split <;> (try split) <;> rfl
theorem sdRow_owner (sc : Bool) (n : ν) (r x : Row ν) : (sdRow sc n r x).owner = x.owner := by
  unfold sdRow; split <;> (try split) <;> rfl

theorem setDefaultCF_names (sc : Bool) (n : ν) (t : Table ν) :
    (setDefaultCF sc n t).map (·.name) = t.map (·.name) := by
  cases h : t.find? (fun r => r.name = n) with
  | none => simp [setDefaultCF, h]
  | some r => simp [setDefaultCF_some h, List.map_map, Function.comp_def, sdRow_name]

theorem setDefaultCF_rids (sc : Bool) (n : ν) (t : Table ν) :
    (setDefaultCF sc n t).map (·.rid) = t.map (·.rid) := by
  cases h : t.find? (fun r => r.name = n) with
  | none => simp [setDefaultCF, h]
  | some r => simp [setDefaultCF_some h, List.map_map, Function.comp_def, sdRow_rid]

theorem setDefaultCF_defU {sc : Bool} {n : ν} {t : Table ν} (hn : NamesU t) (hd : DefU sc t) :
    DefU sc (setDefaultCF sc n t) := by
  cases h : t.find? (fun r => r.name = n) with
  | none => simpa [setDefaultCF, h] using hd
  | some r =>
    rw [setDefaultCF_some h, DefU, List.pairwise_map]
    have hr := List.mem_of_find?_eq_some h
    have hrn : r.name = n := by simpa using List.find?_some h
    refine List.Pairwise.imp_of_mem ?_ (hn.and hd)
    intro a b ha hb ⟨hab, hR⟩
    simp only [sdRow_owner]
    intro ⟨h1, h2, h3⟩
    by_cases han : a.name = n
    · have : a = r := eq_of_name_eq hn ha hr (han.trans hrn.symm)
      subst this
      have hbn : b.name ≠ n := fun e => hab (han.trans e.symm)
      simp only [sdRow, hbn, if_false] at h2
      split at h2
      · simp at h2
      · rename_i hc
        cases hda : a.dflt
        · exact hc ⟨hda, h3⟩
        · exact hR ⟨hda, h2, h3⟩
    · by_cases hbn : b.name = n
      · have : b = r := eq_of_name_eq hn hb hr (hbn.trans hrn.symm)
        subst this
        simp only [sdRow, han, if_false] at h1
        split at h1
        · simp at h1
        · rename_i hc
          cases hdb : b.dflt
          · exact hc ⟨hdb, by rw [sameScope_comm]; exact h3⟩
          · exact hR ⟨h1, hdb, h3⟩
      · simp only [sdRow, han, hbn, if_false] at h1 h2
        split at h1
        · simp at h1
        · split at h2
          · simp at h2
          · exact hR ⟨h1, h2, h3⟩

/-! #### closed forms under the generated triggers -/

theorem upd_ids (n : ν) (t : Table ν) : updSetDefault (trs .identities) n t = setDefaultCF false n t := by
  unfold updSetDefault setDefaultCF
  cases hf : t.find? (fun r => decide (r.name = n)) with
  | none => rfl
  | some r => cases h : r.dflt <;> simp [trs, Ndn.Gen.C15.triggers, fire0, condHolds, act0, h]

theorem upd_keys (n : ν) (t : Table ν) : updSetDefault (trs .keys) n t = setDefaultCF true n t := by
  unfold updSetDefault setDefaultCF
  cases hf : t.find? (fun r => decide (r.name = n)) with
  | none => rfl
  | some r => cases h : r.dflt <;> simp [trs, Ndn.Gen.C15.triggers, fire0, condHolds, act0, h]

theorem upd_certs (n : ν) (t : Table ν) : updSetDefault (trs .certificates) n t = setDefaultCF true n t := by
  unfold updSetDefault setDefaultCF
  cases hf : t.find? (fun r => decide (r.name = n)) with
  | none => rfl
  | some r => cases h : r.dflt <;> simp [trs, Ndn.Gen.C15.triggers, fire0, condHolds, act0, h]

def newRow (o : Nat) (n : ν) (t : Table ν) : Row ν := { rid := maxRid t + 1, owner := o, name := n, dflt := false }

def insertCF (sc : Bool) (o : Nat) (n : ν) (t : Table ν) : Option (Table ν) :=
  if t.any (fun r => r.name = n) then none else
  let t2 := t ++ [newRow o n t]
  some (if hasDefault sc o t2 then t2 else setDefaultCF sc n t2)

theorem ins_ids (o : Nat) (n : ν) (t : Table ν) : insertRow (trs .identities) o n t = insertCF false o n t := by
  unfold insertRow insertCF
  cases ha : t.any (fun r => decide (r.name = n)) with
  | true => rfl
  | false =>
    simp only [← upd_ids]
    cases hd : hasDefault false o (t ++ [newRow o n t]) <;>
      simp [fire1, trs, Ndn.Gen.C15.triggers, condHolds, act1, newRow, hd] <;> simp_all [newRow]
theorem ins_keys (o : Nat) (n : ν) (t : Table ν) : insertRow (trs .keys) o n t = insertCF true o n t := by
  unfold insertRow insertCF
  cases ha : t.any (fun r => decide (r.name = n)) with
  | true => rfl
  | false =>
    simp only [← upd_keys]
    cases hd : hasDefault true o (t ++ [newRow o n t]) <;>
      simp [fire1, trs, Ndn.Gen.C15.triggers, condHolds, act1, newRow, hd] <;> simp_all [newRow]
theorem ins_certs (o : Nat) (n : ν) (t : Table ν) : insertRow (trs .certificates) o n t = insertCF true o n t := by
  unfold insertRow insertCF
  cases ha : t.any (fun r => decide (r.name = n)) with
  | true => rfl
  | false =>
    simp only [← upd_certs]
    cases hd : hasDefault true o (t ++ [newRow o n t]) <;>
      simp [fire1, trs, Ndn.Gen.C15.triggers, condHolds, act1, newRow, hd] <;> simp_all [newRow]

/-! #### inserts and deletes -/

theorem namesU_iff (t : Table ν) : NamesU t ↔ (t.map (·.name)).Nodup := by
  unfold NamesU List.Nodup; rw [List.pairwise_map]
theorem ridsU_iff (t : Table ν) : RidsU t ↔ (t.map (·.rid)).Nodup := by
  unfold RidsU List.Nodup; rw [List.pairwise_map]

theorem le_maxRid {t : Table ν} {r : Row ν} (h : r ∈ t) : r.rid ≤ maxRid t := by
  induction t with
  | nil => cases h
  | cons x q ih =>
    cases h with
    | head => simp [maxRid]; omega
    | tail _ h => have := ih h; simp [maxRid]; omega

theorem setDefaultCF_namesU {sc : Bool} {n : ν} {t : Table ν} (h : NamesU t) : NamesU (setDefaultCF sc n t) := by
  rw [namesU_iff] at h ⊢; rwa [setDefaultCF_names]
theorem setDefaultCF_ridsU {sc : Bool} {n : ν} {t : Table ν} (h : RidsU t) : RidsU (setDefaultCF sc n t) := by
  rw [ridsU_iff] at h ⊢; rwa [setDefaultCF_rids]

theorem insertCF_names {sc : Bool} {o : Nat} {n : ν} {t t' : Table ν} (h : insertCF sc o n t = some t') :
    t'.map (·.name) = t.map (·.name) ++ [n] ∧ t'.map (·.rid) = t.map (·.rid) ++ [maxRid t + 1]
      ∧ (t.any fun r => r.name = n) = false := by
  unfold insertCF at h
  split at h
  · cases h
  · rename_i ha
    simp only [Option.some.injEq] at h
    subst h
    split <;> simp_all [setDefaultCF_names, setDefaultCF_rids, newRow]

theorem insertCF_namesU {sc : Bool} {o : Nat} {n : ν} {t t' : Table ν} (hn : NamesU t)
    (h : insertCF sc o n t = some t') : NamesU t' := by
  obtain ⟨h1, _, h3⟩ := insertCF_names h
  rw [namesU_iff] at hn ⊢
  rw [h1, List.nodup_append]
  refine ⟨hn, by simp, ?_⟩
  intro a ha b hb
  simp at hb; subst hb
  intro e; subst e
  simp only [List.any_eq_false, decide_eq_true_eq] at h3
  obtain ⟨r, hr, rfl⟩ := List.mem_map.mp ha
  exact h3 r hr rfl

theorem insertCF_ridsU {sc : Bool} {o : Nat} {n : ν} {t t' : Table ν} (hn : RidsU t)
    (h : insertCF sc o n t = some t') : RidsU t' := by
  obtain ⟨_, h2, _⟩ := insertCF_names h
  rw [ridsU_iff] at hn ⊢
  rw [h2, List.nodup_append]
  refine ⟨hn, by simp, ?_⟩
  intro a ha b hb
  simp at hb; subst hb
  obtain ⟨r, hr, rfl⟩ := List.mem_map.mp ha
  have := le_maxRid hr
  omega

theorem defU_append_new {sc : Bool} {t : Table ν} {x : Row ν} (h : DefU sc t) (hx : x.dflt = false) :
    DefU sc (t ++ [x]) := by
  unfold DefU at h ⊢
  rw [List.pairwise_append]
  refine ⟨h, by simp, ?_⟩
  intro a _ b hb
  simp at hb; subst hb
  simp [hx]

theorem namesU_append_new {t : Table ν} {x : Row ν} (h : NamesU t) (hx : (t.any fun r => r.name = x.name) = false) :
    NamesU (t ++ [x]) := by
  unfold NamesU at h ⊢
  rw [List.pairwise_append]
  refine ⟨h, by simp, ?_⟩
  intro a ha b hb
  simp at hb; subst hb
  simp only [List.any_eq_false, decide_eq_true_eq] at hx
  exact hx a ha

theorem insertCF_defU {sc : Bool} {o : Nat} {n : ν} {t t' : Table ν} (hn : NamesU t) (hd : DefU sc t)
    (h : insertCF sc o n t = some t') : DefU sc t' := by
  unfold insertCF at h
  split at h
  · cases h
  · rename_i ha
    simp only [Option.some.injEq] at h
    subst h
    have h2 : DefU sc (t ++ [newRow o n t]) := defU_append_new hd rfl
    split
    · exact h2
    · exact setDefaultCF_defU (namesU_append_new hn (by simp only [newRow]; exact Bool.eq_false_iff.mpr ha)) h2

theorem namesU_filter {t : Table ν} (p : Row ν → Bool) (h : NamesU t) : NamesU (t.filter p) := List.Pairwise.filter _ h
theorem ridsU_filter {t : Table ν} (p : Row ν → Bool) (h : RidsU t) : RidsU (t.filter p) := List.Pairwise.filter _ h
theorem defU_filter {sc : Bool} {t : Table ν} (p : Row ν → Bool) (h : DefU sc t) : DefU sc (t.filter p) :=
  List.Pairwise.filter _ h

/-! #### defaults per scope and the ghost `lost` -/

theorem hasDefault_iff {sc : Bool} {o : Nat} {t : Table ν} :
    hasDefault sc o t = true ↔ ∃ r ∈ t, r.dflt = true ∧ sameScope sc o r.owner = true := by
  simp [hasDefault, List.any_eq_true]

theorem sameScope_refl (sc : Bool) (a : Nat) : sameScope sc a a = true := by
  cases sc <;> simp [sameScope]

theorem hasDefault_scopeKey (sc : Bool) (o : Nat) (t : Table ν) :
    hasDefault sc (scopeKey sc o) t = hasDefault sc o t := by
  cases sc <;> simp [scopeKey, hasDefault, sameScope]

theorem scopeKey_eq_of_sameScope {sc : Bool} {a b : Nat} (h : sameScope sc a b = true) :
    scopeKey sc a = scopeKey sc b := by
  cases sc <;> simp_all [sameScope, scopeKey]

theorem hasDefault_congr {sc : Bool} {a b : Nat} (t : Table ν) (h : sameScope sc a b = true) :
    hasDefault sc a t = hasDefault sc b t := by
  cases sc <;> simp_all [sameScope, hasDefault]

theorem setDefaultCF_owners (sc : Bool) (n : ν) (t : Table ν) :
    (setDefaultCF sc n t).map (·.owner) = t.map (·.owner) := by
  cases h : t.find? (fun r => r.name = n) with
  | none => simp [setDefaultCF, h]
  | some r => simp [setDefaultCF_some h, List.map_map, Function.comp_def, sdRow_owner]

theorem hasDefault_setDefaultCF_mono {sc : Bool} {n : ν} {t : Table ν} {o : Nat}
    (h : hasDefault sc o t = true) : hasDefault sc o (setDefaultCF sc n t) = true := by
  cases hf : t.find? (fun r => r.name = n) with
  | none => simpa [setDefaultCF, hf] using h
  | some r =>
    rw [setDefaultCF_some hf]
    have hr := List.mem_of_find?_eq_some hf
    have hrn : r.name = n := by simpa using List.find?_some hf
    rw [hasDefault_iff] at h ⊢
    obtain ⟨d, hd, hdd, hds⟩ := h
    by_cases hdn : d.name = n
    · exact ⟨sdRow sc n r d, List.mem_map_of_mem hd, by simp [sdRow, hdn], by rw [sdRow_owner]; exact hds⟩
    · by_cases hc : r.dflt = false ∧ sameScope sc r.owner d.owner = true
      · refine ⟨sdRow sc n r r, List.mem_map_of_mem hr, by simp [sdRow, hrn], ?_⟩
        rw [sdRow_owner]
        exact sameScope_trans hds (by rw [sameScope_comm]; exact hc.2)
      · exact ⟨sdRow sc n r d, List.mem_map_of_mem hd, by simp [sdRow, hdn, hc, hdd], by rw [sdRow_owner]; exact hds⟩

theorem find_new {o : Nat} {n : ν} {t : Table ν} (ha : (t.any fun r => r.name = n) = false) :
    (t ++ [newRow o n t]).find? (fun r => r.name = n) = some (newRow o n t) := by
  rw [List.find?_append]
  have : t.find? (fun r => decide (r.name = n)) = none := by
    rw [List.find?_eq_none]
    simp only [List.any_eq_false] at ha
    exact ha
  simp [this, newRow]

theorem insertCF_hasDefault {sc : Bool} {o : Nat} {n : ν} {t t' : Table ν}
    (h : insertCF sc o n t = some t') :
    hasDefault sc o t' = true ∧ (∀ o', hasDefault sc o' t = true → hasDefault sc o' t' = true)
      ∧ t'.map (·.owner) = t.map (·.owner) ++ [o] := by
  unfold insertCF at h
  split at h
  · cases h
  · rename_i ha
    have ha : (t.any fun r => decide (r.name = n)) = false := Bool.eq_false_iff.mpr ha
    simp only [Option.some.injEq] at h
    subst h
    have hmono : ∀ o', hasDefault sc o' t = true → hasDefault sc o' (t ++ [newRow o n t]) = true := by
      intro o' h'
      rw [hasDefault_iff] at h' ⊢
      obtain ⟨d, hd, hx⟩ := h'
      exact ⟨d, List.mem_append_left _ hd, hx⟩
    split
    · rename_i hd
      exact ⟨hd, hmono, by simp [newRow]⟩
    · refine ⟨?_, fun o' h' => hasDefault_setDefaultCF_mono (hmono o' h'), by simp [setDefaultCF_owners, newRow]⟩
      rw [setDefaultCF_some (find_new ha), hasDefault_iff]
      exact ⟨sdRow sc n (newRow o n t) (newRow o n t), List.mem_map_of_mem (by simp),
        by simp [sdRow, newRow], by rw [sdRow_owner]; simp [newRow, sameScope_refl]⟩

/-- the per-table invariant -/
structure TabInv (sc : Bool) (T : Tab ν) : Prop where
  names : NamesU T.rows
  rids : RidsU T.rows
  defu : DefU sc T.rows
  lost : ∀ r ∈ T.rows, hasDefault sc r.owner T.rows = false → scopeKey sc r.owner ∈ T.lost

theorem TabInv.empty (sc : Bool) : TabInv sc (Tab.empty : Tab ν) :=
  ⟨List.Pairwise.nil, List.Pairwise.nil, List.Pairwise.nil, fun _ h => by cases h⟩

theorem TabInv.setDefault {sc : Bool} {T : Tab ν} (n : ν) (h : TabInv sc T) :
    TabInv sc (T.apply sc (setDefaultCF sc n)) := by
  refine ⟨setDefaultCF_namesU h.names, setDefaultCF_ridsU h.rids, setDefaultCF_defU h.names h.defu, ?_⟩
  intro r' hr' hnd
  simp only [Tab.apply] at hr' hnd ⊢
  have hown : r'.owner ∈ (setDefaultCF sc n T.rows).map (·.owner) := List.mem_map_of_mem hr'
  rw [setDefaultCF_owners] at hown
  obtain ⟨r, hr, hro⟩ := List.mem_map.mp hown
  have hold : hasDefault sc r.owner T.rows = false := by
    cases hx : hasDefault sc r.owner T.rows
    · rfl
    · rw [hro] at hx; rw [hasDefault_setDefaultCF_mono hx] at hnd; cases hnd
  rw [List.mem_filter]
  refine ⟨by rw [← hro]; exact h.lost r hr hold, ?_⟩
  simp [hasDefault_scopeKey, hnd]

theorem TabInv.insert {sc : Bool} {T : Tab ν} {o : Nat} {n : ν} {t' : Table ν} (h : TabInv sc T)
    (hi : insertCF sc o n T.rows = some t') : TabInv sc (T.apply sc fun _ => t') := by
  refine ⟨insertCF_namesU h.names hi, insertCF_ridsU h.rids hi, insertCF_defU h.names h.defu hi, ?_⟩
  obtain ⟨h1, h2, h3⟩ := insertCF_hasDefault hi
  intro r' hr' hnd
  simp only [Tab.apply] at hr' hnd ⊢
  have hown : r'.owner ∈ t'.map (·.owner) := List.mem_map_of_mem hr'
  rw [h3, List.mem_append] at hown
  rw [List.mem_filter]
  refine ⟨?_, by simp [hasDefault_scopeKey, hnd]⟩
  cases hown with
  | inl hold =>
    obtain ⟨r, hr, hro⟩ := List.mem_map.mp hold
    have : hasDefault sc r.owner T.rows = false := by
      cases hx : hasDefault sc r.owner T.rows
      · rfl
      · rw [hro] at hx; rw [h2 _ hx] at hnd; cases hnd
    rw [← hro]; exact h.lost r hr this
  | inr hnew =>
    simp at hnew
    rw [hnew, h1] at hnd; cases hnd

theorem TabInv.delete {sc : Bool} {T : Tab ν} (p : Row ν → Bool) (h : TabInv sc T) : TabInv sc (T.delete sc p) := by
  refine ⟨namesU_filter _ h.names, ridsU_filter _ h.rids, defU_filter _ h.defu, ?_⟩
  intro r' hr' hnd
  simp only [Tab.delete] at hr' hnd ⊢
  rw [List.mem_filter]
  refine ⟨?_, by simp [hasDefault_scopeKey, hnd]⟩
  have hr : r' ∈ T.rows := (List.mem_filter.mp hr').1
  rw [List.mem_append]
  cases hx : hasDefault sc r'.owner T.rows
  · exact Or.inl (h.lost r' hr hx)
  · right
    obtain ⟨d, hd, hdd, hds⟩ := hasDefault_iff.mp hx
    have hpd : p d = true := by
      cases hp : p d
      · have : hasDefault sc r'.owner (T.rows.filter fun x => !p x) = true :=
          hasDefault_iff.mpr ⟨d, List.mem_filter.mpr ⟨hd, by simp [hp]⟩, hdd, hds⟩
        rw [this] at hnd; cases hnd
      · rfl
    rw [scopeKey_eq_of_sameScope hds]
    exact List.mem_map.mpr ⟨d, List.mem_filter.mpr ⟨hd, by simp [hpd, hdd]⟩, rfl⟩

/-- `lost` grows only by deleting a default row -/
theorem lost_delete {sc : Bool} {T : Tab ν} (p : Row ν → Bool) {k : Nat} (h : k ∈ (T.delete sc p).lost) :
    k ∈ T.lost ∨ ∃ d ∈ T.rows, p d = true ∧ d.dflt = true ∧ scopeKey sc d.owner = k := by
  simp only [Tab.delete, List.mem_filter, List.mem_append, List.mem_map] at h
  rcases h.1 with h | ⟨d, hd, rfl⟩
  · exact Or.inl h
  · simp only [Bool.and_eq_true] at hd
    exact Or.inr ⟨d, hd.1, hd.2.1, hd.2.2, rfl⟩

theorem lost_apply {sc : Bool} {T : Tab ν} (f : Table ν → Table ν) {k : Nat} (h : k ∈ (T.apply sc f).lost) :
    k ∈ T.lost := by
  simp only [Tab.apply, List.mem_filter] at h
  exact h.1

end TableLevel
/-! ### Part 2: Hoare logic for `M` (postcondition for normal return, postcondition per exception) -/

section Hoare
variable {α β : Type}

@[simp] theorem run_pure (a : α) (s : Sys) : (pure a : M α).run s = (.ok a, s) := rfl
@[simp] theorem run_bind (m : M α) (f : α → M β) (s : Sys) :
    (m >>= f).run s = match m.run s with
      | (.ok a, s') => (f a).run s'
      | (.error e, s') => (.error e, s') := by
  show M.bind m f s = _
  unfold M.bind M.run
  rcases m s with ⟨_ | _, _⟩ <;> rfl
@[simp] theorem run_raise (e : KErr) (s : Sys) : (raise e : M α).run s = (.error e, s) := rfl
@[simp] theorem run_getS (s : Sys) : getS.run s = (.ok s, s) := rfl
@[simp] theorem run_modS (f : Sys → Sys) (s : Sys) : (modS f).run s = (.ok (), f s) := rfl
theorem run_tick (s : Sys) : tick.run s = match s.fault with
    | none => (.ok (), s)
    | some 0 => (.error .injected, { s with fault := none })
    | some (k + 1) => (.ok (), { s with fault := some k }) := rfl
@[simp] theorem run_mk (f : Sys → Except KErr α × Sys) (s : Sys) : (M.mk f).run s = f s := rfl

def Triple (P : Sys → Prop) (m : M α) (Q : α → Sys → Prop) (E : KErr → Sys → Prop) : Prop :=
  ∀ s, P s → match m.run s with
    | (.ok a, s') => Q a s'
    | (.error e, s') => E e s'

theorem Triple.conseq {P P' : Sys → Prop} {m : M α} {Q Q' : α → Sys → Prop} {E E' : KErr → Sys → Prop}
    (h : Triple P m Q E) (hp : ∀ s, P' s → P s) (hq : ∀ a s, Q a s → Q' a s) (he : ∀ e s, E e s → E' e s) :
    Triple P' m Q' E' := by
  intro s hs
  have := h s (hp s hs)
  rcases hm : m.run s with ⟨_ | _, _⟩ <;> simp only [hm] at this ⊢
  · exact he _ _ this
  · exact hq _ _ this

theorem Triple.bind {P : Sys → Prop} {m : M α} {Q' : α → Sys → Prop} {f : α → M β} {Q : β → Sys → Prop}
    {E : KErr → Sys → Prop} (h1 : Triple P m Q' E) (h2 : ∀ a, Triple (Q' a) (f a) Q E) :
    Triple P (m >>= f) Q E := by
  intro s hs
  have := h1 s hs
  rw [run_bind]
  rcases hm : m.run s with ⟨_ | a, s'⟩ <;> simp only [hm] at this ⊢
  · exact this
  · exact h2 a s' this

theorem Triple.pure {P : Sys → Prop} {a : α} {Q : α → Sys → Prop} {E : KErr → Sys → Prop}
    (h : ∀ s, P s → Q a s) : Triple P (pure a : M α) Q E := fun s hs => h s hs

theorem Triple.raise {P : Sys → Prop} {e : KErr} {Q : α → Sys → Prop} {E : KErr → Sys → Prop}
    (h : ∀ s, P s → E e s) : Triple P (raise e : M α) Q E := fun s hs => h s hs

theorem Triple.getS {P : Sys → Prop} {E : KErr → Sys → Prop} :
    Triple P getS (fun a s => P s ∧ a = s) E := fun s hs => ⟨hs, rfl⟩

theorem Triple.modS {P : Sys → Prop} {f : Sys → Sys} {Q : Unit → Sys → Prop} {E : KErr → Sys → Prop}
    (h : ∀ s, P s → Q () (f s)) : Triple P (modS f) Q E := fun s hs => h s hs

theorem Triple.ofOpt {P : Sys → Prop} {e : KErr} {o : Option α} {Q : α → Sys → Prop} {E : KErr → Sys → Prop}
    (hs : ∀ a s, o = some a → P s → Q a s) (hn : ∀ s, o = none → P s → E e s) : Triple P (ofOpt e o) Q E := by
  cases o with
  | none => exact fun s h => hn s rfl h
  | some a => exact fun s' h => hs a s' rfl h

/-- predicates that do not look at the fault counter -/
def FI (P : Sys → Prop) : Prop := ∀ s f, P s → P { s with fault := f }

theorem Triple.tick {P : Sys → Prop} (h : FI P) : Triple P tick (fun _ => P) (fun _ => P) := by
  intro s hs
  rw [run_tick]
  rcases hf : s.fault with _ | _ | k
  · exact hs
  · exact h s none hs
  · exact h s (some k) hs

/-- invariant preservation: also when the operation raises -/
def Pres (I : Sys → Prop) (m : M α) : Prop := Triple I m (fun _ => I) (fun _ => I)

theorem Pres.bind {I : Sys → Prop} {m : M α} {f : α → M β} (h1 : Pres I m) (h2 : ∀ a, Pres I (f a)) :
    Pres I (m >>= f) := Triple.bind h1 h2
theorem Pres.pure {I : Sys → Prop} (a : α) : Pres I (pure a : M α) := Triple.pure fun _ h => h
theorem Pres.raise {I : Sys → Prop} (e : KErr) : Pres I (raise e : M α) := Triple.raise fun _ h => h
theorem Pres.getS {I : Sys → Prop} : Pres I getS := fun _ hs => hs
theorem Pres.modS {I : Sys → Prop} {f : Sys → Sys} (h : ∀ s, I s → I (f s)) : Pres I (modS f) := Triple.modS h
theorem Pres.ofOpt {I : Sys → Prop} (e : KErr) (o : Option α) : Pres I (ofOpt e o) :=
  Triple.ofOpt (fun _ _ _ h => h) (fun _ _ h => h)
theorem Pres.tick {I : Sys → Prop} (h : FI I) : Pres I tick := Triple.tick h
theorem Pres.raiseIf {I : Sys → Prop} (c : Bool) (e : KErr) : Pres I (raiseIf c e) := by
  unfold Keychain.raiseIf; split
  · exact Pres.raise _
  · exact Pres.pure _
theorem Pres.whenM {I : Sys → Prop} {c : Bool} {m : M Unit} (h : Pres I m) : Pres I (whenM c m) := by
  unfold Keychain.whenM; split
  · exact h
  · exact Pres.pure _
theorem Pres.ite {I : Sys → Prop} {c : Prop} [Decidable c] {a b : M α} (ha : Pres I a) (hb : Pres I b) :
    Pres I (if c then a else b) := by split <;> assumption

end Hoare

/-! ### Part 3: the system invariant and its preservation by every operation (with or without faults) -/

structure DbInv (d : Db) : Prop where
  ids : TabInv false d.ids
  keys : TabInv true d.keys
  certs : TabInv true d.certs

structure SysInv (s : Sys) : Prop where
  cur : DbInv s.cur
  com : DbInv s.com
  /-- a cached signer is the one `tpm.get_signer(key, locator)` would return, and its key file exists -/
  cache : ∀ e ∈ s.cache, e.2.key = e.1.1 ∧ e.2.loc = e.1.2 ∧ e.1.1 ∈ s.tpm
  /-- key ids in the TPM have been generated -/
  kids : ∀ k ∈ s.tpm, k.kid < s.nextKid

theorem SysInv.init : SysInv Sys.init :=
  { cur := ⟨TabInv.empty _, TabInv.empty _, TabInv.empty _⟩
    com := ⟨TabInv.empty _, TabInv.empty _, TabInv.empty _⟩
    cache := fun _ h => by cases h
    kids := fun _ h => by cases h }

theorem SysInv.fi : FI SysInv := fun _ _ h => ⟨h.cur, h.com, h.cache, h.kids⟩

theorem updIds_eq : updSetDefault (ν := Nat) (trs .identities) = setDefaultCF false := by
  funext n t; exact upd_ids n t
theorem updKeys_eq : updSetDefault (ν := KeyName) (trs .keys) = setDefaultCF true := by
  funext n t; exact upd_keys n t
theorem updCerts_eq : updSetDefault (ν := CertName) (trs .certificates) = setDefaultCF true := by
  funext n t; exact upd_certs n t

theorem SysInv.modCur {f : Db → Db} (hf : ∀ d, DbInv d → DbInv (f d)) {s : Sys} (h : SysInv s) :
    SysInv { s with cur := f s.cur } := ⟨hf _ h.cur, h.com, h.cache, h.kids⟩

theorem pres_modCur {f : Db → Db} (hf : ∀ d, DbInv d → DbInv (f d)) : Pres SysInv (modCur f) :=
  Pres.modS fun _ h => h.modCur hf

theorem pres_tick : Pres SysInv tick := Pres.tick SysInv.fi

theorem pres_commit : Pres SysInv commit :=
  Pres.bind pres_tick fun _ => Pres.modS fun _ h => ⟨h.cur, h.cur, h.cache, h.kids⟩

theorem pres_execSetDefaultId (n : Nat) : Pres SysInv (execSetDefaultId n) :=
  Pres.bind pres_tick fun _ => pres_modCur fun d h => by
    rw [updIds_eq]; exact ⟨h.ids.setDefault n, h.keys, h.certs⟩
theorem pres_execSetDefaultKey (k : KeyName) : Pres SysInv (execSetDefaultKey k) :=
  Pres.bind pres_tick fun _ => pres_modCur fun d h => by
    rw [updKeys_eq]; exact ⟨h.ids, h.keys.setDefault k, h.certs⟩
theorem pres_execSetDefaultCert (c : CertName) : Pres SysInv (execSetDefaultCert c) :=
  Pres.bind pres_tick fun _ => pres_modCur fun d h => by
    rw [updCerts_eq]; exact ⟨h.ids, h.keys, h.certs.setDefault c⟩

theorem pres_execInsertId (n : Nat) : Pres SysInv (execInsertId n) := by
  refine Pres.bind pres_tick fun _ => Triple.bind (Q' := fun a s => SysInv s ∧ a = s) Triple.getS fun a => ?_
  split
  · exact Triple.raise fun _ h => h.1
  · rename_i t ht
    refine Triple.modS fun s h => ?_
    obtain ⟨h, rfl⟩ := h
    rw [ins_ids] at ht
    exact ⟨⟨h.cur.ids.insert ht, h.cur.keys, h.cur.certs⟩, h.com, h.cache, h.kids⟩

theorem pres_execInsertKey (o : Nat) (k : KeyName) : Pres SysInv (execInsertKey o k) := by
  refine Pres.bind pres_tick fun _ => Triple.bind (Q' := fun a s => SysInv s ∧ a = s) Triple.getS fun a => ?_
  split
  · exact Triple.raise fun _ h => h.1
  · rename_i t ht
    refine Triple.modS fun s h => ?_
    obtain ⟨h, rfl⟩ := h
    rw [ins_keys] at ht
    exact ⟨⟨h.cur.ids, h.cur.keys.insert ht, h.cur.certs⟩, h.com, h.cache, h.kids⟩

theorem pres_execInsertCert (k : KeyName) (c : CertName) : Pres SysInv (execInsertCert k c) := by
  refine Pres.bind pres_tick fun _ => Triple.bind (Q' := fun a s => SysInv s ∧ a = s) Triple.getS fun a => ?_
  split
  · exact Triple.raise fun _ h => h.1
  · split
    · exact Triple.raise fun _ h => h.1
    · rename_i t ht
      refine Triple.modS fun s h => ?_
      obtain ⟨h, rfl⟩ := h
      rw [ins_certs] at ht
      exact ⟨⟨h.cur.ids, h.cur.keys, h.cur.certs.insert ht⟩, h.com, h.cache, h.kids⟩

theorem pres_lookupId (n : Nat) : Pres SysInv (lookupId n) :=
  Pres.bind Pres.getS fun _ => Pres.ofOpt _ _

theorem pres_lookupKey (k : KeyName) : Pres SysInv (lookupKey k) :=
  Pres.bind (pres_lookupId _) fun _ => Pres.bind Pres.getS fun _ => Pres.ofOpt _ _

theorem pres_setDefaultIdentity (n : Nat) : Pres SysInv (setDefaultIdentity n) :=
  Pres.bind (pres_execSetDefaultId n) fun _ => pres_commit

theorem pres_newIdentity (n : Nat) : Pres SysInv (newIdentity n) := by
  unfold newIdentity
  refine Pres.bind Pres.getS fun _ => Pres.bind (Pres.raiseIf _ _) fun _ =>
    Pres.bind (pres_execInsertId n) fun _ => Pres.bind pres_commit fun _ => Pres.bind Pres.getS fun _ =>
    Pres.bind (Pres.whenM (pres_setDefaultIdentity n)) fun _ =>
    Pres.bind (pres_lookupId n) fun _ => Pres.pure _

theorem pres_newKey (n : Nat) (bad : Bool) : Pres SysInv (newKey n bad) := by
  unfold newKey
  refine Pres.bind (pres_lookupId n) fun i => Pres.bind pres_tick fun _ =>
    Pres.bind (Pres.raiseIf _ _) fun _ =>
    Triple.bind (Q' := fun a s => SysInv s ∧ a = s) Triple.getS fun a => ?_
  refine Triple.bind (Q' := fun _ s => SysInv s) (Triple.modS fun s h => ?_) fun _ => ?_
  · obtain ⟨h, rfl⟩ := h
    refine ⟨h.cur, h.com, fun e he => ?_, fun k hk => ?_⟩
    · obtain ⟨h1, h2, h3⟩ := h.cache e he
      exact ⟨h1, h2, List.mem_append_left _ h3⟩
    · simp only [List.mem_append, List.mem_singleton] at hk
      rcases hk with hk | rfl
      · have := h.kids k hk
        show k.kid < a.nextKid + 1
        omega
      · show a.nextKid < a.nextKid + 1
        omega
  · refine Pres.bind pres_tick fun _ => Pres.bind Pres.getS fun _ =>
      Pres.bind (Pres.raiseIf _ _) fun _ =>
      Pres.bind (pres_execInsertKey _ _) fun _ => Pres.bind (pres_execInsertCert _ _) fun _ =>
      Pres.bind pres_commit fun _ => Pres.bind Pres.getS fun _ =>
      Pres.bind (Pres.whenM (Pres.bind (pres_execSetDefaultKey _) fun _ => pres_commit)) fun _ =>
      Pres.bind Pres.getS fun _ => Pres.bind (Pres.ofOpt _ _) fun _ => Pres.pure _

theorem pres_touchIdentity (n : Nat) : Pres SysInv (touchIdentity n) := by
  unfold touchIdentity
  refine Pres.bind Pres.getS fun _ =>
    Pres.bind (Pres.whenM (Pres.bind (pres_execInsertId n) fun _ => Pres.bind pres_commit fun _ => pres_newKey n false)) fun _ =>
    Pres.bind Pres.getS fun _ => Pres.bind (Pres.whenM (pres_setDefaultIdentity n)) fun _ =>
    Pres.bind (pres_lookupId n) fun _ => Pres.pure _

theorem pres_importCert (k : KeyName) (c : CertName) : Pres SysInv (importCert k c) :=
  Pres.bind (pres_execInsertCert k c) fun _ => pres_commit

theorem pres_setDefaultKey (v : Nat) (k : KeyName) : Pres SysInv (setDefaultKey v k) :=
  Pres.bind (pres_lookupId v) fun _ => Pres.bind (pres_execSetDefaultKey k) fun _ => pres_commit

theorem pres_setDefaultCert (v : KeyName) (c : CertName) : Pres SysInv (setDefaultCert v c) :=
  Pres.bind (pres_lookupKey v) fun _ => Pres.bind (pres_execSetDefaultCert c) fun _ => pres_commit

theorem pres_clearCache : Pres SysInv clearCache :=
  Pres.modS fun _ h => ⟨h.cur, h.com, (fun _ he => by cases he), h.kids⟩

theorem pres_delCert (c : CertName) : Pres SysInv (delCert c) :=
  Pres.bind pres_tick fun _ =>
    Pres.bind (pres_modCur fun _ h => ⟨h.ids, h.keys, h.certs.delete _⟩) fun _ =>
    Pres.bind pres_commit fun _ => pres_clearCache

theorem pres_tpmDelete (k : KeyName) :
    Pres SysInv (modS (fun s => { s with tpm := s.tpm.filter fun x => x ≠ k }) >>= fun _ => clearCache) := by
  intro s h
  simp only [run_bind, run_modS, clearCache]
  exact ⟨h.cur, h.com, (fun _ he => by cases he), fun x hx => h.kids x (List.mem_filter.mp hx).1⟩

theorem pres_delKey (k : KeyName) : Pres SysInv (delKey k) := by
  unfold delKey
  exact Pres.bind (pres_lookupKey k) fun kr => Pres.bind pres_tick fun _ =>
    Pres.bind (pres_modCur fun _ h => ⟨h.ids, h.keys, h.certs.delete _⟩) fun _ =>
    Pres.bind pres_tick fun _ =>
    Pres.bind (pres_modCur fun _ h => ⟨h.ids, h.keys.delete _, h.certs⟩) fun _ =>
    Pres.bind pres_commit fun _ => Pres.bind pres_tick fun _ => pres_tpmDelete k

theorem pres_delKeys (ks : List KeyName) : Pres SysInv (delKeys ks) := by
  induction ks with
  | nil => exact Pres.pure _
  | cons k r ih => exact Pres.bind (pres_delKey k) fun _ => ih

theorem pres_delIdentity (n : Nat) : Pres SysInv (delIdentity n) := by
  unfold delIdentity
  exact Pres.bind (pres_lookupId n) fun _ => Pres.bind Pres.getS fun _ => Pres.bind (pres_delKeys _) fun _ =>
    Pres.bind pres_tick fun _ =>
    Pres.bind (pres_modCur fun _ h => ⟨h.ids.delete _, h.keys, h.certs⟩) fun _ =>
    Pres.bind pres_commit fun _ => pres_clearCache

theorem pres_delCertViaKey (v : KeyName) (c : CertName) : Pres SysInv (delCertViaKey v c) :=
  Pres.bind (pres_lookupKey v) fun _ => Pres.raise _

theorem pres_reopen : Pres SysInv reopen :=
  Pres.modS fun _ h => ⟨h.com, h.com, (fun _ he => by cases he), h.kids⟩

theorem pres_getSigner (sel : Sel) (loc : Option Nat) : Pres SysInv (getSigner sel loc) := by
  unfold getSigner
  refine Triple.bind (Q' := fun a s => SysInv s ∧ a.tpm = s.tpm) (fun s h => ⟨h, rfl⟩) fun a => ?_
  refine Triple.bind (Q' := fun _ s => SysInv s ∧ a.tpm = s.tpm)
    (Triple.ofOpt (fun _ _ _ h => h) (fun _ _ h => h.1)) fun kc => ?_
  obtain ⟨k, c⟩ := kc
  dsimp only
  split
  · exact Triple.pure fun _ h => h.1
  · refine Triple.bind (Q' := fun _ s => SysInv s ∧ a.tpm = s.tpm) ?_ fun _ => ?_
    · exact Triple.conseq (Triple.tick (P := fun s => SysInv s ∧ a.tpm = s.tpm) fun s f h => ⟨SysInv.fi s f h.1, h.2⟩)
        (fun _ h => h) (fun _ _ h => h) (fun _ _ h => h.1)
    · split
      · rename_i hk
        refine Triple.bind (Q' := fun _ s => SysInv s) (Triple.modS fun s h => ?_) fun _ => Triple.pure fun _ h => h
        refine ⟨h.1.cur, h.1.com, fun e he => ?_, h.1.kids⟩
        simp only [List.mem_append, List.mem_singleton] at he
        rcases he with he | rfl
        · exact h.1.cache e he
        · exact ⟨rfl, rfl, by rw [← h.2]; exact hk⟩
      · exact Triple.raise fun _ h => h.1

theorem pres_prog (op : Op) : Pres SysInv op.prog := by
  cases op <;> simp only [Op.prog]
  · exact Pres.bind (pres_newIdentity _) fun _ => Pres.pure _
  · exact Pres.bind (pres_touchIdentity _) fun _ => Pres.pure _
  · exact Pres.bind (pres_newKey _ _) fun _ => Pres.pure _
  · exact Pres.bind (pres_importCert _ _) fun _ => Pres.pure _
  · exact Pres.bind (pres_setDefaultIdentity _) fun _ => Pres.pure _
  · exact Pres.bind (pres_setDefaultKey _ _) fun _ => Pres.pure _
  · exact Pres.bind (pres_setDefaultCert _ _) fun _ => Pres.pure _
  · exact Pres.bind (pres_delIdentity _) fun _ => Pres.pure _
  · exact Pres.bind (pres_delKey _) fun _ => Pres.pure _
  · exact Pres.bind (pres_delCert _) fun _ => Pres.pure _
  · exact Pres.bind (pres_delCertViaKey _ _) fun _ => Pres.pure _
  · exact Pres.bind (pres_getSigner _ _) fun _ => Pres.pure _
  · exact Pres.bind pres_reopen fun _ => Pres.pure _

/-- generic: an invariant that ignores the fault counter and is preserved by every operation program
    holds along every history -/
theorem step_of_pres {I : Sys → Prop} (hfi : FI I) (hp : ∀ op, Pres I (Op.prog op)) (s : Sys)
    (of : Op × Option Nat) (h : I s) : I (step s of).2 := by
  have := hp of.1 { s with fault := of.2 } (hfi s of.2 h)
  unfold step
  rcases hm : (Op.prog of.1).run { s with fault := of.2 } with ⟨_ | _, s'⟩ <;> simp only [hm] at this ⊢ <;>
    exact hfi s' none this

theorem run_of_pres {I : Sys → Prop} (hfi : FI I) (hp : ∀ op, Pres I (Op.prog op)) (s : Sys)
    (ops : List (Op × Option Nat)) (h : I s) : I (run s ops) := by
  induction ops generalizing s with
  | nil => exact h
  | cons o r ih => exact ih _ (step_of_pres hfi hp s o h)

/-- the invariant holds after every history, with any storage failures injected -/
theorem sysInv_run (ops : List (Op × Option Nat)) : SysInv (run Sys.init ops) :=
  run_of_pres SysInv.fi pres_prog _ ops SysInv.init

end Ndn.Keychain
