import NdnModel.CodecWF
import NdnProofs.Lemmas.TlNum
import NdnProofs.Lemmas.Shrink
/-! Lemmas about the generic TLV model codec. -/
namespace Ndn.Codec
open Ndn

theorem tlv_length (t : Nat) (b : Bytes) :
    (tlv t b).length = tlNumSize t + tlNumSize b.length + b.length := by
  simp [tlv, writeTlNum_length]; omega

theorem tlvE_ok {t : Nat} {b r : Bytes} (h : tlvE t b = .ok r) :
    r = tlv t b ∧ t < 2 ^ 64 ∧ b.length < 2 ^ 64 := by
  unfold tlvE at h; split at h
  · rename_i hc; cases h; exact ⟨rfl, hc.1, hc.2⟩
  · cases h

theorem beN_length (w v : Nat) (h : w = 1 ∨ w = 2 ∨ w = 4 ∨ w = 8) : (beN w v).length = w := by
  rcases h with h | h | h | h <;> subst h <;> simp [beN]

theorem uintWidth_legal (fl : Option Nat) (v : Nat) (h : wfS (.uint t fl) = true) :
    uintWidth fl v = 1 ∨ uintWidth fl v = 2 ∨ uintWidth fl v = 4 ∨ uintWidth fl v = 8 := by
  unfold uintWidth
  cases fl with
  | none => simp only []; repeat' split
            all_goals simp
  | some w =>
    simp [wfS] at h
    simp only []; omega

/-- bind-inversion for `Except` -/
theorem bind_ok {α β} {x : Except PyErr α} {f : α → Except PyErr β} {b : β}
    (h : (x >>= f) = .ok b) : ∃ a, x = .ok a ∧ f a = .ok b := by
  cases x with
  | error e => simp [bind, Except.bind] at h
  | ok a => exact ⟨a, rfl, h⟩

mutual
theorem encLen_enc : ∀ (s : Schema) (v : Value) (b : Bytes), wfS s = true →
    enc s v = .ok b → encLen s v = .ok b.length
  | s, .none, b, _, h => by
    cases s <;> simp [enc] at h <;> subst h <;> simp [encLen]
  | .uint t fl, .uint v, b, hw, h => by
    simp only [enc] at h
    split at h
    · cases h
    · rename_i hv
      obtain ⟨rfl, _, _⟩ := tlvE_ok h
      have hl := beN_length (uintWidth fl v) v (uintWidth_legal fl v hw)
      simp only [encLen, hv, if_false, tlv_length, hl]
      rcases uintWidth_legal fl v hw with e | e | e | e <;> simp [e, tlNumSize]
  | .bool t, .bool, b, _, h => by
    simp only [enc] at h
    obtain ⟨rfl, _, _⟩ := tlvE_ok h
    simp [encLen, tlv_length, tlNumSize]
  | .bytes t s, .bytes x, b, _, h => by
    simp only [enc] at h
    obtain ⟨rfl, _, _⟩ := tlvE_ok h
    simp [encLen, tlv_length]
  | .name t, .name cs, b, _, h => by
    simp only [enc] at h
    obtain ⟨rfl, _, _⟩ := tlvE_ok h
    simp [encLen, tlv_length, tlNumSize]
  | .model t fs ic, .model vs, b, hw, h => by
    simp only [enc] at h
    obtain ⟨body, hb, h2⟩ := bind_ok h
    obtain ⟨rfl, _, _⟩ := tlvE_ok h2
    simp only [wfS, Bool.and_eq_true] at hw
    have := encLenFields_enc fs vs body hw.1 hb
    simp [encLen, this, tlv_length, bind, Except.bind, pure, Except.pure]
  | .repeated e, .list vs, b, hw, h => by
    simp only [enc] at h
    simp only [wfS, Bool.and_eq_true] at hw
    simpa [encLen] using encLenList_enc e vs b hw.2 h
  | .map k v, .map es, b, hw, h => by
    simp only [enc] at h
    simp only [wfS, Bool.and_eq_true] at hw
    simpa [encLen] using encLenMap_enc k v es b hw.1.1.1.2 hw.1.2 h
  | .map _ _, .uint _, _, _, h | .map _ _, .bool, _, _, h | .map _ _, .bytes _, _, _, h
  | .map _ _, .name _, _, _, h | .map _ _, .model _, _, _, h | .map _ _, .list _, _, _, h => by simp [enc] at h
  | .marker, _, b, hw, _ => by simp [wfS] at hw
  | .uint _ _, .bool, _, _, h | .uint _ _, .bytes _, _, _, h | .uint _ _, .name _, _, _, h
  | .uint _ _, .model _, _, _, h | .uint _ _, .list _, _, _, h | .uint _ _, .map _, _, _, h => by simp [enc] at h
  | .bool _, .uint _, _, _, h | .bool _, .bytes _, _, _, h | .bool _, .name _, _, _, h
  | .bool _, .model _, _, _, h | .bool _, .list _, _, _, h | .bool _, .map _, _, _, h => by simp [enc] at h
  | .bytes _ _, .uint _, _, _, h | .bytes _ _, .bool, _, _, h | .bytes _ _, .name _, _, _, h
  | .bytes _ _, .model _, _, _, h | .bytes _ _, .list _, _, _, h | .bytes _ _, .map _, _, _, h => by simp [enc] at h
  | .name _, .uint _, _, _, h | .name _, .bool, _, _, h | .name _, .bytes _, _, _, h
  | .name _, .model _, _, _, h | .name _, .list _, _, _, h | .name _, .map _, _, _, h => by simp [enc] at h
  | .model _ _ _, .uint _, _, _, h | .model _ _ _, .bool, _, _, h | .model _ _ _, .bytes _, _, _, h
  | .model _ _ _, .name _, _, _, h | .model _ _ _, .list _, _, _, h | .model _ _ _, .map _, _, _, h => by simp [enc] at h
  | .repeated _, .uint _, _, _, h | .repeated _, .bool, _, _, h | .repeated _, .bytes _, _, _, h
  | .repeated _, .name _, _, _, h | .repeated _, .model _, _, _, h | .repeated _, .map _, _, _, h => by simp [enc] at h
theorem encLenFields_enc : ∀ (fs : List Schema) (vs : List Value) (b : Bytes), wfFs fs = true →
    encFields fs vs = .ok b → encLenFields fs vs = .ok b.length
  | [], _, b, _, h => by simp [encFields] at h; subst h; simp [encLenFields]
  | _ :: _, [], b, _, h => by simp [encFields] at h; subst h; simp [encLenFields]
  | s :: ss, v :: vs, b, hw, h => by
    simp only [encFields] at h
    obtain ⟨a, ha, h2⟩ := bind_ok h
    obtain ⟨c, hc, h3⟩ := bind_ok h2
    simp only [pure, Except.pure] at h3; cases h3
    simp only [wfFs, Bool.and_eq_true] at hw
    simp [encLenFields, encLen_enc s v a hw.1 ha, encLenFields_enc ss vs c hw.2 hc, bind, Except.bind,
      pure, Except.pure]
theorem encLenList_enc : ∀ (e : Schema) (vs : List Value) (b : Bytes), wfS e = true →
    encList e vs = .ok b → encLenList e vs = .ok b.length
  | _, [], b, _, h => by simp [encList] at h; subst h; simp [encLenList]
  | e, v :: vs, b, hw, h => by
    simp only [encList] at h
    obtain ⟨a, ha, h2⟩ := bind_ok h
    obtain ⟨c, hc, h3⟩ := bind_ok h2
    simp only [pure, Except.pure] at h3; cases h3
    simp [encLenList, encLen_enc e v a hw ha, encLenList_enc e vs c hw hc, bind, Except.bind,
      pure, Except.pure]
theorem encLenMap_enc : ∀ (k v : Schema) (es : List (Value × Value)) (b : Bytes), wfS k = true → wfS v = true →
    encMap k v es = .ok b → encLenMap k v es = .ok b.length
  | _, _, [], b, _, _, h => by simp [encMap] at h; subst h; simp [encLenMap]
  | k, v, (x, y) :: r, b, hk, hv, h => by
    simp only [encMap] at h
    obtain ⟨a, ha, h2⟩ := bind_ok h
    obtain ⟨c, hc, h3⟩ := bind_ok h2
    obtain ⟨d, hd, h4⟩ := bind_ok h3
    simp only [pure, Except.pure] at h4; cases h4
    simp [encLenMap, encLen_enc k x a hk ha, encLen_enc v y c hv hc, encLenMap_enc k v r d hk hv hd, bind,
      Except.bind, pure, Except.pure, Nat.add_assoc]
end

end Ndn.Codec
