import NdnProofs.Lemmas.PacketParseInterest
/-!
  Parsing a made Interest whose name carries the ParametersSha256Digest component at **any** position (a
  caller-supplied placeholder that `make_interest` filled in): generalisation of `parseInterest_signed` /
  `parseInterest_params` from `name ++ [digest]` to `pre ++ digest :: post`.
-/
namespace Ndn.Packet
open Ndn Ndn.Codec

theorem placeDigest_at : ∀ (pre : List Bytes) (c : Bytes) (post : List Bytes) (d : Bytes),
    placeDigest (pre ++ c :: post) pre.length d = pre ++ (c.take 2 ++ d ++ c.drop 34) :: post
  | [], c, post, d => by simp [placeDigest]
  | p :: r, c, post, d => by simp [placeDigest, placeDigest_at r c post d]

/-- filling a well-formed placeholder `02 20 <32 bytes>` replaces exactly its 32 value bytes -/
theorem placeDigest_placeholder (pre post : List Bytes) (x d : Bytes) (hx : x.length = 32) :
    placeDigest (pre ++ (2 :: 32 :: x) :: post) pre.length d = pre ++ (2 :: 32 :: d) :: post := by
  rw [placeDigest_at]
  have : (2 :: 32 :: x).drop 34 = [] := by simp [hx]
  simp [this]

theorem digestPos_keep (need : Bool) (k : Nat) : ∀ (l : List Bytes) (i : Nat),
    (∀ c ∈ l, isDigestComp c = false) → digestPos need l i (some k) = .ok (some k)
  | [], _, _ => rfl
  | c :: r, i, h => by
    simp only [digestPos, h c (List.mem_cons_self ..), Bool.false_eq_true, if_false]
    exact digestPos_keep need k r (i + 1) (fun x hx => h x (List.mem_cons_of_mem _ hx))

/-- `InterestNameField.encoded_length` finds the one digest component of the name -/
theorem digestPos_at : ∀ (pre : List Bytes) (c : Bytes) (post : List Bytes) (i : Nat),
    (∀ x ∈ pre, isDigestComp x = false) → isDigestComp c = true → (∀ x ∈ post, isDigestComp x = false) →
    digestPos true (pre ++ c :: post) i none = .ok (some (i + pre.length))
  | [], c, post, i, _, hc, hpost => by
    simp only [List.nil_append, digestPos, hc, if_true, and_self, List.length_nil, Nat.add_zero]
    exact digestPos_keep true i post (i + 1) hpost
  | p :: r, c, post, i, hpre, hc, hpost => by
    simp only [List.cons_append, digestPos, hpre p (List.mem_cons_self ..), Bool.false_eq_true, if_false]
    rw [digestPos_at r c post (i + 1) (fun x hx => hpre x (List.mem_cons_of_mem _ hx)) hc hpost]
    simp only [List.length_cons]
    congr 2; omega

theorem lastDigest_at : ∀ (pre post : List Bytes) (d : Bytes), (∀ c ∈ post, isDigestComp c = false) →
    lastDigest (pre ++ (2 :: 32 :: d) :: post) = some d
  | [], post, d, h => by
    simp only [List.nil_append, lastDigest, lastDigest_none post h, digestComp_isDigest, digestComp_value, if_true]
  | c :: r, post, d, h => by simp only [List.cons_append, lastDigest, lastDigest_at r post d h]

theorem filter_nondigest_at (pre post : List Bytes) (d : Bytes)
    (hpre : ∀ c ∈ pre, isDigestComp c = false) (hpost : ∀ c ∈ post, isDigestComp c = false) :
    (pre ++ (2 :: 32 :: d) :: post).filter (fun c => !isDigestComp c) = pre ++ post := by
  have h1 : pre.filter (fun c => !isDigestComp c) = pre :=
    List.filter_eq_self.mpr (fun c hc => by simp [hpre c hc])
  have h3 : post.filter (fun c => !isDigestComp c) = post :=
    List.filter_eq_self.mpr (fun c hc => by simp [hpost c hc])
  rw [List.filter_append, h1]
  simp only [List.filter, digestComp_isDigest, Bool.not_true]
  exact congrArg _ h3

theorem comps_at_ok (pre post : List Bytes) (d : Bytes) (hpre : pre.all compOk = true)
    (hpost : post.all compOk = true) (hd : d.length = 32) :
    (pre ++ (2 :: 32 :: d) :: post).all compOk = true := by
  simp only [List.all_append, List.all_cons, hpre, hpost, digestComp_compOk d hd, Bool.and_self]

/-- **parse_interest on a signed Interest whose digest component sits anywhere in the name.** -/
theorem parseInterest_signed_at (pre post : List Bytes) (d : Bytes) (mid : List Value) (app sigInfo : Value)
    (sig midB tailA : Bytes)
    (hmid : encFields midFs mid = .ok midB)
    (htail : encFields [.bytes 36 false, intSigInfoS] [app, sigInfo] = .ok tailA)
    (hpre : pre.all compOk = true) (hpost : post.all compOk = true)
    (hndpre : ∀ c ∈ pre, isDigestComp c = false) (hndpost : ∀ c ∈ post, isDigestComp c = false)
    (hd : d.length = 32) (hfitmid : fitsFs midFs mid = true)
    (hfittail : fitsFs [.bytes 36 false, intSigInfoS] [app, sigInfo] = true)
    (hsig : sig.length < 2 ^ 64)
    (hsize : (tlv 7 (concatB (pre ++ (2 :: 32 :: d) :: post)) ++ midB ++ tailA ++ tlv 46 sig).length < 2 ^ 64) :
    parseInterest (tlv 5 (tlv 7 (concatB (pre ++ (2 :: 32 :: d) :: post)) ++ midB ++ tailA ++ tlv 46 sig)) =
      .ok (List.replicate 7 (Value.uint 0) ++ (Value.name (pre ++ (2 :: 32 :: d) :: post) :: mid) ++
             List.replicate 2 (Value.uint (tlv 7 (concatB (pre ++ (2 :: 32 :: d) :: post)) ++ midB).length) ++
             [app, sigInfo, Value.bytes sig] ++ [Value.none],
           { sigCovered := pre ++ post ++ [tailA], sigValue := some sig,
             digestCovered := [tailA ++ tlv 46 sig], digestValue := some d }) := by
  generalize hcs : pre ++ (2 :: 32 :: d) :: post = comps at hsize ⊢
  have hcl : (concatB comps).length < 2 ^ 64 := by
    simp only [List.length_append, tlv_length] at hsize; omega
  have hcomps : comps.all compOk = true := by rw [← hcs]; exact comps_at_ok pre post d hpre hpost hd
  have hlast : lastDigest comps = some d := by rw [← hcs]; exact lastDigest_at pre post d hndpost
  have hfilt : comps.filter (fun c => !isDigestComp c) = pre ++ post := by
    rw [← hcs]; exact filter_nondigest_at pre post d hndpre hndpost
  have henc : enc (.bytes 46 false) (.bytes sig) = .ok (tlv 46 sig) := by simp [enc, tlvE, hsig]
  have htail3 : encFields intTailFs [app, sigInfo, Value.bytes sig] = .ok (tailA ++ tlv 46 sig) :=
    encFields_append_one [.bytes 36 false, intSigInfoS] [app, sigInfo] (.bytes 46 false) (.bytes sig)
      tailA (tlv 46 sig) rfl htail henc
  have hfit3 : fitsFs intTailFs [app, sigInfo, Value.bytes sig] = true := by
    simp only [intTailFs, fitsFs, Bool.and_eq_true] at hfittail ⊢
    exact ⟨hfittail.1, hfittail.2.1, by simp [fits], trivial⟩
  have hne : tailA ++ tlv 46 sig ≠ [] := by
    intro e; exact tlv_ne_nil 46 sig (List.append_eq_nil_iff.mp e).2
  have hassoc : tlv 7 (concatB comps) ++ midB ++ tailA ++ tlv 46 sig
      = tlv 7 (concatB comps) ++ midB ++ (tailA ++ tlv 46 sig) := by
    simp [List.append_assoc]
  have hdec := decode_interest _ mid app sigInfo (Value.bytes sig) midB _ hmid htail3 hcomps hfitmid hfit3
    hcl hne (by rw [← hassoc]; exact hsize)
  rw [← hassoc] at hdec
  have hck := parseAndCheckTl_tlv 5 _ (by decide) hsize
  have hseq : SeqWithout 46 (tlv 7 (concatB comps) ++ midB ++ tailA) := by
    have h7 : SeqWithout 46 (tlv 7 (concatB comps)) := by
      simpa using SeqWithout.cons 7 (concatB comps) [] (by decide) (by decide) hcl .nil
    exact (h7.append (seqWithout_fieldsB 46 midFs mid midB (by decide) hmid)).append
      (seqWithout_fieldsB 46 _ _ tailA (by decide) htail)
  have hoff := offsetOfType_skip 46 (by decide) sig [] hsig hseq
    ((tlv 7 (concatB comps) ++ midB ++ tailA ++ tlv 46 sig).length + 1) 0
    (by simp only [List.length_append]; omega)
  simp only [List.append_nil, Nat.zero_add] at hoff
  obtain ⟨m1, m2, m3, m4, m5, m6, rfl⟩ := six_of_length mid (fitsFs_length _ _ hfitmid)
  have hs1 := pySlice_mid (tlv 7 (concatB comps) ++ midB) tailA (tlv 46 sig)
  have hs2 := pySlice_to_end (tlv 7 (concatB comps) ++ midB) (tailA ++ tlv 46 sig)
  rw [← List.append_assoc] at hs2
  rw [← List.length_append] at hs1
  generalize tlv 7 (concatB comps) ++ midB ++ tailA ++ tlv 46 sig = V at hdec hck hoff hs1 hs2 ⊢
  generalize (tlv 7 (concatB comps) ++ midB ++ tailA).length = b at hoff hs1 ⊢
  generalize (tlv 7 (concatB comps) ++ midB).length = a at hdec hs1 hs2 ⊢
  unfold parseInterest
  simp only [hdec, hck, bind, Except.bind, pure, Except.pure]
  simp [bytesOf, markerOff, hoff, List.replicate, hs1, hs2, hlast, hfilt]

/-- **parse_interest on an unsigned Interest with ApplicationParameters whose digest component sits anywhere.** -/
theorem parseInterest_params_at (pre post : List Bytes) (d : Bytes) (mid : List Value) (app sigInfo : Value)
    (midB tailA : Bytes)
    (hmid : encFields midFs mid = .ok midB)
    (htail : encFields [.bytes 36 false, intSigInfoS] [app, sigInfo] = .ok tailA)
    (hpre : pre.all compOk = true) (hpost : post.all compOk = true)
    (hndpre : ∀ c ∈ pre, isDigestComp c = false) (hndpost : ∀ c ∈ post, isDigestComp c = false)
    (hd : d.length = 32) (hfitmid : fitsFs midFs mid = true)
    (hfittail : fitsFs [.bytes 36 false, intSigInfoS] [app, sigInfo] = true)
    (hne : tailA ≠ [])
    (hsize : (tlv 7 (concatB (pre ++ (2 :: 32 :: d) :: post)) ++ midB ++ tailA).length < 2 ^ 64) :
    parseInterest (tlv 5 (tlv 7 (concatB (pre ++ (2 :: 32 :: d) :: post)) ++ midB ++ tailA)) =
      .ok (List.replicate 7 (Value.uint 0) ++ (Value.name (pre ++ (2 :: 32 :: d) :: post) :: mid) ++
             List.replicate 2 (Value.uint (tlv 7 (concatB (pre ++ (2 :: 32 :: d) :: post)) ++ midB).length) ++
             [app, sigInfo, Value.none] ++ [Value.none],
           { sigCovered := pre ++ post, sigValue := none,
             digestCovered := [tailA], digestValue := some d }) := by
  generalize hcs : pre ++ (2 :: 32 :: d) :: post = comps at hsize ⊢
  have hcl : (concatB comps).length < 2 ^ 64 := by
    simp only [List.length_append, tlv_length] at hsize; omega
  have hcomps : comps.all compOk = true := by rw [← hcs]; exact comps_at_ok pre post d hpre hpost hd
  have hlast : lastDigest comps = some d := by rw [← hcs]; exact lastDigest_at pre post d hndpost
  have hfilt : comps.filter (fun c => !isDigestComp c) = pre ++ post := by
    rw [← hcs]; exact filter_nondigest_at pre post d hndpre hndpost
  have htail3 : encFields intTailFs [app, sigInfo, Value.none] = .ok (tailA ++ []) :=
    encFields_append_one [.bytes 36 false, intSigInfoS] [app, sigInfo] (.bytes 46 false) .none
      tailA [] rfl htail (by simp [enc])
  rw [List.append_nil] at htail3
  have hfit3 : fitsFs intTailFs [app, sigInfo, Value.none] = true := by
    simp only [intTailFs, fitsFs, Bool.and_eq_true] at hfittail ⊢
    exact ⟨hfittail.1, hfittail.2.1, by simp [fits], trivial⟩
  have hdec := decode_interest _ mid app sigInfo Value.none midB _ hmid htail3 hcomps hfitmid hfit3
    hcl hne hsize
  have hck := parseAndCheckTl_tlv 5 _ (by decide) hsize
  obtain ⟨m1, m2, m3, m4, m5, m6, rfl⟩ := six_of_length mid (fitsFs_length _ _ hfitmid)
  have hs2 := pySlice_to_end (tlv 7 (concatB comps) ++ midB) tailA
  generalize tlv 7 (concatB comps) ++ midB ++ tailA = V at hdec hck hs2 ⊢
  generalize (tlv 7 (concatB comps) ++ midB).length = a at hdec hs2 ⊢
  unfold parseInterest
  simp only [hdec, hck, bind, Except.bind, pure, Except.pure]
  simp [bytesOf, markerOff, List.replicate, hs2, hlast, hfilt]

end Ndn.Packet
