import NdnGen.C10
import NdnGen.C07
import NdnProofs.Lemmas.LpCodec
/-!
  `Ndn.Lp.parseLp Gen.C10.table` (envelope decoder model of C10) and `Ndn.RecvBytes.lpDec` (envelope decoder of the
  byte-level receive pipeline of C06, i.e. the generic codec of C07 over the generated schema `Gen.C07.lp`) are the
  same function on every byte string.  Both tables are regenerated from the live `LpPacketValue` class; that they
  describe the same format is `lp_schema_eq` (closed by evaluation).
-/
namespace Ndn.LpCodec
open Ndn Ndn.Codec Ndn.Lp Ndn.Packet Ndn.Recv Ndn.RecvBytes

abbrev T : Table := Gen.C10.table

theorem distinct_of_nodup {κ : Type} : ∀ (tbl : List (Nat × κ)), (tbl.map (·.1)).Nodup → Distinct tbl := by
  intro tbl
  induction tbl with
  | nil => intro _ i j t k k' h; simp at h
  | cons a r ih =>
    intro hn i j t k k' hi hj
    simp only [List.map_cons, List.nodup_cons] at hn
    cases i with
    | zero =>
      cases j with
      | zero => rfl
      | succ j =>
        simp only [List.getElem?_cons_zero, Option.some.injEq, List.getElem?_cons_succ] at hi hj
        subst hi
        exact absurd (List.mem_map_of_mem (f := (·.1)) (List.mem_of_getElem? hj)) hn.1
    | succ i =>
      cases j with
      | zero =>
        simp only [List.getElem?_cons_zero, Option.some.injEq, List.getElem?_cons_succ] at hi hj
        subst hj
        exact absurd (List.mem_map_of_mem (f := (·.1)) (List.mem_of_getElem? hi)) hn.1
      | succ j =>
        simp only [List.getElem?_cons_succ] at hi hj
        rw [ih hn.2 i j t k k' hi hj]

/-- decidable form of `SubsDistinct` -/
def subsNodup (tbl : List (Nat × Kind)) : Bool :=
  tbl.all fun f => match f.2 with
    | .model sub _ => decide (sub.map (·.1)).Nodup
    | .flat _ => true

theorem subsDistinct_of (tbl : List (Nat × Kind)) (h : subsNodup tbl = true) : SubsDistinct tbl := by
  intro t sub ic hm
  have := List.all_eq_true.1 h _ hm
  simp only [decide_eq_true_eq] at this
  exact distinct_of_nodup sub this

/-! ### facts about the two generated tables (closed by evaluation) -/

/-- the format table of C10 and the schema of C07, both generated from `LpPacketValue`, describe the same format -/
theorem lp_schema_eq : Gen.C07.lp = T.fields.map kschema := by rfl

theorem table_nodup : (T.fields.map (·.1)).Nodup ∧ subsNodup T.fields = true ∧ T.lengthCheck = false ∧ T.tLpPacket = 100 := by
  decide

theorem init_eq : (T.fields.map kschema).map initVal = posOf kvalue T.fields [] := by rfl

/-- the value parsers agree on every byte string -/
theorem parse_agree (v : Bytes) :
    Codec.parse Gen.C07.lp true v = (Lp.parseValue T v).map (posOf kvalue T.fields) := by
  unfold Codec.parse Lp.parseValue
  rw [lp_schema_eq, init_eq, table_nodup.2.2.1]
  exact sim_loop kschema kvalue (parseVal false) T.fields (simK _ (subsDistinct_of _ table_nodup.2.1))
    (distinct_of_nodup _ table_nodup.1) true (v.length + 1) v.length v 0 0 [] (Nat.lt_succ_self _) (Nat.le_refl _)
    (by intro e he; simp at he)

theorem isNone_fvalue (k : FKind) (v : FVal) : isNone (fvalue k v) = false := by cases v <;> rfl

theorem isNone_kvalue (k : Kind) (v : Val) : isNone (kvalue k v) = false := by
  cases k <;> cases v <;> simp [kvalue, isNone_fvalue] <;> rfl

theorem isNone_none : isNone Value.none = true := rfl

/-- the fragmentation post-condition reads the same thing off both representations -/
theorem anyPresent_agree (fs : List (Nat × Val)) :
    anyPresent Gen.C07.lp (posOf kvalue T.fields fs) [82, 83]
      = ((lookup fs T.tFragIndex).isSome || (lookup fs T.tFragCount).isSome) := by
  simp only [lp_schema_eq, posOf, T, Gen.C10.table, List.map_cons, List.map_nil, kschema, fschema, anyPresent, Schema.typ]
  cases lookup fs 82 <;> cases lookup fs 83 <;> simp [isNone_kvalue, isNone_none]

/-- … and so do the three facts `_receive` looks at -/
theorem lpFacts_agree (fs : List (Nat × Val)) :
    lpFacts (posOf kvalue T.fields fs)
      = { nack := nackOf T (lookup fs T.tNack), pitToken := bytesOf (lookup fs T.tPitToken),
          fragment := bytesOf (lookup fs T.tFragment) } := by
  have e1 : (lpFacts (posOf kvalue T.fields fs)).nack = nackOf T (lookup fs T.tNack) := by
    simp only [lpFacts, nackField, lp_schema_eq, posOf, T, Gen.C10.table, List.map_cons, List.map_nil, kschema,
      fschema, RecvBytes.field, Schema.typ, RecvBytes.tNack, tNackReason]
    simp only [Option.some.injEq, Nat.reduceEqDiff, if_false, if_true]
    cases lookup fs 800 with
    | none => rfl
    | some v =>
      cases v with
      | flat fv => cases fv <;> rfl
      | model m =>
        simp only [kvalue, posOf, List.map_cons, List.map_nil, RecvBytes.field, Schema.typ, if_true, nackOf]
        cases lookup m 801 with
        | none => rfl
        | some x => cases x <;> rfl
  have e2 : (lpFacts (posOf kvalue T.fields fs)).pitToken = bytesOf (lookup fs T.tPitToken) := by
    simp only [lpFacts, bytesField, lp_schema_eq, posOf, T, Gen.C10.table, List.map_cons, List.map_nil, kschema,
      fschema, RecvBytes.field, Schema.typ, RecvBytes.tPitToken]
    simp only [Option.some.injEq, Nat.reduceEqDiff, if_false, if_true]
    cases lookup fs 98 with
    | none => rfl
    | some v =>
      cases v with
      | flat fv => cases fv <;> rfl
      | model m => rfl
  have e3 : (lpFacts (posOf kvalue T.fields fs)).fragment = bytesOf (lookup fs T.tFragment) := by
    simp only [lpFacts, bytesField, lp_schema_eq, posOf, T, Gen.C10.table, List.map_cons, List.map_nil, kschema,
      fschema, RecvBytes.field, Schema.typ, RecvBytes.tFragment]
    simp only [Option.some.injEq, Nat.reduceEqDiff, if_false, if_true]
    cases lookup fs 80 with
    | none => rfl
    | some v =>
      cases v with
      | flat fv => cases fv <;> rfl
      | model m => rfl
  rw [← e1, ← e2, ← e3]

/-- **The envelope decoder of C10 is the envelope decoder of the byte-level receive pipeline**, on EVERY byte string:
    same LpFacts for every accepted wire, same exception class for every rejected one. -/
theorem parseLp_eq_lpDec (w : Bytes) : parseLp T w = lpDec w := by
  unfold parseLp lpDec decodePacket
  rw [table_nodup.2.2.2]
  cases parseAndCheckTl w 100 with
  | error e => rfl
  | ok v =>
    simp only [bind, Except.bind, parse_agree]
    cases Lp.parseValue T v with
    | error e => rfl
    | ok fs =>
      simp only [Except.map, Bool.false_and, Bool.false_eq_true, if_false, anyPresent_agree]
      cases ((lookup fs T.tFragIndex).isSome || (lookup fs T.tFragCount).isSome) <;>
        simp [lpFacts_agree, pure, Except.pure]

end Ndn.LpCodec
