import NdnModel.Name
import NdnProofs.Lemmas.NameGen
import NdnProofs.Lemmas.TlNum
/-! URI-level lemmas for components: decimal printing/parsing, percent escaping, hex. -/
namespace Ndn

/-! ### decimal -/

def decFold (acc : Nat) (s : Str) : Nat := s.foldl (fun a c => a * 10 + digitVal c) acc

theorem isAsciiDigit_ofNat (d : Nat) (h : d < 10) : isAsciiDigit (Char.ofNat (48 + d)) = true := by
  have : ∀ d : Fin 10, isAsciiDigit (Char.ofNat (48 + d.val)) = true := by decide
  exact this ⟨d, h⟩

theorem digitVal_ofNat (d : Nat) (h : d < 10) : digitVal (Char.ofNat (48 + d)) = d := by
  have : ∀ d : Fin 10, digitVal (Char.ofNat (48 + d.val)) = d.val := by decide
  exact this ⟨d, h⟩

theorem toDecAux_fuel : ∀ (n f g : Nat), n < f → n < g → toDecAux f n = toDecAux g n := by
  intro n
  induction n using Nat.strongRecOn with
  | _ n ih =>
    intro f g hf hg
    cases f with
    | zero => omega
    | succ f =>
      cases g with
      | zero => omega
      | succ g =>
        simp only [toDecAux]
        split
        · rfl
        · rw [ih (n / 10) (by omega) f g (by omega) (by omega)]

/-- the defining equation of `toDec` -/
theorem toDec_eq (n : Nat) :
    toDec n = if n < 10 then [Char.ofNat (48 + n)] else toDec (n / 10) ++ [Char.ofNat (48 + n % 10)] := by
  unfold toDec
  rw [toDecAux]
  split
  · rfl
  · rw [toDecAux_fuel (n / 10) n (n / 10 + 1) (by omega) (by omega)]

theorem toDec_digits (n : Nat) : ∀ c ∈ toDec n, isAsciiDigit c = true := by
  induction n using Nat.strongRecOn with
  | _ n ih =>
    intro c hc
    rw [toDec_eq] at hc
    split at hc
    · simp at hc; subst hc; exact isAsciiDigit_ofNat n (by omega)
    · simp at hc
      rcases hc with hc | hc
      · exact ih (n / 10) (by omega) c hc
      · subst hc; exact isAsciiDigit_ofNat _ (by omega)

theorem toDec_ne_nil (n : Nat) : toDec n ≠ [] := by
  rw [toDec_eq]; split <;> simp

theorem decFold_toDec (n : Nat) : decFold 0 (toDec n) = n := by
  induction n using Nat.strongRecOn with
  | _ n ih =>
    rw [toDec_eq]
    split
    · simp [decFold, digitVal_ofNat n (by omega)]
    · have := ih (n / 10) (by omega)
      simp only [decFold, List.foldl_append, List.foldl_cons, List.foldl_nil] at this ⊢
      rw [this, digitVal_ofNat _ (by omega)]; omega

theorem toDec_length_le (k : Nat) : ∀ n, n < 10 ^ (k + 1) → (toDec n).length ≤ k + 1 := by
  induction k with
  | zero => intro n h; rw [toDec_eq]; simp at h; simp [h]
  | succ k ih =>
    intro n h
    rw [toDec_eq]
    split
    · simp
    · have : n / 10 < 10 ^ (k + 1) := by
        apply Nat.div_lt_of_lt_mul
        rw [Nat.pow_succ] at h; omega
      have := ih _ this
      simp; omega

theorem pyDigitsLoop_digits (s : Str) (hs : ∀ c ∈ s, isAsciiDigit c = true) :
    ∀ acc, pyDigitsLoop acc s = some (decFold acc s) := by
  induction s with
  | nil => intro acc; simp [pyDigitsLoop, decFold]
  | cons c r ih =>
    intro acc
    have hc := hs c (by simp)
    rw [pyDigitsLoop.eq_def]
    simp only [hc, if_true]
    rw [ih (fun x hx => hs x (by simp [hx]))]
    simp [decFold]

theorem filter_all {α} (p : α → Bool) (l : List α) (h : ∀ c ∈ l, p c = true) : l.filter p = l := by
  exact List.filter_eq_self.mpr h

/-- `int(str(n)) = n` for every `n` below `10^4300` (in particular below 2^64) -/
theorem toDec_head (n : Nat) : ∃ c r, toDec n = c :: r ∧ isAsciiDigit c = true := by
  match h : toDec n with
  | [] => exact absurd h (toDec_ne_nil n)
  | c :: r => exact ⟨c, r, rfl, toDec_digits n c (by simp [h])⟩

theorem pyNat_toDec (n : Nat) (h : n < 2^64) : pyNat (toDec n) = some n := by
  have hd := toDec_digits n
  have hl : (toDec n).length ≤ 20 := toDec_length_le 19 n (by
    have : (2:Nat)^64 < 10^(19+1) := by decide
    omega)
  have hv := decFold_toDec n
  obtain ⟨c, r, e, hc⟩ := toDec_head n
  rw [e] at hd hl hv ⊢
  unfold pyNat
  simp only [hc, Bool.not_true, Bool.false_eq_true, if_false]
  rw [filter_all _ _ hd]
  have : ¬ ((c :: r).length > pyIntMaxStrDigits) := by simp [pyIntMaxStrDigits] at *; omega
  simp only [this, if_false]
  rw [pyDigitsLoop_digits r (fun x hx => hd x (by simp [hx]))]
  simp [decFold] at hv ⊢
  exact hv

theorem pyInt_toDec (n : Nat) (h : n < 2^64) : pyInt (toDec n) = some (n : Int) := by
  obtain ⟨c, r, e, hc⟩ := toDec_head n
  have hp := pyNat_toDec n h
  rw [e] at hp ⊢
  unfold pyInt
  have : c ≠ '-' := by intro h; subst h; revert hc; decide
  simp [this, hp]

/-! ### splitting at `=` -/

theorem splitEq_append (a b : Str) (ha : ∀ c ∈ a, c ≠ '=') : splitEq (a ++ '=' :: b) = some (a, b) := by
  induction a with
  | nil => simp [splitEq]
  | cons c a ih =>
    have hc := ha c (by simp)
    simp [splitEq, hc, ih (fun x hx => ha x (by simp [hx]))]

theorem splitEq_none (a : Str) (ha : ∀ c ∈ a, c ≠ '=') : splitEq a = none := by
  induction a with
  | nil => simp [splitEq]
  | cons c a ih =>
    have hc := ha c (by simp)
    simp [splitEq, hc, ih (fun x hx => ha x (by simp [hx]))]

theorem digit_props (c : Char) (h : isAsciiDigit c = true) :
    c ≠ '=' ∧ c ≠ '%' ∧ c ≠ '/' ∧ c ≠ '-' ∧ inCharset c = true := by
  refine ⟨?_, ?_, ?_, ?_, ?_⟩
  · intro e; subst e; revert h; decide
  · intro e; subst e; revert h; decide
  · intro e; subst e; revert h; decide
  · intro e; subst e; revert h; decide
  · simp [inCharset_eq, h]

/-! ### percent escaping -/

open Comp

/-- what `escByte b` looks like, checked for each of the 256 byte values -/
def escGood (b : UInt8) : Bool :=
  match escByte b with
  | [c] => c != '%' && inCharset c && c != '=' && c != '/' && UInt8.ofNat c.toNat == b
  | [p, x, y] => p == '%' && pyHexByte x y == some b && inCharset x && inCharset y && x != '=' && y != '='
      && x != '%' && y != '%' && x != '/' && y != '/'
  | _ => false

theorem escGood_fin : ∀ n : Fin 256, escGood (UInt8.ofNat n.val) = true := by decide +kernel

theorem escGood_all (b : UInt8) : escGood b = true := by
  have := escGood_fin ⟨b.toNat, b.toNat_lt⟩
  simpa using this

theorem unescape_plain (c : Char) (r : Str) (h : c ≠ '%') :
    unescape (c :: r) = (unescape r).map fun bs => UInt8.ofNat c.toNat :: bs := by
  rw [unescape.eq_def]
  simp only [h, if_false]

theorem unescape_pct (x y : Char) (r : Str) (a : UInt8) (h : pyHexByte x y = some a) :
    unescape ('%' :: x :: y :: r) = (unescape r).map fun bs => a :: bs := by
  rw [unescape.eq_def]
  simp only [if_true, h]
  cases unescape r <;> rfl

/-- every character `escByte` produces is in CHARSET, is not `=` or `/`, and un-escapes to the byte -/
theorem escByte_spec (b : UInt8) :
    (∀ c ∈ escByte b, inCharset c = true ∧ c ≠ '=' ∧ c ≠ '/') ∧
    (∀ r, unescape (escByte b ++ r) = (unescape r).map fun bs => b :: bs) ∧ escByte b ≠ [] := by
  have h := escGood_all b
  unfold escGood at h
  split at h
  · rename_i c e
    simp only [Bool.and_eq_true, bne_iff_ne, ne_eq, beq_iff_eq] at h
    obtain ⟨⟨⟨⟨h1, h2⟩, h3⟩, h4⟩, h5⟩ := h
    rw [e]
    refine ⟨?_, ?_, by simp⟩
    · intro x hx; simp at hx; subst hx; exact ⟨h2, h3, h4⟩
    · intro r; simp only [List.singleton_append]; rw [unescape_plain c r h1, h5]
  · rename_i p x y e
    simp only [Bool.and_eq_true, bne_iff_ne, ne_eq, beq_iff_eq] at h
    obtain ⟨⟨⟨⟨⟨⟨⟨⟨⟨hp, h1⟩, h2⟩, h3⟩, h4⟩, h5⟩, h6⟩, h7⟩, h8⟩, h9⟩ := h
    subst hp
    rw [e]
    refine ⟨?_, ?_, by simp⟩
    · intro c hc
      simp at hc
      rcases hc with rfl | rfl | rfl
      · decide
      · exact ⟨h2, h4, h8⟩
      · exact ⟨h3, h5, h9⟩
    · intro r
      simp only [List.cons_append, List.nil_append]
      rw [unescape_pct _ _ _ _ h1]
  · exact absurd h (by simp)

theorem escBytes_chars (v : Bytes) : ∀ c ∈ escBytes v, inCharset c = true ∧ c ≠ '=' ∧ c ≠ '/' := by
  intro c hc
  simp only [escBytes, List.mem_flatMap] at hc
  obtain ⟨b, _, hb⟩ := hc
  exact (escByte_spec b).1 c hb

theorem unescape_escBytes_append (v : Bytes) (r : Str) :
    unescape (escBytes v ++ r) = (unescape r).map fun bs => v ++ bs := by
  induction v with
  | nil => simp [escBytes]
  | cons b v ih =>
    have : escBytes (b :: v) = escByte b ++ escBytes v := by simp [escBytes]
    rw [this, List.append_assoc, (escByte_spec b).2.1, ih]
    cases unescape r <;> simp

/-- **escape/unescape round trip on arbitrary bytes** -/
theorem unescape_escBytes (v : Bytes) : unescape (escBytes v) = some v := by
  have := unescape_escBytes_append v []
  simpa [unescape] using this

theorem escBytes_eq_nil (v : Bytes) : escBytes v = [] ↔ v = [] := by
  constructor
  · intro h
    cases v with
    | nil => rfl
    | cons b v =>
      have : escBytes (b :: v) = escByte b ++ escBytes v := by simp [escBytes]
      rw [this] at h
      have := (escByte_spec b).2.2
      simp at h; exact absurd h.1 this
  · intro h; subst h; rfl

end Ndn
