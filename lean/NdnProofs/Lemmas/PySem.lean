import NdnModel.PySem
import NdnModel.Shrink
import NdnProofs.Lemmas.Shrink
import NdnProofs.Lemmas.TlNum
/-
  The Python vocabulary of lean/NdnModel/PySem.lean (what harness/py2lean.py translates to) on non-negative
  arguments, in the vocabulary of the hand-written models (be1/be2/be4/be8, blit, pySlice, beVal).
-/
namespace Ndn.Py
open Ndn

theorem beBytes_one (n : Nat) : beBytes 1 n = be1 n := rfl
theorem beBytes_two (n : Nat) : beBytes 2 n = be2 n := rfl
theorem beBytes_four (n : Nat) : beBytes 4 n = be4 n := by
  simp [beBytes, be4, Nat.div_div_eq_div_mul]
theorem beBytes_eight (n : Nat) : beBytes 8 n = be8 n := by
  simp [beBytes, be8, Nat.div_div_eq_div_mul]

theorem packField_nat (w v : Nat) :
    packField w (v : Int) = if v < 256 ^ w then .ok (beBytes w v) else .error .structError := by
  unfold packField
  have : ((v : Int) < (256 : Int) ^ w) ↔ v < 256 ^ w := by
    rw [show ((256 : Int) ^ w) = ((256 ^ w : Nat) : Int) by simp]; exact Int.ofNat_lt
  simp [this]

theorem packField_neg (w : Nat) (v : Int) (h : v < 0) : packField w v = .error .structError := by
  unfold packField; simp; omega

theorem beBytes_length (w n : Nat) : (beBytes w n).length = w := by
  induction w generalizing n with
  | zero => rfl
  | succ k ih => simp [beBytes, ih]

theorem packField_length (w : Nat) (v : Int) (a : Bytes) (h : packField w v = .ok a) : a.length = w := by
  unfold packField at h; split at h
  · cases h; exact beBytes_length _ _
  · cases h

theorem packField_error (w : Nat) (v : Int) (e : PyErr) (h : packField w v = .error e) : e = .structError := by
  unfold packField at h; split at h
  · cases h
  · cases h; rfl

theorem pack_length : ∀ (ws : List Nat) (vs : List Int) (bs : Bytes), pack ws vs = .ok bs → bs.length = ws.sum
  | [], [], bs, h => by simp [pack] at h; subst h; rfl
  | [], _ :: _, bs, h => by simp [pack] at h
  | _ :: _, [], bs, h => by simp [pack] at h
  | w :: ws, v :: vs, bs, h => by
    cases hp : packField w v with
    | error e => simp [pack, hp] at h
    | ok a =>
      cases hr : pack ws vs with
      | error e => simp [pack, hp, hr] at h
      | ok r =>
        simp [pack, hp, hr] at h
        subst h
        simp [packField_length w v a hp, pack_length ws vs r hr]

theorem pack_error : ∀ (ws : List Nat) (vs : List Int) (e : PyErr), pack ws vs = .error e → e = .structError
  | [], [], e, h => by simp [pack] at h
  | [], _ :: _, e, h => by simp [pack] at h; exact h.symm
  | _ :: _, [], e, h => by simp [pack] at h; exact h.symm
  | w :: ws, v :: vs, e, h => by
    cases hp : packField w v with
    | error e' => simp [pack, hp] at h; subst h; exact packField_error w v _ hp
    | ok a =>
      cases hr : pack ws vs with
      | error e' => simp [pack, hp, hr] at h; subst h; exact pack_error ws vs _ hr
      | ok r => simp [pack, hp, hr] at h

theorem packInto_nat (ws : List Nat) (vs : List Int) (buf : Bytes) (off : Nat) (hoff : off < 2 ^ 63) :
    packInto ws vs buf off = match pack ws vs with
      | .ok bs => blit buf off bs
      | .error _ => .error .structError := by
  unfold packInto
  have h1 : ¬ ((off : Int) < -9223372036854775808 ∨ 9223372036854775807 < (off : Int)) := by omega
  have h2 : ¬ ((off : Int) < 0) := by omega
  simp only [h1, h2, if_false, false_and]
  cases hp : pack ws vs with
  | error e =>
    have he := pack_error ws vs e hp
    subst he
    simp only []
    split <;> rfl
  | ok bs =>
    have hl := pack_length ws vs bs hp
    simp only [blit, Int.toNat_natCast]
    rw [← hl]
    by_cases hfit : off + bs.length ≤ buf.length
    · have : ¬ ((buf.length : Int) - (off : Int) < ((bs.length : Nat) : Int)) := by omega
      simp [this, hfit]
    · have : ((buf.length : Int) - (off : Int) < ((bs.length : Nat) : Int)) := by omega
      simp [this, hfit]

theorem normIdx_nonneg (len : Nat) (i : Int) (h : 0 ≤ i) : normIdx len i = min i.toNat len := by
  unfold normIdx; simp; omega

theorem slice_nonneg {α} (l : List α) (a b : Int) (ha : 0 ≤ a) (hb : 0 ≤ b) :
    slice l a b = pySlice l a.toNat b.toNat := by
  unfold slice pySlice
  rw [normIdx_nonneg _ _ ha, normIdx_nonneg _ _ hb]
  have e1 : l.take (min b.toNat l.length) = l.take b.toNat := by
    by_cases h : b.toNat ≤ l.length
    · rw [Nat.min_eq_left h]
    · rw [Nat.min_eq_right (by omega), List.take_length, List.take_of_length_le (by omega)]
  rw [e1]
  by_cases h : a.toNat ≤ l.length
  · rw [Nat.min_eq_left h]
  · rw [Nat.min_eq_right (by omega)]
    have hl : (l.take b.toNat).length ≤ l.length := by simp [List.length_take]; omega
    rw [List.drop_of_length_le hl, List.drop_of_length_le (by omega)]

theorem getItem_nat {α} (l : List α) (i : Nat) :
    getItem l (i : Int) = match l[i]? with | some x => .ok x | none => .error .indexError := by
  unfold getItem
  have : ¬ ((i : Int) < 0) := by omega
  simp only [this, if_false, Int.toNat_natCast]
  cases l[i]? <;> rfl

theorem bytesGet_nat (buf : Bytes) (i : Nat) :
    bytesGet buf (i : Int) = match buf[i]? with | some b => .ok ((b.toNat : Nat) : Int) | none => .error .indexError := by
  unfold bytesGet; rw [getItem_nat]; cases buf[i]? <;> rfl

theorem unpack_one (n : Nat) (s : Bytes) :
    unpack [n] s = if s.length = n then .ok [((Ndn.beVal s : Nat) : Int)] else .error .structError := by
  unfold unpack
  by_cases h : s.length = n
  · subst h
    simp only [if_true, unpackFields, List.sum_cons, List.sum_nil, Nat.add_zero, List.take_length]; rfl
  · simp only [List.sum_cons, List.sum_nil, Nat.add_zero, h, if_false]

theorem beVal_bound_aux : ∀ (s : Bytes) (a : Nat),
    s.foldl (fun a b => a * 256 + b.toNat) a + 1 ≤ (a + 1) * 256 ^ s.length
  | [], a => by simp
  | b :: r, a => by
    have := beVal_bound_aux r (a * 256 + b.toNat)
    have hb := b.toNat_lt
    simp only [List.foldl, List.length_cons, Nat.pow_succ]
    calc _ ≤ (a * 256 + b.toNat + 1) * 256 ^ r.length := this
      _ ≤ ((a + 1) * 256) * 256 ^ r.length := Nat.mul_le_mul_right _ (by omega)
      _ = (a + 1) * (256 ^ r.length * 256) := by rw [Nat.mul_assoc, Nat.mul_comm 256]

theorem beVal_lt (b : Bytes) : Ndn.beVal b < 256 ^ b.length := by
  have := beVal_bound_aux b 0
  simp only [Ndn.beVal]; omega

theorem unpackAt_lt {buf : Bytes} {a n v : Nat} (h : unpackAt buf a n = .ok v) : v < 256 ^ n := by
  unfold unpackAt at h
  simp only [] at h
  split at h
  · rename_i hl; cases h; have := beVal_lt (pySlice buf a (a + n)); rwa [hl] at this
  · cases h

/-- what `parseTlNum` returns: the size is 1/3/5/9 and the value is below the bound of that form -/
theorem parseTlNum_bounds {buf : Bytes} {off v n : Nat} (h : parseTlNum buf off = .ok (v, n)) :
    (n = 1 ∧ v ≤ 252) ∨ (n = 3 ∧ v < 65536) ∨ (n = 5 ∧ v < 4294967296) ∨ (n = 9 ∧ v < 18446744073709551616) := by
  unfold parseTlNum at h
  split at h
  · cases h
  · split at h
    · cases h; omega
    · split at h
      · cases hu : unpackAt buf (off + 1) 2 with
        | error e => rw [hu] at h; cases h
        | ok x => rw [hu] at h; cases h; have := unpackAt_lt hu; omega
      · split at h
        · cases hu : unpackAt buf (off + 1) 4 with
          | error e => rw [hu] at h; cases h
          | ok x => rw [hu] at h; cases h; have := unpackAt_lt hu; omega
        · cases hu : unpackAt buf (off + 1) 8 with
          | error e => rw [hu] at h; cases h
          | ok x => rw [hu] at h; cases h; have := unpackAt_lt hu; omega

theorem parseTlNum_size_ge {buf : Bytes} {off v n : Nat} (h : parseTlNum buf off = .ok (v, n)) :
    tlNumSize v ≤ n ∧ n ≤ 9 := by
  have := parseTlNum_bounds h
  unfold tlNumSize
  repeat' split
  all_goals omega

theorem writeTlNumInto_size {v : Nat} {buf b : Bytes} {off n : Nat} (h : writeTlNumInto v buf off = .ok (b, n)) :
    n = tlNumSize v := by
  unfold writeTlNumInto at h
  split at h
  · cases hb : blit buf off (writeTlNum v) with
    | error e => rw [hb] at h; cases h
    | ok x => rw [hb] at h; cases h; rfl
  · cases h

theorem slice_negUpper (l : Bytes) (a k : Nat) (x y : Int) (hx : x = (a : Int)) (hy : y = -(k : Int)) :
    slice l x y = sliceToNeg l a k := by
  subst hx hy
  unfold slice sliceToNeg pySlice
  rw [normIdx_nonneg _ _ (by omega)]
  by_cases hk : k = 0
  · subst hk; simp [normIdx]
  · have e : normIdx l.length (-(k : Int)) = l.length - k := by
      unfold normIdx; rw [if_pos (by omega)]; omega
    rw [e, if_neg hk]
    simp only [Int.toNat_natCast]
    by_cases h : a ≤ l.length
    · rw [Nat.min_eq_left h]
    · rw [Nat.min_eq_right (by omega)]
      have hl : (l.take (l.length - k)).length ≤ l.length := by simp [List.length_take]
      rw [List.drop_of_length_le hl, List.drop_of_length_le (by omega)]


end Ndn.Py
