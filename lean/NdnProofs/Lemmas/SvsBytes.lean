import NdnModel.SvsBytes
import NdnProofs.Lemmas.Svs
import NdnProofs.Lemmas.CodecTotal
import NdnProofs.Props.C08
/-! Helper lemmas for the byte-level half of C18: the StateVecWrapper schema, what
    `express_sync_interest` builds from a well-formed vector, the vector a well-formed dict denotes. -/
namespace Ndn.Svs
open Ndn Ndn.Codec

/-- `StateVecEntry` as a field of `StateVec` -/
def elemSchema : Schema := .model 202 [.name 7, .uint 204 none] false

/-- the regenerated class is the one these lemmas are about (a source edit breaks this `rfl`) -/
theorem wrapperSchema_eq : wrapperSchema = [.model 201 [.repeated elemSchema] false] := rfl

theorem wrapper_wf : wfTop wrapperSchema = true := by decide
theorem wrapper_p : pFs wrapperSchema = true := by decide

/-- a node id as the library produces it: `Name.to_bytes` of a non-empty name whose components are single
    TLV elements -/
def WfId (i : Bytes) : Prop :=
  ∃ cs : List Bytes, cs ≠ [] ∧ cs.all compOk = true ∧ (concatB cs).length < 2 ^ 64 ∧ i = tlv 7 (concatB cs)

/-- a vector whose node ids are well-formed names and whose sequence numbers fit 64 bits -/
def WfVec (v : Vec) : Prop := ∀ p ∈ v, WfId p.1 ∧ p.2 < 2 ^ 64

/-- the entries a vector consists of -/
def entriesOf (v : Vec) : List Entry := v.map fun p => (some p.1, some p.2)

theorem WfId.ne_nil {i : Bytes} (h : WfId i) : i ≠ [] := by
  obtain ⟨cs, _, _, _, rfl⟩ := h
  exact tlv_ne_nil _ _

theorem wfVec_cons {p : Bytes × Nat} {r : Vec} (h : WfVec (p :: r)) : (WfId p.1 ∧ p.2 < 2 ^ 64) ∧ WfVec r :=
  ⟨h p (by simp), fun x hx => h x (List.mem_cons_of_mem _ hx)⟩

theorem wfVec_set (d : Vec) (k : Bytes) (q : Nat) (h : WfVec d) (hk : WfId k) (hq : q < 2 ^ 64) :
    WfVec (PyDict.set d k q) := by
  induction d with
  | nil => intro p hp; simp [PyDict.set] at hp; subst hp; exact ⟨hk, hq⟩
  | cons a r ih =>
    obtain ⟨a1, a2⟩ := a
    obtain ⟨ha, hr⟩ := wfVec_cons h
    simp only [PyDict.set]
    split
    · intro p hp
      rcases List.mem_cons.mp hp with e | e
      · subst e; exact ⟨hk, hq⟩
      · exact hr p e
    · intro p hp
      rcases List.mem_cons.mp hp with e | e
      · subst e; exact ha
      · exact ih hr p e

/-- `Name.from_bytes` on a well-formed id gives back its components -/
theorem decodeName_wf (cs : List Bytes) (hall : cs.all compOk = true) (hl : (concatB cs).length < 2 ^ 64) :
    decodeName (tlv 7 (concatB cs)) 0 = .ok cs := by
  have := decodeName_ok cs [] hall hl
  rwa [List.append_nil] at this

/-- what `express_sync_interest` builds from a well-formed vector is a legal assignment, and reading it back
    entry by entry gives the vector -/
theorem vecValues_spec (v : Vec) (h : WfVec v) : ∀ (es : List Value), vecValues v = .ok es →
    fitsList elemSchema es = true ∧ es.map entryOfValue = entriesOf v := by
  induction v with
  | nil => intro es hv; simp [vecValues] at hv; subst hv; simp [fitsList, entriesOf]
  | cons p r ih =>
    intro es hv
    obtain ⟨i, q⟩ := p
    obtain ⟨⟨⟨cs, hne, hall, hl, hi⟩, _⟩, hr⟩ := wfVec_cons h
    simp only at hi
    subst hi
    simp only [vecValues, decodeName_wf cs hall hl, bind, Except.bind] at hv
    cases hrest : vecValues r with
    | error e => simp [hrest] at hv
    | ok rest =>
      simp only [hrest, pure, Except.pure, Except.ok.injEq] at hv
      subst hv
      obtain ⟨f1, f2⟩ := ih hr rest hrest
      refine ⟨?_, ?_⟩
      · simp only [elemSchema] at f1
        simp [fitsList, fits, fitsFs, elemSchema, hall, f1]
      · have : nodeIdBytes cs = tlv 7 (concatB cs) := by
          cases cs with
          | nil => exact absurd rfl hne
          | cons a b => simp [nodeIdBytes]
        simp only [List.map_cons, entryOfValue, this, f2, entriesOf]

theorem vecValues_ok (v : Vec) (h : WfVec v) : ∃ es, vecValues v = .ok es := by
  induction v with
  | nil => exact ⟨[], rfl⟩
  | cons p r ih =>
    obtain ⟨i, q⟩ := p
    obtain ⟨⟨⟨cs, hne, hall, hl, hi⟩, _⟩, hr⟩ := wfVec_cons h
    simp only at hi
    subst hi
    obtain ⟨rest, hrest⟩ := ih hr
    exact ⟨_, by simp only [vecValues, decodeName_wf cs hall hl, hrest, bind, Except.bind]; rfl⟩

/-- decoding fails exactly as `parse` fails -/
theorem decodeVectorE_error {comp : Bytes} {e : PyErr} (h : decodeVectorE comp = .error e) :
    parse wrapperSchema false comp = .error e := by
  unfold decodeVectorE at h
  cases hp : parse wrapperSchema false comp with
  | error e' => simp [hp, bind, Except.bind] at h; rw [h]
  | ok vs => simp [hp, bind, Except.bind, pure, Except.pure] at h

theorem decodeVector_some {comp : Bytes} {es : List Entry} :
    decodeVector comp = some es ↔ decodeVectorE comp = .ok es := by
  unfold decodeVector
  cases decodeVectorE comp <;> simp

theorem decodeVector_none {comp : Bytes} :
    decodeVector comp = none ↔ ∃ e, decodeVectorE comp = .error e := by
  unfold decodeVector
  cases decodeVectorE comp <;> simp

/-! ### the vector a well-formed dict denotes -/

theorem vget_cons (i k : Bytes) (q : Nat) (r : Vec) :
    vget ((i, q) :: r) k = if i = k then q else vget r k := by
  unfold vget; simp only [PyDict.get?]; split <;> simp

theorem vecOfF_entriesOf (v : Vec) (hn : (PyDict.keys v).Nodup) (hne : ∀ p ∈ v, p.1 ≠ []) :
    ∀ (f : Bytes → Nat) (k : Bytes),
      vecOfF (entriesOf v) f k = if k ∈ PyDict.keys v then vget v k else f k := by
  induction v with
  | nil => intro f k; simp [entriesOf, vecOfF, PyDict.keys]
  | cons p r ih =>
    intro f k
    obtain ⟨i, q⟩ := p
    have hi : i ≠ [] := hne (i, q) (by simp)
    simp only [PyDict.keys, List.map_cons, List.nodup_cons] at hn
    have ih' := ih hn.2 (fun p hp => hne p (List.mem_cons_of_mem _ hp))
    simp only [entriesOf, List.map_cons, vecOfF, hi, if_false]
    have := ih' (fun k' => if i = k' then q else f k') k
    simp only [entriesOf] at this
    rw [this, vget_cons]
    simp only [PyDict.keys, List.map_cons, List.mem_cons]
    by_cases hk : k ∈ List.map (fun x => x.1) r
    · have : i ≠ k := fun e => hn.1 (e ▸ hk)
      simp [hk, this]
    · by_cases e : i = k
      · subst e; simp [hk]
      · have e' : ¬ k = i := fun x => e x.symm
        simp [hk, e, e']

/-- a well-formed dict read as a list of entries denotes itself -/
theorem vecOf_entriesOf (v : Vec) (hn : (PyDict.keys v).Nodup) (hne : ∀ p ∈ v, p.1 ≠ []) (k : Bytes) :
    vecOf (entriesOf v) k = vget v k := by
  unfold vecOf
  rw [vecOfF_entriesOf v hn hne]
  split
  · rfl
  · rename_i hk
    unfold vget
    cases hg : PyDict.get? v k with
    | none => rfl
    | some q =>
      exact absurd (List.mem_map.mpr ⟨(k, q), PyDict.mem_of_get? v k q hg, rfl⟩) hk

theorem not_overclaims_entriesOf (v : Vec) (hn : (PyDict.keys v).Nodup) (selfId : Bytes) (selfSeq : Nat)
    (h : vget v selfId ≤ selfSeq) : ¬ overclaims selfId selfSeq (entriesOf v) := by
  rintro ⟨q, hm, _, hlt⟩
  simp only [entriesOf, List.mem_map, Prod.mk.injEq, Option.some.injEq] at hm
  obtain ⟨⟨i, q'⟩, hp, rfl, rfl⟩ := hm
  have := PyDict.get?_of_mem v hn i q' hp
  simp only [vget, this, Option.getD_some] at h
  omega

end Ndn.Svs

/-! ### encoding a well-formed vector can only fail for being oversize -/
namespace Ndn.Svs
open Ndn Ndn.Codec

/-- a result that is a value or `struct.error` (a Type or Length that does not fit 64 bits) -/
def OS {α} (x : Except PyErr α) : Prop := ∀ e, x = .error e → e = .structError

theorem OS.ok {α} (a : α) : OS (Except.ok a : Except PyErr α) := by intro e h; cases h

theorem OS.bind {α β} {x : Except PyErr α} {f : α → Except PyErr β}
    (hx : OS x) (hf : ∀ a, x = .ok a → OS (f a)) : OS (x >>= f) := by
  cases x with
  | error e => intro e' h; cases h; exact hx e rfl
  | ok a => exact hf a rfl

theorem tlvE_os (t : Nat) (b : Bytes) : OS (tlvE t b) := by
  unfold tlvE; split
  · exact OS.ok _
  · intro e h; cases h; rfl

theorem enc_entry_os (cs : List Bytes) (q : Nat) (hq : q < 2 ^ 64) :
    OS (enc elemSchema (.model [.name cs, .uint q])) := by
  have hw : ¬ (q ≥ 256 ^ uintWidth none q) := by
    have := (Ndn.C08.uint_smallest_width q hq).1; omega
  simp only [elemSchema, enc, encFields, hw, if_false]
  apply OS.bind
  · apply OS.bind (tlvE_os _ _); intro a _
    apply OS.bind
    · apply OS.bind (tlvE_os _ _); intro b _
      exact OS.ok _
    · intro c _; exact OS.ok _
  · intro body _; exact tlvE_os _ _

theorem encList_entries_os : ∀ (es : List Value),
    (∀ x ∈ es, ∃ cs q, x = Value.model [.name cs, .uint q] ∧ q < 2 ^ 64) → OS (encList elemSchema es)
  | [], _ => by simp only [encList]; exact OS.ok _
  | x :: r, h => by
    obtain ⟨cs, q, rfl, hq⟩ := h x (by simp)
    simp only [encList]
    apply OS.bind (enc_entry_os cs q hq); intro a _
    apply OS.bind (encList_entries_os r (fun y hy => h y (List.mem_cons_of_mem _ hy))); intro b _
    exact OS.ok _

theorem vecValues_shape (v : Vec) (h : WfVec v) : ∀ (es : List Value), vecValues v = .ok es →
    ∀ x ∈ es, ∃ cs q, x = Value.model [.name cs, .uint q] ∧ q < 2 ^ 64 := by
  induction v with
  | nil => intro es hv; simp [vecValues] at hv; subst hv; simp
  | cons p r ih =>
    intro es hv
    obtain ⟨i, q⟩ := p
    obtain ⟨⟨_, hq⟩, hr⟩ := wfVec_cons h
    simp only [vecValues] at hv
    obtain ⟨cs, _, h2⟩ := bind_ok hv
    obtain ⟨rest, hrest, h3⟩ := bind_ok h2
    simp only [pure, Except.pure, Except.ok.injEq] at h3
    subst h3
    intro x hx
    rcases List.mem_cons.mp hx with e | e
    · exact ⟨cs, q, e, hq⟩
    · exact ih hr rest hrest x e

theorem encodeVector_os (v : Vec) (h : WfVec v) : OS (encodeVector v) := by
  obtain ⟨es, hes⟩ := vecValues_ok v h
  have hshape := vecValues_shape v h es hes
  unfold encodeVector
  rw [hes]
  show OS (encFields wrapperSchema [.model [.list es]])
  rw [wrapperSchema_eq]
  simp only [encFields, enc]
  apply OS.bind
  · apply OS.bind
    · apply OS.bind (encList_entries_os es hshape); intro a _
      exact OS.ok _
    · intro body _; exact tlvE_os _ _
  · intro a _; exact OS.ok _

end Ndn.Svs
