import NdnProofs.Lemmas.SvsBytes
/-! Well-formedness of the local state vector is an invariant of the byte-level handler: what the decoder
    delivers for **any** bytes (shorter than 2^64) only ever puts well-formed names and 64-bit sequence numbers
    into the local vector. -/
namespace Ndn.Svs
open Ndn Ndn.Codec

/-- an entry as the decoder delivers it: the node id is absent, empty or the encoding of a non-empty name whose
    components are single TLV elements; the sequence number, when present, fits 64 bits -/
def EntryWf (e : Entry) : Prop :=
  (∀ i, e.1 = some i → i = [] ∨ WfId i) ∧ (∀ q, e.2 = some q → q < 2 ^ 64)

theorem entryOfValue_wf (n : Nat) (hn : n < 2 ^ 64) (z : Value) (hf : fits elemSchema z = true)
    (hb : bounded n z = true) : EntryWf (entryOfValue z) := by
  unfold entryOfValue
  split
  · rename_i a b
    simp only [elemSchema, fits, fitsFs, Bool.and_eq_true] at hf
    simp only [bounded, boundedL, Bool.and_eq_true] at hb
    obtain ⟨ha, hb', _⟩ := hf
    obtain ⟨ba, bb, _⟩ := hb
    refine ⟨?_, ?_⟩
    · intro i hi
      simp only [] at hi
      split at hi
      · rename_i cs
        simp only [Option.some.injEq] at hi; subst hi
        by_cases hc : cs = []
        · left; simp [nodeIdBytes, hc]
        · right
          simp only [fits] at ha
          simp only [bounded, decide_eq_true_eq] at ba
          refine ⟨cs, hc, ha, by omega, ?_⟩
          cases cs with
          | nil => exact absurd rfl hc
          | cons x y => simp [nodeIdBytes]
      · cases hi
    · intro q hq
      simp only [] at hq
      split at hq
      · rename_i v
        simp only [Option.some.injEq] at hq; subst hq
        simpa [bounded] using bb
      · cases hq
  · exact ⟨fun i hi => (by cases hi), fun q hq => (by cases hq)⟩

theorem fitsList_entries_wf (n : Nat) (hn : n < 2 ^ 64) : ∀ (zs : List Value),
    fitsList elemSchema zs = true → boundedL n zs = true → ∀ e ∈ zs.map entryOfValue, EntryWf e
  | [], _, _, e, he => by simp at he
  | z :: r, hf, hb, e, he => by
    simp only [fitsList, Bool.and_eq_true] at hf
    simp only [boundedL, Bool.and_eq_true] at hb
    simp only [List.map_cons, List.mem_cons] at he
    rcases he with rfl | he
    · exact entryOfValue_wf n hn z hf.1.2 hb.1
    · exact fitsList_entries_wf n hn r hf.2 hb.2 e he

/-- **every entry the decoder delivers is well-formed**, whatever the bytes of the component were -/
theorem decodeVector_entries_wf {comp : Bytes} {es : List Entry} (hlen : comp.length < 2 ^ 64)
    (h : decodeVector comp = some es) : ∀ e ∈ es, EntryWf e := by
  rw [decodeVector_some] at h
  unfold decodeVectorE at h
  obtain ⟨vs, hp, h2⟩ := bind_ok h
  simp only [pure, Except.pure, Except.ok.injEq] at h2
  subst h2
  obtain ⟨hfit, hbd⟩ := Ndn.C08.parse_wf wrapperSchema false comp vs wrapper_wf hp
  rw [wrapperSchema_eq] at hfit
  intro e he
  unfold entriesOfParsed at he
  split at he
  · rename_i zs
    simp only [fitsFs, fits, Bool.and_eq_true] at hfit
    simp only [boundedL, bounded, Bool.and_eq_true] at hbd
    exact fitsList_entries_wf comp.length hlen zs hfit.1.1 hbd.1.1 e he
  · simp at he

/-- the events that keep the local vector well-formed: received vectors whose entries are well-formed (all
    vectors that come out of the decoder are), undecodable Interests, publications, timer expiries -/
def GoodEv : Ev → Prop
  | .recv es => ∀ e ∈ es, EntryWf e
  | _ => True

theorem buildRsv_wf (selfId : Bytes) (selfSeq : Nat) : ∀ (es : List Entry) (acc rsv : Vec),
    (∀ e ∈ es, EntryWf e) → WfVec acc → buildRsv selfId selfSeq es acc = some rsv → WfVec rsv
  | [], acc, rsv, _, ha, h => by simp [buildRsv] at h; subst h; exact ha
  | (none, _) :: r, acc, rsv, hes, ha, h => by
    simp only [buildRsv] at h
    exact buildRsv_wf selfId selfSeq r acc rsv (fun e he => hes e (List.mem_cons_of_mem _ he)) ha h
  | (some i, none) :: r, acc, rsv, hes, ha, h => by
    simp only [buildRsv] at h
    exact buildRsv_wf selfId selfSeq r acc rsv (fun e he => hes e (List.mem_cons_of_mem _ he)) ha h
  | (some i, some q) :: r, acc, rsv, hes, ha, h => by
    have hr : ∀ e ∈ r, EntryWf e := fun e he => hes e (List.mem_cons_of_mem _ he)
    simp only [buildRsv] at h
    split at h
    · exact buildRsv_wf selfId selfSeq r acc rsv hr ha h
    · rename_i hne
      split at h
      · cases h
      · obtain ⟨h1, h2⟩ := hes (some i, some q) (List.mem_cons_self ..)
        have hid : WfId i := by
          rcases h1 i rfl with e | e
          · exact absurd e hne
          · exact e
        exact buildRsv_wf selfId selfSeq r _ rsv hr (wfVec_set acc i q ha hid (h2 q rfl)) h

theorem mergeLoop_wf : ∀ (rsv : List (Bytes × Nat)) (loc : Vec) (nf nn : Bool),
    WfVec rsv → WfVec loc → WfVec (mergeLoop rsv loc nf nn).1
  | [], loc, nf, nn, _, hl => by simpa [mergeLoop] using hl
  | (i, q) :: r, loc, nf, nn, hr, hl => by
    obtain ⟨⟨hid, hq⟩, hr'⟩ := wfVec_cons hr
    simp only [mergeLoop]
    split
    · exact mergeLoop_wf r _ _ _ hr' (wfVec_set loc i q hl hid hq)
    · split
      · exact mergeLoop_wf r _ _ _ hr' hl
      · exact mergeLoop_wf r _ _ _ hr' hl

/-- one step keeps the local vector well-formed (a publication needs the next sequence number to fit) -/
theorem step_wfVec (s : State) (e : Ev) (hv : WfVec s.loc) (hid : WfId s.selfId) (he : GoodEv e)
    (hq : e = .publish → s.selfSeq + 1 < 2 ^ 64) : WfVec (step s e).1.loc := by
  cases e with
  | undecodable => simpa [step] using hv
  | timer => simp only [step]; split <;> exact hv
  | publish => simp only [step]; exact wfVec_set _ _ _ hv hid (hq rfl)
  | recv es =>
    simp only [step]
    split
    · exact hv
    · split
      · exact hv
      · rename_i rsv hb
        rw [afterBuild_loc]
        exact mergeLoop_wf rsv s.loc _ _
          (buildRsv_wf s.selfId s.selfSeq es [] rsv he (fun p hp => by simp at hp) hb) hv

/-- 1 for a publication, 0 for every other event -/
def pubInc : Ev → Nat
  | .publish => 1
  | _ => 0

/-- the own id never changes; the own sequence number changes only by a publication (+1) -/
theorem step_ids (s : State) (e : Ev) :
    (step s e).1.selfId = s.selfId ∧ (step s e).1.selfSeq = s.selfSeq + pubInc e := by
  cases e with
  | undecodable => simp [step, pubInc]
  | timer => simp only [step, pubInc]; split <;> simp
  | publish => simp [step, pubInc]
  | recv es =>
    simp only [step, pubInc]
    split
    · simp
    · split
      · simp
      · rename_i rsv _
        have := afterBuild_ids s rsv
        simp [this.1, this.2]

/-! ### the local vector never becomes empty -/

theorem set_ne_nil (d : Vec) (k : Bytes) (q : Nat) : PyDict.set d k q ≠ [] := by
  cases d with
  | nil => simp [PyDict.set]
  | cons a r => obtain ⟨a1, a2⟩ := a; simp only [PyDict.set]; split <;> simp

theorem mergeLoop_ne_nil : ∀ (rsv : List (Bytes × Nat)) (loc : Vec) (nf nn : Bool),
    loc ≠ [] → (mergeLoop rsv loc nf nn).1 ≠ []
  | [], loc, nf, nn, h => by simpa [mergeLoop] using h
  | (i, q) :: r, loc, nf, nn, h => by
    simp only [mergeLoop]
    split
    · exact mergeLoop_ne_nil r _ _ _ (set_ne_nil loc i q)
    · split
      · exact mergeLoop_ne_nil r _ _ _ h
      · exact mergeLoop_ne_nil r _ _ _ h

theorem step_loc_ne_nil (s : State) (e : Ev) (h : s.loc ≠ []) : (step s e).1.loc ≠ [] := by
  cases e with
  | undecodable => simpa [step] using h
  | timer => simp only [step]; split <;> exact h
  | publish => simp only [step]; exact set_ne_nil _ _ _
  | recv es =>
    simp only [step]
    split
    · exact h
    · split
      · exact h
      · rw [afterBuild_loc]; exact mergeLoop_ne_nil _ _ _ _ h

end Ndn.Svs
