import NdnModel.Name
/-! The tables `lean/NdnGen/C09.lean` generates from `Component.py`, as the name model consumes them:
    membership in the generated character set is the range description the proofs use, and the two
    generated shorthand tables are mutually inverse. -/
namespace Ndn

theorem char_eq_iff_toNat (c d : Char) : c = d ↔ c.toNat = d.toNat := by
  constructor
  · intro h; rw [h]
  · intro h; exact Char.ext (UInt32.toNat_inj.mp h)

theorem char_beq_toNat (c d : Char) : (c == d) = (c.toNat == d.toNat) := by
  by_cases h : c = d
  · subst h; simp
  · have : c.toNat ≠ d.toNat := fun h' => h ((char_eq_iff_toNat c d).mpr h')
    rw [beq_eq_false_iff_ne.mpr h, beq_eq_false_iff_ne.mpr this]

/-- every member of the generated `CHARSET` is ASCII -/
theorem charset_lt : ∀ x ∈ Gen.C09.charset, x < 128 := by decide

/-- the generated `CHARSET`, code point by code point below 128 -/
theorem charset_eq_small : ∀ n, n < 128 →
    Gen.C09.charset.contains n =
      ((65 ≤ n && n ≤ 90) || (97 ≤ n && n ≤ 122) || (48 ≤ n && n ≤ 57) ||
        n == 45 || n == 46 || n == 95 || n == 126 || n == 61 || n == 37) := by decide +kernel

/-- **the generated `CHARSET` is the unreserved set plus `=` and `%`**: ASCII letters, digits and `- . _ ~ = %`,
    for every character (a source edit that adds or removes a member changes the table and this stops checking) -/
theorem inCharset_eq (c : Char) :
    inCharset c = (isAsciiLetter c || isAsciiDigit c ||
      c == '-' || c == '.' || c == '_' || c == '~' || c == '=' || c == '%') := by
  by_cases h : c.toNat < 128
  · simp only [inCharset, charset_eq_small _ h, isAsciiLetter, isAsciiDigit, char_beq_toNat]
    rfl
  · have h1 : Gen.C09.charset.contains c.toNat = false := by
      cases hc : Gen.C09.charset.contains c.toNat with
      | false => rfl
      | true => exact absurd (charset_lt _ (by simpa using hc)) h
    simp only [inCharset, h1, isAsciiLetter, isAsciiDigit, char_beq_toNat]
    have : ∀ k, k < 128 → (c.toNat == k) = false := by intro k hk; simp; omega
    simp [this]
    omega

end Ndn
