import NdnModel.ClientConf
import NdnProofs.Lemmas.PyDict
/-! Helper lemmas for C20: `part`, `afterLast`, `dirname`, `join`, `takeWhile`/`dropWhile`, `getPath`, `fileGet`,
    the default-transport decision table. -/
namespace Ndn.ClientConf

instance {ε α} [DecidableEq ε] [DecidableEq α] : DecidableEq (Except ε α)
  | .ok a, .ok b => if h : a = b then isTrue (h ▸ rfl) else isFalse (fun e => h (Except.ok.inj e))
  | .error a, .error b => if h : a = b then isTrue (h ▸ rfl) else isFalse (fun e => h (Except.error.inj e))
  | .ok _, .error _ => isFalse (fun e => nomatch e)
  | .error _, .ok _ => isFalse (fun e => nomatch e)

theorem part_append (c : Char) (a b : Str) (h : c ∉ a) : part c (a ++ c :: b) = (a, some b) := by
  induction a with
  | nil => simp [part]
  | cons x r ih =>
    have hx : x ≠ c := fun e => h (by simp [e])
    have hr : c ∉ r := fun e => h (by simp [e])
    simp [part, hx, ih hr]

theorem part_none (c : Char) (a : Str) (h : c ∉ a) : part c a = (a, none) := by
  induction a with
  | nil => simp [part]
  | cons x r ih =>
    have hx : x ≠ c := fun e => h (by simp [e])
    have hr : c ∉ r := fun e => h (by simp [e])
    simp [part, hx, ih hr]

theorem part_fst_no (c : Char) (s : Str) : c ∉ (part c s).1 := by
  induction s with
  | nil => simp [part]
  | cons x r ih =>
    by_cases hx : x = c
    · simp [part, hx]
    · simp only [part, hx, if_false]
      intro hm
      rcases List.mem_cons.mp hm with e | e
      · exact hx e.symm
      · exact ih e

theorem afterLast_none (c : Char) (s : Str) (h : c ∉ s) : afterLast c s = s := by
  unfold afterLast
  rw [part_none c s.reverse (by simpa using h)]
  simp

theorem dropWhile_append_all {α} (p : α → Bool) (a b : List α) (h : ∀ x ∈ a, p x = true) :
    (a ++ b).dropWhile p = b.dropWhile p := by
  induction a with
  | nil => rfl
  | cons x r ih =>
    have hx : p x = true := h x (by simp)
    simp [hx, ih (fun y hy => h y (by simp [hy]))]

theorem takeWhile_all {α} (p : α → Bool) (a : List α) (h : ∀ x ∈ a, p x = true) : a.takeWhile p = a := by
  induction a with
  | nil => rfl
  | cons x r ih =>
    have hx : p x = true := h x (by simp)
    simp [List.takeWhile, hx, ih (fun y hy => h y (by simp [hy]))]

theorem dropWhile_all {α} (p : α → Bool) (a : List α) (h : ∀ x ∈ a, p x = true) : a.dropWhile p = [] := by
  induction a with
  | nil => rfl
  | cons x r ih =>
    have hx : p x = true := h x (by simp)
    simp [List.dropWhile, hx, ih (fun y hy => h y (by simp [hy]))]

/-- `dirname` of `dir/base` -/
theorem dirname_concrete (dir base : Str) (hb : '/' ∉ base) (hd : dir ≠ [])
    (hl : dir.getLast? ≠ some '/') : dirname (dir ++ '/' :: base) = dir := by
  obtain ⟨init, z, rfl⟩ : ∃ init z, dir = init ++ [z] := by
    rcases List.eq_nil_or_concat dir with h | ⟨i, z, h⟩
    · exact absurd h hd
    · exact ⟨i, z, by simpa using h⟩
  have hz : z ≠ '/' := by simpa using hl
  unfold dirname
  have h1 : ((init ++ [z] ++ '/' :: base).reverse.dropWhile (· ≠ '/')) = '/' :: z :: init.reverse := by
    have : (init ++ [z] ++ '/' :: base).reverse = base.reverse ++ ('/' :: z :: init.reverse) := by simp
    rw [this, dropWhile_append_all _ _ _ (by
      intro x hx
      have : x ∈ base := by simpa using hx
      simp only [ne_eq, decide_not, Bool.not_eq_eq_eq_not, Bool.not_true, decide_eq_false_iff_not]
      intro e; exact hb (e ▸ this))]
    simp [List.dropWhile]
  simp only [h1]
  have h2 : ('/' :: z :: init.reverse).reverse = init ++ [z, '/'] := by simp
  rw [h2]
  have h3 : (init ++ [z, '/']).all (· = '/') = false := by
    simp only [List.all_append, List.all_cons, List.all_nil, Bool.and_true, decide_true]
    simp [hz]
  simp only [h3]
  have h4 : (init ++ [z, '/']).reverse = '/' :: z :: init.reverse := by simp
  simp [h4, List.dropWhile, hz]

theorem join_concrete (dir loc : Str) (hd : dir ≠ []) (hl : dir.getLast? ≠ some '/')
    (hr : loc.head? ≠ some '/') : join dir loc = dir ++ '/' :: loc := by
  simp [join, hr, hd, hl]

/-! ### candidate search and file lookup -/

theorem getPath_cases (paths : List Str) (ex : Str → Bool) (hne : [] ∉ paths) :
    (getPath paths ex = [] ∧ ∀ q ∈ paths, ex q = false) ∨
    (∃ pre post p, paths = pre ++ p :: post ∧ ex p = true ∧ (∀ q ∈ pre, ex q = false) ∧
      p ≠ [] ∧ getPath paths ex = p) := by
  induction paths with
  | nil => left; simp [getPath]
  | cons a r ih =>
    have ha : a ≠ [] := fun e => hne (by simp [e])
    have hr : [] ∉ r := fun e => hne (by simp [e])
    by_cases hx : ex a = true
    · right
      exact ⟨[], r, a, rfl, hx, by simp, ha, by simp [getPath, List.find?, hx]⟩
    · have hx' : ex a = false := by simpa using hx
      rcases ih hr with ⟨h1, h2⟩ | ⟨pre, post, p, h1, h2, h3, h4, h5⟩
      · left
        refine ⟨?_, ?_⟩
        · simpa [getPath, List.find?, hx'] using h1
        · intro q hq
          rcases List.mem_cons.mp hq with e | e
          · exact e ▸ hx'
          · exact h2 q e
      · right
        refine ⟨a :: pre, post, p, by simp [h1], h2, ?_, h4, ?_⟩
        · intro q hq
          rcases List.mem_cons.mp hq with e | e
          · exact e ▸ hx'
          · exact h3 q e
        · simpa [getPath, List.find?, hx'] using h5

theorem find_first (paths : List Str) (ex : Str → Bool) (pre post : List Str) (p : Str)
    (h : paths = pre ++ p :: post) (hp : ex p = true) (hpre : ∀ q ∈ pre, ex q = false) :
    paths.find? ex = some p := by
  subst h
  induction pre with
  | nil => simp [hp]
  | cons a r ih =>
    have : ex a = false := hpre a (by simp)
    simp only [List.cons_append, List.find?, this]
    exact ih (fun q hq => hpre q (by simp [hq]))

/-! ### configparser: specification vocabulary -/

/-- the option assignments of the DEFAULT section(s), in file order: (name as written, joined value) -/
def defaultOptions : Option Str → List Item → List (Str × Str)
  | _, [] => []
  | _, .header n :: r => defaultOptions (some n) r
  | s, .option k ps :: r =>
    (if s = some dfltName then [(k, joinPieces ps)] else []) ++ defaultOptions s r
  | s, .bogus :: r => defaultOptions s r

/-- names of the sections opened (other than DEFAULT), in order -/
def headers : List Item → List Str
  | [] => []
  | .header n :: r => (if n = dfltName then [] else [n]) ++ headers r
  | _ :: r => headers r

/-- (section, lower-cased option name) of every option line, in order -/
def qualified : Option Str → List Item → List (Str × Str)
  | _, [] => []
  | _, .header n :: r => qualified (some n) r
  | s, .option k _ :: r => (match s with | some n => [(n, lower k)] | none => []) ++ qualified s r
  | s, .bogus :: r => qualified s r

/-- an option or stray line before any section header -/
def orphan : Option Str → List Item → Bool
  | _, [] => false
  | _, .header _ :: _ => false
  | none, _ :: _ => true
  | some s, _ :: r => orphan (some s) r

/-- a line that is neither header nor option, or an option with an empty name -/
def hasBogus : List Item → Bool
  | [] => false
  | .bogus :: _ => true
  | .option k _ :: r => decide (k = []) || hasBogus r
  | .header _ :: r => hasBogus r

/-- pairwise different and not seen before -/
def Fresh {β : Type} (seen xs : List β) : Prop := xs.Nodup ∧ ∀ x ∈ xs, x ∉ seen

theorem fresh_nil {β : Type} (seen : List β) : Fresh seen [] := ⟨List.nodup_nil, by simp⟩

theorem fresh_cons {β : Type} (seen xs : List β) (x : β) :
    Fresh seen (x :: xs) ↔ x ∉ seen ∧ Fresh (x :: seen) xs := by
  unfold Fresh
  simp only [List.nodup_cons, List.mem_cons, forall_eq_or_imp, not_or]
  constructor
  · rintro ⟨⟨h1, h2⟩, h3, h4⟩
    exact ⟨h3, h2, fun y hy => ⟨fun e => h1 (e ▸ hy), h4 y hy⟩⟩
  · rintro ⟨h3, h2, h4⟩
    exact ⟨⟨fun hx => (h4 x hx).1 rfl, h2⟩, h3, fun y hy => (h4 y hy).2⟩

theorem set_of_not_mem (d : PyDict Str Str) (k v : Str) (h : k ∉ PyDict.keys d) :
    PyDict.set d k v = d ++ [(k, v)] := by
  induction d with
  | nil => simp [PyDict.set]
  | cons p r ih =>
    obtain ⟨a, b⟩ := p
    simp only [PyDict.keys, List.map_cons, List.mem_cons, not_or] at h
    have : ¬ a = k := fun e => h.1 e.symm
    simp [PyDict.set, this, ih (by simpa [PyDict.keys] using h.2)]

/-! ### the second pass -/

theorem orphan_some (s : Str) (items : List Item) : orphan (some s) items = false := by
  induction items with
  | nil => rfl
  | cons it r ih => cases it <;> simp [orphan, ih]

theorem foldlM_istep_ok_iff (items : List Item) (st : IState) :
    (∃ st', items.foldlM istep st = .ok st') ↔
      Fresh st.sects (headers items) ∧ Fresh st.added (qualified st.sect items) ∧ orphan st.sect items = false := by
  induction items generalizing st with
  | nil => simp [headers, qualified, orphan, fresh_nil, pure, Except.pure]
  | cons it r ih =>
    simp only [List.foldlM_cons, bind, Except.bind]
    cases it with
    | header n =>
      simp only [istep, headers, qualified, orphan]
      by_cases hn : n = dfltName
      · simp only [hn, if_true, List.nil_append]
        rw [ih]
        simp [orphan_some]
      · simp only [hn, if_false, List.singleton_append, fresh_cons]
        by_cases hc : n ∈ st.sects
        · simp [hc]
        · simp only [List.contains_iff_mem, hc, if_false, not_false_eq_true, true_and]
          rw [ih]
          simp [orphan_some]
    | option k ps =>
      cases hs : st.sect with
      | none => simp [istep, hs, orphan]
      | some s =>
        simp only [istep, hs, qualified, orphan, List.singleton_append, fresh_cons]
        by_cases hc : (s, lower k) ∈ st.added
        · simp [hc]
        · simp only [List.contains_iff_mem, hc, if_false, not_false_eq_true, true_and]
          rw [ih]
          simp [headers]
    | bogus =>
      cases hs : st.sect with
      | none => simp [istep, hs, orphan]
      | some s =>
        simp only [istep, hs, qualified, orphan, headers]
        rw [ih]

theorem foldlM_istep_bad (items : List Item) (st st' : IState) (h : items.foldlM istep st = .ok st') :
    st'.bad = (st.bad || hasBogus items) := by
  induction items generalizing st with
  | nil =>
    simp only [List.foldlM_nil, pure, Except.pure, Except.ok.injEq] at h
    subst h; simp [hasBogus]
  | cons it r ih =>
    simp only [List.foldlM_cons, bind, Except.bind] at h
    cases hs : istep st it with
    | error e => simp [hs] at h
    | ok s1 =>
      simp only [hs] at h
      rw [ih s1 h]
      cases it with
      | header n =>
        simp only [istep] at hs
        split at hs
        · cases hs; simp [hasBogus]
        · split at hs
          · cases hs
          · cases hs; simp [hasBogus]
      | option k ps =>
        simp only [istep] at hs
        split at hs
        · cases hs
        · split at hs
          · cases hs
          · cases hs; simp [hasBogus, Bool.or_assoc]
      | bogus =>
        simp only [istep] at hs
        split at hs
        · cases hs
        · cases hs; simp [hasBogus]

theorem foldlM_istep_dflt (items : List Item) (st st' : IState) (h : items.foldlM istep st = .ok st')
    (hinv : ∀ k ∈ PyDict.keys st.dflt, (dfltName, k) ∈ st.added) :
    st'.dflt = st.dflt ++ (defaultOptions st.sect items).map (fun p => (lower p.1, p.2)) := by
  induction items generalizing st with
  | nil =>
    simp only [List.foldlM_nil, pure, Except.pure, Except.ok.injEq] at h
    subst h; simp [defaultOptions]
  | cons it r ih =>
    simp only [List.foldlM_cons, bind, Except.bind] at h
    cases hs : istep st it with
    | error e => simp [hs] at h
    | ok s1 =>
      simp only [hs] at h
      cases it with
      | header n =>
        simp only [istep] at hs
        split at hs
        · cases hs; rw [ih _ h hinv]; simp_all [defaultOptions]
        · split at hs
          · cases hs
          · cases hs; rw [ih _ h hinv]; simp [defaultOptions]
      | option k ps =>
        simp only [istep] at hs
        split at hs
        · cases hs
        · rename_i s hsec
          split at hs
          · cases hs
          · rename_i hc
            cases hs
            by_cases hd : s = dfltName
            · subst hd
              have hk : lower k ∉ PyDict.keys st.dflt := by
                intro hm
                exact hc (List.contains_iff_mem.2 (hinv _ hm))
              rw [ih _ h]
              · simp [defaultOptions, hsec, set_of_not_mem _ _ _ hk]
              · intro k' hk'
                simp only [if_true, set_of_not_mem _ _ _ hk, PyDict.keys, List.map_append, List.map_cons,
                  List.map_nil, List.mem_append, List.mem_singleton] at hk'
                rcases hk' with hk' | rfl
                · exact List.mem_cons_of_mem _ (hinv _ (by simpa [PyDict.keys] using hk'))
                · simp
            · rw [ih _ h]
              · simp [defaultOptions, hsec, hd]
              · intro k' hk'
                simp only [hd, if_false] at hk'
                exact List.mem_cons_of_mem _ (hinv _ hk')
      | bogus =>
        simp only [istep] at hs
        split at hs
        · cases hs
        · cases hs; rw [ih _ h hinv]; simp [defaultOptions]

theorem foldlM_istep_err (items : List Item) (st : IState) (e : ConfErr) (h : items.foldlM istep st = .error e) :
    e ≠ .parsing ∧ (e = .missingSectionHeader → orphan st.sect items = true) ∧
      (e = .duplicateSection → ¬ Fresh st.sects (headers items)) ∧
      (e = .duplicateOption → ¬ Fresh st.added (qualified st.sect items)) := by
  induction items generalizing st with
  | nil => simp [pure, Except.pure] at h
  | cons it r ih =>
    simp only [List.foldlM_cons, bind, Except.bind] at h
    cases hs : istep st it with
    | error e' =>
      simp only [hs, Except.error.injEq] at h
      subst h
      cases it with
      | header n =>
        simp only [istep] at hs
        split at hs
        · cases hs
        · rename_i hn
          split at hs
          · rename_i hc
            cases hs
            refine ⟨by simp, by simp, fun _ hf => ?_, by simp⟩
            simp only [headers, hn, if_false, List.singleton_append, fresh_cons] at hf
            exact hf.1 (List.contains_iff_mem.1 hc)
          · cases hs
      | option k ps =>
        simp only [istep] at hs
        split at hs
        · rename_i hsec; cases hs; simp [orphan, hsec]
        · rename_i s hsec
          split at hs
          · rename_i hc
            cases hs
            refine ⟨by simp, by simp, by simp, fun _ hf => ?_⟩
            simp only [qualified, hsec, List.singleton_append, fresh_cons] at hf
            exact hf.1 (List.contains_iff_mem.1 hc)
          · cases hs
      | bogus =>
        simp only [istep] at hs
        split at hs
        · rename_i hsec; cases hs; simp [orphan, hsec]
        · cases hs
    | ok s1 =>
      simp only [hs] at h
      obtain ⟨h1, h2, h3, h4⟩ := ih s1 h
      cases it with
      | header n =>
        simp only [istep] at hs
        split at hs
        · rename_i hn
          cases hs
          refine ⟨h1, fun he => ?_, fun he => ?_, fun he => ?_⟩
          · have := h2 he; simp [orphan_some] at this
          · simpa [headers, hn] using h3 he
          · simpa [qualified] using h4 he
        · rename_i hn
          split at hs
          · cases hs
          · rename_i hc
            cases hs
            refine ⟨h1, fun he => ?_, fun he hf => ?_, fun he => ?_⟩
            · have := h2 he; simp [orphan_some] at this
            · simp only [headers, hn, if_false, List.singleton_append, fresh_cons] at hf
              exact h3 he hf.2
            · simpa [qualified] using h4 he
      | option k ps =>
        simp only [istep] at hs
        split at hs
        · cases hs
        · rename_i s hsec
          split at hs
          · cases hs
          · cases hs
            refine ⟨h1, fun he => ?_, fun he => ?_, fun he hf => ?_⟩
            · have := h2 he; simp [hsec, orphan_some] at this
            · simpa [headers] using h3 he
            · simp only [qualified, hsec, List.singleton_append, fresh_cons] at hf
              exact h4 he (by simpa [hsec] using hf.2)
      | bogus =>
        simp only [istep] at hs
        split at hs
        · cases hs
        · rename_i s hsec
          cases hs
          refine ⟨h1, fun he => ?_, fun he => ?_, fun he => ?_⟩
          · have := h2 he; simp [hsec, orphan_some] at this
          · simpa [headers] using h3 he
          · simpa [qualified, hsec] using h4 he

/-! ### `parseConf` -/

theorem logical_cons (ls : List Str) : logical ls = .header dfltName :: (scan false 0 ls).2 := rfl

/-- the option assignments of the DEFAULT section of a configuration file, in file order -/
def assignments (ls : List Str) : List (Str × Str) := defaultOptions none (logical ls)

theorem parseConf_ok (ls : List Str) (d : PyDict Str Str) (h : parseConf ls = .ok d) :
    d = (assignments ls).map (fun p => (lower p.1, p.2)) := by
  unfold parseConf interpret at h
  split at h
  · cases h
  · rename_i st hst
    split at h
    · cases h
    · cases h
      simpa [assignments] using foldlM_istep_dflt _ _ _ hst (by simp [PyDict.keys])

theorem parseConf_ok_iff (ls : List Str) :
    (∃ d, parseConf ls = .ok d) ↔
      (headers (logical ls)).Nodup ∧ (qualified none (logical ls)).Nodup ∧ hasBogus (logical ls) = false := by
  have hiff := foldlM_istep_ok_iff (logical ls) ⟨none, [], [], [], false⟩
  simp only [Fresh, List.not_mem_nil, not_false_eq_true, implies_true, and_true] at hiff
  have horph : orphan none (logical ls) = false := by rw [logical_cons]; rfl
  simp only [horph, and_true] at hiff
  unfold parseConf interpret
  constructor
  · rintro ⟨d, h⟩
    split at h
    · cases h
    · rename_i st hst
      have hb := foldlM_istep_bad _ _ _ hst
      split at h
      · cases h
      · rename_i hbad
        have := hiff.1 ⟨st, hst⟩
        refine ⟨this.1, this.2, ?_⟩
        simpa [hb] using hbad
  · rintro ⟨h1, h2, h3⟩
    obtain ⟨st, hst⟩ := hiff.2 ⟨h1, h2⟩
    have hb := foldlM_istep_bad _ _ _ hst
    simp only [hst]
    simp [hb, h3]

theorem parseConf_parsing_iff (ls : List Str) :
    parseConf ls = .error .parsing ↔
      (headers (logical ls)).Nodup ∧ (qualified none (logical ls)).Nodup ∧ hasBogus (logical ls) = true := by
  have hiff := foldlM_istep_ok_iff (logical ls) ⟨none, [], [], [], false⟩
  simp only [Fresh, List.not_mem_nil, not_false_eq_true, implies_true, and_true] at hiff
  have horph : orphan none (logical ls) = false := by rw [logical_cons]; rfl
  simp only [horph, and_true] at hiff
  unfold parseConf interpret
  constructor
  · intro h
    split at h
    · rename_i e he
      cases h
      exact absurd rfl (foldlM_istep_err _ _ _ he).1
    · rename_i st hst
      have hb := foldlM_istep_bad _ _ _ hst
      have := hiff.1 ⟨st, hst⟩
      split at h
      · rename_i hbad
        refine ⟨this.1, this.2, ?_⟩
        simpa [hb] using hbad
      · cases h
  · rintro ⟨h1, h2, h3⟩
    obtain ⟨st, hst⟩ := hiff.2 ⟨h1, h2⟩
    have hb := foldlM_istep_bad _ _ _ hst
    simp only [hst]
    simp [hb, h3]

theorem parseConf_error (ls : List Str) (e : ConfErr) (h : parseConf ls = .error e) :
    e ≠ .missingSectionHeader ∧ (e = .duplicateSection → ¬ (headers (logical ls)).Nodup) ∧
      (e = .duplicateOption → ¬ (qualified none (logical ls)).Nodup) := by
  have horph : orphan none (logical ls) = false := by rw [logical_cons]; rfl
  unfold parseConf interpret at h
  split at h
  · rename_i e' he
    cases h
    obtain ⟨_, h2, h3, h4⟩ := foldlM_istep_err _ _ _ he
    refine ⟨fun hm => ?_, fun hm hn => h3 hm ⟨hn, by simp⟩, fun hm hn => h4 hm ⟨hn, by simp⟩⟩
    have := h2 hm
    simp [horph] at this
  · split at h
    · cases h; simp
    · cases h

theorem find_split {β : Type} (l : List β) (p : β → Bool) (x : β) (h : l.find? p = some x) :
    ∃ pre post, l = pre ++ x :: post ∧ p x = true ∧ ∀ y ∈ pre, p y = false := by
  induction l with
  | nil => simp at h
  | cons a r ih =>
    by_cases ha : p a = true
    · simp only [List.find?, ha, Option.some.injEq] at h
      subst h; exact ⟨[], r, rfl, ha, by simp⟩
    · simp only [Bool.not_eq_true] at ha
      simp only [List.find?, ha] at h
      obtain ⟨pre, post, h1, h2, h3⟩ := ih h
      refine ⟨a :: pre, post, by simp [h1], h2, ?_⟩
      intro y hy
      rcases List.mem_cons.1 hy with rfl | hy
      · exact ha
      · exact h3 y hy

theorem get?_map_lower (l : List (Str × Str)) (key : Str) :
    PyDict.get? (l.map (fun p => (lower p.1, p.2))) key = (l.find? (fun p => decide (lower p.1 = key))).map (·.2) := by
  induction l with
  | nil => simp [PyDict.get?]
  | cons a r ih =>
    by_cases h : lower a.1 = key
    · simp [PyDict.get?, List.find?, h]
    · simp [PyDict.get?, List.find?, h, ih]

theorem fileGet_some (ls : List Str) (key v : Str) (h : fileGet ls key = some v) :
    ∃ pre post k, assignments ls = pre ++ (k, v) :: post ∧ lower k = key ∧
      ∀ k' v', (k', v') ∈ pre → lower k' ≠ key := by
  unfold fileGet at h
  split at h
  · rename_i d hd
    rw [parseConf_ok ls d hd, get?_map_lower] at h
    simp only [Option.map_eq_some_iff] at h
    obtain ⟨⟨k, v'⟩, hf, rfl⟩ := h
    obtain ⟨pre, post, h1, h2, h3⟩ := find_split _ _ _ hf
    refine ⟨pre, post, k, h1, by simpa using h2, ?_⟩
    intro k' v' hm
    simpa using h3 _ hm
  · cases h

theorem fileGet_none (ls : List Str) (key : Str) (hok : confFails ls = false) (h : fileGet ls key = none) :
    ∀ k v, (k, v) ∈ assignments ls → lower k ≠ key := by
  unfold confFails at hok
  unfold fileGet at h
  split at h
  · rename_i d hd
    rw [parseConf_ok ls d hd, get?_map_lower] at h
    simp only [Option.map_eq_none_iff, List.find?_eq_none, decide_eq_true_eq] at h
    intro k v hm
    exact h _ hm
  · rename_i e he
    simp [he] at hok

/-! ### the default-transport decision table -/

/-- all truth assignments of a given length -/
def allAssign : Nat → List (List Bool)
  | 0 => [[]]
  | n + 1 => (allAssign n).flatMap fun a => [false :: a, true :: a]

theorem mem_allAssign (l : List Bool) : l ∈ allAssign l.length := by
  induction l with
  | nil => simp [allAssign]
  | cons b r ih =>
    simp only [List.length_cons, allAssign, List.mem_flatMap]
    exact ⟨r, ih, by cases b <;> simp⟩

def tableTotal (probes : List Str) (table : List (List Bool × Str)) : Bool :=
  (allAssign probes.length).all fun a => (tableLookup a table).isSome

theorem defaultTransport_total (P : Platform) (h : tableTotal P.transportProbes P.transportTable = true)
    (ex : Str → Bool) : ∃ v, defaultTransport P ex = .ok v := by
  have hm := mem_allAssign (P.transportProbes.map ex)
  simp only [List.length_map] at hm
  have := (List.all_eq_true.mp h) _ hm
  unfold defaultTransport
  cases hl : tableLookup (P.transportProbes.map ex) P.transportTable with
  | none => simp [hl] at this
  | some v => exact ⟨v, rfl⟩

end Ndn.ClientConf
