import NdnModel.ClientConf
/-! Helper lemmas for C20: `part`, `afterLast`, `dirname`, `join`, `takeWhile`/`dropWhile`, `getPath`, `fileGet`,
    the default-transport decision table. -/
namespace Ndn.ClientConf

instance {ε α} [DecidableEq ε] [DecidableEq α] : DecidableEq (Except ε α)
  | .ok a, .ok b => if h : a = b then isTrue (h ▸ rfl) else isFalse (fun e => h (Except.ok.inj e))
  | .error a, .error b => if h : a = b then isTrue (h ▸ rfl) else isFalse (fun e => h (Except.error.inj e))
  | .ok _, .error _ => isFalse (fun e => nomatch e)
  | .error _, .ok _ => isFalse (fun e => nomatch e)

theorem part_append (c : Char) (a b : Str) (h : c ∉ a) : part c (a ++ c :: b) = (a, some b) := by
  induction a with
  | nil => simp [part]
  | cons x r ih =>
    have hx : x ≠ c := fun e => h (by simp [e])
    have hr : c ∉ r := fun e => h (by simp [e])
    simp [part, hx, ih hr]

theorem part_none (c : Char) (a : Str) (h : c ∉ a) : part c a = (a, none) := by
  induction a with
  | nil => simp [part]
  | cons x r ih =>
    have hx : x ≠ c := fun e => h (by simp [e])
    have hr : c ∉ r := fun e => h (by simp [e])
    simp [part, hx, ih hr]

theorem part_fst_no (c : Char) (s : Str) : c ∉ (part c s).1 := by
  induction s with
  | nil => simp [part]
  | cons x r ih =>
    by_cases hx : x = c
    · simp [part, hx]
    · simp only [part, hx, if_false]
      intro hm
      rcases List.mem_cons.mp hm with e | e
      · exact hx e.symm
      · exact ih e

theorem afterLast_none (c : Char) (s : Str) (h : c ∉ s) : afterLast c s = s := by
  unfold afterLast
  rw [part_none c s.reverse (by simpa using h)]
  simp

theorem dropWhile_append_all {α} (p : α → Bool) (a b : List α) (h : ∀ x ∈ a, p x = true) :
    (a ++ b).dropWhile p = b.dropWhile p := by
  induction a with
  | nil => rfl
  | cons x r ih =>
    have hx : p x = true := h x (by simp)
    simp [hx, ih (fun y hy => h y (by simp [hy]))]

theorem takeWhile_all {α} (p : α → Bool) (a : List α) (h : ∀ x ∈ a, p x = true) : a.takeWhile p = a := by
  induction a with
  | nil => rfl
  | cons x r ih =>
    have hx : p x = true := h x (by simp)
    simp [List.takeWhile, hx, ih (fun y hy => h y (by simp [hy]))]

theorem dropWhile_all {α} (p : α → Bool) (a : List α) (h : ∀ x ∈ a, p x = true) : a.dropWhile p = [] := by
  induction a with
  | nil => rfl
  | cons x r ih =>
    have hx : p x = true := h x (by simp)
    simp [List.dropWhile, hx, ih (fun y hy => h y (by simp [hy]))]

/-- `dirname` of `dir/base` -/
theorem dirname_concrete (dir base : Str) (hb : '/' ∉ base) (hd : dir ≠ [])
    (hl : dir.getLast? ≠ some '/') : dirname (dir ++ '/' :: base) = dir := by
  obtain ⟨init, z, rfl⟩ : ∃ init z, dir = init ++ [z] := by
    rcases List.eq_nil_or_concat dir with h | ⟨i, z, h⟩
    · exact absurd h hd
    · exact ⟨i, z, by simpa using h⟩
  have hz : z ≠ '/' := by simpa using hl
  unfold dirname
  have h1 : ((init ++ [z] ++ '/' :: base).reverse.dropWhile (· ≠ '/')) = '/' :: z :: init.reverse := by
    have : (init ++ [z] ++ '/' :: base).reverse = base.reverse ++ ('/' :: z :: init.reverse) := by simp
    rw [this, dropWhile_append_all _ _ _ (by
      intro x hx
      have : x ∈ base := by simpa using hx
      simp only [ne_eq, decide_not, Bool.not_eq_eq_eq_not, Bool.not_true, decide_eq_false_iff_not]
      intro e; exact hb (e ▸ this))]
    simp [List.dropWhile]
  simp only [h1]
  have h2 : ('/' :: z :: init.reverse).reverse = init ++ [z, '/'] := by simp
  rw [h2]
  have h3 : (init ++ [z, '/']).all (· = '/') = false := by
    simp only [List.all_append, List.all_cons, List.all_nil, Bool.and_true, decide_true]
    simp [hz]
  simp only [h3]
  have h4 : (init ++ [z, '/']).reverse = '/' :: z :: init.reverse := by simp
  simp [h4, List.dropWhile, hz]

theorem join_concrete (dir loc : Str) (hd : dir ≠ []) (hl : dir.getLast? ≠ some '/')
    (hr : loc.head? ≠ some '/') : join dir loc = dir ++ '/' :: loc := by
  simp [join, hr, hd, hl]

/-! ### candidate search and file lookup -/

theorem getPath_cases (paths : List Str) (ex : Str → Bool) (hne : [] ∉ paths) :
    (getPath paths ex = [] ∧ ∀ q ∈ paths, ex q = false) ∨
    (∃ pre post p, paths = pre ++ p :: post ∧ ex p = true ∧ (∀ q ∈ pre, ex q = false) ∧
      p ≠ [] ∧ getPath paths ex = p) := by
  induction paths with
  | nil => left; simp [getPath]
  | cons a r ih =>
    have ha : a ≠ [] := fun e => hne (by simp [e])
    have hr : [] ∉ r := fun e => hne (by simp [e])
    by_cases hx : ex a = true
    · right
      exact ⟨[], r, a, rfl, hx, by simp, ha, by simp [getPath, List.find?, hx]⟩
    · have hx' : ex a = false := by simpa using hx
      rcases ih hr with ⟨h1, h2⟩ | ⟨pre, post, p, h1, h2, h3, h4, h5⟩
      · left
        refine ⟨?_, ?_⟩
        · simpa [getPath, List.find?, hx'] using h1
        · intro q hq
          rcases List.mem_cons.mp hq with e | e
          · exact e ▸ hx'
          · exact h2 q e
      · right
        refine ⟨a :: pre, post, p, by simp [h1], h2, ?_, h4, ?_⟩
        · intro q hq
          rcases List.mem_cons.mp hq with e | e
          · exact e ▸ hx'
          · exact h3 q e
        · simpa [getPath, List.find?, hx'] using h5

theorem find_first (paths : List Str) (ex : Str → Bool) (pre post : List Str) (p : Str)
    (h : paths = pre ++ p :: post) (hp : ex p = true) (hpre : ∀ q ∈ pre, ex q = false) :
    paths.find? ex = some p := by
  subst h
  induction pre with
  | nil => simp [hp]
  | cons a r ih =>
    have : ex a = false := hpre a (by simp)
    simp only [List.cons_append, List.find?, this]
    exact ih (fun q hq => hpre q (by simp [hq]))

theorem fileGet_some (ls : List Line) (key v : Str) (h : fileGet ls key = some v) :
    ∃ pre post k, ls = pre ++ Line.kv k v :: post ∧ lower k = key ∧
      ∀ k' v', Line.kv k' v' ∈ pre → lower k' ≠ key := by
  induction ls with
  | nil => simp [fileGet] at h
  | cons l r ih =>
    cases l with
    | other =>
      obtain ⟨pre, post, k, h1, h2, h3⟩ := ih (by simpa [fileGet] using h)
      refine ⟨.other :: pre, post, k, by simp [h1], h2, ?_⟩
      intro k' v' hm
      rcases List.mem_cons.mp hm with e | e
      · cases e
      · exact h3 k' v' e
    | kv k0 v0 =>
      by_cases hk : lower k0 = key
      · have : v0 = v := by simpa [fileGet, hk] using h
        exact ⟨[], r, k0, by simp [this], hk, by simp⟩
      · obtain ⟨pre, post, k, h1, h2, h3⟩ := ih (by simpa [fileGet, hk] using h)
        refine ⟨.kv k0 v0 :: pre, post, k, by simp [h1], h2, ?_⟩
        intro k' v' hm
        rcases List.mem_cons.mp hm with e | e
        · cases e; exact hk
        · exact h3 k' v' e

theorem fileGet_none (ls : List Line) (key : Str) (h : fileGet ls key = none) :
    ∀ k v, Line.kv k v ∈ ls → lower k ≠ key := by
  induction ls with
  | nil => simp
  | cons l r ih =>
    cases l with
    | other =>
      intro k v hm
      rcases List.mem_cons.mp hm with e | e
      · cases e
      · exact ih (by simpa [fileGet] using h) k v e
    | kv k0 v0 =>
      by_cases hk : lower k0 = key
      · simp [fileGet, hk] at h
      · intro k v hm
        rcases List.mem_cons.mp hm with e | e
        · cases e; exact hk
        · exact ih (by simpa [fileGet, hk] using h) k v e

/-! ### the default-transport decision table -/

/-- all truth assignments of a given length -/
def allAssign : Nat → List (List Bool)
  | 0 => [[]]
  | n + 1 => (allAssign n).flatMap fun a => [false :: a, true :: a]

theorem mem_allAssign (l : List Bool) : l ∈ allAssign l.length := by
  induction l with
  | nil => simp [allAssign]
  | cons b r ih =>
    simp only [List.length_cons, allAssign, List.mem_flatMap]
    exact ⟨r, ih, by cases b <;> simp⟩

def tableTotal (probes : List Str) (table : List (List Bool × Str)) : Bool :=
  (allAssign probes.length).all fun a => (tableLookup a table).isSome

theorem defaultTransport_total (P : Platform) (h : tableTotal P.transportProbes P.transportTable = true)
    (ex : Str → Bool) : ∃ v, defaultTransport P ex = .ok v := by
  have hm := mem_allAssign (P.transportProbes.map ex)
  simp only [List.length_map] at hm
  have := (List.all_eq_true.mp h) _ hm
  unfold defaultTransport
  cases hl : tableLookup (P.transportProbes.map ex) P.transportTable with
  | none => simp [hl] at this
  | some v => exact ⟨v, rfl⟩

end Ndn.ClientConf
