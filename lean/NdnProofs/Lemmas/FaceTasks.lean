import NdnModel.FaceTasks
import NdnProofs.Lemmas.StreamReader
/-! Helper lemmas for the task layer (NdnModel/FaceTasks.lean): the reader pass after `shutdown()` (`pump1`),
    the invariant that ties what has been spawned to `frames` of what has been fed, and the bookkeeping of the
    ready queue. -/
namespace Ndn.FaceTasks
open Ndn Ndn.Framing Ndn.StreamReader

/-! ### lists -/

theorem frames_prefix_append (s e : Bytes) : (frames s).1 <+: (frames (s ++ e)).1 := by
  rw [frames_append]; exact List.prefix_append _ _

theorem take1_prefix {α} (l : List α) : l.take 1 <+: l := List.take_prefix 1 l

/-! ### `pump1` -/

theorem rank5_pos (ph : Phase) : 1 ≤ rank5 ph := by cases ph <;> simp [rank5]

theorem next_rank5 {ph ph' : Phase} {d : Bytes} (hn : ph.next d = .inl ph') : rank5 ph' < rank5 ph := by
  cases ph <;> simp only [Phase.next] at hn <;> (try split at hn) <;> cases hn <;> simp [rank5]

theorem handled_ne_running (caught : List RdErr) (e : RdErr) : handled caught e ≠ .running := by
  unfold handled; split <;> simp

/-- the reader pass with `running = False`: at most ONE packet - the first complete packet of `bio ++ buffer`, if
    there is one - and then `run()` has ended; otherwise it waits on (no EOF) or ends through IncompleteReadError. -/
theorem pump1_spec (caught : List RdErr) : ∀ (fuel : Nat) (r : Reader) (ph : Phase), Consistent ph → r.exc = none →
    rank5 ph ≤ fuel →
    (pump1 caught fuel r ph).2 = (frames (ph.bio ++ r.buf)).1.take 1 ∧
    ((pump1 caught fuel r ph).2 = [] → r.eof = false →
        (pump1 caught fuel r ph).1.status = .running ∧ Consistent (pump1 caught fuel r ph).1.phase ∧
        (pump1 caught fuel r ph).1.phase.bio ++ (pump1 caught fuel r ph).1.reader.buf = ph.bio ++ r.buf ∧
        (pump1 caught fuel r ph).1.reader.eof = false ∧ (pump1 caught fuel r ph).1.reader.exc = none) ∧
    ((pump1 caught fuel r ph).2 ≠ [] → (pump1 caught fuel r ph).1.status = .shutdown) ∧
    (r.eof = true → (pump1 caught fuel r ph).1.status ≠ .running)
  | 0, r, ph, _, _, hf => by have := rank5_pos ph; omega
  | fuel + 1, r, ph, hc, hx, hf => by
    simp only [pump1]
    split
    next h =>
      obtain ⟨hl, he, _⟩ := readexactly_blocked h
      rw [frames_none (readPacket_blocked hc r.buf hl)]
      refine ⟨rfl, fun _ _ => ⟨rfl, hc, rfl, he, hx⟩, fun h' => absurd rfl h', fun h' => ?_⟩
      rw [he] at h'; cases h'
    next e r' h =>
      obtain ⟨hl, he, rfl⟩ := readexactly_raised h hx
      rw [frames_none (readPacket_blocked hc r.buf hl)]
      refine ⟨rfl, fun _ h' => ?_, fun h' => absurd rfl h', fun _ => handled_ne_running _ _⟩
      rw [he] at h'; cases h'
    next d r' h =>
      obtain ⟨hb, hd, he, hx', _⟩ := readexactly_done' h
      split
      next ph' hn =>
        obtain ⟨hc', hbio⟩ := next_consistent hc d hd hn
        have hr := next_rank5 hn
        have ih := pump1_spec caught fuel r' ph' hc' (by rw [hx', hx]) (by omega)
        have e : ph'.bio ++ r'.buf = ph.bio ++ r.buf := by rw [hbio, hb, List.append_assoc]
        rw [e, he] at ih
        exact ih
      next p hn =>
        have hp := next_packet hc d r'.buf hd hn
        rw [← hb] at hp
        rw [frames_some hp]
        refine ⟨by simp, fun h' => by simp at h', fun _ => rfl, fun _ => by simp⟩

/-! ### the ready queue -/

variable {σ : Type}

theorem runTask_face (H : Hooks σ) (st : St σ) (p : Pkt) :
    (runTask H st p).face = st.face ∧ (runTask H st p).running = st.running ∧
    (runTask H st p).queue = st.queue ∧ (runTask H st p).bad = st.bad ∧
    (runTask H st p).processed = st.processed ++ [p] := by
  unfold runTask; split <;> simp

theorem runTasks_face (H : Hooks σ) : ∀ (ps : List Pkt) (st : St σ),
    (runTasks H st ps).face = st.face ∧ (runTasks H st ps).running = st.running ∧
    (runTasks H st ps).queue = st.queue ∧ (runTasks H st ps).bad = st.bad ∧
    (runTasks H st ps).processed = st.processed ++ ps
  | [], st => by simp [runTasks]
  | p :: ps, st => by
    obtain ⟨a, b, c, d, e⟩ := runTasks_face H ps (runTask H st p)
    obtain ⟨a', b', c', d', e'⟩ := runTask_face H st p
    simp only [runTasks]
    exact ⟨a.trans a', b.trans b', c.trans c', d.trans d', by rw [e, e']; simp⟩

theorem afterPass_face (H : Hooks σ) (st : St σ) (res : Face × List Pkt) :
    (afterPass H st res).face = res.1 ∧ (afterPass H st res).queue = st.queue ++ res.2 ∧
    (afterPass H st res).processed = st.processed ∧ (afterPass H st res).bad = st.bad ∧
    (afterPass H st res).errors = st.errors := by
  unfold afterPass; split <;> simp

theorem afterPass_spawned (H : Hooks σ) (st : St σ) (res : Face × List Pkt) :
    (afterPass H st res).spawned = st.spawned ++ res.2 := by
  obtain ⟨_, b, c, _⟩ := afterPass_face H st res
  simp only [St.spawned, b, c, List.append_assoc]

theorem afterPass_running (H : Hooks σ) (st : St σ) (res : Face × List Pkt) :
    (afterPass H st res).running = (if res.1.status = .running then st.running else false) := by
  unfold afterPass; split <;> simp

/-- events that do not involve the reader leave the face and the list of spawned tasks alone -/
theorem step_turn_spawned (caught : List RdErr) (H : Hooks σ) (st : St σ) :
    (step caught H st .turn).spawned = st.spawned ∧ (step caught H st .turn).face = st.face ∧
    (step caught H st .turn).running = st.running ∧ (step caught H st .turn).queue = [] ∧
    (step caught H st .turn).processed = st.spawned := by
  obtain ⟨a, b, _, _, e⟩ := runTasks_face H st.queue st
  simp only [step, St.spawned, e, a, b, List.append_nil, and_self]

theorem step_step1_spawned (caught : List RdErr) (H : Hooks σ) (st : St σ) :
    (step caught H st .step1).spawned = st.spawned ∧ (step caught H st .step1).face = st.face ∧
    (step caught H st .step1).running = st.running := by
  simp only [step]
  split
  next => simp
  next p q hq =>
    obtain ⟨a, b, _, _, e⟩ := runTask_face H st p
    simp only [St.spawned, e, a, b, hq, List.append_assoc, List.singleton_append, and_self]

/-! ### the invariant -/

theorem frames_snd_of_fst_nil {y : Bytes} (h : (frames y).1 = []) : (frames y).2 = y := by
  have := frames_partition y
  rw [h] at this
  simpa using this

/-- `s` has been fed: what has been spawned is a prefix of the packets of `s`; while `run()` is suspended in a read it
    is all of them, and the reader holds the rest -/
structure Inv (st : St σ) (s : Bytes) : Prop where
  pre : st.spawned <+: (frames s).1
  sim : st.face.status = .running → Sim (st.face, st.spawned) s

theorem inv_init (caught : List RdErr) (a : σ) : Inv (init caught a) [] := by
  have h := sim_start caught
  obtain ⟨h1, h2, h3, h4, h5, h6⟩ := h
  have e : (frames []).1 = [] := by decide
  refine ⟨by simp [init, St.spawned, e], fun _ => ⟨h1, h2, h3, h4, h5, ?_⟩⟩
  simp [init, St.spawned, e]

theorem apply_feed_buf (r : Reader) (c : Bytes) :
    (r.apply (.feed c)).buf = r.buf ++ c ∧ (r.apply (.feed c)).eof = r.eof ∧ (r.apply (.feed c)).exc = r.exc := by
  simp [Reader.apply]

theorem apply_close_buf (r : Reader) (c : Bytes) :
    ((r.apply (.feed c)).apply .feedEof).buf = r.buf ++ c ∧ ((r.apply (.feed c)).apply .feedEof).eof = true ∧
    ((r.apply (.feed c)).apply .feedEof).exc = r.exc := by
  simp [Reader.apply]

/-- a reader pass (either kind) started from a suspended, consistent face that has seen `s`, after `c` more bytes
    (and possibly EOF): what it spawns keeps the invariant for `s ++ c` -/
theorem inv_pass (caught : List RdErr) (H : Hooks σ) {st : St σ} {s : Bytes} (hi : Inv st s)
    (hr : st.face.status = .running) (c : Bytes) (r : Reader) (hb : r.buf = st.face.reader.buf ++ c)
    (hx : r.exc = st.face.reader.exc) :
    Inv (afterPass H st (readerPass caught st.running r st.face.phase)) (s ++ c) := by
  obtain ⟨hrun, hc, hrem, heof, hexc, hout⟩ := hi.sim hr
  simp only at hrun hc hrem heof hexc hout
  have hbio : st.face.phase.bio ++ r.buf = (frames s).2 ++ c := by rw [hb, ← List.append_assoc, hrem]
  have hfa := frames_append s c
  obtain ⟨af, aq, ap, _, _⟩ := afterPass_face H st (readerPass caught st.running r st.face.phase)
  have hsp := afterPass_spawned H st (readerPass caught st.running r st.face.phase)
  cases hfl : st.running with
  | true =>
    have hp := pump_spec caught r st.face.phase hc (by rw [hx, hexc])
    rw [hbio] at hp
    obtain ⟨p1, p2, p3⟩ := hp
    have hrp : readerPass caught true r st.face.phase = pump caught r st.face.phase := by simp [readerPass]
    rw [hfl] at af hsp
    rw [hrp] at af hsp
    have hsp' : (afterPass H st (pump caught r st.face.phase)).spawned = (frames (s ++ c)).1 := by
      rw [hsp, hfa, hout, p1]
    rw [hrp]
    refine ⟨by rw [hsp']; exact List.prefix_refl _, fun hr' => ?_⟩
    rw [af] at hr'
    cases hre : r.eof with
    | true => exact absurd hr' (by rw [p3 hre]; exact handled_ne_running _ _)
    | false =>
      obtain ⟨q1, q2, q3, q4, q5⟩ := p2 hre
      exact ⟨by rw [af]; exact q1, by rw [af]; exact q2, by rw [af, hfa]; exact q3, by rw [af]; exact q4,
        by rw [af]; exact q5, hsp'⟩
  | false =>
    have hp := pump1_spec caught 5 r st.face.phase hc (by rw [hx, hexc])
      (by cases st.face.phase <;> simp [rank5])
    rw [hbio] at hp
    obtain ⟨p1, p2, p3, p4⟩ := hp
    have hrp : readerPass caught false r st.face.phase = pump1 caught 5 r st.face.phase := by simp [readerPass]
    rw [hfl] at af hsp
    rw [hrp] at af hsp
    rw [hrp]
    have hpre : (afterPass H st (pump1 caught 5 r st.face.phase)).spawned <+: (frames (s ++ c)).1 := by
      rw [hsp, hfa, hout, p1]
      exact (List.prefix_append_right_inj _).mpr (List.take_prefix _ _)
    refine ⟨hpre, fun hr' => ?_⟩
    rw [af] at hr'
    have hnil : (pump1 caught 5 r st.face.phase).2 = [] := by
      cases hq : (pump1 caught 5 r st.face.phase).2 with
      | nil => rfl
      | cons x xs =>
        have := p3 (by rw [hq]; simp)
        rw [this] at hr'; cases hr'
    cases hre : r.eof with
    | true => exact absurd hr' (p4 hre)
    | false =>
      obtain ⟨q1, q2, q3, q4, q5⟩ := p2 hnil hre
      have hX : (frames ((frames s).2 ++ c)).1 = [] := by
        rw [hnil] at p1
        cases hX : (frames ((frames s).2 ++ c)).1 with
        | nil => rfl
        | cons x xs => rw [hX] at p1; simp at p1
      refine ⟨by rw [af]; exact q1, by rw [af]; exact q2, ?_, by rw [af]; exact q4, by rw [af]; exact q5, ?_⟩
      · rw [af, hfa]
        show _ = (frames ((frames s).2 ++ c)).2
        rw [frames_snd_of_fst_nil hX, q3]
      · show (afterPass H st (pump1 caught 5 r st.face.phase)).spawned = _
        rw [hsp, hnil, hfa, hX, hout]

/-- once `run()` has ended, events that concern the reader only change the reader -/
theorem step_ended (caught : List RdErr) (H : Hooks σ) (st : St σ) (hne : st.face.status ≠ .running) (ev : Ev) :
    (step caught H st ev).spawned = st.spawned ∧ (step caught H st ev).face.status = st.face.status := by
  cases ev with
  | feed c => simp only [step]; (try split) <;> simp_all [St.spawned]
  | close c => simp only [step]; (try split) <;> simp_all [St.spawned]
  | exc e => simp only [step]; (try split) <;> simp_all [St.spawned]
  | shutdown => simp [step, St.spawned]
  | turn => obtain ⟨a, b, _⟩ := step_turn_spawned caught H st; exact ⟨a, by rw [b]⟩
  | step1 => obtain ⟨a, b, _⟩ := step_step1_spawned caught H st; exact ⟨a, by rw [b]⟩
  | raise k => simp [step, St.spawned]

theorem inv_of_ended {st st' : St σ} {s : Bytes} (hi : Inv st s) (c : Bytes) (hs : st'.spawned = st.spawned)
    (hne : st'.face.status ≠ .running) : Inv st' (s ++ c) :=
  ⟨by rw [hs]; exact hi.pre.trans (frames_prefix_append s c), fun h => absurd h hne⟩

theorem inv_of_same {st st' : St σ} {s : Bytes} (hi : Inv st s) (hs : st'.spawned = st.spawned)
    (hf : st'.face = st.face) : Inv st' (s ++ []) := by
  rw [List.append_nil]
  exact ⟨by rw [hs]; exact hi.pre, fun h => by rw [hf] at h ⊢; rw [hs]; exact hi.sim h⟩

/-- **the invariant is kept by every event** -/
theorem inv_step (caught : List RdErr) (H : Hooks σ) {st : St σ} {s : Bytes} (hi : Inv st s) (ev : Ev) :
    Inv (step caught H st ev) (s ++ ev.bytes) := by
  by_cases hr : st.face.status = .running
  · cases ev with
    | feed c =>
      obtain ⟨b1, b2, b3⟩ := apply_feed_buf st.face.reader c
      have := inv_pass caught H hi hr c _ b1 b3
      simpa only [step, hr, Ev.bytes] using this
    | close c =>
      obtain ⟨b1, b2, b3⟩ := apply_close_buf st.face.reader c
      have := inv_pass caught H hi hr c _ b1 b3
      simpa only [step, hr, Ev.bytes] using this
    | exc e =>
      refine inv_of_ended hi [] ?_ ?_
      · simp [step, hr, St.spawned]
      · simp only [step, hr]; exact handled_ne_running _ _
    | shutdown => exact inv_of_same hi (by simp [step, St.spawned]) (by simp [step])
    | turn => obtain ⟨a, b, _⟩ := step_turn_spawned caught H st; exact inv_of_same hi a b
    | step1 => obtain ⟨a, b, _⟩ := step_step1_spawned caught H st; exact inv_of_same hi a b
    | raise k => exact inv_of_same hi (by simp [step, St.spawned]) (by simp [step])
  · obtain ⟨a, b⟩ := step_ended caught H st hr ev
    exact inv_of_ended hi _ a (by rw [b]; exact hr)

theorem runFrom_append (caught : List RdErr) (H : Hooks σ) (st : St σ) (h1 h2 : List Ev) :
    runFrom caught H st (h1 ++ h2) = runFrom caught H (runFrom caught H st h1) h2 := by
  induction h1 generalizing st with
  | nil => rfl
  | cons e es ih => simp only [List.cons_append, runFrom]; exact ih _

theorem fed_append (h1 h2 : List Ev) : fed (h1 ++ h2) = fed h1 ++ fed h2 := by
  induction h1 with
  | nil => rfl
  | cons e es ih => simp only [List.cons_append, fed, ih, List.append_assoc]

theorem inv_runFrom (caught : List RdErr) (H : Hooks σ) (h : List Ev) : ∀ {st : St σ} {s : Bytes}, Inv st s →
    Inv (runFrom caught H st h) (s ++ fed h) := by
  induction h with
  | nil => intro st s hi; simpa [runFrom, fed] using hi
  | cons e es ih =>
    intro st s hi
    have := ih (inv_step caught H hi e)
    simpa only [runFrom, fed, List.append_assoc] using this

theorem inv_run (caught : List RdErr) (H : Hooks σ) (a : σ) (h : List Ev) : Inv (run caught H a h) (fed h) := by
  have := inv_runFrom caught H h (inv_init caught a)
  simpa [run] using this

/-! ### while the connection is open -/

/-- the connection is open: `run()` suspended in a read, `running` still True -/
def Open (st : St σ) : Prop := st.running = true ∧ st.face.status = .running

theorem open_init (caught : List RdErr) (a : σ) : Open (init caught a) :=
  ⟨rfl, (sim_start caught).running⟩

theorem open_step (caught : List RdErr) (H : Hooks σ) {st : St σ} {s : Bytes} (hi : Inv st s) (ho : Open st)
    (ev : Ev) (hq : ev.quiet = true) : Open (step caught H st ev) := by
  obtain ⟨hfl, hr⟩ := ho
  cases ev with
  | feed c =>
    have hs := (inv_step caught H hi (.feed c))
    obtain ⟨b1, b2, b3⟩ := apply_feed_buf st.face.reader c
    have hp := pump_spec caught (st.face.reader.apply (.feed c)) st.face.phase (hi.sim hr).cons
      (by rw [b3]; exact (hi.sim hr).exc)
    have hrun := (hp.2.1 (by rw [b2]; exact (hi.sim hr).eof)).1
    simp only [step, hr, readerPass, hfl, if_true]
    refine ⟨?_, ?_⟩
    · rw [afterPass_running, hrun]; simpa using hfl
    · rw [(afterPass_face H st _).1]; exact hrun
  | close c => cases hq
  | exc e => cases hq
  | shutdown => cases hq
  | turn => obtain ⟨_, b, c, _⟩ := step_turn_spawned caught H st; exact ⟨by rw [c]; exact hfl, by rw [b]; exact hr⟩
  | step1 => obtain ⟨_, b, c⟩ := step_step1_spawned caught H st; exact ⟨by rw [c]; exact hfl, by rw [b]; exact hr⟩
  | raise k => exact ⟨hfl, hr⟩

theorem open_runFrom (caught : List RdErr) (H : Hooks σ) (h : List Ev) : ∀ {st : St σ} {s : Bytes}, Inv st s →
    Open st → h.all Ev.quiet = true → Open (runFrom caught H st h) := by
  induction h with
  | nil => intro st s _ ho _; exact ho
  | cons e es ih =>
    intro st s hi ho hq
    simp only [List.all_cons, Bool.and_eq_true] at hq
    exact ih (inv_step caught H hi e) (open_step caught H hi ho e hq.1) hq.2

/-! ### after `shutdown()` -/

theorem step_running_false (caught : List RdErr) (H : Hooks σ) (st : St σ) (hf : st.running = false) (ev : Ev) :
    (step caught H st ev).running = false := by
  cases ev with
  | feed c => simp only [step]; split <;> simp [afterPass_running, hf]
  | close c => simp only [step]; split <;> simp [afterPass_running, hf]
  | exc e => simp only [step]; split <;> simp [hf]
  | shutdown => simp [step]
  | turn => rw [(step_turn_spawned caught H st).2.2.1]; exact hf
  | step1 => rw [(step_step1_spawned caught H st).2.2]; exact hf
  | raise k => simpa [step] using hf

/-- after `shutdown()` with `n` tasks spawned: at most one more, and none while `run()` is still waiting -/
structure Closing (st : St σ) (n : Nat) : Prop where
  flag : st.running = false
  le : st.spawned.length ≤ n + 1
  wait : st.face.status = .running → st.spawned.length ≤ n

theorem closing_step (caught : List RdErr) (H : Hooks σ) {st : St σ} {s : Bytes} {n : Nat} (hi : Inv st s)
    (hcl : Closing st n) (ev : Ev) : Closing (step caught H st ev) n := by
  suffices hh : (step caught H st ev).spawned.length ≤ n + 1 ∧
      ((step caught H st ev).face.status = .running → (step caught H st ev).spawned.length ≤ n) from
    ⟨step_running_false caught H st hcl.flag ev, hh.1, hh.2⟩
  by_cases hr : st.face.status = .running
  · have key : ∀ (c : Bytes) (r : Reader), r.buf = st.face.reader.buf ++ c → r.exc = st.face.reader.exc →
        (afterPass H st (readerPass caught st.running r st.face.phase)).spawned.length ≤ n + 1 ∧
        ((afterPass H st (readerPass caught st.running r st.face.phase)).face.status = .running →
          (afterPass H st (readerPass caught st.running r st.face.phase)).spawned.length ≤ n) := by
      intro c r hb hx
      have hs := hi.sim hr
      have hp := pump1_spec caught 5 r st.face.phase hs.cons (by rw [hx]; exact hs.exc)
        (by cases st.face.phase <;> simp [rank5])
      obtain ⟨p1, _, p3, _⟩ := hp
      have hw := hcl.wait hr
      rw [afterPass_spawned, (afterPass_face H st _).1]
      simp only [readerPass, hcl.flag, Bool.false_eq_true, if_false, List.length_append]
      have hl : (pump1 caught 5 r st.face.phase).2.length ≤ 1 := by rw [p1]; simp [List.length_take]; omega
      refine ⟨by omega, fun hr' => ?_⟩
      cases hq : (pump1 caught 5 r st.face.phase).2 with
      | nil => simp; exact hw
      | cons x xs => have := p3 (by rw [hq]; simp); rw [this] at hr'; cases hr'
    cases ev with
    | feed c =>
      obtain ⟨b1, _, b3⟩ := apply_feed_buf st.face.reader c
      simpa only [step, hr] using key c _ b1 b3
    | close c =>
      obtain ⟨b1, _, b3⟩ := apply_close_buf st.face.reader c
      simpa only [step, hr] using key c _ b1 b3
    | exc e =>
      have hw := hcl.wait hr
      simp only [step, hr, St.spawned] at hw ⊢
      exact ⟨by omega, fun h => absurd h (handled_ne_running _ _)⟩
    | shutdown => exact ⟨by simpa [step, St.spawned] using hcl.le, fun h => by simpa [step, St.spawned] using hcl.wait hr⟩
    | turn =>
      obtain ⟨a, b, _⟩ := step_turn_spawned caught H st
      rw [a]; exact ⟨hcl.le, fun _ => hcl.wait hr⟩
    | step1 =>
      obtain ⟨a, b, _⟩ := step_step1_spawned caught H st
      rw [a]; exact ⟨hcl.le, fun _ => hcl.wait hr⟩
    | raise k => exact ⟨by simpa [step, St.spawned] using hcl.le, fun h => by simpa [step, St.spawned] using hcl.wait hr⟩
  · obtain ⟨a, b⟩ := step_ended caught H st hr ev
    rw [a, b]
    exact ⟨hcl.le, fun h => absurd h hr⟩

theorem closing_runFrom (caught : List RdErr) (H : Hooks σ) (h : List Ev) : ∀ {st : St σ} {s : Bytes} {n : Nat},
    Inv st s → Closing st n → Closing (runFrom caught H st h) n := by
  induction h with
  | nil => intro st s n _ hc; exact hc
  | cons e es ih => intro st s n hi hc; exact ih (inv_step caught H hi e) (closing_step caught H hi hc e)

/-- the list of spawned tasks only grows -/
theorem spawned_step_prefix (caught : List RdErr) (H : Hooks σ) (st : St σ) (ev : Ev) :
    st.spawned <+: (step caught H st ev).spawned := by
  cases ev with
  | feed c =>
    simp only [step]; split
    · rw [afterPass_spawned]; exact List.prefix_append _ _
    · simp [St.spawned]
  | close c =>
    simp only [step]; split
    · rw [afterPass_spawned]; exact List.prefix_append _ _
    · simp [St.spawned]
  | exc e => simp only [step]; split <;> simp [St.spawned]
  | shutdown => simp [step, St.spawned]
  | turn => rw [(step_turn_spawned caught H st).1]; exact List.prefix_refl _
  | step1 => rw [(step_step1_spawned caught H st).1]; exact List.prefix_refl _
  | raise k => simp [step, St.spawned]

theorem spawned_runFrom_prefix (caught : List RdErr) (H : Hooks σ) (h : List Ev) : ∀ st : St σ,
    st.spawned <+: (runFrom caught H st h).spawned := by
  induction h with
  | nil => intro st; exact List.prefix_refl _
  | cons e es ih => intro st; exact (spawned_step_prefix caught H st e).trans (ih _)

/-- what has been processed is never taken back, and is always a prefix of what was spawned -/
theorem processed_step_prefix (caught : List RdErr) (H : Hooks σ) (st : St σ) (ev : Ev) :
    st.processed <+: (step caught H st ev).processed := by
  cases ev with
  | feed c => simp only [step]; split <;> simp [(afterPass_face H st _).2.2.1]
  | close c => simp only [step]; split <;> simp [(afterPass_face H st _).2.2.1]
  | exc e => simp only [step]; split <;> simp
  | shutdown => simp [step]
  | turn => rw [(step_turn_spawned caught H st).2.2.2.2]; exact List.prefix_append _ _
  | step1 =>
    simp only [step]; split
    · exact List.prefix_refl _
    · next p q _ => simp [(runTask_face H st p).2.2.2.2]
  | raise k => simp [step]

/-! ### isolation: the task layer never looks at the outcome of a receive step -/

/-- the part of the state the task layer's control flow depends on -/
def core (st : St σ) : Face × Bool × List Pkt × List Pkt := (st.face, st.running, st.queue, st.processed)

theorem core_afterPass (H : Hooks σ) (st : St σ) (res : Face × List Pkt) :
    core (afterPass H st res) =
      (res.1, (if res.1.status = .running then st.running else false), st.queue ++ res.2, st.processed) := by
  obtain ⟨a, b, c, _, _⟩ := afterPass_face H st res
  simp only [core, a, b, c, afterPass_running]

theorem core_turn (caught : List RdErr) (H : Hooks σ) (st : St σ) :
    core (step caught H st .turn) = (st.face, st.running, [], st.processed ++ st.queue) := by
  obtain ⟨_, b, c, d, e⟩ := step_turn_spawned caught H st
  simp only [core, b, c, d, e, St.spawned]

theorem core_step1 (caught : List RdErr) (H : Hooks σ) (st : St σ) :
    core (step caught H st .step1) =
      (st.face, st.running, st.queue.tail, st.processed ++ st.queue.take 1) := by
  simp only [step]
  split
  next h => simp [core, h]
  next p q h =>
    obtain ⟨a, b, _, _, e⟩ := runTask_face H st p
    simp [core, h, a, b, e]

set_option linter.unusedSimpArgs false in
theorem core_step {τ : Type} (caught : List RdErr) (H : Hooks σ) (H' : Hooks τ) (st1 : St σ) (st2 : St τ)
    (hc : core st1 = core st2) (ev : Ev) : core (step caught H st1 ev) = core (step caught H' st2 ev) := by
  simp only [core, Prod.mk.injEq] at hc
  obtain ⟨h1, h2, h3, h4⟩ := hc
  cases ev with
  | feed c =>
    cases hs : st1.face.status with
    | running =>
      have hs' := hs; rw [h1] at hs'
      simp only [step, hs, hs', core_afterPass, h1, h2, h3, h4]
    | shutdown =>
      have hs' := hs; rw [h1] at hs'
      simp only [step, hs, hs', core, h1, h2, h3, h4]
    | crashed e =>
      have hs' := hs; rw [h1] at hs'
      simp only [step, hs, hs', core, h1, h2, h3, h4]
  | close c =>
    cases hs : st1.face.status with
    | running =>
      have hs' := hs; rw [h1] at hs'
      simp only [step, hs, hs', core_afterPass, h1, h2, h3, h4]
    | shutdown =>
      have hs' := hs; rw [h1] at hs'
      simp only [step, hs, hs', core, h1, h2, h3, h4]
    | crashed e =>
      have hs' := hs; rw [h1] at hs'
      simp only [step, hs, hs', core, h1, h2, h3, h4]
  | exc e =>
    cases hs : st1.face.status with
    | running =>
      have hs' := hs; rw [h1] at hs'
      simp only [step, hs, hs', core, h1, h2, h3, h4]
    | shutdown =>
      have hs' := hs; rw [h1] at hs'
      simp only [step, hs, hs', core, h1, h2, h3, h4]
    | crashed e' =>
      have hs' := hs; rw [h1] at hs'
      simp only [step, hs, hs', core, h1, h2, h3, h4]
  | shutdown => simp only [step, core, h1, h3, h4]
  | turn => rw [core_turn, core_turn, h1, h2, h3, h4]
  | step1 => rw [core_step1, core_step1, h1, h2, h3, h4]
  | raise k => simp only [step, core, h1, h2, h3, h4]

theorem core_raise (caught : List RdErr) (H : Hooks σ) (st : St σ) (k : Nat) :
    core (step caught H st (.raise k)) = core st := rfl

theorem core_runFrom {τ : Type} (caught : List RdErr) (H : Hooks σ) (H' : Hooks τ) (h : List Ev) :
    ∀ (st1 : St σ) (st2 : St τ), core st1 = core st2 →
    core (runFrom caught H st1 h) = core (runFrom caught H' st2 (h.filter (fun e => !e.isRaise))) := by
  induction h with
  | nil => intro st1 st2 hc; exact hc
  | cons e es ih =>
    intro st1 st2 hc
    cases hr : e.isRaise with
    | true =>
      cases e <;> simp [Ev.isRaise] at hr
      simp only [List.filter, Ev.isRaise, Bool.not_true, runFrom]
      exact ih _ _ (by rw [core_raise]; exact hc)
    | false =>
      simp only [List.filter, hr, Bool.not_false, runFrom]
      exact ih _ _ (core_step caught H H' st1 st2 hc e)

/-! ### composed facts used by the property theorems -/

theorem runFrom_ended (caught : List RdErr) (H : Hooks σ) (h : List Ev) : ∀ (st : St σ), st.face.status ≠ .running →
    (runFrom caught H st h).spawned = st.spawned ∧ (runFrom caught H st h).face.status = st.face.status := by
  induction h with
  | nil => intro st _; exact ⟨rfl, rfl⟩
  | cons e es ih =>
    intro st hne
    obtain ⟨a, b⟩ := step_ended caught H st hne e
    obtain ⟨a', b'⟩ := ih (step caught H st e) (by rw [b]; exact hne)
    exact ⟨a'.trans a, b'.trans b⟩

/-- after a history without end / error / shutdown: open, and everything complete has been spawned -/
theorem quiet_run (caught : List RdErr) (H : Hooks σ) (a : σ) (h : List Ev) (hq : h.all Ev.quiet = true) :
    Open (run caught H a h) ∧ Inv (run caught H a h) (fed h) ∧ (run caught H a h).spawned = (frames (fed h)).1 := by
  have hi := inv_run caught H a h
  have ho : Open (run caught H a h) := open_runFrom caught H h (inv_init caught a) (open_init caught a) hq
  exact ⟨ho, hi, (hi.sim ho.2).out⟩

/-- the end of the stream reaches an open connection together with the bytes `c` -/
theorem close_open (caught : List RdErr) (H : Hooks σ) {st : St σ} {s : Bytes} (hi : Inv st s) (ho : Open st)
    (c : Bytes) :
    (step caught H st (.close c)).face.status = handled caught .incompleteRead ∧
    (step caught H st (.close c)).spawned = (frames (s ++ c)).1 := by
  obtain ⟨hfl, hr⟩ := ho
  have hs := hi.sim hr
  obtain ⟨b1, b2, b3⟩ := apply_close_buf st.face.reader c
  have hp := pump_spec caught ((st.face.reader.apply (.feed c)).apply .feedEof) st.face.phase hs.cons
    (by rw [b3]; exact hs.exc)
  have hbio : st.face.phase.bio ++ ((st.face.reader.apply (.feed c)).apply .feedEof).buf = (frames s).2 ++ c := by
    rw [b1, ← List.append_assoc, hs.rem]
  rw [hbio] at hp
  obtain ⟨p1, _, p3⟩ := hp
  simp only [step, hr, readerPass, hfl, if_true]
  refine ⟨by rw [(afterPass_face H st _).1]; exact p3 b2, ?_⟩
  rw [afterPass_spawned, p1, frames_append s c]
  have ho' : st.spawned = (frames s).1 := hs.out
  rw [ho']

theorem turn_processed (caught : List RdErr) (H : Hooks σ) (st : St σ) :
    (step caught H st .turn).processed = st.spawned ∧ (step caught H st .turn).queue = [] :=
  ⟨(step_turn_spawned caught H st).2.2.2.2, (step_turn_spawned caught H st).2.2.2.1⟩

theorem processed_prefix_spawned (st : St σ) : st.processed <+: st.spawned := List.prefix_append _ _

/-! ### the application tables: each receive step applied exactly once, in order -/

/-- the effect of the receive steps of `ps` on the tables, one after the other -/
def recvAll (H : Hooks σ) (a : σ) (ps : List Pkt) : σ := ps.foldl (fun a p => (H.recv a p).1) a

theorem recvAll_append (H : Hooks σ) (a : σ) (ps qs : List Pkt) :
    recvAll H a (ps ++ qs) = recvAll H (recvAll H a ps) qs := by simp [recvAll, List.foldl_append]

theorem runTask_app (H : Hooks σ) (st : St σ) (p : Pkt) (hb : st.bad = []) :
    (runTask H st p).app = (H.recv st.app p).1 := by
  simp [runTask, hb]

theorem runTasks_app (H : Hooks σ) : ∀ (ps : List Pkt) (st : St σ), st.bad = [] →
    (runTasks H st ps).app = recvAll H st.app ps
  | [], st, _ => rfl
  | p :: ps, st, hb => by
    have hb' : (runTask H st p).bad = [] := by rw [(runTask_face H st p).2.2.2.1]; exact hb
    simp only [runTasks]
    rw [runTasks_app H ps _ hb', runTask_app H st p hb]
    rfl

/-- no `raise` mark so far, connection open: the tables are the receive steps of the packets delivered, applied in
    order to the initial tables -/
structure AppInv (H : Hooks σ) (a : σ) (st : St σ) : Prop where
  bad : st.bad = []
  app : st.app = recvAll H a st.processed

theorem afterPass_app_running (H : Hooks σ) (st : St σ) (res : Face × List Pkt) (h : res.1.status = .running) :
    (afterPass H st res).app = st.app := by simp [afterPass, h]

theorem afterPass_app_ended (H : Hooks σ) (st : St σ) (res : Face × List Pkt) (h : res.1.status ≠ .running) :
    (afterPass H st res).app = H.cleanup st.app := by simp [afterPass, h]

theorem appInv_step (caught : List RdErr) (H : Hooks σ) (a : σ) {st : St σ} {s : Bytes} (hi : Inv st s) (ho : Open st)
    (ha : AppInv H a st) (ev : Ev) (hq : ev.quiet = true) (hr : ev.isRaise = false) :
    AppInv H a (step caught H st ev) := by
  obtain ⟨hb, happ⟩ := ha
  cases ev with
  | feed c =>
    have ho' := open_step caught H hi ho (.feed c) hq
    have hs : st.face.status = .running := ho.2
    simp only [step, hs] at ho' ⊢
    obtain ⟨af, _, ap, ab, _⟩ := afterPass_face H st (readerPass caught st.running (st.face.reader.apply (.feed c)) st.face.phase)
    refine ⟨by rw [ab]; exact hb, ?_⟩
    rw [afterPass_app_running H st _ (by rw [← af]; exact ho'.2), ap]
    exact happ
  | close c => cases hq
  | exc e => cases hq
  | shutdown => cases hq
  | turn =>
    obtain ⟨_, _, _, hbad, hp⟩ := runTasks_face H st.queue st
    refine ⟨by simp only [step]; rw [hbad]; exact hb, ?_⟩
    simp only [step]
    rw [runTasks_app H st.queue st hb, hp, recvAll_append, happ]
  | step1 =>
    simp only [step]
    split
    · exact ⟨hb, happ⟩
    · next p q hq' =>
      obtain ⟨_, _, _, hbad, hp⟩ := runTask_face H st p
      refine ⟨by show (runTask H st p).bad = []; rw [hbad]; exact hb, ?_⟩
      show (runTask H st p).app = recvAll H a (runTask H st p).processed
      rw [runTask_app H st p hb, hp, recvAll_append, happ]
      rfl
  | raise k => cases hr

theorem appInv_runFrom (caught : List RdErr) (H : Hooks σ) (a : σ) (h : List Ev) : ∀ {st : St σ} {s : Bytes},
    Inv st s → Open st → AppInv H a st → h.all Ev.quiet = true → h.all (fun e => !e.isRaise) = true →
    AppInv H a (runFrom caught H st h) := by
  induction h with
  | nil => intro st s _ _ ha _ _; exact ha
  | cons e es ih =>
    intro st s hi ho ha hq hr
    simp only [List.all_cons, Bool.and_eq_true, Bool.not_eq_true'] at hq hr
    exact ih (inv_step caught H hi e) (open_step caught H hi ho e hq.1)
      (appInv_step caught H a hi ho ha e hq.1 hr.1) hq.2 (by simpa using hr.2)

theorem turn_app (caught : List RdErr) (H : Hooks σ) (st : St σ) (hb : st.bad = []) :
    (step caught H st .turn).app = recvAll H st.app st.queue := by
  simp only [step]; exact runTasks_app H _ _ hb

/-- the end of the stream reaches an open connection: `_clean_up` runs in that pass, the tasks queued then and the
    tasks created in that pass run afterwards -/
theorem close_turn_app (caught : List RdErr) (H : Hooks σ) {st : St σ} {s : Bytes} (hi : Inv st s) (ho : Open st)
    (hb : st.bad = []) (c : Bytes) :
    let fin := step caught H (step caught H st (.close c)) .turn
    fin.processed = (frames (s ++ c)).1 ∧
    fin.app = recvAll H (H.cleanup st.app) ((frames (s ++ c)).1.drop st.processed.length) := by
  obtain ⟨c1, c2⟩ := close_open caught H hi ho c
  have hne : (step caught H st (.close c)).face.status ≠ .running := by rw [c1]; exact handled_ne_running _ _
  intro fin
  obtain ⟨t1, _⟩ := turn_processed caught H (step caught H st (.close c))
  refine ⟨t1.trans c2, ?_⟩
  have hs : st.face.status = .running := ho.2
  have hstep : step caught H st (.close c) = afterPass H st
      (readerPass caught st.running ((st.face.reader.apply (.feed c)).apply .feedEof) st.face.phase) := by
    simp only [step, hs]
  obtain ⟨af, aq, ap, ab, _⟩ := afterPass_face H st
    (readerPass caught st.running ((st.face.reader.apply (.feed c)).apply .feedEof) st.face.phase)
  have happ := afterPass_app_ended H st
    (readerPass caught st.running ((st.face.reader.apply (.feed c)).apply .feedEof) st.face.phase)
    (by rw [← af, ← hstep]; exact hne)
  have hq : (step caught H st (.close c)).queue = (frames (s ++ c)).1.drop st.processed.length := by
    have : (step caught H st (.close c)).processed ++ (step caught H st (.close c)).queue = (frames (s ++ c)).1 := c2
    rw [← this, hstep, ap]; simp
  show (step caught H (step caught H st (.close c)) .turn).app = _
  rw [turn_app caught H _ (by rw [hstep, ab]; exact hb), hq, hstep, happ]

/-! ### no unhandled error when the black box never raises -/

theorem runTask_errors (H : Hooks σ) (hH : ∀ a p, (H.recv a p).2 = false) (st : St σ) (p : Pkt) (hb : st.bad = []) :
    (runTask H st p).errors = st.errors := by
  simp [runTask, hb, hH]

theorem runTasks_errors (H : Hooks σ) (hH : ∀ a p, (H.recv a p).2 = false) : ∀ (ps : List Pkt) (st : St σ),
    st.bad = [] → (runTasks H st ps).errors = st.errors
  | [], _, _ => rfl
  | p :: ps, st, hb => by
    simp only [runTasks]
    rw [runTasks_errors H hH ps _ (by rw [(runTask_face H st p).2.2.2.1]; exact hb), runTask_errors H hH st p hb]

theorem step_errors (caught : List RdErr) (H : Hooks σ) (hH : ∀ a p, (H.recv a p).2 = false) (st : St σ) (ev : Ev)
    (hr : ev.isRaise = false) (hb : st.bad = []) :
    (step caught H st ev).bad = [] ∧ (step caught H st ev).errors = st.errors := by
  cases ev with
  | feed c =>
    simp only [step]; split
    · obtain ⟨_, _, _, a, b⟩ := afterPass_face H st (readerPass caught st.running (st.face.reader.apply (.feed c)) st.face.phase)
      exact ⟨a.trans hb, b⟩
    · exact ⟨hb, rfl⟩
  | close c =>
    simp only [step]; split
    · obtain ⟨_, _, _, a, b⟩ := afterPass_face H st
        (readerPass caught st.running ((st.face.reader.apply (.feed c)).apply .feedEof) st.face.phase)
      exact ⟨a.trans hb, b⟩
    · exact ⟨hb, rfl⟩
  | exc e => simp only [step]; split <;> exact ⟨hb, rfl⟩
  | shutdown => exact ⟨hb, rfl⟩
  | turn =>
    simp only [step]
    exact ⟨(runTasks_face H st.queue st).2.2.2.1.trans hb, runTasks_errors H hH _ _ hb⟩
  | step1 =>
    simp only [step]; split
    · exact ⟨hb, rfl⟩
    · next p q _ => exact ⟨(runTask_face H st p).2.2.2.1.trans hb, runTask_errors H hH st p hb⟩
  | raise k => cases hr

theorem errors_runFrom (caught : List RdErr) (H : Hooks σ) (hH : ∀ a p, (H.recv a p).2 = false) (h : List Ev) :
    ∀ (st : St σ), h.all (fun e => !e.isRaise) = true → st.bad = [] →
    (runFrom caught H st h).errors = st.errors := by
  induction h with
  | nil => intro st _ _; rfl
  | cons e es ih =>
    intro st hr hb
    simp only [List.all_cons, Bool.and_eq_true, Bool.not_eq_true'] at hr
    obtain ⟨a, b⟩ := step_errors caught H hH st e hr.1 hb
    simp only [runFrom]
    rw [ih _ (by simpa using hr.2) a, b]

/-! ### a transport error; ended means not running -/

theorem exc_open (caught : List RdErr) (H : Hooks σ) {st : St σ} (ho : Open st) (e : RdErr) :
    (step caught H st (.exc e)).face.status = handled caught e ∧
    (step caught H st (.exc e)).spawned = st.spawned := by
  have hr : st.face.status = .running := ho.2
  simp [step, hr, St.spawned]

/-- `run()` has ended → `face.running` is False (`shutdown()` in the `except` clause, or `main_loop`'s `finally`) -/
def EndedStopped (st : St σ) : Prop := st.face.status ≠ .running → st.running = false

theorem endedStopped_step (caught : List RdErr) (H : Hooks σ) {st : St σ} (hp : EndedStopped st) (ev : Ev) :
    EndedStopped (step caught H st ev) := by
  intro hne
  have pass : ∀ res : Face × List Pkt, (afterPass H st res).face.status ≠ .running →
      (afterPass H st res).running = false := by
    intro res h
    rw [(afterPass_face H st res).1] at h
    rw [afterPass_running]; simp [h]
  cases ev with
  | feed c =>
    cases hs : st.face.status with
    | running => simp only [step, hs] at hne ⊢; exact pass _ hne
    | shutdown => simp only [step, hs] at hne ⊢; exact hp (by rw [hs]; simp)
    | crashed e => simp only [step, hs] at hne ⊢; exact hp (by rw [hs]; simp)
  | close c =>
    cases hs : st.face.status with
    | running => simp only [step, hs] at hne ⊢; exact pass _ hne
    | shutdown => simp only [step, hs] at hne ⊢; exact hp (by rw [hs]; simp)
    | crashed e => simp only [step, hs] at hne ⊢; exact hp (by rw [hs]; simp)
  | exc e =>
    cases hs : st.face.status with
    | running => simp only [step, hs]
    | shutdown => simp only [step, hs] at hne ⊢; exact hp (by rw [hs]; simp)
    | crashed e' => simp only [step, hs] at hne ⊢; exact hp (by rw [hs]; simp)
  | shutdown => rfl
  | turn =>
    obtain ⟨_, b, c, _⟩ := step_turn_spawned caught H st
    rw [b] at hne; rw [c]; exact hp hne
  | step1 =>
    obtain ⟨_, b, c⟩ := step_step1_spawned caught H st
    rw [b] at hne; rw [c]; exact hp hne
  | raise k => exact hp hne

theorem endedStopped_runFrom (caught : List RdErr) (H : Hooks σ) (h : List Ev) : ∀ {st : St σ},
    EndedStopped st → EndedStopped (runFrom caught H st h) := by
  induction h with
  | nil => intro st hp; exact hp
  | cons e es ih => intro st hp; exact ih (endedStopped_step caught H hp e)

/-! ### UDP -/
namespace Udp

theorem accepted_append (a b : List Bytes) : accepted (a ++ b) = accepted a ++ accepted b := by
  simp [accepted, List.filterMap_append]

theorem dgrams_append (a b : List Ev) : dgrams (a ++ b) = dgrams a ++ dgrams b := by
  induction a with
  | nil => rfl
  | cons e es ih => cases e <;> simp [dgrams, ih]

theorem step_spawned (caught : List PyErr) (H : Hooks σ) (u : USt σ) (ev : Ev) :
    (step caught H u ev).st.spawned = u.st.spawned ++ accepted (dgrams [ev]) := by
  cases ev with
  | dgram d =>
    simp only [step, Recv.datagramReceived, dgrams, accepted, List.filterMap_cons, List.filterMap_nil]
    cases h : parseTlNum d 0 with
    | ok p => obtain ⟨t, o⟩ := p; simp [St.spawned]
    | error e => by_cases hc : e ∈ caught <;> simp [hc]
  | lost => simp only [step]; split <;> simp [St.spawned, dgrams, accepted]
  | shutdown => simp [step, St.spawned, dgrams, accepted]
  | turn =>
    obtain ⟨_, _, _, _, e⟩ := runTasks_face H u.st.queue u.st
    simp [step, St.spawned, dgrams, accepted, e]
  | step1 =>
    simp only [step]; split
    · simp [dgrams, accepted]
    · next p q hq =>
      obtain ⟨_, _, _, _, e⟩ := runTask_face H u.st p
      simp [St.spawned, dgrams, accepted, e, hq]
  | raise k => simp [step, St.spawned, dgrams, accepted]

theorem runFrom_spawned (caught : List PyErr) (H : Hooks σ) (h : List Ev) : ∀ u : USt σ,
    (runFrom caught H u h).st.spawned = u.st.spawned ++ accepted (dgrams h) := by
  induction h with
  | nil => intro u; simp [runFrom, dgrams, accepted]
  | cons e es ih =>
    intro u
    simp only [runFrom]
    rw [ih, step_spawned]
    have : dgrams (e :: es) = dgrams [e] ++ dgrams es := dgrams_append [e] es
    rw [this, accepted_append, List.append_assoc]

theorem runFrom_append (caught : List PyErr) (H : Hooks σ) (u : USt σ) (h1 h2 : List Ev) :
    runFrom caught H u (h1 ++ h2) = runFrom caught H (runFrom caught H u h1) h2 := by
  induction h1 generalizing u with
  | nil => rfl
  | cons e es ih => simp only [List.cons_append, runFrom]; exact ih _

theorem turn_processed (caught : List PyErr) (H : Hooks σ) (u : USt σ) :
    (step caught H u .turn).st.processed = u.st.spawned ∧ (step caught H u .turn).st.queue = [] := by
  obtain ⟨_, _, _, _, e⟩ := runTasks_face H u.st.queue u.st
  simp [step, St.spawned, e]

theorem step_cbErrors (caught : List PyErr) (H : Hooks σ) (hc : ∀ d, ∃ r, Recv.datagramReceived caught d = .ok r)
    (u : USt σ) (ev : Ev) : (step caught H u ev).cbErrors = u.cbErrors := by
  cases ev with
  | dgram d =>
    obtain ⟨r, hr⟩ := hc d
    simp only [step, hr]
    cases r <;> rfl
  | lost => simp only [step]; split <;> rfl
  | shutdown => rfl
  | turn => rfl
  | step1 => simp only [step]; split <;> rfl
  | raise k => rfl

theorem runFrom_cbErrors (caught : List PyErr) (H : Hooks σ) (hc : ∀ d, ∃ r, Recv.datagramReceived caught d = .ok r)
    (h : List Ev) : ∀ u : USt σ, (runFrom caught H u h).cbErrors = u.cbErrors := by
  induction h with
  | nil => intro u; rfl
  | cons e es ih => intro u; simp only [runFrom]; rw [ih, step_cbErrors caught H hc]

/-- the part of the state the control flow depends on -/
def ucore (u : USt σ) : Status × Bool × List Pkt × List Pkt × List PyErr :=
  (u.st.face.status, u.st.running, u.st.queue, u.st.processed, u.cbErrors)

theorem ucore_step {τ : Type} (caught : List PyErr) (H : Hooks σ) (H' : Hooks τ) (u1 : USt σ) (u2 : USt τ)
    (hc : ucore u1 = ucore u2) (ev : Ev) : ucore (step caught H u1 ev) = ucore (step caught H' u2 ev) := by
  simp only [ucore, Prod.mk.injEq] at hc
  obtain ⟨h1, h2, h3, h4, h5⟩ := hc
  cases ev with
  | dgram d =>
    simp only [step]
    cases Recv.datagramReceived caught d with
    | ok r => cases r <;> simp [ucore, h1, h2, h3, h4, h5]
    | error e => simp [ucore, h1, h2, h3, h4, h5]
  | lost =>
    simp only [step, ← h1]
    cases u1.st.face.status <;> simp [ucore, h1, h2, h3, h4, h5]
  | shutdown => simp [step, ucore, h1, h3, h4, h5]
  | turn =>
    obtain ⟨a, b, _, _, e⟩ := runTasks_face H u1.st.queue u1.st
    obtain ⟨a', b', _, _, e'⟩ := runTasks_face H' u2.st.queue u2.st
    simp only [step, ucore, a, b, e, a', b', e']
    simp [h1, h2, h3, h4, h5]
  | step1 =>
    simp only [step, ← h3]
    cases hq : u1.st.queue with
    | nil => simp [ucore, h1, h2, h4, h5, ← h3, hq]
    | cons p q =>
      obtain ⟨a, b, _, _, e⟩ := runTask_face H u1.st p
      obtain ⟨a', b', _, _, e'⟩ := runTask_face H' u2.st p
      simp only [ucore, a, b, e, a', b', e']
      simp [h1, h2, h4, h5]
  | raise k => simp [step, ucore, h1, h2, h3, h4, h5]

theorem ucore_runFrom {τ : Type} (caught : List PyErr) (H : Hooks σ) (H' : Hooks τ) (h : List Ev) :
    ∀ (u1 : USt σ) (u2 : USt τ), ucore u1 = ucore u2 →
    ucore (runFrom caught H u1 h) = ucore (runFrom caught H' u2 (h.filter (fun e => !e.isRaise))) := by
  induction h with
  | nil => intro u1 u2 hc; exact hc
  | cons e es ih =>
    intro u1 u2 hc
    cases hr : e.isRaise with
    | true =>
      cases e <;> simp [Ev.isRaise] at hr
      simp only [List.filter, Ev.isRaise, Bool.not_true, runFrom]
      exact ih _ _ hc
    | false =>
      simp only [List.filter, hr, Bool.not_false, runFrom]
      exact ih _ _ (ucore_step caught H H' u1 u2 hc e)

end Udp

end Ndn.FaceTasks
