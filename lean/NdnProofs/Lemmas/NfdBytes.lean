import NdnProofs.Props.C02
import NdnProofs.Props.C07
import NdnProofs.Lemmas.NfdMgmt
import NdnModel.NfdBytes
/-! Lemmas for the byte-level half of C17: the command names and the command Interest of the forwarder
    management protocol, composed from the C08 round trip and the C01/C02 packet theorems. -/
namespace Ndn.NfdBytes
open Ndn Ndn.Codec Ndn.Packet Ndn.NfdMgmt

theorem wf_cp : wfTop cpFs = true := by decide
theorem wf_cr : wfTop crFs = true := by decide


theorem compValue_tlv (t : Nat) (b : Bytes) (ht : t < 2 ^ 64) (hb : b.length < 2 ^ 64) :
    compValue (tlv t b) = b := by
  obtain ⟨p1, p2, _, _, _⟩ := head_elem t b [] ht hb
  simp only [List.append_nil] at p1 p2
  unfold compValue
  simp only [p1, p2]
  show List.drop (tlNumSize t + tlNumSize b.length) (tlv t b) = b
  have : tlv t b = (writeTlNum t ++ writeTlNum b.length) ++ b := by simp [tlv]
  rw [this]
  exact List.drop_left' (by simp [writeTlNum_length])

theorem compOk_tlv (t : Nat) (b : Bytes) (ht : t < 2 ^ 64) (hb : b.length < 2 ^ 64) :
    compOk (tlv t b) = true := by
  obtain ⟨p1, p2, _, _, _⟩ := head_elem t b [] ht hb
  simp only [List.append_nil] at p1 p2
  unfold compOk
  simp only [p1, p2]
  simp [tlv_length]

theorem isDigestComp_tlv (t : Nat) (b : Bytes) (ht : t < 2 ^ 64) (hb : b.length < 2 ^ 64) (hne : t ≠ 2) :
    isDigestComp (tlv t b) = false := by
  obtain ⟨p1, _, _, _, _⟩ := head_elem t b [] ht hb
  simp only [List.append_nil] at p1
  unfold isDigestComp
  simp only [p1]
  simpa using hne

theorem commandName_ok {isLocal : Bool} {module command : Bytes} {cpv : List Value} {n : List Bytes}
    (h : commandName isLocal module command cpv = .ok n) :
    ∃ cp, encFields cpFs [.model cpv] = .ok cp ∧ cp.length < 2 ^ 64 ∧
      n = commandHead isLocal module command ++ [tlv 8 cp] := by
  unfold commandName at h
  obtain ⟨cp, hcp, h2⟩ := bind_ok h
  obtain ⟨c, hc, h3⟩ := bind_ok h2
  obtain ⟨rfl, _, hl⟩ := tlvE_ok hc
  simp only [pure, Except.pure, Except.ok.injEq] at h3
  exact ⟨cp, hcp, hl, h3.symm⟩

theorem decode_commandName {isLocal : Bool} {module command : Bytes} {cpv : List Value} {n : List Bytes}
    (hfit : fitsFs cpvFs cpv = true) (h : commandName isLocal module command cpv = .ok n) :
    decodeCommandParams n = .ok [.model cpv] := by
  obtain ⟨cp, hcp, hl, rfl⟩ := commandName_ok h
  have hf : fitsFs cpFs [.model cpv] = true := by
    simp [cpFs, fitsFs, fits, hfit]
  have := C08.parse_enc_roundtrip cpFs [.model cpv] cp false wf_cp hf hcp
  simp [decodeCommandParams, commandHead, compValue_tlv 8 cp (by decide) hl, this]



theorem enc_uint_ok (t v : Nat) (ht : t < 2 ^ 64) (hv : v < 2 ^ 64) :
    enc (.uint t none) (.uint v) = .ok (tlv t (beN (uintWidth none v) v)) ∧
    (beN (uintWidth none v) v).length ≤ 8 := by
  have hw := (C08.uint_smallest_width v hv).1
  have hl := uintWidth_legal (t := t) none v (by simp [wfS])
  have hlen := beN_length (uintWidth none v) v hl
  refine ⟨?_, by omega⟩
  simp only [enc]
  rw [if_neg (by omega)]
  unfold tlvE
  rw [if_pos ⟨ht, by omega⟩]

/-- the InterestSignatureInfo of a DigestSha256-signed Interest encodes, to at most 25 bytes -/
theorem digestSigInfo_encodes (time nonce : Nat) (ht : time < 2 ^ 64) (hn : nonce < 2 ^ 64) :
    ∃ siB, enc intSigInfoS (digestSigInfo time nonce) = .ok siB ∧ siB.length ≤ 25 := by
  obtain ⟨e1, l1⟩ := enc_uint_ok 38 nonce (by decide) hn
  obtain ⟨e2, l2⟩ := enc_uint_ok 40 time (by decide) ht
  have e0 : enc (.uint 27 (some 1)) (.uint 0) = .ok [27, 1, 0] := by rfl
  have hb : encFields sigInfoFields [.uint 0, .none, .uint nonce, .uint time, .none] =
      .ok ([27, 1, 0] ++ (tlv 38 (beN (uintWidth none nonce) nonce) ++ (tlv 40 (beN (uintWidth none time) time) ++ []))) := by
    have k1 : enc keyLocS .none = .ok [] := by rfl
    have k2 : enc (.uint 42 none) .none = .ok [] := by rfl
    simp only [sigInfoFields, encFields, e0, e1, e2, k1, k2, bind, Except.bind, pure, Except.pure, List.nil_append]
  have h38 : tlNumSize 38 = 1 := by decide
  have h40 : tlNumSize 40 = 1 := by decide
  have h44 : tlNumSize 44 = 1 := by decide
  have c1 := tlNumSize_cases (beN (uintWidth none nonce) nonce).length
  have c2 := tlNumSize_cases (beN (uintWidth none time) time).length
  have hlen : ([27, 1, 0] ++ (tlv 38 (beN (uintWidth none nonce) nonce) ++ (tlv 40 (beN (uintWidth none time) time) ++ []))).length ≤ 23 := by
    simp only [List.length_append, tlv_length, List.length_cons, List.length_nil, h38, h40]
    have : tlNumSize (beN (uintWidth none nonce) nonce).length = 1 := by unfold tlNumSize; rw [if_pos (by omega)]
    have : tlNumSize (beN (uintWidth none time) time).length = 1 := by unfold tlNumSize; rw [if_pos (by omega)]
    omega
  generalize ([27, 1, 0] ++ (tlv 38 (beN (uintWidth none nonce) nonce) ++ (tlv 40 (beN (uintWidth none time) time) ++ []))) = body at hb hlen
  refine ⟨tlv 44 body, ?_, ?_⟩
  · simp only [intSigInfoS, digestSigInfo, enc, hb, bind, Except.bind]
    unfold tlvE
    rw [if_pos ⟨by decide, by omega⟩]
  · rw [tlv_length, h44]
    have : tlNumSize body.length = 1 := by unfold tlNumSize; rw [if_pos (by omega)]
    omega

theorem concatB_snoc (l : List Bytes) (x : Bytes) : (concatB (l ++ [x])).length = (concatB l).length + x.length := by
  rw [C02.concatB_append]; simp [concatB]

/-- the v2 command Interest for any name of plain components: made, parsed back, digest and signature check -/
theorem commandInterestV2_checks (H : Bytes → Bytes) (hH : ∀ x, (H x).length = 32)
    (name : List Bytes) (mid : List Value) (midB : Bytes) (time nonce : Nat)
    (hname : name.all compOk = true) (hnd : ∀ c ∈ name, isDigestComp c = false)
    (hmid : encFields midFs mid = .ok midB) (hfitmid : fitsFs midFs mid = true)
    (ht : time < 2 ^ 64) (hn : nonce < 2 ^ 64)
    (hsize : (concatB name).length + midB.length < 2 ^ 63) :
    ∃ m vals ptrs, commandInterestV2 H name mid time nonce = .ok m ∧
      parseInterest m.wire = .ok (vals, ptrs) ∧
      m.finalName = name ++ [2 :: 32 :: H m.digestCovered] ∧
      vals = List.replicate 7 (Value.uint 0) ++ (Value.name m.finalName :: mid) ++
             List.replicate 2 (Value.uint (tlv 7 (concatB m.finalName) ++ midB).length) ++
             [.bytes [], digestSigInfo time nonce, .bytes (H (concatB m.covered)), .none] ∧
      paramsCheck H ptrs = true ∧
      concatB ptrs.sigCovered = concatB m.covered ∧
      ptrs.sigValue = some (H (concatB ptrs.sigCovered)) ∧
      verifyPtrs (digestScheme H) ptrs = true := by
  obtain ⟨siB, hsi, hsil⟩ := digestSigInfo_encodes time nonce ht hn
  have happ : enc (.bytes 36 false) (.bytes []) = .ok emptyAppB := by rfl
  have hfittail : fitsFs [.bytes 36 false, intSigInfoS] [.bytes [], digestSigInfo time nonce] = true := by rfl
  let s : SignerOut := { reserved := 32, sig := H (concatB name ++ emptyAppB ++ siB) }
  have hsl : s.sig.length = 32 := hH _
  have hsr : s.reserved = 32 := rfl
  have hle : s.sig.length ≤ s.reserved := by rw [hsl, hsr]; exact Nat.le_refl _
  have hflex : s.sig.length = s.reserved ∨ s.reserved < 253 := Or.inl (hsl.trans hsr.symm)
  have hr : s.reserved < 2 ^ 64 := by rw [hsr]; decide
  have hsz : (concatB (name ++ [2 :: 32 :: H (emptyAppB ++ siB ++ tlv 46 s.sig)])).length + midB.length +
        (emptyAppB ++ siB).length + s.reserved + 64 < 2 ^ 64 := by
    rw [concatB_snoc]
    simp only [List.length_cons, hH, List.length_append, emptyAppB, List.length_nil]
    rw [hsr]
    omega
  obtain ⟨m, vals, ptrs, h1, h2, h3, h4, h5, h6, h7, h8⟩ :=
    C02.parsed_cover_is_signed_portion_interest H name mid (.bytes []) (digestSigInfo time nonce) s midB emptyAppB siB
      hmid happ hsi hle hflex hr hname hnd hfitmid hfittail (hH _) hsz
  have htail : encFields [.bytes 36 false, intSigInfoS] [.bytes [], digestSigInfo time nonce] = .ok (emptyAppB ++ siB) := by
    simp [encFields, happ, hsi, bind, Except.bind, pure, Except.pure]
  obtain ⟨m', g1, g2, g3⟩ := C01.parse_make_interest H name mid (.bytes []) (digestSigInfo time nonce) s midB
    (emptyAppB ++ siB) hmid htail hle hflex hr hname hnd hfitmid hfittail
    _ _ rfl (hH _) rfl hsz
  have hmm : m' = m := Except.ok.inj (g1.symm.trans h1)
  subst hmm
  have hcore : commandInterestV2 H name mid time nonce = .ok m' := by
    unfold commandInterestV2
    simp only [hsi, bind, Except.bind]
    exact h1
  have hdc : m'.digestCovered = emptyAppB ++ siB ++ tlv 46 s.sig := by
    have := h7.symm.trans h6
    simpa using this
  have hcov : concatB m'.covered = concatB name ++ emptyAppB ++ siB := h4.symm.trans h3
  rw [h2] at g3
  simp only [Except.map, Except.ok.injEq] at g3
  refine ⟨m', vals, ptrs, hcore, h2, ?_, ?_, ?_, h4, ?_, ?_⟩
  · rw [g2, hdc]
  · rw [g3, g2, hcov]; simp [s]
  · rw [C02.params_digest_iff]
    refine ⟨_, h8, ?_, by rw [h6]; simp, by rw [h6]; simp [concatB]⟩
    intro e; have := hH (emptyAppB ++ siB ++ tlv 46 s.sig); rw [e] at this; simp at this
  · rw [h5, h3]
  · exact C02.verify_own (digestScheme H) (fun x => by simp [digestScheme]) ptrs _ h3 (by rw [h5]; rfl)

theorem commandName_comps {isLocal : Bool} {module command : Bytes} {cpv : List Value} {n : List Bytes}
    (h : commandName isLocal module command cpv = .ok n)
    (hm : module.length < 2 ^ 64) (hc : command.length < 2 ^ 64) :
    n.all compOk = true ∧ ∀ c ∈ n, isDigestComp c = false := by
  obtain ⟨cp, _, hl, rfl⟩ := commandName_ok h
  have h8 : (8 : Nat) < 2 ^ 64 := by decide
  have hh : (if isLocal then localhostB else localhopB).length < 2 ^ 64 := by
    cases isLocal <;> decide
  have hn : nfdB.length < 2 ^ 64 := by decide
  constructor
  · simp [commandHead, compOk_tlv 8 _ h8 hh, compOk_tlv 8 _ h8 hn, compOk_tlv 8 _ h8 hm, compOk_tlv 8 _ h8 hc,
      compOk_tlv 8 _ h8 hl]
  · intro c hcm
    simp only [commandHead, List.cons_append, List.nil_append, List.mem_cons, List.not_mem_nil, or_false] at hcm
    rcases hcm with rfl | rfl | rfl | rfl | rfl <;> exact isDigestComp_tlv 8 _ h8 (by assumption) (by decide)

/-! ### parse_response -/

theorem lookupField_bodyFields_notin : ∀ (ks : List String) (vs : List Value) (k : String), k ∉ ks →
    lookupField (bodyFields ks vs) k = none
  | [], _, _, _ => by simp [bodyFields, lookupField]
  | _ :: _, [], _, _ => by simp [bodyFields, lookupField]
  | k' :: ks, v :: vs, k, hk => by
    have hne : k' ≠ k := fun e => hk (by simp [e])
    have hr : k ∉ ks := fun e => hk (by simp [e])
    have ih := lookupField_bodyFields_notin ks vs k hr
    unfold bodyFields
    cases hf : fvalOf v with
    | none => simpa using ih
    | some f =>
      simp only [lookupField, List.find?] at ih ⊢
      have : (k' == k) = false := by simpa using hne
      simp only [this]
      exact ih

theorem lookupField_bodyFields : ∀ (ks : List String) (vs : List Value), ks.Nodup → ks.length = vs.length →
    ∀ (i : Nat) (k : String), ks[i]? = some k → lookupField (bodyFields ks vs) k = fvalOf (vs.getD i .none)
  | [], _, _, _, i, k, h => by simp at h
  | _ :: _, [], _, hl, _, _, _ => by simp at hl
  | k' :: ks, v :: vs, hnd, hl, i, k, h => by
    have hnd' := List.nodup_cons.mp hnd
    unfold bodyFields
    cases i with
    | zero =>
      simp only [List.getElem?_cons_zero, Option.some.injEq] at h
      subst h
      cases hf : fvalOf v with
      | none =>
        simp only [List.getD_cons_zero, hf]
        exact lookupField_bodyFields_notin ks vs k' hnd'.1
      | some f => simp [lookupField, hf]
    | succ j =>
      simp only [List.getElem?_cons_succ] at h
      have hmem : k ∈ ks := List.mem_of_getElem? h
      have hne : (k' == k) = false := by
        have : k' ≠ k := fun e => hnd'.1 (e ▸ hmem)
        simpa using this
      have ih := lookupField_bodyFields ks vs hnd'.2 (by simpa using hl) j k h
      simp only [List.getD_cons_succ]
      cases hf : fvalOf v with
      | none => simpa using ih
      | some f =>
        simp only [lookupField, List.find?, hne] at ih ⊢
        exact ih

theorem cpvFields_nodup : cpvFields.Nodup := by decide
theorem recOfValues_crValues (c : Option Nat) (t : Option Bytes) (b : Option (List Value)) :
    recOfValues (crValues c t b) = ⟨c, t, b.map (bodyFields cpvFields)⟩ := by
  cases c <;> cases t <;> cases b <;> rfl

/-- decoding the encoded response gives back the encoded ControlResponse value -/
theorem parseResponse_encode (code : Option Nat) (text : Option Bytes) (body : Option (List Value)) (w : Bytes)
    (hfit : fitsFs crFs (crValues code text body) = true) (henc : encodeResponse code text body = .ok w) (bf : Bool) :
    (∃ v, parseAndCheckTl w 0x65 = .ok v ∧ parse crFs false v = .ok (crValues code text body)) ∧
    parseResponse bf w = parseResponseRec bf ⟨code, text, body.map (bodyFields cpvFields)⟩ := by
  unfold encodeResponse at henc
  obtain ⟨b, hb, h2⟩ := bind_ok henc
  obtain ⟨rfl, _, hl⟩ := tlvE_ok h2
  have hp := parseAndCheckTl_tlv 0x65 b (by decide) hl
  have hr := C08.parse_enc_roundtrip crFs _ b false wf_cr hfit hb
  refine ⟨⟨b, hp, hr⟩, ?_⟩
  unfold parseResponse
  simp only [hp, hr, bind, Except.bind, recOfValues_crValues]

/-! ### the legacy command name -/

/-- the encoded `SignatureInfo` of the legacy command: SignatureType 0 only -/
theorem legacySigInfo_enc : encFields sigInfoFields legacySigInfo = .ok [27, 1, 0] := by rfl

def legacyTail (ts nonce : Nat) : List Bytes := [tlv 8 (be8 ts), tlv 8 (be8 nonce), tlv 8 [22, 3, 27, 1, 0]]

theorem legacyCommandName_ok {H : Bytes → Bytes} {isLocal : Bool} {module command : Bytes} {cpv : List Value}
    {ts nonce : Nat} {n : List Bytes}
    (h : legacyCommandName H isLocal module command cpv ts nonce = .ok n) :
    ∃ n5, commandName isLocal module command cpv = .ok n5 ∧ ts < 2 ^ 64 ∧ nonce < 2 ^ 64 ∧
      n = n5 ++ legacyTail ts nonce ++ [tlv 8 ([23, 32] ++ H (concatB (n5 ++ legacyTail ts nonce)))] := by
  unfold legacyCommandName at h
  obtain ⟨n5, h5, h2⟩ := bind_ok h
  refine ⟨n5, h5, ?_⟩
  split at h2
  · cases h2
  · rename_i hc
    simp only [legacySigInfo_enc, bind, Except.bind] at h2
    rw [if_neg (by decide)] at h2
    simp only [pure, Except.pure, Except.ok.injEq] at h2
    refine ⟨by omega, by omega, ?_⟩
    rw [← h2]
    simp [legacyTail]

theorem be8_length (v : Nat) : (be8 v).length = 8 := rfl

/-! ### the composed model: the wire of every command, and what a reply wire is taken for -/

theorem encFields_noKw : encFields cpvFs.tail noKw = .ok [] := by rfl

theorem enc_cpv_name (pfx : List Bytes) (h : (concatB pfx).length < 2 ^ 64) :
    encFields cpvFs (cpvOf pfx noKw) = .ok (tlv 7 (concatB pfx)) := by
  have h1 : enc (.name 7) (.name pfx) = .ok (tlv 7 (concatB pfx)) := by
    simp only [enc]; unfold tlvE; rw [if_pos ⟨by decide, h⟩]
  have h2 : encFields cpvFs.tail noKw = .ok [] := encFields_noKw
  show encFields (Schema.name 7 :: cpvFs.tail) (Value.name pfx :: noKw) = _
  simp only [encFields, h1, h2, bind, Except.bind, pure, Except.pure, List.append_nil]

theorem ribCommandName_eq (isLocal : Bool) (v : Verb) (pfx : List Bytes) (h : (concatB pfx).length + 64 < 2 ^ 64) :
    ribCommandName isLocal v pfx noKw =
      .ok (commandHead isLocal ribB (verbB v) ++ [tlv 8 (tlv 104 (tlv 7 (concatB pfx)))]) := by
  have h7 : tlNumSize 7 = 1 := by decide
  have h104 : tlNumSize 104 = 1 := by decide
  have c1 := tlNumSize_cases (concatB pfx).length
  have l1 : (tlv 7 (concatB pfx)).length < 2 ^ 64 := by rw [tlv_length, h7]; omega
  have c2 := tlNumSize_cases (tlv 7 (concatB pfx)).length
  have l2 : (tlv 104 (tlv 7 (concatB pfx))).length < 2 ^ 64 := by
    rw [tlv_length, h104, tlv_length, h7]; rw [tlv_length, h7] at c2; omega
  have e1 := enc_cpv_name pfx (by omega)
  have e2 : encFields cpFs [.model (cpvOf pfx noKw)] = .ok (tlv 104 (tlv 7 (concatB pfx))) := by
    simp only [cpFs, encFields, enc, e1, bind, Except.bind, pure, Except.pure, List.append_nil]
    unfold tlvE; rw [if_pos ⟨by decide, l1⟩]
  unfold ribCommandName commandName
  simp only [e2, bind, Except.bind, genericComp, pure, Except.pure]
  unfold tlvE; rw [if_pos ⟨by decide, l2⟩]

theorem cmdMid_enc (n32 : Nat) (h : n32 < 2 ^ 32) :
    encFields midFs (cmdMid n32) = .ok (tlv 10 (be4 n32) ++ [12, 2, 3, 232]) ∧
    fitsFs midFs (cmdMid n32) = true := by
  constructor
  · have e1 : enc (.uint 10 (some 4)) (.uint n32) = .ok (tlv 10 (be4 n32)) := by
      simp only [enc]
      have hw : uintWidth (some 4) n32 = 4 := rfl
      split
      · rename_i hc; rw [hw] at hc; omega
      · rw [hw]
        unfold tlvE
        rw [if_pos ⟨by decide, by simp [beN, be4]⟩]
        simp [beN]
    have e2 : enc (.uint 12 none) (.uint 1000) = .ok [12, 2, 3, 232] := by rfl
    have k1 : enc (.bool 33) .none = .ok [] := by rfl
    have k2 : enc (.bool 18) .none = .ok [] := by rfl
    have k3 : enc linksS .none = .ok [] := by rfl
    have k4 : enc (.uint 34 (some 1)) .none = .ok [] := by rfl
    simp only [midFs, cmdMid, encFields, e1, e2, k1, k2, k3, k4, bind, Except.bind, pure, Except.pure,
      List.nil_append, List.append_nil]
  · rfl

theorem cmdMid_len (n32 : Nat) : (tlv 10 (be4 n32) ++ [12, 2, 3, 232]).length = 10 := by
  rw [List.length_append, tlv_length]
  simp [be4]; decide

/-- size of the command name in terms of the prefix -/
theorem cmdName_size (isLocal : Bool) (v : Verb) (pfx : List Bytes) :
    (concatB (commandHead isLocal ribB (verbB v) ++ [tlv 8 (tlv 104 (tlv 7 (concatB pfx)))])).length
      ≤ (concatB pfx).length + 80 := by
  have c1 := tlNumSize_cases (concatB pfx).length
  have c2 := tlNumSize_cases (tlv 7 (concatB pfx)).length
  have c3 := tlNumSize_cases (tlv 104 (tlv 7 (concatB pfx))).length
  have h7 : tlNumSize 7 = 1 := by decide
  have h8 : tlNumSize 8 = 1 := by decide
  have h104 : tlNumSize 104 = 1 := by decide
  rw [C02.concatB_append]
  have hh : (concatB (commandHead isLocal ribB (verbB v))).length ≤ 33 := by
    cases isLocal <;> cases v <;> decide
  simp only [List.length_append, concatB, List.length_nil, Nat.add_zero, tlv_length, h7, h8, h104] at *
  omega

/-- the inputs of a run are what the library produces: a 32-byte hash, prefixes made of well-formed components
    (and of a size a machine can hold), a 32-bit Nonce and a 64-bit SignatureNonce per command -/
structure Good (w : Wire) : Prop where
  hH : ∀ x, (w.H x).length = 32
  pfxOk : ∀ p, (w.pfxName p).all compOk = true
  pfxSize : ∀ p, (concatB (w.pfxName p)).length < 2 ^ 62
  n32 : ∀ k, w.nonce32 k < 2 ^ 32
  n64 : ∀ k, w.nonce64 k < 2 ^ 64

/-- the name `make_command_v2('rib', verb, face, name=prefix)` returns -/
def ribName (isLocal : Bool) (v : Verb) (pfx : List Bytes) : List Bytes :=
  commandHead isLocal ribB (verbB v) ++ [tlv 8 (tlv 104 (tlv 7 (concatB pfx)))]

theorem fits_cpv_name (pfx : List Bytes) (h : pfx.all compOk = true) : fitsFs cpvFs (cpvOf pfx noKw) = true := by
  have h2 : fitsFs cpvFs.tail noKw = true := by rfl
  show fitsFs (Schema.name 7 :: cpvFs.tail) (Value.name pfx :: noKw) = true
  simp only [fitsFs, fits, h, h2, Bool.and_self]

theorem cmdWire_v2 (w : Wire) (g : Good w) (k : Nat) (v : Verb) (p ts : Nat) (hts : ts < 2 ^ 64) :
    ∃ wire vals ptrs d, cmdWire w .v2 k v p ts = .ok wire ∧ parseInterest wire = .ok (vals, ptrs) ∧
      vals[7]? = some (.name (ribName w.isLocal v (w.pfxName p) ++ [2 :: 32 :: d])) ∧
      (vals.drop 8).take 6 = cmdMid (w.nonce32 k) ∧
      vals[16]? = some (.bytes []) ∧
      vals[17]? = some (digestSigInfo ts (w.nonce64 k)) ∧
      paramsCheck w.H ptrs = true ∧
      ptrs.sigValue = some (w.H (concatB ptrs.sigCovered)) ∧
      verifyPtrs (digestScheme w.H) ptrs = true := by
  have hsz := g.pfxSize p
  have hn := ribCommandName_eq w.isLocal v (w.pfxName p) (by omega)
  have hn' : commandName w.isLocal ribB (verbB v) (cpvOf (w.pfxName p) noKw) = .ok (ribName w.isLocal v (w.pfxName p)) := hn
  obtain ⟨hname, hnd⟩ := commandName_comps hn' (by decide) (by cases v <;> decide)
  obtain ⟨hmid, hfit⟩ := cmdMid_enc (w.nonce32 k) (g.n32 k)
  have hsize : (concatB (ribName w.isLocal v (w.pfxName p))).length +
      (tlv 10 (be4 (w.nonce32 k)) ++ [12, 2, 3, 232]).length < 2 ^ 63 := by
    have := cmdName_size w.isLocal v (w.pfxName p)
    rw [cmdMid_len]; unfold ribName; omega
  obtain ⟨m, vals, ptrs, h1, h2, h3, h4, h5, h6, h7, h8⟩ :=
    commandInterestV2_checks w.H g.hH _ (cmdMid (w.nonce32 k)) _ ts (w.nonce64 k) hname hnd hmid hfit hts (g.n64 k) hsize
  refine ⟨m.wire, vals, ptrs, w.H m.digestCovered, ?_, h2, ?_, ?_, ?_, ?_, h5, h7, h8⟩
  · have h1' : commandInterestV2 w.H (commandHead w.isLocal ribB (verbB v) ++
        [tlv 8 (tlv 104 (tlv 7 (concatB (w.pfxName p))))]) (cmdMid (w.nonce32 k)) ts (w.nonce64 k) = .ok m := h1
    simp only [cmdWire, hn, h1', bind, Except.bind, pure, Except.pure]
  · rw [h4, h3]; rfl
  · rw [h4]; rfl
  · rw [h4]; rfl
  · rw [h4]; rfl

/-- the name the legacy `make_command('rib', verb, face, name=prefix)` returns -/
def legacyName (H : Bytes → Bytes) (isLocal : Bool) (v : Verb) (pfx : List Bytes) (ts nonce : Nat) : List Bytes :=
  ribName isLocal v pfx ++ legacyTail ts nonce ++
    [tlv 8 ([23, 32] ++ H (concatB (ribName isLocal v pfx ++ legacyTail ts nonce)))]

theorem legacyCommandName_eq (H : Bytes → Bytes) (isLocal : Bool) (v : Verb) (pfx : List Bytes) (ts nonce : Nat)
    (h : (concatB pfx).length + 64 < 2 ^ 64) (hts : ts < 2 ^ 64) (hn : nonce < 2 ^ 64) :
    legacyCommandName H isLocal ribB (verbB v) (cpvOf pfx noKw) ts nonce = .ok (legacyName H isLocal v pfx ts nonce) := by
  have hn' : commandName isLocal ribB (verbB v) (cpvOf pfx noKw) = .ok (ribName isLocal v pfx) :=
    ribCommandName_eq isLocal v pfx h
  unfold legacyCommandName
  simp only [hn', bind, Except.bind]
  rw [if_neg (by omega)]
  simp only [legacySigInfo_enc]
  rw [if_neg (by decide)]
  simp [legacyName, legacyTail, pure, Except.pure]

theorem legacyName_comps (H : Bytes → Bytes) (hH : ∀ x, (H x).length = 32) (isLocal : Bool) (v : Verb)
    (pfx : List Bytes) (ts nonce : Nat) (h : (concatB pfx).length + 64 < 2 ^ 64) :
    (legacyName H isLocal v pfx ts nonce).all compOk = true ∧
    ∀ c ∈ legacyName H isLocal v pfx ts nonce, isDigestComp c = false := by
  have hn' : commandName isLocal ribB (verbB v) (cpvOf pfx noKw) = .ok (ribName isLocal v pfx) :=
    ribCommandName_eq isLocal v pfx h
  obtain ⟨h1, h2⟩ := commandName_comps hn' (by decide) (by cases v <;> decide)
  have h8 : (8 : Nat) < 2 ^ 64 := by decide
  have hb : ∀ x, (be8 x).length < 2 ^ 64 := fun x => by rw [be8_length]; decide
  have hs : ([22, 3, 27, 1, 0] : Bytes).length < 2 ^ 64 := by decide
  have hv : ∀ x : Bytes, ([23, 32] ++ H x).length < 2 ^ 64 := fun x => by simp [hH]
  constructor
  · simp only [legacyName, legacyTail, List.all_append, h1, List.all_cons, List.all_nil,
      compOk_tlv 8 _ h8 (hb ts), compOk_tlv 8 _ h8 (hb nonce), compOk_tlv 8 _ h8 hs, compOk_tlv 8 _ h8 (hv _),
      Bool.and_self]
  · intro c hc
    simp only [legacyName, legacyTail, List.mem_append, List.mem_cons, List.not_mem_nil, or_false] at hc
    rcases hc with (hc | hc | hc | hc) | hc
    · exact h2 c hc
    · subst hc; exact isDigestComp_tlv 8 _ h8 (hb ts) (by decide)
    · subst hc; exact isDigestComp_tlv 8 _ h8 (hb nonce) (by decide)
    · subst hc; exact isDigestComp_tlv 8 _ h8 hs (by decide)
    · subst hc; exact isDigestComp_tlv 8 _ h8 (hv _) (by decide)

theorem legacyName_size (H : Bytes → Bytes) (hH : ∀ x, (H x).length = 32) (isLocal : Bool) (v : Verb)
    (pfx : List Bytes) (ts nonce : Nat) :
    (concatB (legacyName H isLocal v pfx ts nonce)).length ≤ (concatB pfx).length + 160 := by
  have := cmdName_size isLocal v pfx
  have h8 : tlNumSize 8 = 1 := by decide
  unfold legacyName legacyTail
  rw [C02.concatB_append, C02.concatB_append]
  simp only [List.length_append, concatB, List.length_nil, Nat.add_zero, tlv_length, h8, be8_length, List.length_cons, hH]
  have e8 : tlNumSize 8 = 1 := by decide
  have e5 : tlNumSize 5 = 1 := by decide
  have e34 : tlNumSize 34 = 1 := by decide
  unfold ribName at *
  simp only [e8, e5, e34] at *
  omega

theorem cmdWire_legacy (w : Wire) (g : Good w) (k : Nat) (v : Verb) (p ts : Nat) (hts : ts < 2 ^ 64) :
    ∃ wire ptrs, cmdWire w .legacy k v p ts = .ok wire ∧
      parseInterest wire = .ok (List.replicate 7 (Value.uint 0) ++
        (Value.name (legacyName w.H w.isLocal v (w.pfxName p) ts (w.nonce64 k)) :: cmdMid (w.nonce32 k)) ++
        List.replicate 6 Value.none, ptrs) := by
  have hsz := g.pfxSize p
  have hn := legacyCommandName_eq w.H w.isLocal v (w.pfxName p) ts (w.nonce64 k) (by omega) hts (g.n64 k)
  obtain ⟨hname, hnd⟩ := legacyName_comps w.H g.hH w.isLocal v (w.pfxName p) ts (w.nonce64 k) (by omega)
  obtain ⟨hmid, hfit⟩ := cmdMid_enc (w.nonce32 k) (g.n32 k)
  have hl := legacyName_size w.H g.hH w.isLocal v (w.pfxName p) ts (w.nonce64 k)
  obtain ⟨m, h1, _, h3⟩ := C01.parse_make_interest_plain w.H _ (cmdMid (w.nonce32 k)) _ hmid hname hnd hfit
    (by rw [cmdMid_len]; omega)
  cases hp : parseInterest m.wire with
  | error e => rw [hp] at h3; cases h3
  | ok r =>
    obtain ⟨vals, ptrs⟩ := r
    rw [hp] at h3
    simp only [Except.map, Except.ok.injEq] at h3
    refine ⟨m.wire, ptrs, ?_, ?_⟩
    · simp only [cmdWire, hn, h1, bind, Except.bind, pure, Except.pure]
    · rw [hp, ← h3]

/-- reading the timestamp back from a v2 command -/
theorem wireTs_v2 (wire : Bytes) (vals : List Value) (ptrs : Ptrs) (ts nonce : Nat)
    (h : parseInterest wire = .ok (vals, ptrs)) (h17 : vals[17]? = some (digestSigInfo ts nonce)) :
    wireTs .v2 wire = some ts := by
  simp only [wireTs, h, h17, digestSigInfo]

theorem legacyName_5 (H : Bytes → Bytes) (isLocal : Bool) (v : Verb) (pfx : List Bytes) (ts nonce : Nat) :
    (legacyName H isLocal v pfx ts nonce)[5]? = some (tlv 8 (be8 ts)) := by
  simp [legacyName, ribName, commandHead, legacyTail]

theorem wireTs_legacy (wire : Bytes) (ptrs : Ptrs) (H : Bytes → Bytes) (isLocal : Bool) (v : Verb)
    (pfx : List Bytes) (ts nonce : Nat) (mid : List Value) (hts : ts < 2 ^ 64)
    (h : parseInterest wire = .ok (List.replicate 7 (Value.uint 0) ++
        (Value.name (legacyName H isLocal v pfx ts nonce) :: mid) ++ List.replicate 6 Value.none, ptrs)) :
    wireTs .legacy wire = some ts := by
  have h7 : (List.replicate 7 (Value.uint 0) ++ (Value.name (legacyName H isLocal v pfx ts nonce) :: mid) ++
      List.replicate 6 Value.none)[7]? = some (Value.name (legacyName H isLocal v pfx ts nonce)) := by
    simp
  simp only [wireTs, h, h7, legacyName_5, Option.map_some]
  rw [compValue_tlv 8 _ (by decide) (by rw [be8_length]; decide), beVal_be8 ts (by simpa using hts)]

theorem parseResponse_eq (bf : Bool) (c : Bytes) : parseResponse bf c = contentRec c >>= parseResponseRec bf := by
  unfold parseResponse contentRec
  cases parseAndCheckTl c 0x65 with
  | error e => rfl
  | ok v =>
    simp only [bind, Except.bind]
    cases parse crFs false v <;> rfl

theorem pFs_cr : pFs crFs = true := by decide

/-- whatever the Content bytes are, decoding them as a ControlResponse gives a record or one of the documented
    decoding errors (IndexError, struct.error, ValueError, DecodeError, TypeError) -/
theorem contentRec_doc (c : Bytes) : Doc (contentRec c) := by
  unfold contentRec
  apply Doc.bind (C07.parseAndCheckTl_doc _ _); intro v _
  apply Doc.bind (C07.parse_total crFs false v pFs_cr); intro vs _
  exact Doc.ok _

/-- the Data packet a forwarder answers with: Name, no MetaInfo, the Content, SignatureInfo DigestSha256 and the
    signature value `H` of these fields -/
def forwarderData (H : Bytes → Bytes) (name : List Bytes) (content : Bytes) : Except PyErr Bytes := do
  let p ← encFields [nameS, metaS, contentS, dataSigInfoS] [.name name, .none, .bytes content, .model legacySigInfo]
  let m ← makeData name .none (.bytes content) (.model legacySigInfo) (some { reserved := 32, sig := H p })
  pure m.wire

theorem replyOfData_forwarder (H : Bytes → Bytes) (hH : ∀ x, (H x).length = 32) (name : List Bytes) (content p : Bytes)
    (hname : name.all compOk = true)
    (hp : encFields [nameS, metaS, contentS, dataSigInfoS] [.name name, .none, .bytes content, .model legacySigInfo] = .ok p)
    (hsz : p.length < 2 ^ 63) :
    forwarderData H name content = .ok (tlv 6 (p ++ tlv 23 (H p))) ∧
    replyOfData H (tlv 6 (p ++ tlv 23 (H p))) = some (match contentRec content with
      | .ok r => .response r.statusCode r.body.isSome true
      | .error _ => .undecodable true) := by
  have hw := C01.make_data_wire name .none (.bytes content) (.model legacySigInfo) { reserved := 32, sig := H p } p hp
    (by simp [hH]) (Or.inl (by simp [hH])) (by simp only []; omega)
  have h23 : tlNumSize 23 = 1 := by decide
  have h32 : tlNumSize 32 = 1 := by decide
  have hfit : fitsFs [nameS, metaS, contentS, dataSigInfoS] [.name name, .none, .bytes content, .model legacySigInfo] = true := by
    have : fitsFs sigInfoFields legacySigInfo = true := by rfl
    simp [fitsFs, fits, nameS, metaS, contentS, dataSigInfoS, hname, this]
  have hpd := C02.parsed_cover_is_signed_portion_data name .none (.bytes content) (.model legacySigInfo) (H p) p hp hfit
    (by simp only [List.length_append, tlv_length, hH, h23, h32]; omega) (by rw [hH]; decide)
  constructor
  · unfold forwarderData
    simp only [hp, hw, bind, Except.bind, pure, Except.pure]
  · unfold replyOfData
    rw [hpd]
    have hd : digestSigOk H (List.replicate 5 (Value.uint 0) ++ [.name name, .none, .bytes content, .model legacySigInfo, .bytes (H p)])
        { sigCovered := [p], sigValue := some (H p), digestCovered := [], digestValue := none } = true := by
      have hne : (H p).isEmpty = false := by
        cases h : H p with
        | nil => have := hH p; rw [h] at this; cases this
        | cons a b => rfl
      simp [digestSigOk, legacySigInfo, concatB, hne]
    simp only [hd]
    rfl


/-- every command is emitted, and the timestamp read back from its wire is the timestamp that was signed -/
theorem cmdWire_ts (w : Wire) (g : Good w) (fe : FrontEnd) (k : Nat) (v : Verb) (p ts : Nat) (hts : ts < 2 ^ 64) :
    ∃ wire, cmdWire w fe k v p ts = .ok wire ∧ wireTs fe wire = some ts := by
  cases fe with
  | v2 =>
    obtain ⟨wire, vals, ptrs, d, h1, h2, _, _, _, h17, _⟩ := cmdWire_v2 w g k v p ts hts
    exact ⟨wire, h1, wireTs_v2 wire vals ptrs ts _ h2 h17⟩
  | legacy =>
    obtain ⟨wire, ptrs, h1, h2⟩ := cmdWire_legacy w g k v p ts hts
    exact ⟨wire, h1, wireTs_legacy wire ptrs _ _ _ _ ts _ _ hts h2⟩

theorem tsOf_cmdsOf (o : List Out) : tsOf o = (cmdsOf o).map (·.2) := by
  induction o with
  | nil => rfl
  | cons x t ih => cases x <;> simp [tsOf, cmdsOf, ih]

/-- the i-th wire is the wire of the i-th command -/
theorem wiresFrom_getElem (w : Wire) (fe : FrontEnd) (o : List Out) (k i : Nat) (r : Req) (ts : Nat)
    (h : (cmdsOf o)[i]? = some (r, ts)) :
    (wiresFrom w fe k o)[i]? = some (cmdWire w fe (k + i) r.verb r.pfx ts) := by
  induction o generalizing k i with
  | nil => simp [cmdsOf] at h
  | cons x t ih =>
    cases x with
    | cmd r' ts' =>
      cases i with
      | zero =>
        simp only [cmdsOf, List.getElem?_cons_zero, Option.some.injEq, Prod.mk.injEq] at h
        obtain ⟨rfl, rfl⟩ := h
        simp [wiresFrom]
      | succ j =>
        simp only [cmdsOf, List.getElem?_cons_succ] at h
        have := ih (k + 1) j h
        simp only [wiresFrom, List.getElem?_cons_succ]
        rw [this]; congr 2; omega
    | ret r' res => exact ih k i h
    | connected => exact ih k i h
    | unmodelled => exact ih k i h

/-- all commands of a trace are emitted, and reading the timestamps back from the wires gives the signed
    timestamps in emission order -/
theorem wiresFrom_ts (w : Wire) (g : Good w) (fe : FrontEnd) (o : List Out) (k : Nat)
    (hts : ∀ ts ∈ tsOf o, ts < 2 ^ 64) :
    ∃ ws : List Bytes, wiresFrom w fe k o = ws.map Except.ok ∧ ws.map (wireTs fe) = (tsOf o).map some := by
  induction o generalizing k with
  | nil => exact ⟨[], rfl, rfl⟩
  | cons x t ih =>
    cases x with
    | cmd r ts =>
      obtain ⟨wire, h1, h2⟩ := cmdWire_ts w g fe k r.verb r.pfx ts (hts ts (by simp [tsOf]))
      obtain ⟨ws, h3, h4⟩ := ih (k + 1) (fun t' ht' => hts t' (by simp [tsOf, ht']))
      exact ⟨wire :: ws, by simp [wiresFrom, h1, h3], by simp [tsOf, h2, h4]⟩
    | ret r res => exact ih k (fun t' ht' => hts t' (by simpa [tsOf] using ht'))
    | connected => exact ih k (fun t' ht' => hts t' (by simpa [tsOf] using ht'))
    | unmodelled => exact ih k (fun t' ht' => hts t' (by simpa [tsOf] using ht'))

/-- one wire per command of the trace -/
theorem wiresFrom_length (w : Wire) (fe : FrontEnd) (o : List Out) (k : Nat) :
    (wiresFrom w fe k o).length = countCmd o := by
  induction o generalizing k with
  | nil => rfl
  | cons x t ih => cases x <;> simp [wiresFrom, countCmd, ih]

end Ndn.NfdBytes
