import NdnProofs.Props.C02
import NdnModel.NfdBytes
/-! Lemmas for the byte-level half of C17: the command names and the command Interest of the forwarder
    management protocol, composed from the C08 round trip and the C01/C02 packet theorems. -/
namespace Ndn.NfdBytes
open Ndn Ndn.Codec Ndn.Packet Ndn.NfdMgmt

theorem wf_cp : wfTop cpFs = true := by decide
theorem wf_cr : wfTop crFs = true := by decide


theorem compValue_tlv (t : Nat) (b : Bytes) (ht : t < 2 ^ 64) (hb : b.length < 2 ^ 64) :
    compValue (tlv t b) = b := by
  obtain ⟨p1, p2, _, _, _⟩ := head_elem t b [] ht hb
  simp only [List.append_nil] at p1 p2
  unfold compValue
  simp only [p1, p2]
  show List.drop (tlNumSize t + tlNumSize b.length) (tlv t b) = b
  have : tlv t b = (writeTlNum t ++ writeTlNum b.length) ++ b := by simp [tlv]
  rw [this]
  exact List.drop_left' (by simp [writeTlNum_length])

theorem compOk_tlv (t : Nat) (b : Bytes) (ht : t < 2 ^ 64) (hb : b.length < 2 ^ 64) :
    compOk (tlv t b) = true := by
  obtain ⟨p1, p2, _, _, _⟩ := head_elem t b [] ht hb
  simp only [List.append_nil] at p1 p2
  unfold compOk
  simp only [p1, p2]
  simp [tlv_length]

theorem isDigestComp_tlv (t : Nat) (b : Bytes) (ht : t < 2 ^ 64) (hb : b.length < 2 ^ 64) (hne : t ≠ 2) :
    isDigestComp (tlv t b) = false := by
  obtain ⟨p1, _, _, _, _⟩ := head_elem t b [] ht hb
  simp only [List.append_nil] at p1
  unfold isDigestComp
  simp only [p1]
  simpa using hne

theorem commandName_ok {isLocal : Bool} {module command : Bytes} {cpv : List Value} {n : List Bytes}
    (h : commandName isLocal module command cpv = .ok n) :
    ∃ cp, encFields cpFs [.model cpv] = .ok cp ∧ cp.length < 2 ^ 64 ∧
      n = commandHead isLocal module command ++ [tlv 8 cp] := by
  unfold commandName at h
  obtain ⟨cp, hcp, h2⟩ := bind_ok h
  obtain ⟨c, hc, h3⟩ := bind_ok h2
  obtain ⟨rfl, _, hl⟩ := tlvE_ok hc
  simp only [pure, Except.pure, Except.ok.injEq] at h3
  exact ⟨cp, hcp, hl, h3.symm⟩

theorem decode_commandName {isLocal : Bool} {module command : Bytes} {cpv : List Value} {n : List Bytes}
    (hfit : fitsFs cpvFs cpv = true) (h : commandName isLocal module command cpv = .ok n) :
    decodeCommandParams n = .ok [.model cpv] := by
  obtain ⟨cp, hcp, hl, rfl⟩ := commandName_ok h
  have hf : fitsFs cpFs [.model cpv] = true := by
    simp [cpFs, fitsFs, fits, hfit]
  have := C08.parse_enc_roundtrip cpFs [.model cpv] cp false wf_cp hf hcp
  simp [decodeCommandParams, commandHead, compValue_tlv 8 cp (by decide) hl, this]



theorem enc_uint_ok (t v : Nat) (ht : t < 2 ^ 64) (hv : v < 2 ^ 64) :
    enc (.uint t none) (.uint v) = .ok (tlv t (beN (uintWidth none v) v)) ∧
    (beN (uintWidth none v) v).length ≤ 8 := by
  have hw := (C08.uint_smallest_width v hv).1
  have hl := uintWidth_legal (t := t) none v (by simp [wfS])
  have hlen := beN_length (uintWidth none v) v hl
  refine ⟨?_, by omega⟩
  simp only [enc]
  rw [if_neg (by omega)]
  unfold tlvE
  rw [if_pos ⟨ht, by omega⟩]

/-- the InterestSignatureInfo of a DigestSha256-signed Interest encodes, to at most 25 bytes -/
theorem digestSigInfo_encodes (time nonce : Nat) (ht : time < 2 ^ 64) (hn : nonce < 2 ^ 64) :
    ∃ siB, enc intSigInfoS (digestSigInfo time nonce) = .ok siB ∧ siB.length ≤ 25 := by
  obtain ⟨e1, l1⟩ := enc_uint_ok 38 nonce (by decide) hn
  obtain ⟨e2, l2⟩ := enc_uint_ok 40 time (by decide) ht
  have e0 : enc (.uint 27 (some 1)) (.uint 0) = .ok [27, 1, 0] := by rfl
  have hb : encFields sigInfoFields [.uint 0, .none, .uint nonce, .uint time, .none] =
      .ok ([27, 1, 0] ++ (tlv 38 (beN (uintWidth none nonce) nonce) ++ (tlv 40 (beN (uintWidth none time) time) ++ []))) := by
    have k1 : enc keyLocS .none = .ok [] := by rfl
    have k2 : enc (.uint 42 none) .none = .ok [] := by rfl
    simp only [sigInfoFields, encFields, e0, e1, e2, k1, k2, bind, Except.bind, pure, Except.pure, List.nil_append]
  have h38 : tlNumSize 38 = 1 := by decide
  have h40 : tlNumSize 40 = 1 := by decide
  have h44 : tlNumSize 44 = 1 := by decide
  have c1 := tlNumSize_cases (beN (uintWidth none nonce) nonce).length
  have c2 := tlNumSize_cases (beN (uintWidth none time) time).length
  have hlen : ([27, 1, 0] ++ (tlv 38 (beN (uintWidth none nonce) nonce) ++ (tlv 40 (beN (uintWidth none time) time) ++ []))).length ≤ 23 := by
    simp only [List.length_append, tlv_length, List.length_cons, List.length_nil, h38, h40]
    have : tlNumSize (beN (uintWidth none nonce) nonce).length = 1 := by unfold tlNumSize; rw [if_pos (by omega)]
    have : tlNumSize (beN (uintWidth none time) time).length = 1 := by unfold tlNumSize; rw [if_pos (by omega)]
    omega
  generalize ([27, 1, 0] ++ (tlv 38 (beN (uintWidth none nonce) nonce) ++ (tlv 40 (beN (uintWidth none time) time) ++ []))) = body at hb hlen
  refine ⟨tlv 44 body, ?_, ?_⟩
  · simp only [intSigInfoS, digestSigInfo, enc, hb, bind, Except.bind]
    unfold tlvE
    rw [if_pos ⟨by decide, by omega⟩]
  · rw [tlv_length, h44]
    have : tlNumSize body.length = 1 := by unfold tlNumSize; rw [if_pos (by omega)]
    omega

theorem concatB_snoc (l : List Bytes) (x : Bytes) : (concatB (l ++ [x])).length = (concatB l).length + x.length := by
  rw [C02.concatB_append]; simp [concatB]

/-- the v2 command Interest for any name of plain components: made, parsed back, digest and signature check -/
theorem commandInterestV2_checks (H : Bytes → Bytes) (hH : ∀ x, (H x).length = 32)
    (name : List Bytes) (mid : List Value) (midB : Bytes) (time nonce : Nat)
    (hname : name.all compOk = true) (hnd : ∀ c ∈ name, isDigestComp c = false)
    (hmid : encFields midFs mid = .ok midB) (hfitmid : fitsFs midFs mid = true)
    (ht : time < 2 ^ 64) (hn : nonce < 2 ^ 64)
    (hsize : (concatB name).length + midB.length < 2 ^ 63) :
    ∃ m vals ptrs, commandInterestV2 H name mid time nonce = .ok m ∧
      parseInterest m.wire = .ok (vals, ptrs) ∧
      m.finalName = name ++ [2 :: 32 :: H m.digestCovered] ∧
      vals = List.replicate 7 (Value.uint 0) ++ (Value.name m.finalName :: mid) ++
             List.replicate 2 (Value.uint (tlv 7 (concatB m.finalName) ++ midB).length) ++
             [.bytes [], digestSigInfo time nonce, .bytes (H (concatB m.covered)), .none] ∧
      paramsCheck H ptrs = true ∧
      concatB ptrs.sigCovered = concatB m.covered ∧
      ptrs.sigValue = some (H (concatB ptrs.sigCovered)) ∧
      verifyPtrs (digestScheme H) ptrs = true := by
  obtain ⟨siB, hsi, hsil⟩ := digestSigInfo_encodes time nonce ht hn
  have happ : enc (.bytes 36 false) (.bytes []) = .ok emptyAppB := by rfl
  have hfittail : fitsFs [.bytes 36 false, intSigInfoS] [.bytes [], digestSigInfo time nonce] = true := by rfl
  let s : SignerOut := { reserved := 32, sig := H (concatB name ++ emptyAppB ++ siB) }
  have hsl : s.sig.length = 32 := hH _
  have hsr : s.reserved = 32 := rfl
  have hle : s.sig.length ≤ s.reserved := by rw [hsl, hsr]; exact Nat.le_refl _
  have hflex : s.sig.length = s.reserved ∨ s.reserved < 253 := Or.inl (hsl.trans hsr.symm)
  have hr : s.reserved < 2 ^ 64 := by rw [hsr]; decide
  have hsz : (concatB (name ++ [2 :: 32 :: H (emptyAppB ++ siB ++ tlv 46 s.sig)])).length + midB.length +
        (emptyAppB ++ siB).length + s.reserved + 64 < 2 ^ 64 := by
    rw [concatB_snoc]
    simp only [List.length_cons, hH, List.length_append, emptyAppB, List.length_nil]
    rw [hsr]
    omega
  obtain ⟨m, vals, ptrs, h1, h2, h3, h4, h5, h6, h7, h8⟩ :=
    C02.parsed_cover_is_signed_portion_interest H name mid (.bytes []) (digestSigInfo time nonce) s midB emptyAppB siB
      hmid happ hsi hle hflex hr hname hnd hfitmid hfittail (hH _) hsz
  have htail : encFields [.bytes 36 false, intSigInfoS] [.bytes [], digestSigInfo time nonce] = .ok (emptyAppB ++ siB) := by
    simp [encFields, happ, hsi, bind, Except.bind, pure, Except.pure]
  obtain ⟨m', g1, g2, g3⟩ := C01.parse_make_interest H name mid (.bytes []) (digestSigInfo time nonce) s midB
    (emptyAppB ++ siB) hmid htail hle hflex hr hname hnd hfitmid hfittail
    _ _ rfl (hH _) rfl hsz
  have hmm : m' = m := Except.ok.inj (g1.symm.trans h1)
  subst hmm
  have hcore : commandInterestV2 H name mid time nonce = .ok m' := by
    unfold commandInterestV2
    simp only [hsi, bind, Except.bind]
    exact h1
  have hdc : m'.digestCovered = emptyAppB ++ siB ++ tlv 46 s.sig := by
    have := h7.symm.trans h6
    simpa using this
  have hcov : concatB m'.covered = concatB name ++ emptyAppB ++ siB := h4.symm.trans h3
  rw [h2] at g3
  simp only [Except.map, Except.ok.injEq] at g3
  refine ⟨m', vals, ptrs, hcore, h2, ?_, ?_, ?_, h4, ?_, ?_⟩
  · rw [g2, hdc]
  · rw [g3, g2, hcov]; simp [s]
  · rw [C02.params_digest_iff]
    refine ⟨_, h8, ?_, by rw [h6]; simp, by rw [h6]; simp [concatB]⟩
    intro e; have := hH (emptyAppB ++ siB ++ tlv 46 s.sig); rw [e] at this; simp at this
  · rw [h5, h3]
  · exact C02.verify_own (digestScheme H) (fun x => by simp [digestScheme]) ptrs _ h3 (by rw [h5]; rfl)

theorem commandName_comps {isLocal : Bool} {module command : Bytes} {cpv : List Value} {n : List Bytes}
    (h : commandName isLocal module command cpv = .ok n)
    (hm : module.length < 2 ^ 64) (hc : command.length < 2 ^ 64) :
    n.all compOk = true ∧ ∀ c ∈ n, isDigestComp c = false := by
  obtain ⟨cp, _, hl, rfl⟩ := commandName_ok h
  have h8 : (8 : Nat) < 2 ^ 64 := by decide
  have hh : (if isLocal then localhostB else localhopB).length < 2 ^ 64 := by
    cases isLocal <;> decide
  have hn : nfdB.length < 2 ^ 64 := by decide
  constructor
  · simp [commandHead, compOk_tlv 8 _ h8 hh, compOk_tlv 8 _ h8 hn, compOk_tlv 8 _ h8 hm, compOk_tlv 8 _ h8 hc,
      compOk_tlv 8 _ h8 hl]
  · intro c hcm
    simp only [commandHead, List.cons_append, List.nil_append, List.mem_cons, List.not_mem_nil, or_false] at hcm
    rcases hcm with rfl | rfl | rfl | rfl | rfl <;> exact isDigestComp_tlv 8 _ h8 (by assumption) (by decide)

/-! ### parse_response -/

theorem lookupField_bodyFields_notin : ∀ (ks : List String) (vs : List Value) (k : String), k ∉ ks →
    lookupField (bodyFields ks vs) k = none
  | [], _, _, _ => by simp [bodyFields, lookupField]
  | _ :: _, [], _, _ => by simp [bodyFields, lookupField]
  | k' :: ks, v :: vs, k, hk => by
    have hne : k' ≠ k := fun e => hk (by simp [e])
    have hr : k ∉ ks := fun e => hk (by simp [e])
    have ih := lookupField_bodyFields_notin ks vs k hr
    unfold bodyFields
    cases hf : fvalOf v with
    | none => simpa using ih
    | some f =>
      simp only [lookupField, List.find?] at ih ⊢
      have : (k' == k) = false := by simpa using hne
      simp only [this]
      exact ih

theorem lookupField_bodyFields : ∀ (ks : List String) (vs : List Value), ks.Nodup → ks.length = vs.length →
    ∀ (i : Nat) (k : String), ks[i]? = some k → lookupField (bodyFields ks vs) k = fvalOf (vs.getD i .none)
  | [], _, _, _, i, k, h => by simp at h
  | _ :: _, [], _, hl, _, _, _ => by simp at hl
  | k' :: ks, v :: vs, hnd, hl, i, k, h => by
    have hnd' := List.nodup_cons.mp hnd
    unfold bodyFields
    cases i with
    | zero =>
      simp only [List.getElem?_cons_zero, Option.some.injEq] at h
      subst h
      cases hf : fvalOf v with
      | none =>
        simp only [List.getD_cons_zero, hf]
        exact lookupField_bodyFields_notin ks vs k' hnd'.1
      | some f => simp [lookupField, hf]
    | succ j =>
      simp only [List.getElem?_cons_succ] at h
      have hmem : k ∈ ks := List.mem_of_getElem? h
      have hne : (k' == k) = false := by
        have : k' ≠ k := fun e => hnd'.1 (e ▸ hmem)
        simpa using this
      have ih := lookupField_bodyFields ks vs hnd'.2 (by simpa using hl) j k h
      simp only [List.getD_cons_succ]
      cases hf : fvalOf v with
      | none => simpa using ih
      | some f =>
        simp only [lookupField, List.find?, hne] at ih ⊢
        exact ih

theorem cpvFields_nodup : cpvFields.Nodup := by decide
theorem recOfValues_crValues (c : Option Nat) (t : Option Bytes) (b : Option (List Value)) :
    recOfValues (crValues c t b) = ⟨c, t, b.map (bodyFields cpvFields)⟩ := by
  cases c <;> cases t <;> cases b <;> rfl

/-- decoding the encoded response gives back the encoded ControlResponse value -/
theorem parseResponse_encode (code : Option Nat) (text : Option Bytes) (body : Option (List Value)) (w : Bytes)
    (hfit : fitsFs crFs (crValues code text body) = true) (henc : encodeResponse code text body = .ok w) (bf : Bool) :
    (∃ v, parseAndCheckTl w 0x65 = .ok v ∧ parse crFs false v = .ok (crValues code text body)) ∧
    parseResponse bf w = parseResponseRec bf ⟨code, text, body.map (bodyFields cpvFields)⟩ := by
  unfold encodeResponse at henc
  obtain ⟨b, hb, h2⟩ := bind_ok henc
  obtain ⟨rfl, _, hl⟩ := tlvE_ok h2
  have hp := parseAndCheckTl_tlv 0x65 b (by decide) hl
  have hr := C08.parse_enc_roundtrip crFs _ b false wf_cr hfit hb
  refine ⟨⟨b, hp, hr⟩, ?_⟩
  unfold parseResponse
  simp only [hp, hr, bind, Except.bind, recOfValues_crValues]

/-! ### the legacy command name -/

/-- the encoded `SignatureInfo` of the legacy command: SignatureType 0 only -/
theorem legacySigInfo_enc : encFields sigInfoFields legacySigInfo = .ok [27, 1, 0] := by rfl

def legacyTail (ts nonce : Nat) : List Bytes := [tlv 8 (be8 ts), tlv 8 (be8 nonce), tlv 8 [22, 3, 27, 1, 0]]

theorem legacyCommandName_ok {H : Bytes → Bytes} {isLocal : Bool} {module command : Bytes} {cpv : List Value}
    {ts nonce : Nat} {n : List Bytes}
    (h : legacyCommandName H isLocal module command cpv ts nonce = .ok n) :
    ∃ n5, commandName isLocal module command cpv = .ok n5 ∧ ts < 2 ^ 64 ∧ nonce < 2 ^ 64 ∧
      n = n5 ++ legacyTail ts nonce ++ [tlv 8 ([23, 32] ++ H (concatB (n5 ++ legacyTail ts nonce)))] := by
  unfold legacyCommandName at h
  obtain ⟨n5, h5, h2⟩ := bind_ok h
  refine ⟨n5, h5, ?_⟩
  split at h2
  · cases h2
  · rename_i hc
    simp only [legacySigInfo_enc, bind, Except.bind] at h2
    rw [if_neg (by decide)] at h2
    simp only [pure, Except.pure, Except.ok.injEq] at h2
    refine ⟨by omega, by omega, ?_⟩
    rw [← h2]
    simp [legacyTail]

theorem be8_length (v : Nat) : (be8 v).length = 8 := rfl

end Ndn.NfdBytes
