import NdnModel.ClassMerge
import NdnProofs.Lemmas.PyDict
/-! Helper lemmas for the metaclass model (`NdnModel/ClassMerge.lean`): the index-dict algorithm is a fold of
    `PyDict.set`; what a fold of `PyDict.set` is (first-occurrence order, last value). -/
namespace Ndn.Codec
open Ndn
variable {κ α : Type} [DecidableEq κ]

/-! ### specification vocabulary -/

/-- a sequence of assignments `name ← value` carried out on an empty Python dict -/
def assignAll (xs : List (κ × α)) : PyDict κ α := xs.foldl (fun d p => PyDict.set d p.1 p.2) []

/-- the names of a list, each at its first occurrence -/
def firstOcc : List κ → List κ
  | [] => []
  | k :: r => k :: (firstOcc r).filter (· ≠ k)

/-- the value of the last assignment to `k` -/
def lastVal : List (κ × α) → κ → Option α
  | [], _ => none
  | (k', v) :: r, k =>
    match lastVal r k with
    | some w => some w
    | none => if k' = k then some v else none

/-- the assignments a class body stands for: an own field under its attribute name; at an `IncludeBase`
    the fields of that base under their names, in the base's order; nothing for any other attribute, and
    nothing for a base class that is not included -/
def expand (bases : List (BaseCls κ α)) (dict : List (κ × Decl α)) : List (κ × α) :=
  dict.flatMap fun p =>
    match p.2 with
    | .field f => [(p.1, f)]
    | .includeBase i => match bases[i]? with
      | some (some fs) => fs
      | _ => []
    | .other => []

/-- every `IncludeBase` names a direct base class that is a TlvModel -/
def Legal (bases : List (BaseCls κ α)) (dict : List (κ × Decl α)) : Prop :=
  ∀ p ∈ dict, ∀ i, p.2 = .includeBase i → ∃ fs, bases[i]? = some (some fs)

/-! ### `PyDict.set` against positions -/

theorem posOf_none_iff (d : List (κ × α)) (k : κ) : posOf d k = none ↔ k ∉ PyDict.keys d := by
  induction d with
  | nil => simp [posOf, PyDict.keys]
  | cons p r ih =>
    obtain ⟨a, b⟩ := p
    by_cases h : a = k
    · simp [posOf, PyDict.keys, h]
    · have h' : ¬ k = a := fun e => h e.symm
      simp only [posOf, h, if_false, Option.map_eq_none_iff, ih, PyDict.keys, List.map_cons, List.mem_cons, h',
        false_or]

theorem set_of_posOf_none (d : List (κ × α)) (k : κ) (v : α) (h : posOf d k = none) :
    PyDict.set d k v = d ++ [(k, v)] := by
  induction d with
  | nil => simp [PyDict.set]
  | cons p r ih =>
    obtain ⟨a, b⟩ := p
    by_cases hk : a = k
    · simp [posOf, hk] at h
    · simp only [posOf, hk, if_false, Option.map_eq_none_iff] at h
      simp [PyDict.set, hk, ih h]

theorem set_of_posOf_some (d : List (κ × α)) (k : κ) (v : α) (i : Nat) (h : posOf d k = some i) :
    PyDict.set d k v = d.set i (k, v) := by
  induction d generalizing i with
  | nil => simp [posOf] at h
  | cons p r ih =>
    obtain ⟨a, b⟩ := p
    by_cases hk : a = k
    · simp only [posOf, hk, if_true, Option.some.injEq] at h
      subst h; simp [PyDict.set, hk]
    · simp only [posOf, hk, if_false, Option.map_eq_some_iff] at h
      obtain ⟨j, hj, rfl⟩ := h
      simp [PyDict.set, hk, ih j hj]

theorem posOf_set_none (d : List (κ × α)) (k k' : κ) (v : α) (h : posOf d k = none) :
    posOf (PyDict.set d k v) k' = if k = k' then some d.length else posOf d k' := by
  induction d with
  | nil => simp [PyDict.set, posOf]
  | cons p r ih =>
    obtain ⟨a, b⟩ := p
    by_cases hk : a = k
    · simp [posOf, hk] at h
    · simp only [posOf, hk, if_false, Option.map_eq_none_iff] at h
      simp only [PyDict.set, hk, if_false, posOf, ih h, List.length_cons]
      by_cases h1 : a = k'
      · have : ¬ k = k' := fun e => hk (e ▸ h1)
        simp [h1, this]
      · by_cases h2 : k = k' <;> simp [h1, h2]

theorem posOf_set_some (d : List (κ × α)) (k k' : κ) (v : α) (i : Nat) (h : posOf d k = some i) :
    posOf (PyDict.set d k v) k' = posOf d k' := by
  induction d generalizing i with
  | nil => simp [posOf] at h
  | cons p r ih =>
    obtain ⟨a, b⟩ := p
    by_cases hk : a = k
    · subst hk; simp [PyDict.set, posOf]
    · simp only [posOf, hk, if_false, Option.map_eq_some_iff] at h
      obtain ⟨j, hj, _⟩ := h
      simp [PyDict.set, hk, posOf, ih j hj]

/-! ### the index-dict algorithm refines `PyDict.set` -/

/-- the invariant of the metaclass loop: `index_dict` holds the position of every name in the list -/
def MState.Inv (st : MState κ α) : Prop := ∀ k, PyDict.get? st.index k = posOf st.fields k

theorem put_spec (st : MState κ α) (k : κ) (f : α) (h : st.Inv) :
    (st.put k f).fields = PyDict.set st.fields k f ∧ (st.put k f).Inv := by
  unfold MState.put
  cases hg : PyDict.get? st.index k with
  | none =>
    have hp : posOf st.fields k = none := by rw [← h k]; exact hg
    refine ⟨(set_of_posOf_none _ _ _ hp).symm, ?_⟩
    intro k'
    simp only [PyDict.get?_set, ← set_of_posOf_none _ _ _ hp, posOf_set_none _ _ _ _ hp, h k']
  | some i =>
    have hp : posOf st.fields k = some i := by rw [← h k]; exact hg
    refine ⟨(set_of_posOf_some _ _ _ _ hp).symm, ?_⟩
    intro k'
    simp only [← set_of_posOf_some _ _ _ _ hp, posOf_set_some _ _ _ _ _ hp, h k']

theorem putAll_spec (fs : List (κ × α)) (st : MState κ α) (h : st.Inv) :
    (st.putAll fs).fields = fs.foldl (fun d p => PyDict.set d p.1 p.2) st.fields ∧ (st.putAll fs).Inv := by
  induction fs generalizing st with
  | nil => exact ⟨rfl, h⟩
  | cons p r ih =>
    have hp := put_spec st p.1 p.2 h
    have := ih (st.put p.1 p.2) hp.2
    simp only [MState.putAll, List.foldl_cons] at this ⊢
    rw [this.1, hp.1]; exact ⟨rfl, this.2⟩

theorem foldlM_mergeStep (bases : List (BaseCls κ α)) (dict : List (κ × Decl α)) (st st' : MState κ α)
    (h : st.Inv) (hr : dict.foldlM (mergeStep bases) st = .ok st') :
    st'.fields = (expand bases dict).foldl (fun d p => PyDict.set d p.1 p.2) st.fields ∧ st'.Inv := by
  induction dict generalizing st with
  | nil =>
    simp only [List.foldlM_nil, pure, Except.pure, Except.ok.injEq] at hr
    subst hr; exact ⟨rfl, h⟩
  | cons p r ih =>
    simp only [List.foldlM_cons, bind, Except.bind] at hr
    cases hs : mergeStep bases st p with
    | error e => simp [hs] at hr
    | ok s1 =>
      simp only [hs] at hr
      have key : s1.fields = (expand bases [p]).foldl (fun d p => PyDict.set d p.1 p.2) st.fields ∧ s1.Inv := by
        unfold mergeStep at hs
        simp only [expand, List.flatMap_cons, List.flatMap_nil, List.append_nil]
        cases hd : p.2 with
        | field f => simp only [hd] at hs ⊢; cases hs; exact put_spec st p.1 f h
        | other => simp only [hd] at hs ⊢; cases hs; exact ⟨rfl, h⟩
        | includeBase i =>
          simp only [hd] at hs ⊢
          cases hb : bases[i]? with
          | none => simp [hb] at hs
          | some ob =>
            cases ob with
            | none => simp [hb] at hs
            | some fs => simp only [hb] at hs ⊢; cases hs; exact putAll_spec fs st h
      have := ih s1 key.2 hr
      refine ⟨?_, this.2⟩
      rw [this.1, key.1]
      simp [expand, List.flatMap_cons, List.foldl_append]

/-! ### what a fold of `PyDict.set` is -/

theorem keys_foldl_set (xs : List (κ × α)) (d : PyDict κ α) :
    PyDict.keys (xs.foldl (fun d p => PyDict.set d p.1 p.2) d)
      = PyDict.keys d ++ (firstOcc (xs.map (·.1))).filter (· ∉ PyDict.keys d) := by
  induction xs generalizing d with
  | nil => simp [firstOcc]
  | cons p r ih =>
    obtain ⟨k, v⟩ := p
    simp only [List.foldl_cons, List.map_cons, firstOcc]
    rw [ih, PyDict.keys_set]
    by_cases hk : k ∈ PyDict.keys d
    · simp only [hk, if_true, List.filter_cons, not_true_eq_false, decide_false, Bool.false_eq_true, if_false,
        List.filter_filter]
      congr 1
      apply List.filter_congr
      intro x _
      by_cases hx : x = k
      · subst hx; simp [hk]
      · simp [hx]
    · simp only [hk, if_false, List.filter_cons, not_false_eq_true, decide_true, if_true, List.append_assoc,
        List.singleton_append, List.filter_filter]
      congr 2
      apply List.filter_congr
      intro x _
      by_cases hx : x = k
      · subst hx; simp
      · simp [hx]

theorem get?_foldl_set (xs : List (κ × α)) (d : PyDict κ α) (k : κ) :
    PyDict.get? (xs.foldl (fun d p => PyDict.set d p.1 p.2) d) k
      = match lastVal xs k with
        | some w => some w
        | none => PyDict.get? d k := by
  induction xs generalizing d with
  | nil => simp [lastVal]
  | cons p r ih =>
    obtain ⟨k', v⟩ := p
    simp only [List.foldl_cons, ih, lastVal, PyDict.get?_set]
    cases lastVal r k with
    | some w => rfl
    | none => by_cases h : k' = k <;> simp [h]

theorem nodup_keys_foldl_set (xs : List (κ × α)) (d : PyDict κ α) (h : (PyDict.keys d).Nodup) :
    (PyDict.keys (xs.foldl (fun d p => PyDict.set d p.1 p.2) d)).Nodup := by
  induction xs generalizing d with
  | nil => exact h
  | cons p r ih => exact ih _ (PyDict.nodup_keys_set d p.1 p.2 h)

theorem foldl_set_nodup (xs : List (κ × α)) (d : PyDict κ α)
    (h : (PyDict.keys d ++ xs.map (·.1)).Nodup) :
    xs.foldl (fun d p => PyDict.set d p.1 p.2) d = d ++ xs := by
  induction xs generalizing d with
  | nil => simp
  | cons p r ih =>
    obtain ⟨k, v⟩ := p
    have hk : k ∉ PyDict.keys d := by
      intro hm
      rw [List.nodup_append] at h
      exact h.2.2 k hm k (by simp) rfl
    have hs : PyDict.set d k v = d ++ [(k, v)] := set_of_posOf_none d k v ((posOf_none_iff d k).2 hk)
    simp only [List.foldl_cons, hs]
    rw [ih]
    · simp
    · simpa [PyDict.keys, List.append_assoc] using h

theorem assignAll_keys (xs : List (κ × α)) : PyDict.keys (assignAll xs) = firstOcc (xs.map (·.1)) := by
  unfold assignAll
  rw [keys_foldl_set]
  simp [PyDict.keys]

theorem assignAll_get? (xs : List (κ × α)) (k : κ) : PyDict.get? (assignAll xs) k = lastVal xs k := by
  simp only [assignAll, get?_foldl_set, PyDict.get?]
  cases lastVal xs k <;> rfl

theorem assignAll_nodup (xs : List (κ × α)) : (PyDict.keys (assignAll xs)).Nodup :=
  nodup_keys_foldl_set xs [] (by simp [PyDict.keys])

theorem assignAll_of_nodup (xs : List (κ × α)) (h : (xs.map (·.1)).Nodup) : assignAll xs = xs := by
  simpa [assignAll] using foldl_set_nodup xs [] (by simpa [PyDict.keys] using h)

theorem mem_firstOcc (l : List κ) (k : κ) : k ∈ firstOcc l ↔ k ∈ l := by
  induction l with
  | nil => simp [firstOcc]
  | cons a r ih =>
    simp only [firstOcc, List.mem_cons, List.mem_filter, ih, decide_eq_true_eq]
    by_cases h : k = a <;> simp [h]

/-! ### the metaclass -/

theorem mergeClass_ok (bases : List (BaseCls κ α)) (dict : List (κ × Decl α)) (r : List (κ × α))
    (h : mergeClass bases dict = .ok r) : r = assignAll (expand bases dict) := by
  unfold mergeClass at h
  split at h
  · rename_i st hst
    cases h
    exact (foldlM_mergeStep bases dict ⟨[], []⟩ st (fun k => by simp [PyDict.get?, posOf]) hst).1
  · cases h

theorem foldlM_mergeStep_isOk (bases : List (BaseCls κ α)) (dict : List (κ × Decl α)) (st : MState κ α) :
    (∃ st', dict.foldlM (mergeStep bases) st = .ok st') ↔ Legal bases dict := by
  induction dict generalizing st with
  | nil => simp [Legal, pure, Except.pure]
  | cons p r ih =>
    simp only [List.foldlM_cons, bind, Except.bind]
    constructor
    · rintro ⟨st', h⟩
      cases hs : mergeStep bases st p with
      | error e => simp [hs] at h
      | ok s1 =>
        simp only [hs] at h
        have hr := (ih s1).1 ⟨st', h⟩
        intro q hq i hi
        rcases List.mem_cons.1 hq with rfl | hq
        · unfold mergeStep at hs
          simp only [hi] at hs
          split at hs
          · cases hs
          · cases hs
          · rename_i fs hb; exact ⟨fs, hb⟩
        · exact hr q hq i hi
    · intro hl
      have hr : Legal bases r := fun q hq => hl q (List.mem_cons_of_mem _ hq)
      have hp : ∃ s1, mergeStep bases st p = .ok s1 := by
        unfold mergeStep
        cases hd : p.2 with
        | field f => exact ⟨_, rfl⟩
        | other => exact ⟨_, rfl⟩
        | includeBase i =>
          obtain ⟨fs, hb⟩ := hl p (by simp) i hd
          simp only [hb]; exact ⟨_, rfl⟩
      obtain ⟨s1, hs⟩ := hp
      simp only [hs]
      exact (ih s1).2 hr

theorem mergeClass_isOk (bases : List (BaseCls κ α)) (dict : List (κ × Decl α)) :
    (∃ r, mergeClass bases dict = .ok r) ↔ Legal bases dict := by
  rw [← foldlM_mergeStep_isOk bases dict ⟨[], []⟩]
  unfold mergeClass
  constructor
  · rintro ⟨r, h⟩
    split at h
    · rename_i st hst; exact ⟨st, hst⟩
    · cases h
  · rintro ⟨st, h⟩
    simp only [h]; exact ⟨_, rfl⟩

theorem mergeStep_set_base (bases : List (BaseCls κ α)) (j : Nat) (b : BaseCls κ α) (st : MState κ α)
    (p : κ × Decl α) (h : p.2 ≠ .includeBase j) : mergeStep (bases.set j b) st p = mergeStep bases st p := by
  unfold mergeStep
  cases hd : p.2 with
  | field f => rfl
  | other => rfl
  | includeBase i =>
    have : j ≠ i := by
      intro e; subst e; exact h hd
    simp only [List.getElem?_set_ne this]

theorem foldlM_set_base (bases : List (BaseCls κ α)) (j : Nat) (b : BaseCls κ α) (dict : List (κ × Decl α))
    (st : MState κ α) (h : ∀ p ∈ dict, p.2 ≠ .includeBase j) :
    dict.foldlM (mergeStep (bases.set j b)) st = dict.foldlM (mergeStep bases) st := by
  induction dict generalizing st with
  | nil => rfl
  | cons p r ih =>
    simp only [List.foldlM_cons, mergeStep_set_base bases j b st p (h p (by simp))]
    cases mergeStep bases st p with
    | error e => rfl
    | ok s1 => exact ih s1 (fun q hq => h q (List.mem_cons_of_mem _ hq))

end Ndn.Codec
