import NdnProofs.Lemmas.CodecParse
/-! The scan loop of `TlvModel.parse` on a concatenation of recognised elements ("items").
    An item is what ONE iteration of the loop consumes: one element of a plain or repeated field, or —
    for a MapField — a key element immediately followed by its value element (`findMapValue`). -/
namespace Ndn.Codec
open Ndn

/-- the value element of a map entry -/
structure MapVal where
  v : Value
  t : Nat
  body : Bytes

structure Item where
  idx : Nat
  fld : Schema      -- the field found at `idx` (a plain field, `repeated e` or `map k v`)
  v : Value         -- the value `parse_from` yields for this element (for a map entry: the key)
  t : Nat
  body : Bytes
  mv : Option MapVal  -- `some` exactly for an entry of a MapField: the value element behind the key

def isRep : Schema → Bool
  | .repeated _ => true
  | _ => false

def isMapS : Schema → Bool
  | .map _ _ => true
  | _ => false

def applyItem (acc : List Value) (it : Item) : List Value :=
  match it.mv with
  | some m => acc.set it.idx (.map (mapSet (mapOf acc[it.idx]?) it.v m.v))
  | none =>
    if isRep it.fld then
      acc.set it.idx (.list (listOf acc[it.idx]? ++ [it.v]))
    else acc.set it.idx it.v

def nextPos (it : Item) : Nat := if isRep it.fld || isMapS it.fld then it.idx else it.idx + 1

def plainOrRep : Schema → Bool
  | .marker => false
  | _ => true

/-- the schema an element of field `fld` is parsed with (for a MapField: the key) -/
def elemOf : Schema → Schema
  | .repeated e => e
  | .map k _ => k
  | s => s

/-- what follows the first element of an item: nothing, or (MapField) the value element -/
def TailOK (it : Item) : Prop :=
  match it.mv with
  | none => isMapS it.fld = false
  | some m => ∃ ks vs, it.fld = .map ks vs ∧ vs.typ = some m.t ∧ m.t < 2 ^ 64 ∧ m.body.length < 2 ^ 64 ∧
      leafCheck vs m.body.length m.body = .ok () ∧
      ∀ fuel R, m.body.length + 2 ≤ fuel → parseValue fuel vs m.body (tlv m.t m.body ++ R) = .ok m.v

def ItemOK (fs : List Schema) (it : Item) : Prop :=
  fs[it.idx]? = some it.fld ∧ plainOrRep it.fld = true ∧ it.fld.typ = some it.t ∧ it.t < 2 ^ 64 ∧
  it.body.length < 2 ^ 64 ∧ leafCheck (elemOf it.fld) it.body.length it.body = .ok () ∧
  (∀ fuel R, it.body.length + 2 ≤ fuel →
    parseValue fuel (elemOf it.fld) it.body (tlv it.t it.body ++ R) = .ok it.v) ∧
  TailOK it

def ItemsOK (fs : List Schema) : Nat → List Item → Prop
  | _, [] => True
  | pos, it :: r => pos ≤ it.idx ∧ ItemOK fs it ∧ ItemsOK fs (nextPos it) r

def encTail (it : Item) : Bytes :=
  match it.mv with
  | none => []
  | some m => tlv m.t m.body

/-- the bytes of one item -/
def encItem (it : Item) : Bytes := tlv it.t it.body ++ encTail it

def encItems : List Item → Bytes
  | [] => []
  | it :: r => encItem it ++ encItems r

def endPos : Nat → List Item → Nat
  | p, [] => p
  | _, it :: r => endPos (nextPos it) r

theorem encItem_len_ge (it : Item) : 2 ≤ (encItem it).length := by
  have := tlNumSize_pos it.t; have := tlNumSize_pos it.body.length
  simp [encItem, tlv_length]; omega

theorem encItems_len_ge : ∀ (items : List Item), 2 * items.length ≤ (encItems items).length
  | [] => by simp [encItems]
  | it :: r => by
    have := encItems_len_ge r
    have := encItem_len_ge it
    simp [encItems]; omega

/-- ONE iteration of the scan loop consumes one item -/
theorem loop_step (fs : List Schema) (ic : Bool) (hn : nodupB (typs fs) = true) (it : Item) (R : Bytes)
    (f off pos : Nat) (acc : List Value) (hpos : pos ≤ it.idx) (hok : ItemOK fs it)
    (hf : (encItem it ++ R).length < f + 1) :
    parseFields (f + 1) fs ic (encItem it ++ R) off pos acc =
      parseFields f fs ic R (off + (encItem it).length) (nextPos it)
        (applyItem (skipMarkers fs acc pos it.idx off) it) := by
  obtain ⟨hfld, hpr, htyp, ht, hb, hleaf, hpv, htail⟩ := hok
  have hassoc : encItem it ++ R = tlv it.t it.body ++ (encTail it ++ R) := by
    simp [encItem, List.append_assoc]
  obtain ⟨p1, p2, s1, s2, s3⟩ := head_elem it.t it.body (encTail it ++ R) ht hb
  have hlen : (encItem it ++ R).length =
      tlNumSize it.t + tlNumSize it.body.length + it.body.length + (encTail it ++ R).length := by
    rw [hassoc]; simp [tlv_length]
  have hne : (encItem it ++ R).isEmpty = false := by
    cases h : encItem it ++ R with
    | nil => have := congrArg List.length h; rw [hlen] at this; have := tlNumSize_pos it.t; simp at *; omega
    | cons _ _ => rfl
  have hfind := findField_ok fs pos it.idx it.fld it.t hn hfld htyp hpos
  have hfuel : it.body.length + 2 ≤ f := by
    have := tlNumSize_pos it.t; have := tlNumSize_pos it.body.length; omega
  conv => lhs; unfold parseFields
  simp only [hne, Bool.false_eq_true, if_false]
  rw [hassoc]
  simp only [p1, p2, bind, Except.bind, s1, s3, hfind, hfld]
  cases hmv : it.mv with
  | none =>
    have hnm : isMapS it.fld = false := by simpa [TailOK, hmv] using htail
    have htl : encTail it = [] := by simp [encTail, hmv]
    have hel : (encItem it).length = tlNumSize it.t + tlNumSize it.body.length + it.body.length := by
      simp [encItem, htl, tlv_length]
    rw [htl, List.nil_append, hel]
    cases hk : it.fld with
    | map k v => simp [hk, isMapS] at hnm
    | marker => simp [hk, plainOrRep] at hpr
    | repeated e =>
      simp only [hk, elemOf] at hleaf hpv
      simp only [hleaf, hpv f _ hfuel]
      simp [applyItem, hmv, hk, isRep, isMapS, nextPos, Nat.add_assoc]
    | uint t fl =>
      simp only [hk, elemOf] at hleaf hpv
      simp only [hleaf, hpv f _ hfuel]
      simp [applyItem, hmv, hk, isRep, isMapS, nextPos, Nat.add_assoc]
    | bool t =>
      simp only [hk, elemOf] at hleaf hpv
      simp only [hleaf, hpv f _ hfuel]
      simp [applyItem, hmv, hk, isRep, isMapS, nextPos, Nat.add_assoc]
    | bytes t s =>
      simp only [hk, elemOf] at hleaf hpv
      simp only [hleaf, hpv f _ hfuel]
      simp [applyItem, hmv, hk, isRep, isMapS, nextPos, Nat.add_assoc]
    | name t =>
      simp only [hk, elemOf] at hleaf hpv
      simp only [hleaf, hpv f _ hfuel]
      simp [applyItem, hmv, hk, isRep, isMapS, nextPos, Nat.add_assoc]
    | model t fs' ic' =>
      simp only [hk, elemOf] at hleaf hpv
      simp only [hleaf, hpv f _ hfuel]
      simp [applyItem, hmv, hk, isRep, isMapS, nextPos, Nat.add_assoc]
  | some m =>
    obtain ⟨ks, vs, hk, hvt, hmt, hmb, hleaf2, hpv2⟩ :
        ∃ ks vs, it.fld = .map ks vs ∧ vs.typ = some m.t ∧ m.t < 2 ^ 64 ∧ m.body.length < 2 ^ 64 ∧
          leafCheck vs m.body.length m.body = .ok () ∧
          ∀ fuel R, m.body.length + 2 ≤ fuel → parseValue fuel vs m.body (tlv m.t m.body ++ R) = .ok m.v := by
      simpa [TailOK, hmv] using htail
    have htl : encTail it = tlv m.t m.body := by simp [encTail, hmv]
    have hel : (encItem it).length = tlNumSize it.t + tlNumSize it.body.length + it.body.length +
        (tlNumSize m.t + tlNumSize m.body.length + m.body.length) := by
      simp [encItem, htl, tlv_length]
    obtain ⟨q1, q2, r1, _, r3⟩ := head_elem m.t m.body R hmt hmb
    rw [htl, hel]
    simp only [hk, elemOf] at hleaf hpv
    simp only [hk, hleaf, hpv f _ hfuel]
    cases f with
    | zero => omega
    | succ f' =>
      have hfuel2 : m.body.length + 2 ≤ f' + 1 := by
        have := tlNumSize_pos it.t; have := tlNumSize_pos it.body.length
        have := tlNumSize_pos m.t; have := tlNumSize_pos m.body.length
        have := List.length_append (as := encItem it) (bs := R)
        omega
      simp only [findMapValue, q1, q2, bind, Except.bind, hvt, if_true, r1, r3, pure, Except.pure, hleaf2,
        hpv2 (f' + 1) _ hfuel2]
      simp [applyItem, hmv, hk, isRep, isMapS, nextPos, Nat.add_assoc]

/-- state of the accumulator after the scan loop processed `items` from position `pos`, offset `off`:
    OffsetMarker fields skipped over on the way to an element record that element's offset -/
def runItems (fs : List Schema) : Nat → Nat → List Value → List Item → List Value
  | _, _, acc, [] => acc
  | pos, off, acc, it :: r =>
    runItems fs (nextPos it) (off + (encItem it).length)
      (applyItem (skipMarkers fs acc pos it.idx off) it) r

/-- marker-aware version of `loop_prefix` (no assumption that the schema is marker-free) -/
theorem loop_prefix_m (fs : List Schema) (ic : Bool) (hn : nodupB (typs fs) = true)
    (R : Bytes) :
    ∀ (items : List Item) (fuel off pos : Nat) (acc : List Value),
      ItemsOK fs pos items → (encItems items ++ R).length < fuel →
      parseFields fuel fs ic (encItems items ++ R) off pos acc =
        parseFields (fuel - items.length) fs ic R (off + (encItems items).length) (endPos pos items)
          (runItems fs pos off acc items)
  | [], fuel, off, pos, acc, _, _ => by simp [encItems, endPos, runItems]
  | it :: r, fuel, off, pos, acc, hok, hf => by
    obtain ⟨hpos, hit, hrest⟩ := hok
    cases fuel with
    | zero => simp at hf
    | succ f =>
      have hassoc : encItems (it :: r) ++ R = encItem it ++ (encItems r ++ R) := by
        simp [encItems, List.append_assoc]
      have h2 := encItem_len_ge it
      have hrf : (encItems r ++ R).length < f := by
        rw [hassoc, List.length_append] at hf; omega
      have hsub : f + 1 - (it :: r).length = f - r.length := by simp
      rw [hassoc, loop_step fs ic hn it _ f off pos acc hpos hit (by rw [← hassoc]; exact hf),
        loop_prefix_m fs ic hn R r f _ _ _ hrest hrf, hsub]
      simp [runItems, endPos, encItems, Nat.add_assoc]

/-- without marker fields nothing is recorded on the way: the accumulator is the plain fold -/
theorem runItems_wf (fs : List Schema) (hw : wfFs fs = true) :
    ∀ (items : List Item) (pos off : Nat) (acc : List Value),
      runItems fs pos off acc items = items.foldl applyItem acc
  | [], _, _, _ => rfl
  | it :: r, pos, off, acc => by
    simp only [runItems, List.foldl, skipMarkers_id fs acc _ _ _ hw]
    exact runItems_wf fs hw r _ _ _

/-- the scan loop consumes a prefix of recognised elements and continues on what follows -/
theorem loop_prefix (fs : List Schema) (ic : Bool) (hw : wfFs fs = true) (hn : nodupB (typs fs) = true)
    (R : Bytes) (items : List Item) (fuel off pos : Nat) (acc : List Value)
    (hok : ItemsOK fs pos items) (hf : (encItems items ++ R).length < fuel) :
    parseFields fuel fs ic (encItems items ++ R) off pos acc =
      parseFields (fuel - items.length) fs ic R (off + (encItems items).length) (endPos pos items)
        (items.foldl applyItem acc) := by
  rw [loop_prefix_m fs ic hn R items fuel off pos acc hok hf, runItems_wf fs hw]

theorem loop_items (fs : List Schema) (ic : Bool) (hw : wfFs fs = true) (hn : nodupB (typs fs) = true)
    (items : List Item) (fuel off pos : Nat) (acc : List Value)
    (hok : ItemsOK fs pos items) (hf : (encItems items).length < fuel) :
    parseFields fuel fs ic (encItems items) off pos acc = .ok (items.foldl applyItem acc) := by
  have := loop_prefix fs ic hw hn [] items fuel off pos acc hok (by simpa using hf)
  rw [List.append_nil] at this
  rw [this]
  have h2 := encItems_len_ge items
  have : fuel - items.length = (fuel - items.length - 1) + 1 := by omega
  rw [this]; simp [parseFields]

end Ndn.Codec

namespace Ndn.Codec
open Ndn

theorem findField_none : ∀ (fs : List Schema) (pos t : Nat), t ∉ typs fs → findField fs pos t = none
  | [], _, _, _ => rfl
  | a :: r, pos, t, h => by
    have hr : t ∉ typs r := by
      intro hm; apply h; simp only [typs]; split
      · exact List.mem_cons_of_mem _ hm
      · exact hm
    have ha : a.typ ≠ some t := by
      intro e; apply h; simp [typs, e]
    unfold findField
    split
    · simp [ha, findField_none r 0 t hr]
    · simp [findField_none r (pos - 1) t hr]

/-- an unrecognised non-critical element (or any unrecognised element when critical fields are
    ignored) is skipped: state and position unchanged -/
theorem junk_skip (fs : List Schema) (ic : Bool) (t : Nat) (x R : Bytes) (f off pos : Nat)
    (acc : List Value) (ht : t < 2 ^ 64) (hx : x.length < 2 ^ 64) (hnot : t ∉ typs fs)
    (hcrit : t % 2 = 0 ∨ ic = true) :
    parseFields (f + 1) fs ic (tlv t x ++ R) off pos acc =
      parseFields f fs ic R (off + (tlv t x).length) pos acc := by
  obtain ⟨p1, p2, _, _, s3⟩ := head_elem t x R ht hx
  have hne : (tlv t x ++ R).isEmpty = false := by
    cases h : tlv t x ++ R with
    | nil => simp at h; exact absurd h.1 (tlv_ne_nil t x)
    | cons _ _ => rfl
  conv => lhs; unfold parseFields
  simp only [hne, Bool.false_eq_true, if_false, p1, p2, bind, Except.bind, findField_none fs pos t hnot, s3]
  have : ¬ (t % 2 = 1 ∧ ¬ ic = true) := by
    rcases hcrit with h | h
    · omega
    · simp [h]
  simp only [this, if_false, tlv_length, Nat.add_assoc]

/-- an unrecognised critical element is rejected with DecodeError -/
theorem junk_reject (fs : List Schema) (t : Nat) (x R : Bytes) (f off pos : Nat)
    (acc : List Value) (ht : t < 2 ^ 64) (hx : x.length < 2 ^ 64) (hnot : t ∉ typs fs)
    (hodd : t % 2 = 1) :
    parseFields (f + 1) fs false (tlv t x ++ R) off pos acc = .error .decodeError := by
  obtain ⟨p1, p2, _, _, _⟩ := head_elem t x R ht hx
  have hne : (tlv t x ++ R).isEmpty = false := by
    cases h : tlv t x ++ R with
    | nil => simp at h; exact absurd h.1 (tlv_ne_nil t x)
    | cons _ _ => rfl
  unfold parseFields
  simp [hne, p1, p2, bind, Except.bind, findField_none fs pos t hnot, hodd]

theorem ItemsOK_split (fs : List Schema) : ∀ (l1 l2 : List Item) (p : Nat),
    ItemsOK fs p (l1 ++ l2) → ItemsOK fs p l1 ∧ ItemsOK fs (endPos p l1) l2
  | [], _, _, h => ⟨trivial, h⟩
  | it :: r, l2, p, ⟨h1, h2, h3⟩ => by
    obtain ⟨a, b⟩ := ItemsOK_split fs r l2 (nextPos it) h3
    exact ⟨⟨h1, h2, a⟩, b⟩

end Ndn.Codec

/-! ### a MapField entry with an unrecognised element between the key and its value -/
namespace Ndn.Codec
open Ndn

theorem findMapValue_hit (vt : Option Nat) (ic : Bool) (t : Nat) (body R : Bytes) (f off : Nat)
    (hvt : vt = some t) (ht : t < 2 ^ 64) (hb : body.length < 2 ^ 64) :
    findMapValue (f + 1) vt ic (tlv t body ++ R) off =
      .ok (body.length, body, tlv t body ++ R, R, off + (tlNumSize t + tlNumSize body.length) + body.length) := by
  obtain ⟨q1, q2, r1, _, r3⟩ := head_elem t body R ht hb
  simp only [findMapValue, q1, q2, bind, Except.bind, hvt, if_true, r1, r3, pure, Except.pure]

/-- between a key and its value every element that does not carry the value Type is skipped when it is
    non-critical (or critical fields are ignored) -/
theorem findMapValue_skip (vt : Option Nat) (ic : Bool) (t : Nat) (x R : Bytes) (f off : Nat)
    (ht : t < 2 ^ 64) (hx : x.length < 2 ^ 64) (hne : some t ≠ vt) (hcrit : t % 2 = 0 ∨ ic = true) :
    findMapValue (f + 1) vt ic (tlv t x ++ R) off =
      findMapValue f vt ic R (off + (tlNumSize t + tlNumSize x.length) + x.length) := by
  obtain ⟨q1, q2, _, _, r3⟩ := head_elem t x R ht hx
  have : ¬ (t % 2 = 1 ∧ ¬ ic = true) := by
    rcases hcrit with h | h
    · omega
    · simp [h]
  simp only [findMapValue, q1, q2, bind, Except.bind, hne, if_false, this, r3]

/-- … and rejected with DecodeError when it is critical -/
theorem findMapValue_reject (vt : Option Nat) (t : Nat) (x R : Bytes) (f off : Nat)
    (ht : t < 2 ^ 64) (hx : x.length < 2 ^ 64) (hne : some t ≠ vt) (hodd : t % 2 = 1) :
    findMapValue (f + 1) vt false (tlv t x ++ R) off = .error .decodeError := by
  obtain ⟨q1, q2, _, _, _⟩ := head_elem t x R ht hx
  simp [findMapValue, q1, q2, bind, Except.bind, hne, hodd]

/-- what the scan loop does with the result of the search for the value element -/
def afterKey (fs : List Schema) (ic : Bool) (f : Nat) (idx : Nat) (key : Value) (vs : Schema) (acc1 : List Value) :
    Except PyErr (Nat × Bytes × Bytes × Bytes × Nat) → Except PyErr (List Value)
  | .error e => .error e
  | .ok (len2, body2, elem2, rest3, off3) => do
    leafCheck vs len2 body2
    let v ← parseValue f vs body2 elem2
    parseFields f fs ic rest3 off3 idx (acc1.set idx (.map (mapSet (mapOf acc1[idx]?) key v)))

/-- one iteration of the scan loop on the key element of a map entry, whatever follows it -/
theorem loop_step_key (fs : List Schema) (ic : Bool) (hn : nodupB (typs fs) = true) (it : Item)
    (ks vs : Schema) (hk : it.fld = .map ks vs) (G : Bytes)
    (f off pos : Nat) (acc : List Value) (hpos : pos ≤ it.idx) (hok : ItemOK fs it)
    (hf : (tlv it.t it.body).length < f + 1) :
    parseFields (f + 1) fs ic (tlv it.t it.body ++ G) off pos acc =
      afterKey fs ic f it.idx it.v vs (skipMarkers fs acc pos it.idx off)
        (findMapValue f vs.typ ic G (off + (tlNumSize it.t + tlNumSize it.body.length) + it.body.length)) := by
  obtain ⟨hfld, hpr, htyp, ht, hb, hleaf, hpv, _⟩ := hok
  obtain ⟨p1, p2, s1, _, s3⟩ := head_elem it.t it.body G ht hb
  have hne : (tlv it.t it.body ++ G).isEmpty = false := by
    cases h : tlv it.t it.body ++ G with
    | nil => simp at h; exact absurd h.1 (tlv_ne_nil _ _)
    | cons _ _ => rfl
  have hfind := findField_ok fs pos it.idx it.fld it.t hn hfld htyp hpos
  have hfuel : it.body.length + 2 ≤ f := by
    have := tlNumSize_pos it.t; have := tlNumSize_pos it.body.length
    rw [tlv_length] at hf; omega
  conv => lhs; unfold parseFields
  simp only [hne, Bool.false_eq_true, if_false]
  simp only [p1, p2, bind, Except.bind, s1, s3, hfind, hfld]
  simp only [hk, elemOf] at hleaf hpv
  simp only [hk, hleaf, hpv f _ hfuel]
  cases findMapValue f vs.typ ic G (off + (tlNumSize it.t + tlNumSize it.body.length) + it.body.length) with
  | error e => rfl
  | ok r => rfl

/-- a map entry with a skippable element between key and value is consumed like the entry itself -/
theorem loop_step_gap (fs : List Schema) (ic : Bool) (hn : nodupB (typs fs) = true) (it : Item) (m : MapVal)
    (hmv : it.mv = some m) (t : Nat) (x R : Bytes) (f off pos : Nat) (acc : List Value)
    (hpos : pos ≤ it.idx) (hok : ItemOK fs it)
    (ht : t < 2 ^ 64) (hx : x.length < 2 ^ 64) (hne : t ≠ m.t) (hcrit : t % 2 = 0 ∨ ic = true)
    (hf : (tlv it.t it.body ++ (tlv t x ++ (tlv m.t m.body ++ R))).length < f + 1) :
    parseFields (f + 1) fs ic (tlv it.t it.body ++ (tlv t x ++ (tlv m.t m.body ++ R))) off pos acc =
      parseFields f fs ic R (off + (encItem it).length + (tlv t x).length) (nextPos it)
        (applyItem (skipMarkers fs acc pos it.idx off) it) := by
  obtain ⟨ks, vs, hk, hvt, hmt, hmb, hleaf2, hpv2⟩ :
      ∃ ks vs, it.fld = .map ks vs ∧ vs.typ = some m.t ∧ m.t < 2 ^ 64 ∧ m.body.length < 2 ^ 64 ∧
        leafCheck vs m.body.length m.body = .ok () ∧
        ∀ fuel R, m.body.length + 2 ≤ fuel → parseValue fuel vs m.body (tlv m.t m.body ++ R) = .ok m.v := by
    simpa [TailOK, hmv] using hok.2.2.2.2.2.2.2
  have h1 := tlNumSize_pos it.t; have h2 := tlNumSize_pos it.body.length
  have h3 := tlNumSize_pos t; have h4 := tlNumSize_pos x.length
  have h5 := tlNumSize_pos m.t; have h6 := tlNumSize_pos m.body.length
  simp only [List.length_append, tlv_length] at hf
  rw [loop_step_key fs ic hn it ks vs hk _ f off pos acc hpos hok (by rw [tlv_length]; omega)]
  obtain ⟨f1, rfl⟩ : ∃ f1, f = f1 + 1 := ⟨f - 1, by omega⟩
  rw [findMapValue_skip vs.typ ic t x _ f1 _ ht hx (by rw [hvt]; simpa using hne) hcrit]
  obtain ⟨f2, rfl⟩ : ∃ f2, f1 = f2 + 1 := ⟨f1 - 1, by omega⟩
  rw [findMapValue_hit vs.typ ic m.t m.body R f2 _ hvt hmt hmb]
  simp only [afterKey, hleaf2, hpv2 (f2 + 1 + 1) _ (by omega), bind, Except.bind]
  have hel : (encItem it).length = tlNumSize it.t + tlNumSize it.body.length + it.body.length +
      (tlNumSize m.t + tlNumSize m.body.length + m.body.length) := by
    simp [encItem, encTail, hmv, tlv_length]
  rw [hel]
  simp [applyItem, hmv, hk, isRep, isMapS, nextPos, tlv_length, Nat.add_assoc, Nat.add_left_comm, Nat.add_comm]

/-- a critical element between key and value: DecodeError -/
theorem loop_step_gap_reject (fs : List Schema) (hn : nodupB (typs fs) = true) (it : Item) (m : MapVal)
    (hmv : it.mv = some m) (t : Nat) (x R : Bytes) (f off pos : Nat) (acc : List Value)
    (hpos : pos ≤ it.idx) (hok : ItemOK fs it)
    (ht : t < 2 ^ 64) (hx : x.length < 2 ^ 64) (hne : t ≠ m.t) (hodd : t % 2 = 1)
    (hf : (tlv it.t it.body ++ (tlv t x ++ R)).length < f + 1) :
    parseFields (f + 1) fs false (tlv it.t it.body ++ (tlv t x ++ R)) off pos acc = .error .decodeError := by
  obtain ⟨ks, vs, hk, hvt, _⟩ :
      ∃ ks vs, it.fld = .map ks vs ∧ vs.typ = some m.t ∧ m.t < 2 ^ 64 ∧ m.body.length < 2 ^ 64 ∧
        leafCheck vs m.body.length m.body = .ok () ∧
        ∀ fuel R, m.body.length + 2 ≤ fuel → parseValue fuel vs m.body (tlv m.t m.body ++ R) = .ok m.v := by
    simpa [TailOK, hmv] using hok.2.2.2.2.2.2.2
  have h1 := tlNumSize_pos it.t; have h2 := tlNumSize_pos it.body.length
  have h3 := tlNumSize_pos t; have h4 := tlNumSize_pos x.length
  simp only [List.length_append, tlv_length] at hf
  rw [loop_step_key fs false hn it ks vs hk _ f off pos acc hpos hok (by rw [tlv_length]; omega)]
  obtain ⟨f1, rfl⟩ : ∃ f1, f = f1 + 1 := ⟨f - 1, by omega⟩
  rw [findMapValue_reject vs.typ t x _ f1 _ ht hx (by rw [hvt]; simpa using hne) hodd]
  rfl

end Ndn.Codec
