import NdnProofs.Lemmas.CodecParse
/-! The scan loop of `TlvModel.parse` on a concatenation of recognised elements ("items"). -/
namespace Ndn.Codec
open Ndn

structure Item where
  idx : Nat
  fld : Schema      -- the field found at `idx` (a plain field or `repeated e`)
  v : Value         -- the value `parse_from` yields for this element
  t : Nat
  body : Bytes

def isRep : Schema → Bool
  | .repeated _ => true
  | _ => false

def applyItem (acc : List Value) (it : Item) : List Value :=
  if isRep it.fld then
    acc.set it.idx (.list (listOf acc[it.idx]? ++ [it.v]))
  else acc.set it.idx it.v

def nextPos (it : Item) : Nat := if isRep it.fld then it.idx else it.idx + 1

def plainOrRep : Schema → Bool
  | .map _ _ => false
  | .marker => false
  | _ => true

/-- the schema an element of field `fld` is parsed with -/
def elemOf : Schema → Schema
  | .repeated e => e
  | s => s

def ItemOK (fs : List Schema) (it : Item) : Prop :=
  fs[it.idx]? = some it.fld ∧ plainOrRep it.fld = true ∧ it.fld.typ = some it.t ∧ it.t < 2 ^ 64 ∧
  it.body.length < 2 ^ 64 ∧ leafCheck (elemOf it.fld) it.body.length it.body = .ok () ∧
  ∀ fuel R, it.body.length + 2 ≤ fuel →
    parseValue fuel (elemOf it.fld) it.body (tlv it.t it.body ++ R) = .ok it.v

def ItemsOK (fs : List Schema) : Nat → List Item → Prop
  | _, [] => True
  | pos, it :: r => pos ≤ it.idx ∧ ItemOK fs it ∧ ItemsOK fs (nextPos it) r

def encItems : List Item → Bytes
  | [] => []
  | it :: r => tlv it.t it.body ++ encItems r

def endPos : Nat → List Item → Nat
  | p, [] => p
  | _, it :: r => endPos (nextPos it) r

theorem encItems_len_ge : ∀ (items : List Item), 2 * items.length ≤ (encItems items).length
  | [] => by simp [encItems]
  | it :: r => by
    have := encItems_len_ge r
    have := tlNumSize_pos it.t; have := tlNumSize_pos it.body.length
    simp [encItems, tlv_length]; omega

/-- the scan loop consumes a prefix of recognised elements and continues on what follows -/
theorem loop_prefix (fs : List Schema) (ic : Bool) (hw : wfFs fs = true) (hn : nodupB (typs fs) = true)
    (R : Bytes) :
    ∀ (items : List Item) (fuel off pos : Nat) (acc : List Value),
      ItemsOK fs pos items → (encItems items ++ R).length < fuel →
      parseFields fuel fs ic (encItems items ++ R) off pos acc =
        parseFields (fuel - items.length) fs ic R (off + (encItems items).length) (endPos pos items)
          (items.foldl applyItem acc)
  | [], fuel, off, pos, acc, _, _ => by simp [encItems, endPos]
  | it :: r, fuel, off, pos, acc, hok, hf => by
    obtain ⟨hpos, ⟨hfld, hpr, htyp, ht, hb, hleaf, hpv⟩, hrest⟩ := hok
    cases fuel with
    | zero => simp at hf
    | succ f =>
      have hassoc : encItems (it :: r) ++ R = tlv it.t it.body ++ (encItems r ++ R) := by
        simp [encItems, List.append_assoc]
      obtain ⟨p1, p2, s1, s2, s3⟩ := head_elem it.t it.body (encItems r ++ R) ht hb
      have hlen : (encItems (it :: r) ++ R).length =
          tlNumSize it.t + tlNumSize it.body.length + it.body.length + (encItems r ++ R).length := by
        rw [hassoc]; simp [tlv_length]
      have hne : (encItems (it :: r) ++ R).isEmpty = false := by
        cases h : encItems (it :: r) ++ R with
        | nil => have := congrArg List.length h; rw [hlen] at this; have := tlNumSize_pos it.t; simp at *; omega
        | cons _ _ => rfl
      have hfind := findField_ok fs pos it.idx it.fld it.t hn hfld htyp hpos
      have hfuel : it.body.length + 2 ≤ f := by
        have := tlNumSize_pos it.t; have := tlNumSize_pos it.body.length; omega
      have hrf : (encItems r ++ R).length < f := by
        have := tlNumSize_pos it.t; omega
      have ih := loop_prefix fs ic hw hn R r f
      have hoff : ∀ o : Nat, o + (tlNumSize it.t + tlNumSize it.body.length) + it.body.length + (encItems r).length
          = o + (encItems (it :: r)).length := by
        intro o; simp [encItems, tlv_length]; omega
      have hsub : f + 1 - (it :: r).length = f - r.length := by simp
      conv => lhs; unfold parseFields
      simp only [hne, Bool.false_eq_true, if_false]
      rw [hassoc]
      simp only [p1, p2, bind, Except.bind, s1, s2, s3, hfind, skipMarkers_id fs acc _ _ _ hw, hfld]
      cases hk : it.fld with
      | map k v => simp [hk, plainOrRep] at hpr
      | marker => simp [hk, plainOrRep] at hpr
      | repeated e =>
        simp only [hk, elemOf] at hleaf hpv
        simp only [hleaf, hpv f _ hfuel]
        have hnp : nextPos it = it.idx := by simp [nextPos, hk, isRep]
        rw [ih _ _ _ (hnp ▸ hrest) hrf, hoff, hsub]
        simp [List.foldl, applyItem, hk, isRep, endPos, hnp]
      | uint t fl =>
        simp only [hk, elemOf] at hleaf hpv
        simp only [hleaf, hpv f _ hfuel]
        have hnp : nextPos it = it.idx + 1 := by simp [nextPos, hk, isRep]
        rw [ih _ _ _ (hnp ▸ hrest) hrf, hoff, hsub]
        simp [List.foldl, applyItem, hk, isRep, endPos, hnp]
      | bool t =>
        simp only [hk, elemOf] at hleaf hpv
        simp only [hleaf, hpv f _ hfuel]
        have hnp : nextPos it = it.idx + 1 := by simp [nextPos, hk, isRep]
        rw [ih _ _ _ (hnp ▸ hrest) hrf, hoff, hsub]
        simp [List.foldl, applyItem, hk, isRep, endPos, hnp]
      | bytes t s =>
        simp only [hk, elemOf] at hleaf hpv
        simp only [hleaf, hpv f _ hfuel]
        have hnp : nextPos it = it.idx + 1 := by simp [nextPos, hk, isRep]
        rw [ih _ _ _ (hnp ▸ hrest) hrf, hoff, hsub]
        simp [List.foldl, applyItem, hk, isRep, endPos, hnp]
      | name t =>
        simp only [hk, elemOf] at hleaf hpv
        simp only [hleaf, hpv f _ hfuel]
        have hnp : nextPos it = it.idx + 1 := by simp [nextPos, hk, isRep]
        rw [ih _ _ _ (hnp ▸ hrest) hrf, hoff, hsub]
        simp [List.foldl, applyItem, hk, isRep, endPos, hnp]
      | model t fs' ic' =>
        simp only [hk, elemOf] at hleaf hpv
        simp only [hleaf, hpv f _ hfuel]
        have hnp : nextPos it = it.idx + 1 := by simp [nextPos, hk, isRep]
        rw [ih _ _ _ (hnp ▸ hrest) hrf, hoff, hsub]
        simp [List.foldl, applyItem, hk, isRep, endPos, hnp]

/-- state of the accumulator after the scan loop processed `items` from position `pos`, offset `off`:
    OffsetMarker fields skipped over on the way to an element record that element's offset -/
def runItems (fs : List Schema) : Nat → Nat → List Value → List Item → List Value
  | _, _, acc, [] => acc
  | pos, off, acc, it :: r =>
    runItems fs (nextPos it) (off + (tlv it.t it.body).length)
      (applyItem (skipMarkers fs acc pos it.idx off) it) r

/-- marker-aware version of `loop_prefix` (no assumption that the schema is marker-free) -/
theorem loop_prefix_m (fs : List Schema) (ic : Bool) (hn : nodupB (typs fs) = true)
    (R : Bytes) :
    ∀ (items : List Item) (fuel off pos : Nat) (acc : List Value),
      ItemsOK fs pos items → (encItems items ++ R).length < fuel →
      parseFields fuel fs ic (encItems items ++ R) off pos acc =
        parseFields (fuel - items.length) fs ic R (off + (encItems items).length) (endPos pos items)
          (runItems fs pos off acc items)
  | [], fuel, off, pos, acc, _, _ => by simp [encItems, endPos, runItems]
  | it :: r, fuel, off, pos, acc, hok, hf => by
    obtain ⟨hpos, ⟨hfld, hpr, htyp, ht, hb, hleaf, hpv⟩, hrest⟩ := hok
    cases fuel with
    | zero => simp at hf
    | succ f =>
      have hassoc : encItems (it :: r) ++ R = tlv it.t it.body ++ (encItems r ++ R) := by
        simp [encItems, List.append_assoc]
      obtain ⟨p1, p2, s1, s2, s3⟩ := head_elem it.t it.body (encItems r ++ R) ht hb
      have hlen : (encItems (it :: r) ++ R).length =
          tlNumSize it.t + tlNumSize it.body.length + it.body.length + (encItems r ++ R).length := by
        rw [hassoc]; simp [tlv_length]
      have hne : (encItems (it :: r) ++ R).isEmpty = false := by
        cases h : encItems (it :: r) ++ R with
        | nil => have := congrArg List.length h; rw [hlen] at this; have := tlNumSize_pos it.t; simp at *; omega
        | cons _ _ => rfl
      have hfind := findField_ok fs pos it.idx it.fld it.t hn hfld htyp hpos
      have hfuel : it.body.length + 2 ≤ f := by
        have := tlNumSize_pos it.t; have := tlNumSize_pos it.body.length; omega
      have hrf : (encItems r ++ R).length < f := by
        have := tlNumSize_pos it.t; omega
      have ih := loop_prefix_m fs ic hn R r f
      have hoff : ∀ o : Nat, o + (tlNumSize it.t + tlNumSize it.body.length) + it.body.length + (encItems r).length
          = o + (encItems (it :: r)).length := by
        intro o; simp [encItems, tlv_length]; omega
      have hsub : f + 1 - (it :: r).length = f - r.length := by simp
      conv => lhs; unfold parseFields
      simp only [hne, Bool.false_eq_true, if_false]
      rw [hassoc]
      simp only [p1, p2, bind, Except.bind, s1, s2, s3, hfind, hfld]
      cases hk : it.fld with
      | map k v => simp [hk, plainOrRep] at hpr
      | marker => simp [hk, plainOrRep] at hpr
      | repeated e =>
        simp only [hk, elemOf] at hleaf hpv
        simp only [hleaf, hpv f _ hfuel]
        have hnp : nextPos it = it.idx := by simp [nextPos, hk, isRep]
        rw [ih _ _ _ (hnp ▸ hrest) hrf, hoff, hsub]
        simp [runItems, applyItem, hk, isRep, endPos, hnp, encItems, tlv_length, Nat.add_assoc]
      | uint t fl =>
        simp only [hk, elemOf] at hleaf hpv
        simp only [hleaf, hpv f _ hfuel]
        have hnp : nextPos it = it.idx + 1 := by simp [nextPos, hk, isRep]
        rw [ih _ _ _ (hnp ▸ hrest) hrf, hoff, hsub]
        simp [runItems, applyItem, hk, isRep, endPos, hnp, encItems, tlv_length, Nat.add_assoc]
      | bool t =>
        simp only [hk, elemOf] at hleaf hpv
        simp only [hleaf, hpv f _ hfuel]
        have hnp : nextPos it = it.idx + 1 := by simp [nextPos, hk, isRep]
        rw [ih _ _ _ (hnp ▸ hrest) hrf, hoff, hsub]
        simp [runItems, applyItem, hk, isRep, endPos, hnp, encItems, tlv_length, Nat.add_assoc]
      | bytes t s =>
        simp only [hk, elemOf] at hleaf hpv
        simp only [hleaf, hpv f _ hfuel]
        have hnp : nextPos it = it.idx + 1 := by simp [nextPos, hk, isRep]
        rw [ih _ _ _ (hnp ▸ hrest) hrf, hoff, hsub]
        simp [runItems, applyItem, hk, isRep, endPos, hnp, encItems, tlv_length, Nat.add_assoc]
      | name t =>
        simp only [hk, elemOf] at hleaf hpv
        simp only [hleaf, hpv f _ hfuel]
        have hnp : nextPos it = it.idx + 1 := by simp [nextPos, hk, isRep]
        rw [ih _ _ _ (hnp ▸ hrest) hrf, hoff, hsub]
        simp [runItems, applyItem, hk, isRep, endPos, hnp, encItems, tlv_length, Nat.add_assoc]
      | model t fs' ic' =>
        simp only [hk, elemOf] at hleaf hpv
        simp only [hleaf, hpv f _ hfuel]
        have hnp : nextPos it = it.idx + 1 := by simp [nextPos, hk, isRep]
        rw [ih _ _ _ (hnp ▸ hrest) hrf, hoff, hsub]
        simp [runItems, applyItem, hk, isRep, endPos, hnp, encItems, tlv_length, Nat.add_assoc]

theorem loop_items (fs : List Schema) (ic : Bool) (hw : wfFs fs = true) (hn : nodupB (typs fs) = true)
    (items : List Item) (fuel off pos : Nat) (acc : List Value)
    (hok : ItemsOK fs pos items) (hf : (encItems items).length < fuel) :
    parseFields fuel fs ic (encItems items) off pos acc = .ok (items.foldl applyItem acc) := by
  have := loop_prefix fs ic hw hn [] items fuel off pos acc hok (by simpa using hf)
  rw [List.append_nil] at this
  rw [this]
  have h2 := encItems_len_ge items
  have : fuel - items.length = (fuel - items.length - 1) + 1 := by omega
  rw [this]; simp [parseFields]

end Ndn.Codec

namespace Ndn.Codec
open Ndn

theorem findField_none : ∀ (fs : List Schema) (pos t : Nat), t ∉ typs fs → findField fs pos t = none
  | [], _, _, _ => rfl
  | a :: r, pos, t, h => by
    have hr : t ∉ typs r := by
      intro hm; apply h; simp only [typs]; split
      · exact List.mem_cons_of_mem _ hm
      · exact hm
    have ha : a.typ ≠ some t := by
      intro e; apply h; simp [typs, e]
    unfold findField
    split
    · simp [ha, findField_none r 0 t hr]
    · simp [findField_none r (pos - 1) t hr]

/-- an unrecognised non-critical element (or any unrecognised element when critical fields are
    ignored) is skipped: state and position unchanged -/
theorem junk_skip (fs : List Schema) (ic : Bool) (t : Nat) (x R : Bytes) (f off pos : Nat)
    (acc : List Value) (ht : t < 2 ^ 64) (hx : x.length < 2 ^ 64) (hnot : t ∉ typs fs)
    (hcrit : t % 2 = 0 ∨ ic = true) :
    parseFields (f + 1) fs ic (tlv t x ++ R) off pos acc =
      parseFields f fs ic R (off + (tlv t x).length) pos acc := by
  obtain ⟨p1, p2, _, _, s3⟩ := head_elem t x R ht hx
  have hne : (tlv t x ++ R).isEmpty = false := by
    cases h : tlv t x ++ R with
    | nil => simp at h; exact absurd h.1 (tlv_ne_nil t x)
    | cons _ _ => rfl
  conv => lhs; unfold parseFields
  simp only [hne, Bool.false_eq_true, if_false, p1, p2, bind, Except.bind, findField_none fs pos t hnot, s3]
  have : ¬ (t % 2 = 1 ∧ ¬ ic = true) := by
    rcases hcrit with h | h
    · omega
    · simp [h]
  simp only [this, if_false, tlv_length, Nat.add_assoc]

/-- an unrecognised critical element is rejected with DecodeError -/
theorem junk_reject (fs : List Schema) (t : Nat) (x R : Bytes) (f off pos : Nat)
    (acc : List Value) (ht : t < 2 ^ 64) (hx : x.length < 2 ^ 64) (hnot : t ∉ typs fs)
    (hodd : t % 2 = 1) :
    parseFields (f + 1) fs false (tlv t x ++ R) off pos acc = .error .decodeError := by
  obtain ⟨p1, p2, _, _, _⟩ := head_elem t x R ht hx
  have hne : (tlv t x ++ R).isEmpty = false := by
    cases h : tlv t x ++ R with
    | nil => simp at h; exact absurd h.1 (tlv_ne_nil t x)
    | cons _ _ => rfl
  unfold parseFields
  simp [hne, p1, p2, bind, Except.bind, findField_none fs pos t hnot, hodd]

theorem ItemsOK_split (fs : List Schema) : ∀ (l1 l2 : List Item) (p : Nat),
    ItemsOK fs p (l1 ++ l2) → ItemsOK fs p l1 ∧ ItemsOK fs (endPos p l1) l2
  | [], _, _, h => ⟨trivial, h⟩
  | it :: r, l2, p, ⟨h1, h2, h3⟩ => by
    obtain ⟨a, b⟩ := ItemsOK_split fs r l2 (nextPos it) h3
    exact ⟨⟨h1, h2, a⟩, b⟩

end Ndn.Codec
