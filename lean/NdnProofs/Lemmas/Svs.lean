import NdnModel.Svs
import NdnProofs.Lemmas.PyDict
/-! Helper lemmas for the state-vector-sync model. -/
namespace Ndn.Svs
open Ndn

theorem vget_set (d : Vec) (k k' : Bytes) (v : Nat) :
    vget (PyDict.set d k v) k' = if k = k' then v else vget d k' := by
  unfold vget; rw [PyDict.get?_set]; split <;> simp

/-- entry-wise maximum contributed by a list of (id, seq) pairs -/
def lmax : List (Bytes × Nat) → Bytes → Nat
  | [], _ => 0
  | (i, q) :: r, k => if i = k then max q (lmax r k) else lmax r k

theorem lmax_eq_vget (d : Vec) (h : (PyDict.keys d).Nodup) (k : Bytes) : lmax d k = vget d k := by
  induction d with
  | nil => simp [lmax, vget, PyDict.get?]
  | cons p r ih =>
    obtain ⟨a, b⟩ := p
    simp only [PyDict.keys, List.map_cons, List.nodup_cons] at h
    by_cases e : a = k
    · subst e
      have : lmax r a = 0 := by
        have hn := h.1
        clear ih h
        induction r with
        | nil => simp [lmax]
        | cons p' r' ih' =>
          obtain ⟨a', b'⟩ := p'
          simp only [List.map_cons, List.mem_cons, not_or] at hn
          have : ¬ a' = a := fun e => hn.1 e.symm
          simp only [lmax, this, if_false]; exact ih' hn.2
      simp [lmax, vget, PyDict.get?, this]
    · simp only [lmax, e, if_false, vget, PyDict.get?]
      exact ih h.2

/-- result of the merge loop, as a function -/
theorem mergeLoop_loc (rsv : List (Bytes × Nat)) (loc : Vec) (nf nn : Bool) (k : Bytes) :
    vget (mergeLoop rsv loc nf nn).1 k = max (vget loc k) (lmax rsv k) := by
  induction rsv generalizing loc nf nn with
  | nil => simp [mergeLoop, lmax]
  | cons p r ih =>
    obtain ⟨i, q⟩ := p
    simp only [mergeLoop]
    split
    · rw [ih, vget_set]; simp only [lmax]; split
      · subst_vars; omega
      · rfl
    · split
      · rw [ih]; simp only [lmax]; split
        · subst_vars; omega
        · rfl
      · rw [ih]; simp only [lmax]; split
        · subst_vars; omega
        · rfl

theorem mergeLoop_nodup (rsv : List (Bytes × Nat)) (loc : Vec) (nf nn : Bool)
    (h : (PyDict.keys loc).Nodup) : (PyDict.keys (mergeLoop rsv loc nf nn).1).Nodup := by
  induction rsv generalizing loc nf nn with
  | nil => simpa [mergeLoop]
  | cons p r ih =>
    obtain ⟨i, q⟩ := p
    simp only [mergeLoop]
    split
    · exact ih _ _ _ (PyDict.nodup_keys_set _ _ _ h)
    · split <;> exact ih _ _ _ h

/-- need_fetch is set exactly when some entry is raised -/
theorem mergeLoop_nf (rsv : List (Bytes × Nat)) (loc : Vec) (nf nn : Bool) :
    (mergeLoop rsv loc nf nn).2.1 = true ↔
      (nf = true ∨ ∃ k, vget loc k < vget (mergeLoop rsv loc nf nn).1 k) := by
  induction rsv generalizing loc nf nn with
  | nil => simp [mergeLoop]
  | cons p r ih =>
    obtain ⟨i, q⟩ := p
    simp only [mergeLoop]
    split
    · rename_i hlt
      rw [ih]
      constructor
      · intro _
        right; refine ⟨i, ?_⟩
        rw [mergeLoop_loc, vget_set]; simp; omega
      · intro _; left; rfl
    · split
      · rw [ih]
      · rw [ih]

theorem aggregate_vget (rsv : List (Bytes × Nat)) (agg : Vec) (k : Bytes) :
    vget (aggregate rsv agg) k = max (vget agg k) (lmax rsv k) := by
  induction rsv generalizing agg with
  | nil => simp [aggregate, lmax]
  | cons p r ih =>
    obtain ⟨i, q⟩ := p
    simp only [aggregate]; rw [ih, vget_set]; simp only [lmax]; split
    · subst_vars; omega
    · rfl

/-- the vector denoted by decoded entries, as a function (entries lacking NodeId or SeqNo are not
    part of it; for a repeated id the last entry wins — Python dict semantics) -/
def vecOfF : List Entry → (Bytes → Nat) → (Bytes → Nat)
  | [], f => f
  | (some i, some q) :: r, f => if i = [] then vecOfF r f else vecOfF r (fun k => if i = k then q else f k)
  | _ :: r, f => vecOfF r f

def vecOf (es : List Entry) : Bytes → Nat := vecOfF es (fun _ => 0)

/-- some entry claims more data for this node than it has produced -/
def overclaims (selfId : Bytes) (selfSeq : Nat) (es : List Entry) : Prop :=
  ∃ q, (some selfId, some q) ∈ es ∧ selfId ≠ [] ∧ selfSeq < q

theorem buildRsv_none_iff (selfId : Bytes) (selfSeq : Nat) (es : List Entry) (acc : Vec) :
    buildRsv selfId selfSeq es acc = none ↔ overclaims selfId selfSeq es := by
  induction es generalizing acc with
  | nil => simp [buildRsv, overclaims]
  | cons e r ih =>
    obtain ⟨nid, seq⟩ := e
    have hcons : ∀ (P : Prop), (overclaims selfId selfSeq ((nid, seq) :: r) ↔
        ((∃ q, nid = some selfId ∧ seq = some q ∧ selfId ≠ [] ∧ selfSeq < q) ∨ overclaims selfId selfSeq r)) := by
      intro _
      unfold overclaims
      constructor
      · rintro ⟨q, hm, h1, h2⟩
        simp only [List.mem_cons, Prod.mk.injEq] at hm
        rcases hm with ⟨rfl, rfl⟩ | hm
        · left; exact ⟨q, rfl, rfl, h1, h2⟩
        · right; exact ⟨q, hm, h1, h2⟩
      · rintro (⟨q, rfl, rfl, h1, h2⟩ | ⟨q, hm, h1, h2⟩)
        · exact ⟨q, by simp, h1, h2⟩
        · exact ⟨q, List.mem_cons_of_mem _ hm, h1, h2⟩
    rw [hcons True]
    cases nid with
    | none => simp [buildRsv, ih]
    | some i =>
      cases seq with
      | none => simp [buildRsv, ih]
      | some q =>
        simp only [buildRsv]
        by_cases hi : i = []
        · simp only [hi, if_true, ih]
          constructor
          · intro h; exact Or.inr h
          · rintro (⟨q', h1, _, h3, _⟩ | h)
            · simp at h1; exact absurd h1 h3
            · exact h
        · simp only [hi, if_false]
          by_cases hs : i = selfId ∧ q > selfSeq
          · simp only [hs, and_self, if_true, true_iff]
            left; exact ⟨q, by simp,  rfl, by rw [← hs.1]; exact hi, hs.2⟩
          · simp only [hs, if_false, ih]
            constructor
            · intro h; exact Or.inr h
            · rintro (⟨q', h1, h2, _, h4⟩ | h)
              · simp at h1 h2; subst h1 h2; exact absurd ⟨rfl, h4⟩ hs
              · exact h

theorem buildRsv_some (selfId : Bytes) (selfSeq : Nat) (es : List Entry) (acc rsv : Vec)
    (h : buildRsv selfId selfSeq es acc = some rsv) :
    (∀ k, vget rsv k = vecOfF es (vget acc) k) ∧
    ((PyDict.keys acc).Nodup → (PyDict.keys rsv).Nodup) := by
  induction es generalizing acc with
  | nil => simp [buildRsv] at h; subst h; simp [vecOfF]
  | cons e r ih =>
    obtain ⟨nid, seq⟩ := e
    cases nid with
    | none => simp only [buildRsv] at h; simpa [vecOfF] using ih acc h
    | some i =>
      cases seq with
      | none => simp only [buildRsv] at h; simpa [vecOfF] using ih acc h
      | some q =>
        simp only [buildRsv] at h
        by_cases hi : i = []
        · simp only [hi, if_true] at h; simpa [vecOfF, hi] using ih acc h
        · simp only [hi, if_false] at h
          split at h
          · simp at h
          · have := ih _ h
            refine ⟨?_, fun hn => this.2 (PyDict.nodup_keys_set _ _ _ hn)⟩
            intro k; rw [this.1 k]; simp only [vecOfF, hi, if_false]
            congr 1; funext k'; exact vget_set _ _ _ _

theorem necessary_iff (loc agg : Vec) (h : (PyDict.keys loc).Nodup) :
    necessary loc agg = true ↔ ∃ k, vget agg k < vget loc k := by
  unfold necessary
  rw [List.any_eq_true]
  constructor
  · rintro ⟨⟨i, q⟩, hm, hlt⟩
    refine ⟨i, ?_⟩
    have := PyDict.get?_of_mem loc h i q hm
    simp only [decide_eq_true_eq] at hlt
    simp only [vget, this, Option.getD_some]; exact hlt
  · rintro ⟨k, hlt⟩
    cases hg : PyDict.get? loc k with
    | none => simp [vget, hg] at hlt
    | some q =>
      refine ⟨(k, q), PyDict.mem_of_get? loc k q hg, ?_⟩
      have hl : vget loc k = q := by simp [vget, hg]
      rw [hl] at hlt
      simpa using hlt

end Ndn.Svs

namespace Ndn.Svs

theorem vecOfF_self_le (selfId : Bytes) (selfSeq : Nat) (es : List Entry) (f : Bytes → Nat)
    (hf : f selfId ≤ selfSeq) (h : ¬ overclaims selfId selfSeq es) :
    vecOfF es f selfId ≤ selfSeq := by
  induction es generalizing f with
  | nil => simpa [vecOfF]
  | cons e r ih =>
    have hr : ¬ overclaims selfId selfSeq r := by
      rintro ⟨q, hm, h1, h2⟩; exact h ⟨q, List.mem_cons_of_mem _ hm, h1, h2⟩
    obtain ⟨nid, seq⟩ := e
    cases nid with
    | none => simpa [vecOfF] using ih f hf hr
    | some i =>
      cases seq with
      | none => simpa [vecOfF] using ih f hf hr
      | some q =>
        simp only [vecOfF]
        split
        · exact ih f hf hr
        · rename_i hi
          apply ih _ _ hr
          split
          · rename_i e; subst e
            have : ¬ selfSeq < q := fun hlt => h ⟨q, by simp, hi, hlt⟩
            omega
          · exact hf

theorem afterBuild_loc (s : State) (rsv : Vec) :
    (afterBuild s rsv).1.loc =
      (mergeLoop rsv s.loc false (rsv.any fun p => !(PyDict.contains s.loc p.1))).1 := by
  unfold afterBuild; simp only []
  split
  · split <;> rfl
  · rfl

theorem afterBuild_ids (s : State) (rsv : Vec) :
    (afterBuild s rsv).1.selfId = s.selfId ∧ (afterBuild s rsv).1.selfSeq = s.selfSeq := by
  unfold afterBuild; simp only []
  split
  · split <;> exact ⟨rfl, rfl⟩
  · exact ⟨rfl, rfl⟩

theorem afterBuild_out (s : State) (rsv : Vec) :
    (afterBuild s rsv).2 =
      if (mergeLoop rsv s.loc false (rsv.any fun p => !(PyDict.contains s.loc p.1))).2.1
      then [Out.missing] else [] := rfl

end Ndn.Svs
