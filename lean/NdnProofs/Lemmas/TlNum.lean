import NdnModel.TlNum
/-! Helper lemmas about TL numbers (core Lean only). -/
namespace Ndn

@[simp] theorem be1_length (v) : (be1 v).length = 1 := rfl
@[simp] theorem be2_length (v) : (be2 v).length = 2 := rfl
@[simp] theorem be4_length (v) : (be4 v).length = 4 := rfl
@[simp] theorem be8_length (v) : (be8 v).length = 8 := rfl

theorem writeTlNum_length (v : Nat) : (writeTlNum v).length = tlNumSize v := by
  unfold writeTlNum tlNumSize; repeat' split
  all_goals simp

theorem tlNumSize_pos (v : Nat) : 0 < tlNumSize v := by
  unfold tlNumSize; repeat' split
  all_goals omega

theorem tlNumSize_cases (v : Nat) :
    tlNumSize v = 1 ∨ tlNumSize v = 3 ∨ tlNumSize v = 5 ∨ tlNumSize v = 9 := by
  unfold tlNumSize; repeat' split
  all_goals simp

theorem beVal_be1 (v : Nat) (h : v < 256) : beVal (be1 v) = v := by
  simp [beVal, be1, UInt8.toNat_ofNat']; omega
theorem beVal_be2 (v : Nat) (h : v < 65536) : beVal (be2 v) = v := by
  simp [beVal, be2, UInt8.toNat_ofNat']; omega
theorem beVal_be4 (v : Nat) (h : v < 4294967296) : beVal (be4 v) = v := by
  simp [beVal, be4, UInt8.toNat_ofNat']; omega
theorem beVal_be8 (v : Nat) (h : v < 18446744073709551616) : beVal (be8 v) = v := by
  simp [beVal, be8, UInt8.toNat_ofNat']; omega

theorem pySlice_append_left {α} (a b : List α) (n : Nat) (h : n = a.length) :
    pySlice (a ++ b) 0 n = a := by
  subst h; simp [pySlice]

/-- The central codec fact: parsing what `write_tl_num` wrote gives the value back, whatever follows. -/
theorem parse_write (v : Nat) (rest : Bytes) (h : v < 2^64) :
    parseTlNum (writeTlNum v ++ rest) 0 = .ok (v, tlNumSize v) := by
  unfold writeTlNum tlNumSize parseTlNum
  by_cases h1 : v ≤ 0xFC
  · have e : v % 256 = v := by omega
    simp [h1, be1, UInt8.toNat_ofNat', e]
  · by_cases h2 : v ≤ 0xFFFF
    · have : beVal (be2 v) = v := beVal_be2 v (by omega)
      simp [h1, h2, unpackAt, pySlice, be2, bind, Except.bind, pure, Except.pure] at *
      simpa [be2] using this
    · by_cases h3 : v ≤ 0xFFFFFFFF
      · have : beVal (be4 v) = v := beVal_be4 v (by omega)
        simp [h1, h2, h3, unpackAt, pySlice, be4, bind, Except.bind, pure, Except.pure] at *
        simpa [be4] using this
      · have : beVal (be8 v) = v := beVal_be8 v (by omega)
        simp [h1, h2, h3, unpackAt, pySlice, be8, bind, Except.bind, pure, Except.pure] at *
        simpa [be8] using this

end Ndn
