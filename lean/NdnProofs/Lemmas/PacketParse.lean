import NdnProofs.Lemmas.PacketEnc
/-! Parsing a made Data: leading OffsetMarker pseudo-fields and the offset of the SignatureValue. -/
namespace Ndn.Packet
open Ndn Ndn.Codec

/-- no OffsetMarker among the fields at index ≥ k  ⇒  skipping_process over a range starting at ≥ k
    changes nothing -/
theorem skipMarkers_ge : ∀ (k : Nat) (ss : List Schema) (acc : List Value) (lo hi off : Nat),
    wfFs ss = true → k ≤ lo →
    skipMarkers (List.replicate k Schema.marker ++ ss) acc lo hi off = acc
  | 0, ss, acc, lo, hi, off, hw, _ => by simpa using skipMarkers_id ss acc lo hi off hw
  | k + 1, ss, [], lo, hi, off, _, _ => by simp [List.replicate_succ, skipMarkers]
  | k + 1, ss, v :: vs, lo, hi, off, hw, hlo => by
    have hne : ¬ (lo = 0 ∧ 0 < hi) := by omega
    simp only [List.replicate_succ, List.cons_append, skipMarkers, hne, if_false]
    rw [skipMarkers_ge k ss vs (lo - 1) (hi - 1) off hw (by omega)]

/-- the leading markers all record the offset of the first element found behind them -/
theorem skipMarkers_lead : ∀ (k : Nat) (ss : List Schema) (d tl : List Value) (hi off : Nat),
    wfFs ss = true → d.length = k → k ≤ hi →
    skipMarkers (List.replicate k Schema.marker ++ ss) (d ++ tl) 0 hi off
      = List.replicate k (Value.uint off) ++ tl
  | 0, ss, d, tl, hi, off, hw, hd, _ => by
    have : d = [] := List.eq_nil_of_length_eq_zero hd
    subst this
    simpa using skipMarkers_id ss tl 0 hi off hw
  | k + 1, ss, [], tl, hi, off, _, hd, _ => by simp at hd
  | k + 1, ss, x :: d, tl, hi, off, hw, hd, hhi => by
    have h0 : (0 = 0 ∧ 0 < hi) := ⟨rfl, by omega⟩
    simp only [List.replicate_succ, List.cons_append, skipMarkers, h0, and_self, if_true]
    congr 1
    by_cases hk : k = 0
    · subst hk
      have : d = [] := List.eq_nil_of_length_eq_zero (by simpa using hd)
      subst this
      simpa using skipMarkers_id ss tl (0 - 1) (hi - 1) off hw
    · have := skipMarkers_lead k ss d tl (hi - 1) off hw (by simpa using hd) (by omega)
      simpa using this

theorem runItems_ge (k : Nat) (ss : List Schema) (hw : wfFs ss = true) :
    ∀ (items : List Item) (pos off : Nat) (acc : List Value), k ≤ pos →
      ItemsOK (List.replicate k Schema.marker ++ ss) pos items →
      runItems (List.replicate k Schema.marker ++ ss) pos off acc items = items.foldl applyItem acc
  | [], _, _, _, _, _ => rfl
  | it :: r, pos, off, acc, hp, ⟨h1, _, h3⟩ => by
    simp only [runItems, List.foldl]
    rw [skipMarkers_ge k ss acc pos it.idx off hw hp]
    have : k ≤ nextPos it := by
      unfold nextPos; split <;> omega
    exact runItems_ge k ss hw r _ _ _ this h3

/-- with `k` leading markers: they all become the offset (0) of the first element, everything else is the
    marker-free fold -/
theorem runItems_lead (k : Nat) (ss : List Schema) (hw : wfFs ss = true) (it : Item) (r : List Item)
    (d tl : List Value) (hd : d.length = k)
    (hok : ItemsOK (List.replicate k Schema.marker ++ ss) k (it :: r)) :
    runItems (List.replicate k Schema.marker ++ ss) 0 0 (d ++ tl) (it :: r)
      = (it :: r).foldl applyItem (List.replicate k (Value.uint 0) ++ tl) := by
  obtain ⟨h1, _, h3⟩ := hok
  simp only [runItems, List.foldl]
  rw [skipMarkers_lead k ss d tl it.idx 0 hw hd h1]
  have : k ≤ nextPos it := by
    unfold nextPos; split <;> omega
  exact runItems_ge k ss hw r _ _ _ this h3

/-- a TLV sequence none of whose (top-level) elements has Type `t` -/
inductive SeqWithout (t : Nat) : Bytes → Prop
  | nil : SeqWithout t []
  | cons (t' : Nat) (body rest : Bytes) : t' ≠ t → t' < 2 ^ 64 → body.length < 2 ^ 64 →
      SeqWithout t rest → SeqWithout t (tlv t' body ++ rest)

theorem SeqWithout.append {t : Nat} : ∀ {a b : Bytes}, SeqWithout t a → SeqWithout t b → SeqWithout t (a ++ b)
  | _, _, .nil, hb => hb
  | _, _, .cons t' body rest hne ht hl hr, hb => by
    rw [List.append_assoc]; exact .cons t' body _ hne ht hl (SeqWithout.append hr hb)

/-- scanning for the first element of Type `t` skips a prefix that has none and stops right behind it -/
theorem offsetOfType_skip (t : Nat) (ht : t < 2 ^ 64) (body R : Bytes) (hb : body.length < 2 ^ 64) :
    ∀ {p : Bytes}, SeqWithout t p → ∀ (fuel off : Nat), p.length < fuel →
      offsetOfType fuel (p ++ (tlv t body ++ R)) off t = some (off + p.length)
  | _, .nil, fuel, off, hf => by
    cases fuel with
    | zero => simp at hf
    | succ f =>
      obtain ⟨p1, p2, _, _, _⟩ := head_elem t body R ht hb
      simp [offsetOfType, p1, p2]
  | _, .cons t' b' rest hne ht' hl' hr, fuel, off, hf => by
    cases fuel with
    | zero => simp at hf
    | succ f =>
      rw [List.append_assoc]
      obtain ⟨p1, p2, _, _, s3⟩ := head_elem t' b' (rest ++ (tlv t body ++ R)) ht' hl'
      have hlen : (tlv t' b' ++ rest).length = tlNumSize t' + tlNumSize b'.length + b'.length + rest.length := by
        simp [tlv_length]
      have := tlNumSize_pos t'
      simp only [offsetOfType, p1, p2, hne, if_false, s3]
      rw [offsetOfType_skip t ht body R hb hr f _ (by omega)]
      congr 1; omega

end Ndn.Packet

namespace Ndn.Packet
open Ndn Ndn.Codec

theorem seqWithout_tlvE {t t' : Nat} {body r : Bytes} (hne : t' ≠ t) (h : tlvE t' body = .ok r) :
    SeqWithout t r := by
  obtain ⟨rfl, ht, hb⟩ := tlvE_ok h
  simpa using SeqWithout.cons t' body [] hne ht hb .nil

/-- one encoded plain field of Type `t' ≠ t` is a (zero- or one-element) sequence without Type `t` -/
theorem enc_seqWithout (t : Nat) (s : Schema) (v : Value) (a : Bytes) (hk : isElemKind s = true)
    (ht : ∀ t', s.typ = some t' → t' ≠ t) (hname : ∀ x, s = .name x → 7 ≠ t)
    (h : enc s v = .ok a) : SeqWithout t a := by
  cases s with
  | repeated e => simp [isElemKind] at hk
  | map k v' => simp [isElemKind] at hk
  | marker => simp [isElemKind] at hk
  | uint t' fl =>
    cases v <;> simp only [enc] at h
    · cases h; exact .nil
    · split at h
      · cases h
      · exact seqWithout_tlvE (ht t' rfl) h
    all_goals cases h
  | bool t' =>
    cases v <;> simp only [enc] at h
    · cases h; exact .nil
    · cases h
    · exact seqWithout_tlvE (ht t' rfl) h
    all_goals cases h
  | bytes t' b =>
    cases v <;> simp only [enc] at h
    · cases h; exact .nil
    · cases h
    · cases h
    · exact seqWithout_tlvE (ht t' rfl) h
    all_goals cases h
  | name t' =>
    cases v <;> simp only [enc] at h
    · cases h; exact .nil
    · cases h
    · cases h
    · cases h
    · exact seqWithout_tlvE (hname t' rfl) h
    all_goals cases h
  | model t' fs ic =>
    cases v <;> simp only [enc] at h
    · cases h; exact .nil
    · cases h
    · cases h
    · cases h
    · cases h
    · obtain ⟨body, _, h2⟩ := bind_ok h
      exact seqWithout_tlvE (ht t' rfl) h2
    all_goals cases h

end Ndn.Packet
