import NdnProofs.Lemmas.Svs
/-! Helper lemmas for the statement-level state-vector-sync model (`Ndn.Svs.stepX`: the handler in the order of
    its statements, `next_sync_timing` / `timer_rst_event`, the timer task, callbacks that publish). -/
namespace Ndn.Svs
open Ndn

/-- `k` publications in a row (state only) -/
def pubN : Nat → State → State
  | 0, s => s
  | k + 1, s => pubN k (step s .publish).1

/-- the deadline the timer task waits for in a state at rest: the suppression period if one is open, else a
    steady period -/
def dueOf (s : State) : Due := if s.suppress then .sup else .steady

/-- the instance at rest: the timer task is parked (reset event consumed) on the period matching the state -/
def park (s : State) : TState := { st := s, due := dueOf s, rst := false }

/-- `t` is at rest -/
def Parked (t : TState) : Prop := t.rst = false ∧ t.due = dueOf t.st

theorem parked_iff (t : TState) : Parked t ↔ t = park t.st := by
  obtain ⟨s, d, r⟩ := t
  simp only [Parked, park, TState.mk.injEq, true_and]
  constructor
  · rintro ⟨h1, h2⟩; exact ⟨h2, h1⟩
  · rintro ⟨h1, h2⟩; exact ⟨h2, h1⟩

theorem parked_park (s : State) : Parked (park s) := ⟨rfl, rfl⟩

theorem pubN_succ_suppress (k : Nat) (s : State) : (pubN (k + 1) s).suppress = false := by
  induction k generalizing s with
  | zero => rfl
  | succ k ih => exact ih _

theorem pubN_selfId (k : Nat) (s : State) : (pubN k s).selfId = s.selfId := by
  induction k generalizing s with
  | zero => rfl
  | succ k ih => simp only [pubN]; rw [ih]; rfl

theorem pubN_selfSeq (k : Nat) (s : State) : (pubN k s).selfSeq = s.selfSeq + k := by
  induction k generalizing s with
  | zero => rfl
  | succ k ih => simp only [pubN]; rw [ih]; simp only [step]; omega

theorem pubN_other (k : Nat) (s : State) (i : Bytes) (h : i ≠ s.selfId) :
    vget (pubN k s).loc i = vget s.loc i := by
  induction k generalizing s with
  | zero => rfl
  | succ k ih =>
    simp only [pubN]
    rw [ih _ (by simpa [step] using h)]
    simp only [step]; rw [vget_set]; simp [Ne.symm h]

theorem pubN_own (k : Nat) (s : State) : vget (pubN (k + 1) s).loc s.selfId = s.selfSeq + (k + 1) := by
  induction k generalizing s with
  | zero => simp only [pubN, step]; rw [vget_set]; simp
  | succ k ih =>
    have := ih (step s .publish).1
    simp only [pubN] at this ⊢
    rw [show (step s .publish).1.selfId = s.selfId from rfl] at this
    rw [this]; simp only [step]; omega

theorem pubN_add_one (k : Nat) (s : State) : pubN (k + 1) s = (step (pubN k s) .publish).1 := by
  induction k generalizing s with
  | zero => rfl
  | succ k ih => simp only [pubN] at ih ⊢; exact ih _

/-- the callback body, `k + 1` publications: the state of `k + 1` publications, timer due now, reset event set -/
theorem callback_succ (k : Nat) (t : TState) :
    callback (k + 1) t = { st := pubN (k + 1) t.st, due := .now, rst := true } := by
  induction k generalizing t with
  | zero => rfl
  | succ k ih => simp only [callback] at ih ⊢; rw [ih]; rfl

/-- the handler whose callback does nothing -/
abbrev handler0 (t : TState) (es : List Entry) : TState × ObsX := handler t es ⟨0, false⟩

/-- the handler with any callback = the handler with an idle callback, then (if the callback fired) the body
    of the callback — because the callback is the LAST statement of `sync_handler` -/
theorem handler_eq (t : TState) (es : List Entry) (cb : Cb) :
    handler t es cb =
      if (handler0 t es).2.outs = [Out.missing] then
        (callback cb.pubs (handler0 t es).1, ⟨[Out.missing], cb.raises⟩)
      else handler0 t es := by
  unfold handler0 handler
  split
  · simp
  · split
    · simp
    · simp only []
      split <;> simp [callback]

/-- state and outputs of the handler with an idle callback are those of the atomic model -/
theorem handler0_st (t : TState) (es : List Entry) :
    (handler0 t es).1.st = (step t.st (.recv es)).1 ∧ (handler0 t es).2.outs = (step t.st (.recv es)).2 ∧
    (handler0 t es).2.raised = false := by
  unfold handler0 handler
  simp only [step]
  split
  · simp
  · split
    · simp
    · simp only [afterBuild, bookkeeping]
      split
      · refine ⟨?_, rfl, rfl⟩
        simp only [callback]
        split
        · split <;> rfl
        · rfl
      · refine ⟨?_, rfl, rfl⟩
        split
        · split <;> rfl
        · rfl

/-- from a state at rest, the handler with an idle callback leaves the timer either untouched or reset
    (event set) to the period matching the new state — never "now" -/
theorem bookkeeping_due (t : TState) (rsv : Vec) (nn : Bool) (h : t.due = dueOf t.st) :
    (bookkeeping t rsv nn).due = dueOf (bookkeeping t rsv nn).st := by
  unfold bookkeeping
  cases hs : t.st.suppress <;> cases nn <;> simp [dueOf, hs, h]

theorem handler0_timer (s : State) (es : List Entry) :
    (handler0 (park s) es).1.due = dueOf (handler0 (park s) es).1.st := by
  unfold handler0 handler
  split
  · rfl
  · split
    · rfl
    · simp only [callback]
      split <;> exact bookkeeping_due _ _ _ rfl

theorem settle_not_now (t : TState) (h : t.due ≠ .now) : settle t = ({ t with rst := false }, []) := by
  unfold settle
  cases hr : t.rst
  · simp; obtain ⟨s, d, r⟩ := t; simp_all
  · simp [h]

theorem dueOf_ne_now (s : State) : dueOf s ≠ .now := by
  unfold dueOf; split <;> simp

/-- from a state at rest the handler with an idle callback is the atomic model, with the timer untouched or reset
    (event set) to the period matching the new state -/
theorem handler0_parked (s : State) (es : List Entry) :
    ∃ r, handler0 (park s) es =
      ({ st := (step s (.recv es)).1, due := dueOf (step s (.recv es)).1, rst := r },
       ⟨(step s (.recv es)).2, false⟩) := by
  have hd := handler0_timer s es
  have hs := handler0_st (park s) es
  cases hh : handler0 (park s) es with
  | mk t o =>
    obtain ⟨st, d, r⟩ := t
    obtain ⟨outs, raised⟩ := o
    rw [hh] at hd hs
    simp only [park] at hd hs
    obtain ⟨h1, h2, h3⟩ := hs
    subst h1 h2 h3 hd
    exact ⟨r, rfl⟩

/-- the timer task running on a state whose deadline is a period (not "now") only consumes the reset event -/
theorem settle_period (s : State) (r : Bool) :
    settle { st := s, due := dueOf s, rst := r } = (park s, []) := by
  rw [settle_not_now _ (dueOf_ne_now s)]; rfl

theorem fire_steady (s : State) (d : Due) (r : Bool) (h : s.suppress = false) :
    fire { st := s, due := d, rst := r } = (park s, [Out.emit s.loc]) := by
  simp [fire, h, park, dueOf]

/-- the timer expiry of the statement-level model is the one of the atomic model -/
theorem fire_eq (t : TState) : fire t = (park (step t.st .timer).1, (step t.st .timer).2) := by
  unfold fire
  simp only [step]
  cases hs : t.st.suppress <;> simp [park, dueOf, hs]

/-- **decomposition of a reception with a publishing callback**, from a state at rest -/
theorem stepX_recvCb (s : State) (es : List Entry) (cb : Cb) :
    stepX (park s) (.recvCb es cb) =
      if (step s (.recv es)).2 = [Out.missing] then
        match cb.pubs with
        | 0 => (park (step s (.recv es)).1, ⟨[Out.missing], cb.raises⟩)
        | k + 1 =>
          let s' := pubN (k + 1) (step s (.recv es)).1
          (park s', ⟨[Out.missing, Out.emit s'.loc], cb.raises⟩)
      else (park (step s (.recv es)).1, ⟨(step s (.recv es)).2, false⟩) := by
  obtain ⟨r, hr⟩ := handler0_parked s es
  simp only [stepX, stepWith]
  rw [handler_eq, hr]
  simp only []
  by_cases hf : (step s (.recv es)).2 = [Out.missing]
  · simp only [hf, if_true]
    cases cb.pubs with
    | zero => simp only [callback, settle_period]; rfl
    | succ k =>
      simp only [callback_succ, settle, if_true]
      rw [fire_steady _ _ _ (pubN_succ_suppress k _)]
      rfl
  · simp only [hf, if_false, settle_period, List.append_nil]

theorem stepX_publish (s : State) :
    stepX (park s) .publish = (park (step s .publish).1, ⟨(step s .publish).2, false⟩) := by
  simp only [stepX, stepWith, newData, settle, park, if_true]
  rw [fire_steady _ _ _ rfl]
  simp [step, park]

theorem stepX_timer (s : State) :
    stepX (park s) .timer = (park (step s .timer).1, ⟨(step s .timer).2, false⟩) := by
  simp only [stepX, stepWith]; rw [fire_eq]; rfl

/-- **refinement**: on the events of the atomic model the statement-level model, started at rest, does what the
    atomic model does and is at rest again -/
theorem stepX_ofEv (s : State) (e : Ev) :
    stepX (park s) (EvX.ofEv e) = (park (step s e).1, ⟨(step s e).2, false⟩) := by
  cases e with
  | undecodable => simp [EvX.ofEv, stepX, stepWith, step]
  | publish => exact stepX_publish s
  | timer => exact stepX_timer s
  | recv es =>
    simp only [EvX.ofEv, EvX.recv]
    rw [stepX_recvCb]
    split
    · rename_i h; simp [h]
    · rfl

/-- whatever the event, a state at rest steps to a state at rest: no publication stays unannounced, no reset
    event stays unconsumed -/
theorem stepX_parked (s : State) (e : EvX) : ∃ s', (stepX (park s) e).1 = park s' := by
  cases e with
  | undecodable => exact ⟨s, rfl⟩
  | publish => exact ⟨_, by rw [stepX_publish]⟩
  | timer => exact ⟨_, by rw [stepX_timer]⟩
  | recvCb es cb =>
    rw [stepX_recvCb]
    split
    · cases cb.pubs with
      | zero => exact ⟨_, rfl⟩
      | succ k => exact ⟨_, rfl⟩
    · exact ⟨_, rfl⟩

/-! ### a reception whose callback publishes = the reception followed by the publications -/

theorem run_replicate_publish (k : Nat) (s : State) :
    (run s (List.replicate k .publish)).1 = pubN k s := by
  induction k generalizing s with
  | zero => rfl
  | succ k ih => simp only [List.replicate_succ, run, pubN]; exact ih _

theorem run_cons_fst (s : State) (e : Ev) (r : List Ev) : (run s (e :: r)).1 = (run (step s e).1 r).1 := rfl

/-- the events of the atomic model one event of the statement-level model amounts to (the publications made by the
    callback happen iff the callback fires) -/
def flat (s : State) : EvX → List Ev
  | .recvCb es cb =>
    if (step s (.recv es)).2 = [Out.missing] then .recv es :: List.replicate cb.pubs .publish else [.recv es]
  | .undecodable => [.undecodable]
  | .publish => [.publish]
  | .timer => [.timer]

theorem stepX_flat (s : State) (e : EvX) : (stepX (park s) e).1 = park (run s (flat s e)).1 := by
  cases e with
  | undecodable => rfl
  | publish => rw [stepX_publish]; rfl
  | timer => rw [stepX_timer]; rfl
  | recvCb es cb =>
    rw [stepX_recvCb]
    simp only [flat]
    split
    · rw [run_cons_fst, run_replicate_publish]
      cases cb.pubs with
      | zero => rfl
      | succ k => rfl
    · rfl

/-! ### the variant with the callback before the bookkeeping -/

/-- in the variant, a callback that publishes (`k + 1` times) is overridden by the handler's own timer bookkeeping:
    the publications are recorded, the callback is the only thing the outside sees, and the timer task is parked
    (reset event consumed) on a whole suppression or steady period -/
theorem stepXEarly_recvPub (s : State) (es : List Entry) (k : Nat)
    (hf : (step s (.recv es)).2 = [Out.missing]) :
    ∃ s', stepXEarly (park s) (.recvCb es ⟨k + 1, false⟩) = (park s', ⟨[Out.missing], false⟩) ∧
      s'.selfSeq = s.selfSeq + (k + 1) ∧ vget s'.loc s.selfId = s.selfSeq + (k + 1) := by
  simp only [step] at hf
  split at hf
  · cases hf
  · rename_i hne
    split at hf
    · cases hf
    · rename_i rsv hb
      rw [afterBuild_out] at hf
      have hm : (mergeLoop rsv s.loc false (rsv.any fun p => !(PyDict.contains s.loc p.1))).2.1 = true := by
        cases h : (mergeLoop rsv s.loc false (rsv.any fun p => !(PyDict.contains s.loc p.1))).2.1 with
        | true => rfl
        | false => rw [h] at hf; cases hf
      have hne' : es.isEmpty = false := by simpa using hne
      simp only [stepXEarly, stepWith, handlerEarly, park, hne', hb, hm, if_true, callback_succ,
        Bool.false_eq_true, if_false, bookkeeping, pubN_succ_suppress, Bool.or_false, Bool.not_false]
      split
      · refine ⟨{ pubN (k + 1) { s with loc := (mergeLoop rsv s.loc false
            (rsv.any fun p => !(PyDict.contains s.loc p.1))).1 } with suppress := true, agg := rsv }, ?_, ?_, ?_⟩
        · simp [settle, dueOf]
        · exact pubN_selfSeq (k + 1) { s with loc := _ }
        · exact pubN_own k { s with loc := _ }
      · refine ⟨pubN (k + 1) { s with loc := (mergeLoop rsv s.loc false
            (rsv.any fun p => !(PyDict.contains s.loc p.1))).1 }, ?_, ?_, ?_⟩
        · simp [settle, dueOf, pubN_succ_suppress]
        · exact pubN_selfSeq (k + 1) { s with loc := _ }
        · exact pubN_own k { s with loc := _ }

/-! ### the variant whose re-entrant `new_data()` leaves `self.state` alone -/

theorem pubN_agg (k : Nat) (s : State) : (pubN k s).agg = s.agg := by
  induction k generalizing s with
  | zero => rfl
  | succ k ih => simp only [pubN]; rw [ih]; rfl

theorem pubN_succ_congr (k : Nat) (s : State) (b : Bool) :
    pubN (k + 1) { s with suppress := b } = pubN (k + 1) s := rfl

theorem callbackKeep_succ (k : Nat) (t : TState) :
    callbackKeep (k + 1) t =
      { st := { pubN (k + 1) t.st with suppress := t.st.suppress }, due := .now, rst := true } := by
  induction k generalizing t with
  | zero => rfl
  | succ k ih =>
    have := ih (newDataKeep t)
    simp only [callbackKeep] at this ⊢
    rw [this]
    rfl

theorem handlerKeep_eq (t : TState) (es : List Entry) (cb : Cb) :
    handlerKeep t es cb =
      if (handler0 t es).2.outs = [Out.missing] then
        (callbackKeep cb.pubs (handler0 t es).1, ⟨[Out.missing], cb.raises⟩)
      else handler0 t es := by
  unfold handler0 handler handlerKeep
  split
  · simp
  · split
    · simp
    · simp only []
      split <;> simp [callback]

/-- when the timer fires at once after a publication, a suppression flag left set makes no difference provided the
    end-of-suppression test finds the local vector newer than the aggregate -/
theorem fire_keep (p : State) (b : Bool) (hs : p.suppress = false) (hn : necessary p.loc p.agg = true) :
    fire { st := { p with suppress := b }, due := .now, rst := true } = fire { st := p, due := .now, rst := true } := by
  obtain ⟨i, q, l, a, sp⟩ := p
  simp only [] at hs hn
  subst hs
  cases b <;> simp [fire, hn]

end Ndn.Svs
