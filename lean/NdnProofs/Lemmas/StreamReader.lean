import NdnModel.StreamReader
import NdnProofs.Lemmas.Framing
/-! Helper lemmas relating the chunked machine (NdnModel/StreamReader.lean) to the framing of the
    concatenated stream (NdnModel/Framing.lean).  Simulation invariant: `bio ++ reader buffer` is the
    undelivered remainder `(frames fed).2`, and what was handed over is `(frames fed).1`. -/
namespace Ndn.Framing
open Ndn

/-! ### `frames` without fuel -/

theorem readPacket_length {s r : Bytes} {p : Nat × Bytes} (h : readPacket s = some (p, r)) :
    r.length + 2 ≤ s.length := by
  obtain ⟨t, buf⟩ := p
  obtain ⟨rfl, h2⟩ := readPacket_split h
  simp; omega

theorem framesFuel_enough : ∀ (f g : Nat) (s : Bytes), s.length < f → s.length < g →
    framesFuel f s = framesFuel g s
  | 0, _, _, h, _ => by omega
  | _, 0, _, _, h => by omega
  | f + 1, g + 1, s, hf, hg => by
    simp only [framesFuel]
    cases h : readPacket s with
    | none => rfl
    | some pr =>
      obtain ⟨p, r⟩ := pr
      have := readPacket_length h
      simp only
      rw [framesFuel_enough f g r (by omega) (by omega)]

/-- the loop, unrolled once -/
theorem frames_eq (s : Bytes) :
    frames s = match readPacket s with
      | none => ([], s)
      | some (p, r) => (p :: (frames r).1, (frames r).2) := by
  have h1 : frames s = framesFuel (s.length + 1) s := rfl
  rw [h1, framesFuel]
  cases h : readPacket s with
  | none => rfl
  | some pr =>
    obtain ⟨p, r⟩ := pr
    have := readPacket_length h
    have h2 : frames r = framesFuel (r.length + 1) r := rfl
    simp only
    rw [h2, framesFuel_enough s.length (r.length + 1) r (by omega) (by omega)]

theorem frames_none {s : Bytes} (h : readPacket s = none) : frames s = ([], s) := by
  rw [frames_eq, h]

theorem frames_some {s r : Bytes} {p : Nat × Bytes} (h : readPacket s = some (p, r)) :
    frames s = (p :: (frames r).1, (frames r).2) := by
  rw [frames_eq, h]

/-- more bytes arriving: what was handed over stays, the loop continues on remainder ++ new bytes -/
theorem frames_append (s e : Bytes) :
    frames (s ++ e) = ((frames s).1 ++ (frames ((frames s).2 ++ e)).1, (frames ((frames s).2 ++ e)).2) := by
  induction hn : s.length using Nat.strongRecOn generalizing s with
  | _ n ih =>
    cases h : readPacket s with
    | none => rw [frames_none h]; simp
    | some pr =>
      obtain ⟨p, r⟩ := pr
      have hl := readPacket_length h
      rw [frames_some h, frames_some (readPacket_mono e h)]
      have := ih r.length (by omega) r rfl
      simp only [this, List.cons_append]

/-- the undelivered remainder does not start with a complete packet -/
theorem readPacket_frames_rem (s : Bytes) : readPacket (frames s).2 = none := by
  induction hn : s.length using Nat.strongRecOn generalizing s with
  | _ n ih =>
    cases h : readPacket s with
    | none => rw [frames_none h]; exact h
    | some pr =>
      obtain ⟨p, r⟩ := pr
      have hl := readPacket_length h
      rw [frames_some h]
      exact ih r.length (by omega) r rfl

theorem frames_frames_rem (s : Bytes) : frames (frames s).2 = ([], (frames s).2) :=
  frames_none (readPacket_frames_rem s)

/-- nothing lost, duplicated or reordered -/
theorem frames_partition (s : Bytes) : ((frames s).1.map (·.2)).flatten ++ (frames s).2 = s := by
  induction hn : s.length using Nat.strongRecOn generalizing s with
  | _ n ih =>
    cases h : readPacket s with
    | none => rw [frames_none h]; simp
    | some pr =>
      obtain ⟨⟨t, buf⟩, r⟩ := pr
      have hl := readPacket_length h
      obtain ⟨hs, _⟩ := readPacket_split h
      rw [frames_some h]
      have := ih r.length (by omega) r rfl
      simp only [List.map_cons, List.flatten_cons, List.append_assoc, this]
      exact hs.symm

end Ndn.Framing

namespace Ndn.StreamReader
open Ndn Ndn.Framing

/-! ### TL numbers read in two steps -/

theorem readTlNum_nil : readTlNum [] = none := by simp [readTlNum, readExactly]

theorem marker_cases (b : UInt8) (h : 0xFC < b.toNat) : b.toNat = 253 ∨ b.toNat = 254 ∨ b.toNat = 255 := by
  have := b.toNat_lt; omega

theorem readTlNum_one (b : UInt8) (rest : Bytes) (h : b.toNat ≤ 0xFC) :
    readTlNum (b :: rest) = some (b.toNat, [b], rest) := by
  simp [readTlNum, readExactly, h]

theorem readTlNum_short (b : UInt8) (buf : Bytes) (h : 0xFC < b.toNat) (hl : buf.length < width b.toNat) :
    readTlNum (b :: buf) = none := by
  rcases marker_cases b h with hb | hb | hb <;> simp [width, hb] at hl <;>
    simp [readTlNum, readExactly, hb, Nat.not_le.mpr hl]

theorem readTlNum_long (b : UInt8) (d rest : Bytes) (h : 0xFC < b.toNat) (hl : d.length = width b.toNat) :
    readTlNum (b :: (d ++ rest)) = some (beVal d, b :: d, rest) := by
  rcases marker_cases b h with hb | hb | hb <;> simp [width, hb] at hl <;>
    simp [readTlNum, readExactly, hb, List.take_left' hl, List.drop_left' hl, hl]

end Ndn.StreamReader

namespace Ndn.Framing
open Ndn Ndn.StreamReader

/-! ### a handed-over element is one complete element -/

theorem readExactly_exact {s a r : Bytes} {n : Nat} (h : readExactly s n = some (a, r)) :
    readExactly a n = some (a, []) := by
  obtain ⟨_, hl⟩ := readExactly_split h
  have := readExactly_append a []
  rw [hl] at this
  simpa using this

theorem readExactly_cancel {a r e : Bytes} {n : Nat} (h : readExactly (a ++ r) n = some (a, r)) :
    readExactly (a ++ e) n = some (a, e) := by
  obtain ⟨_, hl⟩ := readExactly_split h
  have := readExactly_append a e
  rwa [hl] at this

theorem readTlNum_first {s b r : Bytes} {x : Nat} (h : readTlNum s = some (x, b, r)) :
    (∃ b0, b = [b0] ∧ b0.toNat ≤ 0xFC ∧ x = b0.toNat) ∨
    (∃ b0 v, b = b0 :: v ∧ 0xFC < b0.toNat ∧ x = beVal v ∧
      v.length = (if b0.toNat = 0xFD then 2 else if b0.toNat = 0xFE then 4 else 8)) := by
  unfold readTlNum at h
  split at h
  · simp at h
  · rename_i b0 r0 h0
    obtain ⟨rfl, hl⟩ := readExactly_split h0
    obtain ⟨c, rfl⟩ : ∃ c, b0 = [c] := by
      match b0, hl with
      | [c], _ => exact ⟨c, rfl⟩
    simp only at h
    split at h
    · rename_i hx
      simp only [Option.some.injEq, Prod.mk.injEq] at h
      obtain ⟨rfl, rfl, rfl⟩ := h
      exact .inl ⟨c, rfl, by simpa using hx, by simp⟩
    · rename_i hx
      split at h
      · simp at h
      · rename_i v r' h1
        obtain ⟨_, hv⟩ := readExactly_split h1
        simp only [Option.some.injEq, Prod.mk.injEq] at h
        obtain ⟨rfl, rfl, rfl⟩ := h
        exact .inr ⟨c, v, rfl, by simp at hx; omega, rfl, by simpa using hv⟩

theorem readTlNum_exact {s b r : Bytes} {x : Nat} (h : readTlNum s = some (x, b, r)) :
    readTlNum b = some (x, b, []) := by
  rcases readTlNum_first h with ⟨b0, rfl, hb, rfl⟩ | ⟨b0, v, rfl, hb, rfl, hv⟩
  · exact readTlNum_one b0 [] hb
  · simpa using readTlNum_long b0 v [] hb hv

theorem readPacket_exact {s r : Bytes} {p : Nat × Bytes} (h : readPacket s = some (p, r)) :
    readPacket p.2 = some (p, []) := by
  unfold readPacket at h
  split at h
  · simp at h
  · rename_i typ b1 r1 h1
    split at h
    · simp at h
    · rename_i siz b2 r2 h2
      split at h
      · simp at h
      · rename_i body r3 h3
        simp only [Option.some.injEq, Prod.mk.injEq] at h
        obtain ⟨rfl, rfl⟩ := h
        have e1 := readTlNum_exact h1
        have e2 := readTlNum_exact h2
        have e3 := readExactly_exact h3
        unfold readPacket
        simp only [List.append_assoc]
        rw [readTlNum_mono (b2 ++ body) e1]
        simp only [List.nil_append]
        rw [readTlNum_mono body e2]
        simp only [List.nil_append]
        rw [e3]

/-- every element `frames` hands over is exactly one complete element: reading it alone gives it back
    with nothing left over -/
theorem frames_complete (s : Bytes) : ∀ p ∈ (frames s).1, readPacket p.2 = some (p, []) := by
  induction hn : s.length using Nat.strongRecOn generalizing s with
  | _ n ih =>
    cases h : readPacket s with
    | none => rw [frames_none h]; simp
    | some pr =>
      obtain ⟨p, r⟩ := pr
      have hl := readPacket_length h
      rw [frames_some h]
      intro q hq
      simp only [List.mem_cons] at hq
      rcases hq with rfl | hq
      · exact readPacket_exact h
      · exact ih r.length (by omega) r rfl q hq

end Ndn.Framing

namespace Ndn.StreamReader
open Ndn Ndn.Framing

/-! ### the face's locals are consistent with what it has consumed -/

/-- the locals of the suspended task were produced by the code from exactly the bytes in `bio` -/
def Consistent : Phase → Prop
  | .typ0 => True
  | .typN w bio => ∃ b : UInt8, bio = [b] ∧ 0xFC < b.toNat ∧ w = width b.toNat
  | .len0 typ bio => readTlNum bio = some (typ, bio, [])
  | .lenN typ w bio => ∃ (b1 : Bytes) (b : UInt8), bio = b1 ++ [b] ∧ readTlNum b1 = some (typ, b1, []) ∧
      0xFC < b.toNat ∧ w = width b.toNat
  | .value typ n bio => ∃ b1 b2 : Bytes, bio = b1 ++ b2 ∧ readTlNum b1 = some (typ, b1, []) ∧
      readTlNum b2 = some (n, b2, [])

/-- (L1) while the pending read cannot complete there is no complete packet in `bio ++ buffer` -/
theorem readPacket_blocked {ph : Phase} (hc : Consistent ph) (buf : Bytes) (hl : buf.length < ph.need) :
    readPacket (ph.bio ++ buf) = none := by
  cases ph with
  | typ0 =>
    simp only [Phase.need] at hl
    have : buf = [] := by cases buf <;> simp_all
    subst this
    simp [Phase.bio, readPacket, readTlNum_nil]
  | typN w bio =>
    obtain ⟨b, rfl, hb, rfl⟩ := hc
    simp only [Phase.need] at hl
    simp [Phase.bio, readPacket, readTlNum_short b buf hb hl]
  | len0 typ bio =>
    simp only [Consistent] at hc
    simp only [Phase.need] at hl
    have : buf = [] := by cases buf <;> simp_all
    subst this
    simp [Phase.bio, readPacket, hc, readTlNum_nil]
  | lenN typ w bio =>
    obtain ⟨b1, b, rfl, h1, hb, rfl⟩ := hc
    simp only [Phase.need] at hl
    have := readTlNum_mono ([b] ++ buf) h1
    simp only [Phase.bio, readPacket, List.append_assoc, List.nil_append] at this ⊢
    rw [this]
    simp [readTlNum_short b buf hb hl]
  | value typ n bio =>
    obtain ⟨b1, b2, rfl, h1, h2⟩ := hc
    simp only [Phase.need] at hl
    have e1 := readTlNum_mono (b2 ++ buf) h1
    have e2 := readTlNum_mono buf h2
    simp only [Phase.bio, readPacket, List.append_assoc, List.nil_append] at e1 e2 ⊢
    rw [e1]
    simp only
    rw [e2]
    have : ¬ n ≤ buf.length := by omega
    simp [readExactly, this]

/-- (L2) a completed read that does not finish the packet leads to consistent locals again, with the
    bytes just read appended to `bio` -/
theorem next_consistent {ph ph' : Phase} (hc : Consistent ph) (d : Bytes) (hd : d.length = ph.need)
    (hn : ph.next d = .inl ph') : Consistent ph' ∧ ph'.bio = ph.bio ++ d := by
  cases ph with
  | typ0 =>
    simp only [Phase.need] at hd
    obtain ⟨b, rfl⟩ : ∃ b, d = [b] := by
      match d, hd with
      | [b], _ => exact ⟨b, rfl⟩
    by_cases hx : b.toNat ≤ 0xFC
    · simp [Phase.next, hx] at hn
      subst hn
      exact ⟨readTlNum_one b [] hx, rfl⟩
    · simp [Phase.next, hx] at hn
      subst hn
      exact ⟨⟨b, rfl, by omega, rfl⟩, rfl⟩
  | typN w bio =>
    obtain ⟨b, rfl, hb, rfl⟩ := hc
    simp only [Phase.next] at hn
    cases hn
    refine ⟨?_, rfl⟩
    have := readTlNum_long b d [] hb hd
    simpa [Consistent] using this
  | len0 typ bio =>
    simp only [Consistent] at hc
    simp only [Phase.need] at hd
    obtain ⟨b, rfl⟩ : ∃ b, d = [b] := by
      match d, hd with
      | [b], _ => exact ⟨b, rfl⟩
    by_cases hx : b.toNat ≤ 0xFC
    · simp [Phase.next, hx] at hn
      subst hn
      exact ⟨⟨bio, [b], rfl, hc, readTlNum_one b [] hx⟩, rfl⟩
    · simp [Phase.next, hx] at hn
      subst hn
      exact ⟨⟨bio, b, rfl, hc, by omega, rfl⟩, rfl⟩
  | lenN typ w bio =>
    obtain ⟨b1, b, rfl, h1, hb, rfl⟩ := hc
    simp only [Phase.next] at hn
    cases hn
    refine ⟨⟨b1, b :: d, by simp, h1, ?_⟩, rfl⟩
    have := readTlNum_long b d [] hb hd
    simpa using this
  | value typ n bio =>
    simp [Phase.next] at hn

/-- (L3) a completed Value read finishes exactly the packet at the head of `bio ++ buffer` -/
theorem next_packet {ph : Phase} {p : Pkt} (hc : Consistent ph) (d rest : Bytes) (hd : d.length = ph.need)
    (hn : ph.next d = .inr p) : readPacket (ph.bio ++ (d ++ rest)) = some (p, rest) := by
  cases ph with
  | value typ n bio =>
    obtain ⟨b1, b2, rfl, h1, h2⟩ := hc
    simp only [Phase.next] at hn
    cases hn
    simp only [Phase.need] at hd
    have e1 := readTlNum_mono (b2 ++ (d ++ rest)) h1
    have e2 := readTlNum_mono (d ++ rest) h2
    have e3 := readExactly_append d rest
    rw [hd] at e3
    simp only [Phase.bio, readPacket, List.append_assoc, List.nil_append] at e1 e2 ⊢
    rw [e1]
    simp only
    rw [e2]
    simp only
    rw [e3]
  | typ0 => simp only [Phase.next] at hn; split at hn <;> cases hn
  | len0 typ bio => simp only [Phase.next] at hn; split at hn <;> cases hn
  | typN w bio => simp [Phase.next] at hn
  | lenN typ w bio => simp [Phase.next] at hn

/-! ### `readexactly` case analysis -/

theorem readexactly_blocked {r : Reader} {n : Nat} (h : readexactly r n = .blocked) :
    r.buf.length < n ∧ r.eof = false ∧ r.exc = none := by
  unfold readexactly at h
  split at h
  · cases h
  · rename_i he
    split at h
    · cases h
    · split at h
      · cases h
      · split at h
        · cases h
        · rename_i h1 h2 h3
          exact ⟨by omega, by simpa using h3, he⟩

theorem readexactly_raised {r r' : Reader} {n : Nat} {e : RdErr} (h : readexactly r n = .raised e r')
    (hx : r.exc = none) : r.buf.length < n ∧ r.eof = true ∧ e = .incompleteRead := by
  unfold readexactly at h
  split at h
  · rename_i he; rw [hx] at he; cases he
  · split at h
    · cases h
    · split at h
      · cases h
      · split at h
        · rename_i h1 h2 h3
          cases h
          exact ⟨by omega, h3, rfl⟩
        · cases h

theorem readexactly_done' {r r' : Reader} {n : Nat} {d : Bytes} (h : readexactly r n = .done d r') :
    r.buf = d ++ r'.buf ∧ d.length = n ∧ r'.eof = r.eof ∧ r'.exc = r.exc ∧ r.exc = none := by
  unfold readexactly at h
  split at h
  · cases h
  · rename_i he
    split at h
    · rename_i hn
      cases h
      exact ⟨rfl, hn.symm, rfl, rfl, he⟩
    · split at h
      · rename_i h1 h2
        cases h
        exact ⟨by simp, by simp; omega, rfl, rfl, he⟩
      · split at h <;> cases h

/-! ### the simulation -/

/-- running the task as far as it goes from consistent locals: it hands over exactly the complete
    packets of `bio ++ buffer`; without EOF it ends up suspended with consistent locals and the
    undelivered remainder in `bio ++ buffer`; at EOF it ends through IncompleteReadError. -/
theorem pump_spec (caught : List RdErr) (r : Reader) (ph : Phase) (hc : Consistent ph) (hx : r.exc = none) :
    (pump caught r ph).2 = (frames (ph.bio ++ r.buf)).1 ∧
    (r.eof = false → (pump caught r ph).1.status = .running ∧ Consistent (pump caught r ph).1.phase ∧
        (pump caught r ph).1.phase.bio ++ (pump caught r ph).1.reader.buf = (frames (ph.bio ++ r.buf)).2 ∧
        (pump caught r ph).1.reader.eof = false ∧ (pump caught r ph).1.reader.exc = none) ∧
    (r.eof = true → (pump caught r ph).1.status = handled caught .incompleteRead) := by
  induction r, ph using pump.induct_unfolding caught with
  | case1 r ph h =>
    obtain ⟨hl, he, _⟩ := readexactly_blocked h
    rw [frames_none (readPacket_blocked hc r.buf hl)]
    exact ⟨rfl, fun _ => ⟨rfl, hc, rfl, he, hx⟩, fun h' => by rw [he] at h'; cases h'⟩
  | case2 r ph e r' h =>
    obtain ⟨hl, he, rfl⟩ := readexactly_raised h hx
    rw [frames_none (readPacket_blocked hc r.buf hl)]
    refine ⟨rfl, ?_, fun _ => rfl⟩
    intro h'
    rw [he] at h'
    cases h'
  | case3 r ph d r' h ph' hn ih =>
    obtain ⟨hb, hd, he, hx', _⟩ := readexactly_done' h
    obtain ⟨hc', hbio⟩ := next_consistent hc d hd hn
    have ih := ih hc' (by rw [hx', hx])
    have e : ph'.bio ++ r'.buf = ph.bio ++ r.buf := by rw [hbio, hb, List.append_assoc]
    rw [e, he] at ih
    exact ih
  | case4 r ph d r' h p hn res ih =>
    obtain ⟨hb, hd, he, hx', _⟩ := readexactly_done' h
    have ih := ih trivial (by rw [hx', hx])
    have hp := next_packet hc d r'.buf hd hn
    rw [← hb] at hp
    simp only [Phase.bio, List.nil_append] at ih
    rw [frames_some hp]
    rw [he] at ih
    obtain ⟨i1, i2, i3⟩ := ih
    exact ⟨by show p :: res.2 = _; rw [i1], i2, i3⟩

/-! ### the run over events -/

/-- simulation invariant: the bytes `s` have been fed, the task is suspended in a read -/
structure Sim (acc : Face × List Pkt) (s : Bytes) : Prop where
  running : acc.1.status = .running
  cons : Consistent acc.1.phase
  rem : acc.1.phase.bio ++ acc.1.reader.buf = (frames s).2
  eof : acc.1.reader.eof = false
  exc : acc.1.reader.exc = none
  out : acc.2 = (frames s).1

theorem sim_start (caught : List RdErr) : Sim (start caught {}) [] := by
  have h := pump_spec caught {} .typ0 trivial rfl
  obtain ⟨h1, h2, _⟩ := h
  obtain ⟨a, b, c, d, e⟩ := h2 rfl
  exact ⟨a, b, c, d, e, h1⟩

theorem sim_feed {caught : List RdErr} {acc : Face × List Pkt} {s : Bytes} (h : Sim acc s) (c : Bytes) :
    Sim (stepAcc caught acc (.feed c)) (s ++ c) := by
  obtain ⟨f, out⟩ := acc
  obtain ⟨hr, hc, hrem, heof, hexc, hout⟩ := h
  simp only at hr hc hrem heof hexc hout
  have hp := pump_spec caught (f.reader.apply (.feed c)) f.phase hc (by simpa [Reader.apply] using hexc)
  have e : f.phase.bio ++ (f.reader.apply (.feed c)).buf = (frames s).2 ++ c := by
    simp only [Reader.apply, ← List.append_assoc, hrem]
  rw [e] at hp
  obtain ⟨h1, h2, _⟩ := hp
  obtain ⟨a, b, c', d, e'⟩ := h2 (by simpa [Reader.apply] using heof)
  have hstep : stepAcc caught (f, out) (.feed c) =
      ((pump caught (f.reader.apply (.feed c)) f.phase).1, out ++ (pump caught (f.reader.apply (.feed c)) f.phase).2) := by
    simp only [stepAcc, Face.step, hr]
  rw [hstep]
  have hf := frames_append s c
  exact ⟨a, b, by rw [hf]; exact c', d, e', by rw [hf]; simp only [h1, hout]⟩

theorem runFrom_append (caught : List RdErr) (acc : Face × List Pkt) (e1 e2 : List Event) :
    runFrom caught acc (e1 ++ e2) = runFrom caught (runFrom caught acc e1) e2 := by
  induction e1 generalizing acc with
  | nil => rfl
  | cons e r ih => simp only [List.cons_append, runFrom, ih]

theorem sim_feeds {caught : List RdErr} (cs : List Bytes) : ∀ {acc : Face × List Pkt} {s : Bytes}, Sim acc s →
    Sim (runFrom caught acc (cs.map .feed)) (s ++ cs.flatten) := by
  induction cs with
  | nil => intro acc s h; simpa [runFrom] using h
  | cons c r ih =>
    intro acc s h
    have := ih (sim_feed (caught := caught) h c)
    simpa [runFrom, List.append_assoc] using this

/-- EOF while suspended in a read: IncompleteReadError, nothing more is handed over -/
theorem sim_eof {caught : List RdErr} {acc : Face × List Pkt} {s : Bytes} (h : Sim acc s) :
    (stepAcc caught acc .feedEof).2 = (frames s).1 ∧
    (stepAcc caught acc .feedEof).1.status = handled caught .incompleteRead := by
  obtain ⟨f, out⟩ := acc
  obtain ⟨hr, hc, hrem, heof, hexc, hout⟩ := h
  simp only at hr hc hrem heof hexc hout
  have hp := pump_spec caught (f.reader.apply .feedEof) f.phase hc (by simpa [Reader.apply] using hexc)
  have e : f.phase.bio ++ (f.reader.apply .feedEof).buf = (frames s).2 := by
    simpa only [Reader.apply] using hrem
  rw [e, frames_frames_rem] at hp
  obtain ⟨h1, _, h3⟩ := hp
  have hstep : stepAcc caught (f, out) .feedEof =
      ((pump caught (f.reader.apply .feedEof) f.phase).1, out ++ (pump caught (f.reader.apply .feedEof) f.phase).2) := by
    simp only [stepAcc, Face.step, hr]
  rw [hstep]
  exact ⟨by simp only [h1, hout, List.append_nil], h3 (by simp [Reader.apply])⟩

/-- the transport sets an exception while the task is suspended in a read -/
theorem sim_exc {caught : List RdErr} {acc : Face × List Pkt} {s : Bytes} (h : Sim acc s) (e : RdErr) :
    (stepAcc caught acc (.setException e)).2 = (frames s).1 ∧
    (stepAcc caught acc (.setException e)).1.status = handled caught e := by
  obtain ⟨f, out⟩ := acc
  obtain ⟨hr, _, _, _, _, hout⟩ := h
  simp only at hr hout
  simp only [stepAcc, Face.step, hr, List.append_nil, hout, and_self]

/-- what has been handed over is never taken back -/
theorem runFrom_grows (caught : List RdErr) (evs : List Event) : ∀ acc : Face × List Pkt,
    acc.2 <+: (runFrom caught acc evs).2 := by
  induction evs with
  | nil => intro acc; exact List.prefix_refl _
  | cons e r ih =>
    intro acc
    have h1 : acc.2 <+: (stepAcc caught acc e).2 := by simp [stepAcc]
    exact List.IsPrefix.trans h1 (ih _)

theorem traceFrom_append (caught : List RdErr) (acc : Face × List Pkt) (e1 e2 : List Event) :
    traceFrom caught acc (e1 ++ e2) =
      traceFrom caught acc e1 ++ traceFrom caught (runFrom caught acc e1) e2 := by
  induction e1 generalizing acc with
  | nil => rfl
  | cons e r ih => simp only [List.cons_append, traceFrom, runFrom, ih]

end Ndn.StreamReader
