import NdnProofs.Lemmas.PacketParseInterestAt
import NdnModel.Signers
/-!
  Helper lemmas for the DigestSha256 / HMAC-SHA256 signers and checkers inside the packet model (C02):
  the executable SHA-256 always yields 32 bytes; what the signer of an Interest is handed does not depend on the
  digest written into the name; an HMAC collision is a collision of the underlying hash.
-/
namespace Ndn.Sha256
open Ndn

theorem compress_size (h : Array UInt32) (b : List UInt32) : (compress h b).size = 8 := by
  simp [compress]

theorem foldl_compress_size : ∀ (bs : List (List UInt32)) (h : Array UInt32), h.size = 8 →
    (bs.foldl compress h).size = 8
  | [], _, hh => hh
  | b :: r, h, _ => foldl_compress_size r _ (compress_size h b)

theorem flatMap_bytesOfWord_length : ∀ (l : List UInt32), (l.flatMap bytesOfWord).length = 4 * l.length
  | [] => rfl
  | a :: r => by
    have h4 : (bytesOfWord a).length = 4 := rfl
    simp [List.flatMap_cons, flatMap_bytesOfWord_length r, h4]; omega

/-- the executable SHA-256 yields 32 bytes for every message -/
theorem sha256_length (m : List UInt8) : (sha256 m).length = 32 := by
  unfold sha256
  simp only [flatMap_bytesOfWord_length, Array.length_toList]
  rw [foldl_compress_size _ _ (by rfl)]

end Ndn.Sha256

namespace Ndn.Packet
open Ndn Ndn.Codec

theorem concatB_app (x y : List Bytes) : concatB (x ++ y) = concatB x ++ concatB y := by
  induction x with
  | nil => rfl
  | cons h t ih => simp [concatB, ih]

theorem concatB_at_length (pre post : List Bytes) (c : Bytes) :
    (concatB (pre ++ c :: post)).length = (concatB pre).length + c.length + (concatB post).length := by
  simp [concatB_app, concatB]; omega

/-- writing a digest into the component at position `i` leaves the components before and after it alone -/
theorem placeDigest_take_drop : ∀ (l : List Bytes) (i : Nat) (d : Bytes),
    (placeDigest l i d).take i = l.take i ∧ (placeDigest l i d).drop (i + 1) = l.drop (i + 1)
  | [], _, _ => by simp [placeDigest]
  | _ :: _, 0, _ => by simp [placeDigest]
  | c :: r, i + 1, d => by
    have := placeDigest_take_drop r i d
    simp [placeDigest, this.1, this.2]

/-- the name chunks handed to the signer do not depend on the digest that is (later) written into the name -/
theorem nameChunks_placeDigest (l : List Bytes) (i : Nat) (d : Bytes) :
    nameChunks (placeDigest l i d) (some i) = nameChunks l (some i) := by
  simp only [nameChunks, (placeDigest_take_drop l i d).1, (placeDigest_take_drop l i d).2]

/-- the chunks around the digest component at position `|pre|` concatenate to the name without that component -/
theorem concatB_nameChunks_at (pre post : List Bytes) (c : Bytes) :
    concatB (nameChunks (pre ++ c :: post) (some pre.length)) = concatB pre ++ concatB post := by
  have h1 : (pre ++ c :: post).take pre.length = pre := by simp
  have h2 : (pre ++ c :: post).drop (pre.length + 1) = post := by
    rw [← List.drop_drop]; simp
  simp only [nameChunks, h1, h2]
  by_cases ha : (concatB pre).isEmpty <;> by_cases hb : (concatB post).isEmpty
  · have e1 : concatB pre = [] := by simpa using ha
    have e2 : concatB post = [] := by simpa using hb
    simp [e1, e2, concatB]
  · have e1 : concatB pre = [] := by simpa using ha
    simp [e1, hb, concatB]
  · have e2 : concatB post = [] := by simpa using hb
    simp [ha, e2, concatB]
  · simp [ha, hb, concatB]

end Ndn.Packet

namespace Ndn.Hmac
open Ndn

/-- two different messages with the same HMAC under one key exhibit a collision of the hash function: either the
    inner hashes collide, or the outer hash collides on two different inner results -/
theorem hmac_collision (H : Bytes → Bytes) (key m m' : Bytes) (hne : m' ≠ m)
    (heq : hmac H key m' = hmac H key m) : ∃ x y, x ≠ y ∧ H x = H y := by
  unfold hmac at heq
  by_cases hin : H (xorWith ipad (blockKey H key) ++ m') = H (xorWith ipad (blockKey H key) ++ m)
  · exact ⟨_, _, fun e => hne (List.append_cancel_left e), hin⟩
  · exact ⟨_, _, fun e => hin (List.append_cancel_left e), heq⟩

end Ndn.Hmac
