import NdnModel.Lp
import NdnModel.ReceiveBytes
import NdnProofs.Lemmas.Lp
import NdnProofs.Lemmas.CodecTotal
/-!
  The two models of `TlvModel.parse` agree on the envelope format, for EVERY byte string.

  `Ndn.Lp.parseLoop` (NdnModel/Lp.lean, written for property C10: fields collected into an association list by
  type number) and `Ndn.Codec.parseFields` (NdnModel/Codec.lean, the generic codec of C07/C08: one positional
  slot per field) were written independently from the same Python loop.  For a format made of UintField /
  BytesField / BoolField / one level of ModelField with pairwise different type numbers - which is what
  `LpPacketValue` is - the two return the same result on every wire (same fields set, same values, same exception
  class at the same element), `sim_loop`.  Consequence (`parseLp_eq_lpDec`): the envelope decoder of C10 and the
  envelope decoder used by the byte-level receive pipeline of C06 (`Ndn.RecvBytes.lpDec`) are the same function,
  so the C10 theorems are statements about `receiveBytes`.
-/
namespace Ndn.LpCodec
open Ndn Ndn.Codec Ndn.Lp

/-- positional form of an association list of decoded fields: one slot per field of the table -/
def posOf {κ ν : Type} (cv : κ → ν → Value) (tbl : List (Nat × κ)) (acc : List (Nat × ν)) : List Value :=
  tbl.map fun f => match lookup acc f.1 with
    | some v => cv f.2 v
    | none => .none

def fschema (f : Nat × FKind) : Schema :=
  match f.2 with
  | .uint => .uint f.1 none
  | .bytes => .bytes f.1 false
  | .bool => .bool f.1

def kschema (f : Nat × Kind) : Schema :=
  match f.2 with
  | .flat k => fschema (f.1, k)
  | .model sub ic => .model f.1 (sub.map fschema) ic

def fvalue (_ : FKind) : FVal → Value
  | .uint n => .uint n
  | .bytes b => .bytes b
  | .bool => .bool

def kvalue : Kind → Val → Value
  | .flat k, .flat v => fvalue k v
  | .model _ _, .flat v => fvalue .bool v
  | .model sub _, .model m => .model (posOf fvalue sub m)
  | .flat _, .model _ => .model []

/-- what the simulation needs to know about one kind of field table -/
structure Sim {κ ν : Type} (tbl : List (Nat × κ)) (toS : Nat × κ → Schema) (cv : κ → ν → Value)
    (pv : κ → Bytes → Nat → Except PyErr ν) : Prop where
  typ : ∀ f, (toS f).typ = some f.1
  kind : ∀ f, isElemKind (toS f) = true
  /-- width / bounds check and value parsing of one element give the same value or the same exception -/
  step : ∀ (fuel : Nat) (f : Nat × κ) (rest : Bytes) (hdr len : Nat), f ∈ tbl → 2 ≤ hdr → 2 ≤ rest.length → rest.length ≤ fuel →
    (leafCheck (toS f) len (pySlice rest hdr (hdr + len)) >>= fun _ =>
        parseValue fuel (toS f) (pySlice rest hdr (hdr + len)) rest)
      = (pv f.2 (rest.drop hdr) len).map (cv f.2)

/-- pairwise different type numbers -/
def Distinct {κ : Type} (tbl : List (Nat × κ)) : Prop :=
  ∀ (i j t : Nat) (k k' : κ), tbl[i]? = some (t, k) → tbl[j]? = some (t, k') → i = j

theorem lookup_append_other {ν} (acc : List (Nat × ν)) (t t' : Nat) (x : ν) (h : t' ≠ t) :
    lookup (acc ++ [(t, x)]) t' = lookup acc t' := by
  induction acc with
  | nil => simp [lookup, Ne.symm h]
  | cons e r ih =>
    obtain ⟨a, b⟩ := e
    simp only [List.cons_append, lookup]
    split
    · rfl
    · exact ih

theorem posOf_length {κ ν} (cv : κ → ν → Value) (tbl : List (Nat × κ)) (acc : List (Nat × ν)) :
    (posOf cv tbl acc).length = tbl.length := by simp [posOf]

theorem posOf_set {κ ν} (cv : κ → ν → Value) (tbl : List (Nat × κ)) (hd : Distinct tbl) (acc : List (Nat × ν))
    (i t : Nat) (k : κ) (x : ν) (hi : tbl[i]? = some (t, k)) (hacc : ∀ e ∈ acc, e.1 ≠ t) :
    (posOf cv tbl acc).set i (cv k x) = posOf cv tbl (acc ++ [(t, x)]) := by
  apply List.ext_getElem?
  intro j
  by_cases hj : j = i
  · subst hj
    have hlt : j < tbl.length := by
      rcases Nat.lt_or_ge j tbl.length with h | h
      · exact h
      · rw [List.getElem?_eq_none h] at hi; simp at hi
    rw [List.getElem?_set_self (by rw [posOf_length]; exact hlt)]
    simp only [posOf, List.getElem?_map, hi, Option.map_some]
    rw [lookup_append_none _ _ _ (lookup_none_of_not_mem _ _ hacc)]
    simp [lookup]
  · rw [List.getElem?_set_ne (Ne.symm hj)]
    simp only [posOf, List.getElem?_map]
    cases hg : tbl[j]? with
    | none => rfl
    | some f =>
      obtain ⟨t', k'⟩ := f
      have hne : t' ≠ t := by
        intro e; subst e
        exact hj (hd _ _ _ _ _ hg hi)
      simp only [Option.map_some, lookup_append_other _ _ _ _ hne]

theorem findField_map {κ} (toS : Nat × κ → Schema) (htyp : ∀ f, (toS f).typ = some f.1) :
    ∀ (tbl : List (Nat × κ)) (pos t : Nat), findField (tbl.map toS) pos t = (findFrom tbl pos t).map (·.1) := by
  intro tbl
  induction tbl with
  | nil => intro pos t; rfl
  | cons a r ih =>
    intro pos t
    obtain ⟨t0, k0⟩ := a
    simp only [List.map_cons, findField, findFrom, htyp]
    split
    · split
      · rename_i h; simp only [Option.some.injEq] at h; simp [h]
      · rename_i h
        have : ¬ t0 = t := fun e => h (by rw [e])
        simp only [this, if_false, ih, Option.map_map]
        rfl
    · simp only [ih, Option.map_map]; rfl

theorem skipMarkers_none {κ} (toS : Nat × κ → Schema) (hk : ∀ f, isElemKind (toS f) = true) :
    ∀ (tbl : List (Nat × κ)) (acc : List Value) (lo hi off : Nat), skipMarkers (tbl.map toS) acc lo hi off = acc := by
  intro tbl
  induction tbl with
  | nil => intro acc lo hi off; cases acc <;> simp [skipMarkers]
  | cons a r ih =>
    intro acc lo hi off
    cases acc with
    | nil => simp [skipMarkers]
    | cons v vs =>
      simp only [List.map_cons, skipMarkers, ih]
      congr 1
      split
      · have := hk a
        cases h : toS a <;> simp_all [isElemKind]
      · rfl


/-- every field already collected lies before the scan position -/
def Inv {κ ν : Type} (tbl : List (Nat × κ)) (pos : Nat) (acc : List (Nat × ν)) : Prop :=
  ∀ e ∈ acc, ∃ j k, j < pos ∧ tbl[j]? = some (e.1, k)

theorem Inv.mono {κ ν} {tbl : List (Nat × κ)} {pos pos' : Nat} {acc : List (Nat × ν)} (h : Inv tbl pos acc)
    (hp : pos ≤ pos') : Inv tbl pos' acc := by
  intro e he
  obtain ⟨j, k, hj, hg⟩ := h e he
  exact ⟨j, k, by omega, hg⟩

theorem Inv.fresh {κ ν} {tbl : List (Nat × κ)} (hd : Distinct tbl) {pos i t : Nat} {k : κ} {acc : List (Nat × ν)}
    (h : Inv tbl pos acc) (hp : pos ≤ i) (hi : tbl[i]? = some (t, k)) : ∀ e ∈ acc, e.1 ≠ t := by
  intro e he heq
  obtain ⟨j, k', hj, hg⟩ := h e he
  rw [heq] at hg
  have := hd _ _ _ _ _ hg hi
  omega

theorem Inv.snoc {κ ν} {tbl : List (Nat × κ)} {pos i t : Nat} {k : κ} {acc : List (Nat × ν)} (x : ν)
    (h : Inv tbl pos acc) (hp : pos ≤ i) (hi : tbl[i]? = some (t, k)) : Inv tbl (i + 1) (acc ++ [(t, x)]) := by
  intro e he
  simp only [List.mem_append, List.mem_singleton] at he
  rcases he with he | rfl
  · obtain ⟨j, k', hj, hg⟩ := h e he
    exact ⟨j, k', by omega, hg⟩
  · exact ⟨i, k, by omega, hi⟩

/-- **the two scan loops agree**, element for element, on every byte string -/
theorem sim_loop {κ ν : Type} (toS : Nat × κ → Schema) (cv : κ → ν → Value) (pv : κ → Bytes → Nat → Except PyErr ν)
    (tbl : List (Nat × κ)) (S : Sim tbl toS cv pv) (hd : Distinct tbl) (ic : Bool) :
    ∀ (fuel2 fuel1 : Nat) (rest : Bytes) (off pos : Nat) (acc : List (Nat × ν)),
      rest.length < fuel2 → rest.length ≤ fuel1 → Inv tbl pos acc →
      parseFields fuel2 (tbl.map toS) ic rest off pos (posOf cv tbl acc)
        = (parseLoop tbl pv ic false fuel1 rest pos acc).map (posOf cv tbl) := by
  intro fuel2
  induction fuel2 with
  | zero => intro _ _ _ _ _ h; omega
  | succ f2 ih =>
    intro fuel1 rest off pos acc h2 h1 hinv
    cases fuel1 with
    | zero =>
      have : rest = [] := List.eq_nil_of_length_eq_zero (by omega)
      subst this
      simp [parseFields, parseLoop, Except.map]
    | succ f1 =>
      unfold parseFields parseLoop
      by_cases he : rest.isEmpty = true
      · simp [he, Except.map]
      · simp only [he, Bool.false_eq_true, if_false, readTL]
        cases hp1 : parseTlNum rest 0 with
        | error e => simp [bind, Except.bind, Except.map]
        | ok r1 =>
          obtain ⟨typ, st⟩ := r1
          simp only [bind, Except.bind]
          cases hp2 : parseTlNum rest st with
          | error e => simp [Except.map]
          | ok r2 =>
            obtain ⟨len, sl⟩ := r2
            have hst := parseTlNum_pos hp1
            have hsl := parseTlNum_pos hp2
            have hr2 : 2 ≤ rest.length := by omega
            have hdrop2 : (rest.drop (st + sl + len)).length < f2 := drop_len_lt rest _ f2 h2 (by omega) hr2
            have hdrop1 : (rest.drop (st + sl + len)).length ≤ f1 := by simp; omega
            have hdd : (rest.drop (st + sl)).drop len = rest.drop (st + sl + len) := by rw [List.drop_drop]
            simp only [pure, Except.pure, Bool.false_and, Bool.false_eq_true, if_false,
              findField_map toS S.typ, hdd]
            cases hf : findFrom tbl pos typ with
            | none =>
              simp only [Option.map_none]
              by_cases hc : typ % 2 = 1 ∧ ¬ ic = true
              · have : (decide (typ % 2 = 1) && !ic) = true := by simp [hc.1, hc.2]
                simp [hc, Except.map]
              · have : (decide (typ % 2 = 1) && !ic) = false := by
                  cases ic <;> simp_all
                simp only [hc, this, Bool.false_eq_true, if_false]
                exact ih f1 _ _ pos acc hdrop2 hdrop1 hinv
            | some ik =>
              obtain ⟨i, k⟩ := ik
              obtain ⟨hpi, hget⟩ := findFrom_spec _ _ _ _ _ hf
              have hget' : (tbl.map toS)[i]? = some (toS (typ, k)) := by simp [hget]
              have hstep := S.step f2 (typ, k) rest (st + sl) len (List.mem_of_getElem? hget) (by omega) hr2 (by omega)
              have hkind := S.kind (typ, k)
              simp only [Option.map_some, skipMarkers_none toS S.kind, hget']
              simp only [bind, Except.bind] at hstep
              have hfresh := hinv.fresh hd hpi hget
              have hinv' := fun x => hinv.snoc (x := x) hpi hget
              have hset := fun x => posOf_set cv tbl hd acc i typ k x hget hfresh
              have ih' := fun x => ih f1 (rest.drop (st + sl + len)) (off + (st + sl) + len) (i + 1) (acc ++ [(typ, x)])
                hdrop2 hdrop1 (hinv' x)
              generalize toS (typ, k) = s at hstep hkind ⊢
              generalize leafCheck s len (pySlice rest (st + sl) (st + sl + len)) = L at hstep ⊢
              generalize Codec.parseValue f2 s (pySlice rest (st + sl) (st + sl + len)) rest = V at hstep ⊢
              generalize pv k (List.drop (st + sl) rest) len = P at hstep ⊢
              cases s <;> simp only [isElemKind, Bool.false_eq_true] at hkind <;> cases L <;> cases V <;> cases P <;>
                simp only [Except.map, Except.error.injEq, Except.ok.injEq, reduceCtorEq] at hstep ⊢ <;>
                first
                  | (subst hstep; rfl)
                  | (subst hstep; rw [hset]; exact ih' _)

/-! ### the two kinds of field tables of the envelope format -/

theorem pySlice_eq_take_drop {α} (rest : List α) (hdr len : Nat) :
    pySlice rest hdr (hdr + len) = (rest.drop hdr).take len := by
  unfold pySlice
  rw [List.drop_take]
  congr 1
  omega

theorem simF (tbl : List (Nat × FKind)) : Sim tbl fschema fvalue parseFVal where
  typ := by intro ⟨t, k⟩; cases k <;> rfl
  kind := by intro ⟨t, k⟩; cases k <;> rfl
  step := by
    intro fuel ⟨t, k⟩ rest hdr len _ hh hr hf
    obtain ⟨f, rfl⟩ : ∃ f, fuel = f + 1 := ⟨fuel - 1, by omega⟩
    rw [pySlice_eq_take_drop]
    cases k with
    | bytes => simp [fschema, leafCheck, Codec.parseValue, parseFVal, Except.map, fvalue, bind, Except.bind]
    | bool => simp [fschema, leafCheck, Codec.parseValue, parseFVal, Except.map, fvalue, bind, Except.bind]
    | uint =>
      simp only [fschema, leafCheck, parseFVal]
      by_cases hl : len = 1 ∨ len = 2 ∨ len = 4 ∨ len = 8
      · simp only [hl, if_true, List.length_take, List.length_drop]
        by_cases hb : rest.length - hdr < len
        · have : ¬ (min len (rest.length - hdr) = len) := by omega
          simp [this, hb, bind, Except.bind, Except.map]
        · have : min len (rest.length - hdr) = len := by omega
          simp [this, hb, bind, Except.bind, Except.map, Codec.parseValue, fvalue]
      · simp [hl, bind, Except.bind, Except.map]

/-- the nested models of a table have pairwise different type numbers themselves -/
def SubsDistinct (tbl : List (Nat × Kind)) : Prop :=
  ∀ t sub ic, (t, Kind.model sub ic) ∈ tbl → Distinct sub

theorem init_posOf (sub : List (Nat × FKind)) : (sub.map fschema).map initVal = posOf fvalue sub [] := by
  simp only [posOf, lookup, List.map_map]
  apply List.map_congr_left
  intro ⟨t, k⟩ _
  cases k <;> rfl

theorem simK (tbl : List (Nat × Kind)) (hsd : SubsDistinct tbl) : Sim tbl kschema kvalue (parseVal false) where
  typ := by
    intro ⟨t, k⟩
    cases k with
    | flat fk => cases fk <;> rfl
    | model sub ic => rfl
  kind := by
    intro ⟨t, k⟩
    cases k with
    | flat fk => cases fk <;> rfl
    | model sub ic => rfl
  step := by
    intro fuel ⟨t, k⟩ rest hdr len hm hh hr hf
    cases k with
    | flat fk =>
      have := (simF [(t, fk)]).step fuel (t, fk) rest hdr len (by simp) hh hr hf
      simp only [kschema, parseVal]
      rw [this]
      cases parseFVal fk (List.drop hdr rest) len <;> simp [Except.map, kvalue]
    | model sub ic =>
      obtain ⟨f, rfl⟩ : ∃ f, fuel = f + 1 := ⟨fuel - 1, by omega⟩
      have hbody : (pySlice rest hdr (hdr + len)).length < f := by
        have := pySlice_len_le rest hdr (hdr + len); omega
      have hsim := sim_loop fschema fvalue parseFVal sub (simF sub) (hsd t sub ic hm) ic f
        (pySlice rest hdr (hdr + len)).length (pySlice rest hdr (hdr + len)) 0 0 [] hbody (Nat.le_refl _)
        (by intro e he; simp at he)
      simp only [kschema, leafCheck, Codec.parseValue, parseVal, parseFlat, bind, Except.bind, init_posOf, hsim,
        ← pySlice_eq_take_drop]
      cases parseLoop sub parseFVal ic false (pySlice rest hdr (hdr + len)).length (pySlice rest hdr (hdr + len)) 0 [] <;>
        simp [Except.map, kvalue, pure, Except.pure]

end Ndn.LpCodec
