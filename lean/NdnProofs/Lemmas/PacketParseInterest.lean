import NdnProofs.Lemmas.MarkerRun
/-!
  Parsing a made Interest: the seven leading OffsetMarker / ProcedureArgument pseudo-fields, the two
  markers `_sig_cover_start` / `_digest_cover_start` in front of ApplicationParameters, the trailing
  `_sig_cover_end` marker, and the offset of the InterestSignatureValue.
-/
namespace Ndn.Packet
open Ndn Ndn.Codec

/-- can_be_prefix … hop_limit -/
def midFs : List Schema := [.bool 33, .bool 18, linksS, .uint 10 (some 4), .uint 12 none, .uint 34 (some 1)]
/-- the real fields in front of the two cover-start markers -/
def intHeadFs : List Schema := nameS :: midFs
/-- ApplicationParameters, InterestSignatureInfo, InterestSignatureValue -/
def intTailFs : List Schema := [.bytes 36 false, intSigInfoS, .bytes 46 false]

/-- the first 14 fields of `InterestPacketValue` -/
def intP14 : List Schema := List.replicate 7 Schema.marker ++ intHeadFs
/-- the first 16 fields -/
def intP16 : List Schema := intP14 ++ List.replicate 2 Schema.marker

theorem interestFs_split :
    interestFs = (intP16 ++ intTailFs) ++ [Schema.marker] := rfl

theorem foldl_applyItem_length : ∀ (items : List Item) (acc : List Value),
    (items.foldl applyItem acc).length = acc.length
  | [], _ => rfl
  | x :: r, acc => by simp only [List.foldl]; rw [foldl_applyItem_length r, applyItem_length]

/-- phase A of the scan: the items of Name … HopLimit (non-empty) set the seven leading markers to 0 and
    leave the rest of the Interest fields untouched -/
theorem interest_head_items (vsA : List Value) (A : Bytes)
    (hA : SuffixRT (List.replicate 7 Schema.marker) intHeadFs vsA A) (hneA : A ≠ []) :
    ∃ itA rA, ItemsOK (List.replicate 7 Schema.marker ++ intHeadFs) 7 (itA :: rA) ∧
      ItemsOK interestFs 0 (itA :: rA) ∧ encItems (itA :: rA) = A ∧ vsA.length = 7 ∧
      runItems interestFs 0 0 (interestFs.map initVal) (itA :: rA)
        = (List.replicate 7 (Value.uint 0) ++ vsA) ++ List.replicate 6 Value.none := by
  obtain ⟨itemsA, hokA, hencA, hfoldA⟩ := hA
  simp only [List.length_replicate] at hokA hfoldA
  have hiA : itemsA ≠ [] := by intro e; subst e; exact hneA (by simpa [encItems] using hencA.symm)
  obtain ⟨itA, rA, rfl⟩ := List.exists_cons_of_ne_nil hiA
  have hlenA : vsA.length = 7 := by
    have := congrArg List.length (hfoldA (List.replicate 7 Value.none) (by simp))
    rw [foldl_applyItem_length] at this
    simp [intHeadFs, midFs] at this; omega
  have hbA := ItemsOK_bounds _ _ _ hokA
  have hlA : (List.replicate 7 Schema.marker ++ intHeadFs).length = 14 := rfl
  rw [hlA] at hbA
  have hokA' : ItemsOK interestFs 7 (itA :: rA) := by
    have := ItemsOK_extend _ (List.replicate 2 Schema.marker ++ (intTailFs ++ [Schema.marker])) _ _ hokA
    exact this
  have hokA0 : ItemsOK interestFs 0 (itA :: rA) := ⟨Nat.zero_le _, hokA'.2.1, hokA'.2.2⟩
  refine ⟨itA, rA, hokA, hokA0, hencA, hlenA, ?_⟩
  have h := runItems_block [] (intHeadFs ++ (List.replicate 2 Schema.marker ++ (intTailFs ++ [Schema.marker])))
    7 7 0 0 rfl (by decide) (by decide) (Nat.le_refl _) [] (List.replicate 7 Value.none)
    (List.replicate 13 Value.none) rfl (by simp) itA rA hokA0
    (fun x hx => by have := hbA x hx; simp; omega)
  have e1 : ([] : List Schema) ++ (List.replicate 7 Schema.marker ++
      (intHeadFs ++ (List.replicate 2 Schema.marker ++ (intTailFs ++ [Schema.marker])))) = interestFs := rfl
  have e2 : ([] : List Value) ++ (List.replicate 7 Value.none ++ List.replicate 13 Value.none)
      = interestFs.map initVal := rfl
  rw [e1, e2] at h
  rw [h]
  have e3 : ([] : List Value) ++ (List.replicate 7 (Value.uint 0) ++ List.replicate 13 Value.none)
      = (List.replicate 7 (Value.uint 0) ++ intHeadFs.map initVal) ++ List.replicate 6 Value.none := rfl
  rw [e3, foldl_applyItem_append _ _ _ (fun x hx => by have := hbA x hx; simp [intHeadFs, midFs]; omega),
    hfoldA _ (by simp)]

/-- **marker lemma for the Interest schema.**  `A` = the encoded Name … HopLimit elements (values `vsA`),
    `B` = the encoded ApplicationParameters, SignatureInfo, SignatureValue elements (values `vsB`), both
    non-empty.  The scan loop of `InterestPacketValue.parse` over `A ++ B` ends with: the seven leading
    markers = 0, the fields of `A`, both cover-start markers = `|A|` (the offset of the first element of
    `B`), the fields of `B`, and the trailing `_sig_cover_end` marker unset. -/
theorem interest_items (vsA vsB : List Value) (A B : Bytes)
    (hA : SuffixRT (List.replicate 7 Schema.marker) intHeadFs vsA A)
    (hB : SuffixRT intP16 intTailFs vsB B) (hneA : A ≠ []) (hneB : B ≠ []) :
    ∃ items, ItemsOK interestFs 0 items ∧ encItems items = A ++ B ∧
      runItems interestFs 0 0 (interestFs.map initVal) items =
        List.replicate 7 (Value.uint 0) ++ vsA ++ List.replicate 2 (Value.uint A.length) ++ vsB ++ [Value.none] := by
  obtain ⟨itA, rA, hokA, hokA0, hencA, hlenA, hphA⟩ := interest_head_items vsA A hA hneA
  obtain ⟨itemsB, hokB, hencB, hfoldB⟩ := hB
  have hl16 : intP16.length = 16 := rfl
  rw [hl16] at hokB hfoldB
  have hiB : itemsB ≠ [] := by intro e; subst e; exact hneB (by simpa [encItems] using hencB.symm)
  obtain ⟨itB, rB, rfl⟩ := List.exists_cons_of_ne_nil hiB
  have hbB := ItemsOK_bounds _ _ _ hokB
  have hlA : (List.replicate 7 Schema.marker ++ intHeadFs).length = 14 := rfl
  have hlB : (intP16 ++ intTailFs).length = 19 := rfl
  rw [hlB] at hbB
  have hend := endPos_bounds _ _ _ hokA (by rw [hlA]; omega)
  rw [hlA] at hend
  have hokB' : ItemsOK interestFs 16 (itB :: rB) := by
    have := ItemsOK_extend _ [Schema.marker] _ _ hokB
    exact this
  have hokBp : ItemsOK interestFs (endPos 7 (itA :: rA)) (itB :: rB) :=
    ⟨by have := hokB'.1; omega, hokB'.2.1, hokB'.2.2⟩
  have hokAll : ItemsOK interestFs 0 ((itA :: rA) ++ (itB :: rB)) :=
    ItemsOK_append' interestFs _ _ 0 _ hokA0 (Nat.le_refl _) hokBp
  refine ⟨(itA :: rA) ++ (itB :: rB), hokAll, by rw [encItems_append, hencA, hencB], ?_⟩
  rw [runItems_append, hencA, hphA]
  -- phase B: the two cover-start markers
  have hpos : endPos 0 (itA :: rA) = endPos 7 (itA :: rA) := rfl
  rw [hpos]
  have h := runItems_block intP14 (intTailFs ++ [Schema.marker]) 2 3 (endPos 7 (itA :: rA)) (0 + A.length)
    (noMarkerIn_mono intP14 7 14 _ _ (by decide) hend.1 (Nat.le_refl _)) (by decide) (by decide) hend.2
    (List.replicate 7 (Value.uint 0) ++ vsA) (List.replicate 2 Value.none) (List.replicate 4 Value.none)
    (by simp [hlenA]; rfl) (by simp) itB rB hokBp
    (fun x hx => by have := hbB x hx; have e : intP14.length = 14 := rfl; rw [e]; omega)
  have e1 : intP14 ++ (List.replicate 2 Schema.marker ++ (intTailFs ++ [Schema.marker])) = interestFs := rfl
  have e2 : (List.replicate 2 Value.none ++ List.replicate 4 Value.none) = List.replicate 6 Value.none := rfl
  rw [e1, e2] at h
  rw [h]
  have e3 : (List.replicate 7 (Value.uint 0) ++ vsA) ++
        (List.replicate 2 (Value.uint (0 + A.length)) ++ List.replicate 4 Value.none)
      = ((List.replicate 7 (Value.uint 0) ++ vsA ++ List.replicate 2 (Value.uint A.length))
          ++ intTailFs.map initVal) ++ [Value.none] := by
    simp [intTailFs, List.replicate, initVal, intSigInfoS]
  rw [e3, foldl_applyItem_append _ _ _ (fun x hx => by have := hbB x hx; simp [hlenA, intTailFs]; omega),
    hfoldB _ (by simp [hlenA])]

theorem seqWithout_fields (t : Nat) : ∀ (fs : List Schema) (vs : List Value) (B : Bytes),
    (∀ s ∈ fs, isElemKind s = true ∧ (∀ t', s.typ = some t' → t' ≠ t) ∧ (∀ x, s = .name x → 7 ≠ t)) →
    encFields fs vs = .ok B → SeqWithout t B
  | [], _, B, _, h => by simp [encFields] at h; subst h; exact .nil
  | _ :: _, [], B, _, h => by simp [encFields] at h; subst h; exact .nil
  | s :: ss, v :: vs, B, hall, h => by
    simp only [encFields] at h
    obtain ⟨a, ha, h2⟩ := bind_ok h
    obtain ⟨c, hc, h3⟩ := bind_ok h2
    simp only [pure, Except.pure] at h3; cases h3
    obtain ⟨k1, k2, k3⟩ := hall s (List.mem_cons_self ..)
    exact (enc_seqWithout t s v a k1 k2 k3 ha).append
      (seqWithout_fields t ss vs c (fun x hx => hall x (List.mem_cons_of_mem _ hx)) hc)

theorem pySlice_mid {α} (x y z : List α) : pySlice (x ++ y ++ z) x.length (x.length + y.length) = y := by
  have : x.length + y.length = (x ++ y).length := by simp
  rw [pySlice, this, List.take_left', List.drop_left']
  · rfl
  · rfl

theorem pySlice_to_end {α} (x y : List α) : pySlice (x ++ y) x.length (x ++ y).length = y := by
  rw [pySlice, List.take_length, List.drop_left' rfl]

/-- the outer element check of `parse_interest` / `parse_data` on a well-formed element -/
theorem parseAndCheckTl_tlv (t : Nat) (v : Bytes) (ht : t < 2 ^ 64) (hv : v.length < 2 ^ 64) :
    parseAndCheckTl (tlv t v) t = .ok v := by
  obtain ⟨p1, p2, s1, _, _⟩ := head_elem t v [] ht hv
  simp only [List.append_nil] at p1 p2 s1
  unfold parseAndCheckTl
  simp only [p1, p2, bind, Except.bind, ne_eq, not_true_eq_false, if_false, tlv_length, s1]
  rfl

theorem anyPresent_nil : ∀ (a : List Schema) (b : List Value), anyPresent a b [] = false
  | [], _ => by simp [anyPresent]
  | _ :: _, [] => by simp [anyPresent]
  | s :: ss, v :: vs => by simp only [anyPresent, anyPresent_nil ss vs]; cases s.typ <;> simp

/-- **the scan loop on the Value of a made Interest.**  `comps` is the final name, `midB` the encoded
    CanBePrefix … HopLimit, `tailB` the (non-empty) encoded ApplicationParameters, SignatureInfo,
    SignatureValue.  All fields come back, the seven leading markers hold 0, `_sig_cover_start` and
    `_digest_cover_start` hold the offset of the first element behind the parameters block
    (ApplicationParameters when present), `_sig_cover_end` stays unset. -/
theorem parse_interest_value (comps : List Bytes) (mid : List Value) (app sigInfo sv : Value)
    (midB tailB : Bytes)
    (hmid : encFields midFs mid = .ok midB) (htail : encFields intTailFs [app, sigInfo, sv] = .ok tailB)
    (hcomps : comps.all compOk = true) (hfitmid : fitsFs midFs mid = true)
    (hfittail : fitsFs intTailFs [app, sigInfo, sv] = true)
    (hcl : (concatB comps).length < 2 ^ 64) (hne : tailB ≠ []) :
    parse interestFs false (tlv 7 (concatB comps) ++ midB ++ tailB) =
      .ok (List.replicate 7 (Value.uint 0) ++ (Value.name comps :: mid) ++
           List.replicate 2 (Value.uint (tlv 7 (concatB comps) ++ midB).length) ++ [app, sigInfo, sv] ++
           [Value.none]) := by
  have hencA : encFields intHeadFs (Value.name comps :: mid) = .ok (tlv 7 (concatB comps) ++ midB) := by
    simp [intHeadFs, encFields, nameS, enc, tlvE, hcl, hmid, bind, Except.bind, pure, Except.pure]
  have hfitA : fitsFs intHeadFs (Value.name comps :: mid) = true := by
    simp [intHeadFs, fitsFs, nameS, fits, hcomps, hfitmid]
  have hA := rt_suffix (List.replicate 7 Schema.marker) intHeadFs _ _ (by decide) (by decide) hfitA hencA
  have hB := rt_suffix intP16 intTailFs _ _ (by decide) (by decide) hfittail htail
  have hneA : tlv 7 (concatB comps) ++ midB ≠ [] := by
    intro e; exact tlv_ne_nil 7 (concatB comps) (List.append_eq_nil_iff.mp e).1
  obtain ⟨items, hok, henc, hrun⟩ := interest_items _ _ _ _ hA hB hneA hne
  have hl := loop_prefix_m interestFs false (by decide) [] items
    ((tlv 7 (concatB comps) ++ midB ++ tailB).length + 1) 0 0 (interestFs.map initVal) hok
    (by rw [List.append_nil, henc]; omega)
  rw [List.append_nil, henc] at hl
  have hge := encItems_len_ge items
  rw [henc] at hge
  unfold parse
  rw [hl]
  have hfu : (tlv 7 (concatB comps) ++ midB ++ tailB).length + 1 - items.length
      = ((tlv 7 (concatB comps) ++ midB ++ tailB).length - items.length) + 1 := by omega
  rw [hfu]
  simp only [parseFields, List.isEmpty_nil, if_true]
  rw [hrun]

/-- `parse_interest`'s decoder (outer Type / exact outer Length, scan loop, mandatory Name) on a made
    Interest -/
theorem decode_interest (comps : List Bytes) (mid : List Value) (app sigInfo sv : Value)
    (midB tailB : Bytes)
    (hmid : encFields midFs mid = .ok midB) (htail : encFields intTailFs [app, sigInfo, sv] = .ok tailB)
    (hcomps : comps.all compOk = true) (hfitmid : fitsFs midFs mid = true)
    (hfittail : fitsFs intTailFs [app, sigInfo, sv] = true)
    (hcl : (concatB comps).length < 2 ^ 64) (hne : tailB ≠ [])
    (hsize : (tlv 7 (concatB comps) ++ midB ++ tailB).length < 2 ^ 64) :
    decodePacket interestFs 5 false true [] (tlv 5 (tlv 7 (concatB comps) ++ midB ++ tailB)) =
      .ok (List.replicate 7 (Value.uint 0) ++ (Value.name comps :: mid) ++
           List.replicate 2 (Value.uint (tlv 7 (concatB comps) ++ midB).length) ++ [app, sigInfo, sv] ++
           [Value.none]) := by
  unfold decodePacket
  simp only [parseAndCheckTl_tlv 5 _ (by decide) hsize,
    parse_interest_value comps mid app sigInfo sv midB tailB hmid htail hcomps hfitmid hfittail hcl hne,
    bind, Except.bind, anyPresent_nil]
  simp [nameMissing, nameIdx, interestFs, nameS, isNone, List.replicate]

/-- the scan loop on the Value of a plain Interest (no ApplicationParameters, unsigned): the cover-start
    markers stay unset -/
theorem parse_interest_value_plain (comps : List Bytes) (mid : List Value) (midB : Bytes)
    (hmid : encFields midFs mid = .ok midB)
    (hcomps : comps.all compOk = true) (hfitmid : fitsFs midFs mid = true)
    (hcl : (concatB comps).length < 2 ^ 64) :
    parse interestFs false (tlv 7 (concatB comps) ++ midB) =
      .ok (List.replicate 7 (Value.uint 0) ++ (Value.name comps :: mid) ++ List.replicate 6 Value.none) := by
  have hencA : encFields intHeadFs (Value.name comps :: mid) = .ok (tlv 7 (concatB comps) ++ midB) := by
    simp [intHeadFs, encFields, nameS, enc, tlvE, hcl, hmid, bind, Except.bind, pure, Except.pure]
  have hfitA : fitsFs intHeadFs (Value.name comps :: mid) = true := by
    simp [intHeadFs, fitsFs, nameS, fits, hcomps, hfitmid]
  have hA := rt_suffix (List.replicate 7 Schema.marker) intHeadFs _ _ (by decide) (by decide) hfitA hencA
  have hneA : tlv 7 (concatB comps) ++ midB ≠ [] := by
    intro e; exact tlv_ne_nil 7 (concatB comps) (List.append_eq_nil_iff.mp e).1
  obtain ⟨itA, rA, _, hok, henc, _, hrun⟩ := interest_head_items _ _ hA hneA
  have hl := loop_prefix_m interestFs false (by decide) [] (itA :: rA)
    ((tlv 7 (concatB comps) ++ midB).length + 1) 0 0 (interestFs.map initVal) hok
    (by rw [List.append_nil, henc]; omega)
  rw [List.append_nil, henc] at hl
  have hge := encItems_len_ge (itA :: rA)
  rw [henc] at hge
  unfold parse
  rw [hl]
  have hfu : (tlv 7 (concatB comps) ++ midB).length + 1 - (itA :: rA).length
      = ((tlv 7 (concatB comps) ++ midB).length - (itA :: rA).length) + 1 := by omega
  rw [hfu]
  simp only [parseFields, List.isEmpty_nil, if_true]
  rw [hrun]

theorem decode_interest_plain (comps : List Bytes) (mid : List Value) (midB : Bytes)
    (hmid : encFields midFs mid = .ok midB)
    (hcomps : comps.all compOk = true) (hfitmid : fitsFs midFs mid = true)
    (hsize : (tlv 7 (concatB comps) ++ midB).length < 2 ^ 64) :
    decodePacket interestFs 5 false true [] (tlv 5 (tlv 7 (concatB comps) ++ midB)) =
      .ok (List.replicate 7 (Value.uint 0) ++ (Value.name comps :: mid) ++ List.replicate 6 Value.none) := by
  have hcl : (concatB comps).length < 2 ^ 64 := by
    simp only [List.length_append, tlv_length] at hsize; omega
  unfold decodePacket
  simp only [parseAndCheckTl_tlv 5 _ (by decide) hsize,
    parse_interest_value_plain comps mid midB hmid hcomps hfitmid hcl, bind, Except.bind, anyPresent_nil]
  simp [nameMissing, nameIdx, interestFs, nameS, isNone, List.replicate]

/-! ### the digest component -/

theorem placeDigest_appended : ∀ (name : List Bytes) (d : Bytes),
    placeDigest (name ++ [digestPlaceholder]) name.length d = name ++ [2 :: 32 :: d]
  | [], d => by simp [placeDigest, digestPlaceholder]
  | c :: r, d => by simp [placeDigest, placeDigest_appended r d]

theorem digestComp_parse (d : Bytes) :
    parseTlNum (2 :: 32 :: d) 0 = .ok (2, 1) ∧ parseTlNum (2 :: 32 :: d) 1 = .ok (32, 1) := by
  constructor <;> simp [parseTlNum]

theorem digestComp_compOk (d : Bytes) (hd : d.length = 32) : compOk (2 :: 32 :: d) = true := by
  obtain ⟨p1, p2⟩ := digestComp_parse d
  unfold compOk
  simp only [p1, p2]
  simp [hd]

theorem digestComp_isDigest (d : Bytes) : isDigestComp (2 :: 32 :: d) = true := by
  unfold isDigestComp; simp only [(digestComp_parse d).1]; rfl

theorem digestComp_value (d : Bytes) : compValue (2 :: 32 :: d) = d := by
  obtain ⟨p1, p2⟩ := digestComp_parse d
  unfold compValue; simp only [p1, p2]; rfl

theorem lastDigest_appended : ∀ (name : List Bytes) (d : Bytes),
    lastDigest (name ++ [2 :: 32 :: d]) = some d
  | [], d => by
    simp only [List.nil_append, lastDigest, digestComp_isDigest, digestComp_value, if_true]
  | c :: r, d => by simp only [List.cons_append, lastDigest, lastDigest_appended r d]

theorem filter_nondigest_appended (name : List Bytes) (d : Bytes)
    (hn : ∀ c ∈ name, isDigestComp c = false) :
    (name ++ [2 :: 32 :: d]).filter (fun c => !isDigestComp c) = name := by
  rw [List.filter_append]
  have h1 : name.filter (fun c => !isDigestComp c) = name :=
    List.filter_eq_self.mpr (fun c hc => by simp [hn c hc])
  have h2 : [2 :: 32 :: d].filter (fun c => !isDigestComp c) = [] := by
    simp only [List.filter, digestComp_isDigest, Bool.not_true]
  rw [h1, h2, List.append_nil]

/-- `InterestNameField.encoded_length` found no digest component ⇒ the name has none -/
theorem digestPos_none (need : Bool) : ∀ (name : List Bytes) (i : Nat),
    digestPos need name i none = .ok none → ∀ c ∈ name, isDigestComp c = false
  | [], _, _, c, hc => by simp at hc
  | x :: r, i, h, c, hc => by
    simp only [digestPos] at h
    by_cases hx : isDigestComp x = true
    · simp only [hx, if_true] at h
      split at h
      · exact absurd h (digestPos_some_ne need r (i + 1) i)
      · cases h
    · simp only [hx, Bool.false_eq_true, if_false] at h
      simp only [List.mem_cons] at hc
      rcases hc with rfl | hc
      · simpa using hx
      · exact digestPos_none need r (i + 1) h c hc
where
  digestPos_some_ne (need : Bool) : ∀ (name : List Bytes) (i j : Nat),
      digestPos need name i (some j) ≠ .ok none
    | [], _, _ => by simp [digestPos]
    | x :: r, i, j => by
      simp only [digestPos]
      split
      · split
        · rename_i h; simp at h
        · simp
      · exact digestPos_some_ne need r (i + 1) j


/-! ### `parse_interest` on a made Interest -/

/-- decidable form of the side conditions of `enc_seqWithout` -/
def avoidsB (t : Nat) (s : Schema) : Bool :=
  isElemKind s && (match s.typ with | some t' => t' != t | none => true) &&
    (match s with | .name _ => t != 7 | _ => true)

theorem seqWithout_fieldsB (t : Nat) (fs : List Schema) (vs : List Value) (B : Bytes)
    (hall : fs.all (avoidsB t) = true) (h : encFields fs vs = .ok B) : SeqWithout t B := by
  refine seqWithout_fields t fs vs B (fun s hs => ?_) h
  have := List.all_eq_true.mp hall s hs
  simp only [avoidsB, Bool.and_eq_true] at this
  obtain ⟨⟨k1, k2⟩, k3⟩ := this
  refine ⟨k1, ?_, ?_⟩
  · intro t' ht'; rw [ht'] at k2; simpa using k2
  · intro x hx; subst hx; intro e; subst e; simp at k3

theorem fitsFs_length : ∀ (fs : List Schema) (vs : List Value), fitsFs fs vs = true → vs.length = fs.length
  | [], [], _ => rfl
  | [], _ :: _, h => by simp [fitsFs] at h
  | _ :: _, [], h => by simp [fitsFs] at h
  | s :: ss, v :: vs, h => by
    simp only [fitsFs, Bool.and_eq_true] at h
    simp [fitsFs_length ss vs h.2]

theorem six_of_length {α} : ∀ (l : List α), l.length = 6 → ∃ a b c d e f, l = [a, b, c, d, e, f]
  | [a, b, c, d, e, f], _ => ⟨a, b, c, d, e, f, rfl⟩
  | [], h | [_], h | [_, _], h | [_, _, _], h | [_, _, _, _], h | [_, _, _, _, _], h => by simp at h
  | _ :: _ :: _ :: _ :: _ :: _ :: _ :: _, h => by simp at h

/-- **parse_interest on a signed Interest with the digest component appended.** -/
theorem parseInterest_signed (name : List Bytes) (d : Bytes) (mid : List Value) (app sigInfo : Value)
    (sig midB tailA : Bytes)
    (hmid : encFields midFs mid = .ok midB)
    (htail : encFields [.bytes 36 false, intSigInfoS] [app, sigInfo] = .ok tailA)
    (hname : name.all compOk = true) (hnd : ∀ c ∈ name, isDigestComp c = false) (hd : d.length = 32)
    (hfitmid : fitsFs midFs mid = true)
    (hfittail : fitsFs [.bytes 36 false, intSigInfoS] [app, sigInfo] = true)
    (hsig : sig.length < 2 ^ 64)
    (hsize : (tlv 7 (concatB (name ++ [2 :: 32 :: d])) ++ midB ++ tailA ++ tlv 46 sig).length < 2 ^ 64) :
    parseInterest (tlv 5 (tlv 7 (concatB (name ++ [2 :: 32 :: d])) ++ midB ++ tailA ++ tlv 46 sig)) =
      .ok (List.replicate 7 (Value.uint 0) ++ (Value.name (name ++ [2 :: 32 :: d]) :: mid) ++
             List.replicate 2 (Value.uint (tlv 7 (concatB (name ++ [2 :: 32 :: d])) ++ midB).length) ++
             [app, sigInfo, Value.bytes sig] ++ [Value.none],
           { sigCovered := name ++ [tailA], sigValue := some sig,
             digestCovered := [tailA ++ tlv 46 sig], digestValue := some d }) := by
  have hcl : (concatB (name ++ [2 :: 32 :: d])).length < 2 ^ 64 := by
    simp only [List.length_append, tlv_length] at hsize; omega
  have hcomps : (name ++ [2 :: 32 :: d]).all compOk = true := by
    simp only [List.all_append, List.all_cons, List.all_nil, hname, digestComp_compOk d hd, Bool.and_self]
  have henc : enc (.bytes 46 false) (.bytes sig) = .ok (tlv 46 sig) := by simp [enc, tlvE, hsig]
  have htail3 : encFields intTailFs [app, sigInfo, Value.bytes sig] = .ok (tailA ++ tlv 46 sig) :=
    encFields_append_one [.bytes 36 false, intSigInfoS] [app, sigInfo] (.bytes 46 false) (.bytes sig)
      tailA (tlv 46 sig) rfl htail henc
  have hfit3 : fitsFs intTailFs [app, sigInfo, Value.bytes sig] = true := by
    simp only [intTailFs, fitsFs, Bool.and_eq_true] at hfittail ⊢
    exact ⟨hfittail.1, hfittail.2.1, by simp [fits], trivial⟩
  have hne : tailA ++ tlv 46 sig ≠ [] := by
    intro e; exact tlv_ne_nil 46 sig (List.append_eq_nil_iff.mp e).2
  have hassoc : tlv 7 (concatB (name ++ [2 :: 32 :: d])) ++ midB ++ tailA ++ tlv 46 sig
      = tlv 7 (concatB (name ++ [2 :: 32 :: d])) ++ midB ++ (tailA ++ tlv 46 sig) := by
    simp [List.append_assoc]
  have hdec := decode_interest _ mid app sigInfo (Value.bytes sig) midB _ hmid htail3 hcomps hfitmid hfit3
    hcl hne (by rw [← hassoc]; exact hsize)
  rw [← hassoc] at hdec
  have hck := parseAndCheckTl_tlv 5 _ (by decide) hsize
  -- the offset of the SignatureValue element
  have hseq : SeqWithout 46 (tlv 7 (concatB (name ++ [2 :: 32 :: d])) ++ midB ++ tailA) := by
    have h7 : SeqWithout 46 (tlv 7 (concatB (name ++ [2 :: 32 :: d]))) := by
      simpa using SeqWithout.cons 7 (concatB (name ++ [2 :: 32 :: d])) [] (by decide) (by decide) hcl .nil
    exact (h7.append (seqWithout_fieldsB 46 midFs mid midB (by decide) hmid)).append
      (seqWithout_fieldsB 46 _ _ tailA (by decide) htail)
  have hoff := offsetOfType_skip 46 (by decide) sig [] hsig hseq
    ((tlv 7 (concatB (name ++ [2 :: 32 :: d])) ++ midB ++ tailA ++ tlv 46 sig).length + 1) 0
    (by simp only [List.length_append]; omega)
  simp only [List.append_nil, Nat.zero_add] at hoff
  obtain ⟨m1, m2, m3, m4, m5, m6, rfl⟩ := six_of_length mid (fitsFs_length _ _ hfitmid)
  have hs1 := pySlice_mid (tlv 7 (concatB (name ++ [2 :: 32 :: d])) ++ midB) tailA (tlv 46 sig)
  have hs2 := pySlice_to_end (tlv 7 (concatB (name ++ [2 :: 32 :: d])) ++ midB) (tailA ++ tlv 46 sig)
  rw [← List.append_assoc] at hs2
  rw [← List.length_append] at hs1
  generalize tlv 7 (concatB (name ++ [2 :: 32 :: d])) ++ midB ++ tailA ++ tlv 46 sig = V at hdec hck hoff hs1 hs2 ⊢
  generalize (tlv 7 (concatB (name ++ [2 :: 32 :: d])) ++ midB ++ tailA).length = b at hoff hs1 ⊢
  generalize (tlv 7 (concatB (name ++ [2 :: 32 :: d])) ++ midB).length = a at hdec hs1 hs2 ⊢
  unfold parseInterest
  simp only [hdec, hck, bind, Except.bind, pure, Except.pure]
  simp [bytesOf, markerOff, hoff, List.replicate, hs1, hs2, lastDigest_appended,
    filter_nondigest_appended name d hnd]


/-- **parse_interest on an unsigned Interest that carries ApplicationParameters** (digest component
    appended; `tailA` = the encoded ApplicationParameters [and SignatureInfo], non-empty). -/
theorem parseInterest_params (name : List Bytes) (d : Bytes) (mid : List Value) (app sigInfo : Value)
    (midB tailA : Bytes)
    (hmid : encFields midFs mid = .ok midB)
    (htail : encFields [.bytes 36 false, intSigInfoS] [app, sigInfo] = .ok tailA)
    (hname : name.all compOk = true) (hnd : ∀ c ∈ name, isDigestComp c = false) (hd : d.length = 32)
    (hfitmid : fitsFs midFs mid = true)
    (hfittail : fitsFs [.bytes 36 false, intSigInfoS] [app, sigInfo] = true)
    (hne : tailA ≠ [])
    (hsize : (tlv 7 (concatB (name ++ [2 :: 32 :: d])) ++ midB ++ tailA).length < 2 ^ 64) :
    parseInterest (tlv 5 (tlv 7 (concatB (name ++ [2 :: 32 :: d])) ++ midB ++ tailA)) =
      .ok (List.replicate 7 (Value.uint 0) ++ (Value.name (name ++ [2 :: 32 :: d]) :: mid) ++
             List.replicate 2 (Value.uint (tlv 7 (concatB (name ++ [2 :: 32 :: d])) ++ midB).length) ++
             [app, sigInfo, Value.none] ++ [Value.none],
           { sigCovered := name, sigValue := none,
             digestCovered := [tailA], digestValue := some d }) := by
  have hcl : (concatB (name ++ [2 :: 32 :: d])).length < 2 ^ 64 := by
    simp only [List.length_append, tlv_length] at hsize; omega
  have hcomps : (name ++ [2 :: 32 :: d]).all compOk = true := by
    simp only [List.all_append, List.all_cons, List.all_nil, hname, digestComp_compOk d hd, Bool.and_self]
  have htail3 : encFields intTailFs [app, sigInfo, Value.none] = .ok (tailA ++ []) :=
    encFields_append_one [.bytes 36 false, intSigInfoS] [app, sigInfo] (.bytes 46 false) .none
      tailA [] rfl htail (by simp [enc])
  rw [List.append_nil] at htail3
  have hfit3 : fitsFs intTailFs [app, sigInfo, Value.none] = true := by
    simp only [intTailFs, fitsFs, Bool.and_eq_true] at hfittail ⊢
    exact ⟨hfittail.1, hfittail.2.1, by simp [fits], trivial⟩
  have hdec := decode_interest _ mid app sigInfo Value.none midB _ hmid htail3 hcomps hfitmid hfit3
    hcl hne hsize
  have hck := parseAndCheckTl_tlv 5 _ (by decide) hsize
  obtain ⟨m1, m2, m3, m4, m5, m6, rfl⟩ := six_of_length mid (fitsFs_length _ _ hfitmid)
  have hs2 := pySlice_to_end (tlv 7 (concatB (name ++ [2 :: 32 :: d])) ++ midB) tailA
  generalize tlv 7 (concatB (name ++ [2 :: 32 :: d])) ++ midB ++ tailA = V at hdec hck hs2 ⊢
  generalize (tlv 7 (concatB (name ++ [2 :: 32 :: d])) ++ midB).length = a at hdec hs2 ⊢
  unfold parseInterest
  simp only [hdec, hck, bind, Except.bind, pure, Except.pure]
  simp [bytesOf, markerOff, List.replicate, hs2, lastDigest_appended,
    filter_nondigest_appended name d hnd]


theorem lastDigest_none : ∀ (name : List Bytes), (∀ c ∈ name, isDigestComp c = false) → lastDigest name = none
  | [], _ => rfl
  | c :: r, h => by
    simp only [lastDigest, lastDigest_none r (fun x hx => h x (List.mem_cons_of_mem _ hx)),
      h c (List.mem_cons_self ..), Bool.false_eq_true, if_false]

/-- **parse_interest on a plain Interest** (unsigned, no ApplicationParameters, no digest component):
    all fields come back; no signature value, no digest value. -/
theorem parseInterest_plain (name : List Bytes) (mid : List Value) (midB : Bytes)
    (hmid : encFields midFs mid = .ok midB)
    (hname : name.all compOk = true) (hnd : ∀ c ∈ name, isDigestComp c = false)
    (hfitmid : fitsFs midFs mid = true)
    (hsize : (tlv 7 (concatB name) ++ midB).length < 2 ^ 64) :
    parseInterest (tlv 5 (tlv 7 (concatB name) ++ midB)) =
      .ok (List.replicate 7 (Value.uint 0) ++ (Value.name name :: mid) ++ List.replicate 6 Value.none,
           { sigCovered := name, sigValue := none,
             digestCovered := [tlv 7 (concatB name) ++ midB], digestValue := none }) := by
  have hdec := decode_interest_plain name mid midB hmid hname hfitmid hsize
  have hck := parseAndCheckTl_tlv 5 _ (by decide) hsize
  obtain ⟨m1, m2, m3, m4, m5, m6, rfl⟩ := six_of_length mid (fitsFs_length _ _ hfitmid)
  have hf : name.filter (fun c => !isDigestComp c) = name :=
    List.filter_eq_self.mpr (fun c hc => by simp [hnd c hc])
  generalize tlv 7 (concatB name) ++ midB = V at hdec hck ⊢
  unfold parseInterest
  simp only [hdec, hck, bind, Except.bind, pure, Except.pure]
  simp [bytesOf, markerOff, List.replicate, lastDigest_none name hnd, hf, pySlice]

end Ndn.Packet
