import NdnProofs.Lemmas.Pit
/-!
Histories: the invariant and the refinement along `run`, and the history-level justification of every
per-Interest state (`Justified`), proved on the abstract table by induction over the history.
-/
namespace Ndn.Pit

theorem list_rev_induction {α} {P : List α → Prop} (h0 : P []) (hs : ∀ l a, P l → P (l ++ [a])) :
    ∀ l, P l := by
  intro l
  have : ∀ r : List α, P r.reverse := by
    intro r
    induction r with
    | nil => exact h0
    | cons a r ih => rw [List.reverse_cons]; exact hs _ _ ih
  simpa using this l.reverse

theorem run_snoc (fe : FrontEnd) (evs : List Ev) (ev : Ev) : run fe (evs ++ [ev]) = step fe (run fe evs) ev := by
  simp [run, List.foldl_append]

theorem run_append (fe : FrontEnd) (a b : List Ev) : run fe (a ++ b) = b.foldl (step fe) (run fe a) := by
  simp [run, List.foldl_append]

theorem Spec.run_snoc (fe : FrontEnd) (evs : List Ev) (ev : Ev) :
    Spec.run fe (evs ++ [ev]) = Spec.step fe (Spec.run fe evs) ev := by
  simp [Spec.run, List.foldl_append]

theorem inv_run_errs (fe : FrontEnd) (evs : List Ev) : Inv (run fe evs) ∧ (run fe evs).errs = [] := by
  induction evs using list_rev_induction with
  | h0 => exact ⟨inv_init, rfl⟩
  | hs l a ih =>
    rw [run_snoc]
    obtain ⟨h1, h2⟩ := step_inv ih.1 fe a
    exact ⟨h1, h2.trans ih.2⟩

theorem inv_run (fe : FrontEnd) (evs : List Ev) : Inv (run fe evs) := (inv_run_errs fe evs).1

theorem run_refines (fe : FrontEnd) (evs : List Ev) : abs (run fe evs) = Spec.run fe evs := by
  induction evs using list_rev_induction with
  | h0 => rfl
  | hs l a ih => rw [run_snoc, Spec.run_snoc, step_refines (inv_run fe l), ih]

/-! ### the abstract table, step by step -/

theorem Spec.run_len (fe : FrontEnd) (evs : List Ev) : (Spec.run fe evs).sts.length = (Spec.run fe evs).reqs.length := by
  rw [← run_refines]; simp [abs, (inv_run fe evs).len]

theorem Spec.step_clock (fe : FrontEnd) (S : Spec) (ev : Ev) :
    (Spec.step fe S ev).clock = match ev with | .tick t => max S.clock t | _ => S.clock := by
  unfold Spec.step; cases ev <;> rfl

theorem Spec.clock_le_step (fe : FrontEnd) (S : Spec) (ev : Ev) : S.clock ≤ (Spec.step fe S ev).clock := by
  rw [Spec.step_clock]; cases ev <;> simp <;> omega

theorem Spec.react_get (fe : FrontEnd) (S : Spec) (ev : Ev) {i : Nat} {r : Req} {s : IState}
    (hr : S.reqs[i]? = some r) (hs : S.sts[i]? = some s) :
    (S.react fe ev)[i]? = some (specReact fe S.clock i r s ev) := by
  unfold Spec.react
  rw [List.getElem?_mapIdx, hs, hr]; rfl

theorem Spec.react_length (fe : FrontEnd) (S : Spec) (ev : Ev) : (S.react fe ev).length = S.sts.length := by
  unfold Spec.react; simp

/-- an old request after one step -/
theorem Spec.step_old (fe : FrontEnd) (S : Spec) (ev : Ev) {i : Nat} {r : Req} {s : IState}
    (hr : S.reqs[i]? = some r) (hs : S.sts[i]? = some s) :
    (Spec.step fe S ev).reqs[i]? = some r ∧ (Spec.step fe S ev).sts[i]? = some (specReact fe S.clock i r s ev) := by
  have h1 := Spec.react_get fe S ev hr hs
  unfold Spec.step
  cases ev with
  | express nm imp cbp life v lat =>
    exact ⟨getElem?_concat_old hr, getElem?_concat_old h1⟩
  | _ => exact ⟨hr, h1⟩

/-- every request of the next table is an old one, or the one just expressed -/
theorem Spec.step_cases (fe : FrontEnd) (S : Spec) (hlen : S.sts.length = S.reqs.length) (ev : Ev) {i : Nat}
    {r : Req} {s' : IState} (hr : (Spec.step fe S ev).reqs[i]? = some r) (hs : (Spec.step fe S ev).sts[i]? = some s') :
    (∃ s, S.reqs[i]? = some r ∧ S.sts[i]? = some s ∧ s' = specReact fe S.clock i r s ev) ∨
    (∃ nm imp cbp life v lat, ev = .express nm imp cbp life v lat ∧ i = S.reqs.length ∧
      r = ⟨nm, imp, cbp, S.clock + life, v, lat⟩ ∧ s' = .waiting) := by
  have old : S.reqs[i]? = some r → ∃ s, S.reqs[i]? = some r ∧ S.sts[i]? = some s ∧
      s' = specReact fe S.clock i r s ev := by
    intro h0
    have hlt : i < S.sts.length := hlen ▸ (List.getElem?_eq_some_iff.mp h0).1
    have h1 : S.sts[i]? = some S.sts[i] := by simp [hlt]
    have := (Spec.step_old fe S ev h0 h1).2
    rw [this] at hs
    exact ⟨_, h0, h1, (Option.some.inj hs).symm⟩
  cases ev with
  | express nm imp cbp life v lat =>
    have hr' : (S.reqs ++ [⟨nm, imp, cbp, S.clock + life, v, lat⟩])[i]? = some r := hr
    rcases getElem?_concat_cases hr' with h0 | ⟨h0, h1⟩
    · exact Or.inl (old h0)
    · right
      refine ⟨nm, imp, cbp, life, v, lat, rfl, h0, h1, ?_⟩
      have hs' : (S.react fe (.express nm imp cbp life v lat) ++ [IState.waiting])[i]? = some s' := hs
      rcases getElem?_concat_cases hs' with h2 | ⟨_, h2⟩
      · have := (List.getElem?_eq_some_iff.mp h2).1
        rw [Spec.react_length, hlen] at this; omega
      · exact h2
  | data => exact Or.inl (old hr)
  | nack => exact Or.inl (old hr)
  | tick => exact Or.inl (old hr)
  | cancel => exact Or.inl (old hr)
  | shutdown => exact Or.inl (old hr)

/-! ### justification is stable under extending the history -/

theorem TakenAt.snoc {fe : FrontEnd} {evs : List Ev} {i : Nat} {r : Req} {d a : Nat} (ev : Ev)
    (h : TakenAt fe evs i r d a) : TakenAt fe (evs ++ [ev]) i r d a := by
  obtain ⟨pre, post, nm, dg, h1, h2⟩ := h
  exact ⟨pre, post ++ [ev], nm, dg, by rw [h1]; simp, h2⟩

theorem specReact_done (fe : FrontEnd) (now i : Nat) (r : Req) (o : Outcome) (t : Nat) (ev : Ev) :
    specReact fe now i r (.done o t) ev = .done o t := by
  cases ev <;> simp [specReact, specFire, specCancel]

/-- a finished request stays justified -/
theorem Justified.done_snoc {fe : FrontEnd} {evs : List Ev} {i : Nat} {r : Req} {o : Outcome} {t : Nat} (ev : Ev)
    (h : Justified fe evs i r (.done o t)) : Justified fe (evs ++ [ev]) i r (.done o t) := by
  cases o with
  | timeout =>
    simp only [Justified] at h ⊢
    rw [Spec.run_snoc]
    exact ⟨h.1, Nat.le_trans h.2 (Spec.clock_le_step _ _ _)⟩
  | nack rsn =>
    simp only [Justified] at h ⊢
    obtain ⟨pre, post, nm, dg, h1, h2⟩ := h
    exact ⟨pre, post ++ [ev], nm, dg, by rw [h1]; simp, h2⟩
  | cancelled =>
    simp only [Justified] at h ⊢
    obtain ⟨pre, post, h1, h2⟩ := h
    refine ⟨pre, post ++ [ev], ?_, h2⟩
    rcases h1 with h1 | h1
    · left; rw [h1]; simp
    · right; rw [h1]; simp
  | data d =>
    simp only [Justified] at h ⊢
    obtain ⟨d', a, h1, h2⟩ := h
    exact ⟨d', a, h1.snoc ev, h2⟩
  | valFail d v =>
    simp only [Justified] at h ⊢
    obtain ⟨d', a, h1, h2⟩ := h
    exact ⟨d', a, h1.snoc ev, h2⟩
  | validatorError d =>
    simp only [Justified] at h ⊢
    obtain ⟨d', a, h1, h2⟩ := h
    exact ⟨d', a, h1.snoc ev, h2⟩

theorem validatorOutcome_form {fe : FrontEnd} {v : Verdict} {d : Nat} {o : Outcome}
    (h : validatorOutcome fe v d = some o) : o = .data d ∨ (∃ v', o = .valFail d v') ∨ o = .validatorError d := by
  cases fe <;> cases v <;> simp [validatorOutcome] at h <;> subst h <;> simp

/-- an outcome produced by the validator is justified by the Data that was taken -/
theorem Justified.of_validator {fe : FrontEnd} {evs : List Ev} {i : Nat} {r : Req} {d a t : Nat} {o : Outcome}
    (hv : validatorOutcome fe r.verdict d = some o) (hT : TakenAt fe evs i r d a) (ht : t = a + r.lat)
    (hd : fe = .v2 → t < r.deadline) : Justified fe evs i r (.done o t) := by
  rcases validatorOutcome_form hv with h | ⟨v', h⟩ | h <;> subst h <;>
    exact ⟨d, a, hT, ht, hv, hd⟩

theorem justified_step (fe : FrontEnd) (evs : List Ev) (ev : Ev) {i : Nat} {r : Req} {s : IState}
    (hs : (Spec.run fe evs).sts[i]? = some s) (hJ : Justified fe evs i r s) :
    Justified fe (evs ++ [ev]) i r (specReact fe (Spec.run fe evs).clock i r s ev) := by
  have hclk := Spec.step_clock fe (Spec.run fe evs) ev
  rw [← Spec.run_snoc] at hclk
  have here : ∀ (d : Nat) (nm : Name) (dg : Nat), ev = .data nm dg d → s = .waiting → Matches r nm dg →
      TakenAt fe (evs ++ [ev]) i r d (Spec.run fe evs).clock := by
    intro d nm dg he hw hM
    subst he; subst hw
    exact ⟨evs, [], nm, dg, rfl, hs, hM, rfl, hJ⟩
  cases s with
  | done o t => rw [specReact_done]; exact hJ.done_snoc ev
  | waiting =>
    have hJ' : (Spec.run fe evs).clock < r.deadline := hJ
    cases ev with
    | express nm imp cbp life v lat =>
      simp only [specReact, Justified]; rw [hclk]; exact hJ'
    | data nm dg d =>
      simp only [specReact]
      by_cases hM : Matches r nm dg
      · rw [if_pos ⟨trivial, hM⟩]
        have hT := here d nm dg rfl rfl hM
        unfold taken
        cases hm : (if r.lat = 0 then validatorOutcome fe r.verdict d else none) with
        | none => exact ⟨_, hT, rfl⟩
        | some o =>
          have hlat : r.lat = 0 := by
            apply Classical.byContradiction; intro hc; rw [if_neg hc] at hm; cases hm
          rw [if_pos hlat] at hm
          exact Justified.of_validator hm hT (by rw [hlat]; rfl) (fun _ => hJ')
      · rw [if_neg (fun hc => hM hc.2)]
        simp only [Justified]; rw [hclk]; exact hJ'
    | nack nm dg rsn =>
      simp only [specReact]
      by_cases hN : Named r nm dg
      · rw [if_pos ⟨trivial, hN⟩]
        exact ⟨evs, [], nm, dg, rfl, hs, hN, rfl⟩
      · rw [if_neg (fun hc => hN hc.2)]
        simp only [Justified]; rw [hclk]; exact hJ'
    | cancel j =>
      simp only [specReact]
      by_cases hj : j = i
      · rw [if_pos hj, hj]
        exact ⟨evs, [], Or.inl rfl, rfl⟩
      · rw [if_neg hj]
        simp only [Justified]; rw [hclk]; exact hJ'
    | shutdown =>
      simp only [specReact, if_true]
      exact ⟨evs, [], Or.inr rfl, rfl⟩
    | tick t =>
      have hclk' : (Spec.run fe (evs ++ [Ev.tick t])).clock = max (Spec.run fe evs).clock t := hclk
      simp only [specReact, specFire]
      by_cases hd : r.deadline ≤ max (Spec.run fe evs).clock t
      · rw [if_pos hd]
        exact ⟨rfl, by rw [hclk']; exact hd⟩
      · rw [if_neg hd]
        simp only [Justified]; rw [hclk']; omega
  | validating d fin =>
    obtain ⟨a, hT, hfin⟩ := hJ
    have keep : Justified fe (evs ++ [ev]) i r (.validating d fin) := ⟨a, hT.snoc ev, hfin⟩
    cases ev with
    | express nm imp cbp life v lat => exact keep
    | data nm dg d' =>
      simp only [specReact]
      rw [if_neg (fun hc => by cases hc.1)]; exact keep
    | nack nm dg rsn =>
      simp only [specReact]
      rw [if_neg (fun hc => by cases hc.1)]; exact keep
    | shutdown =>
      simp only [specReact]
      rw [if_neg (fun hc => by cases hc)]; exact keep
    | cancel j =>
      simp only [specReact]
      by_cases hj : j = i
      · rw [if_pos hj, hj]
        exact ⟨evs, [], Or.inl rfl, rfl⟩
      · rw [if_neg hj]; exact keep
    | tick t =>
      have hclk' : (Spec.run fe (evs ++ [Ev.tick t])).clock = max (Spec.run fe evs).clock t := hclk
      simp only [specReact]
      cases fe with
      | v1 =>
        simp only [specFire]
        by_cases hf : fin ≤ max (Spec.run .v1 evs).clock t
        · rw [if_pos hf]
          cases hv : validatorOutcome .v1 r.verdict d with
          | none => exact keep
          | some o => exact Justified.of_validator hv (hT.snoc _) hfin (fun h => by cases h)
        · rw [if_neg hf]; exact keep
      | v2 =>
        simp only [specFire]
        cases hv : validatorOutcome .v2 r.verdict d with
        | none =>
          simp only
          by_cases hd : r.deadline ≤ max (Spec.run .v2 evs).clock t
          · rw [if_pos hd]; exact ⟨rfl, by rw [hclk']; exact hd⟩
          · rw [if_neg hd]; exact keep
        | some o =>
          simp only
          by_cases hf : fin ≤ max (Spec.run .v2 evs).clock t ∧ fin < r.deadline
          · rw [if_pos hf]
            exact Justified.of_validator hv (hT.snoc _) hfin (fun _ => hf.2)
          · rw [if_neg hf]
            by_cases hd : r.deadline ≤ max (Spec.run .v2 evs).clock t
            · rw [if_pos hd]; exact ⟨rfl, by rw [hclk']; exact hd⟩
            · rw [if_neg hd]; exact keep

/-- **every state of every request is justified by the history** -/
theorem spec_justified (fe : FrontEnd) (evs : List Ev) (hwf : ∀ ev ∈ evs, WFEv ev) :
    ∀ (i : Nat) (r : Req) (s : IState), (Spec.run fe evs).reqs[i]? = some r → (Spec.run fe evs).sts[i]? = some s →
      Justified fe evs i r s := by
  induction evs using list_rev_induction with
  | h0 => intro i r s hr; simp [Spec.run] at hr
  | hs l ev ih =>
    intro i r s' hr hs'
    have ih' := ih (fun e he => hwf e (List.mem_append_left _ he))
    rw [Spec.run_snoc] at hr hs'
    rcases Spec.step_cases fe (Spec.run fe l) (Spec.run_len fe l) ev hr hs' with
      ⟨s, h1, h2, h3⟩ | ⟨nm, imp, cbp, life, v, lat, h1, h2, h3, h4⟩
    · rw [h3]
      exact justified_step fe l ev h2 (ih' i r s h1 h2)
    · subst h4
      have hlife : 0 < life := by
        have := hwf ev (List.mem_append_right _ (List.mem_singleton.mpr rfl))
        rw [h1] at this; exact this
      simp only [Justified]
      rw [Spec.run_snoc, Spec.step_clock, h1, h3]
      simp only
      omega

/-! ### one Interest along a history -/

/-- what one step does to an Interest that has been expressed -/
theorem step_old {σ : State} (h : Inv σ) (fe : FrontEnd) (ev : Ev) {i : Nat} {I : Interest} {s : IState}
    (hi : σ.ints[i]? = some I) (hs : σ.sts[i]? = some s) :
    (step fe σ ev).ints[i]? = some I ∧ (step fe σ ev).sts[i]? = some (specReact fe σ.clock i I.toReq s ev) ∧
    (step fe σ ev).clock = clockStep σ.clock ev := by
  cases hx : isExpress ev with
  | false =>
    obtain ⟨_, _, b, c, _, f⟩ := step_eff_nonexpress h fe ev hx
    refine ⟨b ▸ hi, f i I s hi hs, ?_⟩
    rw [c]; cases ev <;> rfl
  | true =>
    cases ev with
    | express nm imp cbp life v lat =>
      obtain ⟨_, _, c, e, nid, f⟩ := step_eff_express h fe nm imp cbp life v lat
      exact ⟨by rw [f]; exact getElem?_concat_old hi, by rw [e]; exact getElem?_concat_old hs, c⟩
    | _ => simp [isExpress] at hx

theorem trace_from (fe : FrontEnd) (post : List Ev) : ∀ {σ : State}, Inv σ → ∀ {i : Nat} {I : Interest} {s : IState},
    σ.ints[i]? = some I → σ.sts[i]? = some s →
    (post.foldl (step fe) σ).sts[i]? = some (reqTrace fe i I.toReq σ.clock s post) := by
  induction post with
  | nil => intro σ _ i I s _ hs; exact hs
  | cons ev rest ih =>
    intro σ h i I s hi hs
    obtain ⟨a, b, c⟩ := step_old h fe ev hi hs
    simp only [List.foldl_cons, reqTrace]
    rw [← c]
    exact ih (step_inv h fe ev).1 a b

/-- a completion record never changes -/
theorem done_stable (fe : FrontEnd) (evs evs' : List Ev) (i : Nat) (o : Outcome) (t : Nat)
    (h : (run fe evs).sts[i]? = some (.done o t)) : (run fe (evs ++ evs')).sts[i]? = some (.done o t) := by
  have hlt : i < (run fe evs).ints.length := by
    rw [← (inv_run fe evs).len]; exact (List.getElem?_eq_some_iff.mp h).1
  have hi : (run fe evs).ints[i]? = some (run fe evs).ints[i] := by simp [hlt]
  rw [run_append, trace_from fe evs' (inv_run fe evs) hi h]
  congr 1
  generalize (run fe evs).clock = c
  induction evs' generalizing c with
  | nil => rfl
  | cons ev rest ih => simp only [reqTrace, specReact_done]; exact ih _

end Ndn.Pit
