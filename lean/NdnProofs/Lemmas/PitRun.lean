import NdnProofs.Lemmas.Pit
/-!
Histories: the invariant and the refinement along `run`, and the history-level justification of every
per-Interest state (`Justified`), proved on the abstract table by induction over the history.
-/
namespace Ndn.Pit

theorem list_rev_induction {α} {P : List α → Prop} (h0 : P []) (hs : ∀ l a, P l → P (l ++ [a])) :
    ∀ l, P l := by
  intro l
  have : ∀ r : List α, P r.reverse := by
    intro r
    induction r with
    | nil => exact h0
    | cons a r ih => rw [List.reverse_cons]; exact hs _ _ ih
  simpa using this l.reverse

theorem run_snoc (fe : FrontEnd) (evs : List Ev) (ev : Ev) : run fe (evs ++ [ev]) = step fe (run fe evs) ev := by
  simp [run, List.foldl_append]

theorem run_append (fe : FrontEnd) (a b : List Ev) : run fe (a ++ b) = b.foldl (step fe) (run fe a) := by
  simp [run, List.foldl_append]

theorem Spec.run_snoc (fe : FrontEnd) (evs : List Ev) (ev : Ev) :
    Spec.run fe (evs ++ [ev]) = Spec.step fe (Spec.run fe evs) ev := by
  simp [Spec.run, List.foldl_append]

theorem inv_run_errs (fe : FrontEnd) (evs : List Ev) : Inv (run fe evs) ∧ (run fe evs).errs = [] := by
  induction evs using list_rev_induction with
  | h0 => exact ⟨inv_init, rfl⟩
  | hs l a ih =>
    rw [run_snoc]
    obtain ⟨h1, h2⟩ := step_inv ih.1 fe a
    exact ⟨h1, h2.trans ih.2⟩

theorem inv_run (fe : FrontEnd) (evs : List Ev) : Inv (run fe evs) := (inv_run_errs fe evs).1

theorem run_refines (fe : FrontEnd) (evs : List Ev) : abs (run fe evs) = Spec.run fe evs := by
  induction evs using list_rev_induction with
  | h0 => rfl
  | hs l a ih => rw [run_snoc, Spec.run_snoc, step_refines (inv_run fe l), ih]

/-! ### the abstract table, step by step -/

theorem Spec.run_len (fe : FrontEnd) (evs : List Ev) : (Spec.run fe evs).sts.length = (Spec.run fe evs).reqs.length := by
  rw [← run_refines]; simp [abs, (inv_run fe evs).len]

theorem Spec.step_clock (fe : FrontEnd) (S : Spec) (ev : Ev) :
    (Spec.step fe S ev).clock = clockStep S.clock ev := by
  unfold Spec.step clockStep; cases ev <;> rfl

theorem clockStep_ge (c : Nat) (ev : Ev) : c ≤ clockStep c ev := by
  unfold clockStep; cases ev <;> simp <;> omega

theorem Spec.clock_le_step (fe : FrontEnd) (S : Spec) (ev : Ev) : S.clock ≤ (Spec.step fe S ev).clock := by
  rw [Spec.step_clock]; exact clockStep_ge _ _

theorem Spec.react_get (fe : FrontEnd) (S : Spec) (ev : Ev) {i : Nat} {r : Req} {s : IState}
    (hr : S.reqs[i]? = some r) (hs : S.sts[i]? = some s) :
    (S.react fe ev)[i]? = some (specReact fe S.clock i r s ev) := by
  unfold Spec.react
  rw [List.getElem?_mapIdx, hs, hr]; rfl

theorem Spec.react_length (fe : FrontEnd) (S : Spec) (ev : Ev) : (S.react fe ev).length = S.sts.length := by
  unfold Spec.react; simp

/-- an old request after one step -/
theorem Spec.step_old (fe : FrontEnd) (S : Spec) (ev : Ev) {i : Nat} {r : Req} {s : IState}
    (hr : S.reqs[i]? = some r) (hs : S.sts[i]? = some s) :
    (Spec.step fe S ev).reqs[i]? = some r ∧ (Spec.step fe S ev).sts[i]? = some (specReact fe S.clock i r s ev) := by
  have h1 := Spec.react_get fe S ev hr hs
  unfold Spec.step
  cases ev with
  | express nm imp cbp life v lat defer nr =>
    exact ⟨getElem?_concat_old hr, getElem?_concat_old h1⟩
  | _ => exact ⟨hr, h1⟩

/-- every request of the next table is an old one, or the one just expressed -/
theorem Spec.step_cases (fe : FrontEnd) (S : Spec) (hlen : S.sts.length = S.reqs.length) (ev : Ev) {i : Nat}
    {r : Req} {s' : IState} (hr : (Spec.step fe S ev).reqs[i]? = some r) (hs : (Spec.step fe S ev).sts[i]? = some s') :
    (∃ s, S.reqs[i]? = some r ∧ S.sts[i]? = some s ∧ s' = specReact fe S.clock i r s ev) ∨
    (∃ nm imp cbp life v lat defer nr, ev = .express nm imp cbp life v lat defer nr ∧ i = S.reqs.length ∧
      r = mkReq fe S.clock nm imp cbp life v lat defer ∧ s' = specFire fe S.clock r (initSt fe S.clock nr)) := by
  have old : S.reqs[i]? = some r → ∃ s, S.reqs[i]? = some r ∧ S.sts[i]? = some s ∧
      s' = specReact fe S.clock i r s ev := by
    intro h0
    have hlt : i < S.sts.length := hlen ▸ (List.getElem?_eq_some_iff.mp h0).1
    have h1 : S.sts[i]? = some S.sts[i] := by simp [hlt]
    have := (Spec.step_old fe S ev h0 h1).2
    rw [this] at hs
    exact ⟨_, h0, h1, (Option.some.inj hs).symm⟩
  cases ev with
  | express nm imp cbp life v lat defer nr =>
    have hr' : (S.reqs ++ [mkReq fe S.clock nm imp cbp life v lat defer])[i]? = some r := hr
    rcases getElem?_concat_cases hr' with h0 | ⟨h0, h1⟩
    · exact Or.inl (old h0)
    · right
      refine ⟨nm, imp, cbp, life, v, lat, defer, nr, rfl, h0, h1, ?_⟩
      have hs' : (S.react fe (.express nm imp cbp life v lat defer nr) ++
          [specFire fe S.clock (mkReq fe S.clock nm imp cbp life v lat defer) (initSt fe S.clock nr)])[i]? =
          some s' := hs
      rcases getElem?_concat_cases hs' with h2 | ⟨_, h2⟩
      · have := (List.getElem?_eq_some_iff.mp h2).1
        rw [Spec.react_length, hlen] at this; omega
      · rw [h2, h1]
  | data => exact Or.inl (old hr)
  | nack => exact Or.inl (old hr)
  | tick => exact Or.inl (old hr)
  | reach => exact Or.inl (old hr)
  | cancel => exact Or.inl (old hr)
  | shutdown => exact Or.inl (old hr)

/-- the requests of a history stay what they are when the history goes on -/
theorem Spec.reqs_stable (fe : FrontEnd) (pre post : List Ev) {i : Nat} {r : Req}
    (h : (Spec.run fe pre).reqs[i]? = some r) : (Spec.run fe (pre ++ post)).reqs[i]? = some r := by
  induction post using list_rev_induction with
  | h0 => simpa using h
  | hs l a ih =>
    rw [← List.append_assoc, Spec.run_snoc]
    have hlt : i < (Spec.run fe (pre ++ l)).sts.length := by
      rw [Spec.run_len]; exact (List.getElem?_eq_some_iff.mp ih).1
    exact (Spec.step_old fe _ a ih (s := (Spec.run fe (pre ++ l)).sts[i]) (by simp [hlt])).1

/-! ### justification is stable under extending the history -/

theorem TakenAt.snoc {fe : FrontEnd} {evs : List Ev} {i : Nat} {r : Req} {d a : Nat} (ev : Ev)
    (h : TakenAt fe evs i r d a) : TakenAt fe (evs ++ [ev]) i r d a := by
  obtain ⟨pre, post, nm, dg, h1, h2⟩ := h
  exact ⟨pre, post ++ [ev], nm, dg, by rw [h1]; simp, h2⟩

theorem Resolved.snoc {fe : FrontEnd} {evs : List Ev} {i : Nat} {r : Req} {o : Outcome} {t0 : Nat} (ev : Ev)
    (h : Resolved fe evs i r o t0) : Resolved fe (evs ++ [ev]) i r o t0 := by
  cases o with
  | timeout => simp only [Resolved] at h
  | noResponse => simp only [Resolved] at h
  | nack rsn =>
    simp only [Resolved] at h ⊢
    obtain ⟨pre, post, nm, dg, h1, h2⟩ := h
    exact ⟨pre, post ++ [ev], nm, dg, by rw [h1]; simp, h2⟩
  | cancelled =>
    simp only [Resolved] at h ⊢
    obtain ⟨pre, post, h1, h2⟩ := h
    refine ⟨pre, post ++ [ev], ?_, h2⟩
    rcases h1 with h1 | h1
    · left; rw [h1]; simp
    · right; rw [h1]; simp
  | data d =>
    simp only [Resolved] at h ⊢
    obtain ⟨d', a, h1, h2⟩ := h
    exact ⟨d', a, h1.snoc ev, h2⟩
  | valFail d v =>
    simp only [Resolved] at h ⊢
    obtain ⟨d', a, h1, h2⟩ := h
    exact ⟨d', a, h1.snoc ev, h2⟩
  | validatorError d =>
    simp only [Resolved] at h ⊢
    obtain ⟨d', a, h1, h2⟩ := h
    exact ⟨d', a, h1.snoc ev, h2⟩

theorem specReact_done (fe : FrontEnd) (now i : Nat) (r : Req) (o : Outcome) (t : Nat) (ev : Ev) :
    specReact fe now i r (.done o t) ev = .done o t := by
  cases ev <;> simp [specReact, specFire, specCancel, specReach]

/-- a resolved future: what the caller gets, and when -/
theorem JustifiedAt.of_resolved {c : Nat} {fe : FrontEnd} {evs : List Ev} {i : Nat} {r : Req} {o : Outcome} {t0 : Nat}
    (h : Resolved fe evs i r o t0) : JustifiedAt c fe evs i r (.done o (max t0 r.awaitAt)) := by
  cases o with
  | timeout => simp only [Resolved] at h
  | noResponse => simp only [Resolved] at h
  | nack rsn => exact ⟨t0, h, rfl⟩
  | cancelled => exact ⟨t0, h, rfl⟩
  | data d => exact ⟨t0, h, rfl⟩
  | valFail d v => exact ⟨t0, h, rfl⟩
  | validatorError d => exact ⟨t0, h, rfl⟩

/-- the history goes on, the clock is where it was -/
theorem JustifiedAt.snoc {c : Nat} {fe : FrontEnd} {evs : List Ev} {i : Nat} {r : Req} {s : IState} (ev : Ev)
    (h : JustifiedAt c fe evs i r s) : JustifiedAt c fe (evs ++ [ev]) i r s := by
  cases s with
  | waiting => exact h
  | validating d fin =>
    obtain ⟨a, hT, hfin⟩ := h
    exact ⟨a, hT.snoc ev, hfin⟩
  | held o =>
    obtain ⟨h1, t0, h2, h3⟩ := h
    exact ⟨h1, t0, h2.snoc ev, h3⟩
  | done o t =>
    cases o with
    | timeout => exact h
    | noResponse =>
      simp only [JustifiedAt] at h ⊢
      obtain ⟨hfe, pre, post, nm, imp, cbp, life, v, lat, defer, h1, h2⟩ := h
      exact ⟨hfe, pre, post ++ [ev], nm, imp, cbp, life, v, lat, defer, by rw [h1]; simp, h2⟩
    | nack rsn =>
      simp only [JustifiedAt] at h ⊢
      obtain ⟨t0, h1, h2⟩ := h; exact ⟨t0, h1.snoc ev, h2⟩
    | cancelled =>
      simp only [JustifiedAt] at h ⊢
      obtain ⟨t0, h1, h2⟩ := h; exact ⟨t0, h1.snoc ev, h2⟩
    | data d =>
      simp only [JustifiedAt] at h ⊢
      obtain ⟨t0, h1, h2⟩ := h; exact ⟨t0, h1.snoc ev, h2⟩
    | valFail d v =>
      simp only [JustifiedAt] at h ⊢
      obtain ⟨t0, h1, h2⟩ := h; exact ⟨t0, h1.snoc ev, h2⟩
    | validatorError d =>
      simp only [JustifiedAt] at h ⊢
      obtain ⟨t0, h1, h2⟩ := h; exact ⟨t0, h1.snoc ev, h2⟩

/-- a finished request stays justified whatever the clock reads later -/
theorem JustifiedAt.done_mono {c c' : Nat} {fe : FrontEnd} {evs : List Ev} {i : Nat} {r : Req} {o : Outcome} {t : Nat}
    (hc : c ≤ c') (h : JustifiedAt c fe evs i r (.done o t)) : JustifiedAt c' fe evs i r (.done o t) := by
  cases o with
  | timeout => simp only [JustifiedAt] at h ⊢; exact ⟨h.1, Nat.le_trans h.2 hc⟩
  | noResponse => exact h
  | nack rsn => exact h
  | cancelled => exact h
  | data d => exact h
  | valFail d v => exact h
  | validatorError d => exact h

theorem validatorOutcome_form {fe : FrontEnd} {v : Verdict} {d : Nat} {o : Outcome}
    (h : validatorOutcome fe v d = some o) : o = .data d ∨ (∃ v', o = .valFail d v') ∨ o = .validatorError d := by
  rw [validatorOutcome_eq_ref] at h
  cases fe <;> cases v <;> simp [validatorOutcomeRef] at h <;> subst h <;> simp

/-- an outcome produced by the validator is justified by the Data that was taken -/
theorem Resolved.of_validator {fe : FrontEnd} {evs : List Ev} {i : Nat} {r : Req} {d a t0 : Nat} {o : Outcome}
    (hv : validatorOutcome fe r.verdict d = some o) (hT : TakenAt fe evs i r d a) (ht : t0 = vstart fe a r + r.lat)
    (hd : fe = .v2 → t0 < r.deadline ∨ r.lat = 0) : Resolved fe evs i r o t0 := by
  rcases validatorOutcome_form hv with h | ⟨v', h⟩ | h <;> subst h <;>
    exact ⟨d, a, hT, ht, hv, hd⟩

/-- the future is resolved at the instant the clock reads -/
theorem JustifiedAt.of_resolve {c : Nat} {fe : FrontEnd} {evs : List Ev} {i : Nat} {r : Req} {o : Outcome}
    (h : Resolved fe evs i r o c) : JustifiedAt c fe evs i r (resolve c r o) := by
  unfold resolve
  by_cases ha : r.awaitAt ≤ c
  · rw [if_pos ha]
    have := JustifiedAt.of_resolved (c := c) h
    rwa [Nat.max_eq_left ha] at this
  · rw [if_neg ha]
    exact ⟨by omega, c, h, by omega⟩

theorem vstart_ge (fe : FrontEnd) (now : Nat) (r : Req) : now ≤ vstart fe now r := by
  unfold vstart; cases fe <;> simp <;> omega

theorem vstart_await (now : Nat) (r : Req) : r.awaitAt ≤ vstart .v1 now r := by
  unfold vstart; simp; omega

/-- the timers due up to `b` fire while the clock moves from `c` to `c'` (`b ≤ c' ≤ b + 1`: `tick` fires what is due
    at `c'` too, `reach` does not) -/
theorem JustifiedAt.fire {c c' b : Nat} {fe : FrontEnd} {evs : List Ev} {i : Nat} {r : Req} {s : IState}
    (hc : c ≤ c') (hb : b ≤ c') (hb' : c' ≤ b + 1) (h : JustifiedAt c fe evs i r s) :
    JustifiedAt c' fe evs i r (specFire fe b r s) := by
  cases s with
  | done o t => simp only [specFire]; exact h.done_mono hc
  | waiting =>
    simp only [specFire]
    by_cases hd : r.deadline ≤ b
    · rw [if_pos hd]; exact ⟨rfl, by omega⟩
    · rw [if_neg hd]; show c' ≤ r.deadline; omega
  | held o =>
    obtain ⟨h1, t0, h2, h3⟩ := h
    simp only [specFire]
    by_cases ha : r.awaitAt ≤ b
    · rw [if_pos ha]
      have := JustifiedAt.of_resolved (c := c') h2
      rwa [Nat.max_eq_right h3] at this
    · rw [if_neg ha]; exact ⟨by omega, t0, h2, h3⟩
  | validating d fin =>
    obtain ⟨a, hT, hfin⟩ := h
    have keep : JustifiedAt c' fe evs i r (.validating d fin) := ⟨a, hT, hfin⟩
    have htimeout : r.deadline ≤ b → JustifiedAt c' fe evs i r (.done .timeout r.deadline) :=
      fun hd => ⟨rfl, by omega⟩
    cases fe with
    | v1 =>
      simp only [specFire]
      by_cases hf : fin ≤ b
      · rw [if_pos hf]
        cases hv : validatorOutcome .v1 r.verdict d with
        | none => exact keep
        | some o =>
          have hR := Resolved.of_validator hv hT hfin (fun h => by cases h)
          have := JustifiedAt.of_resolved (c := c') hR
          have hge : r.awaitAt ≤ fin := by have := vstart_await a r; omega
          rwa [Nat.max_eq_left hge] at this
      · rw [if_neg hf]; exact keep
    | v2 =>
      simp only [specFire]
      cases hv : validatorOutcome .v2 r.verdict d with
      | none =>
        simp only
        by_cases hd : r.deadline ≤ b
        · rw [if_pos hd]; exact htimeout hd
        · rw [if_neg hd]; exact keep
      | some o =>
        simp only
        by_cases hf : fin ≤ b ∧ fin < r.deadline
        · rw [if_pos hf]
          have hR := Resolved.of_validator hv hT hfin (fun _ => Or.inl hf.2)
          by_cases ha : r.awaitAt ≤ b
          · rw [if_pos ha]; exact JustifiedAt.of_resolved hR
          · rw [if_neg ha]; exact ⟨by omega, fin, hR, by omega⟩
        · rw [if_neg hf]
          by_cases hd : r.deadline ≤ b
          · rw [if_pos hd]; exact htimeout hd
          · rw [if_neg hd]; exact keep

theorem justified_step (fe : FrontEnd) (evs : List Ev) (ev : Ev) {i : Nat} {r : Req} {s : IState}
    (hs : (Spec.run fe evs).sts[i]? = some s) (hJ : Justified fe evs i r s) :
    Justified fe (evs ++ [ev]) i r (specReact fe (Spec.run fe evs).clock i r s ev) := by
  have hclk := Spec.step_clock fe (Spec.run fe evs) ev
  rw [← Spec.run_snoc] at hclk
  unfold Justified at hJ ⊢
  generalize hnow : (Spec.run fe evs).clock = now at hJ hclk ⊢
  -- the event does not move the clock and leaves the state alone
  have keep : clockStep now ev = now → JustifiedAt (Spec.run fe (evs ++ [ev])).clock fe (evs ++ [ev]) i r s := by
    intro h; rw [hclk, h]; exact hJ.snoc ev
  cases ev with
  | express nm imp cbp life v lat defer nr => exact keep rfl
  | data nm dg d =>
    simp only [specReact]
    by_cases hc : s = .waiting ∧ Matches r nm dg
    · rw [if_pos hc]
      obtain ⟨hw, hM⟩ := hc
      subst hw
      have hdl : now ≤ r.deadline := hJ
      have hT : TakenAt fe (evs ++ [Ev.data nm dg d]) i r d now := ⟨evs, [], nm, dg, rfl, hs, hM, hnow, hdl⟩
      rw [hclk]; simp only [clockStep]
      unfold taken
      cases hm : (if r.lat = 0 ∧ vstart fe now r ≤ now then validatorOutcome fe r.verdict d else none) with
      | none => exact ⟨now, hT, rfl⟩
      | some o =>
        have hcond : r.lat = 0 ∧ vstart fe now r ≤ now := by
          apply Classical.byContradiction; intro hc; rw [if_neg hc] at hm; cases hm
        rw [if_pos hcond] at hm
        have hvs : vstart fe now r = now := Nat.le_antisymm hcond.2 (vstart_ge fe now r)
        exact JustifiedAt.of_resolve (Resolved.of_validator hm hT (by rw [hvs, hcond.1]; rfl) (fun _ => Or.inr hcond.1))
    · rw [if_neg hc]; exact keep rfl
  | nack nm dg rsn =>
    simp only [specReact]
    by_cases hc : s = .waiting ∧ Named r nm dg
    · rw [if_pos hc]
      obtain ⟨hw, hN⟩ := hc
      subst hw
      rw [hclk]; simp only [clockStep]
      exact JustifiedAt.of_resolve (o := .nack rsn) ⟨evs, [], nm, dg, rfl, hs, hN, hnow⟩
    · rw [if_neg hc]; exact keep rfl
  | shutdown =>
    simp only [specReact]
    by_cases hw : s = .waiting
    · rw [if_pos hw]
      rw [hclk]; simp only [clockStep]
      exact JustifiedAt.of_resolve (o := .cancelled) ⟨evs, [], Or.inr rfl, hnow⟩
    · rw [if_neg hw]; exact keep rfl
  | cancel j =>
    simp only [specReact]
    by_cases hj : j = i
    · subst hj
      rw [if_pos rfl]
      unfold specCancel
      by_cases hu : now < r.awaitAt
      · rw [if_pos hu]; exact keep rfl
      · rw [if_neg hu]
        have hcan : JustifiedAt (Spec.run fe (evs ++ [Ev.cancel j])).clock fe (evs ++ [Ev.cancel j]) j r
            (.done .cancelled now) := by
          refine ⟨now, ⟨evs, [], Or.inl rfl, hnow⟩, ?_⟩
          omega
        cases s with
        | done o t => exact keep rfl
        | held o => exact keep rfl
        | waiting => exact hcan
        | validating d fin => exact hcan
    · rw [if_neg hj]; exact keep rfl
  | tick t =>
    simp only [specReact]
    rw [hclk]; simp only [clockStep]
    exact JustifiedAt.fire (by omega) (Nat.le_refl _) (by omega) (hJ.snoc _)
  | reach t =>
    simp only [specReact, specReach]
    rw [hclk]; simp only [clockStep]
    by_cases h0 : max now t = 0
    · rw [if_pos h0]
      have : now = max now t := by omega
      rw [← this]; exact hJ.snoc _
    · rw [if_neg h0]
      exact JustifiedAt.fire (by omega) (by omega) (by omega) (hJ.snoc _)

theorem expiry_ge (fe : FrontEnd) (now life defer : Nat) : now + defer ≤ expiry fe now life defer := by
  cases fe
  · rw [expiry_v1]; omega
  · rw [expiry_v2]; split <;> omega

theorem silent_iff {fe : FrontEnd} {nr : Bool} : silent fe nr = true ↔ fe = .v2 ∧ nr = true := by
  cases fe <;> simp

/-- **every state of every request is justified by the history** (no hypothesis on the history: lifetime 0,
    late awaits, `no_response` and same-turn ties included) -/
theorem spec_justified (fe : FrontEnd) (evs : List Ev) :
    ∀ (i : Nat) (r : Req) (s : IState), (Spec.run fe evs).reqs[i]? = some r → (Spec.run fe evs).sts[i]? = some s →
      Justified fe evs i r s := by
  induction evs using list_rev_induction with
  | h0 => intro i r s hr; simp [Spec.run] at hr
  | hs l ev ih =>
    intro i r s' hr hs'
    rw [Spec.run_snoc] at hr hs'
    rcases Spec.step_cases fe (Spec.run fe l) (Spec.run_len fe l) ev hr hs' with
      ⟨s, h1, h2, h3⟩ | ⟨nm, imp, cbp, life, v, lat, defer, nr, h1, h2, h3, h4⟩
    · rw [h3]
      exact justified_step fe l ev h2 (ih i r s h1 h2)
    · subst h4
      unfold Justified
      have hclk : (Spec.run fe (l ++ [ev])).clock = (Spec.run fe l).clock := by
        rw [Spec.run_snoc, Spec.step_clock, h1]; rfl
      rw [hclk]
      apply JustifiedAt.fire (c := (Spec.run fe l).clock) (Nat.le_refl _) (Nat.le_refl _) (by omega)
      unfold initSt
      cases hsil : silent fe nr with
      | true =>
        obtain ⟨hfe, hnr⟩ := silent_iff.mp hsil
        simp only [if_true]
        subst hnr
        exact ⟨hfe, l, [], nm, imp, cbp, life, v, lat, defer, by rw [h1], h2.symm, rfl⟩
      | false =>
        simp only [Bool.false_eq_true, if_false]
        show (Spec.run fe l).clock ≤ r.deadline
        rw [h3]
        have := expiry_ge fe (Spec.run fe l).clock life defer
        simp only [mkReq]; omega

/-! ### histories without ties: everything happens strictly before the deadline -/

theorem specReact_waiting_inv {fe : FrontEnd} {now i : Nat} {r : Req} {s : IState} {ev : Ev}
    (h : specReact fe now i r s ev = .waiting) : s = .waiting := by
  apply Classical.byContradiction
  intro hne
  cases ev with
  | express => exact hne h
  | data nm dg d =>
    simp only [specReact] at h
    rw [if_neg (fun hc => hne hc.1)] at h; exact hne h
  | nack nm dg rsn =>
    simp only [specReact] at h
    rw [if_neg (fun hc => hne hc.1)] at h; exact hne h
  | shutdown =>
    simp only [specReact] at h
    rw [if_neg hne] at h; exact hne h
  | cancel j =>
    simp only [specReact] at h
    by_cases hj : j = i
    · rw [if_pos hj] at h
      unfold specCancel at h
      split at h
      · exact hne h
      · cases s <;> simp_all
    · rw [if_neg hj] at h; exact hne h
  | tick t => exact specFire_ne_waiting_of hne h
  | reach t =>
    simp only [specReact, specReach] at h
    split at h
    · exact hne h
    · exact specFire_ne_waiting_of hne h

theorem NoTie.snoc_inv {evs : List Ev} {ev : Ev} (h : NoTie (evs ++ [ev])) : NoTie evs ∧ ∀ t, ev ≠ .reach t :=
  ⟨fun e he => h e (List.mem_append_left _ he), h ev (List.mem_append_right _ (List.mem_singleton.mpr rfl))⟩

theorem NoTie.prefix {pre post : List Ev} (h : NoTie (pre ++ post)) : NoTie pre :=
  fun e he => h e (List.mem_append_left _ he)

/-- in a history without ties a waiting request has not reached its deadline -/
theorem waiting_before_deadline (fe : FrontEnd) (evs : List Ev) (hn : NoTie evs) :
    ∀ (i : Nat) (r : Req), (Spec.run fe evs).reqs[i]? = some r → (Spec.run fe evs).sts[i]? = some .waiting →
      (Spec.run fe evs).clock < r.deadline := by
  induction evs using list_rev_induction with
  | h0 => intro i r hr; simp [Spec.run] at hr
  | hs l ev ih =>
    intro i r hr hs'
    obtain ⟨hn1, hn2⟩ := hn.snoc_inv
    have hclk : (Spec.run fe (l ++ [ev])).clock = clockStep (Spec.run fe l).clock ev := by
      rw [Spec.run_snoc, Spec.step_clock]
    rw [Spec.run_snoc] at hr hs'
    rcases Spec.step_cases fe (Spec.run fe l) (Spec.run_len fe l) ev hr hs' with
      ⟨s, h1, h2, h3⟩ | ⟨nm, imp, cbp, life, v, lat, defer, nr, h1, h2, h3, h4⟩
    · have hw : s = .waiting := specReact_waiting_inv h3.symm
      subst hw
      have := ih hn1 i r h1 h2
      rw [hclk]
      cases ev with
      | tick t =>
        simp only [specReact, specFire] at h3
        simp only [clockStep]
        by_cases hd : r.deadline ≤ max (Spec.run fe l).clock t
        · rw [if_pos hd] at h3; cases h3
        · omega
      | reach t => exact absurd rfl (hn2 t)
      | _ => exact this
    · rw [hclk, h1]; simp only [clockStep]
      unfold initSt at h4
      cases hsil : silent fe nr with
      | true => rw [hsil] at h4; simp [specFire] at h4
      | false =>
        rw [hsil] at h4
        simp only [Bool.false_eq_true, if_false, specFire] at h4
        by_cases hd : r.deadline ≤ (Spec.run fe l).clock
        · rw [if_pos hd] at h4; cases h4
        · omega

/-- in a history without ties a Data is taken strictly before the deadline -/
theorem taken_before_deadline (fe : FrontEnd) (evs : List Ev) (hn : NoTie evs) {i : Nat} {r : Req} {d a : Nat}
    (hr : (Spec.run fe evs).reqs[i]? = some r) (hT : TakenAt fe evs i r d a) : a < r.deadline := by
  obtain ⟨pre, post, nm, dg, h1, h2, _, h4, _⟩ := hT
  subst h1
  have hlt : i < (Spec.run fe pre).reqs.length := by
    rw [← Spec.run_len]; exact (List.getElem?_eq_some_iff.mp h2).1
  have hr' : (Spec.run fe pre).reqs[i]? = some (Spec.run fe pre).reqs[i] := by simp [hlt]
  have := Spec.reqs_stable fe pre (Ev.data nm dg d :: post) hr'
  rw [hr] at this
  rw [← Option.some.inj this] at hr'
  rw [← h4]
  exact waiting_before_deadline fe pre hn.prefix i r hr' h2

/-! ### one Interest along a history -/

/-- what one step does to an Interest that has been expressed -/
theorem step_old {σ : State} (h : Inv σ) (fe : FrontEnd) (ev : Ev) {i : Nat} {I : Interest} {s : IState}
    (hi : σ.ints[i]? = some I) (hs : σ.sts[i]? = some s) :
    (step fe σ ev).ints[i]? = some I ∧ (step fe σ ev).sts[i]? = some (specReact fe σ.clock i I.toReq s ev) ∧
    (step fe σ ev).clock = clockStep σ.clock ev := by
  cases hx : isExpress ev with
  | false =>
    obtain ⟨_, _, b, c, _, f⟩ := step_eff_nonexpress h fe ev hx
    refine ⟨b ▸ hi, f i I s hi hs, ?_⟩
    rw [c]; cases ev <;> rfl
  | true =>
    cases ev with
    | express nm imp cbp life v lat defer nr =>
      obtain ⟨_, _, c, e, nid, f⟩ := step_eff_express h fe nm imp cbp life v lat defer nr
      exact ⟨by rw [f]; exact getElem?_concat_old hi, by rw [e]; exact getElem?_concat_old hs, c⟩
    | _ => simp [isExpress] at hx

theorem trace_from (fe : FrontEnd) (post : List Ev) : ∀ {σ : State}, Inv σ → ∀ {i : Nat} {I : Interest} {s : IState},
    σ.ints[i]? = some I → σ.sts[i]? = some s →
    (post.foldl (step fe) σ).sts[i]? = some (reqTrace fe i I.toReq σ.clock s post) := by
  induction post with
  | nil => intro σ _ i I s _ hs; exact hs
  | cons ev rest ih =>
    intro σ h i I s hi hs
    obtain ⟨a, b, c⟩ := step_old h fe ev hi hs
    simp only [List.foldl_cons, reqTrace]
    rw [← c]
    exact ih (step_inv h fe ev).1 a b

/-- a completion record never changes -/
theorem done_stable (fe : FrontEnd) (evs evs' : List Ev) (i : Nat) (o : Outcome) (t : Nat)
    (h : (run fe evs).sts[i]? = some (.done o t)) : (run fe (evs ++ evs')).sts[i]? = some (.done o t) := by
  have hlt : i < (run fe evs).ints.length := by
    rw [← (inv_run fe evs).len]; exact (List.getElem?_eq_some_iff.mp h).1
  have hi : (run fe evs).ints[i]? = some (run fe evs).ints[i] := by simp [hlt]
  rw [run_append, trace_from fe evs' (inv_run fe evs) hi h]
  congr 1
  generalize (run fe evs).clock = c
  induction evs' generalizing c with
  | nil => rfl
  | cons ev rest ih => simp only [reqTrace, specReact_done]; exact ih _

end Ndn.Pit
