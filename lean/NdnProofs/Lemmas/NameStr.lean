import NdnProofs.Lemmas.NameUri
import NdnProofs.Lemmas.NameWire
/-! `Component.from_str` on what `to_canonical_uri` / `to_str` print. -/
namespace Ndn
open Comp

theorem pyHexByte_ne_pct (a b : Char) (x : UInt8) (h : pyHexByte a b = some x) : a ≠ '%' ∧ b ≠ '%' := by
  constructor
  · intro e; subst e
    have : hexVal? '%' = none := by decide
    simp [pyHexByte, this] at h
  · intro e; subst e
    have : hexVal? '%' = none := by decide
    unfold pyHexByte at h
    rw [this] at h
    split at h
    · rename_i h2; cases h2
    · simp at h

/-- the pre-sized buffer of `from_str` is exactly filled: whenever every escape decodes, the number of
    bytes produced is `len − 2·(number of %)` -/
theorem unescape_length (s : Str) : ∀ bs, unescape s = some bs → s.length = bs.length + 2 * s.count '%' := by
  fun_induction unescape s with
  | case1 => intro bs h; simp at h; subst h; simp
  | case2 a b r' x bs' hb hx ih =>
    intro bs h
    simp at h; subst h
    obtain ⟨h1, h2⟩ := pyHexByte_ne_pct a b x hx
    have := ih bs' hb
    simp [h1, h2]
    omega
  | case3 => intro bs h; simp at h
  | case4 => intro bs h; simp at h
  | case5 c r hc ih =>
    intro bs h
    cases hu : unescape r with
    | none => simp [hu] at h
    | some b2 =>
      simp [hu] at h; subst h
      have := ih b2 hu
      simp [hc]; omega

theorem encodeValue_ok (typ : Nat) (rest : Str) (bs : Bytes) (h : unescape rest = some bs) :
    encodeValue typ rest (rest.count '%') = .ok (tlv typ bs) := by
  have hl := unescape_length rest bs h
  unfold encodeValue
  have h1 : ¬ rest.length < 2 * rest.count '%' := by omega
  have h2 : rest.length - 2 * rest.count '%' = bs.length := by omega
  simp only [h1, if_false, h, h2, Nat.lt_irrefl, gt_iff_lt, Nat.sub_self, List.replicate_zero,
    List.append_nil, tlv]

theorem count_pct_zero (s : Str) (h : ∀ c ∈ s, c ≠ '%') : s.count '%' = 0 := by
  apply List.count_eq_zero.mpr
  intro hm; exact h _ hm rfl

theorem contains_eq_false (s : Str) (h : ∀ c ∈ s, c ≠ '=') : s.contains '=' = false := by
  cases hc : s.contains '=' with
  | false => rfl
  | true => simp at hc; exact absurd rfl (h _ hc)

theorem all_inCharset (s : Str) (h : ∀ c ∈ s, inCharset c = true) : s.all inCharset = true := by
  simpa using h

theorem toDec_ne_of_letter (n : Nat) (s : Str) (c : Char) (r : Str) (hs : s = c :: r)
    (hc : isAsciiDigit c = false) : toDec n ≠ s := by
  intro h
  obtain ⟨c', r', e, hd⟩ := toDec_head n
  rw [e, hs] at h
  injection h with h1 _
  subst h1; rw [hd] at hc; cases hc

/-- no word of the generated `ALTERNATE_URI_STR` starts with a digit -/
theorem altUriStr_heads : ∀ p ∈ Gen.C09.altUriStr, (p.1.head?.map isAsciiDigit) = some false := by decide

theorem altTypeOfStr_toDec (n : Nat) : altTypeOfStr (toDec n) = none := by
  obtain ⟨c, r, e, hd⟩ := toDec_head n
  have hnone : (Gen.C09.altUriStr.find? fun p => p.1 == toDec n) = none := by
    rw [List.find?_eq_none]
    intro p hp hb
    have h1 := altUriStr_heads p hp
    have h2 : p.1 = toDec n := by simpa using hb
    rw [h2, e] at h1
    simp [hd] at h1
  simp [altTypeOfStr, hnone]

/-- the general path of `from_str`: `<decimal type>=<escaped value>` -/
theorem fromStr_typed (t : Nat) (rest : Str) (bs : Bytes) (ht1 : 1 ≤ t) (ht2 : t ≤ 65535)
    (hr : ∀ c ∈ rest, inCharset c = true ∧ c ≠ '=') (hu : unescape rest = some bs) :
    fromStr (toDec t ++ '=' :: rest) = .ok (tlv t bs) := by
  have hd := toDec_digits t
  have hne : toDec t ++ '=' :: rest ≠ [] := by simp
  have hall : (toDec t ++ '=' :: rest).all inCharset = true := by
    apply all_inCharset
    intro c hc
    simp at hc
    rcases hc with hc | rfl | hc
    · exact (digit_props c (hd c hc)).2.2.2.2
    · decide
    · exact (hr c hc).1
  have hsplit := splitEq_append (toDec t) rest (fun c hc => (digit_props c (hd c hc)).1)
  have hcont := contains_eq_false rest (fun c hc => (hr c hc).2)
  have hpct : (toDec t ++ '=' :: rest).count '%' = rest.count '%' := by
    rw [List.count_append, count_pct_zero _ (fun c hc => (digit_props c (hd c hc)).2.1)]
    simp
  have n1 := toDec_ne_of_letter t "sha256digest".toList 's' _ rfl (by decide)
  have n2 := toDec_ne_of_letter t "params-sha256".toList 'p' _ rfl (by decide)
  unfold fromStr
  simp only [hne, if_false, hall, Bool.not_true, Bool.false_eq_true, hsplit, hcont, n1, n2,
    altTypeOfStr_toDec, pyInt_toDec t (by omega), hpct]
  have : ¬ ((t : Int) ≤ 0 ∨ (t : Int) > 65535) := by omega
  simp only [this, if_false, Int.toNat_natCast]
  exact encodeValue_ok t rest bs hu

/-- the generic path of `from_str`: no `=` at all -/
theorem fromStr_generic (val : Str) (bs : Bytes) (hne : val ≠ [])
    (hr : ∀ c ∈ val, inCharset c = true ∧ c ≠ '=') (hu : unescape val = some bs) :
    fromStr val = .ok (tlv 8 bs) := by
  have hall : val.all inCharset = true := all_inCharset _ (fun c hc => (hr c hc).1)
  have hsplit := splitEq_none val (fun c hc => (hr c hc).2)
  unfold fromStr
  simp only [hne, if_false, hall, Bool.not_true, Bool.false_eq_true, hsplit, TYPE_GENERIC]
  exact encodeValue_ok 8 val bs hu

/-- `from_str (typePrefix t ++ escBytes v) = tlv t v` -/
theorem fromStr_canonical (t : Nat) (v : Bytes) (ht1 : 1 ≤ t) (ht2 : t ≤ 65535) :
    fromStr (typePrefix t ++ escBytes v) = .ok (tlv t v) := by
  have hch := escBytes_chars v
  unfold typePrefix
  split
  · rename_i h8; subst h8
    simp only [TYPE_GENERIC, List.nil_append]
    by_cases hv : v = []
    · subst hv; rfl
    · exact fromStr_generic _ v (by rw [Ne, escBytes_eq_nil]; exact hv)
        (fun c hc => ⟨(hch c hc).1, (hch c hc).2.1⟩) (unescape_escBytes v)
  · rw [List.append_assoc, List.singleton_append]
    exact fromStr_typed t _ v ht1 ht2 (fun c hc => ⟨(hch c hc).1, (hch c hc).2.1⟩) (unescape_escBytes v)

/-! ### hex digests -/

def hexGood (b : UInt8) : Bool :=
  let x := hexLower (b.toNat / 16)
  let y := hexLower (b.toNat % 16)
  (match hexVal? x, hexVal? y with
   | some p, some q => UInt8.ofNat (p * 16 + q) == b
   | _, _ => false) && inCharset x && inCharset y && x != '=' && y != '=' && x != '/' && y != '/'

theorem hexGood_fin : ∀ n : Fin 256, hexGood (UInt8.ofNat n.val) = true := by decide +kernel

theorem hexGood_all (b : UInt8) : hexGood b = true := by
  have := hexGood_fin ⟨b.toNat, b.toNat_lt⟩
  simpa using this

theorem pyHex_cons (b : UInt8) (v : Bytes) :
    pyHex (b :: v) = hexLower (b.toNat / 16) :: hexLower (b.toNat % 16) :: pyHex v := by
  simp [pyHex]

theorem pyFromHex_pyHex (v : Bytes) : pyFromHex (pyHex v) = some v := by
  induction v with
  | nil => rfl
  | cons b v ih =>
    rw [pyHex_cons, pyFromHex, ih]
    have h := hexGood_all b
    simp only [hexGood, Bool.and_eq_true] at h
    obtain ⟨⟨⟨⟨⟨⟨h, _⟩, _⟩, _⟩, _⟩, _⟩, _⟩ := h
    split at h
    · rename_i p q hp hq
      rw [hp, hq]; simp at h; simp [h]
    · cases h

theorem pyHex_chars (v : Bytes) : ∀ c ∈ pyHex v, inCharset c = true ∧ c ≠ '=' ∧ c ≠ '/' := by
  induction v with
  | nil => intro c hc; simp [pyHex] at hc
  | cons b v ih =>
    intro c hc
    rw [pyHex_cons] at hc
    have h := hexGood_all b
    simp only [hexGood, Bool.and_eq_true, bne_iff_ne, ne_eq] at h
    obtain ⟨⟨⟨⟨⟨⟨_, h1⟩, h2⟩, h3⟩, h4⟩, h5⟩, h6⟩ := h
    simp at hc
    rcases hc with rfl | rfl | hc
    · exact ⟨h1, h3, h5⟩
    · exact ⟨h2, h4, h6⟩
    · exact ih c hc

end Ndn
