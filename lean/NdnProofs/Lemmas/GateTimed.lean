import NdnModel.GateTimed
import NdnProofs.Lemmas.Fib
/-! Helper lemmas for the timed model of the incoming-Interest gate (C05 x C04):
    * a node object that carries a callback is never written again (`heap_frozen`);
    * the observations about one Interest are a function of what the table held when it arrived and of its own
      `start` / `done` events (`runFrom_view`, `flight_obs`): whatever happens to the table, and whatever the other
      Interests in flight do, in between;
    * the canonical form of that function (`life_eq`). -/
namespace Ndn.GateTimed
open Ndn
open Ndn.Pit (FrontEnd Verdict)
open Ndn.Gate (IntPkt shape)

/-- induction from the end of a list -/
theorem snoc_induction {α : Type} {P : List α → Prop} (nil : P [])
    (append_singleton : ∀ l a, P l → P (l ++ [a])) : ∀ l, P l := by
  intro l
  rw [← List.reverse_reverse l]
  induction l.reverse with
  | nil => exact nil
  | cons a r ih => rw [List.reverse_cons]; exact append_singleton _ _ ih

/-! ### what one Interest sees of a history -/

inductive Tok where
  | start | done (v : Verdict)
  deriving DecidableEq, Repr

/-- the events of a history that are about Interest `i` -/
def tokOf (i : Iid) : Ev → Option Tok
  | .start j => if j = i then some .start else none
  | .done j v => if j = i then some (.done v) else none
  | _ => none

/-- one such event, for an Interest whose node object holds `nd` -/
def react (fe : FrontEnd) (av : Vid) (i : Iid) (pkt : IntPkt) (nd : TNode) (x : Phase × List Obs) :
    Tok → Phase × List Obs
  | .start =>
    match x.1 with
    | .queued => ((startF fe av i pkt nd).1, x.2 ++ (startF fe av i pkt nd).2)
    | _ => x
  | .done v =>
    match x.1 with
    | .validating _ => ((doneF fe i nd v).1, x.2 ++ (doneF fe i nd v).2)
    | _ => x

/-- the observations about Interest `i` -/
def obsOf (i : Iid) (l : List Obs) : List Obs := l.filter fun o => o.iid == i

theorem obsOf_append (i : Iid) (a b : List Obs) : obsOf i (a ++ b) = obsOf i a ++ obsOf i b := by
  simp [obsOf]

theorem obsOf_all {i : Iid} {l : List Obs} (h : ∀ o ∈ l, o.iid = i) : obsOf i l = l := by
  simp only [obsOf, List.filter_eq_self]
  intro o ho; simp [h o ho]

theorem obsOf_none {i : Iid} {l : List Obs} (h : ∀ o ∈ l, o.iid ≠ i) : obsOf i l = [] := by
  simp only [obsOf, List.filter_eq_nil_iff]
  intro o ho; simp [h o ho]

theorem conclude_iid (fe : FrontEnd) (i : Iid) (nd : TNode) (v : Verdict) : ∀ o ∈ (conclude fe i nd v).2, o.iid = i := by
  intro o ho
  unfold conclude at ho
  split at ho
  · split at ho <;> simp at ho <;> subst ho <;> rfl
  · simp at ho

theorem startF_iid (fe : FrontEnd) (av : Vid) (i : Iid) (pkt : IntPkt) (nd : TNode) :
    ∀ o ∈ (startF fe av i pkt nd).2, o.iid = i := by
  intro o ho
  unfold startF at ho
  split at ho
  · split at ho
    · simp at ho; subst ho; rfl
    · exact conclude_iid _ _ _ _ o ho
    · simp at ho; subst ho; rfl
  · exact conclude_iid _ _ _ _ o ho

theorem doneF_iid (fe : FrontEnd) (i : Iid) (nd : TNode) (v : Verdict) : ∀ o ∈ (doneF fe i nd v).2, o.iid = i := by
  intro o ho
  unfold doneF at ho
  split at ho
  · exact conclude_iid _ _ _ _ o ho
  · simp at ho; subst ho; rfl

/-! ### the table operations do not touch flights and log; a node with a callback is never written again -/

theorem attach_flights (fe : FrontEnd) (s : St) (p : Name) (h : Option Hid) (v : Option Vid) :
    (attach fe s p h v).1.flights = s.flights ∧ (attach fe s p h v).1.log = s.log := by
  unfold attach
  split
  · split
    · split <;> simp
    · simp
  · simp

theorem detach_flights (s : St) (p : Name) : (detach s p).1.flights = s.flights ∧ (detach s p).1.log = s.log := by
  unfold detach; split <;> simp

theorem attach_frozen (fe : FrontEnd) (s : St) (p : Name) (h : Option Hid) (v : Option Vid) (a : Nat) (nd : TNode)
    (hg : s.heap[a]? = some nd) (hc : nd.callback.isSome) : (attach fe s p h v).1.heap[a]? = some nd := by
  unfold attach
  split
  · rename_i a' _
    split
    · rename_i nd' hnd'
      split
      · exact hg
      · rename_i hno
        by_cases e : a' = a
        · subst e; rw [hg] at hnd'; cases hnd'; exact absurd hc hno
        · simp [List.getElem?_set_ne e, hg]
    · exact hg
  · have hlt : a < s.heap.length := by
      rcases Nat.lt_or_ge a s.heap.length with h' | h'
      · exact h'
      · rw [List.getElem?_eq_none h'] at hg; cases hg
    simp [List.getElem?_append_left hlt, hg]

theorem setPhase_heap (s : St) (i : Iid) (fl : Flight) (r : Phase × List Obs) :
    (setPhase s i fl r).heap = s.heap ∧ (setPhase s i fl r).trie = s.trie := ⟨rfl, rfl⟩

theorem arrive_heap (fe : FrontEnd) (s : St) (n : Name) (pkt : IntPkt) :
    (arrive fe s n pkt).heap = s.heap ∧ (arrive fe s n pkt).trie = s.trie := by
  unfold arrive
  split
  · exact ⟨rfl, rfl⟩
  · split
    · exact ⟨rfl, rfl⟩
    · simp only; split <;> exact ⟨rfl, rfl⟩

/-- start / done / deadline / arrive leave the table alone -/
theorem step_heap_of_not_op (fe : FrontEnd) (av : Vid) (s : St) (e : Ev)
    (h1 : ∀ p h v, e ≠ .attach p h v) (h2 : ∀ p, e ≠ .detach p) :
    (step fe av s e).heap = s.heap ∧ (step fe av s e).trie = s.trie := by
  cases e with
  | attach p h v => exact absurd rfl (h1 p h v)
  | detach p => exact absurd rfl (h2 p)
  | arrive n pkt => exact arrive_heap fe s n pkt
  | start i =>
    simp only [step]
    split
    · split
      · split
        · exact setPhase_heap _ _ _ _
        · exact ⟨rfl, rfl⟩
      · exact ⟨rfl, rfl⟩
    · exact ⟨rfl, rfl⟩
  | done i v =>
    simp only [step]
    split
    · split
      · split
        · exact setPhase_heap _ _ _ _
        · exact ⟨rfl, rfl⟩
      · exact ⟨rfl, rfl⟩
    · exact ⟨rfl, rfl⟩
  | deadline i => exact ⟨rfl, rfl⟩

/-- **a node object that carries a callback is never written again**, whatever happens -/
theorem heap_frozen (fe : FrontEnd) (av : Vid) (s : St) (e : Ev) (a : Nat) (nd : TNode)
    (hg : s.heap[a]? = some nd) (hc : nd.callback.isSome) : (step fe av s e).heap[a]? = some nd := by
  cases e with
  | attach p h v => simp only [step]; exact attach_frozen fe s p h v a nd hg hc
  | detach p =>
    simp only [step]
    unfold detach; split <;> exact hg
  | arrive n pkt => rw [(step_heap_of_not_op fe av s _ (by simp) (by simp)).1]; exact hg
  | start i => rw [(step_heap_of_not_op fe av s _ (by simp) (by simp)).1]; exact hg
  | done i v => rw [(step_heap_of_not_op fe av s _ (by simp) (by simp)).1]; exact hg
  | deadline i => exact hg

/-! ### one step, seen from one Interest -/

theorem step_start_cases (fe : FrontEnd) (av : Vid) (s : St) (j : Iid) :
    (step fe av s (.start j) = s ∧
      ¬ ∃ fl a nd, s.flights[j]? = some fl ∧ fl.phase = .queued ∧ fl.node = some a ∧ s.heap[a]? = some nd) ∨
    ∃ fl a nd, s.flights[j]? = some fl ∧ fl.phase = .queued ∧ fl.node = some a ∧ s.heap[a]? = some nd ∧
      step fe av s (.start j) = setPhase s j fl (startF fe av j fl.pkt nd) := by
  simp only [step]
  cases hfl : s.flights[j]? with
  | none => left; simp
  | some fl =>
    simp only
    cases hp : fl.phase with
    | queued =>
      cases hn : fl.node with
      | none => left; simp [hn]
      | some a =>
        cases hnd : s.heap[a]? with
        | none => left; simp [hp, hn, hnd]
        | some nd => right; exact ⟨fl, a, nd, rfl, hp, hn, hnd, by simp [hnd]⟩
    | validating vid => left; simp [hp]
    | finished => left; simp [hp]

theorem step_done_cases (fe : FrontEnd) (av : Vid) (s : St) (j : Iid) (v : Verdict) :
    (step fe av s (.done j v) = s ∧
      ¬ ∃ fl vid a nd, s.flights[j]? = some fl ∧ fl.phase = .validating vid ∧ fl.node = some a ∧ s.heap[a]? = some nd) ∨
    ∃ fl vid a nd, s.flights[j]? = some fl ∧ fl.phase = .validating vid ∧ fl.node = some a ∧ s.heap[a]? = some nd ∧
      step fe av s (.done j v) = setPhase s j fl (doneF fe j nd v) := by
  simp only [step]
  cases hfl : s.flights[j]? with
  | none => left; simp
  | some fl =>
    simp only
    cases hp : fl.phase with
    | validating vid =>
      cases hn : fl.node with
      | none => left; simp [hn]
      | some a =>
        cases hnd : s.heap[a]? with
        | none => left; simp [hp, hn, hnd]
        | some nd => right; exact ⟨fl, vid, a, nd, rfl, hp, hn, hnd, by simp [hnd]⟩
    | queued => left; simp [hp]
    | finished => left; simp [hp]

theorem setPhase_self (s : St) (i : Iid) (fl : Flight) (r : Phase × List Obs) (hfl : s.flights[i]? = some fl)
    (hr : ∀ o ∈ r.2, o.iid = i) :
    (setPhase s i fl r).flights[i]? = some { fl with phase := r.1 } ∧
      obsOf i (setPhase s i fl r).log = obsOf i s.log ++ r.2 := by
  have hlt : i < s.flights.length := by
    rcases Nat.lt_or_ge i s.flights.length with h | h
    · exact h
    · rw [List.getElem?_eq_none h] at hfl; cases hfl
  constructor
  · simp [setPhase, hlt]
  · simp only [setPhase, obsOf_append, obsOf_all hr]

theorem setPhase_other (s : St) (i j : Iid) (fl : Flight) (r : Phase × List Obs) (hne : j ≠ i)
    (hr : ∀ o ∈ r.2, o.iid = j) :
    (setPhase s j fl r).flights[i]? = s.flights[i]? ∧ obsOf i (setPhase s j fl r).log = obsOf i s.log := by
  constructor
  · simp [setPhase, List.getElem?_set_ne hne]
  · have : obsOf i r.2 = [] := obsOf_none fun o ho => by rw [hr o ho]; exact hne
    simp only [setPhase, obsOf_append, this, List.append_nil]

theorem arrive_old (fe : FrontEnd) (s : St) (n : Name) (pkt : IntPkt) (i : Iid) (hlt : i < s.flights.length) :
    (arrive fe s n pkt).flights[i]? = s.flights[i]? ∧ obsOf i (arrive fe s n pkt).log = obsOf i s.log := by
  have hne : ∀ o ∈ [Obs.digest s.flights.length], o.iid ≠ i := by
    intro o ho; simp at ho; subst ho; exact Nat.ne_of_gt hlt
  unfold arrive
  split
  · simp [List.getElem?_append_left hlt]
  · split
    · simp [List.getElem?_append_left hlt]
    · simp only
      split <;> split <;> simp [List.getElem?_append_left hlt, obsOf_append, obsOf_none hne]

/-- what one event does to Interest `i`, which holds the node object at address `a` -/
theorem step_view (fe : FrontEnd) (av : Vid) (s : St) (e : Ev) (i : Iid) (fl : Flight) (a : Nat) (nd : TNode)
    (hfl : s.flights[i]? = some fl) (hn : fl.node = some a) (hnd : s.heap[a]? = some nd) :
    ∃ fl', (step fe av s e).flights[i]? = some fl' ∧ fl'.name = fl.name ∧ fl'.pkt = fl.pkt ∧ fl'.node = fl.node ∧
      (fl'.phase, obsOf i (step fe av s e).log) =
        match tokOf i e with
        | some t => react fe av i fl.pkt nd (fl.phase, obsOf i s.log) t
        | none => (fl.phase, obsOf i s.log) := by
  have hlt : i < s.flights.length := by
    rcases Nat.lt_or_ge i s.flights.length with h | h
    · exact h
    · rw [List.getElem?_eq_none h] at hfl; cases hfl
  cases e with
  | attach p h v =>
    refine ⟨fl, ?_, rfl, rfl, rfl, ?_⟩
    · simp only [step]; rw [(attach_flights fe s p h v).1]; exact hfl
    · simp only [step, tokOf]; rw [(attach_flights fe s p h v).2]
  | detach p =>
    refine ⟨fl, ?_, rfl, rfl, rfl, ?_⟩
    · simp only [step]; rw [(detach_flights s p).1]; exact hfl
    · simp only [step, tokOf]; rw [(detach_flights s p).2]
  | arrive n pkt =>
    refine ⟨fl, ?_, rfl, rfl, rfl, ?_⟩
    · simp only [step]; rw [(arrive_old fe s n pkt i hlt).1]; exact hfl
    · simp only [step, tokOf]; rw [(arrive_old fe s n pkt i hlt).2]
  | deadline j => exact ⟨fl, hfl, rfl, rfl, rfl, rfl⟩
  | start j =>
    by_cases hj : j = i
    · subst hj
      rcases step_start_cases fe av s j with ⟨he, hno⟩ | ⟨fl0, a0, nd0, h0, hq, hn0, hnd0, he⟩
      · refine ⟨fl, by rw [he]; exact hfl, rfl, rfl, rfl, ?_⟩
        rw [he]
        simp only [tokOf, if_true, react]
        cases hp : fl.phase with
        | queued => exact absurd ⟨fl, a, nd, hfl, hp, hn, hnd⟩ hno
        | validating vid => rfl
        | finished => rfl
      · rw [hfl] at h0; cases h0
        rw [hn] at hn0; cases hn0
        rw [hnd] at hnd0; cases hnd0
        obtain ⟨h1, h2⟩ := setPhase_self s j fl (startF fe av j fl.pkt nd) hfl (startF_iid _ _ _ _ _)
        refine ⟨{ fl with phase := (startF fe av j fl.pkt nd).1 }, by rw [he]; exact h1, rfl, rfl, rfl, ?_⟩
        rw [he, h2]
        simp only [tokOf, if_true, react, hq]
    · rcases step_start_cases fe av s j with ⟨he, _⟩ | ⟨fl0, a0, nd0, h0, hq, hn0, hnd0, he⟩
      · exact ⟨fl, by rw [he]; exact hfl, rfl, rfl, rfl, by rw [he]; simp [tokOf, hj]⟩
      · obtain ⟨h1, h2⟩ := setPhase_other s i j fl0 (startF fe av j fl0.pkt nd0) hj (startF_iid _ _ _ _ _)
        exact ⟨fl, by rw [he, h1]; exact hfl, rfl, rfl, rfl, by rw [he, h2]; simp [tokOf, hj]⟩
  | done j v =>
    by_cases hj : j = i
    · subst hj
      rcases step_done_cases fe av s j v with ⟨he, hno⟩ | ⟨fl0, vid, a0, nd0, h0, hq, hn0, hnd0, he⟩
      · refine ⟨fl, by rw [he]; exact hfl, rfl, rfl, rfl, ?_⟩
        rw [he]
        simp only [tokOf, if_true, react]
        cases hp : fl.phase with
        | validating vid => exact absurd ⟨fl, vid, a, nd, hfl, hp, hn, hnd⟩ hno
        | queued => rfl
        | finished => rfl
      · rw [hfl] at h0; cases h0
        rw [hn] at hn0; cases hn0
        rw [hnd] at hnd0; cases hnd0
        obtain ⟨h1, h2⟩ := setPhase_self s j fl (doneF fe j nd v) hfl (doneF_iid _ _ _ _)
        refine ⟨{ fl with phase := (doneF fe j nd v).1 }, by rw [he]; exact h1, rfl, rfl, rfl, ?_⟩
        rw [he, h2]
        simp only [tokOf, if_true, react, hq]
    · rcases step_done_cases fe av s j v with ⟨he, _⟩ | ⟨fl0, vid, a0, nd0, h0, hq, hn0, hnd0, he⟩
      · exact ⟨fl, by rw [he]; exact hfl, rfl, rfl, rfl, by rw [he]; simp [tokOf, hj]⟩
      · obtain ⟨h1, h2⟩ := setPhase_other s i j fl0 (doneF fe j nd0 v) hj (doneF_iid _ _ _ _)
        exact ⟨fl, by rw [he, h1]; exact hfl, rfl, rfl, rfl, by rw [he, h2]; simp [tokOf, hj]⟩

/-- an Interest that was dropped at arrival stays as it is -/
theorem step_view_dropped (fe : FrontEnd) (av : Vid) (s : St) (e : Ev) (i : Iid) (fl : Flight)
    (hfl : s.flights[i]? = some fl) (hn : fl.node = none) :
    (step fe av s e).flights[i]? = some fl ∧ obsOf i (step fe av s e).log = obsOf i s.log := by
  have hlt : i < s.flights.length := by
    rcases Nat.lt_or_ge i s.flights.length with h | h
    · exact h
    · rw [List.getElem?_eq_none h] at hfl; cases hfl
  cases e with
  | attach p h v => simp only [step]; rw [(attach_flights fe s p h v).1, (attach_flights fe s p h v).2]; exact ⟨hfl, rfl⟩
  | detach p => simp only [step]; rw [(detach_flights s p).1, (detach_flights s p).2]; exact ⟨hfl, rfl⟩
  | arrive n pkt => simp only [step]; rw [(arrive_old fe s n pkt i hlt).1, (arrive_old fe s n pkt i hlt).2]; exact ⟨hfl, rfl⟩
  | deadline j => exact ⟨hfl, rfl⟩
  | start j =>
    rcases step_start_cases fe av s j with ⟨he, _⟩ | ⟨fl0, a0, nd0, h0, hq, hn0, hnd0, he⟩
    · rw [he]; exact ⟨hfl, rfl⟩
    · have hj : j ≠ i := by
        intro e; subst e; rw [hfl] at h0; cases h0; rw [hn] at hn0; cases hn0
      obtain ⟨h1, h2⟩ := setPhase_other s i j fl0 (startF fe av j fl0.pkt nd0) hj (startF_iid _ _ _ _ _)
      rw [he, h1, h2]; exact ⟨hfl, rfl⟩
  | done j v =>
    rcases step_done_cases fe av s j v with ⟨he, _⟩ | ⟨fl0, vid, a0, nd0, h0, hq, hn0, hnd0, he⟩
    · rw [he]; exact ⟨hfl, rfl⟩
    · have hj : j ≠ i := by
        intro e; subst e; rw [hfl] at h0; cases h0; rw [hn] at hn0; cases hn0
      obtain ⟨h1, h2⟩ := setPhase_other s i j fl0 (doneF fe j nd0 v) hj (doneF_iid _ _ _ _)
      rw [he, h1, h2]; exact ⟨hfl, rfl⟩

/-! ### a whole history, seen from one Interest -/

theorem runFrom_cons (fe : FrontEnd) (av : Vid) (s : St) (e : Ev) (r : List Ev) :
    runFrom fe av s (e :: r) = runFrom fe av (step fe av s e) r := rfl

theorem runFrom_append (fe : FrontEnd) (av : Vid) (s : St) (a b : List Ev) :
    runFrom fe av s (a ++ b) = runFrom fe av (runFrom fe av s a) b := by
  simp [runFrom, List.foldl_append]

/-- **the observations about an Interest in flight are a function of its node object and of its own events** -
    whatever else the history holds (attach / detach at any instant, other Interests, deadlines) -/
theorem runFrom_view (fe : FrontEnd) (av : Vid) (evs : List Ev) : ∀ (s : St) (i : Iid) (fl : Flight) (a : Nat)
    (nd : TNode), s.flights[i]? = some fl → fl.node = some a → s.heap[a]? = some nd → nd.callback.isSome →
    ∃ fl', (runFrom fe av s evs).flights[i]? = some fl' ∧ fl'.name = fl.name ∧ fl'.pkt = fl.pkt ∧ fl'.node = fl.node ∧
      (runFrom fe av s evs).heap[a]? = some nd ∧
      (fl'.phase, obsOf i (runFrom fe av s evs).log) =
        (evs.filterMap (tokOf i)).foldl (react fe av i fl.pkt nd) (fl.phase, obsOf i s.log) := by
  induction evs with
  | nil => intro s i fl a nd hfl _ hnd _; exact ⟨fl, hfl, rfl, rfl, rfl, hnd, rfl⟩
  | cons e r ih =>
    intro s i fl a nd hfl hn hnd hc
    obtain ⟨fl1, h1, hname, hpkt, hnode, hv⟩ := step_view fe av s e i fl a nd hfl hn hnd
    have hnd1 := heap_frozen fe av s e a nd hnd hc
    obtain ⟨fl2, h2, hname2, hpkt2, hnode2, hnd2, hv2⟩ := ih (step fe av s e) i fl1 a nd h1 (hnode ▸ hn) hnd1 hc
    refine ⟨fl2, by rw [runFrom_cons]; exact h2, hname2.trans hname, hpkt2.trans hpkt, hnode2.trans hnode,
      by rw [runFrom_cons]; exact hnd2, ?_⟩
    rw [runFrom_cons, hv2, hv, hpkt, List.filterMap_cons]
    cases tokOf i e <;> rfl

theorem runFrom_view_dropped (fe : FrontEnd) (av : Vid) (evs : List Ev) : ∀ (s : St) (i : Iid) (fl : Flight),
    s.flights[i]? = some fl → fl.node = none →
    (runFrom fe av s evs).flights[i]? = some fl ∧ obsOf i (runFrom fe av s evs).log = obsOf i s.log := by
  induction evs with
  | nil => intro s i fl hfl _; exact ⟨hfl, rfl⟩
  | cons e r ih =>
    intro s i fl hfl hn
    obtain ⟨h1, h2⟩ := step_view_dropped fe av s e i fl hfl hn
    obtain ⟨h3, h4⟩ := ih (step fe av s e) i fl h1 hn
    exact ⟨by rw [runFrom_cons]; exact h3, by rw [runFrom_cons, h4, h2]⟩

theorem react_finished (fe : FrontEnd) (av : Vid) (i : Iid) (pkt : IntPkt) (nd : TNode) (l : List Obs) (toks : List Tok) :
    toks.foldl (react fe av i pkt nd) (.finished, l) = (.finished, l) := by
  induction toks with
  | nil => rfl
  | cons t r ih => cases t <;> simpa [react] using ih

/-! ### arrival -/

/-- the node object `_on_interest` keeps: the one at the longest matching prefix, if it carries a callback -/
def capture (s : St) (n : Name) : Option (Nat × TNode) :=
  match lookup s.trie n with
  | none => none
  | some (_, a) =>
    match s.heap[a]? with
    | some nd => if nd.callback.isSome then some (a, nd) else none
    | none => none

theorem capture_some {s : St} {n : Name} {a : Nat} {nd : TNode} (h : capture s n = some (a, nd)) :
    s.heap[a]? = some nd ∧ nd.callback.isSome := by
  unfold capture at h
  split at h
  · cases h
  · split at h
    · rename_i hh
      split at h
      · cases h; exact ⟨hh, by assumption⟩
      · cases h
    · cases h

/-- what happens in `_on_interest` itself: digest check when required; queued unless dropped -/
def arrivalF (fe : FrontEnd) (i : Iid) (pkt : IntPkt) (c : Option TNode) : Phase × List Obs :=
  match c with
  | none => (.finished, [])
  | some _ =>
    let digestReq := (shape fe).digestWhen.holds pkt.hasParams pkt.hasSig
    let pre := if digestReq then [Obs.digest i] else []
    if digestReq && !pkt.digestOk then (.finished, pre) else (.queued, pre)

theorem arrivalF_iid (fe : FrontEnd) (i : Iid) (pkt : IntPkt) (c : Option TNode) :
    ∀ o ∈ (arrivalF fe i pkt c).2, o.iid = i := by
  intro o ho
  unfold arrivalF at ho
  split at ho
  · simp at ho
  · simp only at ho
    split at ho <;> split at ho <;> simp at ho <;> subst ho <;> rfl

theorem arrive_eq (fe : FrontEnd) (s : St) (n : Name) (pkt : IntPkt) :
    arrive fe s n pkt =
      { s with
        flights := s.flights ++ [⟨n, pkt,
          if (arrivalF fe s.flights.length pkt ((capture s n).map (·.2))).1 = .queued then (capture s n).map (·.1) else none,
          (arrivalF fe s.flights.length pkt ((capture s n).map (·.2))).1⟩],
        log := s.log ++ (arrivalF fe s.flights.length pkt ((capture s n).map (·.2))).2 } := by
  unfold arrive capture arrivalF
  cases hl : lookup s.trie n with
  | none => simp
  | some pa =>
    obtain ⟨p, a⟩ := pa
    cases hh : s.heap[a]? with
    | none => simp [hh]
    | some nd =>
      obtain ⟨cb, val⟩ := nd
      cases cb with
      | none => simp [hh]
      | some h =>
        simp only [hh, Option.bind_some, Option.isSome_some, if_true, Option.map_some]
        cases (shape fe).digestWhen.holds pkt.hasParams pkt.hasSig <;> cases pkt.digestOk <;> simp

/-- every observation is about an Interest that has arrived -/
def LogBound (s : St) : Prop := ∀ o ∈ s.log, o.iid < s.flights.length

theorem logBound_step (fe : FrontEnd) (av : Vid) (s : St) (e : Ev) (h : LogBound s) : LogBound (step fe av s e) := by
  cases e with
  | attach p hh v =>
    intro o ho
    simp only [step] at ho ⊢
    rw [(attach_flights fe s p hh v).2] at ho; rw [(attach_flights fe s p hh v).1]; exact h o ho
  | detach p =>
    intro o ho
    simp only [step] at ho ⊢
    rw [(detach_flights s p).2] at ho; rw [(detach_flights s p).1]; exact h o ho
  | deadline j => exact h
  | arrive n pkt =>
    intro o ho
    simp only [step] at ho ⊢
    rw [arrive_eq] at ho ⊢
    simp only [List.mem_append, List.length_append, List.length_cons, List.length_nil] at ho ⊢
    rcases ho with ho | ho
    · exact Nat.lt_succ_of_lt (h o ho)
    · rw [arrivalF_iid _ _ _ _ o ho]; exact Nat.lt_succ_self _
  | start j =>
    rcases step_start_cases fe av s j with ⟨he, _⟩ | ⟨fl0, a0, nd0, h0, _, _, _, he⟩
    · rw [he]; exact h
    · rw [he]
      intro o ho
      have hlt : j < s.flights.length := by
        rcases Nat.lt_or_ge j s.flights.length with h' | h'
        · exact h'
        · rw [List.getElem?_eq_none h'] at h0; cases h0
      simp only [setPhase, List.mem_append, List.length_set] at ho ⊢
      rcases ho with ho | ho
      · exact h o ho
      · rw [startF_iid _ _ _ _ _ o ho]; exact hlt
  | done j v =>
    rcases step_done_cases fe av s j v with ⟨he, _⟩ | ⟨fl0, vid, a0, nd0, h0, _, _, _, he⟩
    · rw [he]; exact h
    · rw [he]
      intro o ho
      have hlt : j < s.flights.length := by
        rcases Nat.lt_or_ge j s.flights.length with h' | h'
        · exact h'
        · rw [List.getElem?_eq_none h'] at h0; cases h0
      simp only [setPhase, List.mem_append, List.length_set] at ho ⊢
      rcases ho with ho | ho
      · exact h o ho
      · rw [doneF_iid _ _ _ _ o ho]; exact hlt

theorem logBound_runFrom (fe : FrontEnd) (av : Vid) (evs : List Ev) : ∀ s, LogBound s → LogBound (runFrom fe av s evs) := by
  induction evs with
  | nil => intro s h; exact h
  | cons e r ih => intro s h; rw [runFrom_cons]; exact ih _ (logBound_step fe av s e h)

theorem logBound_run (fe : FrontEnd) (av : Vid) (evs : List Ev) : LogBound (run fe av evs) :=
  logBound_runFrom fe av evs {} (by intro o ho; cases ho)

/-- the life of one Interest: what the table held for it when it arrived (`c`: the node object's fields, if a node
    with a callback was found), then its own events -/
def life (fe : FrontEnd) (av : Vid) (i : Iid) (pkt : IntPkt) (c : Option TNode) (toks : List Tok) : Phase × List Obs :=
  match c with
  | none => (.finished, [])
  | some nd => toks.foldl (react fe av i pkt nd) (arrivalF fe i pkt c)

/-- **one Interest, any history.**  From any state: the Interest that arrives now (it becomes Interest number
    `s.flights.length`) is observed - after any continuation `post` - exactly as `life` says, from the fields its node
    object held at the instant of arrival and its own `start` / `done` events. -/
theorem flight_obs (fe : FrontEnd) (av : Vid) (s : St) (hlb : LogBound s) (n : Name) (pkt : IntPkt) (post : List Ev) :
    ∃ fl, (runFrom fe av (arrive fe s n pkt) post).flights[s.flights.length]? = some fl ∧ fl.name = n ∧ fl.pkt = pkt ∧
      (fl.phase, obsOf s.flights.length (runFrom fe av (arrive fe s n pkt) post).log) =
        life fe av s.flights.length pkt ((capture s n).map (·.2)) (post.filterMap (tokOf s.flights.length)) := by
  have h0 : obsOf s.flights.length s.log = [] := obsOf_none fun o ho => Nat.ne_of_lt (hlb o ho)
  rw [arrive_eq]
  generalize hs1 : ({ s with
        flights := s.flights ++ [⟨n, pkt,
          if (arrivalF fe s.flights.length pkt ((capture s n).map (·.2))).1 = .queued then (capture s n).map (·.1) else none,
          (arrivalF fe s.flights.length pkt ((capture s n).map (·.2))).1⟩],
        log := s.log ++ (arrivalF fe s.flights.length pkt ((capture s n).map (·.2))).2 } : St) = s1
  have hfl : s1.flights[s.flights.length]? = some ⟨n, pkt,
      if (arrivalF fe s.flights.length pkt ((capture s n).map (·.2))).1 = .queued then (capture s n).map (·.1) else none,
      (arrivalF fe s.flights.length pkt ((capture s n).map (·.2))).1⟩ := by
    subst hs1; simp
  have hlog : obsOf s.flights.length s1.log = (arrivalF fe s.flights.length pkt ((capture s n).map (·.2))).2 := by
    subst hs1; simp only [obsOf_append, h0, List.nil_append]; exact obsOf_all (arrivalF_iid _ _ _ _)
  have hheap : s1.heap = s.heap := by subst hs1; rfl
  cases hc : capture s n with
  | none =>
    rw [hc] at hfl hlog
    simp only [Option.map_none, arrivalF] at hfl hlog
    obtain ⟨h3, h4⟩ := runFrom_view_dropped fe av post s1 _ _ hfl (by simp)
    exact ⟨_, h3, rfl, rfl, by rw [h4, hlog]; rfl⟩
  | some an =>
    obtain ⟨a, nd⟩ := an
    obtain ⟨hnd, hcb⟩ := capture_some hc
    rw [hc] at hfl hlog
    simp only [Option.map_some] at hfl hlog
    by_cases hq : (arrivalF fe s.flights.length pkt (some nd)).1 = .queued
    · simp only [hq, if_true] at hfl
      obtain ⟨fl', h1, hname, hpkt, _, _, hv⟩ :=
        runFrom_view fe av post s1 _ _ a nd hfl rfl (by rw [hheap]; exact hnd) hcb
      refine ⟨fl', h1, hname, hpkt, ?_⟩
      rw [hv, hlog]
      simp only [life, Option.map_some]
      rw [← hq]
    · simp only [hq, if_false] at hfl
      obtain ⟨h3, h4⟩ := runFrom_view_dropped fe av post s1 _ _ hfl rfl
      refine ⟨_, h3, rfl, rfl, ?_⟩
      rw [h4, hlog]
      have hfin : (arrivalF fe s.flights.length pkt (some nd)).1 = .finished := by
        revert hq; unfold arrivalF; simp only; split <;> simp
      simp only [life, Option.map_some]
      have : arrivalF fe s.flights.length pkt (some nd) = (.finished, (arrivalF fe s.flights.length pkt (some nd)).2) := by
        rw [← hfin]
      rw [this, react_finished]

/-! ### the canonical form of a life: only the first `start`, and the first `done` after it, count -/

def started : List Tok → Bool
  | [] => false
  | .start :: _ => true
  | _ :: r => started r

/-- the events after the first `start` -/
def afterStart : List Tok → List Tok
  | [] => []
  | .start :: r => r
  | _ :: r => afterStart r

def firstDone : List Tok → Option Verdict
  | [] => none
  | .done v :: _ => some v
  | _ :: r => firstDone r

/-- what the validator answered: the first `done` after the first `start` -/
def answer (toks : List Tok) : Option Verdict := firstDone (afterStart toks)

theorem conclude_fst (fe : FrontEnd) (i : Iid) (nd : TNode) (v : Verdict) : (conclude fe i nd v).1 = .finished := by
  unfold conclude; split
  · split <;> rfl
  · rfl

theorem doneF_fst (fe : FrontEnd) (i : Iid) (nd : TNode) (v : Verdict) : (doneF fe i nd v).1 = .finished := by
  unfold doneF; split
  · exact conclude_fst _ _ _ _
  · rfl

theorem startF_fst (fe : FrontEnd) (av : Vid) (i : Iid) (pkt : IntPkt) (nd : TNode) :
    (startF fe av i pkt nd).1 = .finished ∨
      ∃ vid, startF fe av i pkt nd = (.validating vid, [.validate i vid]) := by
  unfold startF
  split
  · split
    · exact .inr ⟨_, rfl⟩
    · exact .inl (conclude_fst _ _ _ _)
    · exact .inr ⟨_, rfl⟩
  · exact .inl (conclude_fst _ _ _ _)

theorem foldl_validating (fe : FrontEnd) (av : Vid) (i : Iid) (pkt : IntPkt) (nd : TNode) (vid : Vid) (l : List Obs)
    (toks : List Tok) :
    toks.foldl (react fe av i pkt nd) (.validating vid, l) =
      match firstDone toks with
      | none => (.validating vid, l)
      | some v => (.finished, l ++ (doneF fe i nd v).2) := by
  induction toks with
  | nil => rfl
  | cons t r ih =>
    cases t with
    | start => simpa [react, firstDone] using ih
    | done v =>
      simp only [List.foldl_cons, react, firstDone, doneF_fst]
      exact react_finished _ _ _ _ _ _ _

theorem foldl_queued (fe : FrontEnd) (av : Vid) (i : Iid) (pkt : IntPkt) (nd : TNode) (l : List Obs) (toks : List Tok) :
    toks.foldl (react fe av i pkt nd) (.queued, l) =
      if started toks then
        (afterStart toks).foldl (react fe av i pkt nd) ((startF fe av i pkt nd).1, l ++ (startF fe av i pkt nd).2)
      else (.queued, l) := by
  induction toks with
  | nil => rfl
  | cons t r ih =>
    cases t with
    | start => simp [react, started, afterStart]
    | done v => simp only [List.foldl_cons, react, started, afterStart]; exact ih

/-- **canonical form.**  Of all the `start` / `done` events of an Interest only the first `start` and the first
    `done` after it have any effect. -/
theorem life_eq (fe : FrontEnd) (av : Vid) (i : Iid) (pkt : IntPkt) (nd : TNode) (toks : List Tok) :
    life fe av i pkt (some nd) toks =
      if (arrivalF fe i pkt (some nd)).1 = .queued ∧ started toks = true then
        match (startF fe av i pkt nd).1, answer toks with
        | .validating _, some v =>
          (.finished, (arrivalF fe i pkt (some nd)).2 ++ (startF fe av i pkt nd).2 ++ (doneF fe i nd v).2)
        | _, _ => ((startF fe av i pkt nd).1, (arrivalF fe i pkt (some nd)).2 ++ (startF fe av i pkt nd).2)
      else arrivalF fe i pkt (some nd) := by
  simp only [life]
  have harr : (arrivalF fe i pkt (some nd)).1 = .queued ∨ (arrivalF fe i pkt (some nd)).1 = .finished := by
    unfold arrivalF; simp only; split <;> simp
  rcases harr with hq | hf
  · have e0 : arrivalF fe i pkt (some nd) = (.queued, (arrivalF fe i pkt (some nd)).2) := by rw [← hq]
    rw [e0, foldl_queued]
    cases hs : started toks with
    | false => simp
    | true =>
      simp only [if_true, true_and]
      rcases startF_fst fe av i pkt nd with h1 | ⟨vid, h1⟩
      · have e1 : ((startF fe av i pkt nd).1, (arrivalF fe i pkt (some nd)).2 ++ (startF fe av i pkt nd).2) =
            (.finished, (arrivalF fe i pkt (some nd)).2 ++ (startF fe av i pkt nd).2) := by rw [h1]
        rw [e1, react_finished, h1]
      · rw [h1]
        simp only [foldl_validating, answer]
        cases firstDone (afterStart toks) <;> simp
  · have e0 : arrivalF fe i pkt (some nd) = (.finished, (arrivalF fe i pkt (some nd)).2) := by rw [← hf]
    rw [e0, react_finished]
    simp

theorem run_snoc (fe : FrontEnd) (av : Vid) (evs : List Ev) (e : Ev) :
    run fe av (evs ++ [e]) = step fe av (run fe av evs) e := by
  simp [run, runFrom, List.foldl_append]

def isArrive : Ev → Bool
  | .arrive _ _ => true
  | _ => false

/-- how many Interests have arrived: the number the next one gets -/
def arrivals (evs : List Ev) : Nat := (evs.filter isArrive).length

theorem flights_length_step (fe : FrontEnd) (av : Vid) (s : St) (e : Ev) :
    (step fe av s e).flights.length = s.flights.length + (if isArrive e then 1 else 0) := by
  cases e with
  | attach p h v => simp only [step, isArrive]; rw [(attach_flights fe s p h v).1]; rfl
  | detach p => simp only [step, isArrive]; rw [(detach_flights s p).1]; rfl
  | arrive n pkt => simp only [step, isArrive, arrive_eq]; simp
  | deadline j => rfl
  | start j =>
    rcases step_start_cases fe av s j with ⟨he, _⟩ | ⟨fl0, a0, nd0, _, _, _, _, he⟩
    · rw [he]; rfl
    · rw [he]; simp [setPhase, isArrive]
  | done j v =>
    rcases step_done_cases fe av s j v with ⟨he, _⟩ | ⟨fl0, vid, a0, nd0, _, _, _, _, he⟩
    · rw [he]; rfl
    · rw [he]; simp [setPhase, isArrive]

theorem flights_length_run (fe : FrontEnd) (av : Vid) (evs : List Ev) : (run fe av evs).flights.length = arrivals evs := by
  induction evs using snoc_induction with
  | nil => rfl
  | append_singleton l e ih =>
    rw [run_snoc, flights_length_step, ih]
    simp only [arrivals, List.filter_append, List.length_append]
    cases h : isArrive e <;> simp [h]

/-- **one Interest, any history** (from the empty application): the Interest that arrives after `pre` gets the number
    `arrivals pre`, and what is observed about it after any continuation `post` is `life` of what the table held for
    its name at the instant of arrival and of its own events in `post`. -/
theorem run_flight_obs (fe : FrontEnd) (av : Vid) (pre post : List Ev) (n : Name) (pkt : IntPkt) :
    obsOf (arrivals pre) (run fe av (pre ++ .arrive n pkt :: post)).log =
      (life fe av (arrivals pre) pkt ((capture (run fe av pre) n).map (·.2)) (post.filterMap (tokOf (arrivals pre)))).2 := by
  have h := flight_obs fe av (run fe av pre) (logBound_run fe av pre) n pkt post
  rw [flights_length_run] at h
  obtain ⟨fl, _, _, _, hv⟩ := h
  have e : run fe av (pre ++ .arrive n pkt :: post) = runFrom fe av (arrive fe (run fe av pre) n pkt) post := by
    simp only [run, runFrom_append, runFrom_cons, step]
  rw [e, ← hv]

end Ndn.GateTimed
