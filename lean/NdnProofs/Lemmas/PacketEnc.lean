import NdnModel.PacketEnc
import NdnProofs.Lemmas.Shrink
import NdnProofs.Lemmas.CodecRT
/-! Lemmas for make_data / make_interest: the reserved signature space and the outer shrink. -/
namespace Ndn.Packet
open Ndn Ndn.Codec

theorem writeTlNum_small (n : Nat) (h : n ≤ 252) : writeTlNum n = [UInt8.ofNat n] := by
  simp [writeTlNum, h, be1]

/-- what `SignatureValueField` leaves in the buffer: the real element followed by `shrink` unused bytes -/
theorem sigValueElem_ok (t : Nat) (s : SignerOut) (hle : s.sig.length ≤ s.reserved)
    (hr : s.reserved < 2 ^ 64) (hflex : s.sig.length = s.reserved ∨ s.reserved < 253) :
    ∃ junk, sigValueElem t s = .ok (writeTlNum t ++ writeTlNum s.sig.length ++ s.sig ++ junk,
        s.reserved - s.sig.length) ∧ junk.length = s.reserved - s.sig.length := by
  unfold sigValueElem
  have h1 : ¬ s.sig.length > s.reserved := by omega
  have h2 : ¬ s.reserved ≥ 2 ^ 64 := by omega
  simp only [h1, h2, if_false]
  by_cases heq : s.sig.length = s.reserved
  · refine ⟨[], ?_, by simp [heq]⟩
    simp [heq]
  · have hlt : s.reserved < 253 := by rcases hflex with h | h; exact absurd h heq; exact h
    have h3 : ¬ s.reserved ≥ 253 := by omega
    refine ⟨List.replicate (s.reserved - s.sig.length) 0, ?_, by simp⟩
    simp only [heq, if_false, h3]
    rw [writeTlNum_small s.sig.length (by omega)]

/-- **rejects**: a signature shorter than a reserved space of 253 bytes or more cannot be repaired in
    place (the Length would change its own size) — `ValueError`, as documented in the code -/
theorem sigValueElem_long_flexible (t : Nat) (s : SignerOut) (hlt : s.sig.length < s.reserved)
    (hbig : 253 ≤ s.reserved) (hr : s.reserved < 2 ^ 64) : sigValueElem t s = .error .valueError := by
  unfold sigValueElem
  have h1 : ¬ s.sig.length > s.reserved := by omega
  have h2 : ¬ s.reserved ≥ 2 ^ 64 := by omega
  have h3 : ¬ s.sig.length = s.reserved := by omega
  simp [h1, h2, h3, hbig]

/-- the outer element after the shrink: exactly `tlv outer (keep)` where `keep` drops the unused tail -/
theorem wrapShrink_spec (outer : Nat) (keep junk : Bytes) (ho : outer < 2 ^ 64)
    (hl : (keep ++ junk).length < 2 ^ 64) :
    wrapShrink outer (keep ++ junk) junk.length = .ok (tlv outer keep) := by
  unfold wrapShrink
  have h1 : ¬ (keep ++ junk).length ≥ 2 ^ 64 := by omega
  simp only [h1, if_false]
  by_cases hj : junk.length > 0
  · simp only [hj, if_true]
    have := shrink_spec outer (keep ++ junk).length junk.length (keep ++ junk) ho hl rfl hj (by simp)
    rw [this]
    have e : (keep ++ junk).length - junk.length = keep.length := by simp
    rw [e, List.take_left']
    · rfl
    · rfl
  · have : junk = [] := by
      cases junk with
      | nil => rfl
      | cons _ _ => simp at hj
    subst this
    simp [tlv]

theorem encFields_append_one (fs : List Schema) (vs : List Value) (s : Schema) (v : Value) (p b : Bytes)
    (hlen : vs.length = fs.length) (h : encFields fs vs = .ok p) (hb : enc s v = .ok b) :
    encFields (fs ++ [s]) (vs ++ [v]) = .ok (p ++ b) := by
  induction fs generalizing vs p with
  | nil =>
    cases vs with
    | nil => simp [encFields] at h; subst h; simp [encFields, hb, bind, Except.bind, pure, Except.pure]
    | cons _ _ => simp at hlen
  | cons f fr ih =>
    cases vs with
    | nil => simp at hlen
    | cons x xs =>
      simp only [encFields] at h
      obtain ⟨a, ha, h2⟩ := bind_ok h
      obtain ⟨c, hc, h3⟩ := bind_ok h2
      simp only [pure, Except.pure] at h3; cases h3
      have := ih xs c (by simpa using hlen) hc
      simp [encFields, ha, this, bind, Except.bind, pure, Except.pure, List.append_assoc]

end Ndn.Packet
