import NdnProofs.Lemmas.PacketParse
/-!
  The scan loop on schemas with OffsetMarker pseudo-fields in the middle (InterestPacketValue):
  a block of `k` markers followed by marker-free fields.  When the loop reaches the first element that
  belongs to a field behind the block, every marker of the block records that element's offset; within
  the marker-free stretch `skipping_process` changes nothing.
-/
namespace Ndn.Codec
open Ndn

def isMarker : Schema → Bool
  | .marker => true
  | _ => false

/-- no OffsetMarker among the fields with index in `[lo, hi)` (same recursion as `skipMarkers`) -/
def noMarkerIn : List Schema → Nat → Nat → Bool
  | [], _, _ => true
  | s :: ss, lo, hi => (if lo = 0 ∧ 0 < hi then !isMarker s else true) && noMarkerIn ss (lo - 1) (hi - 1)

theorem skipMarkers_noop : ∀ (fs : List Schema) (acc : List Value) (lo hi off : Nat),
    noMarkerIn fs lo hi = true → skipMarkers fs acc lo hi off = acc
  | [], acc, _, _, _, _ => by cases acc <;> simp [skipMarkers]
  | _ :: _, [], _, _, _, _ => by simp [skipMarkers]
  | s :: ss, v :: vs, lo, hi, off, h => by
    simp only [noMarkerIn, Bool.and_eq_true] at h
    simp only [skipMarkers]
    rw [skipMarkers_noop ss vs _ _ _ h.2]
    congr 1
    split
    · rename_i hc
      have := h.1
      simp only [hc, and_self, if_true] at this
      cases s <;> simp_all [isMarker]
    · rfl

theorem noMarkerIn_mono : ∀ (fs : List Schema) (lo hi lo' hi' : Nat),
    noMarkerIn fs lo hi = true → lo ≤ lo' → hi' ≤ hi → noMarkerIn fs lo' hi' = true
  | [], _, _, _, _, _, _, _ => rfl
  | s :: ss, lo, hi, lo', hi', h, h1, h2 => by
    simp only [noMarkerIn, Bool.and_eq_true] at h ⊢
    refine ⟨?_, noMarkerIn_mono ss _ _ _ _ h.2 (by omega) (by omega)⟩
    split
    · rename_i hc
      have hc' : lo = 0 ∧ 0 < hi := by omega
      have := h.1
      simpa only [hc', and_self, if_true] using this
    · rfl

/-- a bound beyond the end of the schema is as good as the end -/
theorem noMarkerIn_len : ∀ (fs : List Schema) (lo hi : Nat),
    noMarkerIn fs lo fs.length = true → noMarkerIn fs lo hi = true
  | [], _, _, _ => rfl
  | s :: ss, lo, hi, h => by
    simp only [noMarkerIn, Bool.and_eq_true, List.length_cons] at h ⊢
    refine ⟨?_, noMarkerIn_len ss _ _ (by simpa using h.2)⟩
    split
    · rename_i hc
      have hc' : lo = 0 ∧ 0 < ss.length + 1 := by omega
      have := h.1
      simpa only [hc', and_self, if_true] using this
    · rfl

theorem skipMarkers_append : ∀ (fs1 fs2 : List Schema) (acc1 acc2 : List Value) (lo hi off : Nat),
    acc1.length = fs1.length →
    skipMarkers (fs1 ++ fs2) (acc1 ++ acc2) lo hi off =
      skipMarkers fs1 acc1 lo hi off ++ skipMarkers fs2 acc2 (lo - fs1.length) (hi - fs1.length) off
  | [], fs2, acc1, acc2, lo, hi, off, h => by
    have : acc1 = [] := List.eq_nil_of_length_eq_zero (by simpa using h)
    subst this
    cases fs2 <;> simp [skipMarkers]
  | s :: ss, fs2, [], acc2, lo, hi, off, h => by simp at h
  | s :: ss, fs2, v :: vs, acc2, lo, hi, off, h => by
    simp only [List.cons_append, skipMarkers, List.length_cons]
    rw [skipMarkers_append ss fs2 vs acc2 (lo - 1) (hi - 1) off (by simpa using h)]
    have e1 : lo - 1 - ss.length = lo - (ss.length + 1) := by omega
    have e2 : hi - 1 - ss.length = hi - (ss.length + 1) := by omega
    rw [e1, e2]

/-- a block of markers entirely inside the skipped range: all record the offset -/
theorem skipMarkers_markers : ∀ (k : Nat) (d : List Value) (hi off : Nat), d.length = k → k ≤ hi →
    skipMarkers (List.replicate k Schema.marker) d 0 hi off = List.replicate k (Value.uint off)
  | 0, d, hi, off, hd, _ => by
    have : d = [] := List.eq_nil_of_length_eq_zero hd
    subst this; simp [skipMarkers]
  | k + 1, [], _, _, hd, _ => by simp at hd
  | k + 1, x :: d, hi, off, hd, hhi => by
    have h0 : (0 = 0 ∧ 0 < hi) := ⟨rfl, by omega⟩
    simp only [List.replicate_succ, skipMarkers, h0, and_self, if_true]
    rw [skipMarkers_markers k d (hi - 1) off (by simpa using hd) (by omega)]

theorem nextPos_bounds (it : Item) : it.idx ≤ nextPos it ∧ nextPos it ≤ it.idx + 1 := by
  unfold nextPos; split <;> omega

/-- item indices lie between the start position and the end of the schema -/
theorem ItemsOK_bounds (fs : List Schema) : ∀ (items : List Item) (p : Nat), ItemsOK fs p items →
    ∀ it ∈ items, p ≤ it.idx ∧ it.idx < fs.length
  | [], _, _, _, h => by simp at h
  | x :: r, p, ⟨h1, h2, h3⟩, it, hit => by
    simp only [List.mem_cons] at hit
    rcases hit with rfl | hit
    · exact ⟨h1, (List.getElem?_eq_some_iff.mp h2.1).1⟩
    · have := ItemsOK_bounds fs r _ h3 it hit
      have := nextPos_bounds x
      omega

theorem endPos_bounds (fs : List Schema) : ∀ (items : List Item) (p : Nat), ItemsOK fs p items →
    p ≤ fs.length → p ≤ endPos p items ∧ endPos p items ≤ fs.length
  | [], _, _, h => by simp [endPos, h]
  | x :: r, p, ⟨h1, h2, h3⟩, _ => by
    have hb := nextPos_bounds x
    have hl : x.idx < fs.length := (List.getElem?_eq_some_iff.mp h2.1).1
    have := endPos_bounds fs r (nextPos x) h3 (by omega)
    simp only [endPos]; omega

/-- items stay recognised when fields are appended to the schema -/
theorem ItemsOK_extend (fs T : List Schema) : ∀ (items : List Item) (p : Nat),
    ItemsOK fs p items → ItemsOK (fs ++ T) p items
  | [], _, _ => trivial
  | x :: r, p, ⟨h1, ⟨g1, g2⟩, h3⟩ => by
    refine ⟨h1, ⟨?_, g2⟩, ItemsOK_extend fs T r _ h3⟩
    have hl : x.idx < fs.length := (List.getElem?_eq_some_iff.mp g1).1
    rw [List.getElem?_append_left hl]; exact g1

theorem ItemsOK_append' (fs : List Schema) : ∀ (l1 l2 : List Item) (p q : Nat),
    ItemsOK fs p l1 → endPos p l1 ≤ q → ItemsOK fs q l2 → ItemsOK fs p (l1 ++ l2)
  | [], l2, p, q, _, hpq, h2 => by
    cases l2 with
    | nil => trivial
    | cons y r2 => exact ⟨Nat.le_trans hpq h2.1, h2.2.1, h2.2.2⟩
  | x :: r, l2, p, q, ⟨h1, h2, h3⟩, he, hl2 =>
    ⟨h1, h2, ItemsOK_append' fs r l2 (nextPos x) q h3 he hl2⟩

theorem applyItem_append (acc tl : List Value) (it : Item) (h : it.idx < acc.length) :
    applyItem (acc ++ tl) it = applyItem acc it ++ tl := by
  unfold applyItem
  split
  · rw [List.getElem?_append_left h, List.set_append_left _ _ h]
  · split
    · rw [List.getElem?_append_left h, List.set_append_left _ _ h]
    · rw [List.set_append_left _ _ h]

theorem applyItem_length (acc : List Value) (it : Item) : (applyItem acc it).length = acc.length := by
  unfold applyItem; split
  · simp
  · split <;> simp

/-- values behind the last field the items touch are carried along unchanged -/
theorem foldl_applyItem_append : ∀ (items : List Item) (acc tl : List Value),
    (∀ it ∈ items, it.idx < acc.length) →
    items.foldl applyItem (acc ++ tl) = items.foldl applyItem acc ++ tl
  | [], _, _, _ => rfl
  | x :: r, acc, tl, h => by
    simp only [List.foldl]
    rw [applyItem_append acc tl x (h x (List.mem_cons_self ..))]
    exact foldl_applyItem_append r _ tl (fun it hit => by
      rw [applyItem_length]; exact h it (List.mem_cons_of_mem _ hit))

theorem runItems_append (fs : List Schema) : ∀ (l1 l2 : List Item) (pos off : Nat) (acc : List Value),
    runItems fs pos off acc (l1 ++ l2) =
      runItems fs (endPos pos l1) (off + (encItems l1).length) (runItems fs pos off acc l1) l2
  | [], _, _, _, _ => by simp [runItems, endPos, encItems]
  | x :: r, l2, pos, off, acc => by
    simp only [List.cons_append, runItems, endPos, encItems, List.length_append]
    rw [runItems_append fs r l2, Nat.add_assoc]

/-- inside a marker-free stretch `[lo, hi)` of the schema the marker-aware run is the plain fold -/
theorem runItems_noop (fs : List Schema) (lo hi : Nat) (hno : noMarkerIn fs lo hi = true) :
    ∀ (items : List Item) (pos off : Nat) (acc : List Value), lo ≤ pos →
      ItemsOK fs pos items → (∀ it ∈ items, it.idx ≤ hi) →
      runItems fs pos off acc items = items.foldl applyItem acc
  | [], _, _, _, _, _, _ => rfl
  | x :: r, pos, off, acc, hp, ⟨h1, _, h3⟩, hall => by
    simp only [runItems, List.foldl]
    rw [skipMarkers_noop fs acc pos x.idx off
      (noMarkerIn_mono fs lo hi pos x.idx hno hp (hall x (List.mem_cons_self ..)))]
    have := nextPos_bounds x
    exact runItems_noop fs lo hi hno r _ _ _ (by omega) h3
      (fun it hit => hall it (List.mem_cons_of_mem _ hit))

/-- **marker block.**  Schema `P ++ k markers ++ S`, scan position `pos ≤ |P|` with no marker left in
    `P` from `pos` on, items that all belong to the first `n` (marker-free) fields of `S`: the `k` markers
    record the offset `off` of the first item, everything else is the marker-free fold. -/
theorem runItems_block (P S : List Schema) (k n pos off : Nat)
    (hP : noMarkerIn P pos P.length = true) (hS : noMarkerIn S 0 n = true)
    (hfs : noMarkerIn (P ++ (List.replicate k Schema.marker ++ S)) (P.length + k) (P.length + k + n) = true)
    (hpos : pos ≤ P.length)
    (accP d accS : List Value) (hlP : accP.length = P.length) (hd : d.length = k)
    (it : Item) (r : List Item)
    (hok : ItemsOK (P ++ (List.replicate k Schema.marker ++ S)) pos (it :: r))
    (hidx : ∀ x ∈ it :: r, P.length + k ≤ x.idx ∧ x.idx < P.length + k + n) :
    runItems (P ++ (List.replicate k Schema.marker ++ S)) pos off (accP ++ (d ++ accS)) (it :: r)
      = (it :: r).foldl applyItem (accP ++ (List.replicate k (Value.uint off) ++ accS)) := by
  obtain ⟨h1, _, h3⟩ := hok
  have hi := hidx it (List.mem_cons_self ..)
  simp only [runItems, List.foldl]
  have hstep : skipMarkers (P ++ (List.replicate k Schema.marker ++ S)) (accP ++ (d ++ accS)) pos it.idx off
      = accP ++ (List.replicate k (Value.uint off) ++ accS) := by
    rw [skipMarkers_append P _ accP _ pos it.idx off hlP,
      skipMarkers_noop P accP pos it.idx off (noMarkerIn_len P pos it.idx hP),
      skipMarkers_append (List.replicate k Schema.marker) S d accS _ _ off (by simpa using hd)]
    have e0 : pos - P.length = 0 := by omega
    simp only [e0, List.length_replicate, Nat.zero_sub]
    rw [skipMarkers_markers k d (it.idx - P.length) off hd (by omega),
      skipMarkers_noop S accS 0 _ off (noMarkerIn_mono S 0 n 0 _ hS (Nat.le_refl _) (by omega))]
  rw [hstep]
  have := nextPos_bounds it
  exact runItems_noop _ _ _ hfs r _ _ _ (by omega) h3
    (fun x hx => by have := hidx x (List.mem_cons_of_mem _ hx); omega)

end Ndn.Codec
